package main

// Source census: structural facts about /repo that the models of Io.v/Reader.v
// (every read of the source goes through io.ReadFull/io.CopyN/binary.Read or
// the thrift transport) and Pool.v (the buffer pools are the only shared
// mutable state; every Get is paired with a deferred Put; no goroutines)
// assume.  Emitted as Coq constants so that props/C08.v, props/C13.v state
// them as obligations discharged by reflexivity against this run's source.

import (
	"bytes"
	"encoding/json"
	"fmt"
	"go/ast"
	"go/parser"
	"go/token"
	"os"
	"sort"
	"strings"
)

type census struct {
	RawSourceReads    []string `json:"raw_source_reads"`
	RleReads          []string `json:"rle_reads_of_in_memory_reader"`
	ReadLevelsNotMem  []string `json:"read_levels_calls_not_on_in_memory_buffer"`
	GetsWithoutDefer  []string `json:"pool_gets_without_deferred_put"`
	GoStatements      []string `json:"go_statements"`
	RuntimeVars       []string `json:"runtime_package_vars"`
	GeneratedVars     []string `json:"generated_package_vars"`
	PoolGets          int      `json:"pool_gets"`
	SourceReadHelpers int      `json:"readfull_copyn_binaryread_calls"`
}

// isSourceType: the declared type of a parameter/field that is the caller's io.Reader / io.ReadSeeker
func isSourceType(e ast.Expr) bool {
	se, ok := e.(*ast.SelectorExpr)
	if !ok {
		return false
	}
	id, ok := se.X.(*ast.Ident)
	return ok && id.Name == "io" && (se.Sel.Name == "Reader" || se.Sel.Name == "ReadSeeker")
}

func scanFile(fset *token.FileSet, path string, c *census, vars *[]string) {
	inRle := strings.Contains(path, "internal/rle/")
	f, err := parser.ParseFile(fset, path, nil, 0)
	if err != nil {
		die("census: %v", err)
	}
	for _, d := range f.Decls {
		if gd, ok := d.(*ast.GenDecl); ok && gd.Tok == token.VAR {
			for _, s := range gd.Specs {
				for _, n := range s.(*ast.ValueSpec).Names {
					if n.Name != "_" {
						*vars = append(*vars, n.Name)
					}
				}
			}
		}
		fn, ok := d.(*ast.FuncDecl)
		if !ok || fn.Body == nil {
			continue
		}
		// names bound to the caller's source in this function: parameters (and receiver fields r.r of readCounter)
		src := map[string]bool{}
		if fn.Type.Params != nil {
			for _, p := range fn.Type.Params.List {
				if isSourceType(p.Type) {
					for _, n := range p.Names {
						src[n.Name] = true
					}
				}
			}
		}
		ast.Inspect(fn.Body, func(n ast.Node) bool {
			switch x := n.(type) {
			case *ast.GoStmt:
				c.GoStatements = append(c.GoStatements, fset.Position(x.Pos()).String())
			case *ast.CallExpr:
				if id, ok := x.Fun.(*ast.Ident); ok && id.Name == "readLevels" && len(x.Args) > 0 {
					// the level decoder (internal/rle) reads with single Read calls: sound only on an in-memory buffer
					mem := false
					if call, ok := x.Args[0].(*ast.CallExpr); ok {
						if se, ok := call.Fun.(*ast.SelectorExpr); ok {
							if pid, ok := se.X.(*ast.Ident); ok && pid.Name == "bytes" && (se.Sel.Name == "NewBuffer" || se.Sel.Name == "NewReader") {
								mem = true
							}
						}
					}
					if !mem {
						c.ReadLevelsNotMem = append(c.ReadLevelsNotMem, fset.Position(x.Pos()).String())
					}
				}
				if se, ok := x.Fun.(*ast.SelectorExpr); ok {
					if id, ok := se.X.(*ast.Ident); ok {
						if se.Sel.Name == "Read" && src[id.Name] {
							if inRle {
								c.RleReads = append(c.RleReads, fset.Position(x.Pos()).String())
							} else {
								c.RawSourceReads = append(c.RawSourceReads, fset.Position(x.Pos()).String())
							}
						}
						if id.Name == "io" && (se.Sel.Name == "ReadFull" || se.Sel.Name == "CopyN") || id.Name == "binary" && se.Sel.Name == "Read" {
							c.SourceReadHelpers++
						}
					}
				}
			case *ast.BlockStmt:
				for i, st := range x.List {
					as, ok := st.(*ast.AssignStmt)
					if !ok || len(as.Rhs) != 1 || len(as.Lhs) != 1 {
						continue
					}
					call, ok := as.Rhs[0].(*ast.CallExpr)
					if !ok {
						continue
					}
					se, ok := call.Fun.(*ast.SelectorExpr)
					if !ok || se.Sel.Name != "Get" {
						continue
					}
					if id, ok := se.X.(*ast.Ident); !ok || id.Name != "buffpool" {
						continue
					}
					c.PoolGets++
					lhs, _ := as.Lhs[0].(*ast.Ident)
					paired := false
					if i+1 < len(x.List) {
						if ds, ok := x.List[i+1].(*ast.DeferStmt); ok {
							if pse, ok := ds.Call.Fun.(*ast.SelectorExpr); ok && pse.Sel.Name == "Put" && len(ds.Call.Args) == 1 {
								if pid, ok := pse.X.(*ast.Ident); ok && pid.Name == "buffpool" {
									if a, ok := ds.Call.Args[0].(*ast.Ident); ok && lhs != nil && a.Name == lhs.Name {
										paired = true
									}
								}
							}
						}
					}
					if !paired {
						c.GetsWithoutDefer = append(c.GetsWithoutDefer, fset.Position(as.Pos()).String())
					}
				}
			}
			return true
		})
	}
}

func coqStrings(l []string) string {
	q := make([]string, len(l))
	for i, s := range l {
		q[i] = "\"" + strings.ReplaceAll(s, "\"", "'") + "\""
	}
	return "[" + strings.Join(q, "; ") + "]"
}

// censusMain: translator census <repo> <generated parquet.go> <out.v> <out.json>
func censusMain(args []string) {
	if len(args) != 4 {
		die("usage: translator census <repo> <generated.go> <out.v> <out.json>")
	}
	repo, gen := args[0], args[1]
	fset := token.NewFileSet()
	var c census
	for _, f := range []string{"fields.go", "parquet.go"} {
		scanFile(fset, repo+"/"+f, &c, &c.RuntimeVars)
	}
	var dummy []string
	for _, f := range []string{"internal/rle/rle.go", "internal/rle/buf.go", "internal/bitpack/bitpack.go"} {
		scanFile(fset, repo+"/"+f, &c, &dummy)
	}
	scanFile(fset, gen, &c, &c.GeneratedVars)
	sort.Strings(c.RuntimeVars)
	sort.Strings(c.GeneratedVars)
	rel := func(l []string) []string {
		out := make([]string, len(l))
		for i, s := range l {
			s = strings.TrimPrefix(s, repo+"/")
			if i := strings.LastIndex(s, "/"); strings.HasPrefix(s, "/") && i >= 0 {
				s = s[i+1:]
			}
			out[i] = s
		}
		return out
	}
	c.RawSourceReads, c.GetsWithoutDefer, c.GoStatements = rel(c.RawSourceReads), rel(c.GetsWithoutDefer), rel(c.GoStatements)
	c.RleReads, c.ReadLevelsNotMem = rel(c.RleReads), rel(c.ReadLevelsNotMem)
	var b bytes.Buffer
	b.WriteString("(* GENERATED by /verif/go/translator (census) from /repo's working tree and from code generated now by parquetgen. DO NOT EDIT. *)\n")
	b.WriteString("From Coq Require Import List String.\nImport ListNotations.\nLocal Open Scope string_scope.\n\n")
	fmt.Fprintf(&b, "(* calls x.Read(..) where x is an io.Reader / io.ReadSeeker parameter: a raw, possibly short read of the caller's source *)\nDefinition raw_source_reads : list string := %s.\n\n", coqStrings(c.RawSourceReads))
	fmt.Fprintf(&b, "(* internal/rle reads its io.Reader with single Read calls; sound because every call of readLevels passes an in-memory buffer: *)\nDefinition read_levels_calls_not_on_in_memory_buffer : list string := %s.\nDefinition rle_single_reads : nat := %d.\n\n", coqStrings(c.ReadLevelsNotMem), len(c.RleReads))
	fmt.Fprintf(&b, "(* buffpool.Get() not immediately followed by `defer buffpool.Put(<same variable>)` *)\nDefinition pool_gets_without_deferred_put : list string := %s.\n\n", coqStrings(c.GetsWithoutDefer))
	fmt.Fprintf(&b, "Definition pool_gets : nat := %d.\n\n", c.PoolGets)
	fmt.Fprintf(&b, "Definition go_statements : list string := %s.\n\n", coqStrings(c.GoStatements))
	fmt.Fprintf(&b, "(* package-level variables of package parquet (fields.go, parquet.go) and of the generated package *)\nDefinition runtime_package_vars : list string := %s.\nDefinition generated_package_vars : list string := %s.\n", coqStrings(c.RuntimeVars), coqStrings(c.GeneratedVars))
	old, _ := os.ReadFile(args[2])
	if !bytes.Equal(old, b.Bytes()) {
		if err := os.WriteFile(args[2], b.Bytes(), 0o644); err != nil {
			die("%v", err)
		}
	}
	js, _ := json.MarshalIndent(c, "", " ")
	os.WriteFile(args[3], js, 0o644)
}
