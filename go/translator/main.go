// Command translator turns /repo/internal/bitpack/bitpack.go into a Coq file
// holding, for every packN/unpackN function, the list of byte expressions it
// computes, as terms of the deep-embedded language of PQ.BitExpr.  Anything
// outside the recognised fragment is a hard error: the proofs must never be
// about something the source does not say.
package main

import (
	"bytes"
	"fmt"
	"go/ast"
	"go/parser"
	"go/token"
	"os"
	"sort"
	"strconv"
	"strings"
)

func die(format string, a ...interface{}) {
	fmt.Fprintf(os.Stderr, "translator: "+format+"\n", a...)
	os.Exit(2)
}

// expr translates a Go expression over the parameter `param` (a slice indexed
// by constants) into a bexpr term.
func expr(e ast.Expr, param string) string {
	switch x := e.(type) {
	case *ast.ParenExpr:
		return expr(x.X, param)
	case *ast.CallExpr:
		// byte(e) / uint8(e): conversions between 8-bit unsigned types.
		id, ok := x.Fun.(*ast.Ident)
		if !ok || (id.Name != "byte" && id.Name != "uint8") || len(x.Args) != 1 {
			die("unsupported call %v", x.Fun)
		}
		return expr(x.Args[0], param)
	case *ast.IndexExpr:
		id, ok := x.X.(*ast.Ident)
		if !ok || id.Name != param {
			die("index into %v, expected %s", x.X, param)
		}
		lit, ok := x.Index.(*ast.BasicLit)
		if !ok || lit.Kind != token.INT {
			die("non-constant index")
		}
		return fmt.Sprintf("(BVar %s%%nat)", lit.Value)
	case *ast.BinaryExpr:
		switch x.Op {
		case token.OR:
			return fmt.Sprintf("(BOr %s %s)", expr(x.X, param), expr(x.Y, param))
		case token.AND, token.SHL, token.SHR:
			lit, ok := x.Y.(*ast.BasicLit)
			if !ok || lit.Kind != token.INT {
				die("non-constant right operand of %s", x.Op)
			}
			n, err := strconv.ParseUint(lit.Value, 0, 64)
			if err != nil {
				die("bad constant %s", lit.Value)
			}
			c := map[token.Token]string{token.AND: "BAnd", token.SHL: "BShl", token.SHR: "BShr"}[x.Op]
			if x.Op == token.AND && n > 255 {
				die("mask %d does not fit a byte", n)
			}
			return fmt.Sprintf("(%s %s %d)", c, expr(x.X, param), n)
		}
		die("unsupported operator %s", x.Op)
	}
	die("unsupported expression %T", e)
	return ""
}

type table struct {
	name  string
	exprs []string
}

// packBody: `return append(b, e1, e2, ...)`; unpackBody: `return []uint8{e1, ...}`.
func body(fn *ast.FuncDecl) table {
	if fn.Body == nil || len(fn.Body.List) != 1 {
		die("%s: expected a single return statement", fn.Name.Name)
	}
	ret, ok := fn.Body.List[0].(*ast.ReturnStmt)
	if !ok || len(ret.Results) != 1 {
		die("%s: expected a single return value", fn.Name.Name)
	}
	params := fn.Type.Params.List
	t := table{name: fn.Name.Name}
	switch r := ret.Results[0].(type) {
	case *ast.CallExpr: // append(b, ...)
		id, ok := r.Fun.(*ast.Ident)
		if !ok || id.Name != "append" || len(params) != 2 {
			die("%s: expected append(b, ...)", fn.Name.Name)
		}
		dst, ok := r.Args[0].(*ast.Ident)
		if !ok || dst.Name != params[0].Names[0].Name || r.Ellipsis != token.NoPos {
			die("%s: append target is not the first parameter", fn.Name.Name)
		}
		for _, a := range r.Args[1:] {
			t.exprs = append(t.exprs, expr(a, params[1].Names[0].Name))
		}
	case *ast.CompositeLit: // []uint8{...}
		if len(params) != 1 {
			die("%s: expected one parameter", fn.Name.Name)
		}
		for _, a := range r.Elts {
			t.exprs = append(t.exprs, expr(a, params[0].Names[0].Name))
		}
	default:
		die("%s: unsupported return %T", fn.Name.Name, r)
	}
	return t
}

// dispatch: `switch width { case k: return fK(args) ... default: return <empty> }`
func dispatch(fn *ast.FuncDecl, prefix string) map[int]string {
	out := map[int]string{}
	if len(fn.Body.List) != 1 {
		die("%s: expected a single switch", fn.Name.Name)
	}
	sw, ok := fn.Body.List[0].(*ast.SwitchStmt)
	if !ok {
		die("%s: expected a switch", fn.Name.Name)
	}
	if id, ok := sw.Tag.(*ast.Ident); !ok || id.Name != "width" {
		die("%s: switch is not on width", fn.Name.Name)
	}
	for _, s := range sw.Body.List {
		cc := s.(*ast.CaseClause)
		if cc.List == nil { // default: must return without packing anything
			if len(cc.Body) != 1 {
				die("%s: default case", fn.Name.Name)
			}
			ret, ok := cc.Body[0].(*ast.ReturnStmt)
			if !ok || len(ret.Results) != 1 {
				die("%s: default case", fn.Name.Name)
			}
			switch r := ret.Results[0].(type) {
			case *ast.Ident:
			case *ast.CompositeLit:
				if len(r.Elts) != 0 {
					die("%s: default returns data", fn.Name.Name)
				}
			default:
				die("%s: default case returns %T", fn.Name.Name, r)
			}
			continue
		}
		if len(cc.List) != 1 || len(cc.Body) != 1 {
			die("%s: case shape", fn.Name.Name)
		}
		lit, ok := cc.List[0].(*ast.BasicLit)
		if !ok {
			die("%s: non literal case", fn.Name.Name)
		}
		k, _ := strconv.Atoi(lit.Value)
		ret, ok := cc.Body[0].(*ast.ReturnStmt)
		if !ok || len(ret.Results) != 1 {
			die("%s: case body", fn.Name.Name)
		}
		call, ok := ret.Results[0].(*ast.CallExpr)
		if !ok {
			die("%s: case body is not a call", fn.Name.Name)
		}
		callee, ok := call.Fun.(*ast.Ident)
		if !ok || !strings.HasPrefix(callee.Name, prefix) {
			die("%s: case calls %v", fn.Name.Name, call.Fun)
		}
		// arguments must be the function's own parameters, in order, minus width
		var want []string
		for _, p := range fn.Type.Params.List {
			for _, n := range p.Names {
				if n.Name != "width" {
					want = append(want, n.Name)
				}
			}
		}
		if len(call.Args) != len(want) {
			die("%s: case %d passes %d args", fn.Name.Name, k, len(call.Args))
		}
		for i, a := range call.Args {
			if id, ok := a.(*ast.Ident); !ok || id.Name != want[i] {
				die("%s: case %d argument %d is not %s", fn.Name.Name, k, i, want[i])
			}
		}
		out[k] = callee.Name
	}
	return out
}

func main() {
	if len(os.Args) > 1 && os.Args[1] == "census" {
		censusMain(os.Args[2:])
		return
	}
	if len(os.Args) != 3 {
		die("usage: translator <bitpack.go> <out.v>")
	}
	fset := token.NewFileSet()
	f, err := parser.ParseFile(fset, os.Args[1], nil, 0)
	if err != nil {
		die("%v", err)
	}
	tables := map[string]table{}
	var packD, unpackD map[int]string
	for _, d := range f.Decls {
		fn, ok := d.(*ast.FuncDecl)
		if !ok || fn.Recv != nil {
			continue
		}
		switch {
		case fn.Name.Name == "Pack":
			packD = dispatch(fn, "pack")
		case fn.Name.Name == "Unpack":
			unpackD = dispatch(fn, "unpack")
		case strings.HasPrefix(fn.Name.Name, "pack"), strings.HasPrefix(fn.Name.Name, "unpack"):
			tables[fn.Name.Name] = body(fn)
		default:
			die("unexpected function %s in bitpack.go", fn.Name.Name)
		}
	}
	if packD == nil || unpackD == nil {
		die("Pack/Unpack not found")
	}
	var b bytes.Buffer
	b.WriteString("(* GENERATED by /verif/go/translator from internal/bitpack/bitpack.go. DO NOT EDIT. *)\n")
	b.WriteString("From Coq Require Import List NArith.\nFrom PQ Require Import BitExpr.\nImport ListNotations.\nLocal Open Scope N_scope.\n\n")
	var names []string
	for n := range tables {
		names = append(names, n)
	}
	sort.Strings(names)
	for _, n := range names {
		fmt.Fprintf(&b, "Definition tbl_%s : list bexpr :=\n  [ %s ].\n\n", n, strings.Join(tables[n].exprs, ";\n    "))
	}
	emit := func(name string, d map[int]string) {
		var ks []int
		for k := range d {
			ks = append(ks, k)
		}
		sort.Ints(ks)
		fmt.Fprintf(&b, "Definition %s (w : N) : list bexpr :=\n  match w with\n", name)
		for _, k := range ks {
			if _, ok := tables[d[k]]; !ok {
				die("dispatch to unknown function %s", d[k])
			}
			fmt.Fprintf(&b, "  | %d => tbl_%s\n", k, d[k])
		}
		b.WriteString("  | _ => []\n  end.\n\n")
	}
	emit("pack_table", packD)
	emit("unpack_table", unpackD)
	old, _ := os.ReadFile(os.Args[2])
	if !bytes.Equal(old, b.Bytes()) {
		if err := os.WriteFile(os.Args[2], b.Bytes(), 0o644); err != nil {
			die("%v", err)
		}
	}
}
