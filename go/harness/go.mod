module verif/harness

go 1.23

require (
	github.com/golang/snappy v0.0.2
	github.com/parsyl/parquet v0.0.0
)

require (
	github.com/apache/thrift v0.18.1 // indirect
	github.com/valyala/bytebufferpool v1.0.0 // indirect
)

replace github.com/parsyl/parquet => /repo
