// Command codec is the page codec the extracted model is bound to: the very
// snappy.Encode / gzip BestSpeed writer (and their decoders) that
// /repo/fields.go links, reachable over a pipe.  One request per line:
//
//	c <codec> <hex>   ->  <hex>
//	d <codec> <hex>   ->  <hex> | ERR
package main

import (
	"bufio"
	"bytes"
	"compress/gzip"
	"fmt"
	"io"
	"os"
	"strings"

	"github.com/golang/snappy"
	"verif/harness/hlib"
)

func compress(codec string, in []byte) []byte {
	switch codec {
	case "1":
		return snappy.Encode(nil, in)
	case "2":
		var buf bytes.Buffer
		zw, _ := gzip.NewWriterLevel(&buf, gzip.BestSpeed)
		zw.Write(in)
		zw.Close()
		return buf.Bytes()
	}
	return in
}

func decompress(codec string, in []byte) ([]byte, error) {
	switch codec {
	case "1":
		return snappy.Decode(nil, in)
	case "2":
		zr, err := gzip.NewReader(bytes.NewReader(in))
		if err != nil {
			return nil, err
		}
		out, err := io.ReadAll(zr)
		if err != nil {
			return nil, err
		}
		if err := zr.Close(); err != nil {
			return nil, err
		}
		return out, nil
	case "0":
		return in, nil
	}
	return nil, fmt.Errorf("unsupported codec")
}

func main() {
	in := bufio.NewReaderSize(os.Stdin, 1<<20)
	out := bufio.NewWriterSize(os.Stdout, 1<<20)
	for {
		line, err := in.ReadString('\n')
		if line == "" && err != nil {
			return
		}
		f := strings.Fields(line)
		if len(f) == 3 {
			switch f[0] {
			case "c":
				fmt.Fprintln(out, hlib.Hex(compress(f[1], hlib.UnHex(f[2]))))
			case "d":
				b, e := decompress(f[1], hlib.UnHex(f[2]))
				if e != nil {
					fmt.Fprintln(out, "ERR")
				} else {
					fmt.Fprintln(out, hlib.Hex(b))
				}
			}
		} else {
			fmt.Fprintln(out, "ERR")
		}
		out.Flush()
		if err != nil {
			return
		}
	}
}
