package main

import (
	"fmt"
	"runtime"
	"strconv"
	"sync"
	"sync/atomic"

	"github.com/parsyl/parquet"
	"verif/harness/hlib"
)

func casePack(t *hlib.Toks) string {
	w := t.Int()
	vals := t.U8s()
	return hlib.Hex(parquet.VerifPack(w, vals))
}

func caseUnpack(t *hlib.Toks) string {
	w := t.Int()
	bs := t.Bytes()
	return hlib.U8s(parquet.VerifUnpack(w, bs))
}

// specPack is the layout of Encodings.md written in three lines: value i
// occupies bits w*i .. w*i+w-1 of the little-endian word.
func specPack(w int, vals []uint8) []byte {
	var word uint64
	for i, v := range vals {
		word |= uint64(v&(1<<uint(w)-1)) << uint(w*i)
	}
	out := make([]byte, w)
	for i := range out {
		out[i] = byte(word >> uint(8*i))
	}
	return out
}

// brute17 enumerates every 8-tuple for widths 1..maxw and every w-byte group
// on the implementation: the failing-input search of C17 (supporting
// exploration; the proof is in Coq).  Prints "FAIL ..." lines for the first
// failures and a COUNT line.
func brute17(args []string) int {
	maxw, _ := strconv.Atoi(args[0])
	// optional second argument: stride for width 4 (1 = every group; an odd stride such as 257
	// visits a 1/257 sample in which every slot still takes every value against varied neighbours)
	stride4 := uint64(1)
	if len(args) > 1 {
		s, _ := strconv.Atoi(args[1])
		if s > 0 {
			stride4 = uint64(s)
		}
	}
	var mu sync.Mutex
	fails := 0
	total := uint64(0)
	var stop int32
	report := func(s string) {
		mu.Lock()
		if fails < 5 {
			fmt.Println("FAIL " + s)
		}
		fails++
		if fails >= 5 {
			atomic.StoreInt32(&stop, 1) // enough failing inputs: end the search
		}
		mu.Unlock()
	}
	for w := 1; w <= maxw; w++ {
		n := uint64(1) << uint(8*w) // number of 8-tuples = (2^w)^8 = number of w-byte groups
		workers := runtime.NumCPU()
		var wg sync.WaitGroup
		chunk := (n + uint64(workers) - 1) / uint64(workers)
		for k := 0; k < workers; k++ {
			lo, hi := uint64(k)*chunk, uint64(k+1)*chunk
			if hi > n {
				hi = n
			}
			if lo >= hi {
				continue
			}
			wg.Add(1)
			go func(lo, hi uint64) {
				defer wg.Done()
				vals := make([]uint8, 8)
				bs := make([]byte, w)
				mask := uint64(1)<<uint(w) - 1
				step := uint64(1)
				if w == 4 {
					step = stride4
				}
				for x := lo + (step-lo%step)%step; x < hi; x += step {
					if x&1023 == 0 && atomic.LoadInt32(&stop) != 0 {
						return
					}
					for i := 0; i < 8; i++ {
						vals[i] = uint8((x >> uint(w*i)) & mask)
					}
					p := parquet.VerifPack(w, vals)
					s := specPack(w, vals)
					if string(p) != string(s) {
						report(fmt.Sprintf("pack w=%d vals=%v got=%x spec=%x", w, vals, p, s))
						continue
					}
					u := parquet.VerifUnpack(w, p)
					if string(u) != string(vals) {
						report(fmt.Sprintf("unpack(pack) w=%d vals=%v bytes=%x got=%v", w, vals, p, u))
					}
					// the same x read as a w-byte group
					for i := 0; i < w; i++ {
						bs[i] = byte(x >> uint(8*i))
					}
					u2 := parquet.VerifUnpack(w, bs)
					ok := len(u2) == 8
					for _, v := range u2 {
						if uint64(v) > mask {
							ok = false
						}
					}
					if !ok || string(parquet.VerifPack(w, u2)) != string(bs) {
						report(fmt.Sprintf("pack(unpack) w=%d bytes=%x unpacked=%v", w, bs, u2))
					}
				}
			}(lo, hi)
		}
		wg.Wait()
		if w == 4 {
			total += n / stride4
		} else {
			total += n
		}
	}
	fmt.Printf("COUNT groups=%d fails=%d\n", total, fails)
	if fails > 0 {
		return 1
	}
	return 0
}
