package main

import (
	"fmt"
	"os"
	"path/filepath"
	"strings"

	"github.com/parsyl/parquet/cmd/parquetgen/fields"
	"github.com/parsyl/parquet/cmd/parquetgen/parse"
	"verif/harness/hlib"
)

func dumpField(sb *strings.Builder, f fields.Field) {
	fmt.Fprintf(sb, " ( %s %s %d %s %d", hlib.Hex([]byte(f.Name)), hlib.Hex([]byte(f.ColumnName)), int(f.RepetitionType), hlib.Hex([]byte(f.Type)), len(f.Children))
	for _, c := range f.Children {
		dumpField(sb, c)
	}
	sb.WriteString(" )")
}

// parsefields <hex go source>: the column tree parse.Fields("Root", file) builds.
func caseParseFields(t *hlib.Toks) string {
	src := t.Bytes()
	dir, err := os.MkdirTemp(os.Getenv("VERIF_TMP"), "pf")
	if err != nil {
		return "TMPERR"
	}
	defer os.RemoveAll(dir)
	p := filepath.Join(dir, "t.go")
	if err := os.WriteFile(p, src, 0o644); err != nil {
		return "TMPERR"
	}
	res, err := parse.Fields("Root", p)
	if err != nil {
		return "ERR"
	}
	var sb strings.Builder
	fmt.Fprintf(&sb, "TREE errs=%d %d", len(res.Errors), len(res.Parent.Children))
	for _, c := range res.Parent.Children {
		dumpField(&sb, c)
	}
	return sb.String()
}
