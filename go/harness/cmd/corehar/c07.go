package main

import (
	"fmt"

	"github.com/parsyl/parquet"
	"verif/harness/hlib"
)

func caseRleEnc(t *hlib.Toks) string {
	w := t.Int()
	levels := t.U8s()
	return hlib.Hex(parquet.VerifRLEEncode(int32(w), levels))
}

func caseRleDec(t *hlib.Toks) string {
	w := t.Int()
	data := t.Bytes()
	out, n, _, err := parquet.VerifRLEDecode(int32(w), data)
	if err != nil {
		return "ERR"
	}
	return fmt.Sprintf("OK %d %s", n, hlib.U8s(out))
}
