// Command corehar runs the shape-independent cases (bit-packing, RLE, thrift
// footers, introspection) on the real library, built with -tags verif.
//
//	corehar run <cases>            one result line per case on stdout
//	corehar brute17 <maxwidth>     exhaustive C17 search on the implementation
package main

import (
	"fmt"
	"os"

	"verif/harness/hlib"
)

func main() {
	if len(os.Args) < 2 {
		fmt.Fprintln(os.Stderr, "usage: corehar run <cases> | brute17 <w> | bruterle ...")
		os.Exit(2)
	}
	switch os.Args[1] {
	case "run":
		if err := hlib.EachLine(os.Args[2], os.Stdout, dispatch); err != nil {
			fmt.Fprintln(os.Stderr, err)
			os.Exit(2)
		}
	case "brute17":
		os.Exit(brute17(os.Args[2:]))
	default:
		fmt.Fprintln(os.Stderr, "unknown command", os.Args[1])
		os.Exit(2)
	}
}

func dispatch(kind string, t *hlib.Toks) string {
	switch kind {
	case "pack":
		return casePack(t)
	case "unpack":
		return caseUnpack(t)
	case "rleenc":
		return caseRleEnc(t)
	case "rledec":
		return caseRleDec(t)
	case "introspect":
		return caseIntrospect(t)
	case "parsefields":
		return caseParseFields(t)
	}
	return "UNKNOWN-KIND " + kind
}
