package main

import (
	"bytes"
	"fmt"
	"strings"

	"github.com/parsyl/parquet"
	sch "github.com/parsyl/parquet/schema"
	"verif/harness/hlib"
)

func fmtHeader(ph *sch.PageHeader) string {
	nv := "-"
	if ph.DataPageHeader != nil {
		nv = fmt.Sprint(ph.DataPageHeader.NumValues)
	}
	return fmt.Sprintf("%d:%d:%d:%s", int(ph.Type), ph.UncompressedPageSize, ph.CompressedPageSize, nv)
}

// introspect <hexfile>:  what ReadMetaData, PageHeaders and PageHeadersAtOffset report.
func caseIntrospect(t *hlib.Toks) string {
	data := t.Bytes()
	fm, err := parquet.ReadMetaData(bytes.NewReader(data))
	if err != nil {
		return "METAERR"
	}
	var sb strings.Builder
	fmt.Fprintf(&sb, "META version=%d rows=%d schema=%d", fm.Version, fm.NumRows, len(fm.Schema))
	for _, se := range fm.Schema {
		nc := "-"
		if se.NumChildren != nil {
			nc = fmt.Sprint(*se.NumChildren)
		}
		ty := "-"
		if se.Type != nil {
			ty = fmt.Sprint(int(*se.Type))
		}
		rp := "-"
		if se.RepetitionType != nil {
			rp = fmt.Sprint(int(*se.RepetitionType))
		}
		fmt.Fprintf(&sb, " se:%s:%s:%s:%s", hlib.Hex([]byte(se.Name)), ty, rp, nc)
	}
	for _, rg := range fm.RowGroups {
		fmt.Fprintf(&sb, " rg:%d:%d:%d", rg.NumRows, rg.TotalByteSize, len(rg.Columns))
		for _, c := range rg.Columns {
			m := c.MetaData
			fmt.Fprintf(&sb, " cc:%s:%d:%d:%d:%d:%d:%d:%d", hlib.Hex([]byte(strings.Join(m.PathInSchema, "."))), c.FileOffset, m.DataPageOffset,
				m.NumValues, m.TotalCompressedSize, m.TotalUncompressedSize, int(m.Codec), int(m.Type))
		}
	}
	hs, err := parquet.PageHeaders(fm, bytes.NewReader(data))
	if err != nil {
		sb.WriteString(" HEADERS-ERR")
	} else {
		fmt.Fprintf(&sb, " HEADERS %d", len(hs))
		for i := range hs {
			sb.WriteString(" " + fmtHeader(&hs[i]))
		}
	}
	// listing from a given offset, chunk by chunk
	sb.WriteString(" ATOFFSET")
	for _, rg := range fm.RowGroups {
		for _, c := range rg.Columns {
			h, err := parquet.PageHeadersAtOffset(bytes.NewReader(data), c.MetaData.DataPageOffset, c.MetaData.NumValues)
			if err != nil {
				sb.WriteString(" ERR")
				continue
			}
			fmt.Fprintf(&sb, " n%d", len(h))
			for i := range h {
				sb.WriteString(" " + fmtHeader(&h[i]))
			}
		}
	}
	return sb.String()
}
