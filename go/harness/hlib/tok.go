// Package hlib holds what the harness binaries share: the line/token format
// spoken with the OCaml driver and bin/check, I/O wrappers, value conversion.
package hlib

import (
	"bufio"
	"encoding/hex"
	"fmt"
	"io"
	"os"
	"strconv"
	"strings"
)

// Hex renders a byte string as one token ("-" for the empty string).
func Hex(b []byte) string {
	if len(b) == 0 {
		return "-"
	}
	return hex.EncodeToString(b)
}

// UnHex parses a token produced by Hex.
func UnHex(s string) []byte {
	if s == "-" {
		return nil
	}
	b, err := hex.DecodeString(s)
	if err != nil {
		panic(fmt.Sprintf("bad hex token %q", s))
	}
	return b
}

// Toks is a cursor over the tokens of one line.
type Toks struct {
	T []string
	I int
}

func (t *Toks) Next() string {
	if t.I >= len(t.T) {
		panic("token stream exhausted")
	}
	s := t.T[t.I]
	t.I++
	return s
}

func (t *Toks) Done() bool { return t.I >= len(t.T) }

func (t *Toks) Int() int {
	n, err := strconv.Atoi(t.Next())
	if err != nil {
		panic(err)
	}
	return n
}

func (t *Toks) U64() uint64 {
	n, err := strconv.ParseUint(t.Next(), 10, 64)
	if err != nil {
		panic(err)
	}
	return n
}

func (t *Toks) Bytes() []byte { return UnHex(t.Next()) }

// U8s renders a level/value list: count followed by the values.
func U8s(v []uint8) string {
	var sb strings.Builder
	sb.WriteString(strconv.Itoa(len(v)))
	for _, x := range v {
		sb.WriteByte(' ')
		sb.WriteString(strconv.Itoa(int(x)))
	}
	return sb.String()
}

func (t *Toks) U8s() []uint8 {
	n := t.Int()
	out := make([]uint8, n)
	for i := range out {
		out[i] = uint8(t.Int())
	}
	return out
}

// EachLine feeds every non-empty, non-comment line of the case file (id,
// kind, remaining tokens) to f and writes "id result" lines to out.
func EachLine(path string, out io.Writer, f func(kind string, t *Toks) string) error {
	fh, err := os.Open(path)
	if err != nil {
		return err
	}
	defer fh.Close()
	w := bufio.NewWriterSize(out, 1<<20)
	defer w.Flush()
	sc := bufio.NewScanner(fh)
	sc.Buffer(make([]byte, 1<<20), 1<<30)
	for sc.Scan() {
		line := strings.TrimSpace(sc.Text())
		if line == "" || line[0] == '#' {
			continue
		}
		f := safe(f)
		parts := strings.Fields(line)
		if len(parts) < 2 {
			return fmt.Errorf("bad case line %q", line)
		}
		res := f(parts[1], &Toks{T: parts[2:]})
		fmt.Fprintf(w, "%s %s\n", parts[0], res)
	}
	return sc.Err()
}

// safe turns a Go panic inside a case into the result token "PANIC".
func safe(f func(string, *Toks) string) func(string, *Toks) string {
	return func(kind string, t *Toks) (res string) {
		defer func() {
			if r := recover(); r != nil {
				msg := strings.ReplaceAll(fmt.Sprint(r), " ", "_")
				msg = strings.ReplaceAll(msg, "\n", "_")
				res = "PANIC " + msg
			}
		}()
		return f(kind, t)
	}
}
