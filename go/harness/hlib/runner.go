package hlib

import (
	"bufio"
	"bytes"
	"errors"
	"fmt"
	"io"
	"math/rand"
	"os"
	"reflect"
	"strconv"
	"strings"
	"sync"
)

// Writer / Reader are what each generated shape package registers.
type Writer interface {
	Add(v reflect.Value)
	Write() error
	Close() error
}

type Reader interface {
	Next() bool
	Scan(v reflect.Value)
	Rows() int64
	Error() error
}

type Shape struct {
	Name      string
	Type      reflect.Type
	NewWriter func(w io.Writer, max int, codec int) (Writer, error)
	NewReader func(r io.ReadSeeker) (Reader, error)
}

var shapes = map[string]*Shape{}

func Register(s *Shape) { shapes[s.Name] = s }

// Sink records every Write call; the k-th call (0-based) can be made to fail.
type Sink struct {
	Writes [][]byte
	FailAt int
	calls  int
}

var errInjected = errors.New("injected fault")

func (s *Sink) Write(p []byte) (int, error) {
	k := s.calls
	s.calls++
	if k == s.FailAt {
		return 0, errInjected
	}
	if s.FailAt >= FullLengthFault && k == s.FailAt-FullLengthFault {
		// an io.Writer may report an error although it took every byte (a tee, a sync after the write)
		return len(p), errInjected
	}
	s.Writes = append(s.Writes, append([]byte(nil), p...))
	return len(p), nil
}

// FullLengthFault + k as FailAt: the k-th Write returns (len(p), error) instead of (0, error).
const FullLengthFault = 1000000

// Source is an io.ReadSeeker over a byte slice with configurable fragmentation
// and fault injection; every Read and Seek call is one operation.
type Source struct {
	Data    []byte
	pos     int64
	Chunk   int        // > 0: at most Chunk bytes per Read
	Rng     *rand.Rand // != nil: random short reads
	EOFWith bool       // return io.EOF together with the last bytes
	FailAt  int        // operation index that fails (-1: none)
	Partial bool       // the failing Read also returns some data
	Ops     int
}

func (s *Source) Read(p []byte) (int, error) {
	k := s.Ops
	s.Ops++
	if k == s.FailAt {
		if s.Partial && len(p) > 1 && s.pos < int64(len(s.Data)) {
			n := copy(p[:1], s.Data[s.pos:])
			s.pos += int64(n)
			return n, errInjected
		}
		return 0, errInjected
	}
	if len(p) == 0 {
		return 0, nil
	}
	if s.pos >= int64(len(s.Data)) {
		return 0, io.EOF
	}
	n := len(p)
	if s.Chunk > 0 && n > s.Chunk {
		n = s.Chunk
	}
	if s.Rng != nil && n > 1 {
		n = 1 + s.Rng.Intn(n)
	}
	n = copy(p[:n], s.Data[s.pos:])
	s.pos += int64(n)
	if s.EOFWith && s.pos >= int64(len(s.Data)) {
		return n, io.EOF
	}
	return n, nil
}

func (s *Source) Seek(off int64, whence int) (int64, error) {
	k := s.Ops
	s.Ops++
	if k == s.FailAt {
		return 0, errInjected
	}
	var abs int64
	switch whence {
	case io.SeekStart:
		abs = off
	case io.SeekCurrent:
		abs = s.pos + off
	case io.SeekEnd:
		abs = int64(len(s.Data)) + off
	}
	if abs < 0 {
		return 0, errors.New("negative position")
	}
	s.pos = abs
	return abs, nil
}

func flag(err error) byte {
	if err != nil {
		return '1'
	}
	return '0'
}

// CaseWrite: write <shape> <codec> <max> <failat> <mutate> <nops> (A value | W)...
// Result:   OK <flags> <nwrites> hex...        flags: one char per API call
//           (New, each op, Close): 0 ok, 1 error; the run stops at the first error.
func CaseWrite(t *Toks) string {
	sh := shapes[t.Next()]
	if sh == nil {
		return "NOSHAPE"
	}
	codec, max, failAt, mutate, nops := t.Int(), t.Int(), t.Int(), t.Int(), t.Int()
	sink := &Sink{FailAt: failAt}
	var flags []byte
	finish := func() string {
		var sb strings.Builder
		fmt.Fprintf(&sb, "OK %s %d", flags, len(sink.Writes))
		for _, w := range sink.Writes {
			sb.WriteByte(' ')
			sb.WriteString(Hex(w))
		}
		return sb.String()
	}
	w, err := sh.NewWriter(sink, max, codec)
	flags = append(flags, flag(err))
	if err != nil {
		return finish()
	}
	for i := 0; i < nops; i++ {
		switch t.Next() {
		case "A":
			rec := reflect.New(sh.Type).Elem()
			Build(t, rec)
			w.Add(rec)
			if mutate != 0 {
				Scramble(rec)
			}
			flags = append(flags, '0')
		case "W":
			err := w.Write()
			flags = append(flags, flag(err))
			if err != nil {
				return finish()
			}
		default:
			panic("bad op")
		}
	}
	err = w.Close()
	flags = append(flags, flag(err))
	return finish()
}

// CaseRead: read <shape> <hexfile> <mode>
// mode: plain | chunk:<n> | rand:<seed> | eof | eofchunk:<n> | fail:<k> | failp:<k>
// Result: <OPENERR|OK|ERR> rows=<n> nexts=<n> ops=<n> stable=<0|1> excl=<0|1> recs <n> values...
func CaseRead(t *Toks) string {
	sh := shapes[t.Next()]
	if sh == nil {
		return "NOSHAPE"
	}
	data := t.Bytes()
	mode := t.Next()
	src := &Source{Data: data, FailAt: -1}
	switch {
	case mode == "plain":
	case strings.HasPrefix(mode, "chunk:"):
		src.Chunk, _ = strconv.Atoi(mode[6:])
	case strings.HasPrefix(mode, "rand:"):
		seed, _ := strconv.Atoi(mode[5:])
		src.Rng = rand.New(rand.NewSource(int64(seed)))
	case mode == "eof":
		src.EOFWith = true
	case strings.HasPrefix(mode, "eofchunk:"):
		src.EOFWith = true
		src.Chunk, _ = strconv.Atoi(mode[9:])
	case strings.HasPrefix(mode, "fail:"):
		src.FailAt, _ = strconv.Atoi(mode[5:])
	case strings.HasPrefix(mode, "failp:"):
		src.FailAt, _ = strconv.Atoi(mode[6:])
		src.Partial = true
	default:
		panic("bad mode " + mode)
	}
	return ReadAll(sh, src)
}

func ReadAll(sh *Shape, src *Source) string {
	r, err := sh.NewReader(src)
	if err != nil {
		return fmt.Sprintf("OPENERR rows=0 nexts=0 ops=%d stable=1 excl=0 recs 0", src.Ops)
	}
	var recs []reflect.Value
	var prints []string
	excl := false
	nexts := 0
	limit := int(r.Rows()) + 1000
	for r.Next() {
		nexts++
		rec := reflect.New(sh.Type)
		r.Scan(rec)
		var sb strings.Builder
		Print(&sb, rec.Elem(), &excl)
		recs = append(recs, rec)
		prints = append(prints, sb.String())
		if nexts > limit {
			break
		}
	}
	// records already scanned must not be changed by later reads
	stable := 1
	for i, rec := range recs {
		var sb strings.Builder
		var e2 bool
		Print(&sb, rec.Elem(), &e2)
		if sb.String() != prints[i] {
			stable = 0
		}
	}
	status := "OK"
	if r.Error() != nil {
		status = "ERR"
	}
	e := 0
	if excl {
		e = 1
	}
	var sb strings.Builder
	fmt.Fprintf(&sb, "%s rows=%d nexts=%d ops=%d stable=%d excl=%d recs %d", status, r.Rows(), nexts, src.Ops, stable, e, len(prints))
	for _, p := range prints {
		sb.WriteString(p)
	}
	return sb.String()
}

// CasePrefixes: prefixes <shape> <hexfile>: reads every strict prefix of the
// file; one status letter per cut length 0..len-1: O constructor error,
// E Error() after Next, K accepted (no error), P panic; then, for every accepted
// cut, "cut:rows:nexts".
func CasePrefixes(t *Toks) string {
	sh := shapes[t.Next()]
	if sh == nil {
		return "NOSHAPE"
	}
	data := t.Bytes()
	status := make([]byte, len(data))
	var accepted []string
	for cut := 0; cut < len(data); cut++ {
		res := func() (r string) {
			defer func() {
				if e := recover(); e != nil {
					r = "PANIC"
				}
			}()
			return ReadAll(sh, &Source{Data: data[:cut], FailAt: -1})
		}()
		switch {
		case strings.HasPrefix(res, "OPENERR"):
			status[cut] = 'O'
		case strings.HasPrefix(res, "ERR"):
			status[cut] = 'E'
		case strings.HasPrefix(res, "OK"):
			status[cut] = 'K'
			f := strings.Fields(res)
			accepted = append(accepted, fmt.Sprintf("%d:%s:%s", cut, strings.TrimPrefix(f[1], "rows="), strings.TrimPrefix(f[2], "nexts=")))
		default:
			status[cut] = 'P'
		}
	}
	return fmt.Sprintf("%s %d %s", status, len(accepted), strings.Join(accepted, " "))
}

// RunShapeCases is the main loop of a generated runner binary.
func RunShapeCases(path string, out io.Writer) error {
	return EachLine(path, out, func(kind string, t *Toks) string {
		switch kind {
		case "write":
			return CaseWrite(t)
		case "read":
			return CaseRead(t)
		case "prefixes":
			return CasePrefixes(t)
		case "shapes":
			var names []string
			for n := range shapes {
				names = append(names, n)
			}
			return strings.Join(names, ",")
		}
		return "UNKNOWN-KIND " + kind
	})
}

// RunShapeCasesParallel runs every case of the file in its own goroutine
// (at most `workers` at a time), `repeat` times over, so that independent
// writer/reader instances share the process-wide buffer pools concurrently.
// For each id the result of every repetition must be identical; the output has
// one line per id: the common result, or "DIVERGED a ||| b".
func RunShapeCasesParallel(path string, out io.Writer, workers, repeat int) error {
	data, err := os.ReadFile(path)
	if err != nil {
		return err
	}
	type job struct {
		id, kind string
		toks     []string
	}
	var jobs []job
	for _, line := range strings.Split(string(data), "\n") {
		line = strings.TrimSpace(line)
		if line == "" || line[0] == '#' {
			continue
		}
		parts := strings.Fields(line)
		if len(parts) < 2 || parts[1] == "shape" {
			continue
		}
		jobs = append(jobs, job{parts[0], parts[1], parts[2:]})
	}
	results := make([][]string, len(jobs))
	for i := range results {
		results[i] = make([]string, repeat)
	}
	sem := make(chan struct{}, workers)
	var wg sync.WaitGroup
	f := safe(func(kind string, t *Toks) string {
		switch kind {
		case "write":
			return CaseWrite(t)
		case "read":
			return CaseRead(t)
		}
		return "UNKNOWN-KIND " + kind
	})
	for r := 0; r < repeat; r++ {
		for i := range jobs {
			wg.Add(1)
			go func(i, r int) {
				defer wg.Done()
				sem <- struct{}{}
				defer func() { <-sem }()
				j := jobs[i]
				results[i][r] = f(j.kind, &Toks{T: append([]string(nil), j.toks...)})
			}(i, r)
		}
	}
	wg.Wait()
	w := bufio.NewWriterSize(out, 1<<20)
	defer w.Flush()
	for i, j := range jobs {
		res := results[i][0]
		for r := 1; r < repeat; r++ {
			if results[i][r] != res {
				res = "DIVERGED " + results[i][0] + " ||| " + results[i][r]
				break
			}
		}
		fmt.Fprintf(w, "%s %s\n", j.id, res)
	}
	return nil
}

var _ = bytes.NewReader
