package hlib

import (
	"fmt"
	"math"
	"os"
	"reflect"
	"strconv"
	"strings"
	"unsafe"
)

// Values travel as prefix tokens:  N (nil pointer) | I<bits> (numeric leaf as
// its bit pattern, decimal or x<hex>; bool 0/1) | S<hex|-> (string) |
// L <n> v1..vn (slice) | G <n> v1..vn (struct: its *columns* in order, embedded
// structs inlined, excluded fields absent).

func excluded(f reflect.StructField) bool {
	if f.PkgPath != "" && !f.Anonymous {
		return true
	}
	if f.Anonymous && f.PkgPath != "" {
		// embedded struct of unexported type name: still promoted if exported fields; treat by name
		r := []rune(f.Name)
		if len(r) > 0 && (r[0] < 'A' || r[0] > 'Z') {
			return true
		}
	}
	tag := f.Tag.Get("parquet")
	return tag == "-"
}

func parseBits(s string) uint64 {
	if strings.HasPrefix(s, "x") {
		n, err := strconv.ParseUint(s[1:], 16, 64)
		if err != nil {
			panic(err)
		}
		return n
	}
	n, err := strconv.ParseUint(s, 10, 64)
	if err != nil {
		panic(err)
	}
	return n
}

// Build fills v (settable) from the token stream.
func Build(t *Toks, v reflect.Value) {
	switch v.Kind() {
	case reflect.Ptr:
		if t.T[t.I] == "N" {
			t.I++
			return
		}
		p := reflect.New(v.Type().Elem())
		Build(t, p.Elem())
		v.Set(p)
	case reflect.Slice:
		if t.Next() != "L" {
			panic("expected L")
		}
		n := t.Int()
		if n == 0 {
			return
		}
		s := reflect.MakeSlice(v.Type(), n, n)
		for i := 0; i < n; i++ {
			Build(t, s.Index(i))
		}
		v.Set(s)
	case reflect.Struct:
		if t.Next() != "G" {
			panic("expected G")
		}
		t.Int()
		buildFields(t, v)
	case reflect.String:
		tok := t.Next()
		if tok[0] != 'S' {
			panic("expected S, got " + tok)
		}
		v.SetString(string(UnHex(tok[1:])))
	default:
		tok := t.Next()
		if tok[0] != 'I' {
			panic("expected I, got " + tok)
		}
		bits := parseBits(tok[1:])
		switch v.Kind() {
		case reflect.Int32:
			v.SetInt(int64(int32(uint32(bits))))
		case reflect.Int64:
			v.SetInt(int64(bits))
		case reflect.Uint32, reflect.Uint64:
			v.SetUint(bits)
		case reflect.Float32:
			// via Set to keep NaN payloads exactly
			f := math.Float32frombits(uint32(bits))
			v.Set(reflect.ValueOf(f))
		case reflect.Float64:
			f := math.Float64frombits(bits)
			v.Set(reflect.ValueOf(f))
		case reflect.Bool:
			v.SetBool(bits != 0)
		default:
			panic("unsupported kind " + v.Kind().String())
		}
	}
}

// Junk, when set (environment VERIF_JUNK=1), makes Build fill every excluded
// field with non-zero data, so that "excluded fields have no effect on the
// file" is exercised with values in them.
var Junk = os.Getenv("VERIF_JUNK") == "1"

func fillJunk(v reflect.Value, depth int) {
	if !v.CanSet() {
		if !v.CanAddr() {
			return
		}
		v = reflect.NewAt(v.Type(), unsafe.Pointer(v.UnsafeAddr())).Elem()
	}
	switch v.Kind() {
	case reflect.Int, reflect.Int8, reflect.Int16, reflect.Int32, reflect.Int64:
		v.SetInt(77)
	case reflect.Uint, reflect.Uint8, reflect.Uint16, reflect.Uint32, reflect.Uint64:
		v.SetUint(78)
	case reflect.Float32, reflect.Float64:
		v.SetFloat(7.5)
	case reflect.Bool:
		v.SetBool(true)
	case reflect.String:
		v.SetString("junk")
	case reflect.Ptr:
		if depth < 3 {
			p := reflect.New(v.Type().Elem())
			fillJunk(p.Elem(), depth+1)
			v.Set(p)
		}
	case reflect.Slice:
		if depth < 3 {
			s := reflect.MakeSlice(v.Type(), 1, 1)
			fillJunk(s.Index(0), depth+1)
			v.Set(s)
		}
	case reflect.Struct:
		for i := 0; i < v.NumField(); i++ {
			fillJunk(v.Field(i), depth+1)
		}
	case reflect.Map:
		v.Set(reflect.MakeMap(v.Type()))
	}
}

func buildFields(t *Toks, v reflect.Value) {
	for i := 0; i < v.NumField(); i++ {
		sf := v.Type().Field(i)
		if excluded(sf) {
			if Junk {
				fillJunk(v.Field(i), 0)
			}
			continue
		}
		if sf.Anonymous && sf.Type.Kind() == reflect.Struct {
			buildFields(t, v.Field(i))
			continue
		}
		Build(t, v.Field(i))
	}
}

// Print renders v in the same format; excludedNonZero is set when a field the
// generator must ignore holds a non-zero value.
func Print(sb *strings.Builder, v reflect.Value, excludedNonZero *bool) {
	switch v.Kind() {
	case reflect.Ptr:
		if v.IsNil() {
			sb.WriteString(" N")
			return
		}
		Print(sb, v.Elem(), excludedNonZero)
	case reflect.Slice:
		fmt.Fprintf(sb, " L %d", v.Len())
		for i := 0; i < v.Len(); i++ {
			Print(sb, v.Index(i), excludedNonZero)
		}
	case reflect.Struct:
		var inner strings.Builder
		n := printFields(&inner, v, excludedNonZero)
		fmt.Fprintf(sb, " G %d%s", n, inner.String())
	case reflect.String:
		sb.WriteString(" S" + Hex([]byte(v.String())))
	case reflect.Int32:
		fmt.Fprintf(sb, " I%d", uint32(int32(v.Int())))
	case reflect.Int64:
		fmt.Fprintf(sb, " I%s", bigTok(uint64(v.Int())))
	case reflect.Uint32, reflect.Uint64:
		fmt.Fprintf(sb, " I%s", bigTok(v.Uint()))
	case reflect.Float32:
		fmt.Fprintf(sb, " I%d", math.Float32bits(v.Interface().(float32)))
	case reflect.Float64:
		fmt.Fprintf(sb, " I%s", bigTok(math.Float64bits(v.Interface().(float64))))
	case reflect.Bool:
		if v.Bool() {
			sb.WriteString(" I1")
		} else {
			sb.WriteString(" I0")
		}
	default:
		sb.WriteString(" ?")
	}
}

func bigTok(n uint64) string {
	if n < 1<<60 {
		return strconv.FormatUint(n, 10)
	}
	return "x" + strconv.FormatUint(n, 16)
}

func printFields(sb *strings.Builder, v reflect.Value, excludedNonZero *bool) int {
	n := 0
	for i := 0; i < v.NumField(); i++ {
		sf := v.Type().Field(i)
		if excluded(sf) {
			if sf.PkgPath == "" || true {
				// zero check through unsafe-free reflection: unexported fields can be read with IsZero
				if !v.Field(i).IsZero() {
					*excludedNonZero = true
				}
			}
			continue
		}
		if sf.Anonymous && sf.Type.Kind() == reflect.Struct {
			n += printFields(sb, v.Field(i), excludedNonZero)
			continue
		}
		Print(sb, v.Field(i), excludedNonZero)
		n++
	}
	return n
}

// Scramble overwrites everything reachable from v (slice elements, pointer
// targets, the struct itself): what a caller may do to a record after Add.
func Scramble(v reflect.Value) {
	switch v.Kind() {
	case reflect.Ptr:
		if !v.IsNil() {
			Scramble(v.Elem())
		}
	case reflect.Slice:
		for i := 0; i < v.Len(); i++ {
			Scramble(v.Index(i))
		}
	case reflect.Struct:
		for i := 0; i < v.NumField(); i++ {
			if v.Field(i).CanSet() {
				Scramble(v.Field(i))
			}
		}
	case reflect.String:
		v.SetString("SCRAMBLED")
	case reflect.Int32, reflect.Int64:
		v.SetInt(v.Int() ^ 0x55)
	case reflect.Uint32, reflect.Uint64:
		v.SetUint(v.Uint() ^ 0x55)
	case reflect.Float32, reflect.Float64:
		v.SetFloat(v.Float() + 1.5)
	case reflect.Bool:
		v.SetBool(!v.Bool())
	}
}
