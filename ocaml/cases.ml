(* Case kinds beyond bit-packing; grows with the model. *)
open Model
open Util

let dispatch kind (_tk : toks) : string = "UNKNOWN-KIND " ^ kind
