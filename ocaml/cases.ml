(* Case kinds beyond bit-packing; grows with the model. *)
open Model
open Util

let str_runs (rs : run list) : string =
  let b = Buffer.create 256 in
  Buffer.add_string b ("RUNS " ^ string_of_int (List.length rs));
  List.iter (fun r -> match r with
      | RRle (c, v) -> Buffer.add_string b (" R " ^ tok_of_n c ^ " " ^ tok_of_n v)
      | RBp gs -> Buffer.add_string b (" B " ^ string_of_int (List.length gs));
        List.iter (fun g -> List.iter (fun v -> Buffer.add_string b (" " ^ tok_of_n v)) g) gs) rs;
  Buffer.contents b

let dispatch kind (tk : toks) : string =
  match kind with
  | "rleenc" -> let w = tn tk in let ls = tnlist tk in hex_of_bytes (rle_encode w ls)
  | "rledec" -> let w = tn tk in let bs = tbytes tk in
    (match rle_read w bs with
     | Ok (vals, n) -> "OK " ^ string_of_int (int_of_nat n) ^ " " ^ str_nlist vals
     | Err -> "ERR"
     | Panic -> "PANIC")
  | "specdec" -> let w = tn tk in let bs = tbytes tk in
    (match hybrid_decode_framed w bs with
     | Some (rs, rest) -> str_runs rs ^ " REST " ^ string_of_int (List.length rest)
     | None -> "NONE")
  | _ -> "UNKNOWN-KIND " ^ kind
