(* Case kinds beyond bit-packing; grows with the model. *)
open Model
open Util

let str_runs (rs : run list) : string =
  let b = Buffer.create 256 in
  Buffer.add_string b ("RUNS " ^ string_of_int (List.length rs));
  List.iter (fun r -> match r with
      | RRle (c, v) -> Buffer.add_string b (" R " ^ tok_of_n c ^ " " ^ tok_of_n v)
      | RBp gs -> Buffer.add_string b (" B " ^ string_of_int (List.length gs));
        List.iter (fun g -> List.iter (fun v -> Buffer.add_string b (" " ^ tok_of_n v)) g) gs) rs;
  Buffer.contents b

let shapes : (string, ((bytes * rept) * ty) list) Hashtbl.t = Hashtbl.create 64
let shape name = try Hashtbl.find shapes name with Not_found -> failwith ("unknown shape " ^ name)

let verr_name (e : verr) : string = match e with
  | ETooShort -> "ETooShort" | EHeadMagic -> "EHeadMagic" | ETailMagic -> "ETailMagic" | EFooterLen -> "EFooterLen"
  | EFooterDecode -> "EFooterDecode" | EFooterTrailing -> "EFooterTrailing" | ESchemaEmpty -> "ESchemaEmpty"
  | ESchemaTree -> "ESchemaTree" | ESchemaLeaf -> "ESchemaLeaf" | ESchemaGroup -> "ESchemaGroup" | ESchemaLeftover -> "ESchemaLeftover"
  | EColumnCount -> "EColumnCount" | EChunkNoMeta -> "EChunkNoMeta" | EChunkPath -> "EChunkPath" | EChunkType -> "EChunkType"
  | EChunkCodec -> "EChunkCodec" | EChunkOffset -> "EChunkOffset" | EChunkFileOffset -> "EChunkFileOffset"
  | EPageHeader -> "EPageHeader" | EPageType -> "EPageType" | EPageEncoding -> "EPageEncoding" | EPageSizes -> "EPageSizes"
  | EPageBody -> "EPageBody" | EPageDecompress -> "EPageDecompress" | EPageUncompressedSize -> "EPageUncompressedSize"
  | EPageRepLevels -> "EPageRepLevels" | EPageDefLevels -> "EPageDefLevels" | EPageLevelRange -> "EPageLevelRange"
  | EPageLevelPadding -> "EPageLevelPadding" | EPageFirstRep -> "EPageFirstRep" | EPageValues -> "EPageValues" | EPageEmpty -> "EPageEmpty"
  | EChunkCompressedSize -> "EChunkCompressedSize" | EChunkUncompressedSize -> "EChunkUncompressedSize" | EChunkNumValues -> "EChunkNumValues"
  | ERowGroupRows -> "ERowGroupRows" | ERowGroupByteSize -> "ERowGroupByteSize" | EGapBeforeFooter -> "EGapBeforeFooter"
  | EFileRows -> "EFileRows" | EAssemble -> "EAssemble" | EFuel -> "EFuel"

let parse_ops tk nops : op list =
  List.init nops (fun _ -> match next tk with
      | "A" -> OpAdd (parse_value tk)
      | "W" -> OpWrite
      | s -> failwith ("bad op " ^ s))

let print_entries b (es : entry list) =
  Buffer.add_string b (" " ^ string_of_int (List.length es));
  List.iter (fun e -> Buffer.add_string b (" " ^ tok_of_n e.e_rep ^ " " ^ tok_of_n e.e_def);
              match e.e_val with Some v -> print_value b v | None -> Buffer.add_string b " -") es

let opt_z (o : z option) = match o with Some x -> tok_of_z x | None -> "-"
let join_path (p : n list list) : n list =
  let dot = n_of_int 46 in
  let rec go l = match l with [] -> [] | [x] -> x | x :: r -> x @ (dot :: go r) in go p
let fmt_header (ph : page_header) : string =
  tok_of_z ph.ph_type ^ ":" ^ tok_of_z ph.ph_uncompressed_size ^ ":" ^ tok_of_z ph.ph_compressed_size ^ ":" ^
  (match ph.ph_data with Some d -> tok_of_z d.dph_num_values | None -> "-")
let fmt_meta (b : Buffer.t) (fm : file_meta) : unit =
  Buffer.add_string b ("META version=" ^ tok_of_z fm.fm_version ^ " rows=" ^ tok_of_z fm.fm_num_rows ^ " schema=" ^ string_of_int (List.length fm.fm_schema));
  List.iter (fun se -> Buffer.add_string b (" se:" ^ hex_of_bytes se.se_name ^ ":" ^ opt_z se.se_type ^ ":" ^ opt_z se.se_repetition ^ ":" ^ opt_z se.se_num_children)) fm.fm_schema;
  List.iter (fun rg ->
      Buffer.add_string b (" rg:" ^ tok_of_z rg.rg_num_rows ^ ":" ^ tok_of_z rg.rg_total_byte_size ^ ":" ^ string_of_int (List.length rg.rg_columns));
      List.iter (fun cc -> match cc.cc_meta with
          | Some m -> Buffer.add_string b (" cc:" ^ hex_of_bytes (join_path m.cm_path) ^ ":" ^ tok_of_z cc.cc_file_offset ^ ":" ^ tok_of_z m.cm_data_page_offset ^ ":" ^
                                           tok_of_z m.cm_num_values ^ ":" ^ tok_of_z m.cm_total_compressed ^ ":" ^ tok_of_z m.cm_total_uncompressed ^ ":" ^
                                           tok_of_z m.cm_codec ^ ":" ^ tok_of_z m.cm_type)
          | None -> Buffer.add_string b " cc:NOMETA") rg.rg_columns) fm.fm_row_groups

let parse_col_choice tk : col_choice =
  let codec = z_of_int (tint tk) in
  let np = tint tk in let sizes = List.init np (fun _ -> nat_of_int (tint tk)) in
  let nr = tint tk in let reps = List.init nr (fun _ -> tn tk) in
  let nd = tint tk in let defs = List.init nd (fun _ -> tn tk) in
  let pad = tn tk in let stats = tn tk in let crc = tint tk <> 0 in let fok = tn tk in let es = tint tk <> 0 in
  { cc_codec = codec; cc_page_sizes = sizes; cc_rep_choices = reps; cc_def_choices = defs; cc_pad = pad; cc_stats = stats;
    cc_crc = crc; cc_file_offset_kind = fok; cc_encoding_stats = es }

let parse_file_choice tk : file_choice =
  if next tk <> "fc" then failwith "expected fc";
  let n = tint tk in
  let cols = List.init n (fun _ -> parse_col_choice tk) in
  let cb = (let t = next tk in if t = "NONE" then None else Some (bytes_of_hex t)) in
  let kv = tint tk <> 0 in let bsu = tint tk <> 0 in
  let inj = (match next tk with
      | "none" -> None
      | "inj" -> let g = tint tk in let j = tint tk in let p = tint tk in
        let k = (match next tk with
            | "dict" -> IDictPage | "index" -> IIndexPage | "v2" -> IDataPageV2
            | "enc" -> IEncoding (z_of_int (tint tk)) | "defbp" -> IDefBitPacked | "repbp" -> IRepBitPacked
            | "codec" -> ICodec (z_of_int (tint tk)) | s -> failwith ("bad injection " ^ s)) in
        Some (((nat_of_int g, nat_of_int j), nat_of_int p), k)
      | s -> failwith ("bad inject token " ^ s)) in
  { fc_cols = cols; fc_created_by = cb; fc_key_value = kv; fc_byte_size_uncompressed = bsu; fc_inject = inj }

let rec parse_gotype tk : gotype =
  match next tk with
  | "b" -> GBase (tbytes tk)
  | "p" -> GPtr (parse_gotype tk)
  | "s" -> GSlice (parse_gotype tk)
  | "m" -> let k = parse_gotype tk in let v = parse_gotype tk in GMap (k, v)
  | "c" -> GChan (parse_gotype tk)
  | "i" -> GIface
  | "f" -> let n = tint tk in GFunc (List.init n (fun _ -> parse_fdecl tk))
  | "t" -> let n = tint tk in GStruct (List.init n (fun _ -> parse_fdecl tk))
  | s -> failwith ("bad gotype " ^ s)
and parse_fdecl tk : fdecl =
  let nn = tint tk in
  let names = List.init nn (fun _ -> tbytes tk) in
  let ty = parse_gotype tk in
  let tag = (let t = next tk in if t = "NOTAG" then None else Some (bytes_of_hex t)) in
  FD (names, ty, tag)

let parse_decls tk =
  if next tk <> "d" then failwith "expected d";
  let n = tint tk in
  List.init n (fun _ -> let name = tbytes tk in let nf = tint tk in (name, List.init nf (fun _ -> parse_fdecl tk)))

let rept_code r = match r with Req -> 0 | Opt -> 1 | Rep -> 2
let prim_name p = match p with
  | PInt32 -> "int32" | PInt64 -> "int64" | PUint32 -> "uint32" | PUint64 -> "uint64"
  | PFloat32 -> "float32" | PFloat64 -> "float64" | PBool -> "bool" | PString -> "string"
let hex_of_string s = hex_of_bytes (List.init (String.length s) (fun i -> n_of_int (Char.code s.[i])))
let rec dump_pfield b (f : pfield) =
  match f with
  | PLeaf (name, col, rp, p) ->
    Buffer.add_string b (" ( " ^ hex_of_bytes name ^ " " ^ hex_of_bytes col ^ " " ^ string_of_int (rept_code rp) ^ " " ^ hex_of_string (prim_name p) ^ " 0 )")
  | PGroup (name, col, rp, typ, kids) ->
    Buffer.add_string b (" ( " ^ hex_of_bytes name ^ " " ^ hex_of_bytes col ^ " " ^ string_of_int (rept_code rp) ^ " " ^ hex_of_bytes typ ^ " " ^ string_of_int (List.length kids));
    List.iter (dump_pfield b) kids;
    Buffer.add_string b " )"

let dispatch kind (tk : toks) : string =
  match kind with
  | "parsefields" ->
    (* parsefields-model: <decls> : the column tree of type Root *)
    let ds = parse_decls tk in
    (match parse_root ds (bytes_of_hex "526f6f74") with
     | Some kids -> let b = Buffer.create 512 in
       Buffer.add_string b ("TREE errs=0 " ^ string_of_int (List.length kids)); List.iter (dump_pfield b) kids; Buffer.contents b
     | None -> "NONE")
  | "regen" ->
    (* regen <shape>: the column tree of the struct parquetgen -parquet regenerates from a file of that shape *)
    let fs = shape (next tk) in
    (match struct_of_schema (bytes_of_hex "526f6f74") (schema_of (columns fs)) with
     | Some ds ->
       (match parse_root ds (bytes_of_hex "526f6f74") with
        | Some kids -> let b = Buffer.create 512 in
          Buffer.add_string b ("TREE errs=0 " ^ string_of_int (List.length kids)); List.iter (dump_pfield b) kids; Buffer.contents b
        | None -> "NONE")
     | None -> "PANIC")
  | "foreign" ->
    (* foreign <shape> <file choice> <nbatches> (<n> records...)... : the file, hex *)
    let fs = shape (next tk) in
    let fc = parse_file_choice tk in
    let nb = tint tk in
    let batches = List.init nb (fun _ -> let n = tint tk in List.init n (fun _ -> parse_value tk)) in
    hex_of_bytes (foreign_file compress fs fc batches)
  | "introspect" ->
    (* the model of ReadMetaData / PageHeaders / PageHeadersAtOffset *)
    let file = tbytes tk in
    let fuel = nat_of_int (List.length file + 1) in
    (match read_metadata (mk_src file [] None) with
     | Ok (fm, _) ->
       let b = Buffer.create 4096 in
       fmt_meta b fm;
       (match page_headers fuel fm (mk_src file [] None) with
        | Ok (hs, _) -> Buffer.add_string b (" HEADERS " ^ string_of_int (List.length hs)); List.iter (fun h -> Buffer.add_string b (" " ^ fmt_header h)) hs
        | Err -> Buffer.add_string b " HEADERS-ERR"
        | Panic -> Buffer.add_string b " HEADERS-PANIC");
       Buffer.add_string b " ATOFFSET";
       List.iter (fun rg -> List.iter (fun cc -> match cc.cc_meta with
           | Some m -> (match page_headers_at_offset fuel m.cm_data_page_offset m.cm_num_values (mk_src file [] None) with
               | Ok (hs, _) -> Buffer.add_string b (" n" ^ string_of_int (List.length hs)); List.iter (fun h -> Buffer.add_string b (" " ^ fmt_header h)) hs
               | _ -> Buffer.add_string b " ERR")
           | None -> Buffer.add_string b " ERR") rg.rg_columns) fm.fm_row_groups;
       Buffer.contents b
     | Err -> "METAERR"
     | Panic -> "PANIC")
  | "introspect-view" ->
    (* the same report, from the independent validator's walk of the file *)
    let file = tbytes tk in
    (match check_file decompress file with
     | Inl e -> "INVALID " ^ verr_name e
     | Inr v ->
       let b = Buffer.create 4096 in
       fmt_meta b v.fv_meta;
       let chunks = List.concat_map (fun rg -> rg.rv_chunks) v.fv_rgs in
       let pages = List.concat_map (fun cv -> cv.cv_pages) chunks in
       Buffer.add_string b (" HEADERS " ^ string_of_int (List.length pages));
       List.iter (fun pv -> Buffer.add_string b (" " ^ fmt_header pv.pv_header)) pages;
       Buffer.add_string b " ATOFFSET";
       List.iter (fun cv -> Buffer.add_string b (" n" ^ string_of_int (List.length cv.cv_pages));
                   List.iter (fun pv -> Buffer.add_string b (" " ^ fmt_header pv.pv_header)) cv.cv_pages) chunks;
       Buffer.contents b)
  | "rleenc" -> let w = tn tk in let ls = tnlist tk in hex_of_bytes (rle_encode w ls)
  | "rledec" -> let w = tn tk in let bs = tbytes tk in
    (match rle_read w bs with
     | Ok (vals, n) -> "OK " ^ string_of_int (int_of_nat n) ^ " " ^ str_nlist vals
     | Err -> "ERR"
     | Panic -> "PANIC")
  | "specdec" -> let w = tn tk in let bs = tbytes tk in
    (match hybrid_decode_framed w bs with
     | Some (rs, rest) -> str_runs rs ^ " REST " ^ string_of_int (List.length rest)
     | None -> "NONE")
  | "shape" -> let name = next tk in Hashtbl.replace shapes name (fields_of_ty (parse_ty tk)); "OK"
  | "write" ->
    let fs = shape (next tk) in
    let codec = tint tk in let max = tint tk in let failat = tint tk in let _mutate = tint tk in let nops = tint tk in
    let ops = parse_ops tk nops in
    let cfg = { cfg_fields = fs; cfg_max = nat_of_int max; cfg_codec = z_of_int codec } in
    let calls = run_history compress cfg ops in
    let (flags, writes) = run_fault calls (if failat < 0 then None else Some (nat_of_int failat)) in
    let b = Buffer.create 4096 in
    Buffer.add_string b "OK ";
    List.iter (fun f -> Buffer.add_char b (if f then '1' else '0')) flags;
    Buffer.add_string b (" " ^ string_of_int (List.length writes));
    List.iter (fun w -> Buffer.add_char b ' '; Buffer.add_string b (hex_of_bytes w)) writes;
    Buffer.contents b
  | "validate" ->
    (* validate <level> <hexfile>: 0 summary, 1 + records, 2 + column entries *)
    let level = tint tk in let file = tbytes tk in
    (match check_file decompress file with
     | Inl e -> "INVALID " ^ verr_name e
     | Inr v ->
       let b = Buffer.create 4096 in
       let rgs = v.fv_rgs in
       let pages = List.concat_map (fun rg -> List.concat_map (fun cv -> cv.cv_pages) rg.rv_chunks) rgs in
       let maxrecs = List.fold_left (fun m pv -> max m (int_of_n pv.pv_records)) 0 pages in
       let statsok = List.for_all (fun pv -> pv.pv_stats_ok) pages in
       Buffer.add_string b ("VALID nrg=" ^ string_of_int (List.length rgs));
       Buffer.add_string b (" rows=" ^ String.concat "," (List.map (fun rg -> tok_of_n rg.rv_rows) rgs));
       Buffer.add_string b (" npages=" ^ string_of_int (List.length pages));
       Buffer.add_string b (" maxpagerecs=" ^ string_of_int maxrecs);
       Buffer.add_string b (" statsok=" ^ (if statsok then "1" else "0"));
       Buffer.add_string b (" ncols=" ^ string_of_int (List.length v.fv_cols));
       if level >= 1 then begin
         let recs = view_records v in
         Buffer.add_string b (" recs " ^ string_of_int (List.length recs));
         List.iter (print_value b) recs
       end;
       if level >= 2 then begin
         (* per row group, per column: entries *)
         List.iter (fun rg -> Buffer.add_string b " RG";
                     List.iter (fun cv -> Buffer.add_string b " COL"; print_entries b (chunk_entries cv)) rg.rv_chunks) rgs
       end;
       Buffer.contents b)
  | "stripe" ->
    (* stripe <shape> <record>: the reference striping, per column *)
    let fs = shape (next tk) in let v = parse_value tk in
    let b = Buffer.create 1024 in
    Buffer.add_string b (if has_tyb (TGroup fs) v then "TYPED" else "ILLTYPED");
    List.iter (fun es -> Buffer.add_string b " COL"; print_entries b es) (shred_record fs v);
    Buffer.contents b
  | "read" ->
    let fs = shape (next tk) in let file = tbytes tk in let mode = next tk in
    let sched, fail =
      (match String.split_on_char ':' mode with
       | ["plain"] | ["eof"] -> [], None
       | ["chunk"; k] | ["eofchunk"; k] -> List.init (List.length file + 64) (fun _ -> nat_of_int (int_of_string k)), None
       | ["rand"; seed] -> let st = Random.State.make [| int_of_string seed |] in
         List.init (List.length file + 64) (fun _ -> nat_of_int (1 + Random.State.int st 9)), None
       | ["fail"; k] | ["failp"; k] -> [], Some (nat_of_int (int_of_string k))
       | _ -> failwith ("bad mode " ^ mode)) in
    let o = read_all_src decompress fs (mk_src file sched fail) in
    let b = Buffer.create 4096 in
    let status = if o.o_panic then "PANIC" else if not o.o_open_ok then "OPENERR" else if o.o_err then "ERR" else "OK" in
    Buffer.add_string b (status ^ " rows=" ^ tok_of_z o.o_rows ^ " nexts=" ^ tok_of_n o.o_nexts);
    Buffer.add_string b (" recs " ^ string_of_int (List.length o.o_recs));
    List.iter (print_value b) o.o_recs;
    Buffer.contents b
  | _ -> "UNKNOWN-KIND " ^ kind
