(* Conversions between the line/token format and the extracted Coq datatypes. *)
open Model

let rec pos_of_bits_msb (acc : positive option) (bits : bool list) : positive option =
  match bits with
  | [] -> acc
  | b :: r ->
    let acc' = match acc, b with
      | None, false -> None
      | None, true -> Some XH
      | Some p, false -> Some (XO p)
      | Some p, true -> Some (XI p) in
    pos_of_bits_msb acc' r

let n_of_bits_msb bits = match pos_of_bits_msb None bits with None -> N0 | Some p -> Npos p

let hexval c = match c with
  | '0'..'9' -> Char.code c - 48
  | 'a'..'f' -> Char.code c - 87
  | 'A'..'F' -> Char.code c - 55
  | _ -> failwith "bad hex digit"

let bits_of_int_width w x =
  let rec go i acc = if i >= w then acc else go (i+1) (((x lsr i) land 1 = 1) :: acc) in
  go 0 []

let n_of_int (x : int) : n =
  if x < 0 then failwith "n_of_int: negative" else n_of_bits_msb (bits_of_int_width 62 x)

(* numbers that may not fit an OCaml int travel as hex with prefix x *)
let n_of_hexnum (s : string) : n =
  let bits = ref [] in
  String.iter (fun c -> bits := !bits @ bits_of_int_width 4 (hexval c)) s;
  n_of_bits_msb !bits

let rec int_of_pos p = match p with XH -> 1 | XO q -> 2 * int_of_pos q | XI q -> 2 * int_of_pos q + 1
let int_of_n x = match x with N0 -> 0 | Npos p -> int_of_pos p

let rec nat_of_int i = if i <= 0 then O else S (nat_of_int (i-1))
let rec int_of_nat x = match x with O -> 0 | S y -> 1 + int_of_nat y

(* N as token: decimal when it fits, else x<hex> *)
let hex_of_n (x : n) : string =
  let rec bits p acc = match p with XH -> true :: acc | XO q -> bits q (false :: acc) | XI q -> bits q (true :: acc) in
  match x with
  | N0 -> "0"
  | Npos p ->
    let bs = bits p [] in   (* msb first *)
    let len = List.length bs in
    let pad = (4 - len mod 4) mod 4 in
    let bs = List.init pad (fun _ -> false) @ bs in
    let buf = Buffer.create 16 in
    let rec go l = match l with
      | a :: b :: c :: d :: r ->
        let v = (if a then 8 else 0) + (if b then 4 else 0) + (if c then 2 else 0) + (if d then 1 else 0) in
        Buffer.add_char buf "0123456789abcdef".[v]; go r
      | [] -> ()
      | _ -> failwith "hex_of_n" in
    go bs; Buffer.contents buf

(* at most 60 bits: printed in decimal, exactly as the Go harness and the python generators do *)
let rec pos_small p depth = if depth >= 60 then false else match p with XH -> true | XO q | XI q -> pos_small q (depth+1)
let tok_of_n (x : n) : string = match x with
  | N0 -> "0"
  | Npos p -> if pos_small p 0 then string_of_int (int_of_pos p) else "x" ^ hex_of_n x

let n_of_tok (s : string) : n =
  if String.length s > 0 && s.[0] = 'x' then n_of_hexnum (String.sub s 1 (String.length s - 1))
  else n_of_int (int_of_string s)

(* byte strings *)
let byte_table : n array = Array.init 256 n_of_int
let bytes_of_hex (s : string) : n list =
  if s = "-" then [] else begin
    let l = String.length s / 2 in
    List.init l (fun i -> byte_table.(hexval s.[2*i] * 16 + hexval s.[2*i+1]))
  end
let hex_of_bytes (bs : n list) : string =
  match bs with [] -> "-" | _ ->
    let buf = Buffer.create (2 * List.length bs) in
    List.iter (fun b -> let v = int_of_n b in
                Buffer.add_char buf "0123456789abcdef".[(v lsr 4) land 15];
                Buffer.add_char buf "0123456789abcdef".[v land 15]) bs;
    Buffer.contents buf

(* token cursor *)
type toks = { t : string array; mutable i : int }
let next tk = if tk.i >= Array.length tk.t then failwith "token stream exhausted" else
    (let s = tk.t.(tk.i) in tk.i <- tk.i + 1; s)
let tdone tk = tk.i >= Array.length tk.t
let tint tk = int_of_string (next tk)
let tn tk = n_of_tok (next tk)
let tbytes tk = bytes_of_hex (next tk)
let tnlist tk = let k = tint tk in List.init k (fun _ -> tn tk)
let str_nlist (l : n list) = String.concat " " (string_of_int (List.length l) :: List.map tok_of_n l)

(* ---- Z ---- *)
let z_of_int (x : int) : z =
  if x = 0 then Z0 else if x > 0 then (match n_of_int x with Npos p -> Zpos p | N0 -> Z0)
  else (match n_of_int (-x) with Npos p -> Zneg p | N0 -> Z0)
let int_of_z (x : z) : int = match x with Z0 -> 0 | Zpos p -> int_of_pos p | Zneg p -> - (int_of_pos p)
let tok_of_z (x : z) : string = match x with
  | Z0 -> "0" | Zpos p -> tok_of_n (Npos p) | Zneg p -> "-" ^ tok_of_n (Npos p)

(* ---- shapes and values ---- *)
let prim_of_string s = match s with
  | "int32" -> PInt32 | "int64" -> PInt64 | "uint32" -> PUint32 | "uint64" -> PUint64
  | "float32" -> PFloat32 | "float64" -> PFloat64 | "bool" -> PBool | "string" -> PString
  | _ -> failwith ("bad prim " ^ s)
let rept_of_string s = match s with "req" -> Req | "opt" -> Opt | "rep" -> Rep | _ -> failwith ("bad rep " ^ s)

let rec parse_ty tk : ty =
  match next tk with
  | "l" -> TLeaf (prim_of_string (next tk))
  | "g" -> let n = tint tk in
    TGroup (List.init n (fun _ -> let name = tbytes tk in let rp = rept_of_string (next tk) in let t = parse_ty tk in ((name, rp), t)))
  | s -> failwith ("bad ty token " ^ s)

let fields_of_ty t = match t with TGroup fs -> fs | TLeaf _ -> failwith "shape must be a group"

let rec parse_value tk : value =
  let t = next tk in
  match t.[0] with
  | 'N' -> VNull
  | 'I' -> VNum (n_of_tok (String.sub t 1 (String.length t - 1)))
  | 'S' -> VStr (bytes_of_hex (String.sub t 1 (String.length t - 1)))
  | 'L' -> let n = tint tk in VList (List.init n (fun _ -> parse_value tk))
  | 'G' -> let n = tint tk in VGroup (List.init n (fun _ -> parse_value tk))
  | _ -> failwith ("bad value token " ^ t)

let rec print_value (b : Buffer.t) (v : value) : unit =
  match v with
  | VNull -> Buffer.add_string b " N"
  | VNum x -> Buffer.add_string b (" I" ^ tok_of_n x)
  | VStr s -> Buffer.add_string b (" S" ^ hex_of_bytes s)
  | VList vs -> Buffer.add_string b (" L " ^ string_of_int (List.length vs)); List.iter (print_value b) vs
  | VGroup vs -> Buffer.add_string b (" G " ^ string_of_int (List.length vs)); List.iter (print_value b) vs

(* ---- the codec helper over a pipe ---- *)
let codec_chan : (in_channel * out_channel) option ref = ref None
let codec_path = ref "codec"
let codec_call (op : string) (codec : int) (bs : n list) : string =
  let (ic, oc) = match !codec_chan with
    | Some c -> c
    | None -> let c = Unix.open_process !codec_path in codec_chan := Some c; c in
  output_string oc (op ^ " " ^ string_of_int codec ^ " " ^ hex_of_bytes bs ^ "\n"); flush oc;
  input_line ic
let compress (codec : z) (bs : n list) : n list =
  let c = int_of_z codec in
  if c = 0 then bs else bytes_of_hex (codec_call "c" c bs)
let decompress (codec : z) (bs : n list) : n list option =
  let c = int_of_z codec in
  if c = 0 then Some bs
  else if c = 1 || c = 2 then (let r = codec_call "d" c bs in if r = "ERR" then None else Some (bytes_of_hex r))
  else None
