(* driver <cases>: evaluates the extracted model on every case line and prints
   "id result" lines in exactly the format of the Go harness. *)
open Model
open Util

let dispatch kind tk : string =
  match kind with
  | "pack" -> let w = tn tk in let vs = tnlist tk in hex_of_bytes (pack w vs)
  | "unpack" -> let w = tn tk in let bs = tbytes tk in str_nlist (unpack w bs)
  | _ -> Cases.dispatch kind tk

let () =
  let path = Sys.argv.(1) in
  (if Array.length Sys.argv > 2 then Util.codec_path := Sys.argv.(2));
  let ic = open_in path in
  let out = Buffer.create 65536 in
  (try
     while true do
       let line = String.trim (input_line ic) in
       if line <> "" && line.[0] <> '#' then begin
         let parts = Array.of_list (List.filter (fun s -> s <> "") (String.split_on_char ' ' line)) in
         let id = parts.(0) and kind = parts.(1) in
         let tk = { t = Array.sub parts 2 (Array.length parts - 2); i = 0 } in
         let res = try dispatch kind tk with
           | Failure m -> "MODEL-FAILURE " ^ (String.map (fun c -> if c = ' ' then '_' else c) m)
           | Stack_overflow -> "MODEL-FAILURE stack_overflow" in
         Buffer.add_string out id; Buffer.add_char out ' '; Buffer.add_string out res; Buffer.add_char out '\n';
         if Buffer.length out > 60000 then (print_string (Buffer.contents out); Buffer.clear out)
       end
     done
   with End_of_file -> ());
  print_string (Buffer.contents out);
  close_in ic
