(** Extraction of the executable model to OCaml.  ExtrOcamlBasic only: bool,
    option, unit, list, prod, sumbool, sumor are mapped to their OCaml
    counterparts; nat, positive, N, Z stay the extracted Coq datatypes.
    Run with the target directory as working directory. *)
Require Import ExtrOcamlBasic.
From Coq Require Import List NArith ZArith.
From PQ Require Import Bytes BitExpr Bitpack Varint RleSpec Rle.

Extraction "model.ml"
  Bitpack.pack Bitpack.unpack Bitpack.spec_pack
  Rle.rle_encode Rle.rle_read RleSpec.hybrid_decode_framed RleSpec.runs_values RleSpec.hybrid_encode.
