(** Extraction of the executable model to OCaml.  ExtrOcamlBasic only: bool,
    option, unit, list, prod, sumbool, sumor are mapped to their OCaml
    counterparts; nat, positive, N, Z stay the extracted Coq datatypes.
    Run with the target directory as working directory. *)
Require Import ExtrOcamlBasic.
From Coq Require Import List NArith ZArith.
From PQ Require Import Bytes BitExpr Bitpack Varint RleSpec Rle Schema Dremel Plain Stats MetaTypes Thrift Meta Writer FileSpec Io Reader Introspect Foreign Parse Structs.

Extraction "model.ml"
  Bitpack.pack Bitpack.unpack Bitpack.spec_pack
  Rle.rle_encode Rle.rle_read RleSpec.hybrid_decode_framed RleSpec.runs_values RleSpec.hybrid_encode
  Schema.columns Schema.has_tyb Dremel.shred_record Dremel.assemble_records
  Stats.page_stats Stats.stats_sound
  Meta.enc_page_header Meta.dec_page_header Meta.enc_file_meta Meta.dec_file_meta
  Writer.run_history Writer.run_fault Writer.file_bytes Writer.nonempty_batches
  FileSpec.check_file FileSpec.view_records FileSpec.chunk_entries
  Io.mk_src Reader.read_all_src
  Introspect.read_metadata Introspect.page_headers Introspect.page_headers_at_offset
  Foreign.foreign_file Foreign.segment
  Parse.parse_root Parse.shape_of Structs.struct_of_schema Writer.schema_of.
