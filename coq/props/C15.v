(** C15 — a struct regenerated from a file reads that file back faithfully.
    Statements only; proofs in PQ.StructsProofs.  [schema_of (columns fs)] is the
    footer schema the writer emits for shape [fs]; [struct_of_schema] models
    structs.Struct (parquetgen -parquet); [parse_root] the parse of the
    regenerated declarations.  Together with C01 (the reader generated for a
    shape reads files of that shape) this gives the read-back. *)
From Coq Require Import List NArith.
From PQ Require Import Bytes Schema DremelProofs SchemaProofs MetaTypes Writer Parse Structs ParseBasics StructsProofs.
Import ListNotations.

(** For every shape without repeated fields, with non-empty groups, distinct
    sibling names, leaves of the six signed/float/bool/string types and group
    names that stay distinct (from each other and the root) after strings.Title:
    the regenerated declarations parse back to exactly the same columns,
    nesting, optionality and physical types. *)
Theorem C15_regen_ok : forall root fs,
  ty_okb (TGroup fs) = true -> names_okb (TGroup fs) = true -> regen_tyb (TGroup fs) = true ->
  NoDup (title root :: map title (gnames fs)) ->
  exists ds, struct_of_schema root (schema_of (columns fs)) = Some ds /\
             option_map (map shape_of) (parse_root ds (title root)) = Some fs.
Proof. exact regen_ok. Qed.
Print Assumptions C15_regen_ok.

Theorem C15_regenerated_field_keeps_column_name : forall e, fd_tag (field_decl e) = Some (se_name e).
Proof. exact field_decl_tag. Qed.
