(** C10 — a failed read or seek never turns into silently wrong rows.
    Statements only; proofs in PQ.IoProofs / PQ.ReaderIoProofs.  The source
    operation with index [k] (a Seek, an io.ReadFull, a thrift struct read)
    fails.  The theorem holds for every byte string [file], valid or not. *)
From Coq Require Import List NArith ZArith.
From PQ Require Import Bytes Schema Rle Io Reader IoProofs ReaderIoProofs.
Import ListNotations.
Local Open Scope N_scope.

Theorem C10_src_fault_safe : forall decompress fs file sched k,
  let good := read_all_src decompress fs (mk_src file sched None) in
  let bad := read_all_src decompress fs (mk_src file sched (Some k)) in
  bad = good \/
  (o_err bad = true /\ o_panic bad = false /\
   (o_open_ok bad = false \/ (o_open_ok good = true /\ o_rows bad = o_rows good)) /\
   o_nexts bad <= o_nexts good /\
   exists rest, o_recs good = o_recs bad ++ rest).
Proof. exact src_fault_safe. Qed.
Print Assumptions C10_src_fault_safe.

(** No error reported means exactly the fault-free rows. *)
Theorem C10_no_error_means_same_rows : forall decompress fs file sched k,
  o_err (read_all_src decompress fs (mk_src file sched (Some k))) = false ->
  read_all_src decompress fs (mk_src file sched (Some k)) = read_all_src decompress fs (mk_src file sched None).
Proof. exact src_fault_clean_same. Qed.
Print Assumptions C10_no_error_means_same_rows.

Theorem C10_no_new_panic : forall decompress fs file sched k,
  o_panic (read_all_src decompress fs (mk_src file sched None)) = false ->
  o_panic (read_all_src decompress fs (mk_src file sched (Some k))) = false.
Proof. exact src_fault_no_new_panic. Qed.

(** The same for the files the property is about: for EVERY byte string the
    independent validator accepts as a conformant file (so: every valid file),
    read through any fragmentation schedule with any single source operation
    failing, the outcome is either exactly the file's records, or an error
    after a prefix of them - no panic, no other rows.  (C04 + C08 + C10.) *)
From PQ Require Import MetaTypes FileSpec ForeignProofs ConformantFaults.
Theorem C10_conformant_fault_safe : forall (decompress : Z -> bytes -> option bytes) fs file v,
  check_file decompress file = inr v -> fv_fields v = fs -> fshape_ok fs ->
  (forall x, decompress CODEC_UNCOMPRESSED x = Some x) ->
  (forall c x y, wf_bytes x -> decompress c x = Some y -> wf_bytes y) ->
  wf_bytes file ->
  forall sched k,
  let bad := read_all_src decompress fs (mk_src file sched (Some k)) in
  bad = expected_outcome v \/
  (o_err bad = true /\ o_panic bad = false /\
   o_nexts bad <= sumN (map rv_rows (fv_rgs v)) /\
   exists rest, view_records v = o_recs bad ++ rest).
Proof. exact conformant_fault_safe. Qed.
Print Assumptions C10_conformant_fault_safe.
