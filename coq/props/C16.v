(** C16 — introspection calls report exactly what is in the file.
    Statements only; proofs in PQ.IntrospectProofs (and PQ.MetaProofs).
    [read_metadata], [page_headers], [page_headers_at_offset] are the models of
    parquet.go's ReadMetaData, PageHeaders, PageHeadersAtOffset over the
    explicit source.  On every file of the writer model: ReadMetaData returns
    the footer that was written; PageHeadersAtOffset on a chunk's offset returns
    exactly one header per data page of that chunk, in order, and stops at the
    chunk's end; PageHeaders returns all of them row-group-major. *)
From Coq Require Import List NArith ZArith.
From PQ Require Import Bytes Schema Rle MetaTypes Thrift Meta MetaProofs Writer Io Introspect ReaderProofs2 IntrospectProofs.
Import ListNotations.

Theorem C16_introspect_ok : forall compress cfg bs sched fuel,
  cfg_ok cfg -> Forall (batch_ok compress cfg) bs -> footer_ok compress cfg bs ->
  Forall (fun b => (length b <= fuel)%nat) bs ->
  exists s1 s2,
    read_metadata (mk_src (file_of_batches compress cfg bs) sched None) = Ok (written_footer compress cfg bs, s1) /\
    page_headers fuel (written_footer compress cfg bs) s1 = Ok (all_headers compress cfg bs, s2).
Proof. exact introspect_ok. Qed.
Print Assumptions C16_introspect_ok.

(** what those two names stand for *)
Theorem C16_written_footer_is : forall compress cfg bs,
  written_footer compress cfg bs = footer_meta cfg (map (fun b => snd (write_batch compress cfg b)) bs).
Proof. reflexivity. Qed.

Theorem C16_all_headers_is : forall compress cfg bs,
  all_headers compress cfg bs =
  flat_map (fun b => flat_map (fun '(j, c) => map pg_header (column_pages compress cfg j c b))
                              (index_from 0 (columns (cfg_fields cfg)))) bs.
Proof. reflexivity. Qed.

(** listing from a given offset: the chunk's own headers, and the position ends at the chunk's end *)
Theorem C16_page_headers_at_offset : forall compress cfg bs i j b c rg cc cm fuel s0,
  cfg_ok cfg -> batch_ok compress cfg b ->
  nth_error bs i = Some b -> nth_error (columns (cfg_fields cfg)) j = Some c ->
  nth_error (fm_row_groups (footer_meta cfg (map (fun b0 => snd (write_batch compress cfg b0)) bs))) i = Some rg ->
  nth_error (rg_columns rg) j = Some cc -> cc_meta cc = Some cm ->
  (length (column_pages compress cfg j c b) <= fuel)%nat ->
  s_fail s0 = None -> s_file s0 = file_of_batches compress cfg bs ->
  exists s',
    page_headers_at_offset fuel (cm_data_page_offset cm) (cm_num_values cm) s0 =
      Ok (map pg_header (column_pages compress cfg j c b), s') /\
    s_fail s' = None /\ s_file s' = file_of_batches compress cfg bs /\
    Z.of_N (s_pos s') = (cm_data_page_offset cm + cm_total_compressed cm)%Z.
Proof. exact page_headers_at_offset_ok. Qed.
Print Assumptions C16_page_headers_at_offset.

(** the footer an independent parser decodes is the footer that was written *)
Theorem C16_footer_roundtrip : forall fm rest,
  file_meta_ok fm = true -> dec_file_meta (enc_file_meta fm ++ rest) = Some (fm, rest).
Proof. exact dec_enc_file_meta. Qed.
Print Assumptions C16_footer_roundtrip.
