(** C16 — introspection calls report exactly what is in the file.
    (model: PQ.Introspect; the file-level theorem is stated in PQ.IntrospectProofs as it lands) *)
From Coq Require Import List NArith ZArith.
From PQ Require Import Bytes MetaTypes Thrift Meta MetaProofs.
Import ListNotations.

(** The footer an independent parser decodes is the footer that was written:
    thrift decoding inverts encoding for every well-formed FileMetaData and
    PageHeader, whatever follows them. *)
Theorem C16_footer_roundtrip : forall fm rest,
  file_meta_ok fm = true -> dec_file_meta (enc_file_meta fm ++ rest) = Some (fm, rest).
Proof. exact dec_enc_file_meta. Qed.
Print Assumptions C16_footer_roundtrip.

Theorem C16_page_header_roundtrip : forall ph rest,
  page_header_ok ph = true -> dec_page_header (enc_page_header ph ++ rest) = Some (ph, rest).
Proof. exact dec_enc_page_header. Qed.
Print Assumptions C16_page_header_roundtrip.
