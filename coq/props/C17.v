(** C17 — bit-packing of 8-value groups is exactly invertible and spec-ordered.
    Statements only; proofs are in PQ.BitpackProofs.  [pack]/[unpack] evaluate
    the tables that gen/BitpackImpl.v holds — regenerated from
    /repo/internal/bitpack/bitpack.go by /verif/go/translator on every run. *)
From Coq Require Import List NArith.
From PQ Require Import Bytes BitExpr Bitpack BitpackProofs.
Import ListNotations.
Local Open Scope N_scope.

(** Every 8-tuple of w-bit values survives pack-then-unpack. *)
Theorem C17_unpack_pack : forall w vs,
  In w [1; 2; 3; 4] -> length vs = 8%nat -> Forall (fun v => v < 2 ^ w) vs ->
  unpack w (pack w vs) = vs.
Proof. exact unpack_pack. Qed.
Print Assumptions C17_unpack_pack.

(** The packed bytes are the LSB-first little-endian layout of Encodings.md:
    value i occupies bits w*i .. w*i+w-1 of the w-byte little-endian word. *)
Theorem C17_pack_spec : forall w vs,
  In w [1; 2; 3; 4] -> length vs = 8%nat -> Forall (fun v => v < 2 ^ w) vs ->
  pack w vs = le_enc (N.to_nat w) (spec_word w 0 vs).
Proof. exact pack_spec. Qed.
Print Assumptions C17_pack_spec.

(** Every w-byte group survives unpack-then-pack, and unpacks to w-bit values. *)
Theorem C17_pack_unpack : forall w bs,
  In w [1; 2; 3; 4] -> length bs = N.to_nat w -> Forall (fun b => b < 256) bs ->
  pack w (unpack w bs) = bs /\ Forall (fun v => v < 2 ^ w) (unpack w bs) /\ length (unpack w bs) = 8%nat.
Proof.
  intros w bs Hw Hl Hb. split; [|split].
  - exact (pack_unpack_eq w bs Hw Hl Hb).
  - exact (unpack_bounded w bs Hw Hl Hb).
  - rewrite unpack_length. exact (unpack_table_length w Hw).
Qed.
Print Assumptions C17_pack_unpack.

(** Packing ignores all but the low w bits of each uint8 input. *)
Theorem C17_pack_masks : forall w vs,
  In w [1; 2; 3; 4] -> length vs = 8%nat -> Forall (fun b => b < 256) vs ->
  pack w vs = pack w (map (fun v => v mod 2 ^ w) vs).
Proof. exact pack_masks. Qed.
Print Assumptions C17_pack_masks.

(** Non-vacuity: a concrete group meeting the hypotheses, with its bytes
    (the example of the Parquet documentation: 0..7 at width 3). *)
Example C17_doc_example :
  pack 3 [0; 1; 2; 3; 4; 5; 6; 7] = [136; 198; 250] /\
  unpack 3 [136; 198; 250] = [0; 1; 2; 3; 4; 5; 6; 7].
Proof. split; vm_compute; reflexivity. Qed.
