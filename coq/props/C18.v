(** C18 — files outside the supported subset are refused, not misread.
    Statements only; proofs in PQ.RefuseProofs (page level) and
    PQ.ForeignProofs (file level).  [supported_page] and
    [page_data] are the model of fields.go supportedPage / pageData (fix
    e8bb9d0): the only page the reader decodes is a v1 data page with PLAIN
    values and, where the column has levels, RLE levels, in one of the three
    codecs; everything else makes the column read return an error before any
    byte of the page is interpreted. *)
From Coq Require Import List NArith ZArith.
From PQ Require Import Bytes Schema Rle MetaTypes Io Reader RefuseProofs Foreign ForeignProofs.
Import ListNotations.

Theorem C18_only_v1_plain_rle_is_decoded : forall ph d r dph,
  supported_page ph d r = Some dph ->
  ph_type ph = PT_DATA_PAGE /\ ph_data ph = Some dph /\ dph_encoding dph = ENC_PLAIN /\
  (d = true -> dph_def_encoding dph = ENC_RLE) /\ (r = true -> dph_rep_encoding dph = ENC_RLE).
Proof. exact supported_page_some. Qed.
Print Assumptions C18_only_v1_plain_rle_is_decoded.

(** dictionary, index and v2 data pages *)
Theorem C18_other_page_types_refused : forall ph d r,
  ph_type ph <> PT_DATA_PAGE -> supported_page ph d r = None.
Proof. exact supported_page_type. Qed.

Theorem C18_missing_data_header_refused : forall ph d r,
  ph_data ph = None -> supported_page ph d r = None.
Proof. exact supported_page_nodata. Qed.

Theorem C18_other_value_encodings_refused : forall ph dph d r,
  ph_data ph = Some dph -> dph_encoding dph <> ENC_PLAIN -> supported_page ph d r = None.
Proof. exact supported_page_encoding. Qed.

Theorem C18_bit_packed_def_levels_refused : forall ph dph r,
  ph_data ph = Some dph -> dph_def_encoding dph <> ENC_RLE -> supported_page ph true r = None.
Proof. exact supported_page_def_levels. Qed.

Theorem C18_bit_packed_rep_levels_refused : forall ph dph d,
  ph_data ph = Some dph -> dph_rep_encoding dph <> ENC_RLE -> supported_page ph d true = None.
Proof. exact supported_page_rep_levels. Qed.

Theorem C18_other_codecs_refused : forall decompress codec ph s,
  codec <> CODEC_SNAPPY -> codec <> CODEC_GZIP -> codec <> CODEC_UNCOMPRESSED ->
  page_data decompress codec ph s = Err.
Proof. exact page_data_unsupported_codec. Qed.
Print Assumptions C18_other_codecs_refused.

(** File level: an otherwise conformant foreign file (any legal encoding
    choices) in which one column chunk - any row group g, any column j, any
    page p - uses one unsupported feature (dictionary page, index page,
    DATA_PAGE_V2, a value encoding other than PLAIN, BIT_PACKED levels on a
    column that has them, another codec): the reader does not panic, reports an
    error (from the constructor when g = 0, from Error() otherwise) and delivers
    exactly the records of the row groups before g. *)
Theorem C18_unsupported_refused :
  forall (compress : Z -> bytes -> bytes) (decompress : Z -> bytes -> option bytes),
  (forall c x, In c [CODEC_UNCOMPRESSED; CODEC_SNAPPY; CODEC_GZIP] -> decompress c (compress c x) = Some x) ->
  (forall x, compress CODEC_UNCOMPRESSED x = x) ->
  forall fs fc batches g j p inj,
  fshape_ok fs -> Forall (fbatch_ok fs) batches -> choices_ok fc ->
  fc_inject fc = Some (g, j, p, inj) ->
  injection_effective compress fs fc batches g j p inj ->
  fsizes_ok compress fs fc batches ->
  let o := read_all decompress fs (foreign_file compress fs fc batches) in
  o_panic o = false /\
  (o_open_ok o = false \/ o_err o = true) /\
  o_recs o = concat (firstn g batches) /\
  (g = 0%nat -> o_open_ok o = false) /\
  (g <> 0%nat -> o_open_ok o = true /\ o_err o = true).
Proof. exact unsupported_refused. Qed.
Print Assumptions C18_unsupported_refused.
