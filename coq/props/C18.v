(** C18 — files outside the supported subset are refused, not misread.
    Statements only; proofs in PQ.RefuseProofs (page level) and
    PQ.ForeignProofs (file level, added when it lands).  [supported_page] and
    [page_data] are the model of fields.go supportedPage / pageData (fix
    e8bb9d0): the only page the reader decodes is a v1 data page with PLAIN
    values and, where the column has levels, RLE levels, in one of the three
    codecs; everything else makes the column read return an error before any
    byte of the page is interpreted. *)
From Coq Require Import List NArith ZArith.
From PQ Require Import Bytes Rle MetaTypes Io Reader RefuseProofs.
Import ListNotations.

Theorem C18_only_v1_plain_rle_is_decoded : forall ph d r dph,
  supported_page ph d r = Some dph ->
  ph_type ph = PT_DATA_PAGE /\ ph_data ph = Some dph /\ dph_encoding dph = ENC_PLAIN /\
  (d = true -> dph_def_encoding dph = ENC_RLE) /\ (r = true -> dph_rep_encoding dph = ENC_RLE).
Proof. exact supported_page_some. Qed.
Print Assumptions C18_only_v1_plain_rle_is_decoded.

(** dictionary, index and v2 data pages *)
Theorem C18_other_page_types_refused : forall ph d r,
  ph_type ph <> PT_DATA_PAGE -> supported_page ph d r = None.
Proof. exact supported_page_type. Qed.

Theorem C18_missing_data_header_refused : forall ph d r,
  ph_data ph = None -> supported_page ph d r = None.
Proof. exact supported_page_nodata. Qed.

Theorem C18_other_value_encodings_refused : forall ph dph d r,
  ph_data ph = Some dph -> dph_encoding dph <> ENC_PLAIN -> supported_page ph d r = None.
Proof. exact supported_page_encoding. Qed.

Theorem C18_bit_packed_def_levels_refused : forall ph dph r,
  ph_data ph = Some dph -> dph_def_encoding dph <> ENC_RLE -> supported_page ph true r = None.
Proof. exact supported_page_def_levels. Qed.

Theorem C18_bit_packed_rep_levels_refused : forall ph dph d,
  ph_data ph = Some dph -> dph_rep_encoding dph <> ENC_RLE -> supported_page ph d true = None.
Proof. exact supported_page_rep_levels. Qed.

Theorem C18_other_codecs_refused : forall decompress codec ph s,
  codec <> CODEC_SNAPPY -> codec <> CODEC_GZIP -> codec <> CODEC_UNCOMPRESSED ->
  page_data decompress codec ph s = Err.
Proof. exact page_data_unsupported_codec. Qed.
Print Assumptions C18_other_codecs_refused.
