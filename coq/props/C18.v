(** C18 — files outside the supported subset are refused, not misread (placeholder; see PQ.ForeignProofs) *)
From Coq Require Import List NArith.
