(** C06 — every Add/Write/Close history gives one row group per non-empty batch.
    Statements only; proofs in PQ.WriterProofs.  [file_bytes compress cfg h] is
    the file the writer model produces for the call history [h] (then Close);
    [nonempty_batches h] are the records between consecutive Write calls, the
    empty ones and the records still pending at Close dropped. *)
From Coq Require Import List NArith ZArith.
From PQ Require Import Bytes Schema MetaTypes Writer WriterProofs.
Import ListNotations.

(** The file depends on the history only through its non-empty written batches. *)
Theorem C06_file_is_file_of_batches : forall compress cfg h,
  file_bytes compress cfg h = file_of_batches compress cfg (nonempty_batches h).
Proof. exact file_bytes_batches. Qed.
Print Assumptions C06_file_is_file_of_batches.

(** A Write with nothing pending never changes anything. *)
Theorem C06_empty_write_inert : forall compress cfg h1 h2,
  file_bytes compress cfg (h1 ++ OpWrite :: OpWrite :: h2) = file_bytes compress cfg (h1 ++ OpWrite :: h2).
Proof. exact empty_write_inert. Qed.
Print Assumptions C06_empty_write_inert.

Theorem C06_leading_write_inert : forall compress cfg h,
  file_bytes compress cfg (OpWrite :: h) = file_bytes compress cfg h.
Proof. exact leading_write_inert. Qed.

(** Records still pending at Close are not in the file (and not counted). *)
Theorem C06_pending_at_close_dropped : forall compress cfg h rs,
  file_bytes compress cfg (h ++ map OpAdd rs) = file_bytes compress cfg h.
Proof. exact pending_at_close_dropped. Qed.
Print Assumptions C06_pending_at_close_dropped.

(** One row group per non-empty batch, in order, rows = batch size, and the
    footer's num_rows is the number of rows stored. *)
Theorem C06_footer_rows : forall compress cfg bs,
  let rgs := map (fun b => snd (write_batch compress cfg b)) bs in
  length (fm_row_groups (footer_meta cfg rgs)) = length bs /\
  map rg_num_rows (fm_row_groups (footer_meta cfg rgs)) = map (fun b => Z.of_nat (length b)) bs /\
  fm_num_rows (footer_meta cfg rgs) = Z.of_nat (length (concat bs)).
Proof. exact footer_truthful. Qed.
Print Assumptions C06_footer_rows.
