(** C02 (placeholder statements are filled in below) *)
From Coq Require Import List NArith.
