(** C02 — every written file is structurally valid Parquet with a truthful footer.
    Statements only.  Validity is *defined* by the independent validator
    [FileSpec.check_file] (the same function the check applies to the real
    files).  Proved so far about the writer model ([Writer.v]): the footer's
    offsets, sizes and row counts agree with the bytes written, for every
    configuration and every list of batches (PQ.WriterProofs); the page-,
    chunk- and file-level acceptance by [check_file] is in PQ.PageProofs /
    PQ.ValidatorProofs and is added below as it lands. *)
From Coq Require Import List NArith ZArith.
From PQ Require Import Bytes Schema MetaTypes Writer WriterProofs.
Import ListNotations.
Local Open Scope N_scope.

(** Every offset and byte size in the footer is the truth about the file: the
    j-th column chunk of the i-th row group starts exactly where the footer
    says (file_offset = data_page_offset = the length of everything before its
    first page header = 4 + earlier batches + earlier columns of this batch),
    its total_compressed_size is the number of bytes its pages occupy, and the
    row group's total_byte_size is the number of bytes of the row group. *)
Theorem C02_offsets_truthful : forall compress cfg bs i j b c,
  nth_error bs i = Some b ->
  nth_error (columns (cfg_fields cfg)) j = Some c ->
  let pages := column_pages compress cfg j c b in
  let fm := footer_meta cfg (map (fun b => snd (write_batch compress cfg b)) bs) in
  exists rg cc cm pre post,
    nth_error (fm_row_groups fm) i = Some rg /\
    nth_error (rg_columns rg) j = Some cc /\
    cc_meta cc = Some cm /\
    cm_path cm = c_path c /\
    file_of_batches compress cfg bs = pre ++ chunk_bytes pages ++ post /\
    cc_file_offset cc = Z.of_N (nlen pre) /\
    cm_data_page_offset cm = Z.of_N (nlen pre) /\
    nlen pre = batch_start compress cfg bs i + col_start compress cfg b j /\
    cm_total_compressed cm = Z.of_N (nlen (chunk_bytes pages)) /\
    rg_total_byte_size rg = Z.of_N (batch_len (write_batch compress cfg b)).
Proof. exact offsets_truthful. Qed.
Print Assumptions C02_offsets_truthful.

(** Row counts: one row group per batch, rows = batch size, file num_rows = total. *)
Theorem C02_row_counts_truthful : forall compress cfg bs,
  let rgs := map (fun b => snd (write_batch compress cfg b)) bs in
  length (fm_row_groups (footer_meta cfg rgs)) = length bs /\
  map rg_num_rows (fm_row_groups (footer_meta cfg rgs)) = map (fun b => Z.of_nat (length b)) bs /\
  fm_num_rows (footer_meta cfg rgs) = Z.of_nat (length (concat bs)).
Proof. exact footer_truthful. Qed.
Print Assumptions C02_row_counts_truthful.
