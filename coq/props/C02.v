(** C02 — every written file is structurally valid Parquet with a truthful footer.
    Statements only.  Validity is *defined* by the independent validator
    [FileSpec.check_file] (the same function the check applies to the real
    files).  Proved about the writer model ([Writer.v]): the validator accepts
    every file it produces and finds in it exactly the batches written
    (PQ.PageProofs, PQ.SchemaProofs, PQ.ValidatorProofs), and the footer's
    offsets, sizes and row counts agree with the bytes written
    (PQ.WriterProofs). *)
From Coq Require Import List NArith ZArith.
From PQ Require Import Bytes Schema Dremel DremelProofs MetaTypes Writer WriterProofs FileSpec PageProofs SchemaProofs ValidatorProofs FooterBounds.
Import ListNotations.
Local Open Scope N_scope.

(** Every offset and byte size in the footer is the truth about the file: the
    j-th column chunk of the i-th row group starts exactly where the footer
    says (file_offset = data_page_offset = the length of everything before its
    first page header = 4 + earlier batches + earlier columns of this batch),
    its total_compressed_size is the number of bytes its pages occupy, and the
    row group's total_byte_size is the number of bytes of the row group. *)
Theorem C02_offsets_truthful : forall compress cfg bs i j b c,
  nth_error bs i = Some b ->
  nth_error (columns (cfg_fields cfg)) j = Some c ->
  let pages := column_pages compress cfg j c b in
  let fm := footer_meta cfg (map (fun b => snd (write_batch compress cfg b)) bs) in
  exists rg cc cm pre post,
    nth_error (fm_row_groups fm) i = Some rg /\
    nth_error (rg_columns rg) j = Some cc /\
    cc_meta cc = Some cm /\
    cm_path cm = c_path c /\
    file_of_batches compress cfg bs = pre ++ chunk_bytes pages ++ post /\
    cc_file_offset cc = Z.of_N (nlen pre) /\
    cm_data_page_offset cm = Z.of_N (nlen pre) /\
    nlen pre = batch_start compress cfg bs i + col_start compress cfg b j /\
    cm_total_compressed cm = Z.of_N (nlen (chunk_bytes pages)) /\
    rg_total_byte_size rg = Z.of_N (batch_len (write_batch compress cfg b)).
Proof. exact offsets_truthful. Qed.
Print Assumptions C02_offsets_truthful.

(** Row counts: one row group per batch, rows = batch size, file num_rows = total. *)
Theorem C02_row_counts_truthful : forall compress cfg bs,
  let rgs := map (fun b => snd (write_batch compress cfg b)) bs in
  length (fm_row_groups (footer_meta cfg rgs)) = length bs /\
  map rg_num_rows (fm_row_groups (footer_meta cfg rgs)) = map (fun b => Z.of_nat (length b)) bs /\
  fm_num_rows (footer_meta cfg rgs) = Z.of_nat (length (concat bs)).
Proof. exact footer_truthful. Qed.
Print Assumptions C02_row_counts_truthful.

(** The file of every list of well-typed batches is accepted by the independent
    validator - magic, footer length, footer decoding with nothing left over,
    schema tree parsed back to the struct shape, one column chunk per leaf in
    order (path, physical type), offsets = running position, every page's
    sizes, encodings, level sections (framed hybrid streams, < 8 padding,
    levels within bounds, first repetition level 0) and value section (exactly
    the non-null count, no byte left), chunk and row-group totals, no
    unaccounted byte before the footer, num_rows - and what it finds is what
    was written: the shape, one row group per batch with its rows, the records
    themselves (reassembled by the reference assembler), at most [cfg_max]
    records per page, sound statistics on every page. *)
Theorem C02_written_file_valid :
  forall (compress : Z -> bytes -> bytes) (decompress : Z -> bytes -> option bytes),
  (forall c x, In c [CODEC_UNCOMPRESSED; CODEC_SNAPPY; CODEC_GZIP] -> decompress c (compress c x) = Some x) ->
  forall cfg bs,
  (1 <= cfg_max cfg)%nat -> PageProofs.codec_ok (cfg_codec cfg) -> shape_ok (cfg_fields cfg) ->
  Forall (fun b => Forall (rec_ok (cfg_fields cfg)) b) bs ->
  sizes_ok compress cfg bs ->
  exists v,
    check_file decompress (file_of_batches compress cfg bs) = inr v /\
    fv_fields v = cfg_fields cfg /\
    fv_cols v = columns (cfg_fields cfg) /\
    map rv_rows (fv_rgs v) = map (@nlen value) bs /\
    map rv_records (fv_rgs v) = bs /\
    view_records v = concat bs /\
    all_pages (fun pv => pv_records pv <= N.of_nat (cfg_max cfg) /\ pv_stats_ok pv = true) (fv_rgs v).
Proof. exact written_file_valid. Qed.
Print Assumptions C02_written_file_valid.

(** ... and so for every Add/Write history. *)
Theorem C02_written_history_valid :
  forall (compress : Z -> bytes -> bytes) (decompress : Z -> bytes -> option bytes),
  (forall c x, In c [CODEC_UNCOMPRESSED; CODEC_SNAPPY; CODEC_GZIP] -> decompress c (compress c x) = Some x) ->
  forall cfg h,
  (1 <= cfg_max cfg)%nat -> PageProofs.codec_ok (cfg_codec cfg) -> shape_ok (cfg_fields cfg) ->
  Forall (op_ok (cfg_fields cfg)) h ->
  sizes_ok compress cfg (nonempty_batches h) ->
  exists v,
    check_file decompress (file_bytes compress cfg h) = inr v /\
    fv_fields v = cfg_fields cfg /\
    map rv_records (fv_rgs v) = nonempty_batches h /\
    view_records v = concat (nonempty_batches h) /\
    all_pages (fun pv => pv_records pv <= N.of_nat (cfg_max cfg) /\ pv_stats_ok pv = true) (fv_rgs v).
Proof. exact written_history_valid. Qed.
Print Assumptions C02_written_history_valid.

(** The footer schema is a well-formed tree that parses back to exactly the
    struct shape (sibling names distinct; same-named groups under different
    parents are fine). *)
Theorem C02_schema_tree : forall fs,
  ty_okb (TGroup fs) = true -> names_okb (TGroup fs) = true ->
  parse_schema (schema_of (columns fs)) = inr fs.
Proof. exact parse_schema_of. Qed.
Print Assumptions C02_schema_tree.

(** Non-vacuity: a concrete configuration meets the side conditions and is accepted. *)
Example C02_example_valid :
  shape_okb Tiny.fs0 = true /\ sizes_okb Tiny.cmp Tiny.cfg0 [[Tiny.rA; Tiny.rB]] = true /\
  exists v, check_file Tiny.dcmp (file_of_batches Tiny.cmp Tiny.cfg0 [[Tiny.rA; Tiny.rB]]) = inr v /\
            view_records v = [Tiny.rA; Tiny.rB] /\ map rv_rows (fv_rgs v) = [2%N].
Proof. split; [apply Tiny.tiny_sizes_ok | split; [apply Tiny.tiny_sizes_ok | exact Tiny.tiny_file_valid]]. Qed.

(** [sizes_ok] follows from conditions on the inputs alone (names, schema size,
    batch sizes, size of the data section): PQ.FooterBounds. *)
Theorem C02_sizes_ok_from_inputs : forall compress M cfg bs,
  Forall (batch_sizes_ok compress cfg) bs ->
  In (cfg_codec cfg) [CODEC_UNCOMPRESSED; CODEC_SNAPPY; CODEC_GZIP] ->
  shape_names_ok (cfg_fields cfg) -> 4 <= M -> shape_names_le M (cfg_fields cfg) ->
  footer_len_bound M (columns (cfg_fields cfg)) (nlen bs) < 2 ^ 32 ->
  Forall (fun b => nlen b < 2 ^ 31) bs ->
  nlen (data_section compress cfg bs) + 4 < 2 ^ 62 ->
  sizes_ok compress cfg bs.
Proof. exact sizes_ok_written. Qed.
Print Assumptions C02_sizes_ok_from_inputs.
