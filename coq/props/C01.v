(** C01 — write-then-read returns exactly the records that were added.
    (placeholder: property theorems are added as the integration proofs land) *)
From Coq Require Import List NArith.
From PQ Require Import Bytes Schema Dremel DremelProofs.
Import ListNotations.

(** The record-level core: the reference striping is lossless for every
    well-typed record of every well-formed shape, and for sequences of records. *)
Theorem C01_shred_assemble_records : forall fs vs,
  ty_okb (TGroup fs) = true -> Forall (fun v => has_tyb (TGroup fs) v = true) vs ->
  assemble_records fs (shred_records fs vs) = Some vs.
Proof. exact assemble_shred_records. Qed.
Print Assumptions C01_shred_assemble_records.
