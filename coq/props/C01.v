(** C01 — write-then-read returns exactly the records that were added.
    Statements only; proofs in PQ.ReaderProofs / PQ.ReaderProofs2 /
    PQ.WriterProofs / PQ.DremelProofs.  [file_bytes compress cfg h] is the file
    the writer model produces for the call history [h] (any mix of Add and
    Write, then Close); [read_all] is the whole life of the reader model
    (constructor, Next/Scan until Next is false).  The two codec facts are
    premises, not axioms: they are the contract of snappy/gzip and of
    fields.go's [compress] for UNCOMPRESSED (without the second the statement
    is false — ReaderProofs2.Example.ident_needed). *)
From Coq Require Import List NArith ZArith.
From PQ Require Import Bytes Schema Dremel DremelProofs MetaTypes Writer Reader WriterProofs ReaderProofs ReaderProofs2 FooterBounds RoundtripInputs.
Import ListNotations.

(** For every shape, page size >= 1, codec, and every list of non-empty
    well-typed batches within the int32 size limits of the format: the reader
    returns exactly those records in order, Rows() and the number of times Next
    is true equal their number, Error() is nil, nothing panics. *)
Theorem C01_write_read_roundtrip :
  forall (compress : Z -> bytes -> bytes) (decompress : Z -> bytes -> option bytes),
  (forall c x, codec_ok c -> decompress c (compress c x) = Some x) ->
  (forall x, compress CODEC_UNCOMPRESSED x = x) ->
  forall cfg bs,
  cfg_ok cfg -> Forall (batch_ok compress cfg) bs -> footer_ok compress cfg bs ->
  read_all decompress (cfg_fields cfg) (file_of_batches compress cfg bs) =
  {| o_open_ok := true;
     o_rows := Z.of_nat (length (concat bs));
     o_nexts := N.of_nat (length (concat bs));
     o_err := false; o_panic := false;
     o_recs := concat bs |}.
Proof. exact write_read_roundtrip. Qed.
Print Assumptions C01_write_read_roundtrip.

(** The same with every hypothesis on the INPUTS: [footer_ok] (a condition on the
    written footer) is derived from bounds on the names (well-formed bytes, at
    most M bytes each), on the schema size and number of batches (through
    [footer_len_bound], which keeps the encoded footer below 2^32), on the
    batch sizes (< 2^31 records) and on the data section (< 2^62 bytes). *)
Theorem C01_write_read_roundtrip_inputs :
  forall (compress : Z -> bytes -> bytes) (decompress : Z -> bytes -> option bytes),
  (forall c x, codec_ok c -> decompress c (compress c x) = Some x) ->
  (forall x, compress CODEC_UNCOMPRESSED x = x) ->
  forall M cfg bs,
  ReaderProofs2.cfg_ok cfg -> Forall (ReaderProofs2.batch_ok compress cfg) bs ->
  shape_names_ok (cfg_fields cfg) -> (4 <= M)%N -> shape_names_le M (cfg_fields cfg) ->
  (footer_len_bound M (columns (cfg_fields cfg)) (nlen bs) < 2 ^ 32)%N ->
  Forall (fun b => (nlen b < 2 ^ 31)%N) bs ->
  (nlen (ReaderProofs2.data_bytes compress cfg bs) + 4 < 2 ^ 62)%N ->
  read_all decompress (cfg_fields cfg) (file_of_batches compress cfg bs) =
  {| o_open_ok := true;
     o_rows := Z.of_nat (length (concat bs));
     o_nexts := N.of_nat (length (concat bs));
     o_err := false; o_panic := false;
     o_recs := concat bs |}.
Proof. exact write_read_roundtrip_inputs. Qed.
Print Assumptions C01_write_read_roundtrip_inputs.

(** The same for every Add/Write history: what is read back is the
    concatenation of the non-empty written batches. *)
Theorem C01_history_roundtrip :
  forall (compress : Z -> bytes -> bytes) (decompress : Z -> bytes -> option bytes),
  (forall c x, codec_ok c -> decompress c (compress c x) = Some x) ->
  (forall x, compress CODEC_UNCOMPRESSED x = x) ->
  forall cfg h,
  cfg_ok cfg -> Forall (batch_ok compress cfg) (nonempty_batches h) -> footer_ok compress cfg (nonempty_batches h) ->
  read_all decompress (cfg_fields cfg) (file_bytes compress cfg h) =
  {| o_open_ok := true;
     o_rows := Z.of_nat (length (concat (nonempty_batches h)));
     o_nexts := N.of_nat (length (concat (nonempty_batches h)));
     o_err := false; o_panic := false;
     o_recs := concat (nonempty_batches h) |}.
Proof.
  intros compress decompress Hc Hi cfg h Hcfg Hb Hf.
  rewrite file_bytes_batches. apply write_read_roundtrip; assumption.
Qed.
Print Assumptions C01_history_roundtrip.

(** The record-level core: the reference striping is lossless. *)
Theorem C01_shred_assemble_records : forall fs vs,
  ty_okb (TGroup fs) = true -> Forall (fun v => has_tyb (TGroup fs) v = true) vs ->
  assemble_records fs (shred_records fs vs) = Some vs.
Proof. exact assemble_shred_records. Qed.
Print Assumptions C01_shred_assemble_records.

(** Non-vacuity: a concrete configuration (optional int32, repeated bool,
    required string; page size 2; three row groups) meets every hypothesis. *)
Example C01_hypotheses_satisfiable :
  cfg_okb Example.cfg0 = true /\
  forallb (batch_okb Example.cid Example.cfg0) Example.bs0 = true /\
  footer_okb Example.cid Example.cfg0 Example.bs0 = true.
Proof. exact Example.hyps_hold. Qed.
