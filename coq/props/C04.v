(** C04 — the reader decodes every conformant file of the supported subset (placeholder; see PQ.ForeignProofs) *)
From Coq Require Import List NArith.
