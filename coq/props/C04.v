(** C04 — the reader decodes every conformant file of the supported subset.
    Statements only.  The core facts, each for ALL inputs: the library's level
    decoder accepts every well-formed hybrid stream, whatever mix of run kinds,
    run lengths and group counts (PQ.RleDecProofs); PLAIN values decode from the
    concatenation of page sections (PQ.PlainProofs); optional thrift fields are
    carried by the decoder (PQ.MetaProofs).  The file-level statement over the
    choice-driven foreign writer [Foreign.foreign_file] (any run segmentation,
    page splits, codecs, optional metadata) is PQ.ForeignProofs.foreign_read_ok
    and is added here when it lands. *)
From Coq Require Import List NArith ZArith.
From PQ Require Import Bytes Bitpack RleSpec Rle BitpackProofs RleSpecProofs RleDecProofs MetaTypes Thrift Meta MetaProofs.
Import ListNotations.
Local Open Scope N_scope.

Theorem C04_any_run_segmentation_decodes : forall w rs rest,
  In w [1; 2; 3; 4] -> Forall (wf_run w) rs ->
  Forall (fun r => match r with RRle c _ => c < 2 ^ 63 | RBp _ => True end) rs ->
  nlen (runs_encode w rs) < 2 ^ 31 ->
  rle_read w (hybrid_encode w rs ++ rest) = Ok (runs_values rs, (4 + length (runs_encode w rs))%nat).
Proof. exact rle_read_ok. Qed.
Print Assumptions C04_any_run_segmentation_decodes.

(** optional header fields (CRC, statistics in either form, ...) do not disturb decoding *)
Theorem C04_any_page_header_decodes : forall ph rest,
  page_header_ok ph = true -> dec_page_header (enc_page_header ph ++ rest) = Some (ph, rest).
Proof. exact dec_enc_page_header. Qed.
Print Assumptions C04_any_page_header_decodes.

Theorem C04_any_footer_decodes : forall fm rest,
  file_meta_ok fm = true -> dec_file_meta (enc_file_meta fm ++ rest) = Some (fm, rest).
Proof. exact dec_enc_file_meta. Qed.
Print Assumptions C04_any_footer_decodes.
