(** C04 — the reader decodes every conformant file of the supported subset.
    Statements only.  The core facts, each for ALL inputs: the library's level
    decoder accepts every well-formed hybrid stream, whatever mix of run kinds,
    run lengths and group counts (PQ.RleDecProofs); PLAIN values decode from the
    concatenation of page sections (PQ.PlainProofs); optional thrift fields are
    carried by the decoder (PQ.MetaProofs); and the file-level theorem over the
    choice-driven foreign writer [Foreign.foreign_file] (PQ.ForeignProofs). *)
From Coq Require Import List NArith ZArith.
From PQ Require Import Bytes Schema Bitpack RleSpec Rle BitpackProofs RleSpecProofs RleDecProofs MetaTypes Thrift Meta MetaProofs Reader Foreign ForeignProofs FileSpec ConformantProofs.
Import ListNotations.
Local Open Scope N_scope.

Theorem C04_any_run_segmentation_decodes : forall w rs rest,
  In w [1; 2; 3; 4] -> Forall (wf_run w) rs ->
  Forall (fun r => match r with RRle c _ => c < 2 ^ 63 | RBp _ => True end) rs ->
  nlen (runs_encode w rs) < 2 ^ 31 ->
  rle_read w (hybrid_encode w rs ++ rest) = Ok (runs_values rs, (4 + length (runs_encode w rs))%nat).
Proof. exact rle_read_ok. Qed.
Print Assumptions C04_any_run_segmentation_decodes.

(** optional header fields (CRC, statistics in either form, ...) do not disturb decoding *)
Theorem C04_any_page_header_decodes : forall ph rest,
  page_header_ok ph = true -> dec_page_header (enc_page_header ph ++ rest) = Some (ph, rest).
Proof. exact dec_enc_page_header. Qed.
Print Assumptions C04_any_page_header_decodes.

Theorem C04_any_footer_decodes : forall fm rest,
  file_meta_ok fm = true -> dec_file_meta (enc_file_meta fm ++ rest) = Some (fm, rest).
Proof. exact dec_enc_file_meta. Qed.
Print Assumptions C04_any_footer_decodes.

(** The reader returns exactly the records from every file the foreign writer
    can produce for them: every segmentation of every level stream into RLE
    runs (any length >= 1) and bit-packed runs (any group count, any padding
    value), every split of every column into pages at record boundaries
    (independently per column), every assignment of the three codecs to
    columns, statistics absent / current / deprecated fields too, CRC,
    created_by, key/value metadata, encoding_stats, any of the three
    file_offset conventions and either total_byte_size convention.
    [choices_ok] only asks for supported codecs; [fsizes_ok] is the int32 size
    limits of the format. *)
Theorem C04_foreign_read_ok :
  forall (compress : Z -> bytes -> bytes) (decompress : Z -> bytes -> option bytes),
  (forall c x, In c [CODEC_UNCOMPRESSED; CODEC_SNAPPY; CODEC_GZIP] -> decompress c (compress c x) = Some x) ->
  (forall x, compress CODEC_UNCOMPRESSED x = x) ->
  forall fs fc batches,
  fshape_ok fs -> Forall (fbatch_ok fs) batches -> choices_ok fc -> fc_inject fc = None ->
  fsizes_ok compress fs fc batches ->
  read_all decompress fs (foreign_file compress fs fc batches) =
  {| o_open_ok := true;
     o_rows := Z.of_nat (length (concat batches));
     o_nexts := N.of_nat (length (concat batches));
     o_err := false; o_panic := false;
     o_recs := concat batches |}.
Proof. exact foreign_read_ok. Qed.
Print Assumptions C04_foreign_read_ok.

(** the segmentation itself: whatever the choices, well-formed runs of the levels plus < 8 padding values *)
Theorem C04_segment_ok : forall fuel w choices pad ls,
  (length ls <= fuel)%nat -> Forall (fun v => v < 2 ^ w) ls -> nlen ls < 2 ^ 63 ->
  exists padding,
    runs_values (segment fuel w choices pad ls) = ls ++ padding /\ (length padding < 8)%nat /\
    Forall (wf_run w) (segment fuel w choices pad ls) /\
    Forall RleDecProofs.run_small (segment fuel w choices pad ls).
Proof. exact segment_ok. Qed.
Print Assumptions C04_segment_ok.

(** The property at full strength, without a writer in the statement: EVERY
    byte string that the independent validator [FileSpec.check_file] accepts as
    a conformant file of the supported subset (magic, footer, schema, per
    column chunk: offsets, codec, page headers of either data-page kind the
    subset has, levels as any well-formed hybrid stream, PLAIN values, counts
    consistent) is read back by the reader model as exactly the records the
    validator's own reference assembly sees ([view_records]), with the file's
    row count, no error and no panic.  Row groups with zero rows are allowed
    anywhere (the proof of this forced hypothesis found defect D14, repaired in
    /repo by 0d8f069).  [decompress] is any function that is the identity on
    UNCOMPRESSED and returns bytes. *)
Theorem C04_conformant_read_ok : forall (decompress : Z -> bytes -> option bytes) fs file v,
  check_file decompress file = inr v ->
  fv_fields v = fs ->
  fshape_ok fs ->
  (forall x, decompress CODEC_UNCOMPRESSED x = Some x) ->
  (forall c x y, wf_bytes x -> decompress c x = Some y -> wf_bytes y) ->
  wf_bytes file ->
  read_all decompress fs file =
  {| o_open_ok := true; o_rows := Z.of_N (sumN (map rv_rows (fv_rgs v)));
     o_nexts := sumN (map rv_rows (fv_rgs v)); o_err := false; o_panic := false;
     o_recs := view_records v |}.
Proof. exact conformant_read_ok. Qed.
Print Assumptions C04_conformant_read_ok.
