(** C14 — excluded fields are inert and embedding equals inlining (placeholder; see PQ.ParseProofs) *)
From Coq Require Import List NArith.
