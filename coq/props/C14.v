(** C14 — excluded fields are inert and embedding equals inlining.
    Statements only; proofs in PQ.ParseProofs.  [Parse.v] models parse.go after
    fix 45c28bc: [parse_root ds root] is the column tree parquetgen builds from
    the struct declarations [ds] (parse.Fields).  parquetgen's output is a
    function of that tree only (gen.FromStruct), so equal trees mean identical
    generated text — which bin/check C14 also verifies byte for byte together
    with the files written. *)
From Coq Require Import List NArith.
From PQ Require Import Bytes Schema Parse ParseBasics ParseProofs.
Import ListNotations.

(** Inserting a field that is unexported (incl. a leading underscore) or tagged
    parquet:"-" — of ANY Go type: anonymous structs, funcs with named
    parameters, maps, channels, ... — at ANY position of ANY declaration leaves
    the column tree unchanged. *)
Theorem C14_decorate_inert : forall ds root tname i f,
  excluded f = true -> parse_root (decorate ds tname i f) root = parse_root ds root.
Proof. exact decorate_inert. Qed.
Print Assumptions C14_decorate_inert.

Theorem C14_decorate_all_inert : forall ins ds root,
  Forall (fun x : bytes * nat * fdecl => excluded (snd x) = true) ins ->
  parse_root (decorate_all ds ins) root = parse_root ds root.
Proof. exact decorate_all_inert. Qed.
Print Assumptions C14_decorate_all_inert.

(** Replacing any run of fields [i, i+k) of any declaration (root or nested) by
    an embedded struct holding them gives the same column tree. *)
Theorem C14_embed_inline : forall ds tname ename i k root fs t,
  lookup ds tname = Some fs -> lookup ds ename = None ->
  is_private ename = false -> prim_of_name ename = None ->
  parse_root ds root = Some t ->
  parse_root (embed ds tname ename i k) root = Some t.
Proof. exact embed_inline. Qed.
Print Assumptions C14_embed_inline.

Theorem C14_embed_inline_eq : forall ds tname ename i k root fs,
  lookup ds tname = Some fs -> lookup ds ename = None ->
  is_private ename = false -> prim_of_name ename = None ->
  unreferenced ds ename -> root <> ename ->
  parse_root (embed ds tname ename i k) root = parse_root ds root.
Proof. exact embed_inline_eq. Qed.
Print Assumptions C14_embed_inline_eq.

Theorem C14_excluded_field_skipped : forall f, excluded f = true -> raw_of f = RSkip.
Proof. exact excluded_skipped. Qed.
