(** C09 — a failed write to the destination is always reported.
    Statements only; proofs in PQ.WriterProofs.  [run_history] is the sequence
    of sink writes of each API call (NewParquetWriter, every Add/Write, Close)
    in the writer model; [run_fault calls (Some k)] is the run in which the
    sink fails its k-th Write: which calls were made, which returned an error,
    what reached the sink.  That the real code's sink-write sequence and error
    propagation are the model's is checked for every k by bin/check C09. *)
From Coq Require Import List NArith ZArith.
From PQ Require Import Bytes Schema Writer WriterProofs.
Import ListNotations.

(** For every workload and every index k of a sink write that exists: exactly
    one API call reports an error, it is the call during which the k-th sink
    write happens, every earlier call succeeded, the run stops there, and the
    sink holds exactly the fault-free prefix. *)
Theorem C09_fault_reported_by_the_right_call : forall calls k,
  (k < length (concat calls))%nat ->
  exists i, (i < length calls)%nat /\
    fst (run_fault calls (Some k)) = repeat false i ++ [true] /\
    (length (concat (firstn i calls)) <= k < length (concat (firstn (S i) calls)))%nat /\
    snd (run_fault calls (Some k)) = firstn k (concat calls).
Proof. exact run_fault_hit. Qed.
Print Assumptions C09_fault_reported_by_the_right_call.

Theorem C09_sink_fault_reported : forall compress cfg h k,
  (k < length (concat (run_history compress cfg h)))%nat ->
  In true (fst (run_fault (run_history compress cfg h) (Some k))).
Proof. exact sink_fault_reported. Qed.
Print Assumptions C09_sink_fault_reported.

(** A fault index beyond the last sink write changes nothing. *)
Theorem C09_fault_beyond_is_fault_free : forall calls k,
  (length (concat calls) <= k)%nat -> run_fault calls (Some k) = run_fault calls None.
Proof. exact run_fault_beyond. Qed.
Print Assumptions C09_fault_beyond_is_fault_free.

Theorem C09_fault_free : forall calls,
  run_fault calls None = (map (fun _ => false) calls, concat calls).
Proof. exact run_fault_none. Qed.
