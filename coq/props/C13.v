(** C13 — output depends only on an instance's own history; instances do not
    interfere.  Statements only; proofs in PQ.PoolProofs.  What a sequential
    executable model can carry: (1) the process-wide buffer pools are scratch —
    whatever stale bytes a pooled buffer holds, the page bytes are the same;
    (2) for state machines whose only shared state is such a scratch pool, any
    interleaving of the API calls of independent instances gives every instance
    exactly its solo outputs.  PARTIAL by nature: data-race freedom and
    intra-call preemption are properties of the Go memory model that no
    executable Gallina model exhibits; they are explored (polluted pools,
    16 goroutines, the race detector) by bin/check C13, not proved. *)
From Coq Require Import List NArith ZArith.
From PQ Require Import Bytes MetaTypes Pool PoolProofs.
From PQgen Require Import SourceFacts.
Import ListNotations.

Theorem C13_pool_indep :
  forall (snappy_encode : bytes -> bytes -> bytes) (snappy_maxlen : nat -> nat) (gzip_encode : bytes -> bytes),
  (forall d1 d2 src, length d1 = length d2 -> snappy_encode d1 src = snappy_encode d2 src) ->
  forall codec a1 a2 b1 b2 pieces,
  page_body_pooled snappy_encode snappy_maxlen gzip_encode codec a1 a2 pieces =
  page_body_pooled snappy_encode snappy_maxlen gzip_encode codec b1 b2 pieces.
Proof. exact pool_indep. Qed.
Print Assumptions C13_pool_indep.

Theorem C13_interleave_indep :
  forall (St Call Out : Type) (step : list bytes -> St -> Call -> St * Out * list bytes),
  (forall p1 p2 s c, fst (step p1 s c) = fst (step p2 s c)) ->
  forall sched pool pool' sts i,
  outs_of i (run_sched St Call Out step pool sts sched) =
  run_solo St Call Out step pool' (sts i) (calls_of Call i sched).
Proof. exact interleave_indep. Qed.
Print Assumptions C13_interleave_indep.

From Coq Require Import String.

(** Source census of this run: the buffer pools are the only package-level
    mutable state of package parquet ([fieldFuncs] is a read-only table) and of
    the generated package ([par1] is the constant magic), every buffpool.Get()
    is immediately followed by a deferred Put of the same buffer, and there is
    no go statement.  These are the facts the granularity of the interleaving
    theorem rests on; a new global, a non-deferred Put or a goroutine breaks
    this obligation. *)
Example C13_census_shared_state :
  runtime_package_vars = ["buffpool"; "fieldFuncs"]%string /\
  generated_package_vars = ["buffpool"; "par1"]%string /\
  pool_gets_without_deferred_put = [] /\ go_statements = [].
Proof. repeat split; reflexivity. Qed.
