(** C05 — parquetgen never emits silently wrong code for any documented struct
    shape.  parquetgen is a string synthesiser: a theorem about its output for
    all shapes would need a semantics of the emitted Go text (not available
    offline), so each generated program is validated (translation validation,
    bin/check C05) against the reference below, which is what is proved for
    ALL shapes and ALL values. *)
From Coq Require Import List NArith.
From PQ Require Import Bytes Schema Dremel DremelProofs.
Import ListNotations.

(** the reference every generated writer/reader is compared with: canonical
    striping, lossless for every well-formed shape and well-typed record list *)
Theorem C05_reference_lossless : forall fs vs,
  ty_okb (TGroup fs) = true -> Forall (fun v => has_tyb (TGroup fs) v = true) vs ->
  assemble_records fs (shred_records fs vs) = Some vs.
Proof. exact assemble_shred_records. Qed.
Print Assumptions C05_reference_lossless.

Theorem C05_reference_levels : forall fs v i c es,
  has_tyb (TGroup fs) v = true ->
  nth_error (columns fs) i = Some c -> nth_error (shred_record fs v) i = Some es ->
  Forall (fun e => entry_levels_ok c e = true) es.
Proof. exact levels_bounded. Qed.
Print Assumptions C05_reference_levels.
