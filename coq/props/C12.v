(** C12 — page statistics are sound bounds and exact null counts.
    Statements only; proofs in PQ.StatsProofs.  [page_stats] is the model of the
    six statistics accumulators of the field templates (after fix f0675d6);
    [stats_sound] is the property as a checker — the same function the
    extracted validator applies to the pages of real files. *)
From Coq Require Import List NArith ZArith.
From PQ Require Import Bytes Schema MetaTypes Plain Stats PlainProofs StatsProofs.
Import ListNotations.
Local Open Scope N_scope.

(** For every page (list of entries) of every column type: null_count equals
    the number of entries without a value; when min/max are present the page
    has a value and every non-null, non-NaN value v satisfies min <= v <= max
    in the column type's order (signed / unsigned / IEEE / bytewise). *)
Theorem C12_page_stats_sound : forall p required maxdef entries,
  entries_ok p required maxdef entries ->
  stats_sound p maxdef entries (page_stats p required maxdef entries) = true.
Proof. exact page_stats_sound. Qed.
Print Assumptions C12_page_stats_sound.

(** null_count is written exactly for the columns that can hold nulls, and is exact. *)
Theorem C12_null_count_exact : forall p required maxdef entries,
  entries_ok p required maxdef entries ->
  st_null_count (page_stats p required maxdef entries) =
  if required then None
  else Some (Z.of_N (nlen (filter (fun e => match e_val e with None => true | Some _ => false end) entries))).
Proof. exact page_stats_null_count_entries. Qed.
Print Assumptions C12_null_count_exact.

(** min/max are absent when the page has no non-null value. *)
Theorem C12_absent_without_values : forall p maxdef entries,
  Forall (fun e => e_val e = None) entries ->
  st_min_value (page_stats p false maxdef entries) = None /\
  st_max_value (page_stats p false maxdef entries) = None.
Proof. exact page_stats_absent_nulls. Qed.
Print Assumptions C12_absent_without_values.

(** The hypothesis "a written page of a required column is not empty" is
    necessary: with no value the always-present min/max would be unsound. *)
Example C12_empty_required_page_would_be_unsound :
  stats_sound PInt32 0 [] (page_stats PInt32 true 0 []) = false.
Proof. exact page_stats_empty_required_refuted. Qed.

(** The accumulator before fix f0675d6 (in-band sentinel "__#NIL#__"): on the
    page ["__#NIL#__"; "zzz"] it reports min = "zzz", which is not a lower bound. *)
Example C12_string_sentinel_refuted :
  let '(mn, mx) := fold_left (fun '(a, b) v => str_stats_add_old a b v)
                             [nil_sentinel; [122; 122; 122]] (nil_sentinel, nil_sentinel) in
  bytes_lt nil_sentinel mn = true.
Proof. exact C12_string_refuted_old. Qed.
