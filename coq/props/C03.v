(** C03 — column data is the canonical Dremel striping of the records.
    Statements only; proofs in PQ.DremelProofs.  [shred_record] is the
    reference striping written directly from the Dremel/Parquet definition;
    the generated per-shape shredders are compared with it on every run. *)
From Coq Require Import List NArith.
From PQ Require Import Bytes Schema Dremel DremelProofs.
Import ListNotations.
Local Open Scope N_scope.

(** Lossless: a reader that knows only the specification (the reference
    assembler) rebuilds every record, and every sequence of records. *)
Theorem C03_shred_lossless : forall fs v,
  ty_okb (TGroup fs) = true -> has_tyb (TGroup fs) v = true ->
  assemble_record fs (shred_record fs v) = Some v.
Proof. exact assemble_shred_record. Qed.
Print Assumptions C03_shred_lossless.

Theorem C03_shred_lossless_records : forall fs vs,
  ty_okb (TGroup fs) = true -> Forall (fun v => has_tyb (TGroup fs) v = true) vs ->
  assemble_records fs (shred_records fs vs) = Some vs.
Proof. exact assemble_shred_records. Qed.
Print Assumptions C03_shred_lossless_records.

(** Levels never exceed the column's maxima and a value is present exactly at
    the maximum definition level. *)
Theorem C03_levels_bounded : forall fs v i c es,
  has_tyb (TGroup fs) v = true ->
  nth_error (columns fs) i = Some c -> nth_error (shred_record fs v) i = Some es ->
  Forall (fun e => entry_levels_ok c e = true) es.
Proof. exact levels_bounded. Qed.
Print Assumptions C03_levels_bounded.

(** Every column of a record has exactly one entry with repetition level 0:
    record boundaries can be found in every column independently. *)
Theorem C03_record_boundaries : forall fs vs es,
  Forall (fun v => has_tyb (TGroup fs) v = true) vs ->
  In es (shred_records fs vs) -> count_rep0 es = N.of_nat (length vs).
Proof. exact record_boundaries_all. Qed.
Print Assumptions C03_record_boundaries.

(** Sibling columns describe the same optional/list structure: below any group
    (index path [ip], definition/repetition depth [dp]/[kp]) all leaf columns
    have the same projection of their levels onto that group. *)
Theorem C03_siblings_agree : forall fs v ip dp kp c1 c2,
  has_tyb (TGroup fs) v = true ->
  sub_levels ip (TGroup fs) 0 0 = Some (dp, kp) ->
  In c1 (sub_cols ip (TGroup fs) (shred_record fs v)) ->
  In c2 (sub_cols ip (TGroup fs) (shred_record fs v)) ->
  proj dp kp c1 = proj dp kp c2.
Proof. exact siblings_agree. Qed.
Print Assumptions C03_siblings_agree.
