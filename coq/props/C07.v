(** C07 — level streams are valid RLE/bit-packed hybrid; encode and decode are
    inverses.  Statements only; the proofs are in PQ.RleEncProofs,
    PQ.RleDecProofs, PQ.RleSpecProofs, PQ.RleProofs.  [rle_encode]/[rle_read]
    are the hand model of internal/rle/rle.go (tied to the code by the
    correspondence runs of bin/check C07); [hybrid_encode]/[hybrid_decode] are
    the format of Encodings.md written independently of the library. *)
From Coq Require Import List NArith.
From PQ Require Import Bytes Bitpack RleSpec Rle BitpackProofs RleSpecProofs RleEncProofs RleDecProofs RleProofs WriteBuffer WriteBufferProofs.
Import ListNotations.
Local Open Scope N_scope.

(** Encoding any sequence of w-bit levels (w = 1..4) yields exactly the framed
    stream (exact length prefix) of a list of well-formed runs whose values are
    the sequence followed by fewer than 8 zero padding values; bit-packed runs
    have one-byte headers (<= 63 groups), RLE runs at least 8 repeats. *)
Theorem C07_encoder_wellformed : forall w ls,
  In w [1; 2; 3; 4] -> Forall (fun v => v < 2 ^ w) ls -> N.of_nat (length ls) < 2 ^ 31 ->
  exists rs pad,
    rle_encode w ls = hybrid_encode w rs /\
    Forall (wf_run w) rs /\
    runs_values rs = ls ++ repeat 0 pad /\
    (pad < 8)%nat /\
    (forall r, In r rs -> match r with RBp gs => (length gs <= 63)%nat | RRle c _ => 8 <= c end).
Proof. exact rle_encode_ok. Qed.
Print Assumptions C07_encoder_wellformed.

(** ... which a specification decoder turns back into the same sequence. *)
Theorem C07_spec_decoder_inverts_encoder : forall w ls,
  In w [1; 2; 3; 4] -> Forall (fun v => v < 2 ^ w) ls -> N.of_nat (length ls) < 2 ^ 31 ->
  exists rs pad,
    hybrid_decode_framed w (rle_encode w ls) = Some (rs, []) /\
    Forall (wf_run w) rs /\
    runs_values rs = ls ++ repeat 0 pad /\ (pad < 8)%nat.
Proof. exact spec_decodes_encoder. Qed.
Print Assumptions C07_spec_decoder_inverts_encoder.

(** The specification decoder really is an inverse of the specification encoder. *)
Theorem C07_spec_roundtrip : forall w rs,
  In w [1; 2; 3; 4] -> Forall (wf_run w) rs -> hybrid_decode w (runs_encode w rs) = Some rs.
Proof. exact hybrid_decode_encode. Qed.
Print Assumptions C07_spec_roundtrip.

(** The library's decoder accepts every well-formed stream — any mix of run
    kinds, RLE counts >= 1 (multi-byte headers), bit-packed runs of any group
    count >= 1 — returns exactly its values and consumes exactly its bytes,
    whatever follows it. *)
Theorem C07_decoder_accepts_wellformed : forall w rs rest,
  In w [1; 2; 3; 4] -> Forall (wf_run w) rs ->
  Forall (fun r => match r with RRle c _ => c < 2 ^ 63 | RBp _ => True end) rs ->
  nlen (runs_encode w rs) < 2 ^ 31 ->
  rle_read w (hybrid_encode w rs ++ rest) = Ok (runs_values rs, (4 + length (runs_encode w rs))%nat).
Proof. exact rle_read_ok. Qed.
Print Assumptions C07_decoder_accepts_wellformed.

(** Library encoder then library decoder. *)
Theorem C07_roundtrip : forall w ls rest,
  In w [1; 2; 3; 4] -> Forall (fun v => v < 2 ^ w) ls -> N.of_nat (length ls) + 8 <= 2 ^ 31 ->
  exists pad,
    rle_read w (rle_encode w ls ++ rest) = Ok (ls ++ repeat 0 pad, length (rle_encode w ls)) /\
    (pad < 8)%nat.
Proof. exact rle_roundtrip. Qed.
Print Assumptions C07_roundtrip.

(** The encoder model keeps its output as a plain byte list; buf.go's
    writeBuffer (a slice of LENGTH `size` plus a fill index, with three
    branches in writeAt) is modelled faithfully in PQ.WriteBuffer, and the
    encoder run over that buffer produces exactly the same bytes, whatever the
    initial size. *)
Theorem C07_write_buffer_refinement : forall w size levels,
  rle_encode_b w size levels = rle_encode w levels.
Proof. exact rle_encode_b_eq. Qed.
Print Assumptions C07_write_buffer_refinement.

(** Non-vacuity: ten levels of width 1 — an RLE run of 9 zeros (header 0x12)
    and one bit-packed group. *)
Example C07_example :
  rle_encode 1 [0;0;0;0;0;0;0;0;0;1] = [4;0;0;0; 18;0; 3;1] /\
  hybrid_decode_framed 1 [4;0;0;0; 18;0; 3;1] = Some ([RRle 9 0; RBp [[1;0;0;0;0;0;0;0]]], []) /\
  rle_read 1 [4;0;0;0; 18;0; 3;1] = Ok ([0;0;0;0;0;0;0;0;0;1;0;0;0;0;0;0;0], 8%nat).
Proof. repeat split; vm_compute; reflexivity. Qed.
