(** C08 — reading does not depend on how the source fragments its reads.
    Statements only; proofs in PQ.IoProofs / PQ.ReaderIoProofs.  [mk_src file
    sched fail] is an io.ReadSeeker over [file] whose k-th underlying Read
    returns at most [max 1 (nth k sched)] bytes (unlimited once the schedule is
    exhausted); [read_all_src] is the whole life of the generated reader
    (constructor, Next/Scan until false). *)
From Coq Require Import List NArith ZArith.
From PQ Require Import Bytes Schema Rle Io Reader IoProofs ReaderIoProofs.
From PQgen Require Import SourceFacts.
Import ListNotations.

Theorem C08_read_frag_indep : forall decompress fs file sched1 sched2 fail,
  read_all_src decompress fs (mk_src file sched1 fail) =
  read_all_src decompress fs (mk_src file sched2 fail).
Proof. exact read_frag_indep. Qed.
Print Assumptions C08_read_frag_indep.

(** io.ReadFull over the fragmenting source: exactly the next [want] bytes,
    whatever the schedule; an error only if fewer are left. *)
Theorem C08_read_full : forall fuel want acc s,
  (want <= fuel)%nat -> (want <= length (avail s))%nat ->
  exists s', read_full_loop fuel want acc s = Ok (acc ++ firstn want (avail s), s') /\
             s_file s' = s_file s /\ s_pos s' = (s_pos s + N.of_nat want)%N /\
             s_fail s' = s_fail s /\ s_ops s' = s_ops s.
Proof. exact read_full_loop_ok. Qed.
Print Assumptions C08_read_full.

From Coq Require Import String.

(** Source census of this run (regenerated from /repo's working tree and from
    code parquetgen generates now): no function of fields.go, parquet.go or the
    generated package calls Read directly on its io.Reader/io.ReadSeeker
    parameter — every read of the caller's source goes through io.ReadFull,
    io.CopyN, binary.Read or the thrift transport — and the level decoder's
    single Read calls are made on in-memory buffers only.  This is what ties
    [m_read_full] to the code; a new raw read breaks this obligation. *)
Example C08_census_no_raw_source_read :
  raw_source_reads = [] /\ read_levels_calls_not_on_in_memory_buffer = [].
Proof. split; reflexivity. Qed.

(** For every conformant file (every byte string the independent validator
    accepts) the outcome under ANY schedule is exactly the file's records. *)
From PQ Require Import MetaTypes FileSpec ForeignProofs ConformantFaults.
Theorem C08_conformant_any_schedule : forall (decompress : Z -> bytes -> option bytes) fs file v,
  check_file decompress file = inr v -> fv_fields v = fs -> fshape_ok fs ->
  (forall x, decompress CODEC_UNCOMPRESSED x = Some x) ->
  (forall c x y, wf_bytes x -> decompress c x = Some y -> wf_bytes y) ->
  wf_bytes file ->
  forall sched, read_all_src decompress fs (mk_src file sched None) = expected_outcome v.
Proof. exact conformant_any_schedule. Qed.
Print Assumptions C08_conformant_any_schedule.
