(** C11 — a truncated file is never accepted.
    Statements only; proofs in PQ.TruncProofs.  What the structure of the
    trailer decides: a prefix shorter than 8 bytes, or one whose last 8 bytes
    announce a footer longer than the prefix, is refused by the constructor.
    For the remaining prefixes the verdict rests on the thrift decoder failing
    on the bytes it finds (checked on every strict prefix of every file of a
    run by bin/check C11).  The unconditional statement is FALSE for any
    footer-last format, and [C11_refuted] exhibits the witness: a valid file
    with a strict prefix that is itself a complete file. *)
From Coq Require Import List NArith ZArith.
From PQ Require Import Bytes Schema Rle MetaTypes Thrift Meta Writer Io Reader TruncProofs.
Import ListNotations.

Theorem C11_short_rejected : forall decompress fs file sched,
  (length file < 8)%nat ->
  read_all_src decompress fs (mk_src file sched None) = open_failed false.
Proof. exact open_short. Qed.
Print Assumptions C11_short_rejected.

Theorem C11_bad_length_rejected : forall decompress fs file sched,
  (8 <= length file)%nat ->
  (Z.of_N (le_dec (firstn 4 (skipn (length file - 8) file))) + 8 > Z.of_nat (length file))%Z ->
  read_all_src decompress fs (mk_src file sched None) = open_failed false.
Proof. exact open_bad_length. Qed.
Print Assumptions C11_bad_length_rejected.

(** What acceptance requires, for EVERY byte string: the constructor succeeds
    only if the 4 bytes before the last 4 are a length L with L + 8 <= len and
    the bytes at offset len - 8 - L decode as a FileMetaData.  (The last four
    bytes - the magic - are not looked at by the reader.)  Hence a strict
    prefix of a valid file can be accepted only when it ends, 4 bytes before
    its end, with a complete footer followed by that footer's length: the
    class of the open finding (an embedded trailer), and nothing else. *)
Theorem C11_accepted_only_with_trailer : forall decompress fs file sched,
  o_open_ok (read_all_src decompress fs (mk_src file sched None)) = true ->
  (8 <= length file)%nat /\
  (Z.of_N (le_dec (firstn 4 (skipn (length file - 8) file))) + 8 <= Z.of_nat (length file))%Z /\
  exists fm rest,
    dec_file_meta (skipn (length file - 8 - N.to_nat (le_dec (firstn 4 (skipn (length file - 8) file)))) file) = Some (fm, rest).
Proof. exact open_ok_trailer. Qed.
Print Assumptions C11_accepted_only_with_trailer.

(** the refutation: [w_file] is a valid one-record file (struct { S string },
    uncompressed) whose string value is the trailer of an empty file; cut right
    after that value it is accepted, with no rows and no error *)
Theorem C11_refuted :
  (w_cut < length w_file)%nat /\
  o_recs (read_all id_decompress w_shape w_file) = [VGroup [VStr w_trailer]] /\
  o_err (read_all id_decompress w_shape w_file) = false /\
  read_all id_decompress w_shape (firstn w_cut w_file) =
  {| o_open_ok := true; o_rows := 0; o_nexts := 0; o_err := false; o_panic := false; o_recs := [] |}.
Proof. exact truncation_refuted. Qed.
Print Assumptions C11_refuted.
