(** C11 — a truncated file is never accepted.
    Statements only; proofs in PQ.TruncProofs.  What the structure of the
    trailer decides: a prefix shorter than 8 bytes, or one whose last 8 bytes
    announce a footer longer than the prefix, is refused by the constructor.
    For the remaining prefixes the verdict rests on the thrift decoder failing
    on the bytes it finds (checked on every strict prefix of every file of a
    run by bin/check C11).  The unconditional statement is FALSE for any
    footer-last format, and [C11_refuted] exhibits the witness: a valid file
    with a strict prefix that is itself a complete file. *)
From Coq Require Import List NArith ZArith.
From PQ Require Import Bytes Schema Rle Writer Io Reader TruncProofs.
Import ListNotations.

Theorem C11_short_rejected : forall decompress fs file sched,
  (length file < 8)%nat ->
  read_all_src decompress fs (mk_src file sched None) = open_failed false.
Proof. exact open_short. Qed.
Print Assumptions C11_short_rejected.

Theorem C11_bad_length_rejected : forall decompress fs file sched,
  (8 <= length file)%nat ->
  (Z.of_N (le_dec (firstn 4 (skipn (length file - 8) file))) + 8 > Z.of_nat (length file))%Z ->
  read_all_src decompress fs (mk_src file sched None) = open_failed false.
Proof. exact open_bad_length. Qed.
Print Assumptions C11_bad_length_rejected.

(** the refutation: [w_file] is a valid one-record file (struct { S string },
    uncompressed) whose string value is the trailer of an empty file; cut right
    after that value it is accepted, with no rows and no error *)
Theorem C11_refuted :
  (w_cut < length w_file)%nat /\
  o_recs (read_all id_decompress w_shape w_file) = [VGroup [VStr w_trailer]] /\
  o_err (read_all id_decompress w_shape w_file) = false /\
  read_all id_decompress w_shape (firstn w_cut w_file) =
  {| o_open_ok := true; o_rows := 0; o_nexts := 0; o_err := false; o_panic := false; o_recs := [] |}.
Proof. exact truncation_refuted. Qed.
Print Assumptions C11_refuted.
