(** * RleDecProofs: the library's level decoder ([Rle.rle_read], i.e. RLE.Read
    of internal/rle/rle.go) accepts every well-formed hybrid stream of
    [RleSpec] (bit widths 1..4), returns exactly its values and reports
    exactly its length as consumed. *)
From Coq Require Import List NArith ZArith Lia Bool Arith PeanoNat.
From Coq Require Import ZifyN ZifyNat ZifyBool.
From PQ Require Import Bytes Varint VarintProofs Bitpack BitpackProofs RleSpec Rle.
Import ListNotations.
Local Open Scope N_scope.

Ltac Zify.zify_post_hook ::= Z.div_mod_to_equations.

Definition run_small (r : run) : Prop :=
  match r with RRle c _ => c < 2 ^ 63 | RBp _ => True end.

(** ** Facts about the supported widths *)

Lemma widths_pos w : In w widths -> 1 <= w <= 4.
Proof. revert w. apply widths_cases; lia. Qed.

Lemma widths_div w : In w widths -> (w + 7) / 8 = 1.
Proof. revert w. apply widths_cases; reflexivity. Qed.

Lemma widths_value_bytes w : In w widths -> value_bytes w = 1%nat.
Proof. intros Hw. unfold value_bytes. rewrite (widths_div w Hw). reflexivity. Qed.

Lemma widths_pow w : In w widths -> 2 ^ w <= 16.
Proof. revert w. apply widths_cases; cbn; lia. Qed.

(** ** Small list helpers *)

Lemma firstn_app_len {A} n (a b : list A) : length a = n -> firstn n (a ++ b) = a.
Proof. intros <-. apply firstn_app_exact. Qed.

Lemma skipn_app_len {A} n (a b : list A) : length a = n -> skipn n (a ++ b) = b.
Proof. intros <-. apply skipn_app_exact. Qed.

Lemma length_pos_nonnil {A} (l : list A) : (0 < length l)%nat -> l <> [].
Proof. intros H ->. cbn in H. lia. Qed.

(** ** Groups and payloads *)

Lemma groupb_spec w g :
  groupb w g = true -> length g = 8%nat /\ Forall (fun v => v < 2 ^ w) g.
Proof.
  unfold groupb. intros H. apply andb_true_iff in H. destruct H as [Hl Hv].
  split; [apply Nat.eqb_eq; exact Hl|].
  apply Forall_forall. intros x Hx.
  rewrite forallb_forall in Hv. specialize (Hv x Hx). unfold valb in Hv.
  apply N.ltb_lt. exact Hv.
Qed.

Lemma spec_pack_length w g : length (spec_pack w g) = N.to_nat w.
Proof. unfold spec_pack. apply le_enc_length. Qed.

Lemma unpack_spec_pack w g :
  In w widths -> groupb w g = true -> unpack w (spec_pack w g) = g.
Proof.
  intros Hw Hg. destruct (groupb_spec w g Hg) as [Hl Hv].
  rewrite <- (pack_spec w g Hw Hl Hv). apply unpack_pack; assumption.
Qed.

Lemma payload_length w (gs : list (list N)) :
  length (concat (map (spec_pack w) gs)) = (length gs * N.to_nat w)%nat.
Proof.
  induction gs as [|g gs IH]; cbn [map concat length]; [reflexivity|].
  rewrite app_length, spec_pack_length, IH. lia.
Qed.

(** ** [unpack_all] *)

Lemma unpack_all_nil fuel w : unpack_all fuel w [] = [].
Proof. destruct fuel as [|f]; reflexivity. Qed.

Lemma unpack_all_step f w raw :
  raw <> [] ->
  unpack_all (S f) w raw =
  unpack w (firstn (N.to_nat w) raw) ++ unpack_all f w (skipn (N.to_nat w) raw).
Proof. intros H. destruct raw as [|b r]; [congruence | reflexivity]. Qed.

Lemma unpack_all_spec_fuel w gs : forall fuel,
  In w widths -> Forall (fun g => groupb w g = true) gs ->
  (length (concat (map (spec_pack w) gs)) < fuel)%nat ->
  unpack_all fuel w (concat (map (spec_pack w) gs)) = concat gs.
Proof.
  induction gs as [|g gs IH]; intros fuel Hw Hgs Hf.
  - cbn [map concat]. apply unpack_all_nil.
  - apply Forall_cons_iff in Hgs. destruct Hgs as [Hg Hgs].
    pose proof (widths_pos w Hw) as Hwp.
    cbn [map concat] in *. rewrite app_length, spec_pack_length in Hf.
    destruct fuel as [|f]; [lia|].
    rewrite unpack_all_step.
    + rewrite (firstn_app_len (N.to_nat w)) by apply spec_pack_length.
      rewrite (skipn_app_len (N.to_nat w)) by apply spec_pack_length.
      rewrite (unpack_spec_pack w g Hw Hg).
      rewrite (IH f Hw Hgs) by lia. reflexivity.
    + apply length_pos_nonnil. rewrite app_length, spec_pack_length. lia.
Qed.

Lemma unpack_all_spec w gs :
  In w widths -> Forall (fun g => groupb w g = true) gs ->
  unpack_all (S (length (concat (map (spec_pack w) gs)))) w (concat (map (spec_pack w) gs))
  = concat gs.
Proof. intros Hw Hgs. apply unpack_all_spec_fuel; [assumption | assumption | lia]. Qed.

(** ** One run *)

Lemma read_rle_run_ok w c v rest :
  In w widths -> v < 2 ^ w ->
  read_rle_run w (2 * c) (le_enc (value_bytes w) v ++ rest) = Ok (repeat v (N.to_nat c), rest).
Proof.
  intros Hw Hv. pose proof (widths_pow w Hw) as Hp.
  unfold read_rle_run. rewrite (widths_div w Hw), (widths_value_bytes w Hw).
  cbn [le_enc app].
  replace (2 * c / 2) with c by lia.
  replace (v mod 256) with v by lia.
  reflexivity.
Qed.

Lemma read_bp_nonempty w hdr bs :
  w <> 0 -> bs <> [] ->
  read_bp w hdr bs =
  let bc := N.to_nat (w * (hdr / 2 * 8) / 8) in
  Ok (unpack_all (S bc) w (firstn bc bs ++ repeat 0 (bc - length (firstn bc bs))),
      skipn bc bs).
Proof.
  intros Hw Hbs. unfold read_bp.
  destruct (w =? 0) eqn:E; [apply N.eqb_eq in E; congruence|].
  destruct bs as [|b r]; [congruence | reflexivity].
Qed.

Lemma read_bp_ok w gs rest :
  In w widths -> gs <> [] -> Forall (fun g => groupb w g = true) gs ->
  read_bp w (2 * nlen gs + 1) (concat (map (spec_pack w) gs) ++ rest) = Ok (concat gs, rest).
Proof.
  intros Hw Hne Hgs. pose proof (widths_pos w Hw) as Hwp.
  pose proof (payload_length w gs) as Hl.
  assert (Hg : (0 < length gs)%nat).
  { destruct gs as [|g gs']; [congruence | cbn [length]; lia]. }
  rewrite read_bp_nonempty.
  - cbv zeta.
    replace (N.to_nat (w * ((2 * nlen gs + 1) / 2 * 8) / 8))
      with (length (concat (map (spec_pack w) gs))) by (unfold nlen; nia).
    rewrite firstn_app_exact, skipn_app_exact, Nat.sub_diag.
    cbn [repeat]. rewrite app_nil_r.
    rewrite (unpack_all_spec w gs Hw Hgs). reflexivity.
  - lia.
  - apply length_pos_nonnil. rewrite app_length. nia.
Qed.

(** ** The loop *)

Lemma rle_loop_nil f w acc : rle_loop (S f) w [] acc = Ok acc.
Proof. reflexivity. Qed.

Lemma rle_loop_step f w bs acc hdr r :
  bs <> [] -> read_leb128_go bs 0 0 = Some (hdr, r) ->
  rle_loop (S f) w bs acc =
  match (if N.even hdr then read_rle_run w hdr r else read_bp w hdr r) with
  | Ok (vals, r') => rle_loop f w r' (acc ++ vals)
  | Err => Err
  | Panic => Panic
  end.
Proof.
  intros Hne Hh. destruct bs as [|b bs']; [congruence|].
  cbn [rle_loop]. rewrite Hh. reflexivity.
Qed.

Lemma even_double c : N.even (2 * c) = true.
Proof. rewrite N.even_mul. reflexivity. Qed.

Lemma even_double_succ g : N.even (2 * g + 1) = false.
Proof. rewrite N.add_comm, N.even_add_mul_2. reflexivity. Qed.

Lemma runs_encode_cons w r rs : runs_encode w (r :: rs) = run_encode w r ++ runs_encode w rs.
Proof. reflexivity. Qed.

Lemma runs_values_cons r rs : runs_values (r :: rs) = run_values r ++ runs_values rs.
Proof. reflexivity. Qed.

Lemma uleb_enc_length_pos n : (0 < length (uleb_enc n))%nat.
Proof.
  pose proof (uleb_enc_nonempty n) as H.
  destruct (uleb_enc n) as [|b r]; [congruence | cbn [length]; lia].
Qed.

(** One step of the loop over a well-formed run followed by anything. *)
Lemma rle_loop_run f w r tail acc :
  In w widths -> wf_run w r -> run_small r -> nlen (run_encode w r) < 2 ^ 62 ->
  rle_loop (S f) w (run_encode w r ++ tail) acc = rle_loop f w tail (acc ++ run_values r).
Proof.
  intros Hw Hwf Hs Hlen. pose proof (widths_pos w Hw) as Hwp.
  destruct r as [c v|gs]; unfold wf_run in Hwf; cbn [wf_runb] in Hwf;
    apply andb_true_iff in Hwf; destruct Hwf as [Hwf1 Hwf2];
    cbn [run_encode run_values] in *.
  - (* RLE run *)
    unfold run_small in Hs. unfold valb in Hwf2. apply N.ltb_lt in Hwf2.
    rewrite <- app_assoc.
    rewrite (rle_loop_step f w _ acc (2 * c) (le_enc (value_bytes w) v ++ tail)).
    + rewrite even_double, read_rle_run_ok by assumption. reflexivity.
    + apply length_pos_nonnil. rewrite app_length. pose proof (uleb_enc_length_pos (2 * c)). lia.
    + apply read_leb128_go_spec.
      replace (2 ^ 64) with (2 * 2 ^ 63) by reflexivity. lia.
  - (* bit-packed run *)
    assert (Hne : gs <> []).
    { intros ->. cbn in Hwf1. discriminate. }
    assert (Hgs : Forall (fun g => groupb w g = true) gs).
    { apply Forall_forall. intros g Hg. rewrite forallb_forall in Hwf2. apply Hwf2. exact Hg. }
    rewrite <- app_assoc.
    rewrite (rle_loop_step f w _ acc (2 * nlen gs + 1) (concat (map (spec_pack w) gs) ++ tail)).
    + rewrite even_double_succ, read_bp_ok by assumption. reflexivity.
    + apply length_pos_nonnil. rewrite app_length.
      pose proof (uleb_enc_length_pos (2 * nlen gs + 1)). lia.
    + apply read_leb128_go_spec.
      rewrite nlen_app in Hlen. unfold nlen in Hlen |- *.
      rewrite payload_length in Hlen.
      replace (2 ^ 64) with (4 * 2 ^ 62) by reflexivity. nia.
Qed.

Lemma rle_loop_runs w rs : forall fuel acc,
  In w widths -> Forall (wf_run w) rs -> Forall run_small rs ->
  nlen (runs_encode w rs) < 2 ^ 62 ->
  (length (runs_encode w rs) < fuel)%nat ->
  rle_loop fuel w (runs_encode w rs) acc = Ok (acc ++ runs_values rs).
Proof.
  induction rs as [|r rs IH]; intros fuel acc Hw Hwf Hs Hlen Hf.
  - destruct fuel as [|f]; [lia|]. cbn [runs_encode map concat].
    rewrite rle_loop_nil. unfold runs_values. cbn [map concat]. rewrite app_nil_r. reflexivity.
  - apply Forall_cons_iff in Hwf. destruct Hwf as [Hwf1 Hwf].
    apply Forall_cons_iff in Hs. destruct Hs as [Hs1 Hs].
    rewrite runs_encode_cons in *. rewrite nlen_app in Hlen. rewrite app_length in Hf.
    destruct fuel as [|f]; [lia|].
    assert (Hpos : (0 < length (run_encode w r))%nat).
    { destruct r as [c v|gs]; cbn [run_encode]; rewrite app_length.
      - pose proof (uleb_enc_length_pos (2 * c)). lia.
      - pose proof (uleb_enc_length_pos (2 * nlen gs + 1)). lia. }
    rewrite rle_loop_run; [|assumption|assumption|assumption|unfold nlen in *; lia].
    rewrite IH; [|assumption|assumption|assumption|unfold nlen in *; lia|lia].
    rewrite runs_values_cons, app_assoc. reflexivity.
Qed.

(** ** The framed reader *)

(** [rle_read] on a stream that holds at least the announced number of
    bytes: the section is cut out, nothing is zero-filled, and the bytes after
    it do not matter. *)
Lemma rle_read_framed w body rest :
  nlen body < 2 ^ 31 ->
  rle_read w (le_enc 4 (nlen body) ++ body ++ rest) =
  match rle_loop (S (length body)) w body [] with
  | Ok vals => Ok (vals, (4 + length body)%nat)
  | Err => Err
  | Panic => Panic
  end.
Proof.
  intros Hlen. unfold rle_read.
  rewrite app_length, le_enc_length.
  destruct (Nat.ltb (4 + length (body ++ rest)) 4) eqn:E4; [apply Nat.ltb_lt in E4; lia|].
  rewrite (firstn_app_len 4) by apply le_enc_length.
  rewrite (skipn_app_len 4) by apply le_enc_length.
  rewrite le_dec_enc by (change (256 ^ N.of_nat 4) with (2 * 2 ^ 31); lia).
  destruct (2 ^ 31 <=? nlen body) eqn:E31; [apply N.leb_le in E31; lia|].
  unfold nlen. rewrite Nat2N.id.
  rewrite firstn_app_exact, Nat.sub_diag. cbn [repeat]. rewrite app_nil_r.
  rewrite (Nat.add_comm (length body) 4).
  destruct (body ++ rest) as [|x xs] eqn:Ebr; [|reflexivity].
  apply app_eq_nil in Ebr. destruct Ebr as [-> _]. reflexivity.
Qed.

Lemma rle_read_frame_indep w body rest :
  nlen body < 2 ^ 31 ->
  rle_read w (le_enc 4 (nlen body) ++ body ++ rest) = rle_read w (le_enc 4 (nlen body) ++ body).
Proof.
  intros Hlen. rewrite rle_read_framed by assumption.
  rewrite <- (app_nil_r body) at 4. rewrite rle_read_framed by assumption. reflexivity.
Qed.

Theorem rle_read_ok w rs rest :
  In w widths -> Forall (wf_run w) rs -> Forall run_small rs ->
  nlen (runs_encode w rs) < 2 ^ 31 ->
  rle_read w (hybrid_encode w rs ++ rest) =
  Ok (runs_values rs, (4 + length (runs_encode w rs))%nat).
Proof.
  intros Hw Hwf Hs Hlen. unfold hybrid_encode. rewrite <- app_assoc.
  rewrite rle_read_framed by assumption.
  rewrite (rle_loop_runs w rs _ [] Hw Hwf Hs); [reflexivity | | lia].
  assert (2 ^ 31 <= 2 ^ 62) by (apply N.pow_le_mono_r; lia). lia.
Qed.

Print Assumptions rle_read_ok.
