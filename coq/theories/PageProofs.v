(** * PageProofs: the validator's page check accepts every page the writer
    model builds and sees exactly its entries (the page layer of C02). *)
From Coq Require Import List NArith ZArith Lia Bool Arith PeanoNat.
From Coq Require Import ZifyN ZifyNat ZifyBool.
From PQ Require Import Bytes Varint Bitpack BitpackProofs Schema Dremel DremelProofs
  RleSpec RleSpecProofs Rle RleEncProofs RleProofs Plain PlainProofs Stats StatsProofs
  MetaTypes Thrift Meta MetaProofs Writer FileSpec.
Import ListNotations.
Local Open Scope N_scope.

Ltac Zify.zify_post_hook ::= Z.div_mod_to_equations.

(** ** Columns whose level widths are 1..4 bits *)

Definition col_ok (c : col) : Prop := max_def c <= 15 /\ max_rep c <= 15.

Lemma col_required_max_def c : col_required c = true <-> max_def c = 0.
Proof.
  unfold col_required, max_def, count_rep.
  induction (c_reps c) as [|r rs IH]; cbn [forallb filter]; [split; reflexivity|].
  destruct (is_nonreq r); cbn [negb andb length].
  - split; [discriminate | lia].
  - exact IH.
Qed.

Lemma col_required_false_max_def c : col_required c = false -> 0 < max_def c.
Proof.
  intros H. destruct (N.eq_dec (max_def c) 0) as [E|E]; [|lia].
  apply col_required_max_def in E. congruence.
Qed.

Lemma max_rep_le_max_def c : max_rep c <= max_def c.
Proof.
  unfold max_rep, max_def, count_rep.
  induction (c_reps c) as [|r rs IH]; cbn [filter length]; [lia|].
  destruct r; cbn [is_rep is_nonreq length]; lia.
Qed.

Lemma bit_width_same n : FileSpec.bit_width n = Writer.bit_width n.
Proof. reflexivity. Qed.

Lemma small_cases (P : N -> Prop) :
  P 1 -> P 2 -> P 3 -> P 4 -> P 5 -> P 6 -> P 7 -> P 8 -> P 9 -> P 10 -> P 11 -> P 12 ->
  P 13 -> P 14 -> P 15 -> forall n, 1 <= n <= 15 -> P n.
Proof.
  intros H1 H2 H3 H4 H5 H6 H7 H8 H9 H10 H11 H12 H13 H14 H15 n Hn.
  assert (H : n = 1 \/ n = 2 \/ n = 3 \/ n = 4 \/ n = 5 \/ n = 6 \/ n = 7 \/ n = 8 \/ n = 9 \/
              n = 10 \/ n = 11 \/ n = 12 \/ n = 13 \/ n = 14 \/ n = 15) by lia.
  repeat (destruct H as [->|H]; [assumption|]). subst n. assumption.
Qed.

Lemma bit_width_widths n : 1 <= n <= 15 -> In (Writer.bit_width n) widths.
Proof.
  revert n. apply small_cases; vm_compute; auto 6.
Qed.

Lemma bit_width_bound n v : 1 <= n <= 15 -> v <= n -> v < 2 ^ Writer.bit_width n.
Proof.
  intros Hn. revert n Hn v.
  apply (small_cases (fun n => forall v, v <= n -> v < 2 ^ Writer.bit_width n));
    intros v Hv;
    match goal with |- _ < ?x => let y := eval vm_compute in x in change x with y end; lia.
Qed.

(** ** int32 conversions of the header fields *)

Lemma i32_small n : n < 2 ^ 31 -> i32 n = Z.of_N n.
Proof.
  intros Hn. unfold i32. cbv zeta.
  change (2 ^ 31) with 2147483648 in *. change (2 ^ 32) with 4294967296.
  rewrite N.mod_small by lia.
  destruct (N.ltb_spec n 2147483648) as [_|H]; [reflexivity | lia].
Qed.

Lemma i32_small_ok n : n < 2 ^ 31 -> i32_ok (i32 n) = true.
Proof.
  intros Hn. rewrite i32_small by exact Hn. unfold i32_ok, in_range.
  change (2 ^ 31) with 2147483648 in Hn. lia.
Qed.

(** ** A level section: the specification decoder reads back what [writeLevels] wrote *)

Lemma take_levels_encode w ls maxlvl rest :
  In w widths -> Forall (fun v => v < 2 ^ w) ls -> Forall (fun v => v <= maxlvl) ls ->
  N.of_nat (length ls) + 8 <= 2 ^ 31 ->
  take_levels w (length ls) maxlvl (rle_encode w ls ++ rest) = inr (ls, rest).
Proof.
  intros Hw Hv Hm Hl.
  change (2 ^ 31) with 2147483648 in Hl.
  destruct (rle_encode_runs w ls Hw Hv) as (rs & pad & Henc & Hok & Hvals & Hpad & Hlen).
  { change (2 ^ 31) with 2147483648. lia. }
  unfold take_levels. rewrite Henc, hybrid_decode_framed_encode; [|exact Hw| |].
  - rewrite Hvals, app_length, repeat_length.
    destruct (Nat.ltb_spec (length ls + pad) (length ls)) as [H|_]; [lia|].
    replace (length ls + pad - length ls)%nat with pad by lia.
    destruct (Nat.leb_spec 8 pad) as [H|_]; [lia|].
    rewrite firstn_app_exact.
    replace (forallb (fun l => l <=? maxlvl) ls) with true; [reflexivity|].
    symmetry. apply forallb_forall. intros x Hx.
    rewrite Forall_forall in Hm. specialize (Hm x Hx). lia.
  - eapply Forall_impl; [|exact Hok]. intros r. apply closed_ok_wf.
  - unfold nlen. change (2 ^ 32) with 4294967296. lia.
Qed.

(** ** Structure of a page payload *)

Definition entry_vals (es : list entry) : list value :=
  flat_map (fun e => match e_val e with Some v => [v] | None => [] end) es.

Definition rep_section (c : col) (es : list entry) : bytes :=
  if 0 <? max_rep c then rle_encode (Writer.bit_width (max_rep c)) (map e_rep es) else [].

Definition def_section (c : col) (es : list entry) : bytes :=
  rle_encode (Writer.bit_width (max_def c)) (map e_def es).

Lemma page_payload_required c es :
  col_required c = true -> page_payload c es = plain_enc (c_prim c) (entry_vals es).
Proof. intros H. unfold page_payload. cbv zeta. rewrite H. reflexivity. Qed.

Lemma page_payload_optional c es :
  col_required c = false ->
  page_payload c es = rep_section c es ++ def_section c es ++ plain_enc (c_prim c) (entry_vals es).
Proof. intros H. unfold page_payload. cbv zeta. rewrite H. reflexivity. Qed.

Lemma page_payload_values_length c es :
  (length (plain_enc (c_prim c) (entry_vals es)) <= length (page_payload c es))%nat.
Proof.
  destruct (col_required c) eqn:Hr.
  - rewrite page_payload_required by exact Hr. lia.
  - rewrite page_payload_optional by exact Hr. rewrite !app_length. lia.
Qed.

Lemma entry_vals_cons e es :
  entry_vals (e :: es) = (match e_val e with Some v => [v] | None => [] end) ++ entry_vals es.
Proof. reflexivity. Qed.

Lemma entry_vals_app a b : entry_vals (a ++ b) = entry_vals a ++ entry_vals b.
Proof. unfold entry_vals. apply flat_map_app. Qed.

(** ** Well-formed pages *)

Definition entry_wf (c : col) (e : entry) : Prop :=
  entry_levels_ok c e = true /\
  match e_val e with Some v => prim_ok (c_prim c) v = true | None => True end.

Definition first_rep0 (es : list entry) : Prop :=
  match es with e :: _ => e_rep e = 0 | [] => True end.

Definition entries_ok (c : col) (es : list entry) : Prop :=
  es <> [] /\ Forall (entry_wf c) es /\ first_rep0 es /\
  N.of_nat (length es) + 8 <= 2 ^ 31 /\
  nlen (page_payload c es) < 2 ^ 31.

Lemma entry_levels_ok_inv c e :
  entry_levels_ok c e = true ->
  e_rep e <= max_rep c /\ e_def e <= max_def c /\
  match e_val e with Some _ => e_def e = max_def c | None => e_def e < max_def c end.
Proof.
  unfold entry_levels_ok. intros H.
  apply andb_prop in H. destruct H as [H H3]. apply andb_prop in H. destruct H as [H1 H2].
  split; [lia|]. split; [lia|]. destruct (e_val e); lia.
Qed.

Lemma zip_entries_levels c es :
  Forall (fun e => entry_levels_ok c e = true) es ->
  zip_entries (map e_rep es) (map e_def es) (max_def c) (entry_vals es) = es.
Proof.
  induction 1 as [|e es He Hes IH]; [reflexivity|].
  apply entry_levels_ok_inv in He. destruct He as (_ & _ & He).
  rewrite entry_vals_cons. cbn [map zip_entries].
  destruct e as [r d ov]. cbn [e_rep e_def e_val] in *.
  destruct ov as [v|].
  - subst d. rewrite N.eqb_refl. cbn [app]. rewrite IH. reflexivity.
  - destruct (N.eqb_spec d (max_def c)) as [E|_]; [lia|]. cbn [app]. rewrite IH. reflexivity.
Qed.

Lemma count_max_def_levels c es :
  Forall (fun e => entry_levels_ok c e = true) es ->
  length (filter (fun d => d =? max_def c) (map e_def es)) = length (entry_vals es).
Proof.
  induction 1 as [|e es He Hes IH]; [reflexivity|].
  apply entry_levels_ok_inv in He. destruct He as (_ & _ & He).
  rewrite entry_vals_cons, app_length. cbn [map filter].
  destruct (e_val e) as [v|].
  - rewrite He, N.eqb_refl. cbn [length]. rewrite IH. reflexivity.
  - destruct (N.eqb_spec (e_def e) (max_def c)) as [E|_]; [lia|]. cbn [length]. exact IH.
Qed.

Lemma map_zero_repeat {A} (f : A -> N) (l : list A) :
  Forall (fun x => f x = 0) l -> repeat 0 (length l) = map f l.
Proof.
  induction 1 as [|x l Hx Hl IH]; [reflexivity|].
  cbn [length repeat map]. rewrite Hx, IH. reflexivity.
Qed.

Lemma entries_wf_levels c es :
  Forall (entry_wf c) es -> Forall (fun e => entry_levels_ok c e = true) es.
Proof. intros H. eapply Forall_impl; [|exact H]. intros e [He _]. exact He. Qed.

Lemma entries_wf_vals c es :
  Forall (entry_wf c) es -> Forall (leaf_ok (c_prim c)) (entry_vals es).
Proof.
  induction 1 as [|e es He Hes IH]; [constructor|].
  rewrite entry_vals_cons. apply Forall_app. split; [|exact IH].
  destruct He as [_ He]. destruct (e_val e) as [v|]; [|constructor].
  constructor; [exact He | constructor].
Qed.

(** ** Connection with the statistics development *)

Lemma pvals_entry_vals c es :
  Forall (fun e => entry_levels_ok c e = true) es -> pvals (max_def c) es = entry_vals es.
Proof.
  induction 1 as [|e es He Hes IH]; [reflexivity|].
  rewrite pvals_cons, entry_vals_cons, IH. f_equal.
  apply entry_levels_ok_inv in He. destruct He as (_ & _ & He).
  destruct (e_val e) as [v|]; [|reflexivity].
  unfold is_value. rewrite He, N.ltb_irrefl. reflexivity.
Qed.

Lemma stats_entries_ok c es :
  es <> [] -> Forall (entry_wf c) es ->
  StatsProofs.entries_ok (c_prim c) (col_required c) (max_def c) es.
Proof.
  intros Hne Hes. split.
  - eapply Forall_impl; [|exact Hes]. intros e [Hl Hv].
    apply entry_levels_ok_inv in Hl. destruct Hl as (_ & _ & Hl).
    unfold entry_ok, is_value. destruct (e_val e) as [v|].
    + left. exists v. split; [reflexivity|]. split; [|exact Hv].
      rewrite Hl, N.ltb_irrefl. reflexivity.
    + right. split; [reflexivity|]. destruct (N.ltb_spec (e_def e) (max_def c)); [reflexivity|lia].
  - intros Hr. split; [apply col_required_max_def; exact Hr | exact Hne].
Qed.

(** ** The page header is within the ranges the thrift codec round-trips *)

Lemma filter_length_le' {A} (f : A -> bool) l : (length (filter f l) <= length l)%nat.
Proof. induction l as [|x l IH]; cbn [filter length]; [lia|]. destruct (f x); cbn [length]; lia. Qed.

Lemma str_in_plain_enc_length v vs :
  In v vs -> (length (str_of v) <= length (plain_enc PString vs))%nat.
Proof.
  induction vs as [|x vs IH]; [contradiction|].
  intros Hin. rewrite plain_enc_cons by discriminate. cbn [plain_enc_val]. rewrite !app_length.
  destruct Hin as [->|Hin]; [lia|]. specialize (IH Hin). lia.
Qed.

Lemma str_fold_P (P : bytes -> Prop) vs : forall s,
  Forall P vs -> (ss_seen s = true -> P (ss_min s) /\ P (ss_max s)) ->
  ss_seen (fold_left str_stats_add vs s) = true ->
  P (ss_min (fold_left str_stats_add vs s)) /\ P (ss_max (fold_left str_stats_add vs s)).
Proof.
  induction vs as [|v vs IH]; intros s Hvs Hs Hseen; cbn [fold_left] in *; [auto|].
  pose proof (Forall_inv Hvs) as Hv. pose proof (Forall_inv_tail Hvs) as Hvs'.
  apply IH; [exact Hvs'| |exact Hseen].
  intros _. unfold str_stats_add. destruct (ss_seen s) eqn:E; cbn [ss_min ss_max]; [|auto].
  destruct (Hs eq_refl) as [Hmin Hmax].
  split; [destruct (bytes_lt v (ss_min s)) | destruct (bytes_lt (ss_max s) v)]; assumption.
Qed.

Definition short_bytes (b : bytes) : Prop := wf_bytes b /\ nlen b < 2 ^ 31.

Lemma short_bytes_bin_ok b : short_bytes b -> bin_ok b = true.
Proof.
  intros [Hwf Hlen]. unfold bin_ok. apply andb_true_intro. split.
  - apply wf_bytesb_spec. exact Hwf.
  - unfold len_lim. change (2 ^ 31) with 2147483648 in Hlen. lia.
Qed.

Lemma le_enc_short p x : short_bytes (le_enc (prim_size p) x).
Proof.
  split; [apply le_enc_wf|]. unfold nlen. rewrite le_enc_length.
  change (2 ^ 31) with 2147483648. destruct p; cbn [prim_size]; lia.
Qed.

Lemma page_stats_statistics_ok p required maxdef es :
  nlen es < 2 ^ 31 ->
  Forall (fun v => short_bytes (str_of v)) (pvals maxdef es) ->
  statistics_ok (page_stats p required maxdef es) = true.
Proof.
  intros Hlen Hstr.
  assert (Hnull : opt_ok i64_ok (if required then None else Some (Z.of_N (pnils maxdef es))) = true).
  { destruct required; [reflexivity|]. cbn [opt_ok]. unfold pnils, nlen in *.
    pose proof (filter_length_le' (fun e => negb (is_value maxdef e)) es) as Hle.
    unfold i64_ok, in_range. change (2 ^ 31) with 2147483648 in Hlen. lia. }
  assert (Hcase : numeric p \/ p = PString \/ p = PBool)
    by (destruct p; auto; left; exact I).
  destruct Hcase as [Hp|[Hp|Hp]].
  - rewrite page_stats_numeric by exact Hp. cbv zeta.
    unfold statistics_ok.
    cbn [st_max st_min st_null_count st_distinct_count st_max_value st_min_value].
    rewrite Hnull. cbn [opt_ok andb].
    destruct (num_present p required (pvals maxdef es)); [|reflexivity].
    cbn [opt_ok]. rewrite !short_bytes_bin_ok by apply le_enc_short. reflexivity.
  - subst p. rewrite page_stats_string. cbv zeta.
    unfold statistics_ok.
    cbn [st_max st_min st_null_count st_distinct_count st_max_value st_min_value].
    rewrite Hnull. cbn [opt_ok andb].
    destruct (ss_seen (str_fold (pvals maxdef es))) eqn:Hseen; [|reflexivity].
    cbn [opt_ok].
    destruct (str_fold_P short_bytes (map str_of (pvals maxdef es)) str_stats_new) as [Hmin Hmax].
    + apply Forall_map. exact Hstr.
    + cbn [str_stats_new ss_seen]. discriminate.
    + exact Hseen.
    + fold (str_fold (pvals maxdef es)) in Hmin, Hmax.
      rewrite !short_bytes_bin_ok by assumption. reflexivity.
  - subst p. rewrite page_stats_bool. unfold statistics_ok.
    cbn [st_max st_min st_null_count st_distinct_count st_max_value st_min_value].
    rewrite Hnull. reflexivity.
Qed.

Lemma entries_short_strings c es :
  Forall (entry_wf c) es -> nlen (page_payload c es) < 2 ^ 31 ->
  Forall (fun v => short_bytes (str_of v)) (entry_vals es).
Proof.
  intros Hes Hlen. apply Forall_forall. intros v Hv.
  pose proof (entries_wf_vals c es Hes) as Hok. rewrite Forall_forall in Hok. specialize (Hok v Hv).
  unfold leaf_ok in Hok.
  destruct v as [n|bs| |l|l]; cbn [str_of];
    try (split; [constructor | change (2 ^ 31) with 2147483648; cbn; lia]).
  destruct (c_prim c) eqn:Hp; cbn [prim_ok] in Hok; try discriminate.
  split; [apply wf_bytesb_spec; exact Hok|].
  pose proof (page_payload_values_length c es) as H1. rewrite Hp in H1.
  pose proof (str_in_plain_enc_length (VStr bs) (entry_vals es) Hv) as H2. cbn [str_of] in H2.
  unfold nlen in *. lia.
Qed.

(** the header [make_page] builds *)
Definition page_hdr (compress : Z -> bytes -> bytes) (codec : Z) (c : col) (es : list entry) : page_header :=
  {| ph_type := PT_DATA_PAGE;
     ph_uncompressed_size := i32 (nlen (page_payload c es));
     ph_compressed_size := i32 (nlen (compress codec (page_payload c es)));
     ph_crc := None;
     ph_data := Some {| dph_num_values := i32 (nlen es);
                        dph_encoding := ENC_PLAIN;
                        dph_def_encoding := ENC_RLE;
                        dph_rep_encoding := ENC_RLE;
                        dph_statistics := Some (page_stats (c_prim c) (col_required c) (max_def c) es) |};
     ph_index := None; ph_dict := None; ph_data_v2 := None |}.

Lemma make_page_eq compress codec c es :
  make_page compress codec c es =
  {| pg_header := page_hdr compress codec c es;
     pg_header_bytes := enc_page_header (page_hdr compress codec c es);
     pg_body := compress codec (page_payload c es);
     pg_count := nlen es;
     pg_payload_len := nlen (page_payload c es) |}.
Proof. reflexivity. Qed.

Lemma page_hdr_ok compress codec c es :
  Forall (entry_wf c) es -> nlen es < 2 ^ 31 ->
  nlen (page_payload c es) < 2 ^ 31 ->
  nlen (compress codec (page_payload c es)) < 2 ^ 31 ->
  page_header_ok (page_hdr compress codec c es) = true.
Proof.
  intros Hes Hn Hp Hc. unfold page_header_ok, page_hdr.
  cbn [ph_type ph_uncompressed_size ph_compressed_size ph_crc ph_data ph_dict ph_data_v2 opt_ok].
  rewrite !i32_small_ok by assumption.
  unfold data_page_header_ok.
  cbn [dph_num_values dph_encoding dph_def_encoding dph_rep_encoding dph_statistics opt_ok].
  rewrite i32_small_ok by assumption.
  rewrite page_stats_statistics_ok; [reflexivity|exact Hn|].
  rewrite (pvals_entry_vals c es) by (apply entries_wf_levels; exact Hes).
  apply (entries_short_strings c); assumption.
Qed.

Lemma Z_of_N_ltb0 n : (Z.of_N n <? 0)%Z = false.
Proof. lia. Qed.

(** ** The level sections of a payload *)

Definition after_reps (c : col) (es : list entry) : bytes :=
  if col_required c then plain_enc (c_prim c) (entry_vals es)
  else def_section c es ++ plain_enc (c_prim c) (entry_vals es).

Lemma reps_decode c es :
  col_ok c -> Forall (fun e => entry_levels_ok c e = true) es ->
  N.of_nat (length es) + 8 <= 2 ^ 31 ->
  (if 0 <? max_rep c then
     match take_levels (FileSpec.bit_width (max_rep c)) (length es) (max_rep c) (page_payload c es) with
     | inr x => inr x
     | inl EPageDefLevels => inl EPageRepLevels
     | inl e => inl e
     end
   else inr (repeat 0 (length es), page_payload c es)) = inr (map e_rep es, after_reps c es).
Proof.
  intros [Hd Hr] Hes Hlen. unfold after_reps.
  assert (Hreps' : Forall (fun e => e_rep e <= max_rep c) es).
  { eapply Forall_impl; [|exact Hes]. intros e He. apply entry_levels_ok_inv in He. tauto. }
  assert (Hreps : Forall (fun v => v <= max_rep c) (map e_rep es)).
  { apply Forall_map. exact Hreps'. }
  destruct (N.ltb_spec 0 (max_rep c)) as [Hpos|Hzero].
  - assert (Hreq : col_required c = false).
    { destruct (col_required c) eqn:E; [|reflexivity].
      apply col_required_max_def in E. pose proof (max_rep_le_max_def c). lia. }
    rewrite Hreq, page_payload_optional by exact Hreq.
    unfold rep_section. destruct (N.ltb_spec 0 (max_rep c)) as [_|H]; [|lia].
    pose proof (take_levels_encode (Writer.bit_width (max_rep c)) (map e_rep es) (max_rep c)
                  (def_section c es ++ plain_enc (c_prim c) (entry_vals es))) as HT.
    rewrite map_length in HT. rewrite bit_width_same, HT; [reflexivity| | |exact Hreps|].
    + apply bit_width_widths. lia.
    + eapply Forall_impl; [|exact Hreps]. intros v Hv. apply bit_width_bound; [lia|exact Hv].
    + exact Hlen.
  - rewrite (map_zero_repeat e_rep es).
    2:{ eapply Forall_impl; [|exact Hreps']. cbv beta. intros e He. lia. }
    destruct (col_required c) eqn:Hreq.
    + rewrite page_payload_required by exact Hreq. reflexivity.
    + rewrite page_payload_optional by exact Hreq. unfold rep_section.
      destruct (N.ltb_spec 0 (max_rep c)) as [H|_]; [lia|]. reflexivity.
Qed.

Lemma defs_decode c es :
  col_ok c -> Forall (fun e => entry_levels_ok c e = true) es ->
  N.of_nat (length es) + 8 <= 2 ^ 31 ->
  (if 0 <? max_def c then
     take_levels (FileSpec.bit_width (max_def c)) (length es) (max_def c) (after_reps c es)
   else inr (repeat 0 (length es), after_reps c es)) =
  inr (map e_def es, plain_enc (c_prim c) (entry_vals es)).
Proof.
  intros [Hd Hr] Hes Hlen. unfold after_reps.
  assert (Hdefs' : Forall (fun e => e_def e <= max_def c) es).
  { eapply Forall_impl; [|exact Hes]. intros e He. apply entry_levels_ok_inv in He. tauto. }
  assert (Hdefs : Forall (fun v => v <= max_def c) (map e_def es)).
  { apply Forall_map. exact Hdefs'. }
  destruct (col_required c) eqn:Hreq.
  - pose proof (proj1 (col_required_max_def c) Hreq) as Hz. rewrite Hz in *.
    cbn [N.ltb N.compare].
    rewrite (map_zero_repeat e_def es); [reflexivity|].
    eapply Forall_impl; [|exact Hdefs']. cbv beta. intros e He. lia.
  - pose proof (col_required_false_max_def c Hreq) as Hpos.
    destruct (N.ltb_spec 0 (max_def c)) as [_|H]; [|lia].
    unfold def_section.
    pose proof (take_levels_encode (Writer.bit_width (max_def c)) (map e_def es) (max_def c)
                  (plain_enc (c_prim c) (entry_vals es))) as HT.
    rewrite map_length in HT. rewrite bit_width_same, HT; [reflexivity| | |exact Hdefs|].
    + apply bit_width_widths. lia.
    + eapply Forall_impl; [|exact Hdefs]. intros v Hv. apply bit_width_bound; [lia|exact Hv].
    + exact Hlen.
Qed.

(** ** The page theorem *)

Definition codec_ok (codec : Z) : Prop := In codec [CODEC_UNCOMPRESSED; CODEC_SNAPPY; CODEC_GZIP].

Section WithCodec.

Variable compress : Z -> bytes -> bytes.
Variable decompress : Z -> bytes -> option bytes.
Hypothesis Hcodec : forall c x, In c [CODEC_UNCOMPRESSED; CODEC_SNAPPY; CODEC_GZIP] ->
                                 decompress c (compress c x) = Some x.

Theorem check_page_make_page c codec off es rest :
  col_ok c -> entries_ok c es -> codec_ok codec ->
  nlen (compress codec (page_payload c es)) < 2 ^ 31 ->
  let p := make_page compress codec c es in
  check_page decompress c codec off (pg_header_bytes p ++ pg_body p ++ rest) =
  inr ({| pv_offset := off; pv_header_len := nlen (pg_header_bytes p); pv_header := pg_header p;
          pv_entries := es; pv_records := count_rep0 es; pv_stats_ok := true |},
       nlen (pg_header_bytes p) + nlen (pg_body p)).
Proof.
  intros Hc (Hne & Hes & Hfirst & Hlen & Hpay) Hcd Hbody p. subst p.
  rewrite make_page_eq. cbn [pg_header pg_header_bytes pg_body].
  pose proof (entries_wf_levels c es Hes) as Hlev.
  assert (Hn : nlen es < 2 ^ 31).
  { unfold nlen. change (2 ^ 31) with 2147483648 in *. lia. }
  unfold check_page.
  rewrite dec_enc_page_header by (apply page_hdr_ok; assumption).
  replace (N.of_nat (length (enc_page_header (page_hdr compress codec c es) ++
                             compress codec (page_payload c es) ++ rest) -
                     length (compress codec (page_payload c es) ++ rest)))
    with (nlen (enc_page_header (page_hdr compress codec c es)))
    by (unfold nlen; rewrite app_length; lia).
  cbn [page_hdr ph_type ph_data ph_compressed_size ph_uncompressed_size
       dph_encoding dph_def_encoding dph_rep_encoding dph_num_values dph_statistics].
  rewrite !Z.eqb_refl. cbn [negb]. rewrite !andb_false_r.
  rewrite !i32_small by assumption.
  rewrite !N2Z.id, !Z_of_N_ltb0. cbn [orb].
  replace (Z.to_nat (Z.of_N (nlen es))) with (length es) by (unfold nlen; lia).
  destruct (N.ltb_spec (N.of_nat (length (compress codec (page_payload c es) ++ rest)))
                       (nlen (compress codec (page_payload c es)))) as [Hlt|_].
  { rewrite app_length in Hlt. unfold nlen in Hlt. lia. }
  replace (N.to_nat (nlen (compress codec (page_payload c es))))
    with (length (compress codec (page_payload c es))) by (unfold nlen; lia).
  rewrite firstn_app_exact, Hcodec by exact Hcd.
  rewrite N.eqb_refl. cbn [negb].
  destruct (Nat.eqb_spec (length es) 0) as [Hz|_].
  { destruct es; [congruence | discriminate Hz]. }
  rewrite reps_decode, defs_decode by assumption.
  assert (Hf : match map e_rep es with [] => true | r0 :: _ => r0 =? 0 end = true).
  { destruct es as [|e es']; [reflexivity|]. cbn [map]. cbn [first_rep0] in Hfirst.
    rewrite Hfirst. reflexivity. }
  rewrite Hf. cbn [negb].
  rewrite count_max_def_levels by exact Hlev.
  rewrite plain_strict_roundtrip.
  - rewrite zip_entries_levels by exact Hlev.
    rewrite page_stats_sound by (apply stats_entries_ok; assumption).
    reflexivity.
  - apply entries_wf_vals. exact Hes.
  - intros _. eapply Forall_impl; [|apply (entries_short_strings c es Hes Hpay)].
    cbv beta. intros v [_ Hv]. change (2 ^ 31) with 2147483648 in Hv.
    change (2 ^ 32) with 4294967296. lia.
Qed.

End WithCodec.


(** the statement evaluated on a tiny page: optional int32 column, one value and one null *)
Example check_page_make_page_tiny :
  let cmp : Z -> bytes -> bytes := fun _ b => b in
  let dcmp : Z -> bytes -> option bytes := fun _ b => Some b in
  let c := {| c_path := [[97]]; c_reps := [Opt]; c_prim := PInt32 |} in
  let es := [ {| e_rep := 0; e_def := 1; e_val := Some (VNum 5) |};
              {| e_rep := 0; e_def := 0; e_val := None |} ] in
  let p := make_page cmp 0%Z c es in
  check_page dcmp c 0%Z 17 (pg_header_bytes p ++ pg_body p ++ [1; 2; 3]) =
  inr ({| pv_offset := 17; pv_header_len := nlen (pg_header_bytes p); pv_header := pg_header p;
          pv_entries := es; pv_records := count_rep0 es; pv_stats_ok := true |},
       nlen (pg_header_bytes p) + nlen (pg_body p)).
Proof. vm_compute. reflexivity. Qed.

Print Assumptions check_page_make_page.
