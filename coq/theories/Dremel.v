(** * Dremel: the reference record shredder and assembler — the canonical
    striping of the Dremel paper / Parquet specification, written directly
    from the definition and independent of parquetgen's synthesised code.
    [shred_ty] produces, for one value of a type, one entry list per leaf
    column (depth-first order); [assemble_ty] inverts it.  Definitions only;
    proofs in DremelProofs.v. *)
From Coq Require Import List NArith Lia Bool.
From PQ Require Import Bytes Schema.
Import ListNotations.
Local Open Scope N_scope.

Definition mk_entry (r d : N) (v : option value) : entry := {| e_rep := r; e_def := d; e_val := v |}.

Fixpoint leaf_count (t : ty) : nat :=
  match t with
  | TLeaf _ => 1%nat
  | TGroup fs =>
      (fix go (fs : list (bytes * rept * ty)) : nat :=
         match fs with
         | [] => 0%nat
         | (_, _, t') :: fs' => (leaf_count t' + go fs')%nat
         end) fs
  end.

(** A missing subtree: every leaf column below gets one entry without a value. *)
Fixpoint null_cols (t : ty) (r d : N) : list (list entry) :=
  match t with
  | TLeaf _ => [[mk_entry r d None]]
  | TGroup fs =>
      (fix go (fs : list (bytes * rept * ty)) : list (list entry) :=
         match fs with
         | [] => []
         | (_, _, t') :: fs' => null_cols t' r d ++ go fs'
         end) fs
  end.

(** Column-wise concatenation. *)
Fixpoint zipcat (a b : list (list entry)) : list (list entry) :=
  match a, b with
  | x :: a', y :: b' => (x ++ y) :: zipcat a' b'
  | _, _ => []
  end.

(** [shred_ty t v r d k]: stripe value [v] of type [t]; [r] is the repetition
    level its first entry carries, [d] the definition level reached so far,
    [k] the number of repeated fields on the path so far. *)
Fixpoint shred_ty (t : ty) (v : value) (r d k : N) {struct t} : list (list entry) :=
  match t with
  | TLeaf _ => [[mk_entry r d (Some v)]]
  | TGroup fs =>
      match v with
      | VGroup vs =>
          (fix go (fs : list (bytes * rept * ty)) (vs : list value) {struct fs} : list (list entry) :=
             match fs, vs with
             | (_, rp, t') :: fs', v' :: vs' =>
                 (match rp with
                  | Req => shred_ty t' v' r d k
                  | Opt =>
                      match v' with
                      | VNull => null_cols t' r d
                      | _ => shred_ty t' v' r (d + 1) k
                      end
                  | Rep =>
                      match v' with
                      | VList (x :: xs) =>
                          fold_left zipcat
                            (map (fun y => shred_ty t' y (k + 1) (d + 1) (k + 1)) xs)
                            (shred_ty t' x r (d + 1) (k + 1))
                      | _ => null_cols t' r d
                      end
                  end) ++ go fs' vs'
             | _, _ => []
             end) fs vs
      | _ => []
      end
  end.

Definition shred_record (fs : list field) (v : value) : list (list entry) :=
  shred_ty (TGroup fs) v 0 0 0.

(** Column data of a sequence of records: per column, the records' entries in order. *)
Definition shred_records (fs : list field) (vs : list value) : list (list entry) :=
  fold_left zipcat (map (shred_record fs) vs) (repeat [] (leaf_count (TGroup fs))).

(** ** Assembly *)

Definition first_def (cols : list (list entry)) : option N :=
  match cols with
  | (e :: _) :: _ => Some (e_def e)
  | _ => None
  end.

(** Split one column at every entry, other than the first, whose repetition
    level is at most [k]: those entries start a new element. *)
Fixpoint split_at_rep (k : N) (es : list entry) : list (list entry) :=
  match es with
  | [] => []
  | e :: rest =>
      match rest with
      | [] => [[e]]
      | e' :: _ =>
          if e_rep e' <=? k then [e] :: split_at_rep k rest
          else match split_at_rep k rest with
               | s :: ss => (e :: s) :: ss
               | [] => [[e]]
               end
      end
  end.

Fixpoint transpose (n : nat) (colsegs : list (list (list entry))) : list (list (list entry)) :=
  match n with
  | O => []
  | S n' => map (hd []) colsegs :: transpose n' (map (@tl _) colsegs)
  end.

Fixpoint sequence {A} (l : list (option A)) : option (list A) :=
  match l with
  | [] => Some []
  | Some x :: r => match sequence r with Some xs => Some (x :: xs) | None => None end
  | None :: _ => None
  end.

Fixpoint assemble_ty (t : ty) (cols : list (list entry)) (d k : N) {struct t} : option value :=
  match t with
  | TLeaf _ => match cols with [[e]] => e_val e | _ => None end
  | TGroup fs =>
      option_map VGroup
        ((fix go (fs : list (bytes * rept * ty)) (cols : list (list entry)) {struct fs} : option (list value) :=
            match fs with
            | [] => match cols with [] => Some [] | _ => None end
            | (_, rp, t') :: fs' =>
                let n := leaf_count t' in
                let mine := firstn n cols in
                let fv :=
                  match rp with
                  | Req => assemble_ty t' mine d k
                  | Opt =>
                      match first_def mine with
                      | Some fd => if fd <=? d then Some VNull else assemble_ty t' mine (d + 1) k
                      | None => None
                      end
                  | Rep =>
                      match first_def mine with
                      | Some fd =>
                          if fd <=? d then Some (VList [])
                          else
                            let segs := map (split_at_rep (k + 1)) mine in
                            let elems := transpose (length (hd [] segs)) segs in
                            option_map VList (sequence (map (fun el => assemble_ty t' el (d + 1) (k + 1)) elems))
                      | None => None
                      end
                  end in
                match fv, go fs' (skipn n cols) with
                | Some v, Some vs => Some (v :: vs)
                | _, _ => None
                end
            end) fs cols)
  end.

Definition assemble_record (fs : list field) (cols : list (list entry)) : option value :=
  assemble_ty (TGroup fs) cols 0 0.

(** All records of a column set: split every column at repetition level 0. *)
Definition assemble_records (fs : list field) (cols : list (list entry)) : option (list value) :=
  let segs := map (split_at_rep 0) cols in
  sequence (map (assemble_record fs) (transpose (length (hd [] segs)) segs)).

(** ** What the levels say *)

Definition entry_levels_ok (c : col) (e : entry) : bool :=
  (e_rep e <=? max_rep c) && (e_def e <=? max_def c) &&
  (match e_val e with Some _ => e_def e =? max_def c | None => e_def e <? max_def c end).

Definition count_rep0 (es : list entry) : N := N.of_nat (length (filter (fun e => e_rep e =? 0) es)).
Definition count_vals (es : list entry) : N := N.of_nat (length (filter (fun e => match e_val e with Some _ => true | None => false end) es)).
