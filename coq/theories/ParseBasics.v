(** * ParseBasics: first facts about the parse model (used until/alongside ParseProofs.v). *)
From Coq Require Import List NArith Lia Bool.
From PQ Require Import Bytes Schema Parse Structs MetaTypes.
Import ListNotations.

(** an excluded field never becomes a column, whatever its Go type *)
Lemma excluded_skipped f : excluded f = true -> raw_of f = RSkip.
Proof.
  destruct f as [names ty tag]. unfold excluded, raw_of. cbn [fd_names fd_type fd_tag].
  destruct names as [|n [|n2 rest]]; try discriminate.
  - destruct ty; try discriminate. intros H.
    destruct (is_private name); [reflexivity|]. cbn [orb] in H.
    destruct tag as [t|]; [|discriminate]. rewrite H. reflexivity.
  - intros H. destruct (is_private n); [reflexivity|]. cbn [orb] in H.
    destruct tag as [t|]; [|discriminate]. rewrite H. reflexivity.
Qed.

(** the regenerated field of a schema element keeps the column name as its tag *)
Lemma field_decl_tag e : fd_tag (field_decl e) = Some (se_name e).
Proof. reflexivity. Qed.
