(** * RleSpec: the RLE/bit-packed hybrid encoding as Encodings.md defines it,
    independent of the library: runs, their well-formedness, the byte stream
    of a list of runs, and a specification decoder.  The bit-packed payload is
    [Bitpack.spec_pack] (LSB first, little endian), not the library's tables.
    Definitions only; proofs in RleSpecProofs.v. *)
From Coq Require Import List NArith Lia Bool.
From PQ Require Import Bytes Varint Bitpack.
Import ListNotations.
Local Open Scope N_scope.

Inductive run :=
| RRle (count : N) (v : N)            (* [count] copies of [v] *)
| RBp (groups : list (list N)).       (* bit-packed groups of 8 values *)

Definition valb (w : N) (v : N) : bool := v <? 2 ^ w.
Definition groupb (w : N) (g : list N) : bool := Nat.eqb (length g) 8 && forallb (valb w) g.

Definition wf_runb (w : N) (r : run) : bool :=
  match r with
  | RRle c v => (1 <=? c) && valb w v
  | RBp gs => negb (Nat.eqb (length gs) 0) && forallb (groupb w) gs
  end.

Definition wf_run (w : N) (r : run) : Prop := wf_runb w r = true.

Definition run_values (r : run) : list N :=
  match r with
  | RRle c v => repeat v (N.to_nat c)
  | RBp gs => concat gs
  end.

Definition runs_values (rs : list run) : list N := concat (map run_values rs).

(** Width of a repeated value in bytes: round-up-to-next-byte(bit width). *)
Definition value_bytes (w : N) : nat := N.to_nat ((w + 7) / 8).

Definition run_encode (w : N) (r : run) : bytes :=
  match r with
  | RRle c v => uleb_enc (2 * c) ++ le_enc (value_bytes w) v
  | RBp gs => uleb_enc (2 * nlen gs + 1) ++ concat (map (spec_pack w) gs)
  end.

Definition runs_encode (w : N) (rs : list run) : bytes := concat (map (run_encode w) rs).

(** The framed stream: 4-byte little-endian length, then the runs. *)
Definition hybrid_encode (w : N) (rs : list run) : bytes :=
  le_enc 4 (nlen (runs_encode w rs)) ++ runs_encode w rs.

(** ** Specification decoder *)

Fixpoint take_groups (w : N) (g : nat) (bs : bytes) : option (list (list N) * bytes) :=
  match g with
  | O => Some ([], bs)
  | S g' =>
      if Nat.leb (N.to_nat w) (length bs) then
        match take_groups w g' (skipn (N.to_nat w) bs) with
        | Some (gs, rest) => Some (spec_unpack w (firstn (N.to_nat w) bs) :: gs, rest)
        | None => None
        end
      else None
  end.

Fixpoint hybrid_decode_fuel (fuel : nat) (w : N) (bs : bytes) : option (list run) :=
  match fuel with
  | O => None
  | S f =>
      match bs with
      | [] => Some []
      | _ =>
          match uleb_dec bs with
          | None => None
          | Some (h, r) =>
              if N.even h then
                let c := h / 2 in
                match take_le (value_bytes w) r with
                | Some (v, r') =>
                    if (1 <=? c) && valb w v then
                      match hybrid_decode_fuel f w r' with
                      | Some rs => Some (RRle c v :: rs)
                      | None => None
                      end
                    else None
                | None => None
                end
              else
                let g := h / 2 in
                if g =? 0 then None
                else if N.of_nat (length r) <? w * g then None
                else
                  match take_groups w (N.to_nat g) r with
                  | Some (gs, r') =>
                      match hybrid_decode_fuel f w r' with
                      | Some rs => Some (RBp gs :: rs)
                      | None => None
                      end
                  | None => None
                  end
          end
      end
  end.

Definition hybrid_decode (w : N) (bs : bytes) : option (list run) :=
  hybrid_decode_fuel (S (length bs)) w bs.

(** The framed form: exact length prefix, nothing left over. *)
Definition hybrid_decode_framed (w : N) (bs : bytes) : option (list run * bytes) :=
  match take_le 4 bs with
  | Some (len, r) =>
      if N.of_nat (length r) <? len then None
      else match hybrid_decode w (firstn (N.to_nat len) r) with
           | Some rs => Some (rs, skipn (N.to_nat len) r)
           | None => None
           end
  | None => None
  end.

(** What a consumer of a level stream does: take the first [n] values. *)
Definition levels_of_runs (n : nat) (rs : list run) : option (list N) :=
  let vs := runs_values rs in
  if Nat.leb n (length vs) then Some (firstn n vs) else None.
