(** * RefuseProofs: the reader model refuses what it cannot decode (C18, page
    level): fields.go supportedPage and pageData's codec switch. *)
From Coq Require Import List NArith ZArith Lia Bool.
From PQ Require Import Bytes Rle MetaTypes Io Reader.
Import ListNotations.

Lemma supported_page_type ph d r :
  ph_type ph <> PT_DATA_PAGE -> supported_page ph d r = None.
Proof.
  intros H. unfold supported_page.
  destruct (Z.eqb_spec (ph_type ph) PT_DATA_PAGE) as [E|_]; [contradiction | reflexivity].
Qed.

Lemma supported_page_nodata ph d r :
  ph_data ph = None -> supported_page ph d r = None.
Proof.
  intros H. unfold supported_page. rewrite H.
  destruct (negb (ph_type ph =? PT_DATA_PAGE)%Z); reflexivity.
Qed.

Lemma supported_page_encoding ph dph d r :
  ph_data ph = Some dph -> dph_encoding dph <> ENC_PLAIN -> supported_page ph d r = None.
Proof.
  intros H He. unfold supported_page. rewrite H.
  destruct (negb (ph_type ph =? PT_DATA_PAGE)%Z); [reflexivity|].
  destruct (Z.eqb_spec (dph_encoding dph) ENC_PLAIN) as [E|_]; [contradiction | reflexivity].
Qed.

Lemma supported_page_def_levels ph dph r :
  ph_data ph = Some dph -> dph_def_encoding dph <> ENC_RLE -> supported_page ph true r = None.
Proof.
  intros H He. unfold supported_page. rewrite H.
  destruct (negb (ph_type ph =? PT_DATA_PAGE)%Z); [reflexivity|].
  destruct (negb (dph_encoding dph =? ENC_PLAIN)%Z); [reflexivity|].
  destruct (Z.eqb_spec (dph_def_encoding dph) ENC_RLE) as [E|_]; [contradiction | reflexivity].
Qed.

Lemma supported_page_rep_levels ph dph d :
  ph_data ph = Some dph -> dph_rep_encoding dph <> ENC_RLE -> supported_page ph d true = None.
Proof.
  intros H He. unfold supported_page. rewrite H.
  destruct (negb (ph_type ph =? PT_DATA_PAGE)%Z); [reflexivity|].
  destruct (negb (dph_encoding dph =? ENC_PLAIN)%Z); [reflexivity|].
  destruct (d && negb (dph_def_encoding dph =? ENC_RLE)%Z); [reflexivity|].
  destruct (Z.eqb_spec (dph_rep_encoding dph) ENC_RLE) as [E|_]; [contradiction | reflexivity].
Qed.

(** what is accepted is exactly a v1 data page, PLAIN, with RLE levels where the column has levels *)
Lemma supported_page_some ph d r dph :
  supported_page ph d r = Some dph ->
  ph_type ph = PT_DATA_PAGE /\ ph_data ph = Some dph /\ dph_encoding dph = ENC_PLAIN /\
  (d = true -> dph_def_encoding dph = ENC_RLE) /\ (r = true -> dph_rep_encoding dph = ENC_RLE).
Proof.
  unfold supported_page.
  destruct (Z.eqb_spec (ph_type ph) PT_DATA_PAGE) as [Et|]; [|discriminate]. cbn [negb].
  destruct (ph_data ph) as [x|]; [|discriminate].
  destruct (Z.eqb_spec (dph_encoding x) ENC_PLAIN) as [Ee|]; [|discriminate]. cbn [negb].
  destruct d; cbn [andb].
  - destruct (Z.eqb_spec (dph_def_encoding x) ENC_RLE) as [Ed|]; [|discriminate]. cbn [negb].
    destruct r; cbn [andb].
    + destruct (Z.eqb_spec (dph_rep_encoding x) ENC_RLE) as [Er|]; [|discriminate]. cbn [negb].
      intros H; inversion H; subst. repeat split; auto.
    + intros H; inversion H; subst. repeat split; auto. discriminate.
  - destruct r; cbn [andb].
    + destruct (Z.eqb_spec (dph_rep_encoding x) ENC_RLE) as [Er|]; [|discriminate]. cbn [negb].
      intros H; inversion H; subst. repeat split; auto. discriminate.
    + intros H; inversion H; subst. repeat split; auto; discriminate.
Qed.

Section Codec.
Variable decompress : Z -> bytes -> option bytes.

(** a codec other than uncompressed/snappy/gzip: pageData returns an error before reading the body *)
Lemma page_data_unsupported_codec codec ph s :
  codec <> CODEC_SNAPPY -> codec <> CODEC_GZIP -> codec <> CODEC_UNCOMPRESSED ->
  page_data decompress codec ph s = Err.
Proof.
  intros H1 H2 H3. unfold page_data.
  destruct (Z.eqb_spec codec CODEC_SNAPPY) as [E|_]; [contradiction|].
  destruct (Z.eqb_spec codec CODEC_GZIP) as [E|_]; [contradiction|].
  destruct (Z.eqb_spec codec CODEC_UNCOMPRESSED) as [E|_]; [contradiction|].
  reflexivity.
Qed.
End Codec.
