(** * Bitpack: evaluation of the translated tables of internal/bitpack/bitpack.go
    and the layout the Parquet specification prescribes (Encodings.md,
    "bit-packed, LSB first, little endian"). *)
From Coq Require Import List NArith Lia.
From PQ Require Import Bytes BitExpr.
From PQgen Require Import BitpackImpl.
Import ListNotations.
Local Open Scope N_scope.

(** bitpack.Pack(b, w, vals) appends [pack w vals] to b;
    bitpack.Unpack(w, bs) returns [unpack w bs]. *)
Definition pack (w : N) (vals : list N) : bytes := eval_table (pack_table w) vals.
Definition unpack (w : N) (bs : bytes) : list N := eval_table (unpack_table w) bs.

(** The specification: value [i] occupies bits [w*i .. w*i+w-1] of the
    little-endian integer formed by the [w] output bytes. *)
Fixpoint spec_word (w : N) (i : N) (vals : list N) : N :=
  match vals with
  | [] => 0
  | v :: r => N.lor (N.shiftl (v mod 2 ^ w) (w * i)) (spec_word w (i + 1) r)
  end.

Definition spec_pack (w : N) (vals : list N) : bytes :=
  le_enc (N.to_nat w) (spec_word w 0 vals).

Definition spec_unpack (w : N) (bs : bytes) : list N :=
  map (fun i => N.shiftr (le_dec bs) (w * i) mod 2 ^ w) [0; 1; 2; 3; 4; 5; 6; 7].
