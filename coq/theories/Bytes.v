(** * Bytes: byte strings, little-endian fixed width, two's complement.

    Conventions of the whole development (see DESIGN.md §3):
    - a byte is an [N] below 256, a byte string is a [list N]; well-formedness
      is carried separately by [wf_bytes];
    - lengths, indices, fuel are [nat]; anything data dependent is [N]/[Z]. *)
From Coq Require Import List NArith ZArith Lia Bool.
From Coq Require Import ZifyN ZifyNat ZifyBool.
Import ListNotations.
Local Open Scope N_scope.

Ltac Zify.zify_post_hook ::= Z.div_mod_to_equations.

Definition byte := N.
Definition bytes := list N.

Definition is_byte (b : N) : Prop := b < 256.
Definition wf_bytes (bs : bytes) : Prop := Forall is_byte bs.

Definition is_byteb (b : N) : bool := b <? 256.
Definition wf_bytesb (bs : bytes) : bool := forallb is_byteb bs.

Lemma wf_bytesb_spec bs : wf_bytesb bs = true <-> wf_bytes bs.
Proof.
  unfold wf_bytesb, wf_bytes. rewrite forallb_forall, Forall_forall.
  unfold is_byteb, is_byte. split; intros H x Hx; specialize (H x Hx); lia.
Qed.

Lemma wf_bytes_app a b : wf_bytes (a ++ b) <-> wf_bytes a /\ wf_bytes b.
Proof. unfold wf_bytes. apply Forall_app. Qed.

Lemma wf_bytes_nil : wf_bytes [].
Proof. constructor. Qed.

Lemma wf_bytes_cons b bs : wf_bytes (b :: bs) <-> is_byte b /\ wf_bytes bs.
Proof. unfold wf_bytes. split; intros H; [inversion H; auto | destruct H; constructor; auto]. Qed.

Lemma wf_bytes_concat (l : list bytes) : Forall wf_bytes l -> wf_bytes (concat l).
Proof.
  induction 1 as [|x l Hx Hl IH]; cbn [concat]; [constructor|].
  apply wf_bytes_app; auto.
Qed.

Lemma wf_bytes_firstn n bs : wf_bytes bs -> wf_bytes (firstn n bs).
Proof.
  unfold wf_bytes. rewrite !Forall_forall. intros H x Hx. apply H.
  rewrite <- (firstn_skipn n bs). apply in_or_app. auto.
Qed.

Lemma wf_bytes_skipn n bs : wf_bytes bs -> wf_bytes (skipn n bs).
Proof.
  unfold wf_bytes. rewrite !Forall_forall. intros H x Hx. apply H.
  rewrite <- (firstn_skipn n bs). apply in_or_app. auto.
Qed.

(** ** Little-endian fixed width *)

Fixpoint le_enc (k : nat) (n : N) : bytes :=
  match k with
  | O => []
  | S k' => (n mod 256) :: le_enc k' (n / 256)
  end.

Fixpoint le_dec (bs : bytes) : N :=
  match bs with
  | [] => 0
  | b :: r => b + 256 * le_dec r
  end.

Lemma le_enc_length k n : length (le_enc k n) = k.
Proof. revert n; induction k as [|k IH]; intros n; cbn [le_enc length]; auto. Qed.

Lemma le_enc_wf k n : wf_bytes (le_enc k n).
Proof.
  revert n; induction k as [|k IH]; intros n; cbn [le_enc]; [constructor|].
  constructor; [unfold is_byte; lia | apply IH].
Qed.

Lemma pow256_succ k : 256 ^ N.of_nat (S k) = 256 * 256 ^ N.of_nat k.
Proof. rewrite Nat2N.inj_succ, N.pow_succ_r'. reflexivity. Qed.

Lemma le_dec_enc k n : n < 256 ^ N.of_nat k -> le_dec (le_enc k n) = n.
Proof.
  revert n; induction k as [|k IH]; intros n Hn.
  - cbn in Hn. cbn. lia.
  - rewrite pow256_succ in Hn. cbn [le_enc le_dec].
    rewrite IH by (apply N.div_lt_upper_bound; lia).
    pose proof (N.div_mod n 256). lia.
Qed.

Lemma le_dec_bound bs : wf_bytes bs -> le_dec bs < 256 ^ N.of_nat (length bs).
Proof.
  induction 1 as [|b r Hb Hr IH]; cbn [le_dec length].
  - cbn. lia.
  - rewrite pow256_succ. unfold is_byte in Hb. lia.
Qed.

Lemma le_enc_dec bs : wf_bytes bs -> le_enc (length bs) (le_dec bs) = bs.
Proof.
  induction 1 as [|b r Hb Hr IH]; cbn [le_dec length le_enc]; auto.
  unfold is_byte in Hb.
  replace ((b + 256 * le_dec r) mod 256) with b by lia.
  replace ((b + 256 * le_dec r) / 256) with (le_dec r) by lia.
  rewrite IH. reflexivity.
Qed.

Lemma le_enc_inj k a b :
  a < 256 ^ N.of_nat k -> b < 256 ^ N.of_nat k -> le_enc k a = le_enc k b -> a = b.
Proof.
  intros Ha Hb H. rewrite <- (le_dec_enc k a Ha), <- (le_dec_enc k b Hb), H. reflexivity.
Qed.

(** Framed decoding: take [k] bytes from the front. *)
Definition take_le (k : nat) (bs : bytes) : option (N * bytes) :=
  if Nat.leb k (length bs) then Some (le_dec (firstn k bs), skipn k bs) else None.

Lemma take_le_enc k n rest :
  n < 256 ^ N.of_nat k -> take_le k (le_enc k n ++ rest) = Some (n, rest).
Proof.
  intros Hn. unfold take_le.
  rewrite app_length, le_enc_length.
  replace (Nat.leb k (k + length rest)) with true by (symmetry; apply Nat.leb_le; lia).
  rewrite <- (le_enc_length k n) at 1 3.
  rewrite firstn_app, Nat.sub_diag, firstn_all, firstn_O, app_nil_r.
  rewrite skipn_app, Nat.sub_diag, skipn_all, skipn_O.
  cbn [app]. rewrite le_dec_enc by assumption. reflexivity.
Qed.

(** ** Two's complement views of machine integers *)

Definition wrapN (bits : N) (z : Z) : N := Z.to_N (z mod 2 ^ Z.of_N bits).
Definition signZ (bits : N) (n : N) : Z :=
  if n <? 2 ^ (bits - 1) then Z.of_N n else Z.of_N n - 2 ^ Z.of_N bits.

Lemma wrapN_bound bits z : wrapN bits z < 2 ^ bits.
Proof.
  unfold wrapN.
  assert (0 < 2 ^ Z.of_N bits)%Z by (apply Z.pow_pos_nonneg; lia).
  pose proof (Z.mod_pos_bound z (2 ^ Z.of_N bits) H).
  assert (Z.of_N (2 ^ bits) = 2 ^ Z.of_N bits)%Z by (rewrite N2Z.inj_pow; reflexivity).
  lia.
Qed.

Lemma signZ_wrapN bits z :
  0 < bits ->
  (- 2 ^ (Z.of_N bits - 1) <= z < 2 ^ (Z.of_N bits - 1))%Z ->
  signZ bits (wrapN bits z) = z.
Proof.
  intros Hb Hz. unfold signZ, wrapN.
  assert (Hp : (2 ^ Z.of_N bits = 2 * 2 ^ (Z.of_N bits - 1))%Z).
  { rewrite <- Z.pow_succ_r by lia. f_equal. lia. }
  assert (Hq : Z.of_N (2 ^ (bits - 1)) = (2 ^ (Z.of_N bits - 1))%Z).
  { rewrite N2Z.inj_pow, N2Z.inj_sub by lia. reflexivity. }
  assert (0 < 2 ^ (Z.of_N bits - 1))%Z by (apply Z.pow_pos_nonneg; lia).
  destruct (Z.ltb_spec z 0) as [Hneg|Hpos].
  - assert (Hm : (z mod 2 ^ Z.of_N bits = z + 2 ^ Z.of_N bits)%Z).
    { symmetry. apply Z.mod_unique_pos with (q := (-1)%Z); lia. }
    rewrite Hm.
    destruct (N.ltb_spec (Z.to_N (z + 2 ^ Z.of_N bits)) (2 ^ (bits - 1))); lia.
  - rewrite Z.mod_small by lia.
    destruct (N.ltb_spec (Z.to_N z) (2 ^ (bits - 1))); lia.
Qed.

(** ** Positional overwrite *)

Fixpoint update_at (i : nat) (x : N) (l : bytes) : bytes :=
  match l, i with
  | [], _ => []
  | _ :: r, O => x :: r
  | y :: r, S i' => y :: update_at i' x r
  end.

Lemma update_at_length i x l : length (update_at i x l) = length l.
Proof. revert i; induction l as [|y r IH]; intros [|i]; cbn; auto. Qed.

Lemma update_at_app_mid a y b x :
  update_at (length a) x (a ++ y :: b) = a ++ x :: b.
Proof. induction a as [|z a IH]; cbn; [reflexivity | rewrite IH; reflexivity]. Qed.

(** ** Small list helpers used across the development *)

Lemma skipn_app_exact {A} (a b : list A) : skipn (length a) (a ++ b) = b.
Proof. rewrite skipn_app, Nat.sub_diag, skipn_all. reflexivity. Qed.

Lemma firstn_app_exact {A} (a b : list A) : firstn (length a) (a ++ b) = a.
Proof. rewrite firstn_app, Nat.sub_diag, firstn_all, firstn_O, app_nil_r. reflexivity. Qed.

Fixpoint sumN (l : list N) : N :=
  match l with [] => 0 | x :: r => x + sumN r end.

Lemma sumN_app a b : sumN (a ++ b) = sumN a + sumN b.
Proof. induction a as [|x a IH]; cbn [sumN app]; lia. Qed.

Definition nlen {A} (l : list A) : N := N.of_nat (length l).

Lemma nlen_app {A} (a b : list A) : nlen (a ++ b) = nlen a + nlen b.
Proof. unfold nlen. rewrite app_length. lia. Qed.
