(** * TruncProofs: what the structure of the trailer alone decides about a
    truncated file (C11), and the refutation of the unconditional statement. *)
From Coq Require Import List NArith ZArith Lia Bool Arith.
From Coq Require Import ZifyN ZifyNat ZifyBool.
From PQ Require Import Bytes Schema Dremel Rle Plain Stats MetaTypes Thrift Meta Writer Io Reader IoProofs.
Import ListNotations.
Local Open Scope N_scope.

Section Trunc.
Variable decompress : Z -> bytes -> option bytes.

Lemma op_tick_fresh file sched :
  op_tick (mk_src file sched None) =
  Ok (tt, {| s_file := file; s_pos := 0; s_sched := sched; s_fail := None; s_ops := 1 |}).
Proof. reflexivity. Qed.

(** fewer than 8 bytes: Seek(-8, io.SeekEnd) fails, the constructor returns an error *)
Theorem open_short fs file sched :
  (length file < 8)%nat ->
  read_all_src decompress fs (mk_src file sched None) = open_failed false.
Proof.
  intros Hlen. unfold read_all_src, open_footer, m_seek_end.
  unfold bind at 1. unfold bind at 1. rewrite op_tick_fresh.
  cbn [s_file]. unfold nlen.
  destruct (Z.ltb_spec (Z.of_N (N.of_nat (length file)) + -8) 0) as [_|H]; [reflexivity | lia].
Qed.

(** a trailer length that points before the start of the file: the second Seek
    fails, the constructor returns an error (and does not panic) *)
Theorem open_bad_length fs file sched :
  (8 <= length file)%nat ->
  (Z.of_N (le_dec (firstn 4 (skipn (length file - 8) file))) + 8 > Z.of_nat (length file))%Z ->
  read_all_src decompress fs (mk_src file sched None) = open_failed false.
Proof.
  intros Hlen Hbad.
  unfold read_all_src.
  assert (Ho : open_footer fs (mk_src file sched None) = Err); [|rewrite Ho; reflexivity].
  unfold open_footer.
  unfold bind at 1. unfold m_seek_end at 1. unfold bind at 1. rewrite op_tick_fresh. cbn [s_file].
  unfold nlen.
  destruct (Z.ltb_spec (Z.of_N (N.of_nat (length file)) + -8) 0) as [H|_]; [lia|].
  unfold set_pos. cbn [s_file s_pos s_sched s_fail s_ops].
  unfold bind at 1. unfold m_read_full. unfold bind at 1. unfold op_tick. cbn [s_fail s_file s_pos s_sched s_ops].
  set (s2 := {| s_file := file; s_pos := Z.to_N (Z.of_N (N.of_nat (length file)) + -8); s_sched := sched; s_fail := None; s_ops := 2 |}).
  assert (Hs2 : s_pos s2 = N.of_nat (length file - 8)) by (unfold s2; cbn [s_pos]; lia).
  assert (Hav : avail s2 = skipn (length file - 8) file).
  { unfold avail. rewrite Hs2. unfold s2. cbn [s_file]. f_equal. lia. }
  assert (Hal : (4 <= length (avail s2))%nat) by (rewrite Hav, skipn_length; lia).
  destruct (read_full_loop_ok 4 4 [] s2 (le_n 4) Hal) as (s3 & Hr & Hf3 & _ & Hfl3 & _).
  rewrite Hr. cbn [app].
  assert (Hlenb : firstn 4 (avail s2) = firstn 4 (skipn (length file - 8) file)) by (rewrite Hav; reflexivity).
  unfold s2 in Hf3, Hfl3. cbn [s_file s_fail] in Hf3, Hfl3.
  unfold bind at 1. unfold m_seek_end. unfold bind at 1. unfold op_tick. rewrite Hfl3.
  cbn [s_file]. rewrite Hf3. unfold nlen. rewrite Hlenb.
  destruct (Z.ltb_spec (Z.of_N (N.of_nat (length file)) + - (Z.of_N (le_dec (firstn 4 (skipn (length file - 8) file))) + 8)) 0) as [_|H]; [reflexivity | lia].
Qed.

(** ** Every file the constructor accepts has a decodable footer where the
    trailer's length field says it is (the magic itself is not checked) *)
Lemma open_footer_ok_trailer fs file sched fm s1 :
  open_footer fs (mk_src file sched None) = Ok (fm, s1) ->
  (8 <= length file)%nat /\
  (Z.of_N (le_dec (firstn 4 (skipn (length file - 8) file))) + 8 <= Z.of_nat (length file))%Z /\
  exists rest,
    dec_file_meta (skipn (length file - 8 - N.to_nat (le_dec (firstn 4 (skipn (length file - 8) file)))) file) = Some (fm, rest).
Proof.
  unfold open_footer.
  unfold bind at 1. unfold m_seek_end at 1. unfold bind at 1. rewrite op_tick_fresh. cbn [s_file].
  unfold nlen.
  destruct (Z.ltb_spec (Z.of_N (N.of_nat (length file)) + -8) 0) as [_|Hlen0]; [discriminate|].
  assert (Hlen : (8 <= length file)%nat) by lia.
  unfold set_pos. cbn [s_file s_pos s_sched s_fail s_ops].
  unfold bind at 1. unfold m_read_full. unfold bind at 1. unfold op_tick at 1. cbn [s_fail s_file s_pos s_sched s_ops].
  set (s2 := {| s_file := file; s_pos := Z.to_N (Z.of_N (N.of_nat (length file)) + -8); s_sched := sched; s_fail := None; s_ops := 2 |}).
  assert (Hs2 : s_pos s2 = N.of_nat (length file - 8)) by (unfold s2; cbn [s_pos]; lia).
  assert (Hav : avail s2 = skipn (length file - 8) file).
  { unfold avail. rewrite Hs2. unfold s2. cbn [s_file]. f_equal. lia. }
  assert (Hal : (4 <= length (avail s2))%nat) by (rewrite Hav, skipn_length; lia).
  destruct (read_full_loop_ok 4 4 [] s2 (le_n 4) Hal) as (s3 & Hr & Hf3 & _ & Hfl3 & _).
  rewrite Hr. cbn [app].
  assert (Hlenb : firstn 4 (avail s2) = firstn 4 (skipn (length file - 8) file)) by (rewrite Hav; reflexivity).
  unfold s2 in Hf3, Hfl3. cbn [s_file s_fail] in Hf3, Hfl3.
  unfold bind at 1. unfold m_seek_end. unfold bind at 1. unfold op_tick at 1. rewrite Hfl3.
  cbn [s_file]. rewrite Hf3. unfold nlen. rewrite Hlenb.
  set (L := le_dec (firstn 4 (skipn (length file - 8) file))).
  destruct (Z.ltb_spec (Z.of_N (N.of_nat (length file)) + - (Z.of_N L + 8)) 0) as [_|HL]; [discriminate|].
  unfold set_pos. cbn [s_file s_pos s_sched s_fail s_ops].
  unfold bind at 1. unfold m_read_struct. unfold bind at 1. unfold op_tick at 1.
  cbn [s_fail s_file s_pos s_sched s_ops].
  replace (N.to_nat (Z.to_N (Z.of_N (N.of_nat (length file)) + - (Z.of_N L + 8))))
    with (length file - 8 - N.to_nat L)%nat by lia.
  destruct (dec_file_meta (skipn (length file - 8 - N.to_nat L) file)) as [[fm' rest]|] eqn:Hdec; [|discriminate].
  intros Hrun. split; [exact Hlen|]. split; [lia|]. exists rest.
  destruct (forallb _ (fm_row_groups fm')) eqn:Hc1 in Hrun; [|discriminate].
  destruct (forallb _ (fm_row_groups fm')) eqn:Hc2 in Hrun; [|discriminate].
  unfold bind at 1 in Hrun.
  destruct (m_seek_start 4 _) as [[u s4]| |] in Hrun; [|discriminate|discriminate].
  unfold ret in Hrun. injection Hrun as Hfm _. rewrite Hfm. reflexivity.
Qed.

Theorem open_ok_trailer fs file sched :
  o_open_ok (read_all_src decompress fs (mk_src file sched None)) = true ->
  (8 <= length file)%nat /\
  (Z.of_N (le_dec (firstn 4 (skipn (length file - 8) file))) + 8 <= Z.of_nat (length file))%Z /\
  exists fm rest,
    dec_file_meta (skipn (length file - 8 - N.to_nat (le_dec (firstn 4 (skipn (length file - 8) file)))) file) = Some (fm, rest).
Proof.
  intros Hok. unfold read_all_src in Hok.
  destruct (open_footer fs (mk_src file sched None)) as [[fm s1]| |] eqn:Hopen;
    [|discriminate Hok|discriminate Hok].
  destruct (open_footer_ok_trailer fs file sched fm s1 Hopen) as (Hlen & HL & rest & Hdec).
  split; [exact Hlen|]. split; [exact HL|]. exists fm, rest. exact Hdec.
Qed.

End Trunc.

(** ** The unconditional statement is false for any footer-last format *)

Definition id_compress (c : Z) (b : bytes) : bytes := b.
Definition id_decompress (c : Z) (b : bytes) : option bytes := Some b.

Definition w_shape : list field := [([83], Req, TLeaf PString)].      (* struct { S string } *)
Definition w_cfg : config := {| cfg_fields := w_shape; cfg_max := 1000%nat; cfg_codec := 0 |}.
(** the file with no row group, and its trailer: footer, footer length, "PAR1" *)
Definition w_empty : bytes := file_of_batches id_compress w_cfg [].
Definition w_trailer : bytes := skipn 4 w_empty.
(** a valid file with one record whose string value is that trailer *)
Definition w_file : bytes := file_of_batches id_compress w_cfg [[VGroup [VStr w_trailer]]].

Fixpoint starts_with (pat l : bytes) : bool :=
  match pat, l with
  | [], _ => true
  | p :: pat', x :: l' => (p =? x) && starts_with pat' l'
  | _ :: _, [] => false
  end.

Fixpoint find_sub (pat l : bytes) (i : nat) : option nat :=
  if starts_with pat l then Some i
  else match l with [] => None | _ :: l' => find_sub pat l' (S i) end.

Definition w_cut : nat := match find_sub w_trailer w_file 0 with Some i => (i + length w_trailer)%nat | None => 0%nat end.

Theorem truncation_refuted :
  (w_cut < length w_file)%nat /\
  (* the whole file is valid and reads back its one record ... *)
  o_recs (read_all id_decompress w_shape w_file) = [VGroup [VStr w_trailer]] /\
  o_err (read_all id_decompress w_shape w_file) = false /\
  (* ... and its strict prefix of length w_cut is accepted as a complete file with no rows *)
  read_all id_decompress w_shape (firstn w_cut w_file) =
  {| o_open_ok := true; o_rows := 0; o_nexts := 0; o_err := false; o_panic := false; o_recs := [] |}.
Proof.
  split; [apply Nat.ltb_lt; vm_compute; reflexivity|].
  repeat split; vm_compute; reflexivity.
Qed.

Print Assumptions open_short.
Print Assumptions open_bad_length.
Print Assumptions open_ok_trailer.
Print Assumptions truncation_refuted.
