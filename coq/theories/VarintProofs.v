(** * VarintProofs: round trips and agreement of the Go routines with the
    specification ULEB128. *)
From Coq Require Import List NArith ZArith Lia Bool.
From Coq Require Import ZifyN ZifyNat ZifyBool.
From PQ Require Import Bytes Varint.
Import ListNotations.
Local Open Scope N_scope.

(** ** Arithmetic helpers *)

Lemma pos_size_nat_gt p : N.pos p < 2 ^ N.of_nat (Pos.size_nat p).
Proof.
  induction p as [p IH|p IH|]; cbn [Pos.size_nat].
  - rewrite Nat2N.inj_succ, N.pow_succ_r'. lia.
  - rewrite Nat2N.inj_succ, N.pow_succ_r'. lia.
  - cbn. lia.
Qed.

Lemma size_nat_gt n : n < 2 ^ N.of_nat (N.size_nat n).
Proof.
  destruct n as [|p]; [cbn; lia|]. apply pos_size_nat_gt.
Qed.

Lemma pow2_7_succ k : 2 ^ (7 * N.of_nat (S k)) = 128 * 2 ^ (7 * N.of_nat k).
Proof.
  replace (7 * N.of_nat (S k)) with (7 + 7 * N.of_nat k) by lia.
  rewrite N.pow_add_r. reflexivity.
Qed.

Lemma pow2_shift7 s : 2 ^ (s + 7) = 128 * 2 ^ s.
Proof. rewrite N.pow_add_r. change (2 ^ 7) with 128. lia. Qed.

(** fuel [f] is enough for [n] *)
Definition enough (f : nat) (n : N) : Prop := n < 2 ^ (7 * N.of_nat f).

Lemma enough_init n : enough (S (N.size_nat n)) n.
Proof.
  unfold enough. pose proof (size_nat_gt n) as Hn.
  eapply N.lt_le_trans; [exact Hn|].
  apply N.pow_le_mono_r; lia.
Qed.

Lemma enough_step f n : enough (S f) n -> 128 <= n -> exists f', f = S f' /\ enough f (n / 128).
Proof.
  unfold enough. intros He Hn. rewrite pow2_7_succ in He.
  assert (Hd : n / 128 < 2 ^ (7 * N.of_nat f)) by (apply N.div_lt_upper_bound; lia).
  destruct f as [|f'].
  - exfalso. change (2 ^ (7 * N.of_nat 0)) with 1 in Hd. lia.
  - exists f'. split; [reflexivity | exact Hd].
Qed.

Lemma land_disjoint a x s : a < 2 ^ s -> N.land a (x * 2 ^ s) = 0.
Proof.
  intros Ha. apply N.bits_inj. intros i.
  rewrite N.land_spec, N.bits_0, <- N.shiftl_mul_pow2.
  destruct (N.ltb_spec i s) as [Hi|Hi].
  - rewrite N.shiftl_spec_low by exact Hi. apply andb_false_r.
  - rewrite <- (N.mod_small a (2 ^ s)) by exact Ha.
    rewrite N.mod_pow2_bits_high by exact Hi. reflexivity.
Qed.

Lemma lor_disjoint a x s : a < 2 ^ s -> N.lor a (x * 2 ^ s) = a + x * 2 ^ s.
Proof.
  intros Ha. pose proof (land_disjoint a x s Ha) as H.
  rewrite <- (N.lxor_lor _ _ H). symmetry. apply N.add_nocarry_lxor. exact H.
Qed.

Lemma land_127 b : N.land b 127 = b mod 128.
Proof. change 127 with (N.ones 7). rewrite N.land_ones. reflexivity. Qed.

Lemma shiftr_7 v : N.shiftr v 7 = v / 128.
Proof. rewrite N.shiftr_div_pow2. reflexivity. Qed.

Lemma lor_128 m : m < 128 -> N.lor m 128 = m + 128.
Proof.
  intros Hm. change 128 with (1 * 2 ^ 7). apply lor_disjoint. exact Hm.
Qed.

Lemma land_128_low n : n < 128 -> N.land n 128 = 0.
Proof.
  intros Hn. change 128 with (1 * 2 ^ 7). apply land_disjoint. exact Hn.
Qed.

Lemma land_128_high m : m < 128 -> N.land (m + 128) 128 <> 0.
Proof.
  intros Hm. rewrite <- (lor_128 m Hm), N.land_lor_distr_l, N.land_diag.
  intros H. apply N.lor_eq_0_iff in H. destruct H as [_ H]. discriminate H.
Qed.

(** ** The specification encoder *)

Lemma uleb_enc_fuel_small f n : n < 128 -> uleb_enc_fuel (S f) n = [n].
Proof.
  intros Hn. cbn [uleb_enc_fuel].
  destruct (N.ltb_spec n 128) as [_|Hge]; [reflexivity | lia].
Qed.

Lemma uleb_enc_fuel_big f n :
  128 <= n -> uleb_enc_fuel (S f) n = (n mod 128 + 128) :: uleb_enc_fuel f (n / 128).
Proof.
  intros Hn. cbn [uleb_enc_fuel].
  destruct (N.ltb_spec n 128) as [Hlt|_]; [lia | reflexivity].
Qed.

Lemma uleb_enc_small n : n < 128 -> uleb_enc n = [n].
Proof. intros Hn. unfold uleb_enc. apply uleb_enc_fuel_small. exact Hn. Qed.

Lemma uleb_enc_nonempty n : uleb_enc n <> [].
Proof.
  unfold uleb_enc. destruct (N.ltb_spec n 128) as [Hlt|Hge].
  - rewrite uleb_enc_fuel_small by exact Hlt. discriminate.
  - rewrite uleb_enc_fuel_big by exact Hge. discriminate.
Qed.

Lemma uleb_enc_fuel_wf f n : wf_bytes (uleb_enc_fuel f n).
Proof.
  revert n; induction f as [|f IH]; intros n; [apply wf_bytes_nil|].
  destruct (N.ltb_spec n 128) as [Hlt|Hge].
  - rewrite uleb_enc_fuel_small by exact Hlt.
    apply wf_bytes_cons. split; [unfold is_byte; lia | apply wf_bytes_nil].
  - rewrite uleb_enc_fuel_big by exact Hge.
    apply wf_bytes_cons. split; [unfold is_byte; lia | apply IH].
Qed.

Lemma uleb_enc_wf n : wf_bytes (uleb_enc n).
Proof. unfold uleb_enc. apply uleb_enc_fuel_wf. Qed.

Lemma uleb_enc_fuel_length f n k :
  n < 128 * 2 ^ (7 * N.of_nat k) -> (length (uleb_enc_fuel f n) <= S k)%nat.
Proof.
  revert n k; induction f as [|f IH]; intros n k Hn; [cbn [uleb_enc_fuel length]; lia|].
  destruct (N.ltb_spec n 128) as [Hlt|Hge].
  - rewrite uleb_enc_fuel_small by exact Hlt. cbn [length]. lia.
  - rewrite uleb_enc_fuel_big by exact Hge. cbn [length].
    assert (Hd : n / 128 < 2 ^ (7 * N.of_nat k)) by (apply N.div_lt_upper_bound; lia).
    destruct k as [|k'].
    + exfalso. change (2 ^ (7 * N.of_nat 0)) with 1 in Hd. lia.
    + rewrite pow2_7_succ in Hd. specialize (IH (n / 128) k' Hd). lia.
Qed.

(** length bound: one byte per started 7 bits *)
Lemma uleb_enc_length n : (length (uleb_enc n) <= S (N.size_nat n / 7))%nat.
Proof.
  unfold uleb_enc. apply uleb_enc_fuel_length.
  pose proof (size_nat_gt n) as Hn.
  eapply N.lt_le_trans; [exact Hn|].
  change 128 with (2 ^ 7). rewrite <- N.pow_add_r.
  apply N.pow_le_mono_r; lia.
Qed.

(** ** Decoding what the specification encoder wrote *)

Lemma uleb_dec_aux_enc f n rest shift acc :
  enough f n -> f <> O ->
  uleb_dec_aux (uleb_enc_fuel f n ++ rest) shift acc = Some (acc + n * 2 ^ shift, rest).
Proof.
  revert n shift acc; induction f as [|f IH]; intros n shift acc He Hf; [congruence|].
  destruct (N.ltb_spec n 128) as [Hlt|Hge].
  - rewrite uleb_enc_fuel_small by exact Hlt. cbn [app uleb_dec_aux].
    destruct (N.ltb_spec n 128) as [_|Hge]; [|lia].
    rewrite N.mod_small by exact Hlt. reflexivity.
  - rewrite uleb_enc_fuel_big by exact Hge. cbn [app uleb_dec_aux].
    destruct (N.ltb_spec (n mod 128 + 128) 128) as [Hlt|_]; [lia|].
    destruct (enough_step f n He Hge) as [f' [Hf' He']].
    rewrite IH; [| exact He' | lia].
    replace ((n mod 128 + 128) mod 128) with (n mod 128) by lia.
    rewrite pow2_shift7. f_equal. f_equal.
    pose proof (N.div_mod n 128) as Hdm.
    remember (n mod 128) as m eqn:Em. remember (n / 128) as d eqn:Ed.
    rewrite Hdm by lia. ring.
Qed.

Lemma uleb_dec_enc n rest : uleb_dec (uleb_enc n ++ rest) = Some (n, rest).
Proof.
  unfold uleb_dec, uleb_enc.
  rewrite uleb_dec_aux_enc; [| apply enough_init | discriminate].
  rewrite N.pow_0_r. f_equal. f_equal. lia.
Qed.

(** ** rle.go leb128 *)

Lemma mask_hi_eq v : v < 2 ^ 32 -> N.land v 4294967168 = v / 128 * 128.
Proof.
  intros Hv.
  change 4294967168 with (N.ldiff (N.ones 32) (N.ones 7)).
  assert (H : N.land v (N.ldiff (N.ones 32) (N.ones 7)) = N.ldiff (N.land v (N.ones 32)) (N.ones 7)).
  { apply N.bits_inj. intros i.
    rewrite N.land_spec, !N.ldiff_spec, N.land_spec. apply andb_assoc. }
  rewrite H, N.land_ones, N.mod_small by exact Hv.
  rewrite N.ldiff_ones_r, N.shiftl_mul_pow2, N.shiftr_div_pow2. reflexivity.
Qed.

Lemma leb128_go_fuel_spec f v : v < 2 ^ 32 -> leb128_go_fuel f v = uleb_enc_fuel f v.
Proof.
  revert v; induction f as [|f IH]; intros v Hv; [reflexivity|].
  cbn [leb128_go_fuel]. rewrite mask_hi_eq by exact Hv. rewrite land_127, shiftr_7.
  destruct (N.ltb_spec v 128) as [Hlt|Hge].
  - rewrite uleb_enc_fuel_small by exact Hlt.
    destruct (N.eqb_spec (v / 128 * 128) 0) as [_|Hne]; [|lia].
    rewrite N.mod_small by exact Hlt. reflexivity.
  - rewrite uleb_enc_fuel_big by exact Hge.
    destruct (N.eqb_spec (v / 128 * 128) 0) as [He|_]; [lia|].
    rewrite lor_128 by lia. rewrite IH; [reflexivity|].
    apply N.div_lt_upper_bound; lia.
Qed.

(** the encoder-side Go routine agrees with the specification below 2^32 *)
Lemma leb128_go_spec v : v < 2 ^ 32 -> leb128_go v = uleb_enc v.
Proof. intros Hv. unfold leb128_go, uleb_enc. apply leb128_go_fuel_spec. exact Hv. Qed.

(** ** rle.go readLEB128 *)

Lemma read_leb128_go_enc f n rest shift acc :
  enough f n -> f <> O ->
  acc < 2 ^ shift -> acc + n * 2 ^ shift < 2 ^ 64 ->
  read_leb128_go (uleb_enc_fuel f n ++ rest) shift acc = Some (acc + n * 2 ^ shift, rest).
Proof.
  revert n shift acc; induction f as [|f IH]; intros n shift acc He Hf Hacc Hv; [congruence|].
  destruct (N.ltb_spec n 128) as [Hlt|Hge].
  - rewrite uleb_enc_fuel_small by exact Hlt. cbn [app read_leb128_go].
    rewrite land_128_low by exact Hlt. cbn [N.eqb].
    rewrite land_127, N.shiftl_mul_pow2, (N.mod_small n 128) by exact Hlt.
    rewrite N.mod_small by lia.
    rewrite lor_disjoint by exact Hacc. reflexivity.
  - rewrite uleb_enc_fuel_big by exact Hge. cbn [app read_leb128_go].
    assert (Hm : n mod 128 < 128) by lia.
    destruct (N.eqb_spec (N.land (n mod 128 + 128) 128) 0) as [H0|_];
      [exfalso; exact (land_128_high _ Hm H0)|].
    rewrite land_127, N.shiftl_mul_pow2.
    replace ((n mod 128 + 128) mod 128) with (n mod 128) by lia.
    destruct (enough_step f n He Hge) as [f' [Hf' He']].
    pose proof (N.div_mod n 128) as Hdm.
    assert (Hp : 0 < 2 ^ shift) by (apply N.neq_0_lt_0, N.pow_nonzero; lia).
    remember (2 ^ shift) as p eqn:Ep.
    remember (n mod 128) as m eqn:Em.
    remember (n / 128) as d eqn:Ed.
    assert (Hn : n * p = m * p + d * (128 * p)) by (rewrite Hdm by lia; ring).
    assert (Hmp : m * p <= 127 * p) by (apply N.mul_le_mono_r; lia).
    rewrite N.mod_small by lia.
    rewrite Ep, lor_disjoint by (rewrite <- Ep; exact Hacc). rewrite <- Ep.
    rewrite IH.
    + rewrite pow2_shift7, <- Ep. f_equal. f_equal. lia.
    + exact He'.
    + lia.
    + rewrite pow2_shift7, <- Ep. lia.
    + rewrite pow2_shift7, <- Ep. lia.
Qed.

(** the decoder-side Go routine reads every specification varint below 2^64 *)
Lemma read_leb128_go_spec n rest :
  n < 2 ^ 64 -> read_leb128_go (uleb_enc n ++ rest) 0 0 = Some (n, rest).
Proof.
  intros Hn. unfold uleb_enc.
  rewrite read_leb128_go_enc.
  - rewrite N.pow_0_r. f_equal. f_equal. lia.
  - apply enough_init.
  - discriminate.
  - rewrite N.pow_0_r. lia.
  - rewrite N.pow_0_r. lia.
Qed.

(** ** Zig-zag *)

Lemma even_true_half n : N.even n = true -> n = 2 * (n / 2).
Proof.
  intros H. apply N.even_spec in H. destruct H as [k Hk]. lia.
Qed.

Lemma even_false_half n : N.even n = false -> n = 2 * (n / 2) + 1.
Proof.
  intros H. assert (Ho : N.odd n = true) by (rewrite <- N.negb_even, H; reflexivity).
  apply N.odd_spec in Ho. destruct Ho as [k Hk]. lia.
Qed.

Lemma unzigzag_zigzag z : unzigzag (zigzag z) = z.
Proof.
  unfold unzigzag, zigzag.
  destruct (Z.ltb_spec z 0) as [Hneg|Hpos].
  - destruct (N.even (Z.to_N (-2 * z - 1))) eqn:E.
    + apply even_true_half in E. lia.
    + apply even_false_half in E. lia.
  - destruct (N.even (Z.to_N (2 * z))) eqn:E.
    + apply even_true_half in E. lia.
    + apply even_false_half in E. lia.
Qed.

Lemma zigzag_unzigzag n : zigzag (unzigzag n) = n.
Proof.
  unfold unzigzag, zigzag.
  destruct (N.even n) eqn:E.
  - apply even_true_half in E.
    destruct (Z.ltb_spec (Z.of_N (n / 2)) 0) as [Hneg|Hpos]; lia.
  - apply even_false_half in E.
    destruct (Z.ltb_spec (- Z.of_N (n / 2) - 1) 0) as [Hneg|Hpos]; lia.
Qed.

Print Assumptions uleb_dec_enc.
Print Assumptions leb128_go_spec.
Print Assumptions read_leb128_go_spec.
Print Assumptions uleb_enc_length.
Print Assumptions unzigzag_zigzag.
Print Assumptions zigzag_unzigzag.
