(** * ReaderProofs2 (part 2 of ReaderProofs): one row group (layer 3) and the
    whole file (layer 4): the reader model, run on the file the writer model
    produces, returns exactly the written records (property C01). *)
From Coq Require Import List NArith ZArith Lia Bool Arith PeanoNat.
From Coq Require Import ZifyN ZifyNat ZifyBool.
From PQ Require Import Bytes Schema Dremel DremelProofs BitpackProofs Rle RleProofs Plain PlainProofs
     Stats StatsProofs MetaTypes Thrift Meta MetaProofs Writer Io Reader ReaderProofs.
Import ListNotations.
Local Open Scope N_scope.

Ltac Zify.zify_post_hook ::= Z.div_mod_to_equations.

(** ** The page chain *)

Lemma chunk_fuel_spec {A} n : (1 <= n)%nat -> forall fuel (l : list A),
  (length l <= fuel)%nat ->
  concat (chunk_fuel fuel n l) = l /\ Forall (fun x => x <> []) (chunk_fuel fuel n l).
Proof.
  intros Hn. induction fuel as [|f IH]; intros l Hl.
  - destruct l; [split; [reflexivity|constructor] | cbn [length] in Hl; lia].
  - destruct l as [|x l]; [split; [reflexivity|constructor]|].
    cbn [chunk_fuel]. destruct (IH (skipn n (x :: l))) as [Hc Hne].
    + rewrite skipn_length. cbn [length] in *. lia.
    + split.
      * cbn [concat]. rewrite Hc. apply firstn_skipn.
      * constructor; [|exact Hne]. destruct n; [lia|]. cbn [firstn]. discriminate.
Qed.

Lemma concat_chunk {A} n (l : list A) : (1 <= n)%nat -> concat (chunk n l) = l.
Proof. intros Hn. apply (chunk_fuel_spec n Hn). lia. Qed.

Lemma chunk_nonempty {A} n (l : list A) : (1 <= n)%nat -> Forall (fun x => x <> []) (chunk n l).
Proof. intros Hn. apply (chunk_fuel_spec n Hn). lia. Qed.

Lemma chunk_Forall {A} (P : A -> Prop) n (l : list A) :
  (1 <= n)%nat -> Forall P l -> Forall (Forall P) (chunk n l).
Proof. intros Hn H. apply Forall_concat. rewrite concat_chunk by exact Hn. exact H. Qed.

(** ** Leaf values of a shredded record are typed by their column *)

Definition val_ok (c : col) (es : list entry) : Prop := Forall (leaf_ok (c_prim c)) (entry_vals es).

Lemma val_ok_app c a b : val_ok c a -> val_ok c b -> val_ok c (a ++ b).
Proof. unfold val_ok. intros Ha Hb. rewrite entry_vals_app. apply Forall_app. split; assumption. Qed.

Lemma val_ok_zipcat cols a b :
  Forall2 val_ok cols a -> Forall2 val_ok cols b -> Forall2 val_ok cols (zipcat a b).
Proof.
  intros Ha. revert b. induction Ha as [|c x cols a Hx Ha IH]; intros b Hb;
    inversion Hb as [|c' y cols' b' Hy Hb' E1 E2]; subst; cbn [zipcat]; constructor.
  - apply val_ok_app; assumption.
  - apply IH. exact Hb'.
Qed.

Lemma val_ok_zipcat_list cols css : forall c0,
  Forall2 val_ok cols c0 -> Forall (Forall2 val_ok cols) css ->
  Forall2 val_ok cols (zipcat_list c0 css).
Proof.
  induction css as [|c1 css IH]; intros c0 H0 Hcss; cbn [zipcat_list]; [exact H0|].
  destruct (proj1 (Forall_cons_iff _ _ _) Hcss) as [H1 Hrest].
  apply val_ok_zipcat; [exact H0|]. apply IH; assumption.
Qed.

Lemma null_cols_vals t : forall pth rs r d, Forall2 val_ok (columns_ty pth rs t) (null_cols t r d).
Proof.
  induction t as [p|fs IH] using ty_ind'; intros pth rs r d.
  - rewrite columns_ty_leaf, null_cols_leaf. constructor; [|constructor]. constructor.
  - induction IH as [|[[n rp] t'] fs Ht' Hfs IHfs]; [constructor|].
    rewrite columns_ty_cons, null_cols_cons. apply Forall2_app; [|exact IHfs].
    cbn [snd] in Ht'. apply Ht'.
Qed.

Definition vals_stmt (t : ty) : Prop :=
  forall pth rs v r d k, has_tyb t v = true -> Forall2 val_ok (columns_ty pth rs t) (shred_ty t v r d k).

Lemma shred_field_vals rp t' v' pth rs r d k :
  vals_stmt t' -> has_field rp t' v' = true ->
  Forall2 val_ok (columns_ty pth rs t') (shred_field rp t' v' r d k).
Proof.
  intros IH H.
  destruct (shred_field_case rp t' v' r d k H) as [v Hv| |v Hnn Hv| |x xs Hx Hxs].
  - apply IH. exact Hv.
  - apply null_cols_vals.
  - apply IH. exact Hv.
  - apply null_cols_vals.
  - apply val_ok_zipcat_list.
    + apply IH. exact Hx.
    + apply Forall_map. eapply Forall_impl; [|exact Hxs]. cbv beta. intros y Hy. apply IH. exact Hy.
Qed.

Lemma shred_ty_vals t : vals_stmt t.
Proof.
  induction t as [p|fs IH] using ty_ind'; intros pth rs v r d k Hv.
  - rewrite columns_ty_leaf, shred_ty_leaf. constructor; [|constructor].
    unfold val_ok. cbn [c_prim mk_entry entry_vals flat_map e_val app]. constructor; [exact Hv|constructor].
  - apply has_tyb_group_inv in Hv. destruct Hv as (vs & -> & Hvs).
    rewrite shred_ty_group. revert vs Hvs.
    induction IH as [|[[n rp] t'] fs Ht' Hfs IHfs]; intros [|v' vs] Hvs; try discriminate; [constructor|].
    cbn [has_fields] in Hvs. apply andb_true_iff in Hvs. destruct Hvs as [Hv' Hvs].
    rewrite columns_ty_cons. cbn [shred_fields]. apply Forall2_app; [|apply IHfs; exact Hvs].
    apply shred_field_vals; assumption.
Qed.

Theorem values_typed fs v i c es :
  has_tyb (TGroup fs) v = true ->
  nth_error (columns fs) i = Some c ->
  nth_error (shred_record fs v) i = Some es ->
  Forall (leaf_ok (c_prim c)) (entry_vals es).
Proof.
  intros Hv Hc Hes.
  assert (H : Forall2 val_ok (columns fs) (shred_record fs v)).
  { unfold columns, shred_record. apply shred_ty_vals. exact Hv. }
  exact (Forall2_nth_error _ _ _ _ _ _ H Hc Hes).
Qed.

(** ** The entries of one column of a list of records *)

Lemma columns_length fs : length (columns fs) = leaf_count (TGroup fs).
Proof. unfold columns. apply columns_ty_length. Qed.

Lemma shred_record_length fs v :
  has_tyb (TGroup fs) v = true -> length (shred_record fs v) = leaf_count (TGroup fs).
Proof. intros Hv. apply shred_ty_length. exact Hv. Qed.

Lemma column_entries_cons fs i r recs :
  column_entries fs i (r :: recs) = nth i (shred_record fs r) [] ++ column_entries fs i recs.
Proof. reflexivity. Qed.

Lemma column_entries_app fs i a b :
  column_entries fs i (a ++ b) = column_entries fs i a ++ column_entries fs i b.
Proof. unfold column_entries. apply flat_map_app. Qed.

Lemma column_entries_concat fs i l :
  column_entries fs i (concat l) = concat (map (column_entries fs i) l).
Proof.
  induction l as [|x l IH]; [reflexivity|]. cbn [concat map]. rewrite column_entries_app, IH. reflexivity.
Qed.

Lemma nth_nth_error {A} i (l : list A) d x : nth_error l i = Some x -> nth i l d = x.
Proof. intros H. apply nth_error_nth. exact H. Qed.

Lemma nth_error_lt {A} i (l : list A) : (i < length l)%nat -> exists x, nth_error l i = Some x.
Proof.
  intros H. destruct (nth_error l i) as [x|] eqn:E; [exists x; reflexivity|].
  apply nth_error_None in E. lia.
Qed.

Section Column.

Variables (fs : list field) (i : nat) (c : col).
Hypothesis Hc : nth_error (columns fs) i = Some c.

Lemma column_of_record v :
  has_tyb (TGroup fs) v = true ->
  exists es, nth_error (shred_record fs v) i = Some es /\ nth i (shred_record fs v) [] = es.
Proof.
  intros Hv. destruct (nth_error_lt i (shred_record fs v)) as (es & Hes).
  - rewrite (shred_record_length fs v Hv), <- columns_length. apply nth_error_Some. congruence.
  - exists es. split; [exact Hes | apply nth_nth_error; exact Hes].
Qed.

Lemma column_entries_props recs :
  Forall (fun v => has_tyb (TGroup fs) v = true) recs ->
  lev_ok c (column_entries fs i recs) /\ val_ok c (column_entries fs i recs) /\
  (recs <> [] -> column_entries fs i recs <> []).
Proof.
  induction 1 as [|v recs Hv Hrecs IH].
  - split; [constructor|]. split; [constructor|]. congruence.
  - destruct IH as (IH1 & IH2 & _). destruct (column_of_record v Hv) as (es & Hes & Hnth).
    rewrite column_entries_cons, Hnth. split; [|split].
    + apply Forall_app. split; [exact (levels_bounded fs v i c es Hv Hc Hes) | exact IH1].
    + apply val_ok_app; [exact (values_typed fs v i c es Hv Hc Hes) | exact IH2].
    + intros _. pose proof (shred_ty_nonempty (TGroup fs) v 0 0 0 Hv) as Hok.
      fold (shred_record fs v) in Hok. rewrite Forall_forall in Hok.
      specialize (Hok es (nth_error_In _ _ Hes)). destruct es; [destruct Hok | discriminate].
Qed.

End Column.

(** ** [shred_records] is the per-column concatenation the writer uses *)

Lemma nth_zipcat i : forall a b,
  (i < length a)%nat -> (i < length b)%nat -> nth i (zipcat a b) [] = nth i a [] ++ nth i b [].
Proof.
  induction i as [|i IH]; intros [|x a] [|y b] Ha Hb; cbn [length] in *; try lia; cbn [zipcat nth].
  - reflexivity.
  - apply IH; lia.
Qed.

Lemma nth_zipcat_list n i css : forall c0,
  Forall (fun c => length c = n) (c0 :: css) -> (i < n)%nat ->
  nth i (zipcat_list c0 css) [] = nth i c0 [] ++ flat_map (fun cs => nth i cs []) css.
Proof.
  induction css as [|c1 css IH]; intros c0 Hlen Hi; cbn [zipcat_list flat_map].
  - rewrite app_nil_r. reflexivity.
  - inversion Hlen as [|x l H0 Hrest]; subst.
    rewrite nth_zipcat; [|lia|rewrite (zipcat_list_length (length c0) css c1 Hrest); lia].
    rewrite (IH c1 Hrest Hi). reflexivity.
Qed.

Lemma shred_records_columns fs recs :
  recs <> [] -> Forall (fun v => has_tyb (TGroup fs) v = true) recs ->
  shred_records fs recs = map (fun i => column_entries fs i recs) (seq 0 (leaf_count (TGroup fs))).
Proof.
  intros Hne Hty. destruct Hty as [|v vs Hv Hvs]; [congruence|].
  rewrite shred_records_cons by exact Hv.
  assert (Hlen : Forall (fun c => length c = leaf_count (TGroup fs))
                        (shred_record fs v :: map (shred_record fs) vs)).
  { constructor; [apply shred_record_length; exact Hv|]. apply Forall_map.
    eapply Forall_impl; [|exact Hvs]. cbv beta. intros y Hy. apply shred_record_length. exact Hy. }
  apply (nth_ext _ _ [] (column_entries fs 0 (v :: vs))).
  - rewrite map_length, seq_length. apply (zipcat_list_length _ _ _ Hlen).
  - intros i Hi. rewrite (zipcat_list_length _ _ _ Hlen) in Hi.
    rewrite (nth_zipcat_list _ i _ _ Hlen Hi).
    rewrite (map_nth (fun i => column_entries fs i (v :: vs)) (seq 0 (leaf_count (TGroup fs))) 0%nat i).
    rewrite seq_nth by exact Hi. cbn [Nat.add]. rewrite column_entries_cons. f_equal.
    unfold column_entries. rewrite !flat_map_concat_map, map_map. reflexivity.
Qed.

(** ** [find_col] and [set_nth] *)

Lemma find_col_nth cols : forall i c k,
  NoDup (map c_path cols) -> nth_error cols i = Some c ->
  find_col cols (c_path c) k = Some ((k + i)%nat, c).
Proof.
  induction cols as [|c0 cols IH]; intros i c k Hnd Hc; [destruct i; discriminate|].
  cbn [map] in Hnd. inversion Hnd as [|p ps Hnotin Hnd']; subst.
  cbn [find_col]. unfold Reader.path_eqb. destruct i as [|i]; cbn [nth_error] in Hc.
  - inversion Hc; subst c0.
    destruct (list_eq_dec (list_eq_dec N.eq_dec) (c_path c) (c_path c)); [|congruence].
    f_equal. f_equal. lia.
  - destruct (list_eq_dec (list_eq_dec N.eq_dec) (c_path c0) (c_path c)) as [E|E].
    + exfalso. apply Hnotin. rewrite E. apply in_map. exact (nth_error_In _ _ Hc).
    + rewrite (IH i c (S k) Hnd' Hc). f_equal. f_equal. lia.
Qed.

Lemma set_nth_app {A} (pre : list A) x y post :
  set_nth (length pre) x (pre ++ y :: post) = pre ++ x :: post.
Proof. induction pre as [|z pre IH]; cbn [length app set_nth]; [reflexivity | rewrite IH; reflexivity]. Qed.

Lemma index_from_cons {A} k (x : A) l : index_from k (x :: l) = (k, x) :: index_from (S k) l.
Proof. reflexivity. Qed.

Lemma fold_set_nth {A B} (g : nat -> B) (cs : list A) : forall k pre junk,
  length pre = k -> length junk = length cs ->
  fold_left (fun a (ic : nat * A) => set_nth (fst ic) (g (fst ic)) a) (index_from k cs) (pre ++ junk) =
  pre ++ map g (seq k (length cs)).
Proof.
  induction cs as [|c cs IH]; intros k pre junk Hpre Hjunk.
  - destruct junk; [reflexivity | discriminate].
  - destruct junk as [|j junk]; [discriminate|]. cbn [length] in Hjunk.
    subst k. rewrite index_from_cons. cbn [fold_left fst length seq map].
    rewrite set_nth_app. change (pre ++ g (length pre) :: junk) with (pre ++ [g (length pre)] ++ junk).
    rewrite app_assoc.
    rewrite IH; [|rewrite app_length; cbn [length]; lia|lia]. rewrite <- app_assoc. reflexivity.
Qed.

Lemma index_from_fst {A} (l : list A) : forall k, map fst (index_from k l) = seq k (length l).
Proof. induction l as [|x l IH]; intros k; [reflexivity|]. cbn [index_from map length seq fst]. rewrite IH. reflexivity. Qed.

Lemma index_from_nth_error {A} (l : list A) : forall k i x,
  In (i, x) (index_from k l) -> (k <= i)%nat /\ nth_error l (i - k) = Some x.
Proof.
  induction l as [|y l IH]; intros k i x Hin; [destruct Hin|].
  cbn [index_from] in Hin. destruct Hin as [E|Hin].
  - inversion E; subst. rewrite Nat.sub_diag. split; [lia|reflexivity].
  - destruct (IH (S k) i x Hin) as [Hle Hn]. split; [lia|].
    replace (i - k)%nat with (S (i - S k)) by lia. exact Hn.
Qed.

Lemma sumN_map_nlen {A} (f : A -> bytes) l : sumN (map (fun x => nlen (f x)) l) = nlen (concat (map f l)).
Proof.
  induction l as [|x l IH]; [reflexivity|]. cbn [map sumN concat]. rewrite nlen_app, IH. reflexivity.
Qed.

Lemma sumN_map_nlen' {A} (l : list (list A)) : sumN (map (@nlen A) l) = nlen (concat l).
Proof.
  induction l as [|x l IH]; [reflexivity|]. cbn [map sumN concat]. rewrite nlen_app, IH. reflexivity.
Qed.

Section WithCodec.

Variable compress : Z -> bytes -> bytes.
Variable decompress : Z -> bytes -> option bytes.
Hypothesis Hcodec : forall c x, codec_ok c -> decompress c (compress c x) = Some x.
Hypothesis Hident : forall x, compress CODEC_UNCOMPRESSED x = x.

(** ** Layer 3: one row group *)

(** the entries of the pages of column [i] *)
Definition col_ess (cfg : config) (i : nat) (recs : list value) : list (list entry) :=
  map (column_entries (cfg_fields cfg) i) (chunk (cfg_max cfg) recs).

Lemma column_pages_eq cfg i c recs :
  column_pages compress cfg i c recs = map (make_page compress (cfg_codec cfg) c) (col_ess cfg i recs).
Proof. unfold column_pages, col_ess. rewrite map_map. reflexivity. Qed.

Lemma concat_col_ess cfg i recs :
  (1 <= cfg_max cfg)%nat -> concat (col_ess cfg i recs) = column_entries (cfg_fields cfg) i recs.
Proof. intros Hmax. unfold col_ess. rewrite <- column_entries_concat, concat_chunk by exact Hmax. reflexivity. Qed.

(** sizes that must fit the int32 fields of a page header *)
Definition page_sizes_ok (codec : Z) (c : col) (es : list entry) : Prop :=
  nlen es + 8 <= 2 ^ 31 /\ nlen (page_payload c es) < 2 ^ 31 /\
  nlen (compress codec (page_payload c es)) < 2 ^ 31.

Definition cfg_ok (cfg : config) : Prop :=
  (1 <= cfg_max cfg)%nat /\ codec_ok (cfg_codec cfg) /\
  ty_okb (TGroup (cfg_fields cfg)) = true /\
  NoDup (map c_path (columns (cfg_fields cfg))) /\
  Forall (fun c => max_def c <= 15 /\ max_rep c <= 15) (columns (cfg_fields cfg)).

Definition batch_ok (cfg : config) (recs : list value) : Prop :=
  recs <> [] /\ Forall (fun v => has_tyb (TGroup (cfg_fields cfg)) v = true) recs /\
  forall i c, nth_error (columns (cfg_fields cfg)) i = Some c ->
              Forall (page_sizes_ok (cfg_codec cfg) c) (col_ess cfg i recs).

Lemma col_pages_pre cfg recs i c :
  cfg_ok cfg -> batch_ok cfg recs -> nth_error (columns (cfg_fields cfg)) i = Some c ->
  Forall (page_pre compress (cfg_codec cfg) c) (col_ess cfg i recs).
Proof.
  intros (Hmax & Hcod & _ & _ & Hdepth) (Hne & Hty & Hsz) Hc.
  specialize (Hsz i c Hc). rewrite Forall_forall in Hsz, Hdepth.
  destruct (Hdepth c (nth_error_In _ _ Hc)) as [Hd Hr].
  apply Forall_forall. intros es Hes. destruct (Hsz es Hes) as (Hs1 & Hs2 & Hs3).
  unfold col_ess in Hes. apply in_map_iff in Hes. destruct Hes as (pg & <- & Hpg).
  pose proof (chunk_nonempty (cfg_max cfg) recs Hmax) as Hcne.
  pose proof (chunk_Forall _ (cfg_max cfg) recs Hmax Hty) as Hcty.
  rewrite Forall_forall in Hcne, Hcty.
  destruct (column_entries_props (cfg_fields cfg) i c Hc pg (Hcty pg Hpg)) as (Hlev & Hval & Hnon).
  constructor; auto.
Qed.

(** the bytes of one row group *)
Definition batch_bytes (cfg : config) (recs : list value) : bytes :=
  concat (fst (write_batch compress cfg recs)).

Definition col_bytes (cfg : config) (recs : list value) (ic : nat * col) : bytes :=
  chunk_bytes compress (cfg_codec cfg) (snd ic) (col_ess cfg (fst ic) recs).

Lemma concat_page_writes pages :
  concat (flat_map (fun p => [pg_header_bytes p; pg_body p]) pages) = concat (map page_bytes pages).
Proof.
  induction pages as [|p pages IH]; [reflexivity|].
  cbn [flat_map map concat app]. rewrite IH. unfold page_bytes. rewrite <- app_assoc. reflexivity.
Qed.

Lemma batch_bytes_cols cfg recs (ics : list (nat * col)) :
  concat (flat_map (fun '(c, pages) => flat_map (fun p => [pg_header_bytes p; pg_body p]) pages)
                   (map (fun '(i, c) => (c, column_pages compress cfg i c recs)) ics)) =
  concat (map (col_bytes cfg recs) ics).
Proof.
  induction ics as [|[i c] ics IH]; [reflexivity|].
  cbn [map flat_map concat]. rewrite concat_app, IH, concat_page_writes, column_pages_eq, map_map.
  reflexivity.
Qed.

Lemma batch_bytes_eq cfg recs :
  batch_bytes cfg recs = concat (map (col_bytes cfg recs) (index_from 0 (columns (cfg_fields cfg)))).
Proof. unfold batch_bytes, write_batch. cbn [fst]. apply batch_bytes_cols. Qed.

(** what the reader needs from the footer entry of one chunk *)
Definition chunk_cc_ok (cfg : config) (recs : list value) (ic : nat * col) (cc : column_chunk) : Prop :=
  exists cm, cc_meta cc = Some cm /\ cm_path cm = c_path (snd ic) /\ cm_codec cm = cfg_codec cfg /\
             cm_num_values cm = Z.of_nat (length (concat (col_ess cfg (fst ic) recs))) /\
             cm_total_compressed cm = Z.of_nat (length (col_bytes cfg recs ic)).

Lemma chunk_of_pages_counts cfg recs i c :
  ca_num_values (chunk_of_pages c (column_pages compress cfg i c recs)) = nlen (concat (col_ess cfg i recs)) /\
  ca_compressed (chunk_of_pages c (column_pages compress cfg i c recs)) = nlen (col_bytes cfg recs (i, c)).
Proof.
  rewrite column_pages_eq. unfold chunk_of_pages. cbn [ca_num_values ca_compressed]. split.
  - rewrite map_map. cbn [make_page pg_count]. apply sumN_map_nlen'.
  - rewrite map_map. unfold col_bytes, chunk_bytes. cbn [fst snd]. rewrite <- sumN_map_nlen.
    f_equal. apply map_ext. intros es. unfold page_bytes. rewrite nlen_app. reflexivity.
Qed.

Lemma chunks_meta_rel cfg recs (ics : list (nat * col)) : forall pos,
  Forall2 (chunk_cc_ok cfg recs) ics
    (fst (chunks_meta (cfg_codec cfg) pos
            (map (fun '(c, pages) => chunk_of_pages c pages)
                 (map (fun '(i, c) => (c, column_pages compress cfg i c recs)) ics)))).
Proof.
  induction ics as [|[i c] ics IH]; intros pos; [constructor|].
  cbn [map chunks_meta].
  match goal with |- context [chunks_meta ?a ?b ?l] => specialize (IH b); destruct (chunks_meta a b l) as [r p'] end.
  cbn [fst] in IH |- *. constructor; [|exact IH].
  destruct (chunk_of_pages_counts cfg recs i c) as [Hnv Htc].
  eexists. split; [reflexivity|]. cbn [chunk_meta cc_meta cm_path cm_codec cm_num_values cm_total_compressed
                                       chunk_of_pages ca_col fst snd].
  repeat split.
  - change (ca_num_values _) with (ca_num_values (chunk_of_pages c (column_pages compress cfg i c recs))).
    rewrite Hnv. unfold nlen. lia.
  - change (ca_compressed _) with (ca_compressed (chunk_of_pages c (column_pages compress cfg i c recs))).
    rewrite Htc. unfold nlen. lia.
Qed.

Lemma read_chunks_ok cfg recs cols : forall ics ccs acc s rest,
  Forall2 (chunk_cc_ok cfg recs) ics ccs ->
  Forall (fun ic => find_col cols (c_path (snd ic)) 0 = Some ic /\
                    Forall (page_pre compress (cfg_codec cfg) (snd ic)) (col_ess cfg (fst ic) recs)) ics ->
  s_fail s = None ->
  rem s = concat (map (col_bytes cfg recs) ics) ++ rest ->
  exists s',
    read_chunks decompress cols ccs acc s =
    Ok (fold_left (fun a (ic : nat * col) => set_nth (fst ic) (concat (col_ess cfg (fst ic) recs)) a) ics acc, s') /\
    adv s (length (concat (map (col_bytes cfg recs) ics))) s'.
Proof.
  induction ics as [|ic ics IH]; intros ccs acc s rest Hrel Hall Hfail Hrem;
    inversion Hrel as [|ic' cc ics' ccs' Hcc Hrel' E1 E2]; subst.
  - exists s. split; [reflexivity | apply adv_refl; exact Hfail].
  - inversion Hall as [|ic' ics' [Hfind Hpre] Hall']; subst.
    destruct Hcc as (cm & Hmeta & Hpath & Hcod & Hnv & Htc).
    cbn [map concat] in Hrem |- *. rewrite <- app_assoc in Hrem.
    cbn [read_chunks]. rewrite Hmeta, Hpath, Hfind. destruct ic as [i c]. cbn [fst snd] in *.
    destruct (read_chunk_ok compress decompress Hcodec Hident (cfg_codec cfg) c (col_ess cfg i recs) cm s _
                Hpre Hfail Hrem Hcod Hnv Htc) as (s1 & Hrd & Hadv1).
    rewrite (bind_ok _ _ _ _ _ Hrd).
    destruct (IH ccs' (set_nth i (concat (col_ess cfg i recs)) acc) s1 rest Hrel' Hall'
                 (adv_fail _ _ _ Hadv1) (rem_adv_app _ _ _ _ Hrem Hadv1)) as (s2 & Hrun & Hadv2).
    exists s2. split; [exact Hrun|]. rewrite app_length. exact (adv_trans _ _ _ _ _ Hadv1 Hadv2).
Qed.

(** a footer row group describes the batch [recs] *)
Definition rg_matches (cfg : config) (recs : list value) (rg : row_group) : Prop :=
  (exists pos, rg_columns rg =
               fst (chunks_meta (cfg_codec cfg) pos (ra_chunks (snd (write_batch compress cfg recs))))) /\
  rg_num_rows rg = Z.of_nat (length recs).

Theorem read_row_group_ok cfg recs rg s rest :
  cfg_ok cfg -> batch_ok cfg recs -> rg_matches cfg recs rg ->
  s_fail s = None -> rem s = batch_bytes cfg recs ++ rest ->
  exists s', read_row_group decompress (cfg_fields cfg) rg s = Ok (recs, s') /\
             adv s (length (batch_bytes cfg recs)) s'.
Proof.
  intros Hcfg Hb [[pos Hrg] _] Hfail Hrem.
  pose proof Hcfg as (Hmax & Hcod & Htyok & Hnd & Hdepth). pose proof Hb as (Hne & Hty & Hsz).
  set (fs := cfg_fields cfg) in *. set (cols := columns fs) in *.
  rewrite batch_bytes_eq in Hrem |- *. fold fs cols in Hrem |- *.
  unfold read_row_group. cbv zeta. fold cols. rewrite Hrg.
  unfold write_batch. cbv zeta. cbn [snd ra_chunks]. fold fs cols.
  pose proof (chunks_meta_rel cfg recs (index_from 0 cols) pos) as Hrel.
  destruct (read_chunks_ok cfg recs cols (index_from 0 cols) _
              (repeat [] (length cols)) s rest Hrel) as (s' & Hrun & Hadv).
  - apply Forall_forall. intros [i c] Hin. cbn [fst snd].
    destruct (index_from_nth_error cols 0 i c Hin) as [_ Hnth]. rewrite Nat.sub_0_r in Hnth. split.
    + rewrite (find_col_nth cols i c 0 Hnd Hnth). reflexivity.
    + apply col_pages_pre; assumption.
  - exact Hfail.
  - exact Hrem.
  - rewrite (bind_ok _ _ _ _ _ Hrun). unfold ret. exists s'. split; [|exact Hadv]. f_equal. f_equal.
    pose proof (fold_set_nth (fun i => concat (col_ess cfg i recs)) cols 0 [] (repeat [] (length cols))
                  eq_refl (repeat_length _ _)) as Hfold.
    cbn [app] in Hfold. rewrite Hfold. replace (map (fun i => concat (col_ess cfg i recs)) (seq 0 (length cols)))
      with (shred_records fs recs).
    + rewrite (assemble_shred_records fs recs Htyok Hty). reflexivity.
    + rewrite (shred_records_columns fs recs Hne Hty). unfold cols. rewrite columns_length.
      apply map_ext. intros i. symmetry. apply concat_col_ess. exact Hmax.
Qed.

(** ** Layer 4: the whole file *)

Definition batch_rgs (cfg : config) (bs : list (list value)) : list rg_acc :=
  map snd (map (write_batch compress cfg) bs).

Definition footer (cfg : config) (bs : list (list value)) : file_meta := footer_meta cfg (batch_rgs cfg bs).

Definition data_bytes (cfg : config) (bs : list (list value)) : bytes := concat (map (batch_bytes cfg) bs).

Definition footer_len_bytes (cfg : config) (bs : list (list value)) : bytes :=
  le_enc 4 (nlen (enc_file_meta (footer cfg bs)) mod 2 ^ 32).

Lemma file_layout cfg bs :
  file_of_batches compress cfg bs =
  magic ++ data_bytes cfg bs ++ enc_file_meta (footer cfg bs) ++ footer_len_bytes cfg bs ++ magic.
Proof.
  unfold file_of_batches, close_writes, data_bytes, footer_len_bytes, footer, batch_rgs, batch_bytes.
  cbv zeta. cbn [concat]. rewrite app_nil_r, map_map. reflexivity.
Qed.

(** the footer is in the thrift codec's domain and its length fits the 4-byte trailer *)
Definition footer_ok (cfg : config) (bs : list (list value)) : Prop :=
  file_meta_ok (footer cfg bs) = true /\ nlen (enc_file_meta (footer cfg bs)) < 2 ^ 32.

Lemma Forall2_In_r {A B} (R : A -> B -> Prop) l l' y :
  Forall2 R l l' -> In y l' -> exists x, In x l /\ R x y.
Proof.
  induction 1 as [|a b l l' Hab Hll IH]; intros Hin; [destruct Hin|].
  destruct Hin as [->|Hin].
  - exists a. split; [left; reflexivity | exact Hab].
  - destruct (IH Hin) as (x & Hx & Hr). exists x. split; [right; exact Hx | exact Hr].
Qed.

Lemma rg_matches_rel cfg recs rg :
  rg_matches cfg recs rg ->
  Forall2 (chunk_cc_ok cfg recs) (index_from 0 (columns (cfg_fields cfg))) (rg_columns rg).
Proof.
  intros [[pos Hrg] _]. rewrite Hrg. unfold write_batch. cbv zeta. cbn [snd ra_chunks].
  apply chunks_meta_rel.
Qed.

Lemma rg_checks cfg recs rg :
  NoDup (map c_path (columns (cfg_fields cfg))) -> rg_matches cfg recs rg ->
  forallb (fun cc => match cc_meta cc with
                     | Some cm => match find_col (columns (cfg_fields cfg)) (cm_path cm) 0 with
                                  | Some _ => true | None => false end
                     | None => true end) (rg_columns rg) = true /\
  forallb (fun cc => match cc_meta cc with Some _ => true | None => false end) (rg_columns rg) = true.
Proof.
  intros Hnd Hrg. pose proof (rg_matches_rel cfg recs rg Hrg) as Hrel.
  split; apply forallb_forall; intros cc Hin;
    destruct (Forall2_In_r _ _ _ _ Hrel Hin) as ([i c] & Hic & (cm & Hmeta & Hpath & _));
    rewrite Hmeta; [|reflexivity].
  destruct (index_from_nth_error _ 0 i c Hic) as [_ Hnth]. rewrite Nat.sub_0_r in Hnth.
  cbn [snd] in Hpath. rewrite Hpath, (find_col_nth _ i c 0 Hnd Hnth). reflexivity.
Qed.

Lemma row_groups_rel cfg bs : forall pos,
  Forall2 (rg_matches cfg) bs (row_groups_meta (cfg_codec cfg) pos (batch_rgs cfg bs)).
Proof.
  unfold batch_rgs. induction bs as [|b bs IH]; intros pos; [constructor|].
  cbn [map row_groups_meta].
  destruct (chunks_meta (cfg_codec cfg) pos (ra_chunks (snd (write_batch compress cfg b)))) as [ccs pos'] eqn:E.
  constructor; [|apply IH]. split.
  - exists pos. rewrite E. reflexivity.
  - cbn [rg_num_rows write_batch snd ra_rows]. unfold nlen. lia.
Qed.

Lemma footer_rows cfg bs : fm_num_rows (footer cfg bs) = Z.of_nat (length (concat bs)).
Proof.
  unfold footer, footer_meta, batch_rgs. cbn [fm_num_rows].
  assert (H : sumN (map ra_rows (map snd (map (write_batch compress cfg) bs))) = N.of_nat (length (concat bs))).
  { induction bs as [|b bs IH]; [reflexivity|].
    cbn [map sumN concat]. rewrite app_length, IH. cbn [write_batch snd ra_rows]. unfold nlen. lia. }
  rewrite H. lia.
Qed.

Lemma magic_length : length magic = 4%nat.
Proof. reflexivity. Qed.

(** NewParquetReader's ReadMetaData + Pages + Seek(4) on a written file *)
Lemma open_footer_ok cfg bs s0 :
  cfg_ok cfg -> footer_ok cfg bs ->
  s_fail s0 = None -> s_file s0 = file_of_batches compress cfg bs ->
  exists s1, open_footer (cfg_fields cfg) s0 = Ok (footer cfg bs, s1) /\
             s_fail s1 = None /\ s_file s1 = s_file s0 /\
             rem s1 = data_bytes cfg bs ++ enc_file_meta (footer cfg bs) ++ footer_len_bytes cfg bs ++ magic.
Proof.
  intros Hcfg [Hfm Hlen] Hfail Hfile. rewrite file_layout in Hfile.
  pose proof Hcfg as (_ & _ & _ & Hnd & _).
  set (D := data_bytes cfg bs) in *. set (ft := enc_file_meta (footer cfg bs)) in *.
  set (le4 := footer_len_bytes cfg bs) in *.
  assert (Hle4 : length le4 = 4%nat) by apply le_enc_length.
  assert (HlenF : nlen (s_file s0) = 4 + nlen D + nlen ft + 4 + 4).
  { rewrite Hfile. unfold nlen. rewrite !app_length, Hle4, magic_length. lia. }
  unfold open_footer.
  (* Seek(-8, SeekEnd) *)
  destruct (m_seek_end_ok (-8) s0 Hfail) as (s1 & H1 & Hf1 & Hn1 & Hp1); [lia|].
  rewrite (bind_ok _ _ _ _ _ H1).
  assert (Hrem1 : rem s1 = le4 ++ magic).
  { apply (rem_at s1 (magic ++ D ++ ft)).
    - rewrite Hf1, Hfile, <- !app_assoc. reflexivity.
    - rewrite Hp1, HlenF. unfold nlen. rewrite !app_length, magic_length. lia. }
  (* the 4-byte footer length *)
  destruct (m_read_full_ok s1 le4 magic Hn1 Hrem1) as (s2 & H2 & Hadv2). rewrite Hle4 in H2.
  rewrite (bind_ok _ _ _ _ _ H2).
  assert (Hdec : le_dec le4 = nlen ft).
  { unfold le4, footer_len_bytes. fold ft. rewrite le_dec_enc.
    - apply N.mod_small. exact Hlen.
    - rewrite pow256_4. rewrite pow32 in Hlen |- *. lia. }
  rewrite Hdec. destruct Hadv2 as (Hf2 & Hn2 & _).
  (* Seek(-(len+8), SeekEnd) *)
  destruct (m_seek_end_ok (- (Z.of_N (nlen ft) + 8)) s2 Hn2) as (s3 & H3 & Hf3 & Hn3 & Hp3).
  { rewrite Hf2, Hf1, HlenF. lia. }
  rewrite (bind_ok _ _ _ _ _ H3).
  assert (Hrem3 : rem s3 = ft ++ le4 ++ magic).
  { apply (rem_at s3 (magic ++ D)).
    - rewrite Hf3, Hf2, Hf1, Hfile, <- !app_assoc. reflexivity.
    - rewrite Hp3, Hf2, Hf1, HlenF. unfold nlen. rewrite !app_length, magic_length. lia. }
  (* the footer *)
  destruct (m_read_struct_ok dec_file_meta s3 (footer cfg bs) ft (le4 ++ magic) Hn3 Hrem3) as (s4 & H4 & Hadv4).
  { apply dec_enc_file_meta. exact Hfm. }
  rewrite (bind_ok _ _ _ _ _ H4). destruct Hadv4 as (Hf4 & Hn4 & _).
  (* Pages *)
  assert (Hchecks : Forall (fun rg => exists recs, rg_matches cfg recs rg) (fm_row_groups (footer cfg bs))).
  { unfold footer, footer_meta. cbn [fm_row_groups].
    pose proof (row_groups_rel cfg bs 4) as Hrel. apply Forall_forall. intros rg Hin.
    destruct (Forall2_In_r _ _ _ _ Hrel Hin) as (recs & _ & Hm). exists recs. exact Hm. }
  rewrite Forall_forall in Hchecks.
  rewrite (proj2 (forallb_forall _ (fm_row_groups (footer cfg bs)))).
  2:{ intros rg Hin. destruct (Hchecks rg Hin) as (recs & Hm). apply (rg_checks cfg recs rg Hnd Hm). }
  rewrite (proj2 (forallb_forall _ (fm_row_groups (footer cfg bs)))).
  2:{ intros rg Hin. destruct (Hchecks rg Hin) as (recs & Hm). apply (rg_checks cfg recs rg Hnd Hm). }
  (* Seek(4, SeekStart) *)
  destruct (m_seek_start_ok 4 s4 Hn4) as (s5 & H5 & Hf5 & Hn5 & Hp5); [lia|].
  rewrite (bind_ok _ _ _ _ _ H5). unfold ret. exists s5. split; [reflexivity|].
  split; [exact Hn5|]. split; [rewrite Hf5, Hf4, Hf3, Hf2, Hf1; reflexivity|].
  apply (rem_at s5 magic).
  - rewrite Hf5, Hf4, Hf3, Hf2, Hf1, Hfile. reflexivity.
  - rewrite Hp5. reflexivity.
Qed.

Lemma data_bytes_cons cfg b bs : data_bytes cfg (b :: bs) = batch_bytes cfg b ++ data_bytes cfg bs.
Proof. reflexivity. Qed.

(** the loop of Next that skips row groups without rows: nothing left to load ... *)
Lemma load_nonempty_nil fs s : load_nonempty decompress fs [] s = Ok ([], 0%Z, [], s).
Proof. reflexivity. Qed.

(** ... and on a row group that has a row it is the single [read_row_group] *)
Lemma load_nonempty_first fs rg rest s recs s' :
  read_row_group decompress fs rg s = Ok (recs, s') -> (0 < rg_num_rows rg)%Z ->
  load_nonempty decompress fs (rg :: rest) s = Ok (recs, rg_num_rows rg, rest, s').
Proof.
  intros Hrd Hpos. cbn [load_nonempty]. rewrite Hrd.
  replace (0 <? rg_num_rows rg)%Z with true by lia. reflexivity.
Qed.

(** the Next/Scan loop: [cur] are the unscanned records of the loaded row
    group, [rest_bs] the batches whose row groups are still to be loaded *)
Lemma iterate_ok cfg rows : forall fuel cur rest_bs cursor rgcursor rgcount rgs nexts recs s tailb,
  cfg_ok cfg -> Forall (batch_ok cfg) rest_bs -> Forall2 (rg_matches cfg) rest_bs rgs ->
  s_fail s = None -> rem s = data_bytes cfg rest_bs ++ tailb ->
  (rgcount - rgcursor = Z.of_nat (length cur))%Z ->
  (rows - cursor = Z.of_nat (length cur + length (concat rest_bs)))%Z ->
  (length cur + length (concat rest_bs) < fuel)%nat ->
  iterate decompress fuel (cfg_fields cfg) rows cursor rgcursor rgcount cur rgs nexts recs s =
  mk_outcome rows (nexts + N.of_nat (length cur + length (concat rest_bs))) false false
             (recs ++ cur ++ concat rest_bs).
Proof.
  induction fuel as [|f IH];
    intros cur rest_bs cursor rgcursor rgcount rgs nexts recs s tailb Hcfg Hbs Hrgs Hfail Hrem Hrg Hrows Hfuel;
    [lia|].
  cbn [iterate]. destruct cur as [|x cur].
  - destruct rest_bs as [|b rest_bs].
    + cbn [length concat Nat.add app] in *. replace (rows <=? cursor)%Z with true by lia.
      rewrite app_nil_r. f_equal. lia.
    + inversion Hbs as [|b' bs' Hb Hbs']; subst b' bs'.
      inversion Hrgs as [|b' rg bs' rgs' Hm Hrgs']; subst b' bs' rgs.
      pose proof Hb as (Hne & _). destruct b as [|x b]; [congruence|].
      cbn [length concat Nat.add app] in Hrows, Hfuel, Hrg. rewrite app_length in Hrows, Hfuel.
      cbn [length] in Hrows, Hfuel.
      replace (rows <=? cursor)%Z with false by lia.
      replace (rgcount <=? rgcursor)%Z with true by lia.
      rewrite data_bytes_cons, <- app_assoc in Hrem.
      destruct (read_row_group_ok cfg (x :: b) rg s _ Hcfg Hb Hm Hfail Hrem) as (s' & Hrd & Hadv).
      destruct Hm as [_ Hnr]. cbn [length] in Hnr.
      rewrite (load_nonempty_first _ rg rgs' s _ _ Hrd) by lia. cbn [hd tl].
      rewrite (IH b rest_bs (cursor + 1)%Z (0 + 1)%Z (rg_num_rows rg) rgs' (nexts + 1) (recs ++ [x]) s' tailb);
        try assumption.
      * cbn [length concat Nat.add app]. rewrite app_length. cbn [length]. f_equal; [lia|].
        rewrite <- app_assoc. reflexivity.
      * exact (adv_fail _ _ _ Hadv).
      * exact (rem_adv_app _ _ _ _ Hrem Hadv).
      * lia.
      * lia.
      * lia.
  - cbn [length Nat.add] in Hrows, Hfuel, Hrg.
    replace (rows <=? cursor)%Z with false by lia.
    replace (rgcount <=? rgcursor)%Z with false by lia. cbn [hd tl].
    rewrite (IH cur rest_bs (cursor + 1)%Z (rgcursor + 1)%Z rgcount rgs (nexts + 1) (recs ++ [x]) s tailb);
      try assumption.
    + cbn [length Nat.add app]. f_equal; [lia|]. rewrite <- app_assoc. reflexivity.
    + lia.
    + lia.
    + lia.
Qed.

(** ** C01: write-then-read returns exactly the records that were added *)

Theorem write_read_roundtrip_src cfg bs sched :
  cfg_ok cfg -> Forall (batch_ok cfg) bs -> footer_ok cfg bs ->
  read_all_src decompress (cfg_fields cfg) (mk_src (file_of_batches compress cfg bs) sched None) =
  {| o_open_ok := true;
     o_rows := Z.of_nat (length (concat bs));
     o_nexts := N.of_nat (length (concat bs));
     o_err := false; o_panic := false;
     o_recs := concat bs |}.
Proof.
  intros Hcfg Hbs Hft. unfold read_all_src.
  destruct (open_footer_ok cfg bs (mk_src (file_of_batches compress cfg bs) sched None) Hcfg Hft eq_refl eq_refl)
    as (s1 & Hopen & Hfail1 & _ & Hrem1).
  rewrite Hopen. cbv zeta. rewrite footer_rows.
  pose proof (row_groups_rel cfg bs 4) as Hrel.
  change (row_groups_meta (cfg_codec cfg) 4 (batch_rgs cfg bs)) with (fm_row_groups (footer cfg bs)) in Hrel.
  destruct Hrel as [|b rg bs' rgs Hm Hrel].
  - rewrite (iterate_ok cfg _ _ [] [] 0%Z 0%Z 0%Z [] 0 [] s1 _ Hcfg Hbs (Forall2_nil _) Hfail1 Hrem1);
      cbn [length concat Nat.add]; try lia. reflexivity.
  - inversion Hbs as [|b' bs'' Hb Hbs']; subst b' bs''.
    rewrite data_bytes_cons, <- app_assoc in Hrem1.
    destruct (read_row_group_ok cfg b rg s1 _ Hcfg Hb Hm Hfail1 Hrem1) as (s2 & Hrd & Hadv).
    rewrite Hrd. destruct Hm as [_ Hnr].
    rewrite (iterate_ok cfg _ _ b bs' 0%Z 0%Z (rg_num_rows rg) rgs 0 [] s2 _ Hcfg Hbs' Hrel
               (adv_fail _ _ _ Hadv) (rem_adv_app _ _ _ _ Hrem1 Hadv));
      cbn [concat]; rewrite ?app_length; try lia.
    unfold mk_outcome. cbn [app]. f_equal; lia.
Qed.

Theorem write_read_roundtrip cfg bs :
  cfg_ok cfg -> Forall (batch_ok cfg) bs -> footer_ok cfg bs ->
  read_all decompress (cfg_fields cfg) (file_of_batches compress cfg bs) =
  {| o_open_ok := true;
     o_rows := Z.of_nat (length (concat bs));
     o_nexts := N.of_nat (length (concat bs));
     o_err := false; o_panic := false;
     o_recs := concat bs |}.
Proof. intros Hcfg Hbs Hft. unfold read_all. apply write_read_roundtrip_src; assumption. Qed.

(** ** The hypotheses as boolean checks (for [vm_compute] on concrete inputs) *)

Fixpoint nodupb (l : list (list bytes)) : bool :=
  match l with
  | [] => true
  | x :: r => negb (existsb (Reader.path_eqb x) r) && nodupb r
  end.

Lemma nodupb_sound l : nodupb l = true -> NoDup l.
Proof.
  induction l as [|x l IH]; intros H; [constructor|].
  cbn [nodupb] in H. apply andb_prop in H. destruct H as [Hx Hl]. constructor; [|apply IH; exact Hl].
  intros Hin. apply negb_true_iff in Hx.
  assert (Hex : existsb (Reader.path_eqb x) l = true).
  { apply existsb_exists. exists x. split; [exact Hin|]. unfold Reader.path_eqb.
    destruct (list_eq_dec (list_eq_dec N.eq_dec) x x); congruence. }
  congruence.
Qed.

Definition codec_okb (c : Z) : bool :=
  Z.eqb c CODEC_UNCOMPRESSED || Z.eqb c CODEC_SNAPPY || Z.eqb c CODEC_GZIP.

Definition cfg_okb (cfg : config) : bool :=
  Nat.leb 1 (cfg_max cfg) && codec_okb (cfg_codec cfg) && ty_okb (TGroup (cfg_fields cfg))
  && nodupb (map c_path (columns (cfg_fields cfg)))
  && forallb (fun c => (max_def c <=? 15) && (max_rep c <=? 15)) (columns (cfg_fields cfg)).

Lemma cfg_okb_sound cfg : cfg_okb cfg = true -> cfg_ok cfg.
Proof.
  unfold cfg_okb, cfg_ok. intros H.
  apply andb_prop in H. destruct H as [H H5]. apply andb_prop in H. destruct H as [H H4].
  apply andb_prop in H. destruct H as [H H3]. apply andb_prop in H. destruct H as [H1 H2].
  split; [apply Nat.leb_le; exact H1|]. split.
  - unfold codec_okb in H2. unfold codec_ok. cbn [In].
    destruct (Z.eqb_spec (cfg_codec cfg) CODEC_UNCOMPRESSED) as [E|_]; [left; congruence|].
    destruct (Z.eqb_spec (cfg_codec cfg) CODEC_SNAPPY) as [E|_]; [right; left; congruence|].
    destruct (Z.eqb_spec (cfg_codec cfg) CODEC_GZIP) as [E|_]; [right; right; left; congruence|].
    discriminate.
  - split; [exact H3|]. split; [apply nodupb_sound; exact H4|].
    apply Forall_forall. intros c Hc. rewrite forallb_forall in H5. specialize (H5 c Hc). lia.
Qed.

Definition page_sizes_okb (codec : Z) (c : col) (es : list entry) : bool :=
  (nlen es + 8 <=? 2 ^ 31) && (nlen (page_payload c es) <? 2 ^ 31)
  && (nlen (compress codec (page_payload c es)) <? 2 ^ 31).

Definition batch_okb (cfg : config) (recs : list value) : bool :=
  negb (Nat.eqb (length recs) 0) && forallb (has_tyb (TGroup (cfg_fields cfg))) recs
  && forallb (fun ic : nat * col => forallb (page_sizes_okb (cfg_codec cfg) (snd ic)) (col_ess cfg (fst ic) recs))
             (index_from 0 (columns (cfg_fields cfg))).

Lemma index_from_In {A} (l : list A) : forall k i x,
  nth_error l i = Some x -> In ((k + i)%nat, x) (index_from k l).
Proof.
  induction l as [|y l IH]; intros k i x H; [destruct i; discriminate|].
  destruct i as [|i]; cbn [nth_error] in H; cbn [index_from].
  - inversion H; subst. left. f_equal. lia.
  - right. replace (k + S i)%nat with (S k + i)%nat by lia. apply IH. exact H.
Qed.

Lemma batch_okb_sound cfg recs : batch_okb cfg recs = true -> batch_ok cfg recs.
Proof.
  unfold batch_okb, batch_ok. intros H.
  apply andb_prop in H. destruct H as [H H3]. apply andb_prop in H. destruct H as [H1 H2].
  split; [|split].
  - intros ->. discriminate.
  - apply forallb_Forall. exact H2.
  - intros i c Hc. rewrite forallb_forall in H3.
    specialize (H3 (i, c) (index_from_In _ 0 i c Hc)). cbn [fst snd] in H3.
    apply Forall_forall. intros es Hes. rewrite forallb_forall in H3. specialize (H3 es Hes).
    unfold page_sizes_okb in H3. unfold page_sizes_ok. lia.
Qed.

Definition footer_okb (cfg : config) (bs : list (list value)) : bool :=
  file_meta_ok (footer cfg bs) && (nlen (enc_file_meta (footer cfg bs)) <? 2 ^ 32).

Lemma footer_okb_sound cfg bs : footer_okb cfg bs = true -> footer_ok cfg bs.
Proof.
  unfold footer_okb, footer_ok. intros H. apply andb_prop in H. destruct H as [H1 H2].
  split; [exact H1 | lia].
Qed.

Corollary write_read_roundtrip_checked cfg bs :
  cfg_okb cfg = true -> forallb (batch_okb cfg) bs = true -> footer_okb cfg bs = true ->
  read_all decompress (cfg_fields cfg) (file_of_batches compress cfg bs) =
  {| o_open_ok := true;
     o_rows := Z.of_nat (length (concat bs));
     o_nexts := N.of_nat (length (concat bs));
     o_err := false; o_panic := false;
     o_recs := concat bs |}.
Proof.
  intros H1 H2 H3. apply write_read_roundtrip.
  - apply cfg_okb_sound. exact H1.
  - apply Forall_forall. intros b Hb. rewrite forallb_forall in H2. apply batch_okb_sound, H2, Hb.
  - apply footer_okb_sound. exact H3.
Qed.

End WithCodec.


(** ** The hypotheses are satisfiable: a small configuration (one optional
    int32 column, one repeated bool column, one required string column; pages
    of two records; three row groups), identity codec *)
Module Example.
Definition cid (c : Z) (b : bytes) : bytes := b.
Definition did (c : Z) (b : bytes) : option bytes := Some b.
Definition fs0 : list field :=
  [ ([97], Opt, TLeaf PInt32); ([98], Rep, TLeaf PBool); ([99], Req, TLeaf PString) ].
Definition cfg0 : config := {| cfg_fields := fs0; cfg_max := 2; cfg_codec := CODEC_UNCOMPRESSED |}.
Definition r1 : value := VGroup [VNum 5; VList [VNum 1; VNum 0; VNum 1]; VStr [1; 2; 3]].
Definition r2 : value := VGroup [VNull; VList []; VStr []].
Definition r3 : value := VGroup [VNum 4294967295; VList [VNum 1]; VStr [7]].
Definition bs0 : list (list value) := [[r1; r2; r3]; [r2]; [r3; r1]].

Example hyps_hold :
  cfg_okb cfg0 = true /\ forallb (batch_okb cid cfg0) bs0 = true /\ footer_okb cid cfg0 bs0 = true.
Proof. vm_compute. repeat split. Qed.

(** the instance of the theorem, and the same by evaluation *)
Example roundtrip_instance :
  o_recs (read_all did fs0 (file_of_batches cid cfg0 bs0)) = concat bs0.
Proof.
  destruct hyps_hold as (H1 & H2 & H3). change fs0 with (cfg_fields cfg0).
  rewrite (write_read_roundtrip_checked cid did (fun c x _ => eq_refl) (fun x => eq_refl) cfg0 bs0 H1 H2 H3).
  reflexivity.
Qed.

Example roundtrip_eval :
  read_all did fs0 (file_of_batches cid cfg0 bs0) =
  {| o_open_ok := true; o_rows := 6; o_nexts := 6; o_err := false; o_panic := false; o_recs := concat bs0 |}.
Proof. vm_compute. reflexivity. Qed.

(** [Hident] is needed: a codec pair that satisfies [Hcodec] but pads
    UNCOMPRESSED payloads makes the reader fail (pageData reads
    [uncompressed_size] bytes and never calls the decoder for codec 0) *)
Definition cbad (c : Z) (b : bytes) : bytes := if Z.eqb c 0 then b ++ [0] else b.
Definition dbad (c : Z) (b : bytes) : option bytes := if Z.eqb c 0 then Some (removelast b) else Some b.

Lemma bad_codec_inverse c x : dbad c (cbad c x) = Some x.
Proof. unfold dbad, cbad. destruct (Z.eqb c 0); [rewrite removelast_last|]; reflexivity. Qed.

Example ident_needed :
  o_open_ok (read_all dbad [([99], Req, TLeaf PInt32)]
               (file_of_batches cbad {| cfg_fields := [([99], Req, TLeaf PInt32)]; cfg_max := 2;
                                        cfg_codec := CODEC_UNCOMPRESSED |}
                                     [[VGroup [VNum 5]; VGroup [VNum 5]; VGroup [VNum 5]]])) = false.
Proof. vm_compute. reflexivity. Qed.
End Example.

Print Assumptions values_typed.
Print Assumptions read_row_group_ok.
Print Assumptions open_footer_ok.
Print Assumptions write_read_roundtrip_src.
Print Assumptions write_read_roundtrip.
Print Assumptions write_read_roundtrip_checked.
Print Assumptions Example.roundtrip_instance.
