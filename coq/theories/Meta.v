(** * Meta: the parquet.thrift records of MetaTypes.v as thrift field lists,
    with exactly the field ids, wire types and optionality of the generated
    code in /repo/schema/parquet.go ([Write] calls [writeField1..n] in field
    id order; required fields are always written, optional ones only when
    [IsSetX], i.e. when the pointer/slice is non nil; enums are i32; strings
    are binary).  Definitions only; proofs in MetaProofs.v.

    [DataPageHeaderV2.IsCompressed] is a plain Go [bool] whose thrift default
    is [true] and which is written only when it differs from the default: the
    Go value [true] is [v2_is_compressed = None], the Go value [false] is
    [Some false]; [Some true] only arises from foreign files. *)
From Coq Require Import List NArith ZArith Bool.
From PQ Require Import Bytes Varint Thrift MetaTypes.
Import ListNotations.
Local Open Scope N_scope.

(** ** Building field lists *)

(** keep the fields that are set *)
Fixpoint mk_fields (l : list (N * option tval)) : list (N * tval) :=
  match l with
  | [] => []
  | (id, Some v) :: r => (id, v) :: mk_fields r
  | (_, None) :: r => mk_fields r
  end.

Definition t_i32 (z : Z) : option tval := Some (TI32 z).
Definition t_i64 (z : Z) : option tval := Some (TI64 z).
Definition t_bin (b : bytes) : option tval := Some (TBin b).
Definition t_list {A} (elt : N) (f : A -> tval) (l : list A) : tval := TList elt (map f l).

(** ** Reading field lists *)

(** value of field [id]; as in the generated [Read] loop a later occurrence
    overrides an earlier one *)
Fixpoint fget (id : N) (fs : list (N * tval)) : option tval :=
  match fs with
  | [] => None
  | (i, v) :: r =>
      match fget id r with
      | Some w => Some w
      | None => if i =? id then Some v else None
      end
  end.

Definition as_bool (v : tval) : option bool := match v with TBool b => Some b | _ => None end.
Definition as_i32 (v : tval) : option Z := match v with TI32 z => Some z | _ => None end.
Definition as_i64 (v : tval) : option Z := match v with TI64 z => Some z | _ => None end.
Definition as_bin (v : tval) : option bytes := match v with TBin b => Some b | _ => None end.
Definition as_struct {A} (of_fields : list (N * tval) -> option A) (v : tval) : option A :=
  match v with TStruct fs => of_fields fs | _ => None end.

Fixpoint map_opt {A B} (f : A -> option B) (l : list A) : option (list B) :=
  match l with
  | [] => Some []
  | x :: r =>
      match f x with
      | Some y => match map_opt f r with Some ys => Some (y :: ys) | None => None end
      | None => None
      end
  end.

Definition as_list {A} (conv : tval -> option A) (v : tval) : option (list A) :=
  match v with TList _ vs => map_opt conv vs | _ => None end.

(** required field: must be present and of the right type *)
Definition req {A} (conv : tval -> option A) (id : N) (fs : list (N * tval)) : option A :=
  match fget id fs with Some v => conv v | None => None end.

(** optional field: absent is fine, a wrong type is an error *)
Definition opt {A} (conv : tval -> option A) (id : N) (fs : list (N * tval)) : option (option A) :=
  match fget id fs with
  | Some v => match conv v with Some a => Some (Some a) | None => None end
  | None => Some None
  end.

Notation "x <- e ;; k" := (match e with Some x => k | None => None end)
  (at level 60, e at next level, right associativity).

(** ** Statistics *)

Definition statistics_to_fields (s : statistics) : list (N * tval) :=
  mk_fields [ (1, option_map TBin (st_max s));
              (2, option_map TBin (st_min s));
              (3, option_map TI64 (st_null_count s));
              (4, option_map TI64 (st_distinct_count s));
              (5, option_map TBin (st_max_value s));
              (6, option_map TBin (st_min_value s)) ].

Definition statistics_of_fields (fs : list (N * tval)) : option statistics :=
  a <- opt as_bin 1 fs;;
  b <- opt as_bin 2 fs;;
  c <- opt as_i64 3 fs;;
  d <- opt as_i64 4 fs;;
  e <- opt as_bin 5 fs;;
  f <- opt as_bin 6 fs;;
  Some {| st_max := a; st_min := b; st_null_count := c; st_distinct_count := d;
          st_max_value := e; st_min_value := f |}.

Definition t_statistics (s : statistics) : tval := TStruct (statistics_to_fields s).

(** ** DataPageHeader *)

Definition data_page_header_to_fields (d : data_page_header) : list (N * tval) :=
  mk_fields [ (1, t_i32 (dph_num_values d));
              (2, t_i32 (dph_encoding d));
              (3, t_i32 (dph_def_encoding d));
              (4, t_i32 (dph_rep_encoding d));
              (5, option_map t_statistics (dph_statistics d)) ].

Definition data_page_header_of_fields (fs : list (N * tval)) : option data_page_header :=
  a <- req as_i32 1 fs;;
  b <- req as_i32 2 fs;;
  c <- req as_i32 3 fs;;
  d <- req as_i32 4 fs;;
  e <- opt (as_struct statistics_of_fields) 5 fs;;
  Some {| dph_num_values := a; dph_encoding := b; dph_def_encoding := c;
          dph_rep_encoding := d; dph_statistics := e |}.

(** ** DictionaryPageHeader *)

Definition dictionary_page_header_to_fields (d : dictionary_page_header) : list (N * tval) :=
  mk_fields [ (1, t_i32 (dict_num_values d));
              (2, t_i32 (dict_encoding d));
              (3, option_map TBool (dict_is_sorted d)) ].

Definition dictionary_page_header_of_fields (fs : list (N * tval)) : option dictionary_page_header :=
  a <- req as_i32 1 fs;;
  b <- req as_i32 2 fs;;
  c <- opt as_bool 3 fs;;
  Some {| dict_num_values := a; dict_encoding := b; dict_is_sorted := c |}.

(** ** DataPageHeaderV2 *)

Definition data_page_header_v2_to_fields (d : data_page_header_v2) : list (N * tval) :=
  mk_fields [ (1, t_i32 (v2_num_values d));
              (2, t_i32 (v2_num_nulls d));
              (3, t_i32 (v2_num_rows d));
              (4, t_i32 (v2_encoding d));
              (5, t_i32 (v2_def_len d));
              (6, t_i32 (v2_rep_len d));
              (7, option_map TBool (v2_is_compressed d));
              (8, option_map t_statistics (v2_statistics d)) ].

Definition data_page_header_v2_of_fields (fs : list (N * tval)) : option data_page_header_v2 :=
  a <- req as_i32 1 fs;;
  b <- req as_i32 2 fs;;
  c <- req as_i32 3 fs;;
  d <- req as_i32 4 fs;;
  e <- req as_i32 5 fs;;
  f <- req as_i32 6 fs;;
  g <- opt as_bool 7 fs;;
  h <- opt (as_struct statistics_of_fields) 8 fs;;
  Some {| v2_num_values := a; v2_num_nulls := b; v2_num_rows := c; v2_encoding := d;
          v2_def_len := e; v2_rep_len := f; v2_is_compressed := g; v2_statistics := h |}.

(** ** IndexPageHeader: the empty struct *)

Definition index_page_header_to_fields (_ : unit) : list (N * tval) := [].
Definition index_page_header_of_fields (_ : list (N * tval)) : option unit := Some tt.

(** ** PageHeader *)

Definition page_header_to_fields (p : page_header) : list (N * tval) :=
  mk_fields [ (1, t_i32 (ph_type p));
              (2, t_i32 (ph_uncompressed_size p));
              (3, t_i32 (ph_compressed_size p));
              (4, option_map TI32 (ph_crc p));
              (5, option_map (fun d => TStruct (data_page_header_to_fields d)) (ph_data p));
              (6, option_map (fun u => TStruct (index_page_header_to_fields u)) (ph_index p));
              (7, option_map (fun d => TStruct (dictionary_page_header_to_fields d)) (ph_dict p));
              (8, option_map (fun d => TStruct (data_page_header_v2_to_fields d)) (ph_data_v2 p)) ].

Definition page_header_of_fields (fs : list (N * tval)) : option page_header :=
  a <- req as_i32 1 fs;;
  b <- req as_i32 2 fs;;
  c <- req as_i32 3 fs;;
  d <- opt as_i32 4 fs;;
  e <- opt (as_struct data_page_header_of_fields) 5 fs;;
  f <- opt (as_struct index_page_header_of_fields) 6 fs;;
  g <- opt (as_struct dictionary_page_header_of_fields) 7 fs;;
  h <- opt (as_struct data_page_header_v2_of_fields) 8 fs;;
  Some {| ph_type := a; ph_uncompressed_size := b; ph_compressed_size := c; ph_crc := d;
          ph_data := e; ph_index := f; ph_dict := g; ph_data_v2 := h |}.

(** ** SchemaElement (field 10 logicalType is never written and ignored) *)

Definition schema_element_to_fields (s : schema_element) : list (N * tval) :=
  mk_fields [ (1, option_map TI32 (se_type s));
              (2, option_map TI32 (se_type_length s));
              (3, option_map TI32 (se_repetition s));
              (4, t_bin (se_name s));
              (5, option_map TI32 (se_num_children s));
              (6, option_map TI32 (se_converted s));
              (7, option_map TI32 (se_scale s));
              (8, option_map TI32 (se_precision s));
              (9, option_map TI32 (se_field_id s)) ].

Definition schema_element_of_fields (fs : list (N * tval)) : option schema_element :=
  a <- opt as_i32 1 fs;;
  b <- opt as_i32 2 fs;;
  c <- opt as_i32 3 fs;;
  d <- req as_bin 4 fs;;
  e <- opt as_i32 5 fs;;
  f <- opt as_i32 6 fs;;
  g <- opt as_i32 7 fs;;
  h <- opt as_i32 8 fs;;
  i <- opt as_i32 9 fs;;
  Some {| se_type := a; se_type_length := b; se_repetition := c; se_name := d;
          se_num_children := e; se_converted := f; se_scale := g; se_precision := h;
          se_field_id := i |}.

(** ** KeyValue *)

Definition key_value_to_fields (k : key_value) : list (N * tval) :=
  mk_fields [ (1, t_bin (kv_key k)); (2, option_map TBin (kv_value k)) ].

Definition key_value_of_fields (fs : list (N * tval)) : option key_value :=
  a <- req as_bin 1 fs;;
  b <- opt as_bin 2 fs;;
  Some {| kv_key := a; kv_value := b |}.

Definition t_key_values (l : list key_value) : tval :=
  t_list 12 (fun k => TStruct (key_value_to_fields k)) l.

(** ** PageEncodingStats *)

Definition page_encoding_stats_to_fields (p : page_encoding_stats) : list (N * tval) :=
  mk_fields [ (1, t_i32 (pes_page_type p)); (2, t_i32 (pes_encoding p)); (3, t_i32 (pes_count p)) ].

Definition page_encoding_stats_of_fields (fs : list (N * tval)) : option page_encoding_stats :=
  a <- req as_i32 1 fs;;
  b <- req as_i32 2 fs;;
  c <- req as_i32 3 fs;;
  Some {| pes_page_type := a; pes_encoding := b; pes_count := c |}.

(** ** ColumnMetaData *)

Definition column_meta_to_fields (c : column_meta) : list (N * tval) :=
  mk_fields [ (1, t_i32 (cm_type c));
              (2, Some (t_list 5 TI32 (cm_encodings c)));
              (3, Some (t_list 8 TBin (cm_path c)));
              (4, t_i32 (cm_codec c));
              (5, t_i64 (cm_num_values c));
              (6, t_i64 (cm_total_uncompressed c));
              (7, t_i64 (cm_total_compressed c));
              (8, option_map t_key_values (cm_key_value c));
              (9, t_i64 (cm_data_page_offset c));
              (10, option_map TI64 (cm_index_page_offset c));
              (11, option_map TI64 (cm_dictionary_page_offset c));
              (12, option_map t_statistics (cm_statistics c));
              (13, option_map (t_list 12 (fun p => TStruct (page_encoding_stats_to_fields p)))
                              (cm_encoding_stats c)) ].

Definition column_meta_of_fields (fs : list (N * tval)) : option column_meta :=
  a <- req as_i32 1 fs;;
  b <- req (as_list as_i32) 2 fs;;
  c <- req (as_list as_bin) 3 fs;;
  d <- req as_i32 4 fs;;
  e <- req as_i64 5 fs;;
  f <- req as_i64 6 fs;;
  g <- req as_i64 7 fs;;
  h <- opt (as_list (as_struct key_value_of_fields)) 8 fs;;
  i <- req as_i64 9 fs;;
  j <- opt as_i64 10 fs;;
  k <- opt as_i64 11 fs;;
  l <- opt (as_struct statistics_of_fields) 12 fs;;
  m <- opt (as_list (as_struct page_encoding_stats_of_fields)) 13 fs;;
  Some {| cm_type := a; cm_encodings := b; cm_path := c; cm_codec := d; cm_num_values := e;
          cm_total_uncompressed := f; cm_total_compressed := g; cm_key_value := h;
          cm_data_page_offset := i; cm_index_page_offset := j;
          cm_dictionary_page_offset := k; cm_statistics := l; cm_encoding_stats := m |}.

(** ** ColumnChunk *)

Definition column_chunk_to_fields (c : column_chunk) : list (N * tval) :=
  mk_fields [ (1, option_map TBin (cc_file_path c));
              (2, t_i64 (cc_file_offset c));
              (3, option_map (fun m => TStruct (column_meta_to_fields m)) (cc_meta c));
              (4, option_map TI64 (cc_offset_index_offset c));
              (5, option_map TI32 (cc_offset_index_length c));
              (6, option_map TI64 (cc_column_index_offset c));
              (7, option_map TI32 (cc_column_index_length c)) ].

Definition column_chunk_of_fields (fs : list (N * tval)) : option column_chunk :=
  a <- opt as_bin 1 fs;;
  b <- req as_i64 2 fs;;
  c <- opt (as_struct column_meta_of_fields) 3 fs;;
  d <- opt as_i64 4 fs;;
  e <- opt as_i32 5 fs;;
  f <- opt as_i64 6 fs;;
  g <- opt as_i32 7 fs;;
  Some {| cc_file_path := a; cc_file_offset := b; cc_meta := c; cc_offset_index_offset := d;
          cc_offset_index_length := e; cc_column_index_offset := f;
          cc_column_index_length := g |}.

(** ** RowGroup (field 4 sorting_columns is never written and ignored) *)

Definition row_group_to_fields (r : row_group) : list (N * tval) :=
  mk_fields [ (1, Some (t_list 12 (fun c => TStruct (column_chunk_to_fields c)) (rg_columns r)));
              (2, t_i64 (rg_total_byte_size r));
              (3, t_i64 (rg_num_rows r)) ].

Definition row_group_of_fields (fs : list (N * tval)) : option row_group :=
  a <- req (as_list (as_struct column_chunk_of_fields)) 1 fs;;
  b <- req as_i64 2 fs;;
  c <- req as_i64 3 fs;;
  Some {| rg_columns := a; rg_total_byte_size := b; rg_num_rows := c |}.

(** ** FileMetaData (field 7 column_orders is never written and ignored) *)

Definition file_meta_to_fields (m : file_meta) : list (N * tval) :=
  mk_fields [ (1, t_i32 (fm_version m));
              (2, Some (t_list 12 (fun s => TStruct (schema_element_to_fields s)) (fm_schema m)));
              (3, t_i64 (fm_num_rows m));
              (4, Some (t_list 12 (fun r => TStruct (row_group_to_fields r)) (fm_row_groups m)));
              (5, option_map t_key_values (fm_key_value m));
              (6, option_map TBin (fm_created_by m)) ].

Definition file_meta_of_fields (fs : list (N * tval)) : option file_meta :=
  a <- req as_i32 1 fs;;
  b <- req (as_list (as_struct schema_element_of_fields)) 2 fs;;
  c <- req as_i64 3 fs;;
  d <- req (as_list (as_struct row_group_of_fields)) 4 fs;;
  e <- opt (as_list (as_struct key_value_of_fields)) 5 fs;;
  f <- opt as_bin 6 fs;;
  Some {| fm_version := a; fm_schema := b; fm_num_rows := c; fm_row_groups := d;
          fm_key_value := e; fm_created_by := f |}.

(** ** Entry points *)

Definition enc_page_header (ph : page_header) : bytes := tenc_struct (page_header_to_fields ph).

Definition dec_page_header (bs : bytes) : option (page_header * bytes) :=
  match tdec bs with
  | Some (fs, rest) =>
      match page_header_of_fields fs with Some ph => Some (ph, rest) | None => None end
  | None => None
  end.

Definition enc_file_meta (fm : file_meta) : bytes := tenc_struct (file_meta_to_fields fm).

Definition dec_file_meta (bs : bytes) : option (file_meta * bytes) :=
  match tdec bs with
  | Some (fs, rest) =>
      match file_meta_of_fields fs with Some fm => Some (fm, rest) | None => None end
  | None => None
  end.

(** ** Range predicates (boolean): what the Go types guarantee *)

Definition opt_ok {A} (f : A -> bool) (o : option A) : bool :=
  match o with Some a => f a | None => true end.
Definition list_ok {A} (f : A -> bool) (l : list A) : bool :=
  (nlen l <? len_lim) && forallb f l.

Definition statistics_ok (s : statistics) : bool :=
  opt_ok bin_ok (st_max s) && opt_ok bin_ok (st_min s)
  && opt_ok i64_ok (st_null_count s) && opt_ok i64_ok (st_distinct_count s)
  && opt_ok bin_ok (st_max_value s) && opt_ok bin_ok (st_min_value s).

Definition data_page_header_ok (d : data_page_header) : bool :=
  i32_ok (dph_num_values d) && i32_ok (dph_encoding d) && i32_ok (dph_def_encoding d)
  && i32_ok (dph_rep_encoding d) && opt_ok statistics_ok (dph_statistics d).

Definition dictionary_page_header_ok (d : dictionary_page_header) : bool :=
  i32_ok (dict_num_values d) && i32_ok (dict_encoding d).

Definition data_page_header_v2_ok (d : data_page_header_v2) : bool :=
  i32_ok (v2_num_values d) && i32_ok (v2_num_nulls d) && i32_ok (v2_num_rows d)
  && i32_ok (v2_encoding d) && i32_ok (v2_def_len d) && i32_ok (v2_rep_len d)
  && opt_ok statistics_ok (v2_statistics d).

Definition page_header_ok (p : page_header) : bool :=
  i32_ok (ph_type p) && i32_ok (ph_uncompressed_size p) && i32_ok (ph_compressed_size p)
  && opt_ok i32_ok (ph_crc p) && opt_ok data_page_header_ok (ph_data p)
  && opt_ok dictionary_page_header_ok (ph_dict p)
  && opt_ok data_page_header_v2_ok (ph_data_v2 p).

Definition schema_element_ok (s : schema_element) : bool :=
  opt_ok i32_ok (se_type s) && opt_ok i32_ok (se_type_length s)
  && opt_ok i32_ok (se_repetition s) && bin_ok (se_name s)
  && opt_ok i32_ok (se_num_children s) && opt_ok i32_ok (se_converted s)
  && opt_ok i32_ok (se_scale s) && opt_ok i32_ok (se_precision s)
  && opt_ok i32_ok (se_field_id s).

Definition key_value_ok (k : key_value) : bool :=
  bin_ok (kv_key k) && opt_ok bin_ok (kv_value k).

Definition page_encoding_stats_ok (p : page_encoding_stats) : bool :=
  i32_ok (pes_page_type p) && i32_ok (pes_encoding p) && i32_ok (pes_count p).

Definition column_meta_ok (c : column_meta) : bool :=
  i32_ok (cm_type c) && list_ok i32_ok (cm_encodings c) && list_ok bin_ok (cm_path c)
  && i32_ok (cm_codec c) && i64_ok (cm_num_values c) && i64_ok (cm_total_uncompressed c)
  && i64_ok (cm_total_compressed c) && opt_ok (list_ok key_value_ok) (cm_key_value c)
  && i64_ok (cm_data_page_offset c) && opt_ok i64_ok (cm_index_page_offset c)
  && opt_ok i64_ok (cm_dictionary_page_offset c) && opt_ok statistics_ok (cm_statistics c)
  && opt_ok (list_ok page_encoding_stats_ok) (cm_encoding_stats c).

Definition column_chunk_ok (c : column_chunk) : bool :=
  opt_ok bin_ok (cc_file_path c) && i64_ok (cc_file_offset c)
  && opt_ok column_meta_ok (cc_meta c) && opt_ok i64_ok (cc_offset_index_offset c)
  && opt_ok i32_ok (cc_offset_index_length c) && opt_ok i64_ok (cc_column_index_offset c)
  && opt_ok i32_ok (cc_column_index_length c).

Definition row_group_ok (r : row_group) : bool :=
  list_ok column_chunk_ok (rg_columns r) && i64_ok (rg_total_byte_size r)
  && i64_ok (rg_num_rows r).

Definition file_meta_ok (m : file_meta) : bool :=
  i32_ok (fm_version m) && list_ok schema_element_ok (fm_schema m) && i64_ok (fm_num_rows m)
  && list_ok row_group_ok (fm_row_groups m) && opt_ok (list_ok key_value_ok) (fm_key_value m)
  && opt_ok bin_ok (fm_created_by m).
