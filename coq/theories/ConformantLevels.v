(** * ConformantLevels: the library's level decoder ([Rle.rle_read]) agrees
    with the specification decoder ([RleSpec.hybrid_decode_framed]) on every
    stream the specification decoder accepts (bit widths 1..4, well-formed
    bytes, section shorter than 2^31, run counts below 2^63).  No encoder is
    involved: the specification decoder also accepts non-minimal varints, so
    the proof follows [hybrid_decode_fuel] step by step against [rle_loop]. *)
From Coq Require Import List NArith ZArith Lia Bool Arith PeanoNat.
From Coq Require Import ZifyN ZifyNat ZifyBool.
From PQ Require Import Bytes Varint VarintProofs Bitpack BitpackProofs RleSpec RleSpecProofs Rle RleDecProofs.
Import ListNotations.
Local Open Scope N_scope.

Ltac Zify.zify_post_hook ::= Z.div_mod_to_equations.

(** ** The two varint readers on the same bytes *)

Lemma land_128_byte b : b < 256 -> (N.land b 128 =? 0) = (b <? 128).
Proof.
  intros Hb. destruct (N.ltb_spec b 128) as [Hlt|Hge].
  - rewrite land_128_low by exact Hlt. reflexivity.
  - replace b with ((b - 128) + 128) by lia.
    destruct (N.eqb_spec (N.land (b - 128 + 128) 128) 0) as [H0|_]; [|reflexivity].
    exfalso. apply (land_128_high (b - 128)); [lia | exact H0].
Qed.

Lemma uleb_go_agree_aux : forall bs shift acc h r,
  wf_bytes bs -> acc < 2 ^ shift ->
  uleb_dec_aux bs shift acc = Some (h, r) ->
  read_leb128_go bs shift (acc mod 2 ^ 64) = Some (h mod 2 ^ 64, r).
Proof.
  induction bs as [|b bs IH]; intros shift acc h r Hwf Hacc Hdec; [discriminate Hdec|].
  apply wf_bytes_cons in Hwf. destruct Hwf as [Hb Hwf]. unfold is_byte in Hb.
  cbn [uleb_dec_aux] in Hdec. cbn [read_leb128_go].
  rewrite (land_128_byte b Hb), land_127, N.shiftl_mul_pow2.
  assert (Hm : b mod 128 < 128) by lia.
  assert (Hstep : N.lor (acc mod 2 ^ 64) ((b mod 128 * 2 ^ shift) mod 2 ^ 64) =
                  (acc + b mod 128 * 2 ^ shift) mod 2 ^ 64).
  { rewrite <- lor_mod_pow2, lor_disjoint by exact Hacc. reflexivity. }
  rewrite Hstep.
  destruct (b <? 128) eqn:E.
  - injection Hdec as <- <-. reflexivity.
  - apply IH; [exact Hwf | | exact Hdec].
    rewrite pow2_shift7.
    assert (Hp : 0 < 2 ^ shift) by (apply N.neq_0_lt_0, N.pow_nonzero; lia).
    assert (b mod 128 * 2 ^ shift <= 127 * 2 ^ shift) by (apply N.mul_le_mono_r; lia).
    lia.
Qed.

(** on well-formed bytes the Go routine returns the specification's value
    modulo 2^64 and stops at the same byte *)
Lemma uleb_go_agree bs h r :
  wf_bytes bs -> uleb_dec bs = Some (h, r) ->
  read_leb128_go bs 0 0 = Some (h mod 2 ^ 64, r).
Proof.
  intros Hwf Hdec. unfold uleb_dec in Hdec.
  pose proof (uleb_go_agree_aux bs 0 0 h r Hwf) as H.
  rewrite N.pow_0_r in H. change (0 mod 2 ^ 64) with 0 in H. apply H; [lia | exact Hdec].
Qed.

Lemma uleb_dec_aux_suffix : forall bs shift acc h r,
  uleb_dec_aux bs shift acc = Some (h, r) ->
  (length r < length bs)%nat /\ (wf_bytes bs -> wf_bytes r).
Proof.
  induction bs as [|b bs IH]; intros shift acc h r Hdec; [discriminate Hdec|].
  cbn [uleb_dec_aux] in Hdec. destruct (b <? 128).
  - injection Hdec as _ <-. cbn [length]. split; [lia|].
    intros Hwf. apply wf_bytes_cons in Hwf. apply Hwf.
  - destruct (IH _ _ _ _ Hdec) as [Hl Hw]. cbn [length]. split; [lia|].
    intros Hwf. apply wf_bytes_cons in Hwf. apply Hw, Hwf.
Qed.

(** ** One bit-packed group: the library's tables and the specification layout *)

Lemma unpack_spec_eq w g :
  In w widths -> length g = N.to_nat w -> wf_bytes g -> unpack w g = spec_unpack w g.
Proof.
  intros Hw Hl Hwf.
  assert (Hl8 : length (unpack w g) = 8%nat) by (rewrite unpack_length; apply unpack_table_length; exact Hw).
  pose proof (unpack_bounded w g Hw Hl Hwf) as Hb.
  pose proof (pack_unpack_eq w g Hw Hl Hwf) as Hpu.
  rewrite (pack_spec w _ Hw Hl8 Hb) in Hpu.
  rewrite <- Hpu at 2. symmetry. apply spec_unpack_pack; assumption.
Qed.

Lemma skipn_plus {A} a b (l : list A) : skipn (a + b) l = skipn b (skipn a l).
Proof.
  revert l. induction a as [|a IH]; intros l; [reflexivity|].
  destruct l as [|x l]; cbn [Nat.add skipn]; [rewrite skipn_nil; reflexivity | apply IH].
Qed.

Lemma take_groups_unpack w : In w widths -> forall g r gs r',
  wf_bytes r -> take_groups w g r = Some (gs, r') ->
  r' = skipn (g * N.to_nat w) r /\ (g * N.to_nat w <= length r)%nat /\
  forall fuel, (g * N.to_nat w < fuel)%nat ->
               unpack_all fuel w (firstn (g * N.to_nat w) r) = concat gs.
Proof.
  intros Hw. pose proof (widths_pos w Hw) as Hwp.
  induction g as [|g IH]; intros r gs r' Hwf Htg; cbn [take_groups] in Htg.
  - injection Htg as <- <-. cbn [Nat.mul firstn skipn concat]. split; [reflexivity|]. split; [lia|].
    intros fuel _. apply unpack_all_nil.
  - destruct (Nat.leb (N.to_nat w) (length r)) eqn:Ele; [|discriminate Htg].
    apply Nat.leb_le in Ele.
    destruct (take_groups w g (skipn (N.to_nat w) r)) as [[gs0 r0]|] eqn:E0; [|discriminate Htg].
    injection Htg as <- <-.
    destruct (IH _ _ _ (wf_bytes_skipn _ _ Hwf) E0) as (Hr & Hlen & Hun).
    rewrite skipn_length in Hlen.
    replace (S g * N.to_nat w)%nat with (N.to_nat w + g * N.to_nat w)%nat by lia.
    split; [|split; [lia|]].
    + rewrite Hr. symmetry. apply skipn_plus.
    + intros fuel Hf. destruct fuel as [|fuel]; [lia|].
      rewrite unpack_all_step.
      2:{ apply length_pos_nonnil. rewrite firstn_length. lia. }
      rewrite firstn_firstn. replace (Nat.min (N.to_nat w) (N.to_nat w + g * N.to_nat w)) with (N.to_nat w) by lia.
      rewrite <- firstn_skipn_comm. rewrite Hun by lia. cbn [concat]. f_equal.
      apply unpack_spec_eq; [exact Hw | apply firstn_length_le; exact Ele | apply wf_bytes_firstn; exact Hwf].
Qed.

(** ** One run of each kind *)

Lemma read_rle_run_agree w h r v r' :
  In w widths -> take_le (value_bytes w) r = Some (v, r') ->
  read_rle_run w h r = Ok (repeat v (N.to_nat (h / 2)), r').
Proof.
  intros Hw Ht. unfold read_rle_run. rewrite (widths_div w Hw).
  rewrite (widths_value_bytes w Hw) in Ht. unfold take_le in Ht.
  destruct r as [|b r0]; cbn [length Nat.leb] in Ht; [discriminate Ht|].
  cbn [firstn skipn le_dec] in Ht. injection Ht as <- <-.
  rewrite N.add_0_r. reflexivity.
Qed.

Lemma read_bp_agree w h r gs r' :
  In w widths -> wf_bytes r -> h / 2 <> 0 -> w * (h / 2) <= N.of_nat (length r) ->
  take_groups w (N.to_nat (h / 2)) r = Some (gs, r') ->
  read_bp w h r = Ok (concat gs, r').
Proof.
  intros Hw Hwf Hg Hlen Htg. pose proof (widths_pos w Hw) as Hwp.
  destruct (take_groups_unpack w Hw _ _ _ _ Hwf Htg) as (Hr & Hle & Hun).
  assert (Hbc : N.to_nat (w * (h / 2 * 8) / 8) = (N.to_nat (h / 2) * N.to_nat w)%nat) by nia.
  rewrite read_bp_nonempty; [|lia|].
  2:{ apply length_pos_nonnil. nia. }
  cbv zeta. rewrite Hbc.
  rewrite firstn_length_le by exact Hle. rewrite Nat.sub_diag. cbn [repeat]. rewrite app_nil_r.
  rewrite Hun by lia. rewrite <- Hr. reflexivity.
Qed.

(** ** The loop *)

Lemma run_small_header c : c < 2 ^ 63 -> forall h, h / 2 = c -> h < 2 ^ 64.
Proof. intros Hc h Hh. change (2 ^ 64) with (2 * 2 ^ 63). lia. Qed.

Lemma take_le_suffix k r v r' :
  take_le k r = Some (v, r') -> (length r' <= length r)%nat /\ (wf_bytes r -> wf_bytes r').
Proof.
  unfold take_le. destruct (Nat.leb k (length r)); [|discriminate].
  intros H. injection H as _ <-. rewrite skipn_length. split; [lia | apply wf_bytes_skipn].
Qed.

Lemma rle_loop_agree w : In w widths -> forall f bs rs,
  wf_bytes bs -> nlen bs < 2 ^ 62 -> hybrid_decode_fuel f w bs = Some rs -> Forall run_small rs ->
  forall f' acc, (length bs < f')%nat -> rle_loop f' w bs acc = Ok (acc ++ runs_values rs).
Proof.
  intros Hw. pose proof (widths_pos w Hw) as Hwp.
  induction f as [|f IH]; intros bs rs Hwf H62 Hdec Hsmall f' acc Hfuel; [discriminate Hdec|].
  rewrite hybrid_decode_fuel_S in Hdec.
  destruct f' as [|f']; [lia|].
  destruct bs as [|b bs0] eqn:Ebs.
  { injection Hdec as <-. rewrite rle_loop_nil. unfold runs_values. cbn [map concat]. rewrite app_nil_r. reflexivity. }
  rewrite <- Ebs in *. assert (Hne : bs <> []) by (rewrite Ebs; discriminate). clear Ebs b bs0.
  unfold decode_step in Hdec.
  destruct (uleb_dec bs) as [[h r]|] eqn:Eu; [|discriminate Hdec].
  pose proof (uleb_go_agree bs h r Hwf Eu) as Hgo.
  destruct (uleb_dec_aux_suffix _ _ _ _ _ Eu) as [Hlr Hwr]. specialize (Hwr Hwf).
  destruct (N.even h) eqn:Eev.
  - destruct (take_le (value_bytes w) r) as [[v r']|] eqn:Et; [|discriminate Hdec].
    destruct ((1 <=? h / 2) && valb w v); [|discriminate Hdec].
    destruct (hybrid_decode_fuel f w r') as [rs'|] eqn:Er; [|discriminate Hdec].
    injection Hdec as <-. apply Forall_cons_iff in Hsmall. destruct Hsmall as [Hs1 Hs].
    cbn [run_small] in Hs1. pose proof (run_small_header _ Hs1 h eq_refl) as Hh.
    rewrite N.mod_small in Hgo by exact Hh.
    rewrite (rle_loop_step f' w bs acc h r Hne Hgo), Eev, (read_rle_run_agree w h r v r' Hw Et).
    destruct (take_le_suffix _ _ _ _ Et) as [Hlr' Hwr'].
    rewrite (IH r' rs' (Hwr' Hwr) ltac:(unfold nlen in *; lia) Er Hs) by lia.
    rewrite runs_values_cons, app_assoc. reflexivity.
  - destruct (h / 2 =? 0) eqn:Eg; [discriminate Hdec|]. apply N.eqb_neq in Eg.
    destruct (N.of_nat (length r) <? w * (h / 2)) eqn:El; [discriminate Hdec|]. apply N.ltb_ge in El.
    destruct (take_groups w (N.to_nat (h / 2)) r) as [[gs r']|] eqn:Et; [|discriminate Hdec].
    destruct (hybrid_decode_fuel f w r') as [rs'|] eqn:Er; [|discriminate Hdec].
    injection Hdec as <-. apply Forall_cons_iff in Hsmall. destruct Hsmall as [_ Hs].
    assert (Hh : h < 2 ^ 64).
    { unfold nlen in H62. change (2 ^ 64) with (4 * 2 ^ 62). nia. }
    rewrite N.mod_small in Hgo by exact Hh.
    rewrite (rle_loop_step f' w bs acc h r Hne Hgo), Eev, (read_bp_agree w h r gs r' Hw Hwr Eg El Et).
    destruct (take_groups_unpack w Hw _ _ _ _ Hwr Et) as (Hr' & Hle & _).
    assert (Hwr' : wf_bytes r') by (rewrite Hr'; apply wf_bytes_skipn; exact Hwr).
    assert (Hlr' : (length r' <= length r)%nat) by (rewrite Hr', skipn_length; lia).
    rewrite (IH r' rs' Hwr' ltac:(unfold nlen in *; lia) Er Hs) by lia.
    rewrite runs_values_cons, app_assoc. reflexivity.
Qed.

(** ** Run counts are bounded by the number of decoded values *)

Lemma runs_small_of_length rs : nlen (runs_values rs) < 2 ^ 63 -> Forall run_small rs.
Proof.
  induction rs as [|r rs IH]; intros Hlen; [constructor|].
  rewrite runs_values_cons, nlen_app in Hlen. constructor.
  - destruct r as [c v|gs]; cbn [run_small]; [|exact I].
    cbn [run_values] in Hlen. unfold nlen in Hlen. rewrite repeat_length in Hlen. lia.
  - apply IH. lia.
Qed.

(** ** The framed section: (a) of C04's strong form.

    Whatever framed stream the specification decoder accepts, it is
    [4-byte length ++ body ++ rest] with [hybrid_decode w body = Some rs]; the
    library decoder returns the same values and reports [4 + length body]
    bytes consumed, i.e. it stops exactly where the specification decoder
    stops.  Side conditions: width 1..4, bytes below 256, announced length
    below 2^31 (the library reads it as an int32), RLE run counts below 2^63
    (the library reads the run header into a uint64). *)
Theorem rle_read_agrees w bs rs rest :
  In w widths -> wf_bytes bs -> hybrid_decode_framed w bs = Some (rs, rest) ->
  le_dec (firstn 4 bs) < 2 ^ 31 -> Forall run_small rs ->
  exists body,
    bs = firstn 4 bs ++ body ++ rest /\ length (firstn 4 bs) = 4%nat /\
    nlen body = le_dec (firstn 4 bs) /\ hybrid_decode w body = Some rs /\
    rle_read w bs = Ok (runs_values rs, (4 + length body)%nat).
Proof.
  intros Hw Hwf Hdec Hlen Hsmall. unfold hybrid_decode_framed, take_le in Hdec.
  destruct (Nat.leb 4 (length bs)) eqn:E4; [|discriminate Hdec]. apply Nat.leb_le in E4.
  set (len := le_dec (firstn 4 bs)) in *. set (r := skipn 4 bs) in *.
  destruct (N.of_nat (length r) <? len) eqn:El; [discriminate Hdec|]. apply N.ltb_ge in El.
  destruct (hybrid_decode w (firstn (N.to_nat len) r)) as [rs'|] eqn:Eh; [|discriminate Hdec].
  injection Hdec as -> <-.
  set (body := firstn (N.to_nat len) r) in *.
  assert (Hbl : length body = N.to_nat len) by (apply firstn_length_le; lia).
  exists body. split; [|split; [|split; [|split]]].
  - unfold body, r. rewrite (firstn_skipn (N.to_nat len)), (firstn_skipn 4). reflexivity.
  - apply firstn_length_le. exact E4.
  - unfold nlen. lia.
  - exact Eh.
  - unfold rle_read. replace (Nat.ltb (length bs) 4) with false by (symmetry; apply Nat.ltb_ge; exact E4).
    fold len. replace (2 ^ 31 <=? len) with false by lia. fold r.
    assert (Hbuf : firstn (N.to_nat len) r ++ repeat 0 (N.to_nat len - length (firstn (N.to_nat len) r)) = body).
    { fold body. rewrite Hbl, Nat.sub_diag. cbn [repeat]. apply app_nil_r. }
    assert (Hloop : rle_loop (S (length body)) w body [] = Ok (runs_values rs)).
    { unfold hybrid_decode in Eh.
      rewrite (rle_loop_agree w Hw (S (length body)) body rs) with (acc := []); [reflexivity | | | exact Eh | exact Hsmall | lia].
      - apply wf_bytes_firstn, wf_bytes_skipn. exact Hwf.
      - unfold nlen. rewrite Hbl. assert (2 ^ 31 <= 2 ^ 62) by (apply N.pow_le_mono_r; lia). lia. }
    assert (Hmatch : forall (X : result (list N * nat)),
               match r, N.to_nat len with [], S _ => Err | _, _ => X end = X).
    { intros X. destruct r as [|x r0]; [|reflexivity].
      cbn [length] in El. replace (N.to_nat len) with 0%nat by lia. reflexivity. }
    rewrite Hmatch, Hbuf, Hloop. rewrite <- Hbl. f_equal. f_equal. lia.
Qed.

(** the form used by the page layer: the consumed count cuts [bs] at [rest] *)
Corollary rle_read_agrees_skip w bs rs rest :
  In w widths -> wf_bytes bs -> hybrid_decode_framed w bs = Some (rs, rest) ->
  nlen bs < 2 ^ 31 -> Forall run_small rs ->
  exists n, rle_read w bs = Ok (runs_values rs, n) /\ skipn n bs = rest /\ (n <= length bs)%nat /\ (4 <= n)%nat.
Proof.
  intros Hw Hwf Hdec Hlen Hsmall.
  assert (H31 : le_dec (firstn 4 bs) < 2 ^ 31).
  { unfold hybrid_decode_framed, take_le in Hdec.
    destruct (Nat.leb 4 (length bs)); [|discriminate Hdec].
    destruct (N.of_nat (length (skipn 4 bs)) <? le_dec (firstn 4 bs)) eqn:El; [discriminate Hdec|].
    apply N.ltb_ge in El. rewrite skipn_length in El. unfold nlen in Hlen. lia. }
  destruct (rle_read_agrees w bs rs rest Hw Hwf Hdec H31 Hsmall) as (body & Hbs & H4 & _ & _ & Hrd).
  exists (4 + length body)%nat. split; [exact Hrd|].
  assert (Hl : length bs = (4 + length body + length rest)%nat).
  { rewrite Hbs at 1. rewrite !app_length, H4. lia. }
  split; [|lia].
  set (hd := firstn 4 bs) in *.
  replace (4 + length body)%nat with (length (hd ++ body)) by (rewrite app_length; lia).
  rewrite Hbs, app_assoc. apply skipn_app_exact.
Qed.

(** [wf_bytes] is needed: on a "byte" of 256 the specification reader sees a
    continuation bit ([256 <? 128] is false), the Go reader does not
    ([256 & 128 = 0]) *)
Example wf_bytes_needed :
  uleb_dec [256; 1] = Some (128, []) /\ read_leb128_go [256; 1] 0 0 = Some (0, [1]).
Proof. vm_compute. split; reflexivity. Qed.

(** [run_small] is needed: a run header of 2^64 (count 2^63) is read as 0 by
    the Go routine's uint64 accumulator *)
Example run_small_needed :
  uleb_dec [128; 128; 128; 128; 128; 128; 128; 128; 128; 2] = Some (2 ^ 64, []) /\
  read_leb128_go [128; 128; 128; 128; 128; 128; 128; 128; 128; 2] 0 0 = Some (0, []).
Proof. vm_compute. split; reflexivity. Qed.

Print Assumptions rle_read_agrees.
Print Assumptions rle_read_agrees_skip.
