(** * WriteBuffer: internal/rle/buf.go as executable Gallina, and the level
    encoder of internal/rle/rle.go running on it.

    [Rle.v] models the encoder's output by its logical content [d[:i]]
    ([r_out]); here the real [writeBuffer] is modelled with both of its
    fields, the backing slice [d] (created with LENGTH [size], zero filled) and
    the write index [i], and [writeAt] with its three branches.  The second
    half repeats the encoder of [Rle.v] line by line on top of this buffer
    ([rle_b], [rle_write_b], [rle_flush_b], [rle_bytes_b], [rle_encode_b]).
    Definitions only; proofs (refinement of the logical-content model and the
    simulation [rle_encode_b = rle_encode]) in WriteBufferProofs.v. *)
From Coq Require Import List NArith Lia Bool Arith PeanoNat.
From PQ Require Import Bytes Varint Bitpack Rle.
Import ListNotations.
Local Open Scope N_scope.

(** ** The buffer *)

Record wbuf := {
  wb_d : bytes;            (* d *)
  wb_i : nat               (* i *)
}.

(** [newWriteBuffer(size)]: [d: make([]byte, size)], [i = 0]. *)
Definition wb_new (size : nat) : wbuf :=
  {| wb_d := repeat 0 size; wb_i := 0%nat |}.

(** Go's builtin [copy(dst, src)]: overwrites the first
    [min(len(dst), len(src))] bytes of [dst]; the result is the new content of
    [dst]. *)
Definition go_copy (dst src : bytes) : bytes :=
  firstn (length dst) src ++ skipn (length src) dst.

(** [copy(d[off:], dat)] seen on the whole of [d] (for [off <= len(d)]; the
    slice expression would panic otherwise, which [writeAt] never reaches). *)
Definition copy_at (off : nat) (dat d : bytes) : bytes :=
  firstn off d ++ go_copy (skipn off d) dat.

(** [writeAt(dat, off)] *)
Definition wb_write_at (dat : bytes) (off : nat) (w : wbuf) : wbuf :=
  (* if len(dat)+off > w.i { w.i = len(dat)+off } *)
  let i' := if Nat.ltb (wb_i w) (length dat + off) then (length dat + off)%nat else wb_i w in
  (* if off == len(w.d) { w.d = append(w.d, dat...); return } *)
  if Nat.eqb off (length (wb_d w)) then
    {| wb_d := wb_d w ++ dat; wb_i := i' |}
  else
    (* if off+len(dat) >= len(w.d) { nd := make([]byte, off+len(dat)); copy(nd, w.d); w.d = nd } *)
    let d1 :=
      if Nat.leb (length (wb_d w)) (off + length dat)
      then go_copy (repeat 0 (off + length dat)%nat) (wb_d w)
      else wb_d w in
    (* copy(w.d[off:], dat) *)
    {| wb_d := copy_at off dat d1; wb_i := i' |}.

(** [write(dat)] *)
Definition wb_write (dat : bytes) (w : wbuf) : wbuf := wb_write_at dat (wb_i w) w.

(** [bytes()] = [w.d[:w.i]]; [size()] is [wb_i]. *)
Definition wb_bytes (w : wbuf) : bytes := firstn (wb_i w) (wb_d w).

(** The slice expression [w.d[:w.i]] is in range. *)
Definition wb_inv (w : wbuf) : Prop := (wb_i w <= length (wb_d w))%nat.

(** ** The encoder of rle.go on the real buffer (mirrors [Rle.v]) *)

Record rle_b := {
  b_w : N;                 (* bitWidth *)
  b_out : wbuf;            (* out *)
  b_prev : N;              (* prev *)
  b_buf : list N;          (* valBuf[0 .. bufCount) *)
  b_rep : N;               (* repeatCount *)
  b_groups : N;            (* groupCount *)
  b_hp : option nat        (* headerPointer; None = -1 *)
}.

(** [New(width, size)] *)
Definition rle_new_b (w : N) (size : nat) : rle_b :=
  {| b_w := w; b_out := wb_new size; b_prev := 0; b_buf := []; b_rep := 0;
     b_groups := 0; b_hp := None |}.

(** [endPreviousBitPackedRun]: [out.writeAt([]byte{header}, headerPointer)] *)
Definition end_previous_bp_b (r : rle_b) : rle_b :=
  match b_hp r with
  | None => r
  | Some hp =>
      {| b_w := b_w r;
         b_out := wb_write_at [(2 * b_groups r + 1) mod 256] hp (b_out r);
         b_prev := b_prev r; b_buf := b_buf r; b_rep := b_rep r;
         b_groups := 0; b_hp := None |}
  end.

(** [writeOrAppendBitPackedRun]: [out.write([]byte{0}); headerPointer =
    out.size() - 1] when no run is open, then [out.write(tmp)]. *)
Definition write_or_append_bp_b (r : rle_b) (vals8 : list N) : rle_b :=
  let r1 := if 63 <=? b_groups r then end_previous_bp_b r else r in
  let '(out2, hp2) :=
    match b_hp r1 with
    | None => let o := wb_write [0] (b_out r1) in (o, Some (wb_i o - 1)%nat)
    | Some hp => (b_out r1, Some hp)
    end in
  {| b_w := b_w r1;
     b_out := wb_write (pack (b_w r1) vals8) out2;
     b_prev := b_prev r1; b_buf := []; b_rep := 0;
     b_groups := b_groups r1 + 1; b_hp := hp2 |}.

(** [writeRLERun]: two separate [out.write] calls. *)
Definition write_rle_run_b (r : rle_b) : rle_b :=
  let r1 := end_previous_bp_b r in
  {| b_w := b_w r1;
     b_out := wb_write (rle_value_bytes (b_w r1) (b_prev r1))
                (wb_write (leb128_go (2 * b_rep r1)) (b_out r1));
     b_prev := b_prev r1; b_buf := []; b_rep := 0;
     b_groups := b_groups r1; b_hp := b_hp r1 |}.

Definition rle_push_b (r : rle_b) (v : N) : rle_b :=
  let r1 := {| b_w := b_w r; b_out := b_out r; b_prev := b_prev r; b_buf := b_buf r ++ [v];
               b_rep := b_rep r; b_groups := b_groups r; b_hp := b_hp r |} in
  if Nat.eqb (length (b_buf r1)) 8 then write_or_append_bp_b r1 (b_buf r1) else r1.

Definition set_rep_prev_b (r : rle_b) (rep prev : N) : rle_b :=
  {| b_w := b_w r; b_out := b_out r; b_prev := prev; b_buf := b_buf r;
     b_rep := rep; b_groups := b_groups r; b_hp := b_hp r |}.

(** [RLE.Write] *)
Definition rle_write_b (r : rle_b) (v : N) : rle_b :=
  if v =? b_prev r then
    let r1 := set_rep_prev_b r (b_rep r + 1) (b_prev r) in
    if 8 <=? b_rep r1 then r1 else rle_push_b r1 v
  else
    let r1 := if 8 <=? b_rep r then write_rle_run_b r else r in
    rle_push_b (set_rep_prev_b r1 1 v) v.

(** [RLE.Bytes], the flushing part *)
Definition rle_flush_b (r : rle_b) : rle_b :=
  if 8 <=? b_rep r then write_rle_run_b r
  else if negb (Nat.eqb (length (b_buf r)) 0) then
    end_previous_bp_b (write_or_append_bp_b r (b_buf r ++ repeat 0 (8 - length (b_buf r))))
  else end_previous_bp_b r.

(** [RLE.Bytes]: [int32(out.size())] little endian, then [out.bytes()]. *)
Definition rle_bytes_b (r : rle_b) : bytes :=
  let out := b_out (rle_flush_b r) in
  le_enc 4 (N.of_nat (wb_i out) mod 2 ^ 32) ++ wb_bytes out.

(** [writeLevels] with [rle.New(width, size)]. *)
Definition rle_encode_b (w : N) (size : nat) (levels : list N) : bytes :=
  rle_bytes_b (fold_left rle_write_b levels (rle_new_b w size)).
