(** * RleProofs: the encoder and decoder theorems composed (C07). *)
From Coq Require Import List NArith Lia Bool.
From Coq Require Import ZifyN ZifyNat ZifyBool.
From PQ Require Import Bytes Varint VarintProofs Bitpack BitpackProofs RleSpec RleSpecProofs Rle RleEncProofs RleDecProofs.
Import ListNotations.
Local Open Scope N_scope.

Lemma closed_ok_small w r : closed_ok w r -> run_small r.
Proof.
  destruct r as [c v|gs]; cbn [closed_ok run_small]; [|trivial].
  intros (_ & Hc & _). assert (2 ^ 31 < 2 ^ 63) by (apply N.pow_lt_mono_r; lia). lia.
Qed.

Lemma closed_ok_wf w r : closed_ok w r -> wf_run w r.
Proof.
  intros H. destruct r as [c v|gs]; cbn [closed_ok] in H; unfold wf_run, wf_runb.
  - destruct H as (Hc & _ & Hv). unfold val_ok in Hv. unfold valb.
    apply andb_true_intro. split; [apply N.leb_le; lia | apply N.ltb_lt; exact Hv].
  - destruct H as (Hl & Hg). apply andb_true_intro. split.
    + destruct (length gs); [lia | reflexivity].
    + apply forallb_forall. intros g Hin. apply group_ok_groupb.
      rewrite Forall_forall in Hg. auto.
Qed.

(** The specification decoder inverts the library's encoder (up to < 8 zeros
    of padding in the last bit-packed group). *)
Theorem spec_decodes_encoder w ls :
  In w widths -> Forall (fun v => v < 2 ^ w) ls -> N.of_nat (length ls) < 2 ^ 31 ->
  exists rs pad,
    hybrid_decode_framed w (rle_encode w ls) = Some (rs, []) /\
    Forall (wf_run w) rs /\
    runs_values rs = ls ++ repeat 0 pad /\ (pad < 8)%nat.
Proof.
  intros Hw Hv Hl.
  destruct (rle_encode_runs w ls Hw Hv Hl) as (rs & pad & Henc & Hok & Hvals & Hpad & Hlen).
  exists rs, pad.
  assert (Hwf : Forall (wf_run w) rs).
  { eapply Forall_impl; [|exact Hok]. intros r. apply closed_ok_wf. }
  repeat split; auto.
  rewrite Henc, <- (app_nil_r (hybrid_encode w rs)).
  apply hybrid_decode_framed_encode; auto.
  unfold nlen. assert (2 ^ 31 + 8 < 2 ^ 32) by (vm_compute; reflexivity). lia.
Qed.

(** The library's decoder inverts the library's encoder. *)
Theorem rle_roundtrip w ls rest :
  In w widths -> Forall (fun v => v < 2 ^ w) ls -> N.of_nat (length ls) + 8 <= 2 ^ 31 ->
  exists pad,
    rle_read w (rle_encode w ls ++ rest) = Ok (ls ++ repeat 0 pad, length (rle_encode w ls)) /\
    (pad < 8)%nat.
Proof.
  intros Hw Hv Hl.
  assert (Hl' : N.of_nat (length ls) < 2 ^ 31) by lia.
  destruct (rle_encode_runs w ls Hw Hv Hl') as (rs & pad & Henc & Hok & Hvals & Hpad & Hlen).
  exists pad. split; [|exact Hpad].
  rewrite Henc, rle_read_ok; auto.
  - rewrite Hvals. unfold hybrid_encode. rewrite app_length, le_enc_length. reflexivity.
  - eapply Forall_impl; [|exact Hok]. intros r. apply closed_ok_wf.
  - eapply Forall_impl; [|exact Hok]. intros r. apply closed_ok_small.
  - unfold nlen. lia.
Qed.
