(** * RoundtripInputs: the file-level theorems of C01 and C02 with every
    hypothesis stated on the inputs (shape, records, sizes), the condition on
    the written footer being derived by PQ.FooterBounds. *)
From Coq Require Import List NArith ZArith.
From PQ Require Import Bytes Schema MetaTypes Writer Reader ReaderProofs ReaderProofs2 FooterBounds.
Import ListNotations.
Local Open Scope N_scope.

Section WithCodec.
Variable compress : Z -> bytes -> bytes.
Variable decompress : Z -> bytes -> option bytes.
Hypothesis Hcodec : forall c x, ReaderProofs.codec_ok c -> decompress c (compress c x) = Some x.
Hypothesis Hident : forall x, compress CODEC_UNCOMPRESSED x = x.

Theorem write_read_roundtrip_inputs M cfg bs :
  ReaderProofs2.cfg_ok cfg -> Forall (ReaderProofs2.batch_ok compress cfg) bs ->
  shape_names_ok (cfg_fields cfg) -> 4 <= M -> shape_names_le M (cfg_fields cfg) ->
  footer_len_bound M (columns (cfg_fields cfg)) (nlen bs) < 2 ^ 32 ->
  Forall (fun b => nlen b < 2 ^ 31) bs ->
  nlen (ReaderProofs2.data_bytes compress cfg bs) + 4 < 2 ^ 62 ->
  read_all decompress (cfg_fields cfg) (file_of_batches compress cfg bs) =
  {| o_open_ok := true;
     o_rows := Z.of_nat (length (concat bs));
     o_nexts := N.of_nat (length (concat bs));
     o_err := false; o_panic := false;
     o_recs := concat bs |}.
Proof.
  intros Hcfg Hbs Hn HM Hle Hft Hb Hd.
  pose proof (footer_ok_written compress M cfg bs Hcfg Hbs Hn HM Hle Hft Hb Hd) as Hfo.
  exact (write_read_roundtrip compress decompress Hcodec Hident cfg bs Hcfg Hbs Hfo).
Qed.
End WithCodec.

Print Assumptions write_read_roundtrip_inputs.
