(** * FileSpec: an independent validator of Parquet files of the supported
    subset.  [check_file] is the executable definition of "structurally valid
    with a truthful footer" (property C02): it is written from the format
    specification, walks the file by the footer's offsets (not sequentially
    like the library's reader), decodes levels with the specification decoder
    of [RleSpec] and values with the strict PLAIN decoder, and reassembles the
    records with the reference [Dremel.assemble_records].  It shares no code
    with [Writer.v] or [Reader.v].  Definitions only. *)
From Coq Require Import List NArith ZArith Lia Bool.
From PQ Require Import Bytes Schema Dremel RleSpec Plain Stats MetaTypes Thrift Meta.
Import ListNotations.
Local Open Scope N_scope.

Inductive verr :=
| ETooShort | EHeadMagic | ETailMagic | EFooterLen | EFooterDecode | EFooterTrailing
| ESchemaEmpty | ESchemaTree | ESchemaLeaf | ESchemaGroup | ESchemaLeftover
| EColumnCount | EChunkNoMeta | EChunkPath | EChunkType | EChunkCodec | EChunkOffset | EChunkFileOffset
| EPageHeader | EPageType | EPageEncoding | EPageSizes | EPageBody | EPageDecompress | EPageUncompressedSize
| EPageRepLevels | EPageDefLevels | EPageLevelRange | EPageLevelPadding | EPageFirstRep | EPageValues | EPageEmpty
| EChunkCompressedSize | EChunkUncompressedSize | EChunkNumValues
| ERowGroupRows | ERowGroupByteSize | EGapBeforeFooter | EFileRows | EAssemble | EFuel.

Record page_view := {
  pv_offset : N;
  pv_header_len : N;
  pv_header : page_header;
  pv_entries : list entry;
  pv_records : N;            (* records starting in this page *)
  pv_stats_ok : bool         (* Stats.stats_sound on the page's statistics *)
}.

Record chunk_view := {
  cv_col : col;
  cv_meta : column_meta;
  cv_file_offset : Z;
  cv_pages : list page_view
}.

Record rg_view := {
  rv_rows : N;
  rv_chunks : list chunk_view;
  rv_records : list value    (* reassembled from the columns by the reference assembler *)
}.

Record file_view := {
  fv_meta : file_meta;
  fv_fields : list field;    (* struct shape rebuilt from the footer schema *)
  fv_cols : list col;
  fv_rgs : list rg_view
}.

Definition magic_bytes : bytes := [80; 65; 82; 49].
Definition bytes_eq (a b : bytes) : bool := if list_eq_dec N.eq_dec a b then true else false.

Definition slice (off len : N) (bs : bytes) : bytes := firstn (N.to_nat len) (skipn (N.to_nat off) bs).

(** ** Footer schema -> struct shape *)

Definition prim_of_schema (t : Z) (conv : option Z) : option prim :=
  if Z.eqb t TYPE_BOOLEAN then Some PBool
  else if Z.eqb t TYPE_INT32 then (match conv with Some c => if Z.eqb c CT_UINT_32 then Some PUint32 else Some PInt32 | None => Some PInt32 end)
  else if Z.eqb t TYPE_INT64 then (match conv with Some c => if Z.eqb c CT_UINT_64 then Some PUint64 else Some PInt64 | None => Some PInt64 end)
  else if Z.eqb t TYPE_FLOAT then Some PFloat32
  else if Z.eqb t TYPE_DOUBLE then Some PFloat64
  else if Z.eqb t TYPE_BYTE_ARRAY then Some PString
  else None.

Definition rept_of_code (z : option Z) : option rept :=
  match z with
  | Some c => if Z.eqb c REP_REQUIRED then Some Req else if Z.eqb c REP_OPTIONAL then Some Opt
              else if Z.eqb c REP_REPEATED then Some Rep else None
  | None => None
  end.

(** parse [n] sibling nodes in pre-order from the element list *)
Fixpoint parse_fields (fuel : nat) (n : nat) (els : list schema_element) : verr + (list field * list schema_element) :=
  match fuel with
  | O => inl EFuel
  | S f =>
      match n with
      | O => inr ([], els)
      | S n' =>
          match els with
          | [] => inl ESchemaTree
          | e :: rest =>
              match rept_of_code (se_repetition e) with
              | None => inl ESchemaTree
              | Some rp =>
                  match se_type e with
                  | Some t =>
                      (* a leaf: no children *)
                      match se_num_children e with
                      | Some c => if Z.eqb c 0 then
                                    match prim_of_schema t (se_converted e) with
                                    | Some p => match parse_fields f n' rest with
                                                | inr (fs, rest') => inr ((se_name e, rp, TLeaf p) :: fs, rest')
                                                | inl er => inl er end
                                    | None => inl ESchemaLeaf end
                                  else inl ESchemaLeaf
                      | None =>
                          match prim_of_schema t (se_converted e) with
                          | Some p => match parse_fields f n' rest with
                                      | inr (fs, rest') => inr ((se_name e, rp, TLeaf p) :: fs, rest')
                                      | inl er => inl er end
                          | None => inl ESchemaLeaf end
                      end
                  | None =>
                      match se_num_children e with
                      | Some c =>
                          if (0 <? c)%Z then
                            match parse_fields f (Z.to_nat c) rest with
                            | inr (kids, rest') =>
                                match parse_fields f n' rest' with
                                | inr (fs, rest'') => inr ((se_name e, rp, TGroup kids) :: fs, rest'')
                                | inl er => inl er end
                            | inl er => inl er end
                          else inl ESchemaGroup
                      | None => inl ESchemaGroup
                      end
                  end
              end
          end
      end
  end.

Definition parse_schema (els : list schema_element) : verr + list field :=
  match els with
  | [] => inl ESchemaEmpty
  | root :: rest =>
      match se_type root, se_num_children root with
      | None, Some c =>
          if (0 <? c)%Z then
            match parse_fields (S (S (length els))) (Z.to_nat c) rest with
            | inr (fs, []) => inr fs
            | inr (_, _ :: _) => inl ESchemaLeftover
            | inl er => inl er
            end
          else inl ESchemaTree
      | _, _ => inl ESchemaTree
      end
  end.

Definition phys_type (p : prim) : Z :=
  match p with
  | PInt32 | PUint32 => TYPE_INT32 | PInt64 | PUint64 => TYPE_INT64
  | PFloat32 => TYPE_FLOAT | PFloat64 => TYPE_DOUBLE | PBool => TYPE_BOOLEAN | PString => TYPE_BYTE_ARRAY
  end.

Section WithCodec.

(** [decompress codec body]: None when the codec rejects the bytes. *)
Variable decompress : Z -> bytes -> option bytes.

(** ** One page *)

Definition bit_width (n : N) : N := N.of_nat (N.size_nat n).

(** a level section: framed hybrid stream, at least [n] values, fewer than 8 of padding *)
Definition take_levels (w : N) (n : nat) (maxlvl : N) (bs : bytes) : verr + (list N * bytes) :=
  match hybrid_decode_framed w bs with
  | None => inl EPageDefLevels
  | Some (rs, rest) =>
      let vs := runs_values rs in
      if Nat.ltb (length vs) n then inl EPageDefLevels
      else if Nat.leb 8 (length vs - n) then inl EPageLevelPadding
      else
        let ls := firstn n vs in
        if forallb (fun l => l <=? maxlvl) ls then inr (ls, rest) else inl EPageLevelRange
  end.

Fixpoint zip_entries (reps defs : list N) (maxdef : N) (vals : list value) : list entry :=
  match reps, defs with
  | r :: reps', d :: defs' =>
      if d =? maxdef then
        match vals with
        | v :: vals' => {| e_rep := r; e_def := d; e_val := Some v |} :: zip_entries reps' defs' maxdef vals'
        | [] => []
        end
      else {| e_rep := r; e_def := d; e_val := None |} :: zip_entries reps' defs' maxdef vals
  | _, _ => []
  end.

Definition check_page (c : col) (codec : Z) (off : N) (bs : bytes) : verr + (page_view * N) :=
  (* [bs] = the file from [off] on *)
  match dec_page_header bs with
  | None => inl EPageHeader
  | Some (ph, rest) =>
      let hlen := N.of_nat (length bs - length rest) in
      if negb (Z.eqb (ph_type ph) PT_DATA_PAGE) then inl EPageType
      else match ph_data ph with
      | None => inl EPageType
      | Some dph =>
          if negb (Z.eqb (dph_encoding dph) ENC_PLAIN) then inl EPageEncoding
          else if (0 <? max_def c) && negb (Z.eqb (dph_def_encoding dph) ENC_RLE) then inl EPageEncoding
          else if (0 <? max_rep c) && negb (Z.eqb (dph_rep_encoding dph) ENC_RLE) then inl EPageEncoding
          else if ((ph_compressed_size ph <? 0) || (ph_uncompressed_size ph <? 0) || (dph_num_values dph <? 0))%Z then inl EPageSizes
          else
            let clen := Z.to_N (ph_compressed_size ph) in
            if N.of_nat (length rest) <? clen then inl EPageBody
            else
              match decompress codec (firstn (N.to_nat clen) rest) with
              | None => inl EPageDecompress
              | Some payload =>
                  if negb (nlen payload =? Z.to_N (ph_uncompressed_size ph)) then inl EPageUncompressedSize
                  else
                    let n := Z.to_nat (dph_num_values dph) in
                    if Nat.eqb n 0 then inl EPageEmpty
                    else
                    let reps_r :=
                      if 0 <? max_rep c then
                        match take_levels (bit_width (max_rep c)) n (max_rep c) payload with
                        | inr x => inr x
                        | inl EPageDefLevels => inl EPageRepLevels
                        | inl e => inl e
                        end
                      else inr (repeat 0 n, payload) in
                    match reps_r with
                    | inl e => inl e
                    | inr (reps, p1) =>
                        let defs_r :=
                          if 0 <? max_def c then take_levels (bit_width (max_def c)) n (max_def c) p1
                          else inr (repeat 0 n, p1) in
                        match defs_r with
                        | inl e => inl e
                        | inr (defs, p2) =>
                            if negb (match reps with r0 :: _ => r0 =? 0 | [] => true end) then inl EPageFirstRep
                            else
                              let nvals := length (filter (fun d => d =? max_def c) defs) in
                              match plain_dec_strict (c_prim c) nvals p2 with
                              | None => inl EPageValues
                              | Some vals =>
                                  let entries := zip_entries reps defs (max_def c) vals in
                                  let st_ok := match dph_statistics dph with
                                               | Some st => stats_sound (c_prim c) (max_def c) entries st
                                               | None => true end in
                                  inr ({| pv_offset := off; pv_header_len := hlen; pv_header := ph;
                                          pv_entries := entries;
                                          pv_records := count_rep0 entries;
                                          pv_stats_ok := st_ok |},
                                       hlen + clen)
                              end
                        end
                    end
              end
      end
  end.

(** walk the pages of a chunk: exactly [remaining] bytes *)
Fixpoint check_pages (fuel : nat) (c : col) (codec : Z) (off remaining : N) (bs : bytes) : verr + list page_view :=
  match fuel with
  | O => inl EFuel
  | S f =>
      if remaining =? 0 then inr []
      else
        match check_page c codec off bs with
        | inl e => inl e
        | inr (pv, used) =>
            if remaining <? used then inl EChunkCompressedSize
            else match check_pages f c codec (off + used) (remaining - used) (skipn (N.to_nat used) bs) with
                 | inr pvs => inr (pv :: pvs)
                 | inl e => inl e
                 end
        end
  end.

Definition codec_supported (z : Z) : bool := Z.eqb z CODEC_UNCOMPRESSED || Z.eqb z CODEC_SNAPPY || Z.eqb z CODEC_GZIP.

Definition path_eq (a b : list bytes) : bool := if list_eq_dec (list_eq_dec N.eq_dec) a b then true else false.

Definition check_chunk (file : bytes) (limit : N) (c : col) (pos : N) (cc : column_chunk) : verr + (chunk_view * N) :=
  match cc_meta cc with
  | None => inl EChunkNoMeta
  | Some cm =>
      if negb (path_eq (cm_path cm) (c_path c)) then inl EChunkPath
      else if negb (Z.eqb (cm_type cm) (phys_type (c_prim c))) then inl EChunkType
      else if negb (codec_supported (cm_codec cm)) then inl EChunkCodec
      else if negb (Z.eqb (cm_data_page_offset cm) (Z.of_N pos)) then inl EChunkOffset
      else if ((cm_total_compressed cm <? 0) || (cm_total_uncompressed cm <? 0) || (cm_num_values cm <? 0))%Z then inl EChunkCompressedSize
      else
        let total := Z.to_N (cm_total_compressed cm) in
        if limit <? pos + total then inl EChunkCompressedSize
        else if negb (Z.eqb (cc_file_offset cc) 0 || Z.eqb (cc_file_offset cc) (Z.of_N pos)
                      || Z.eqb (cc_file_offset cc) (Z.of_N (pos + total))) then inl EChunkFileOffset
        else
          match check_pages (S (N.to_nat total)) c (cm_codec cm) pos total (skipn (N.to_nat pos) file) with
          | inl e => inl e
          | inr pvs =>
              let nvals := sumN (map (fun pv => nlen (pv_entries pv)) pvs) in
              let unc := sumN (map (fun pv => pv_header_len pv + Z.to_N (ph_uncompressed_size (pv_header pv))) pvs) in
              if negb (Z.to_N (cm_num_values cm) =? nvals) then inl EChunkNumValues
              else if negb (Z.to_N (cm_total_uncompressed cm) =? unc) then inl EChunkUncompressedSize
              else inr ({| cv_col := c; cv_meta := cm; cv_file_offset := cc_file_offset cc; cv_pages := pvs |}, pos + total)
          end
  end.

Fixpoint check_chunks (file : bytes) (limit : N) (cols : list col) (pos : N) (ccs : list column_chunk)
  : verr + (list chunk_view * N) :=
  match cols, ccs with
  | [], [] => inr ([], pos)
  | c :: cols', cc :: ccs' =>
      match check_chunk file limit c pos cc with
      | inl e => inl e
      | inr (cv, pos') =>
          match check_chunks file limit cols' pos' ccs' with
          | inr (cvs, pos'') => inr (cv :: cvs, pos'')
          | inl e => inl e
          end
      end
  | _, _ => inl EColumnCount
  end.

Definition chunk_entries (cv : chunk_view) : list entry := flat_map pv_entries (cv_pages cv).

Definition check_row_group (file : bytes) (limit : N) (fs : list field) (cols : list col) (pos : N) (rg : row_group)
  : verr + (rg_view * N) :=
  match check_chunks file limit cols pos (rg_columns rg) with
  | inl e => inl e
  | inr (cvs, pos') =>
      if (rg_num_rows rg <? 0)%Z then inl ERowGroupRows
      else
        let rows := Z.to_N (rg_num_rows rg) in
        if negb (forallb (fun cv => count_rep0 (chunk_entries cv) =? rows) cvs) then inl ERowGroupRows
        else
          let comp := sumN (map (fun cv => Z.to_N (cm_total_compressed (cv_meta cv))) cvs) in
          let unc := sumN (map (fun cv => Z.to_N (cm_total_uncompressed (cv_meta cv))) cvs) in
          if negb (Z.eqb (rg_total_byte_size rg) (Z.of_N comp) || Z.eqb (rg_total_byte_size rg) (Z.of_N unc)) then inl ERowGroupByteSize
          else
            match assemble_records fs (map chunk_entries cvs) with
            | None => inl EAssemble
            | Some recs =>
                if negb (nlen recs =? rows) then inl EAssemble
                else inr ({| rv_rows := rows; rv_chunks := cvs; rv_records := recs |}, pos')
            end
  end.

Fixpoint check_row_groups (file : bytes) (limit : N) (fs : list field) (cols : list col) (pos : N) (rgs : list row_group)
  : verr + (list rg_view * N) :=
  match rgs with
  | [] => inr ([], pos)
  | rg :: r =>
      match check_row_group file limit fs cols pos rg with
      | inl e => inl e
      | inr (rv, pos') =>
          match check_row_groups file limit fs cols pos' r with
          | inr (rvs, pos'') => inr (rv :: rvs, pos'')
          | inl e => inl e
          end
      end
  end.

Definition check_file (file : bytes) : verr + file_view :=
  let n := nlen file in
  if n <? 12 then inl ETooShort
  else if negb (bytes_eq (firstn 4 file) magic_bytes) then inl EHeadMagic
  else if negb (bytes_eq (slice (n - 4) 4 file) magic_bytes) then inl ETailMagic
  else
    let flen := le_dec (slice (n - 8) 4 file) in
    if n <? flen + 12 then inl EFooterLen
    else
      let fstart := n - 8 - flen in
      match dec_file_meta (slice fstart flen file) with
      | None => inl EFooterDecode
      | Some (_, _ :: _) => inl EFooterTrailing
      | Some (fm, []) =>
          match parse_schema (fm_schema fm) with
          | inl e => inl e
          | inr fs =>
              let cols := columns fs in
              match check_row_groups file fstart fs cols 4 (fm_row_groups fm) with
              | inl e => inl e
              | inr (rvs, pos) =>
                  if negb (pos =? fstart) then inl EGapBeforeFooter
                  else if negb (Z.eqb (fm_num_rows fm) (Z.of_N (sumN (map rv_rows rvs)))) then inl EFileRows
                  else inr {| fv_meta := fm; fv_fields := fs; fv_cols := cols; fv_rgs := rvs |}
              end
          end
      end.

Definition view_records (v : file_view) : list value := flat_map rv_records (fv_rgs v).

End WithCodec.
