(** * Writer: the generated ParquetWriter (cmd/parquetgen/gen/template.go), the
    field templates' Write methods, RequiredField/OptionalField.DoWrite
    (fields.go) and the Metadata accounting + Footer + schema() of parquet.go,
    as a function from the call history to the sequence of writes on the sink.

    The per-shape shredding functions that parquetgen synthesises are replaced
    by the reference [Dremel.shred_ty]; that the generated ones agree with it
    is checked per shape (C03/C05).  The codec is a parameter.
    Definitions only. *)
From Coq Require Import List NArith ZArith Lia Bool.
From PQ Require Import Bytes Schema Dremel Rle Plain Stats MetaTypes Thrift Meta.
Import ListNotations.
Local Open Scope N_scope.

Definition magic : bytes := [80; 65; 82; 49].   (* "PAR1" *)

(** bits.Len *)
Definition bit_width (n : N) : N := N.of_nat (N.size_nat n).

Fixpoint chunk_fuel {A} (fuel : nat) (n : nat) (l : list A) : list (list A) :=
  match fuel with
  | O => []
  | S f => match l with
           | [] => []
           | _ => firstn n l :: chunk_fuel f n (skipn n l)
           end
  end.

(** the page chain: the first [max] pending records, then the next [max], ... *)
Definition chunk {A} (n : nat) (l : list A) : list (list A) := chunk_fuel (length l) n l.

Section WithCodec.

(** [compress codec payload]: fields.go [compress] — identity for
    UNCOMPRESSED, snappy.Encode, gzip BestSpeed. *)
Variable compress : Z -> bytes -> bytes.

Record config := {
  cfg_fields : list field;     (* the struct shape *)
  cfg_max : nat;               (* MaxPageSize, >= 1 *)
  cfg_codec : Z                (* CompressionCodec *)
}.

Definition prim_type (p : prim) : Z :=
  match p with
  | PInt32 | PUint32 => TYPE_INT32
  | PInt64 | PUint64 => TYPE_INT64
  | PFloat32 => TYPE_FLOAT
  | PFloat64 => TYPE_DOUBLE
  | PBool => TYPE_BOOLEAN
  | PString => TYPE_BYTE_ARRAY
  end.

Definition prim_converted (p : prim) : option Z :=
  match p with
  | PUint32 => Some CT_UINT_32
  | PUint64 => Some CT_UINT_64
  | _ => None
  end.

Definition rept_code (r : rept) : Z :=
  match r with Req => REP_REQUIRED | Opt => REP_OPTIONAL | Rep => REP_REPEATED end.

(** ** One data page of one column *)

Record page := {
  pg_header : page_header;
  pg_header_bytes : bytes;
  pg_body : bytes;           (* compressed payload *)
  pg_count : N;              (* entries (num_values) *)
  pg_payload_len : N         (* uncompressed payload length *)
}.

Definition page_payload (c : col) (entries : list entry) : bytes :=
  let vals := flat_map (fun e => match e_val e with Some v => [v] | None => [] end) entries in
  if col_required c then plain_enc (c_prim c) vals
  else
    (if 0 <? max_rep c then rle_encode (bit_width (max_rep c)) (map e_rep entries) else [])
    ++ rle_encode (bit_width (max_def c)) (map e_def entries)
    ++ plain_enc (c_prim c) vals.

Definition i32 (n : N) : Z := let m := n mod 2 ^ 32 in if m <? 2 ^ 31 then Z.of_N m else (Z.of_N m - 2 ^ 32)%Z.

Definition make_page (codec : Z) (c : col) (entries : list entry) : page :=
  let payload := page_payload c entries in
  let body := compress codec payload in
  let hdr :=
    {| ph_type := PT_DATA_PAGE;
       ph_uncompressed_size := i32 (nlen payload);
       ph_compressed_size := i32 (nlen body);
       ph_crc := None;
       ph_data := Some {| dph_num_values := i32 (nlen entries);
                          dph_encoding := ENC_PLAIN;
                          dph_def_encoding := ENC_RLE;
                          dph_rep_encoding := ENC_RLE;
                          dph_statistics := Some (page_stats (c_prim c) (col_required c) (max_def c) entries) |};
       ph_index := None; ph_dict := None; ph_data_v2 := None |} in
  {| pg_header := hdr; pg_header_bytes := enc_page_header hdr; pg_body := body;
     pg_count := nlen entries; pg_payload_len := nlen payload |}.

(** ** One Write() call with pending records [recs] (non-empty) *)

(** accounting of one column chunk *)
Record chunk_acc := {
  ca_col : col;
  ca_num_values : N;
  ca_uncompressed : N;     (* sum of header + uncompressed payload *)
  ca_compressed : N        (* sum of header + compressed payload *)
}.

Record rg_acc := { ra_rows : N; ra_chunks : list chunk_acc }.

(** entries of column [i] for a list of records *)
Definition column_entries (fs : list field) (i : nat) (recs : list value) : list entry :=
  flat_map (fun r => nth i (shred_record fs r) []) recs.

Definition column_pages (cfg : config) (i : nat) (c : col) (recs : list value) : list page :=
  map (fun pg_recs => make_page (cfg_codec cfg) c (column_entries (cfg_fields cfg) i pg_recs))
      (chunk (cfg_max cfg) recs).

Definition chunk_of_pages (c : col) (pages : list page) : chunk_acc :=
  {| ca_col := c;
     ca_num_values := sumN (map pg_count pages);
     ca_uncompressed := sumN (map (fun p => nlen (pg_header_bytes p) + pg_payload_len p) pages);
     ca_compressed := sumN (map (fun p => nlen (pg_header_bytes p) + nlen (pg_body p)) pages) |}.

Fixpoint index_from {A} (i : nat) (l : list A) : list (nat * A) :=
  match l with [] => [] | x :: r => (i, x) :: index_from (S i) r end.

(** sink writes of one non-empty batch (column-major, per page: header, body) and its accounting *)
Definition write_batch (cfg : config) (recs : list value) : list bytes * rg_acc :=
  let cols := index_from 0 (columns (cfg_fields cfg)) in
  let per_col := map (fun '(i, c) => (c, column_pages cfg i c recs)) cols in
  (flat_map (fun '(c, pages) => flat_map (fun p => [pg_header_bytes p; pg_body p]) pages) per_col,
   {| ra_rows := nlen recs; ra_chunks := map (fun '(c, pages) => chunk_of_pages c pages) per_col |}).

(** ** Footer *)

(** parquet.go schema(): root, then per column the not-yet-seen groups of its
    path (keyed by path prefix) followed by the leaf. *)
Definition path_eqb (a b : list bytes) : bool := if list_eq_dec (list_eq_dec N.eq_dec) a b then true else false.

Fixpoint count_children (prefix : list bytes) (paths : list (list bytes)) (seen : list (list bytes)) : N :=
  (* number of distinct direct children of [prefix] among [paths] *)
  match paths with
  | [] => 0
  | p :: r =>
      let n := length prefix in
      if path_eqb (firstn n p) prefix && Nat.ltb n (length p) then
        let child := firstn (S n) p in
        if existsb (path_eqb child) seen then count_children prefix r seen
        else 1 + count_children prefix r (child :: seen)
      else count_children prefix r seen
  end.

Definition group_elements (all_paths : list (list bytes)) (c : col) (seen : list (list bytes)) : list schema_element * list (list bytes) :=
  (* groups of c's path (all proper prefixes), emitted when first seen *)
  fold_left
    (fun '(out, seen) i =>
       let pre := firstn (S i) (c_path c) in
       if existsb (path_eqb pre) seen then (out, seen)
       else
         (out ++ [ {| se_type := None; se_type_length := None;
                      se_repetition := Some (rept_code (nth i (c_reps c) Req));
                      se_name := nth i (c_path c) [];
                      se_num_children := Some (Z.of_N (count_children pre all_paths []));
                      se_converted := None; se_scale := None; se_precision := None; se_field_id := None |} ],
          pre :: seen))
    (seq 0 (length (c_path c) - 1)) ([], seen).

Definition leaf_element (c : col) : schema_element :=
  {| se_type := Some (prim_type (c_prim c)); se_type_length := None;
     se_repetition := Some (rept_code (last (c_reps c) Req));
     se_name := last (c_path c) [];
     se_num_children := None;
     se_converted := prim_converted (c_prim c);
     se_scale := None; se_precision := None; se_field_id := None |}.

Definition root_name : bytes := [114; 111; 111; 116].   (* "root" *)

Definition schema_of (cols : list col) : list schema_element :=
  let paths := map c_path cols in
  {| se_type := None; se_type_length := None; se_repetition := None; se_name := root_name;
     se_num_children := Some (Z.of_N (count_children [] paths []));
     se_converted := None; se_scale := None; se_precision := None; se_field_id := None |}
  :: fst (fold_left (fun '(out, seen) c =>
                       let '(gs, seen') := group_elements paths c seen in
                       (out ++ gs ++ [leaf_element c], seen'))
                    cols ([], [])).

Definition chunk_meta (codec : Z) (pos : N) (ca : chunk_acc) : column_chunk :=
  {| cc_file_path := None; cc_file_offset := Z.of_N pos;
     cc_meta := Some {| cm_type := prim_type (c_prim (ca_col ca));
                        cm_encodings := [ENC_PLAIN];
                        cm_path := c_path (ca_col ca);
                        cm_codec := codec;
                        cm_num_values := Z.of_N (ca_num_values ca);
                        cm_total_uncompressed := Z.of_N (ca_uncompressed ca);
                        cm_total_compressed := Z.of_N (ca_compressed ca);
                        cm_key_value := None;
                        cm_data_page_offset := Z.of_N pos;
                        cm_index_page_offset := None; cm_dictionary_page_offset := None;
                        cm_statistics := None; cm_encoding_stats := None |};
     cc_offset_index_offset := None; cc_offset_index_length := None;
     cc_column_index_offset := None; cc_column_index_length := None |}.

Fixpoint chunks_meta (codec : Z) (pos : N) (cas : list chunk_acc) : list column_chunk * N :=
  match cas with
  | [] => ([], pos)
  | ca :: r =>
      let '(rest, pos') := chunks_meta codec (pos + ca_compressed ca) r in
      (chunk_meta codec pos ca :: rest, pos')
  end.

Fixpoint row_groups_meta (codec : Z) (pos : N) (rgs : list rg_acc) : list row_group :=
  match rgs with
  | [] => []
  | rg :: r =>
      let '(ccs, pos') := chunks_meta codec pos (ra_chunks rg) in
      {| rg_columns := ccs;
         rg_total_byte_size := Z.of_N (sumN (map ca_compressed (ra_chunks rg)));
         rg_num_rows := Z.of_N (ra_rows rg) |} :: row_groups_meta codec pos' r
  end.

Definition footer_meta (cfg : config) (rgs : list rg_acc) : file_meta :=
  {| fm_version := 1;
     fm_schema := schema_of (columns (cfg_fields cfg));
     fm_num_rows := Z.of_N (sumN (map ra_rows rgs));
     fm_row_groups := row_groups_meta (cfg_codec cfg) 4 rgs;
     fm_key_value := None; fm_created_by := None |}.

(** ** Histories *)

Inductive op := OpAdd (r : value) | OpWrite.

(** the batches a history writes: records between consecutive Writes; the
    records after the last Write are still pending at Close and are dropped *)
Fixpoint batches_of (h : list op) (pending : list value) : list (list value) :=
  match h with
  | [] => []
  | OpAdd r :: h' => batches_of h' (pending ++ [r])
  | OpWrite :: h' => pending :: batches_of h' []
  end.

Definition nonempty_batches (h : list op) : list (list value) :=
  filter (fun b => negb (Nat.eqb (length b) 0)) (batches_of h []).

(** sink writes of each API call, in call order: NewParquetWriter, then one
    entry per op (Add writes nothing), then Close *)
Fixpoint run_ops (cfg : config) (h : list op) (pending : list value) (rgs : list rg_acc)
  : list (list bytes) * list rg_acc :=
  match h with
  | [] => ([], rgs)
  | OpAdd r :: h' =>
      let '(ws, rgs') := run_ops cfg h' (pending ++ [r]) rgs in ([] :: ws, rgs')
  | OpWrite :: h' =>
      match pending with
      | [] => let '(ws, rgs') := run_ops cfg h' [] rgs in ([] :: ws, rgs')
      | _ =>
          let '(w, rg) := write_batch cfg pending in
          let '(ws, rgs') := run_ops cfg h' [] (rgs ++ [rg]) in (w :: ws, rgs')
      end
  end.

Definition close_writes (cfg : config) (rgs : list rg_acc) : list bytes :=
  let ft := enc_file_meta (footer_meta cfg rgs) in
  [ft; le_enc 4 (nlen ft mod 2 ^ 32); magic].

Definition run_history (cfg : config) (h : list op) : list (list bytes) :=
  let '(ws, rgs) := run_ops cfg h [] [] in
  [magic] :: ws ++ [close_writes cfg rgs].

Definition file_bytes (cfg : config) (h : list op) : bytes :=
  concat (concat (run_history cfg h)).

(** the same file, written directly from the batches *)
Definition file_of_batches (cfg : config) (bs : list (list value)) : bytes :=
  let wr := map (write_batch cfg) bs in
  magic ++ concat (map (fun x => concat (fst x)) wr)
        ++ concat (close_writes cfg (map snd wr)).

End WithCodec.

(** ** A failing sink (property C09).  [calls] are the sink writes of each API
    call of a fault-free run; the sink fails its [k]-th Write (0-based).  Every
    sink write in the code is followed by [if err != nil { return err }], so the
    call during which the failing write happens returns the error and the run
    stops there.  Result: per call made, whether it returned an error, and the
    writes that reached the sink. *)
Fixpoint run_fault (calls : list (list bytes)) (k : option nat) : list bool * list bytes :=
  match calls with
  | [] => ([], [])
  | ws :: rest =>
      match k with
      | Some j =>
          if Nat.ltb j (length ws) then ([true], firstn j ws)
          else let '(fl, out) := run_fault rest (Some (j - length ws)%nat) in (false :: fl, ws ++ out)
      | None => let '(fl, out) := run_fault rest None in (false :: fl, ws ++ out)
      end
  end.
