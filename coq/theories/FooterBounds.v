(** * FooterBounds: the footer the writer produces is in the thrift codec's
    domain ([Meta.file_meta_ok]) and short enough for the 4-byte trailer
    whenever the *inputs and sizes* are in range.

    The file-level theorems ([ReaderProofs2.write_read_roundtrip],
    [ValidatorProofs.written_file_valid], [IntrospectProofs.introspect_ok])
    carry the hypothesis
      [file_meta_ok (footer ...) = true /\ nlen (enc_file_meta (footer ...)) < 2^32],
    a condition on the writer's output.  Here both conjuncts are derived from
      - the field names of the shape (well-formed bytes, shorter than 2^31;
        for the length: at most [M] bytes),
      - the size of the shape ([schema_bound] < 2^31),
      - the codec being one of the three supported ones,
      - the number of batches (< 2^31) and of records (< 2^63),
      - the length of the data section (+ 4 < 2^63),
      - and either the per-chunk totals being < 2^63 ([file_meta_ok_written]) or
        the per-page int32 bounds of [ReaderProofs2.page_sizes_ok]
        ([file_meta_ok_written_pages]),
      - for the length: [footer_len_bound M cols (nlen bs) < 2^32]
        ([footer_len_written]). *)
From Coq Require Import List NArith ZArith Lia Bool Arith PeanoNat.
From Coq Require Import ZifyN ZifyNat ZifyBool.
From PQ Require Import Bytes Varint VarintProofs Schema Dremel DremelProofs MetaTypes Thrift ThriftProofs
     Meta MetaProofs Writer SchemaProofs ReaderProofs ReaderProofs2.
From PQ Require ValidatorProofs.
Import ListNotations.
Local Open Scope N_scope.

(** ** Constants and range predicates *)

Lemma p31 : 2 ^ 31 = 2147483648.
Proof. reflexivity. Qed.

Lemma p32 : 2 ^ 32 = 4294967296.
Proof. reflexivity. Qed.

Lemma p62 : 2 ^ 62 = 4611686018427387904.
Proof. reflexivity. Qed.

Lemma p63 : 2 ^ 63 = 9223372036854775808.
Proof. reflexivity. Qed.

Lemma i32_ok_of_N n : n < 2 ^ 31 -> i32_ok (Z.of_N n) = true.
Proof. rewrite p31. intros H. unfold i32_ok, in_range. lia. Qed.

Lemma i64_ok_of_N n : n < 2 ^ 63 -> i64_ok (Z.of_N n) = true.
Proof. rewrite p63. intros H. unfold i64_ok, in_range. lia. Qed.

Lemma bin_ok_spec n : bin_ok n = true <-> wf_bytes n /\ nlen n < 2 ^ 31.
Proof.
  unfold bin_ok. rewrite andb_true_iff, wf_bytesb_spec, N.ltb_lt. unfold len_lim. rewrite p31.
  reflexivity.
Qed.

Lemma list_ok_intro {A} (f : A -> bool) l :
  nlen l < 2 ^ 31 -> Forall (fun x => f x = true) l -> list_ok f l = true.
Proof.
  intros Hl Hf. unfold list_ok. apply andb_true_intro. split.
  - unfold len_lim. rewrite p31 in Hl. lia.
  - apply forallb_forall. intros x Hx. rewrite Forall_forall in Hf. exact (Hf x Hx).
Qed.

Lemma codec_i32_ok c : In c [CODEC_UNCOMPRESSED; CODEC_SNAPPY; CODEC_GZIP] -> i32_ok c = true.
Proof. cbn [In]. intros [<-|[<-|[<-|[]]]]; reflexivity. Qed.

Lemma prim_type_ok p : i32_ok (prim_type p) = true.
Proof. destruct p; reflexivity. Qed.

Lemma prim_converted_ok p : opt_ok i32_ok (prim_converted p) = true.
Proof. destruct p; reflexivity. Qed.

Lemma rept_code_ok r : i32_ok (rept_code r) = true.
Proof. destruct r; reflexivity. Qed.

Lemma root_name_ok : bin_ok root_name = true.
Proof. reflexivity. Qed.

Lemma enc_plain_ok : list_ok i32_ok [ENC_PLAIN] = true.
Proof. reflexivity. Qed.

Lemma nlen_cons {A} (x : A) l : nlen (x :: l) = 1 + nlen l.
Proof. unfold nlen. cbn [length]. lia. Qed.

Lemma nlen_nil {A} : nlen (@nil A) = 0.
Proof. reflexivity. Qed.

Lemma sumN_In x l : In x l -> x <= sumN l.
Proof.
  induction l as [|y l IH]; intros Hin; [destruct Hin|].
  cbn [sumN]. destruct Hin as [->|Hin]; [lia|]. specialize (IH Hin). lia.
Qed.

Lemma sumN_le_const {A} (f : A -> N) k l :
  Forall (fun x => f x <= k) l -> sumN (map f l) <= k * nlen l.
Proof.
  induction 1 as [|x l Hx Hl IH]; [cbn [map sumN]; lia|].
  cbn [map sumN]. rewrite nlen_cons. lia.
Qed.

(** ** Field names of a shape *)

(** every field name at every depth satisfies [ok] *)
Fixpoint ty_names_allb (ok : bytes -> bool) (t : ty) : bool :=
  match t with
  | TLeaf _ => true
  | TGroup fs => forallb (fun f : field => ok (fst (fst f)) && ty_names_allb ok (snd f)) fs
  end.

(** every field name is well formed and shorter than 2^31 ([bin_ok_spec]) *)
Definition shape_names_ok (fs : list field) : Prop := ty_names_allb bin_ok (TGroup fs) = true.

(** every field name has at most [M] bytes *)
Definition shape_names_le (M : N) (fs : list field) : Prop :=
  ty_names_allb (fun n => nlen n <=? M) (TGroup fs) = true.

Definition path_all (ok : bytes -> bool) (p : list bytes) : Prop := Forall (fun n => ok n = true) p.

Definition path_ok (p : list bytes) : Prop := path_all bin_ok p.

Lemma ty_names_allb_cons ok n rp t' fs :
  ty_names_allb ok (TGroup ((n, rp, t') :: fs)) =
  ok n && ty_names_allb ok t' && ty_names_allb ok (TGroup fs).
Proof. reflexivity. Qed.

Lemma columns_ty_path_all ok t : forall pth rs,
  path_all ok pth -> ty_names_allb ok t = true ->
  Forall (fun c => path_all ok (c_path c)) (columns_ty pth rs t).
Proof.
  induction t as [p|fs IH] using ty_ind'; intros pth rs Hp Hn.
  - rewrite columns_ty_leaf. constructor; [exact Hp|constructor].
  - revert Hn. induction IH as [|[[n rp] t'] fs Ht' Hfs IHfs]; intros Hn.
    + rewrite columns_ty_nil. constructor.
    + rewrite ty_names_allb_cons in Hn. apply andb_prop in Hn. destruct Hn as [Hn Hn3].
      apply andb_prop in Hn. destruct Hn as [Hn1 Hn2].
      rewrite columns_ty_cons. apply Forall_app. split.
      * cbn [snd] in Ht'. apply Ht'; [|exact Hn2].
        apply Forall_app. split; [exact Hp|]. constructor; [exact Hn1|constructor].
      * apply IHfs. exact Hn3.
Qed.

Lemma columns_path_all ok fs :
  ty_names_allb ok (TGroup fs) = true -> Forall (fun c => path_all ok (c_path c)) (columns fs).
Proof. intros H. unfold columns. apply columns_ty_path_all; [constructor|exact H]. Qed.

Lemma columns_path_ok fs :
  shape_names_ok fs -> Forall (fun c => path_ok (c_path c)) (columns fs).
Proof. apply columns_path_all. Qed.

Lemma nth_all ok p : ok [] = true -> forall i, path_all ok p -> ok (nth i p []) = true.
Proof.
  intros Hd. induction p as [|n p IH]; intros i Hp.
  - destruct i; exact Hd.
  - destruct i as [|i]; cbn [nth]; [exact (Forall_inv Hp)|]. apply IH. exact (Forall_inv_tail Hp).
Qed.

Lemma last_all ok p : ok [] = true -> path_all ok p -> ok (last p []) = true.
Proof.
  intros Hd. induction p as [|n p IH]; intros Hp; [exact Hd|].
  destruct p as [|m p]; [exact (Forall_inv Hp)|].
  change (last (n :: m :: p) []) with (last (m :: p) []). apply IH. exact (Forall_inv_tail Hp).
Qed.

(** ** The walk of [schema_of] preserves a property of the emitted elements *)

(** an upper bound of the number of schema elements below the root: a column
    contributes its leaf and at most one group per proper prefix of its path *)
Definition path_weight (cols : list col) : N := sumN (map (fun c => 1 + nlen (c_path c)) cols).

(** bounds the number of columns, the depth of every path and the number of
    schema elements (for a shape with distinct sibling names the latter is the
    number of nodes of the shape, root included, which is at most this) *)
Definition schema_bound (cols : list col) : N := 1 + path_weight cols.

Lemma path_weight_cons c cols : path_weight (c :: cols) = 1 + nlen (c_path c) + path_weight cols.
Proof. reflexivity. Qed.

Lemma path_weight_len cols : nlen cols <= path_weight cols.
Proof.
  induction cols as [|c cols IH]; [unfold path_weight; cbn [map sumN]; rewrite nlen_nil; lia|].
  rewrite path_weight_cons, nlen_cons. lia.
Qed.

Lemma path_weight_depth cols c : In c cols -> nlen (c_path c) < path_weight cols.
Proof.
  induction cols as [|c0 cols IH]; intros Hin; [destruct Hin|].
  rewrite path_weight_cons. destruct Hin as [->|Hin]; [lia|]. specialize (IH Hin). lia.
Qed.

Section EmitInv.

Variable paths : list (list bytes).
Variable Q : col -> Prop.
Variable P : schema_element -> Prop.
Hypothesis HPg : forall c i, Q c -> P (gelem paths (c_path c) (c_reps c) i).
Hypothesis HPl : forall c, Q c -> P (leaf_element c).

(** the groups emitted for one column: all in [P], at most [length path - 1] *)
Lemma gfold_inv c : Q c -> forall is out seen,
  Forall P out ->
  Forall P (fst (fold_left (gstep paths c) is (out, seen))) /\
  (length (fst (fold_left (gstep paths c) is (out, seen))) <= length out + length is)%nat.
Proof.
  intros Hq. induction is as [|i is IH]; intros out seen Hout.
  - cbn [fold_left fst length]. split; [exact Hout|lia].
  - cbn [fold_left gstep]. destruct (existsb _ seen) eqn:E.
    + destruct (IH out seen Hout) as [H1 H2]. split; [exact H1|cbn [length]; lia].
    + match goal with |- context [fold_left _ is (?o, ?s)] => destruct (IH o s) as [H1 H2] end.
      { apply Forall_app. split; [exact Hout|]. constructor; [apply HPg; exact Hq|constructor]. }
      split; [exact H1|]. rewrite app_length in H2. cbn [length] in H2 |- *. lia.
Qed.

Lemma group_elements_inv c seen : Q c ->
  Forall P (fst (group_elements paths c seen)) /\
  (length (fst (group_elements paths c seen)) <= length (c_path c) - 1)%nat.
Proof.
  intros Hq. rewrite group_elements_eq.
  destruct (gfold_inv c Hq (seq 0 (length (c_path c) - 1)) [] seen (Forall_nil _)) as [H1 H2].
  split; [exact H1|]. rewrite seq_length in H2. cbn [length] in H2. lia.
Qed.

Lemma emit_inv : forall cols out seen,
  Forall Q cols -> Forall P out ->
  Forall P (fst (fold_left (step paths) cols (out, seen))) /\
  nlen (fst (fold_left (step paths) cols (out, seen))) <= nlen out + path_weight cols.
Proof.
  induction cols as [|c cols IH]; intros out seen Hc Hout.
  - cbn [fold_left fst]. split; [exact Hout|]. unfold path_weight. cbn [map sumN]. lia.
  - pose proof (Forall_inv Hc) as Hc1. pose proof (Forall_inv_tail Hc) as Hc'.
    cbn [fold_left step]. pose proof (group_elements_inv c seen Hc1) as G. revert G.
    destruct (group_elements paths c seen) as [gs seen']. cbn [fst]. intros [G1 G2].
    destruct (IH (out ++ gs ++ [leaf_element c]) seen' Hc') as [H1 H2].
    { apply Forall_app. split; [exact Hout|]. apply Forall_app. split; [exact G1|].
      constructor; [apply HPl; exact Hc1|constructor]. }
    split; [exact H1|]. rewrite path_weight_cons. rewrite !nlen_app, nlen_cons in H2.
    unfold nlen in *. cbn [length] in H2. lia.
Qed.

End EmitInv.

Lemma schema_of_inv (Q : col -> Prop) (P : schema_element -> Prop) cols :
  (forall c i, Q c -> P (gelem (map c_path cols) (c_path c) (c_reps c) i)) ->
  (forall c, Q c -> P (leaf_element c)) ->
  P (root_elem (map c_path cols)) ->
  Forall Q cols ->
  Forall P (schema_of cols) /\ nlen (schema_of cols) <= schema_bound cols.
Proof.
  intros HPg HPl HPr Hc. rewrite schema_of_eq. unfold emit.
  destruct (emit_inv (map c_path cols) Q P HPg HPl cols [] [] Hc (Forall_nil _)) as [H1 H2].
  split; [constructor; [exact HPr|exact H1]|].
  rewrite nlen_cons. unfold schema_bound. rewrite nlen_nil in H2. lia.
Qed.

(** ** The schema half *)

(** a group has at most as many children as there are columns *)
Lemma count_children_le pre paths : forall seen, count_children pre paths seen <= nlen paths.
Proof.
  induction paths as [|p r IH]; intros seen; [cbn [count_children]; lia|].
  rewrite count_children_cons, nlen_cons.
  destruct (strict_ext pre p) eqn:E1.
  - destruct (existsb _ seen) eqn:E2.
    + specialize (IH seen). lia.
    + specialize (IH (firstn (S (length pre)) p :: seen)). lia.
  - specialize (IH seen). lia.
Qed.

Definition elem_ok (e : schema_element) : Prop := schema_element_ok e = true.

Lemma leaf_element_ok c : path_ok (c_path c) -> elem_ok (leaf_element c).
Proof.
  intros Hp. unfold elem_ok, schema_element_ok, leaf_element.
  cbn [se_type se_type_length se_repetition se_name se_num_children se_converted se_scale
       se_precision se_field_id opt_ok].
  rewrite (last_all bin_ok _ eq_refl Hp), prim_type_ok, rept_code_ok, prim_converted_ok. reflexivity.
Qed.

Lemma gelem_ok paths path reps i :
  nlen paths < 2 ^ 31 -> path_ok path -> elem_ok (gelem paths path reps i).
Proof.
  intros Hn Hp. unfold elem_ok, schema_element_ok, gelem.
  cbn [se_type se_type_length se_repetition se_name se_num_children se_converted se_scale
       se_precision se_field_id opt_ok].
  rewrite (nth_all bin_ok _ eq_refl i Hp), rept_code_ok, i32_ok_of_N; [reflexivity|].
  pose proof (count_children_le (firstn (S i) path) paths []) as Hle. lia.
Qed.

Lemma root_elem_ok paths : nlen paths < 2 ^ 31 -> elem_ok (root_elem paths).
Proof.
  intros Hn. unfold elem_ok, schema_element_ok, root_elem.
  cbn [se_type se_type_length se_repetition se_name se_num_children se_converted se_scale
       se_precision se_field_id opt_ok].
  rewrite root_name_ok, i32_ok_of_N; [reflexivity|].
  pose proof (count_children_le [] paths []) as Hle. lia.
Qed.

Theorem schema_of_ok cols :
  Forall (fun c => path_ok (c_path c)) cols -> nlen cols < 2 ^ 31 ->
  Forall elem_ok (schema_of cols) /\ nlen (schema_of cols) <= schema_bound cols.
Proof.
  intros Hc Hn.
  assert (Hp : nlen (map c_path cols) < 2 ^ 31) by (unfold nlen in *; rewrite map_length; exact Hn).
  apply (schema_of_inv (fun c => path_ok (c_path c))); [| |apply root_elem_ok; exact Hp|exact Hc].
  - intros c i Hq. apply gelem_ok; assumption.
  - intros c Hq. apply leaf_element_ok. exact Hq.
Qed.

(** the schema half of [file_meta_ok] *)
Theorem schema_ok_written fs :
  shape_names_ok fs -> schema_bound (columns fs) < 2 ^ 31 ->
  list_ok schema_element_ok (schema_of (columns fs)) = true.
Proof.
  intros Hnm Hb.
  assert (Hn : nlen (columns fs) < 2 ^ 31).
  { pose proof (path_weight_len (columns fs)) as Hl. unfold schema_bound in Hb. lia. }
  destruct (schema_of_ok (columns fs) (columns_path_ok fs Hnm) Hn) as [H1 H2].
  apply list_ok_intro; [lia|exact H1].
Qed.

(** ** The row-group half *)

(** what one chunk's accounting must satisfy besides the file-offset bound *)
Definition acc_ok (ca : chunk_acc) : Prop :=
  ca_num_values ca < 2 ^ 63 /\ ca_uncompressed ca < 2 ^ 63 /\
  path_ok (c_path (ca_col ca)) /\ nlen (c_path (ca_col ca)) < 2 ^ 31.

Lemma chunk_meta_ok codec pos ca :
  i32_ok codec = true -> pos < 2 ^ 63 -> ca_compressed ca < 2 ^ 63 -> acc_ok ca ->
  column_chunk_ok (chunk_meta codec pos ca) = true.
Proof.
  intros Hcodec Hpos Hcomp (Hnv & Hunc & Hpth & Hdepth).
  unfold column_chunk_ok, chunk_meta.
  cbn [cc_file_path cc_file_offset cc_meta cc_offset_index_offset cc_offset_index_length
       cc_column_index_offset cc_column_index_length opt_ok].
  unfold column_meta_ok.
  cbn [cm_type cm_encodings cm_path cm_codec cm_num_values cm_total_uncompressed cm_total_compressed
       cm_key_value cm_data_page_offset cm_index_page_offset cm_dictionary_page_offset cm_statistics
       cm_encoding_stats opt_ok].
  rewrite (i64_ok_of_N pos Hpos), (i64_ok_of_N _ Hnv), (i64_ok_of_N _ Hunc), (i64_ok_of_N _ Hcomp).
  rewrite prim_type_ok, enc_plain_ok, Hcodec, (list_ok_intro bin_ok _ Hdepth Hpth). reflexivity.
Qed.

(** total compressed bytes of a row group *)
Definition rg_total (rg : rg_acc) : N := sumN (map ca_compressed (ra_chunks rg)).

Lemma chunks_meta_inv codec : i32_ok codec = true -> forall cas pos,
  Forall acc_ok cas -> pos + sumN (map ca_compressed cas) < 2 ^ 63 ->
  Forall (fun cc => column_chunk_ok cc = true) (fst (chunks_meta codec pos cas)) /\
  snd (chunks_meta codec pos cas) = pos + sumN (map ca_compressed cas) /\
  length (fst (chunks_meta codec pos cas)) = length cas.
Proof.
  intros Hcodec. induction cas as [|ca cas IH]; intros pos Hcas Hlim.
  - cbn [chunks_meta fst snd map sumN length]. split; [constructor|]. split; [lia|reflexivity].
  - pose proof (Forall_inv Hcas) as Hca. pose proof (Forall_inv_tail Hcas) as Hcas'.
    cbn [map sumN] in Hlim |- *. cbn [chunks_meta].
    destruct (IH (pos + ca_compressed ca) Hcas') as (H1 & H2 & H3); [lia|]. revert H1 H2 H3.
    destruct (chunks_meta codec (pos + ca_compressed ca) cas) as [rest pos']. cbn [fst snd length].
    intros H1 H2 H3. split; [|split; [lia|lia]].
    constructor; [|exact H1]. apply chunk_meta_ok; [exact Hcodec|lia|lia|exact Hca].
Qed.

Definition rg_acc_ok (rg : rg_acc) : Prop :=
  Forall acc_ok (ra_chunks rg) /\ nlen (ra_chunks rg) < 2 ^ 31 /\ ra_rows rg < 2 ^ 63.

Lemma row_groups_meta_inv codec : i32_ok codec = true -> forall rgs pos,
  Forall rg_acc_ok rgs -> pos + sumN (map rg_total rgs) < 2 ^ 63 ->
  Forall (fun rg => row_group_ok rg = true) (row_groups_meta codec pos rgs) /\
  length (row_groups_meta codec pos rgs) = length rgs.
Proof.
  intros Hcodec. induction rgs as [|rg rgs IH]; intros pos Hrgs Hlim.
  - cbn [row_groups_meta length]. split; [constructor|reflexivity].
  - pose proof (Forall_inv Hrgs) as (Hcas & Hncas & Hrows). pose proof (Forall_inv_tail Hrgs) as Hrgs'.
    cbn [map sumN] in Hlim. cbn [row_groups_meta].
    destruct (chunks_meta_inv codec Hcodec (ra_chunks rg) pos Hcas) as (H1 & H2 & H3);
      [fold (rg_total rg); lia|]. revert H1 H2 H3.
    destruct (chunks_meta codec pos (ra_chunks rg)) as [ccs pos']. cbn [fst snd].
    fold (rg_total rg). intros H1 H2 H3.
    destruct (IH pos' Hrgs') as [I1 I2]; [lia|].
    split; [|cbn [length]; lia]. constructor; [|exact I1].
    unfold row_group_ok. cbn [rg_columns rg_total_byte_size rg_num_rows].
    rewrite (i64_ok_of_N (ra_rows rg) Hrows), (i64_ok_of_N (rg_total rg)) by lia.
    rewrite list_ok_intro; [reflexivity| |exact H1]. unfold nlen in *. lia.
Qed.

(** [file_meta_ok] of a footer from conditions on the accounting *)
Theorem footer_meta_ok cfg rgs :
  i32_ok (cfg_codec cfg) = true ->
  list_ok schema_element_ok (schema_of (columns (cfg_fields cfg))) = true ->
  Forall rg_acc_ok rgs -> nlen rgs < 2 ^ 31 ->
  4 + sumN (map rg_total rgs) < 2 ^ 63 ->
  sumN (map ra_rows rgs) < 2 ^ 63 ->
  file_meta_ok (footer_meta cfg rgs) = true.
Proof.
  intros Hcodec Hschema Hrgs Hn Hbytes Hrows.
  destruct (row_groups_meta_inv (cfg_codec cfg) Hcodec rgs 4 Hrgs Hbytes) as [H1 H2].
  unfold file_meta_ok, footer_meta.
  cbn [fm_version fm_schema fm_num_rows fm_row_groups fm_key_value fm_created_by opt_ok].
  rewrite Hschema, (i64_ok_of_N _ Hrows).
  rewrite list_ok_intro; [reflexivity| |exact H1]. unfold nlen in *. lia.
Qed.

(** ** The length of the encoded footer *)

(** an upper bound of the compact-protocol encoding of a well-formed value:
    varints of i16/i32/i64 take at most 3/5/10 bytes, a list header at most 6,
    a field header at most 4 *)
Fixpoint tsize (v : tval) : N :=
  match v with
  | TBool _ => 1
  | TI8 _ => 1
  | TI16 _ => 3
  | TI32 _ => 5
  | TI64 _ => 10
  | TDouble _ => 8
  | TBin bs => 5 + nlen bs
  | TList _ vs => 6 + sumN (map tsize vs)
  | TStruct fs => 1 + sumN (map (fun p => 4 + tsize (snd p)) fs)
  end.

Lemma tsize_struct fs : tsize (TStruct fs) = 1 + sumN (map (fun p => 4 + tsize (snd p)) fs).
Proof. reflexivity. Qed.

Lemma tsize_list elt vs : tsize (TList elt vs) = 6 + sumN (map tsize vs).
Proof. reflexivity. Qed.

Lemma tsize_i32 z : tsize (TI32 z) = 5.
Proof. reflexivity. Qed.

Lemma tsize_i64 z : tsize (TI64 z) = 10.
Proof. reflexivity. Qed.

Lemma tsize_bin bs : tsize (TBin bs) = 5 + nlen bs.
Proof. reflexivity. Qed.

Lemma uleb_nlen n k : n < 128 * 2 ^ (7 * N.of_nat k) -> nlen (uleb_enc n) <= N.of_nat (S k).
Proof.
  intros H. unfold uleb_enc, nlen.
  pose proof (uleb_enc_fuel_length (S (N.size_nat n)) n k H) as Hl. lia.
Qed.

Lemma uleb_nlen3 n : n < 2097152 -> nlen (uleb_enc n) <= 3.
Proof. intros H. exact (uleb_nlen n 2 H). Qed.

Lemma uleb_nlen5 n : n < 34359738368 -> nlen (uleb_enc n) <= 5.
Proof. intros H. exact (uleb_nlen n 4 H). Qed.

Lemma uleb_nlen10 n : n < 1180591620717411303424 -> nlen (uleb_enc n) <= 10.
Proof. intros H. exact (uleb_nlen n 9 H). Qed.

Lemma zigzag_i16 z : i16_ok z = true -> zigzag z < 65536.
Proof. unfold i16_ok, in_range, zigzag. intros H. destruct (z <? 0)%Z eqn:E; lia. Qed.

Lemma zigzag_i32 z : i32_ok z = true -> zigzag z < 4294967296.
Proof. unfold i32_ok, in_range, zigzag. intros H. destruct (z <? 0)%Z eqn:E; lia. Qed.

Lemma zigzag_i64 z : i64_ok z = true -> zigzag z < 18446744073709551616.
Proof. unfold i64_ok, in_range, zigzag. intros H. destruct (z <? 0)%Z eqn:E; lia. Qed.

Lemma fhdr_nlen last id ty : id <=? max_field_id = true -> nlen (fhdr last id ty) <= 4.
Proof.
  intros H. unfold max_field_id in H. unfold fhdr. destruct (_ && _).
  - rewrite nlen_cons, nlen_nil. lia.
  - rewrite nlen_cons. pose proof (uleb_nlen3 (zigzag (Z.of_N id))) as Hu.
    assert (Hz : zigzag (Z.of_N id) < 2097152).
    { unfold zigzag. destruct (Z.of_N id <? 0)%Z eqn:E; lia. }
    specialize (Hu Hz). lia.
Qed.

Lemma lhdr_nlen elt n : n < len_lim -> nlen (lhdr elt n) <= 6.
Proof.
  unfold len_lim. intros H. unfold lhdr. destruct (n <=? 14).
  - rewrite nlen_cons, nlen_nil. lia.
  - rewrite nlen_cons. pose proof (uleb_nlen5 n) as Hu. lia.
Qed.

Lemma tenc_fval_size x :
  (wf_tval x = true -> nlen (tenc_val x) <= tsize x) ->
  wf_tval x = true -> nlen (tenc_fval x) <= tsize x.
Proof.
  intros H Hw. destruct x as [b|z|z|z|z|bits|bs|elt vs|fs]; try exact (H Hw).
  cbn [tenc_fval tsize]. rewrite nlen_nil. lia.
Qed.

Lemma tenc_val_size v : wf_tval v = true -> nlen (tenc_val v) <= tsize v.
Proof.
  induction v as [b|z|z|z|z|bits|bs|elt vs IH|fs IH] using tval_ind'; intros Hwf.
  - cbn [tenc_val tsize]. rewrite nlen_cons, nlen_nil. lia.
  - cbn [tenc_val tsize]. rewrite nlen_cons, nlen_nil. lia.
  - cbn [tenc_val tsize wf_tval] in Hwf |- *. apply uleb_nlen3. pose proof (zigzag_i16 z Hwf) as Hz. lia.
  - cbn [tenc_val tsize wf_tval] in Hwf |- *. apply uleb_nlen5. pose proof (zigzag_i32 z Hwf) as Hz. lia.
  - cbn [tenc_val tsize wf_tval] in Hwf |- *. apply uleb_nlen10. pose proof (zigzag_i64 z Hwf) as Hz. lia.
  - cbn [tenc_val tsize]. unfold nlen. rewrite le_enc_length. lia.
  - cbn [tenc_val tsize wf_tval] in Hwf |- *. unfold bin_ok in Hwf.
    apply andb_prop in Hwf. destruct Hwf as [_ Hl]. unfold len_lim in Hl.
    rewrite nlen_app. pose proof (uleb_nlen5 (nlen bs)) as Hu. lia.
  - rewrite wf_tval_list in Hwf.
    apply andb_prop in Hwf. destruct Hwf as [Hwf Hall].
    apply andb_prop in Hwf. destruct Hwf as [_ Hn]. apply N.ltb_lt in Hn.
    rewrite tenc_val_list, tsize_list, nlen_app.
    pose proof (lhdr_nlen elt (nlen vs) Hn) as Hh.
    assert (He : nlen (tenc_elems vs) <= sumN (map tsize vs)).
    { clear Hn Hh. induction IH as [|x r Hx Hr IHr]; [cbn [map sumN]; unfold tenc_elems; cbn [flat_map]; rewrite nlen_nil; lia|].
      cbn [forallb] in Hall. apply andb_prop in Hall. destruct Hall as [Hx1 Hall].
      apply andb_prop in Hx1. destruct Hx1 as [_ Hx1].
      rewrite tenc_elems_cons, nlen_app. cbn [map sumN].
      specialize (Hx Hx1). specialize (IHr Hall). lia. }
    lia.
  - rewrite wf_tval_struct in Hwf. rewrite tenc_val_struct, tsize_struct. revert Hwf.
    enough (Hg : forall last, wf_fields_from last fs = true ->
                 nlen (tenc_fields last fs) <= 1 + sumN (map (fun p => 4 + tsize (snd p)) fs))
      by apply Hg.
    induction IH as [|[id x] r Hx Hr IHr]; intros last Hwf.
    + cbn [tenc_fields map sumN]. rewrite nlen_cons, nlen_nil. lia.
    + cbn [wf_fields_from] in Hwf. apply andb_prop in Hwf. destruct Hwf as [Hwf Hwr].
      apply andb_prop in Hwf. destruct Hwf as [Hwf Hwx].
      apply andb_prop in Hwf. destruct Hwf as [_ Hid].
      cbn [tenc_fields map sumN snd]. rewrite !nlen_app. cbn [snd] in Hx.
      pose proof (fhdr_nlen last id (ctype x) Hid) as Hf.
      pose proof (tenc_fval_size x Hx Hwx) as Hv. specialize (IHr id Hwr). lia.
Qed.

(** size of a record's field list: absent fields cost nothing *)
Definition osz (o : option tval) : N := match o with Some v => 4 + tsize v | None => 0 end.

Lemma tsize_struct_mk l : tsize (TStruct (mk_fields l)) = 1 + sumN (map (fun p => osz (snd p)) l).
Proof.
  rewrite tsize_struct. f_equal.
  induction l as [|[id [v|]] l IH]; cbn [mk_fields map sumN snd osz]; lia.
Qed.

Lemma osz_i32 o : osz (option_map TI32 o) <= 9.
Proof. destruct o as [z|]; cbn [option_map osz]; rewrite ?tsize_i32; lia. Qed.

Lemma schema_element_size s :
  tsize (TStruct (schema_element_to_fields s)) <= 82 + nlen (se_name s).
Proof.
  unfold schema_element_to_fields. rewrite tsize_struct_mk. cbn [map sumN snd].
  pose proof (osz_i32 (se_type s)) as H1. pose proof (osz_i32 (se_type_length s)) as H2.
  pose proof (osz_i32 (se_repetition s)) as H3. pose proof (osz_i32 (se_num_children s)) as H5.
  pose proof (osz_i32 (se_converted s)) as H6. pose proof (osz_i32 (se_scale s)) as H7.
  pose proof (osz_i32 (se_precision s)) as H8. pose proof (osz_i32 (se_field_id s)) as H9.
  unfold t_bin. cbn [osz]. rewrite tsize_bin. lia.
Qed.

(** an upper bound of one chunk's footer entry *)
Definition chunk_cost (c : col) : N := 128 + sumN (map (fun n => 5 + nlen n) (c_path c)).

Lemma chunk_meta_size codec pos ca :
  tsize (TStruct (column_chunk_to_fields (chunk_meta codec pos ca))) <= chunk_cost (ca_col ca).
Proof.
  unfold column_chunk_to_fields, chunk_meta.
  cbn [cc_file_path cc_file_offset cc_meta cc_offset_index_offset cc_offset_index_length
       cc_column_index_offset cc_column_index_length].
  rewrite tsize_struct_mk. cbn [map sumN snd option_map osz t_i64].
  unfold column_meta_to_fields.
  cbn [cm_type cm_encodings cm_path cm_codec cm_num_values cm_total_uncompressed cm_total_compressed
       cm_key_value cm_data_page_offset cm_index_page_offset cm_dictionary_page_offset cm_statistics
       cm_encoding_stats].
  rewrite tsize_struct_mk. cbn [map sumN snd option_map osz t_i64 t_i32]. unfold t_list.
  rewrite !tsize_list, !tsize_i32, !tsize_i64, !map_map. cbn [map sumN]. rewrite tsize_i32.
  unfold chunk_cost.
  replace (sumN (map (fun x => tsize (TBin x)) (c_path (ca_col ca))))
    with (sumN (map (fun n => 5 + nlen n) (c_path (ca_col ca)))) by reflexivity.
  lia.
Qed.

Lemma chunks_meta_size codec : forall cas pos,
  sumN (map (fun cc => tsize (TStruct (column_chunk_to_fields cc))) (fst (chunks_meta codec pos cas))) <=
  sumN (map (fun ca => chunk_cost (ca_col ca)) cas).
Proof.
  induction cas as [|ca cas IH]; intros pos; [cbn [chunks_meta fst map sumN]; lia|].
  cbn [chunks_meta]. specialize (IH (pos + ca_compressed ca)). revert IH.
  destruct (chunks_meta codec (pos + ca_compressed ca) cas) as [rest pos']. cbn [fst map sumN].
  intros IH. pose proof (chunk_meta_size codec pos ca) as Hc. lia.
Qed.

Definition rg_cost (rg : rg_acc) : N := 39 + sumN (map (fun ca => chunk_cost (ca_col ca)) (ra_chunks rg)).

Lemma row_groups_meta_size codec : forall rgs pos,
  sumN (map (fun r => tsize (TStruct (row_group_to_fields r))) (row_groups_meta codec pos rgs)) <=
  sumN (map rg_cost rgs).
Proof.
  induction rgs as [|rg rgs IH]; intros pos; [cbn [row_groups_meta map sumN]; lia|].
  cbn [row_groups_meta]. pose proof (chunks_meta_size codec (ra_chunks rg) pos) as Hc. revert Hc.
  destruct (chunks_meta codec pos (ra_chunks rg)) as [ccs pos']. cbn [fst]. intros Hc.
  cbn [map sumN]. specialize (IH pos').
  unfold row_group_to_fields at 1. cbn [rg_columns rg_total_byte_size rg_num_rows].
  rewrite tsize_struct_mk. cbn [map sumN snd osz t_i64]. unfold t_list.
  rewrite tsize_list, !tsize_i64, map_map. unfold rg_cost at 1. lia.
Qed.

(** the encoded footer is at most this long *)
Definition footer_cost (cfg : config) (rgs : list rg_acc) : N :=
  44 + sumN (map (fun s => 82 + nlen (se_name s)) (schema_of (columns (cfg_fields cfg))))
  + sumN (map rg_cost rgs).

Theorem footer_len_le cfg rgs :
  file_meta_ok (footer_meta cfg rgs) = true ->
  nlen (enc_file_meta (footer_meta cfg rgs)) <= footer_cost cfg rgs.
Proof.
  intros Hok. unfold enc_file_meta, tenc_struct. rewrite <- tenc_val_struct.
  etransitivity; [apply tenc_val_size, wf_struct, file_meta_wf, Hok|].
  unfold file_meta_to_fields, footer_meta.
  cbn [fm_version fm_schema fm_num_rows fm_row_groups fm_key_value fm_created_by].
  rewrite tsize_struct_mk. cbn [map sumN snd option_map osz t_i64 t_i32]. unfold t_list.
  rewrite !tsize_list, tsize_i32, tsize_i64, !map_map.
  pose proof (row_groups_meta_size (cfg_codec cfg) rgs 4) as Hr.
  assert (Hs : forall l, sumN (map (fun s => tsize (TStruct (schema_element_to_fields s))) l) <=
                         sumN (map (fun s => 82 + nlen (se_name s)) l)).
  { induction l as [|s l IH]; cbn [map sumN]; [lia|]. pose proof (schema_element_size s) as Hse. lia. }
  specialize (Hs (schema_of (columns (cfg_fields cfg)))). unfold footer_cost. lia.
Qed.

(** names of the schema elements are field names, or "root" *)
Lemma schema_names_le M cols :
  4 <= M -> Forall (fun c => path_all (fun n => nlen n <=? M) (c_path c)) cols ->
  Forall (fun s => 82 + nlen (se_name s) <= 82 + M) (schema_of cols).
Proof.
  intros HM Hc.
  assert (Hd : (nlen (@nil N) <=? M) = true) by (rewrite nlen_nil; lia).
  apply (schema_of_inv (fun c => path_all (fun n => nlen n <=? M) (c_path c))); [| | |exact Hc].
  - intros c i Hq. unfold gelem. cbn [se_name].
    pose proof (nth_all (fun n => nlen n <=? M) (c_path c) Hd i Hq) as Hn. cbv beta in Hn. lia.
  - intros c Hq. unfold leaf_element. cbn [se_name].
    pose proof (last_all (fun n => nlen n <=? M) (c_path c) Hd Hq) as Hn. cbv beta in Hn. lia.
  - unfold root_elem. cbn [se_name]. change (nlen root_name) with 4. lia.
Qed.

Lemma chunk_cost_le M c :
  path_all (fun n => nlen n <=? M) (c_path c) -> chunk_cost c <= 128 + (5 + M) * nlen (c_path c).
Proof.
  intros Hp. unfold chunk_cost.
  pose proof (sumN_le_const (fun n => 5 + nlen n) (5 + M) (c_path c)) as Hs.
  assert (Hf : Forall (fun x => 5 + nlen x <= 5 + M) (c_path c)).
  { eapply Forall_impl; [|exact Hp]. cbv beta. intros n Hn. lia. }
  specialize (Hs Hf). apply N.add_le_mono_l. exact Hs.
Qed.

Lemma cols_cost_le M cols :
  Forall (fun c => path_all (fun n => nlen n <=? M) (c_path c)) cols ->
  sumN (map chunk_cost cols) <= (133 + M) * path_weight cols.
Proof.
  induction 1 as [|c cols Hc Hcols IH]; [cbn [map sumN]; lia|].
  cbn [map sumN]. rewrite path_weight_cons. pose proof (chunk_cost_le M c Hc) as Hcc. lia.
Qed.

(** the sufficient bound, in terms of the shape and the number of batches only *)
Definition footer_len_bound (M : N) (cols : list col) (nb : N) : N :=
  (1 + nb) * (64 + (133 + M) * schema_bound cols).

(** ** The accounting of written batches *)

Section WithCodec.

Variable compress : Z -> bytes -> bytes.

(** the data section of the file (after the leading magic, before the footer) *)
Definition data_section (cfg : config) (bs : list (list value)) : bytes :=
  concat (map (fun b => concat (fst (write_batch compress cfg b))) bs).

Definition written_rgs (cfg : config) (bs : list (list value)) : list rg_acc :=
  map (fun b => snd (write_batch compress cfg b)) bs.

Lemma pages_compressed c pages :
  ca_compressed (chunk_of_pages c pages) =
  nlen (concat (flat_map (fun p => [pg_header_bytes p; pg_body p]) pages)).
Proof.
  unfold chunk_of_pages. cbn [ca_compressed].
  induction pages as [|p pages IH]; [reflexivity|].
  cbn [map sumN flat_map app concat]. rewrite !nlen_app, IH. lia.
Qed.

Lemma per_col_total (per_col : list (col * list page)) :
  sumN (map ca_compressed (map (fun '(c, pages) => chunk_of_pages c pages) per_col)) =
  nlen (concat (flat_map (fun '(c, pages) => flat_map (fun p => [pg_header_bytes p; pg_body p]) pages)
                         per_col)).
Proof.
  induction per_col as [|[c pages] r IH]; [reflexivity|].
  cbn [map sumN flat_map]. rewrite concat_app, nlen_app, IH, pages_compressed. reflexivity.
Qed.

Lemma rg_total_written cfg b :
  rg_total (snd (write_batch compress cfg b)) = nlen (concat (fst (write_batch compress cfg b))).
Proof. unfold rg_total, write_batch. cbn [fst snd ra_chunks]. apply per_col_total. Qed.

Lemma written_bytes cfg bs :
  sumN (map rg_total (written_rgs cfg bs)) = nlen (data_section cfg bs).
Proof.
  unfold written_rgs, data_section. induction bs as [|b bs IH]; [reflexivity|].
  cbn [map sumN concat]. rewrite nlen_app, IH, rg_total_written. reflexivity.
Qed.

Lemma written_rows cfg bs : sumN (map ra_rows (written_rgs cfg bs)) = nlen (concat bs).
Proof.
  unfold written_rgs. induction bs as [|b bs IH]; [reflexivity|].
  cbn [map sumN concat]. rewrite nlen_app, IH. reflexivity.
Qed.

Lemma batch_in_section cfg bs b :
  In b bs -> nlen (concat (fst (write_batch compress cfg b))) <= nlen (data_section cfg bs).
Proof.
  intros Hin. rewrite <- written_bytes, <- rg_total_written. apply sumN_In.
  unfold written_rgs. rewrite map_map. apply in_map_iff. exists b. split; [reflexivity|exact Hin].
Qed.

Lemma ra_chunks_written cfg b :
  ra_chunks (snd (write_batch compress cfg b)) =
  map (fun ic : nat * col => chunk_of_pages (snd ic) (column_pages compress cfg (fst ic) (snd ic) b))
      (index_from 0 (columns (cfg_fields cfg))).
Proof.
  unfold write_batch. cbn [snd ra_chunks]. rewrite map_map. apply map_ext. intros [i c]. reflexivity.
Qed.

Lemma index_from_length {A} (l : list A) : forall k, length (index_from k l) = length l.
Proof. induction l as [|x l IH]; intros k; [reflexivity|]. cbn [index_from length]. rewrite IH. reflexivity. Qed.

Lemma index_from_snd {A} (l : list A) : forall k, map snd (index_from k l) = l.
Proof. induction l as [|x l IH]; intros k; [reflexivity|]. cbn [index_from map snd]. rewrite IH. reflexivity. Qed.

(** the per-chunk totals that are not bounded by the length of the data section *)
Definition chunk_totals_ok (cfg : config) (bs : list (list value)) : Prop :=
  Forall (fun b => Forall (fun ca => ca_num_values ca < 2 ^ 63 /\ ca_uncompressed ca < 2 ^ 63)
                          (ra_chunks (snd (write_batch compress cfg b)))) bs.

Lemma written_rg_acc_ok cfg b :
  Forall (fun c => path_ok (c_path c)) (columns (cfg_fields cfg)) ->
  schema_bound (columns (cfg_fields cfg)) < 2 ^ 31 ->
  nlen b < 2 ^ 63 ->
  Forall (fun ca => ca_num_values ca < 2 ^ 63 /\ ca_uncompressed ca < 2 ^ 63)
         (ra_chunks (snd (write_batch compress cfg b))) ->
  rg_acc_ok (snd (write_batch compress cfg b)).
Proof.
  intros Hpaths Hb Hrows Htot. unfold schema_bound in Hb. split; [|split].
  - rewrite ra_chunks_written in Htot |- *. rewrite Forall_map in Htot |- *.
    rewrite Forall_forall in Htot, Hpaths |- *. intros [i c] Hic. specialize (Htot (i, c) Hic).
    destruct (index_from_nth_error _ 0 i c Hic) as [_ Hnth]. apply nth_error_In in Hnth.
    cbn [fst snd] in Htot |- *. destruct Htot as [Hnv Hunc].
    unfold acc_ok, chunk_of_pages in *. cbn [ca_col ca_num_values ca_uncompressed] in *.
    split; [exact Hnv|]. split; [exact Hunc|]. split; [exact (Hpaths c Hnth)|].
    pose proof (path_weight_depth _ c Hnth) as Hd. lia.
  - rewrite ra_chunks_written. unfold nlen. rewrite map_length, index_from_length.
    pose proof (path_weight_len (columns (cfg_fields cfg))) as Hl. unfold nlen in Hl. lia.
  - cbn [write_batch snd ra_rows]. exact Hrows.
Qed.

(** ** The footer of a written file: per-chunk totals assumed *)

Theorem file_meta_ok_written cfg bs :
  shape_names_ok (cfg_fields cfg) ->
  schema_bound (columns (cfg_fields cfg)) < 2 ^ 31 ->
  In (cfg_codec cfg) [CODEC_UNCOMPRESSED; CODEC_SNAPPY; CODEC_GZIP] ->
  nlen bs < 2 ^ 31 ->
  nlen (concat bs) < 2 ^ 63 ->
  nlen (data_section cfg bs) + 4 < 2 ^ 63 ->
  chunk_totals_ok cfg bs ->
  file_meta_ok (footer_meta cfg (map (fun b => snd (write_batch compress cfg b)) bs)) = true.
Proof.
  intros Hnm Hsb Hcodec Hnb Hrows Hbytes Htot. fold (written_rgs cfg bs).
  apply footer_meta_ok.
  - apply codec_i32_ok. exact Hcodec.
  - apply schema_ok_written; assumption.
  - unfold written_rgs. rewrite Forall_map. unfold chunk_totals_ok in Htot.
    rewrite Forall_forall in Htot |- *. intros b Hb.
    apply written_rg_acc_ok; [apply columns_path_ok; exact Hnm|exact Hsb| |exact (Htot b Hb)].
    assert (Hle : nlen b <= nlen (concat bs)).
    { rewrite <- (written_rows cfg bs). apply sumN_In. unfold written_rgs. rewrite map_map.
      apply in_map_iff. exists b. split; [reflexivity|exact Hb]. }
    lia.
  - unfold written_rgs, nlen in *. rewrite map_length. exact Hnb.
  - rewrite written_bytes. lia.
  - rewrite written_rows. exact Hrows.
Qed.

(** ** The per-chunk totals from the per-page bounds *)

(** the page conjunct of [ReaderProofs2.batch_ok] *)
Definition pages_ok (cfg : config) (b : list value) : Prop :=
  forall i c, nth_error (columns (cfg_fields cfg)) i = Some c ->
              Forall (page_sizes_ok compress (cfg_codec cfg) c) (col_ess cfg i b).

Lemma batch_ok_pages cfg b : ReaderProofs2.batch_ok compress cfg b -> pages_ok cfg b.
Proof. intros (_ & _ & H). exact H. Qed.

Lemma batch_sizes_pages cfg b : ValidatorProofs.batch_sizes_ok compress cfg b -> pages_ok cfg b.
Proof.
  intros H i c Hc. unfold ValidatorProofs.batch_sizes_ok, ValidatorProofs.batch_cess in H.
  rewrite Forall_map in H. rewrite Forall_forall in H.
  specialize (H (i, c) (index_from_In _ 0 i c Hc)). cbn [fst snd] in H. exact H.
Qed.

Lemma chunk_fuel_length {A} n : forall fuel (l : list A), (length (chunk_fuel fuel n l) <= fuel)%nat.
Proof.
  induction fuel as [|f IH]; intros l; [reflexivity|].
  destruct l as [|x l]; cbn [chunk_fuel length]; [lia|]. specialize (IH (skipn n (x :: l))). lia.
Qed.

(** a batch has at most as many pages per column as records *)
Lemma col_ess_length cfg i b : nlen (col_ess cfg i b) <= nlen b.
Proof.
  unfold col_ess, nlen. rewrite map_length. unfold chunk.
  pose proof (chunk_fuel_length (cfg_max cfg) (length b) b) as H. lia.
Qed.

(** per page at most 2^31 entries and fewer than 2^31 payload bytes *)
Lemma pages_totals codec c ess :
  Forall (page_sizes_ok compress codec c) ess ->
  ca_num_values (chunk_of_pages c (map (make_page compress codec c) ess)) <= 2 ^ 31 * nlen ess /\
  ca_uncompressed (chunk_of_pages c (map (make_page compress codec c) ess)) <=
    ca_compressed (chunk_of_pages c (map (make_page compress codec c) ess)) + 2 ^ 31 * nlen ess.
Proof.
  unfold chunk_of_pages. cbn [ca_num_values ca_uncompressed ca_compressed].
  induction 1 as [|es ess (H1 & H2 & _) Hess [IH1 IH2]].
  - cbn [map sumN]. unfold nlen. cbn [length]. lia.
  - cbn [map sumN]. rewrite nlen_cons. cbn [make_page pg_count pg_payload_len pg_header_bytes pg_body].
    cbn [make_page pg_count pg_payload_len pg_header_bytes pg_body] in IH1, IH2.
    rewrite p31 in *. split; lia.
Qed.

Lemma chunk_totals_of_pages cfg bs :
  Forall (fun b => nlen b < 2 ^ 31) bs ->
  nlen (data_section cfg bs) + 4 < 2 ^ 62 ->
  Forall (pages_ok cfg) bs ->
  chunk_totals_ok cfg bs.
Proof.
  intros Hlen Hbytes Hpages. unfold chunk_totals_ok.
  rewrite Forall_forall in Hlen, Hpages |- *. intros b Hb.
  specialize (Hlen b Hb). specialize (Hpages b Hb).
  pose proof (batch_in_section cfg bs b Hb) as Hsec. rewrite <- rg_total_written in Hsec.
  unfold rg_total in Hsec. rewrite ra_chunks_written in Hsec |- *.
  rewrite Forall_map. apply Forall_forall. intros [i c] Hic. cbn [fst snd].
  assert (Hcomp : ca_compressed (chunk_of_pages c (column_pages compress cfg i c b)) <=
                  nlen (data_section cfg bs)).
  { etransitivity; [|exact Hsec]. apply sumN_In. rewrite map_map. apply in_map_iff.
    exists (i, c). split; [reflexivity|exact Hic]. }
  destruct (index_from_nth_error _ 0 i c Hic) as [_ Hnth]. rewrite Nat.sub_0_r in Hnth.
  rewrite column_pages_eq in Hcomp |- *.
  destruct (pages_totals (cfg_codec cfg) c (col_ess cfg i b) (Hpages i c Hnth)) as [T1 T2].
  pose proof (col_ess_length cfg i b) as Hpg.
  rewrite p31 in *. rewrite p62 in *. rewrite p63. split; lia.
Qed.

Lemma rows_total (bs : list (list value)) :
  Forall (fun b => nlen b < 2 ^ 31) bs -> nlen (concat bs) <= 2 ^ 31 * nlen bs.
Proof.
  induction 1 as [|b bs Hb Hbs IH]; [cbn [concat]; rewrite !nlen_nil; lia|].
  cbn [concat]. rewrite nlen_app, nlen_cons. rewrite p31 in *. lia.
Qed.

Theorem file_meta_ok_written_pages cfg bs :
  shape_names_ok (cfg_fields cfg) ->
  schema_bound (columns (cfg_fields cfg)) < 2 ^ 31 ->
  In (cfg_codec cfg) [CODEC_UNCOMPRESSED; CODEC_SNAPPY; CODEC_GZIP] ->
  nlen bs < 2 ^ 31 ->
  Forall (fun b => nlen b < 2 ^ 31) bs ->
  nlen (data_section cfg bs) + 4 < 2 ^ 62 ->
  Forall (pages_ok cfg) bs ->
  file_meta_ok (footer_meta cfg (map (fun b => snd (write_batch compress cfg b)) bs)) = true.
Proof.
  intros Hnm Hsb Hcodec Hnb Hlen Hbytes Hpages.
  apply file_meta_ok_written; try assumption.
  - pose proof (rows_total bs Hlen) as Hr. rewrite p31 in *. rewrite p63. lia.
  - rewrite p62 in Hbytes. rewrite p63. lia.
  - apply chunk_totals_of_pages; assumption.
Qed.

(** ** The length of the written footer *)

Lemma written_rg_cost cfg b :
  rg_cost (snd (write_batch compress cfg b)) = 39 + sumN (map chunk_cost (columns (cfg_fields cfg))).
Proof.
  unfold rg_cost. rewrite ra_chunks_written, map_map. cbn [chunk_of_pages ca_col].
  rewrite <- (index_from_snd (columns (cfg_fields cfg)) 0%nat) at 2. rewrite map_map. reflexivity.
Qed.

Lemma written_rgs_cost cfg bs :
  sumN (map rg_cost (written_rgs cfg bs)) =
  nlen bs * (39 + sumN (map chunk_cost (columns (cfg_fields cfg)))).
Proof.
  unfold written_rgs. rewrite map_map.
  induction bs as [|b bs IH]; [cbn [map sumN]; unfold nlen; cbn [length]; lia|].
  cbn [map sumN]. rewrite nlen_cons, written_rg_cost, IH. lia.
Qed.

Theorem footer_len_written M cfg bs :
  file_meta_ok (footer_meta cfg (map (fun b => snd (write_batch compress cfg b)) bs)) = true ->
  4 <= M -> shape_names_le M (cfg_fields cfg) ->
  nlen (enc_file_meta (footer_meta cfg (map (fun b => snd (write_batch compress cfg b)) bs))) <=
  footer_len_bound M (columns (cfg_fields cfg)) (nlen bs).
Proof.
  intros Hok HM Hnm. fold (written_rgs cfg bs) in Hok |- *.
  etransitivity; [apply footer_len_le; exact Hok|].
  pose proof (columns_path_all _ _ Hnm) as Hcols.
  set (cols := columns (cfg_fields cfg)) in *.
  unfold footer_cost. fold cols.
  (* schema *)
  pose proof (sumN_le_const (fun s => 82 + nlen (se_name s)) (82 + M) (schema_of cols)
                            (schema_names_le M cols HM Hcols)) as Hs.
  assert (Hsl : nlen (schema_of cols) <= schema_bound cols).
  { apply (schema_of_inv (fun _ => True) (fun _ => True)); auto. apply Forall_forall. auto. }
  (* row groups *)
  pose proof (written_rgs_cost cfg bs) as Hr. fold cols in Hr.
  pose proof (cols_cost_le M cols Hcols) as Hc.
  unfold footer_len_bound, schema_bound in *. rewrite Hr.
  set (W := path_weight cols) in *. set (S1 := nlen (schema_of cols)) in *. set (nb := nlen bs) in *.
  set (C := sumN (map chunk_cost cols)) in *.
  set (X := sumN (map (fun s => 82 + nlen (se_name s)) (schema_of cols))) in *.
  assert (H1 : (82 + M) * S1 <= (82 + M) * (1 + W)) by (apply N.mul_le_mono_l; exact Hsl).
  assert (H2 : nb * (39 + C) <= nb * (39 + (133 + M) * W)) by (apply N.mul_le_mono_l; lia).
  lia.
Qed.

(** ** Corollaries: the footer hypotheses of the file-level theorems *)

Lemma written_rgs_eq cfg bs : written_rgs cfg bs = batch_rgs compress cfg bs.
Proof. unfold written_rgs, batch_rgs. rewrite map_map. reflexivity. Qed.

Lemma data_section_eq cfg bs : data_section cfg bs = data_bytes compress cfg bs.
Proof. reflexivity. Qed.

Corollary footer_file_meta_ok cfg bs :
  shape_names_ok (cfg_fields cfg) ->
  schema_bound (columns (cfg_fields cfg)) < 2 ^ 31 ->
  In (cfg_codec cfg) [CODEC_UNCOMPRESSED; CODEC_SNAPPY; CODEC_GZIP] ->
  nlen bs < 2 ^ 31 ->
  Forall (fun b => nlen b < 2 ^ 31) bs ->
  nlen (data_bytes compress cfg bs) + 4 < 2 ^ 62 ->
  Forall (pages_ok cfg) bs ->
  file_meta_ok (footer compress cfg bs) = true.
Proof.
  intros Hnm Hsb Hcodec Hnb Hlen Hbytes Hpages. unfold footer.
  rewrite <- (written_rgs_eq cfg bs). unfold written_rgs.
  apply file_meta_ok_written_pages; assumption.
Qed.

(** the bound on the footer length implies the bounds on the shape and on the
    number of batches *)
Lemma footer_len_bound_small M cols nb :
  footer_len_bound M cols nb < 2 ^ 32 -> schema_bound cols < 2 ^ 31 /\ nb < 2 ^ 31.
Proof.
  unfold footer_len_bound. rewrite p32, p31. intros H.
  set (S := schema_bound cols) in *.
  assert (H1 : 1 * (64 + (133 + M) * S) <= (1 + nb) * (64 + (133 + M) * S))
    by (apply N.mul_le_mono_r; lia).
  assert (H2 : 133 * S <= (133 + M) * S) by (apply N.mul_le_mono_r; lia).
  assert (H3 : (1 + nb) * 64 <= (1 + nb) * (64 + (133 + M) * S)) by (apply N.mul_le_mono_l; lia).
  lia.
Qed.

(** [ReaderProofs2.footer_ok] (the hypothesis of [write_read_roundtrip] and
    [introspect_ok]) from [cfg_ok], [batch_ok] and sizes of the inputs *)
Corollary footer_ok_written M cfg bs :
  ReaderProofs2.cfg_ok cfg -> Forall (ReaderProofs2.batch_ok compress cfg) bs ->
  shape_names_ok (cfg_fields cfg) ->
  4 <= M -> shape_names_le M (cfg_fields cfg) ->
  footer_len_bound M (columns (cfg_fields cfg)) (nlen bs) < 2 ^ 32 ->
  Forall (fun b => nlen b < 2 ^ 31) bs ->
  nlen (data_bytes compress cfg bs) + 4 < 2 ^ 62 ->
  footer_ok compress cfg bs.
Proof.
  intros (_ & Hcodec & _) Hbs Hnm HM Hle Hft Hlen Hbytes.
  destruct (footer_len_bound_small _ _ _ Hft) as [Hsb Hnb].
  assert (Hok : file_meta_ok (footer compress cfg bs) = true).
  { apply footer_file_meta_ok; try assumption.
    eapply Forall_impl; [|exact Hbs]. intros b. apply batch_ok_pages. }
  split; [exact Hok|]. revert Hok. unfold footer. rewrite <- (written_rgs_eq cfg bs). unfold written_rgs.
  intros Hok. eapply N.le_lt_trans; [apply (footer_len_written M); assumption|exact Hft].
Qed.

(** the footer conjuncts of [ValidatorProofs.sizes_ok] (the hypothesis of
    [written_file_valid]) *)
Corollary sizes_ok_written M cfg bs :
  Forall (ValidatorProofs.batch_sizes_ok compress cfg) bs ->
  In (cfg_codec cfg) [CODEC_UNCOMPRESSED; CODEC_SNAPPY; CODEC_GZIP] ->
  shape_names_ok (cfg_fields cfg) ->
  4 <= M -> shape_names_le M (cfg_fields cfg) ->
  footer_len_bound M (columns (cfg_fields cfg)) (nlen bs) < 2 ^ 32 ->
  Forall (fun b => nlen b < 2 ^ 31) bs ->
  nlen (data_section cfg bs) + 4 < 2 ^ 62 ->
  ValidatorProofs.sizes_ok compress cfg bs.
Proof.
  intros Hbs Hcodec Hnm HM Hle Hft Hlen Hbytes.
  destruct (footer_len_bound_small _ _ _ Hft) as [Hsb Hnb].
  unfold ValidatorProofs.sizes_ok, ValidatorProofs.batch_rgs.
  assert (Hok : file_meta_ok (footer_meta cfg (map (fun b => snd (write_batch compress cfg b)) bs)) = true).
  { apply file_meta_ok_written_pages; try assumption.
    eapply Forall_impl; [|exact Hbs]. intros b. apply batch_sizes_pages. }
  split; [exact Hbs|]. split; [exact Hok|].
  eapply N.le_lt_trans; [apply (footer_len_written M); assumption|exact Hft].
Qed.

End WithCodec.

(** the statement asked for, as a proposition (it is [file_meta_ok_written]) *)
Definition file_meta_ok_written_full : Prop :=
  forall compress cfg bs,
    shape_names_ok (cfg_fields cfg) ->
    schema_bound (columns (cfg_fields cfg)) < 2 ^ 31 ->
    In (cfg_codec cfg) [CODEC_UNCOMPRESSED; CODEC_SNAPPY; CODEC_GZIP] ->
    nlen bs < 2 ^ 31 ->
    nlen (concat bs) < 2 ^ 63 ->
    nlen (concat (map (fun b => concat (fst (write_batch compress cfg b))) bs)) + 4 < 2 ^ 63 ->
    chunk_totals_ok compress cfg bs ->
    file_meta_ok (footer_meta cfg (map (fun b => snd (write_batch compress cfg b)) bs)) = true.

Theorem file_meta_ok_written_full_holds : file_meta_ok_written_full.
Proof. intros compress cfg bs. apply file_meta_ok_written. Qed.

(** ** The hypotheses are satisfiable: the small configurations of
    [ReaderProofs2.Example] and [ValidatorProofs.Tiny] *)
Module Instances.
Import ReaderProofs2.Example.

Example example_inputs_ok :
  ty_names_allb bin_ok (TGroup fs0) = true /\
  ty_names_allb (fun n => nlen n <=? 4) (TGroup fs0) = true /\
  schema_bound (columns fs0) = 7 /\
  footer_len_bound 4 (columns fs0) (nlen bs0) = 4092 /\
  nlen (enc_file_meta (footer cid cfg0 bs0)) = 304 /\
  forallb (fun b => nlen b <? 2 ^ 31) bs0 = true /\
  nlen (data_bytes cid cfg0 bs0) = 428.
Proof. vm_compute. repeat split. Qed.

Example example_footer_ok : footer_ok cid cfg0 bs0.
Proof.
  destruct hyps_hold as (H1 & H2 & _).
  destruct example_inputs_ok as (N1 & N2 & _ & N4 & _ & N6 & N7).
  apply (footer_ok_written cid 4).
  - apply cfg_okb_sound. exact H1.
  - apply Forall_forall. intros b Hb. rewrite forallb_forall in H2. apply batch_okb_sound, H2, Hb.
  - exact N1.
  - lia.
  - exact N2.
  - change (cfg_fields cfg0) with fs0. rewrite N4. rewrite p32. lia.
  - apply Forall_forall. intros b Hb. rewrite forallb_forall in N6. specialize (N6 b Hb). lia.
  - rewrite N7, p62. lia.
Qed.

Example tiny_sizes_ok :
  ValidatorProofs.sizes_ok ValidatorProofs.Tiny.cmp ValidatorProofs.Tiny.cfg0
    [[ValidatorProofs.Tiny.rA; ValidatorProofs.Tiny.rB]].
Proof.
  apply (sizes_ok_written ValidatorProofs.Tiny.cmp 4).
  - apply ValidatorProofs.sizes_okb_sound. vm_compute. reflexivity.
  - left. reflexivity.
  - vm_compute. reflexivity.
  - lia.
  - vm_compute. reflexivity.
  - vm_compute. reflexivity.
  - repeat constructor.
  - vm_compute. reflexivity.
Qed.

(** the name condition is needed: a name that is not a byte string *)
Example names_needed :
  file_meta_ok (footer_meta {| cfg_fields := [([256], Req, TLeaf PInt32)]; cfg_max := 1;
                               cfg_codec := CODEC_UNCOMPRESSED |} []) = false.
Proof. vm_compute. reflexivity. Qed.
End Instances.

Print Assumptions schema_ok_written.
Print Assumptions footer_meta_ok.
Print Assumptions file_meta_ok_written.
Print Assumptions file_meta_ok_written_pages.
Print Assumptions footer_len_written.
Print Assumptions footer_ok_written.
Print Assumptions sizes_ok_written.
Print Assumptions file_meta_ok_written_full_holds.
Print Assumptions Instances.example_footer_ok.
Print Assumptions Instances.tiny_sizes_ok.
