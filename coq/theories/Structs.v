(** * Structs: cmd/parquetgen/structs/structs.go — from the footer schema of a
    file to Go struct declarations ([structs.Struct], used by
    parquetgen -parquet), as declarations in the sense of [Parse.v].
    Definitions only; proofs in StructsProofs.v. *)
From Coq Require Import List NArith ZArith Lia Bool.
From PQ Require Import Bytes Schema MetaTypes Parse.
Import ListNotations.
Local Open Scope N_scope.

(** strings.Title on an identifier: the first letter in upper case *)
Definition title (s : bytes) : bytes :=
  match s with
  | c :: r => (if (97 <=? c) && (c <=? 122) then c - 32 else c) :: r
  | [] => []
  end.

(** parquetTypes: the Go type of a physical type (converted types are ignored) *)
Definition go_type_of (t : Z) : option bytes :=
  if Z.eqb t TYPE_BOOLEAN then Some [98;111;111;108]
  else if Z.eqb t TYPE_INT32 then Some [105;110;116;51;50]
  else if Z.eqb t TYPE_INT64 then Some [105;110;116;54;52]
  else if Z.eqb t TYPE_FLOAT then Some [102;108;111;97;116;51;50]
  else if Z.eqb t TYPE_DOUBLE then Some [102;108;111;97;116;54;52]
  else if Z.eqb t TYPE_BYTE_ARRAY then Some [115;116;114;105;110;103]
  else None.

(** structs.field: `Name *type \`parquet:"name"\`` *)
Definition field_decl (e : schema_element) : fdecl :=
  let n := title (se_name e) in
  let base := match se_type e with
              | Some t => match go_type_of t with Some g => g | None => [] end
              | None => n
              end in
  let ty := match se_repetition e with
            | Some r => if Z.eqb r REP_OPTIONAL then GPtr (GBase base) else GBase base
            | None => GBase base
            end in
  FD [n] ty (Some (se_name e)).

(** getStruct: the declaration of [parent] followed by those of its nested
    groups; returns the number of schema elements consumed *)
Fixpoint get_struct (fuel : nat) (name : bytes) (nchildren : nat) (els : list schema_element)
  : option (nat * decls) :=
  match fuel with
  | O => None
  | S fu =>
      (fix go (i : nat) (els : list schema_element) (fields : list fdecl) (nested : decls) (consumed : nat)
         : option (nat * decls) :=
         match i with
         | O => Some (consumed, (title name, fields) :: nested)
         | S i' =>
             match els with
             | [] => None                                    (* children[i+j] out of range: panic *)
             | ch :: rest =>
                 let fields' := fields ++ [field_decl ch] in
                 match se_num_children ch with
                 | Some c =>
                     if (0 <? c)%Z then
                       match get_struct fu (se_name ch) (Z.to_nat c) rest with
                       | Some (n, ds) => go i' (skipn n rest) fields' (nested ++ ds) (S (consumed + n))
                       | None => None
                       end
                     else go i' rest fields' nested (S consumed)
                 | None => go i' rest fields' nested (S consumed)
                 end
             end
         end) nchildren els [] [] 0%nat
  end.

(** structs.Struct(structName, schema) *)
Definition struct_of_schema (struct_name : bytes) (schema : list schema_element) : option decls :=
  match schema with
  | [] => Some []
  | root :: rest =>
      match se_num_children root with
      | Some c => match get_struct (S (length schema)) struct_name (Z.to_nat c) rest with
                  | Some (_, ds) => Some ds
                  | None => None
                  end
      | None => None                                          (* *parent.NumChildren on nil: panic *)
      end
  end.
