(** * Foreign: an independent, choice-driven writer of Parquet files of the
    supported subset — the same logical content in every legal physical
    encoding (C04) — and of files that use exactly one unsupported feature
    (C18).  The degrees of freedom are those the properties name:
    - how each level stream is cut into RLE runs (any length >= 1) and
      bit-packed runs (any group count >= 1, also > 63; any padding value);
    - where page boundaries fall in each column (any record boundary,
      independently per column);
    - the codec of each column;
    - statistics present (current and/or deprecated fields) or absent, CRC,
      created_by, key/value metadata, encoding_stats, the three conventions
      for a chunk's file_offset, both conventions for total_byte_size.
    Levels are written with the *specification* encoder [RleSpec.hybrid_encode]
    (not the library's), values with [Plain.plain_enc], headers and footer with
    the thrift model.  Definitions only. *)
From Coq Require Import List NArith ZArith Lia Bool.
From PQ Require Import Bytes Schema Dremel RleSpec Plain Stats MetaTypes Thrift Meta Writer.
Import ListNotations.
Local Open Scope N_scope.

(** ** Cutting a level stream into runs *)

Fixpoint same_prefix (v : N) (ls : list N) : nat :=
  match ls with
  | x :: r => if x =? v then S (same_prefix v r) else O
  | [] => O
  end.

Fixpoint groups_of (fuel : nat) (ls : list N) : list (list N) :=
  match fuel with
  | O => []
  | S f => match ls with [] => [] | _ => firstn 8 ls :: groups_of f (skipn 8 ls) end
  end.

(** [segment fuel w choices pad ls]: consume [ls] run by run; each choice [c]
    selects the kind (even: RLE, odd: bit-packed) and the size of the next run. *)
Fixpoint segment (fuel : nat) (w : N) (choices : list N) (pad : N) (ls : list N) : list run :=
  match fuel with
  | O => []
  | S f =>
      match ls with
      | [] => []
      | v :: _ =>
          let c := hd 0 choices in
          let rest := tl choices in
          if N.even c then
            let m := same_prefix v ls in                       (* >= 1 *)
            let k := S (N.to_nat ((c / 2) mod N.of_nat m)) in    (* 1 .. m *)
            RRle (N.of_nat k) v :: segment f w rest pad (skipn k ls)
          else
            let want := (8 * S (N.to_nat ((c / 2) mod 70)))%nat in   (* 8 .. 560 values *)
            if Nat.leb want (length ls) then
              RBp (groups_of want (firstn want ls)) :: segment f w rest pad (skipn want ls)
            else
              (* the tail: pad the last group with [pad] (any w-bit value) *)
              let n := length ls in
              let padded := ls ++ repeat (pad mod 2 ^ w) ((8 - n mod 8) mod 8)%nat in
              [RBp (groups_of (S n) padded)]
      end
  end.

Definition encode_levels (w : N) (choices : list N) (pad : N) (ls : list N) : bytes :=
  hybrid_encode w (segment (S (length ls)) w choices pad ls).

(** ** Cutting a column into pages at record boundaries *)

(** entries of one record: everything up to (not including) the next rep = 0 *)
Fixpoint take_record (es : list entry) : list entry * list entry :=
  match es with
  | [] => ([], [])
  | e :: r =>
      match r with
      | [] => ([e], [])
      | e' :: _ => if e_rep e' =? 0 then ([e], r)
                   else let '(a, b) := take_record r in (e :: a, b)
      end
  end.

Fixpoint take_records (fuel : nat) (n : nat) (es : list entry) : list entry * list entry :=
  match fuel, n with
  | O, _ | _, O => ([], es)
  | S f, S n' =>
      match es with
      | [] => ([], [])
      | _ => let '(a, r) := take_record es in
             let '(b, r') := take_records f n' r in (a ++ b, r')
      end
  end.

(** [split_pages fuel sizes es]: pages of [sizes] records (each at least 1);
    when [sizes] runs out the last size repeats (1 if there was none) *)
Fixpoint split_pages (fuel : nat) (sizes : list nat) (last : nat) (es : list entry) : list (list entry) :=
  match fuel with
  | O => []
  | S f =>
      match es with
      | [] => []
      | _ =>
          let n := Nat.max 1 (hd last sizes) in
          let '(pg, rest) := take_records (S (length es)) n es in
          pg :: split_pages f (tl sizes) n rest
      end
  end.

(** ** Choices *)

Inductive injection :=
| INone
| IDictPage          (* a dictionary page first in the chunk, data pages PLAIN_DICTIONARY *)
| IIndexPage         (* this page is an INDEX_PAGE *)
| IDataPageV2        (* this page is a DATA_PAGE_V2 *)
| IEncoding (e : Z)  (* value encoding other than PLAIN *)
| IDefBitPacked      (* definition levels announced as BIT_PACKED *)
| IRepBitPacked      (* repetition levels announced as BIT_PACKED *)
| ICodec (c : Z).    (* a codec other than uncompressed/snappy/gzip *)

Record col_choice := {
  cc_codec : Z;
  cc_page_sizes : list nat;
  cc_rep_choices : list N;
  cc_def_choices : list N;
  cc_pad : N;
  cc_stats : N;              (* 0 none, 1 as the library writes them, 2 also the deprecated min/max *)
  cc_crc : bool;
  cc_file_offset_kind : N;   (* 0: 0, 1: first page, 2: end of chunk *)
  cc_encoding_stats : bool
}.

Record file_choice := {
  fc_cols : list col_choice;          (* used cyclically over (row group, column) *)
  fc_created_by : option bytes;
  fc_key_value : bool;
  fc_byte_size_uncompressed : bool;
  fc_inject : option (nat * nat * nat * injection)   (* row group, column, page *)
}.

Definition default_choice : col_choice :=
  {| cc_codec := CODEC_UNCOMPRESSED; cc_page_sizes := []; cc_rep_choices := []; cc_def_choices := [];
     cc_pad := 0; cc_stats := 0; cc_crc := false; cc_file_offset_kind := 1; cc_encoding_stats := false |}.

Definition pick_choice (fc : file_choice) (k : nat) : col_choice :=
  match fc_cols fc with
  | [] => default_choice
  | l => nth (k mod length l) l default_choice
  end.

Section WithCodec.
Variable compress : Z -> bytes -> bytes.

Definition i32z (n : N) : Z := Z.of_N n.

Definition foreign_payload (c : col) (ch : col_choice) (es : list entry) : bytes :=
  let vals := flat_map (fun e => match e_val e with Some v => [v] | None => [] end) es in
  (if 0 <? max_rep c then encode_levels (bit_width (max_rep c)) (cc_rep_choices ch) (cc_pad ch) (map e_rep es) else [])
  ++ (if 0 <? max_def c then encode_levels (bit_width (max_def c)) (cc_def_choices ch) (cc_pad ch) (map e_def es) else [])
  ++ plain_enc (c_prim c) vals.

Definition foreign_stats (c : col) (ch : col_choice) (es : list entry) : option statistics :=
  if cc_stats ch =? 0 then None
  else
    let st := page_stats (c_prim c) (col_required c) (max_def c) es in
    if cc_stats ch =? 1 then Some st
    else Some {| st_max := st_max_value st; st_min := st_min_value st; st_null_count := st_null_count st;
                 st_distinct_count := None; st_max_value := st_max_value st; st_min_value := st_min_value st |}.

Record fpage := { fp_header : page_header; fp_bytes : bytes; fp_count : N; fp_unc : N }.

Definition foreign_page (c : col) (ch : col_choice) (codec : Z) (inj : injection) (es : list entry) : fpage :=
  let payload := foreign_payload c ch es in
  let body := compress codec payload in
  let enc := match inj with IEncoding e => e | IDictPage => ENC_PLAIN_DICTIONARY | _ => ENC_PLAIN end in
  let dph := {| dph_num_values := i32z (nlen es); dph_encoding := enc;
                dph_def_encoding := match inj with IDefBitPacked => ENC_BIT_PACKED | _ => ENC_RLE end;
                dph_rep_encoding := match inj with IRepBitPacked => ENC_BIT_PACKED | _ => ENC_RLE end;
                dph_statistics := foreign_stats c ch es |} in
  let hdr :=
    match inj with
    | IIndexPage =>
        {| ph_type := PT_INDEX_PAGE; ph_uncompressed_size := i32z (nlen payload); ph_compressed_size := i32z (nlen body);
           ph_crc := None; ph_data := None; ph_index := Some tt; ph_dict := None; ph_data_v2 := None |}
    | IDataPageV2 =>
        {| ph_type := PT_DATA_PAGE_V2; ph_uncompressed_size := i32z (nlen payload); ph_compressed_size := i32z (nlen body);
           ph_crc := None; ph_data := None; ph_index := None; ph_dict := None;
           ph_data_v2 := Some {| v2_num_values := i32z (nlen es); v2_num_nulls := 0; v2_num_rows := i32z (count_rep0 es);
                                 v2_encoding := ENC_PLAIN; v2_def_len := 0; v2_rep_len := 0;
                                 v2_is_compressed := None; v2_statistics := None |} |}
    | _ =>
        {| ph_type := PT_DATA_PAGE; ph_uncompressed_size := i32z (nlen payload); ph_compressed_size := i32z (nlen body);
           ph_crc := if cc_crc ch then Some 305419896%Z else None;
           ph_data := Some dph; ph_index := None; ph_dict := None; ph_data_v2 := None |}
    end in
  {| fp_header := hdr; fp_bytes := enc_page_header hdr ++ body; fp_count := nlen es;
     fp_unc := nlen (enc_page_header hdr) + nlen payload |}.

(** the dictionary page of injection [IDictPage]: a PLAIN dictionary of one value *)
Definition dict_page (codec : Z) : fpage :=
  let payload := [0; 0; 0; 0] in
  let body := compress codec payload in
  let hdr := {| ph_type := PT_DICTIONARY_PAGE; ph_uncompressed_size := 4; ph_compressed_size := i32z (nlen body);
                ph_crc := None; ph_data := None; ph_index := None;
                ph_dict := Some {| dict_num_values := 1; dict_encoding := ENC_PLAIN_DICTIONARY; dict_is_sorted := None |};
                ph_data_v2 := None |} in
  {| fp_header := hdr; fp_bytes := enc_page_header hdr ++ body; fp_count := 0; fp_unc := nlen (enc_page_header hdr) + 4 |}.

Definition inj_for (fc : file_choice) (g j p : nat) : injection :=
  match fc_inject fc with
  | Some (g', j', p', i) => if Nat.eqb g g' && Nat.eqb j j' && Nat.eqb p p' then i else INone
  | None => INone
  end.

Definition col_inj (fc : file_choice) (g j : nat) : injection :=
  match fc_inject fc with
  | Some (g', j', _, i) => if Nat.eqb g g' && Nat.eqb j j' then i else INone
  | None => INone
  end.

(** one column chunk: its bytes and its footer entry at file position [pos] *)
Definition foreign_chunk (fs : list field) (fc : file_choice) (g j : nat) (c : col) (recs : list value) (pos : N)
  : bytes * column_chunk :=
  let ch := pick_choice fc (g * 31 + j) in
  let cinj := col_inj fc g j in
  let codec := match cinj with ICodec z => z | _ => cc_codec ch end in
  let body_codec := match cinj with ICodec _ => CODEC_UNCOMPRESSED | _ => cc_codec ch end in
  let es := column_entries fs j recs in
  let pages_es := split_pages (S (length es)) (cc_page_sizes ch) 1 es in
  let pages := map (fun '(p, pes) => foreign_page c ch body_codec (inj_for fc g j p) pes) (index_from 0 pages_es) in
  let pages := match cinj with IDictPage => dict_page body_codec :: pages | _ => pages end in
  let bytes_ := concat (map fp_bytes pages) in
  let total := nlen bytes_ in
  let cm := {| cm_type := prim_type (c_prim c);
               cm_encodings := [ENC_PLAIN; ENC_RLE];
               cm_path := c_path c;
               cm_codec := codec;
               cm_num_values := Z.of_N (sumN (map fp_count pages));
               cm_total_uncompressed := Z.of_N (sumN (map fp_unc pages));
               cm_total_compressed := Z.of_N total;
               cm_key_value := None;
               cm_data_page_offset := Z.of_N pos;
               cm_index_page_offset := None;
               cm_dictionary_page_offset := match cinj with IDictPage => Some (Z.of_N pos) | _ => None end;
               cm_statistics := None;
               cm_encoding_stats := if cc_encoding_stats ch
                                    then Some [ {| pes_page_type := PT_DATA_PAGE; pes_encoding := ENC_PLAIN; pes_count := Z.of_nat (length pages) |} ]
                                    else None |} in
  (bytes_,
   {| cc_file_path := None;
      cc_file_offset := if cc_file_offset_kind ch =? 0 then 0%Z
                        else if cc_file_offset_kind ch =? 1 then Z.of_N pos else Z.of_N (pos + total);
      cc_meta := Some cm;
      cc_offset_index_offset := None; cc_offset_index_length := None;
      cc_column_index_offset := None; cc_column_index_length := None |}).

Fixpoint foreign_chunks (fs : list field) (fc : file_choice) (g : nat) (cols : list (nat * col)) (recs : list value) (pos : N)
  : bytes * list column_chunk * N :=
  match cols with
  | [] => ([], [], pos)
  | (j, c) :: rest =>
      let '(b, cc) := foreign_chunk fs fc g j c recs pos in
      let '(bs, ccs, pos') := foreign_chunks fs fc g rest recs (pos + nlen b) in
      (b ++ bs, cc :: ccs, pos')
  end.

Fixpoint foreign_row_groups (fs : list field) (fc : file_choice) (g : nat) (batches : list (list value)) (pos : N)
  : bytes * list row_group :=
  match batches with
  | [] => ([], [])
  | recs :: rest =>
      let '(b, ccs, pos') := foreign_chunks fs fc g (index_from 0 (columns fs)) recs pos in
      let comp := sumN (map (fun cc => match cc_meta cc with Some m => Z.to_N (cm_total_compressed m) | None => 0 end) ccs) in
      let unc := sumN (map (fun cc => match cc_meta cc with Some m => Z.to_N (cm_total_uncompressed m) | None => 0 end) ccs) in
      let rg := {| rg_columns := ccs;
                   rg_total_byte_size := Z.of_N (if fc_byte_size_uncompressed fc then unc else comp);
                   rg_num_rows := Z.of_nat (length recs) |} in
      let '(bs, rgs) := foreign_row_groups fs fc (S g) rest pos' in
      (b ++ bs, rg :: rgs)
  end.

(** the whole file; [batches] are the row groups (each non-empty) *)
Definition foreign_file (fs : list field) (fc : file_choice) (batches : list (list value)) : bytes :=
  let '(body, rgs) := foreign_row_groups fs fc 0 batches 4 in
  let fm := {| fm_version := 1;
               fm_schema := schema_of (columns fs);
               fm_num_rows := Z.of_nat (length (concat batches));
               fm_row_groups := rgs;
               fm_key_value := if fc_key_value fc then Some [ {| kv_key := [107]; kv_value := Some [118] |}; {| kv_key := [120]; kv_value := None |} ] else None;
               fm_created_by := fc_created_by fc |} in
  let ft := enc_file_meta fm in
  magic ++ body ++ ft ++ le_enc 4 (nlen ft mod 2 ^ 32) ++ magic.

End WithCodec.
