(** * Io: the io.ReadSeeker the reader is given, as an explicit state: the
    file, the position, a fragmentation schedule (how many bytes the k-th
    underlying Read call may return at most) and an optional fault (the index
    of the source operation that fails).  [m_read_full] is io.ReadFull /
    io.CopyN / binary.Read: a loop over single short reads.  The reader model
    ([Reader.v]) is written in the state-and-error monad [M] over these
    primitives only.  Definitions only. *)
From Coq Require Import List NArith ZArith Lia Bool.
From PQ Require Import Bytes Rle.
Import ListNotations.
Local Open Scope N_scope.

Record src := {
  s_file : bytes;
  s_pos : N;
  s_sched : list nat;       (* max bytes of each further underlying Read; exhausted = unlimited *)
  s_fail : option nat;      (* the source operation with this index fails *)
  s_ops : nat               (* source operations so far *)
}.

Definition mk_src (file : bytes) (sched : list nat) (fail : option nat) : src :=
  {| s_file := file; s_pos := 0; s_sched := sched; s_fail := fail; s_ops := 0 |}.

Definition M (A : Type) : Type := src -> result (A * src).

Definition ret {A} (a : A) : M A := fun s => Ok (a, s).
Definition fail_err {A} : M A := fun _ => Err.
Definition fail_panic {A} : M A := fun _ => Panic.
Definition bind {A B} (m : M A) (f : A -> M B) : M B :=
  fun s => match m s with
           | Ok (a, s') => f a s'
           | Err => Err
           | Panic => Panic
           end.

Declare Scope io_scope.
Delimit Scope io_scope with io.
Notation "x <-- m ;; k" := (bind m (fun x => k)) (at level 61, m at next level, right associativity) : io_scope.
Notation "m ;;; k" := (bind m (fun _ => k)) (at level 61, right associativity) : io_scope.

(** every source operation is a fault point *)
Definition op_tick : M unit :=
  fun s => match s_fail s with
           | Some k => if Nat.eqb k (s_ops s) then Err
                       else Ok (tt, {| s_file := s_file s; s_pos := s_pos s; s_sched := s_sched s; s_fail := s_fail s; s_ops := S (s_ops s) |})
           | None => Ok (tt, {| s_file := s_file s; s_pos := s_pos s; s_sched := s_sched s; s_fail := s_fail s; s_ops := S (s_ops s) |})
           end.

Definition set_pos (p : N) : M unit :=
  fun s => Ok (tt, {| s_file := s_file s; s_pos := p; s_sched := s_sched s; s_fail := s_fail s; s_ops := s_ops s |}).

(** Seek(off, io.SeekStart) / Seek(off, io.SeekEnd): a negative target is an error;
    seeking past the end is allowed (later reads hit EOF). *)
Definition m_seek_start (off : Z) : M unit :=
  (op_tick ;;; if (off <? 0)%Z then fail_err else set_pos (Z.to_N off))%io.

Definition m_seek_end (off : Z) : M unit :=
  (op_tick ;;;
   fun s => let t := (Z.of_N (nlen (s_file s)) + off)%Z in
            if (t <? 0)%Z then Err else set_pos (Z.to_N t) s)%io.

(** one underlying Read(p) with len(p) = want > 0: at least one byte if any is
    left, at most the schedule's next bound; ([], s) means io.EOF *)
Definition src_read1 (want : nat) (s : src) : bytes * src :=
  let avail := skipn (N.to_nat (s_pos s)) (s_file s) in
  let bound := match s_sched s with b :: _ => Nat.max 1 b | [] => want end in
  let k := Nat.min want (Nat.min bound (length avail)) in
  (firstn k avail,
   {| s_file := s_file s; s_pos := s_pos s + N.of_nat k; s_sched := tl (s_sched s); s_fail := s_fail s; s_ops := s_ops s |}).

(** io.ReadFull: loop until [want] bytes; EOF before that is an error *)
Fixpoint read_full_loop (fuel : nat) (want : nat) (acc : bytes) (s : src) : result (bytes * src) :=
  match want with
  | O => Ok (acc, s)
  | _ =>
      match fuel with
      | O => Err
      | S f =>
          let '(got, s') := src_read1 want s in
          match got with
          | [] => Err
          | _ => read_full_loop f (want - length got) (acc ++ got) s'
          end
      end
  end.

Definition m_read_full (n : nat) : M bytes :=
  (op_tick ;;; fun s => read_full_loop n n [] s)%io.

(** a thrift struct read from the current position: the decoder consumes
    exactly the struct's bytes (the library reads through byte-wise / ReadFull
    transports; see the trusted base) *)
Definition m_read_struct {A} (dec : bytes -> option (A * bytes)) : M A :=
  (op_tick ;;;
   fun s => let avail := skipn (N.to_nat (s_pos s)) (s_file s) in
            match dec avail with
            | Some (a, rest) =>
                let used := (length avail - length rest)%nat in
                Ok (a, {| s_file := s_file s; s_pos := s_pos s + N.of_nat used;
                          s_sched := skipn used (s_sched s);   (* byte-wise reads: one schedule entry each at most *)
                          s_fail := s_fail s; s_ops := s_ops s |})
            | None => Err
            end)%io.

Definition get_pos : M N := fun s => Ok (s_pos s, s).
