(** * StatsProofs: soundness of the page statistics written by the field
    templates (property C12).  Proofs about [Stats.v]. *)
From Coq Require Import List NArith ZArith Lia Bool Arith PeanoNat.
From Coq Require Import ZifyN ZifyNat ZifyBool.
From PQ Require Import Bytes Schema MetaTypes Rle Plain Stats PlainProofs.
Import ListNotations.
Local Open Scope N_scope.

Ltac Zify.zify_post_hook ::= Z.div_mod_to_equations.

(** ** The order of a column type, through a key into [Z] *)

Definition prim_key (p : prim) (a : N) : Z :=
  match p with
  | PInt32 => signZ 32 a
  | PInt64 => signZ 64 a
  | PUint32 | PUint64 | PBool => Z.of_N a
  | PFloat32 | PFloat64 => flt_key (ebits_of p) (mbits_of p) a
  | PString => 0%Z
  end.

(** Go's [<]: false as soon as one side is NaN, the order of the keys otherwise. *)
Lemma prim_lt_key p a b :
  prim_lt p a b =
  negb (prim_is_nan p a) && negb (prim_is_nan p b) && (prim_key p a <? prim_key p b)%Z.
Proof.
  destruct p; cbn [prim_lt prim_is_nan prim_key negb andb]; try reflexivity; lia.
Qed.

Lemma prim_lt_nan_l p a b : prim_is_nan p a = true -> prim_lt p a b = false.
Proof. intros H. rewrite prim_lt_key, H. reflexivity. Qed.

Lemma prim_lt_nan_r p a b : prim_is_nan p b = true -> prim_lt p a b = false.
Proof. intros H. rewrite prim_lt_key, H. apply andb_false_intro1, andb_false_r. Qed.

Lemma prim_lt_nonnan p a b :
  prim_is_nan p a = false -> prim_is_nan p b = false ->
  prim_lt p a b = (prim_key p a <? prim_key p b)%Z.
Proof. intros Ha Hb. rewrite prim_lt_key, Ha, Hb. reflexivity. Qed.

(** [prim_lt] is a strict order, total up to key equality, on non-NaN patterns. *)
Lemma prim_lt_irrefl p a : prim_lt p a a = false.
Proof. rewrite prim_lt_key. destruct (prim_is_nan p a); cbn [negb andb]; lia. Qed.

Lemma prim_lt_trans p a b c :
  prim_lt p a b = true -> prim_lt p b c = true -> prim_lt p a c = true.
Proof.
  rewrite !prim_lt_key.
  destruct (prim_is_nan p a), (prim_is_nan p b), (prim_is_nan p c); cbn [negb andb]; lia.
Qed.

Lemma prim_lt_asym p a b : prim_lt p a b = true -> prim_lt p b a = false.
Proof.
  rewrite !prim_lt_key.
  destruct (prim_is_nan p a), (prim_is_nan p b); cbn [negb andb]; lia.
Qed.

(** [negb (prim_lt b a)] is [a <= b]; it is transitive on non-NaN patterns. *)
Lemma prim_le_trans p a b c :
  prim_is_nan p b = false ->
  prim_lt p b a = false -> prim_lt p c b = false -> prim_lt p c a = false.
Proof.
  intros Hb. rewrite !prim_lt_key, Hb.
  destruct (prim_is_nan p a), (prim_is_nan p c); cbn [negb andb]; lia.
Qed.

Lemma prim_lt_total p a b c :
  prim_is_nan p a = false -> prim_is_nan p b = false ->
  prim_lt p a b = false -> prim_lt p b a = false ->
  prim_lt p c a = prim_lt p c b /\ prim_lt p a c = prim_lt p b c.
Proof.
  intros Ha Hb. rewrite !prim_lt_key, Ha, Hb.
  destruct (prim_is_nan p c); cbn [negb andb]; lia.
Qed.

(** on the integer types the key is injective, so the order is total *)
Lemma prim_key_inj_int p a b :
  p = PInt32 \/ p = PInt64 \/ p = PUint32 \/ p = PUint64 ->
  a < 2 ^ prim_bits p -> b < 2 ^ prim_bits p ->
  prim_key p a = prim_key p b -> a = b.
Proof.
  intros [Hp|[Hp|[Hp|Hp]]] Ha Hb; subst p; cbn [prim_key prim_bits] in *; unfold signZ.
  - change (2 ^ (32 - 1)) with 2147483648. change (2 ^ Z.of_N 32)%Z with 4294967296%Z.
    change (2 ^ 32) with 4294967296 in Ha, Hb.
    destruct (N.ltb_spec a 2147483648) as [H1|H1];
      destruct (N.ltb_spec b 2147483648) as [H2|H2]; lia.
  - change (2 ^ (64 - 1)) with 9223372036854775808.
    change (2 ^ Z.of_N 64)%Z with 18446744073709551616%Z.
    change (2 ^ 64) with 18446744073709551616 in Ha, Hb.
    destruct (N.ltb_spec a 9223372036854775808) as [H1|H1];
      destruct (N.ltb_spec b 9223372036854775808) as [H2|H2]; lia.
  - lia.
  - lia.
Qed.

Lemma prim_lt_total_int p a b :
  p = PInt32 \/ p = PInt64 \/ p = PUint32 \/ p = PUint64 ->
  a < 2 ^ prim_bits p -> b < 2 ^ prim_bits p ->
  prim_lt p a b = false -> prim_lt p b a = false -> a = b.
Proof.
  intros Hp Ha Hb H1 H2. apply (prim_key_inj_int p a b Hp Ha Hb).
  assert (Hnan : forall x, prim_is_nan p x = false)
    by (intros x; destruct Hp as [Hp|[Hp|[Hp|Hp]]]; subst p; reflexivity).
  rewrite prim_lt_nonnan in H1, H2 by apply Hnan. lia.
Qed.

(** ** The byte-string order *)

Lemma bytes_lt_irrefl a : bytes_lt a a = false.
Proof.
  induction a as [|x a IH]; cbn [bytes_lt]; [reflexivity|].
  rewrite N.ltb_irrefl. exact IH.
Qed.

Lemma bytes_lt_cons x a y b :
  bytes_lt (x :: a) (y :: b) = (x <? y) || ((x =? y) && bytes_lt a b).
Proof.
  cbn [bytes_lt].
  destruct (N.ltb_spec x y) as [H1|H1]; [reflexivity|].
  destruct (N.ltb_spec y x) as [H2|H2].
  - replace (x =? y) with false by lia. reflexivity.
  - replace (x =? y) with true by lia. reflexivity.
Qed.

Lemma bytes_lt_trans a b c :
  bytes_lt a b = true -> bytes_lt b c = true -> bytes_lt a c = true.
Proof.
  revert b c. induction a as [|x a IH]; intros [|y b] [|z c];
    try (cbn [bytes_lt]; intros; congruence).
  rewrite !bytes_lt_cons. intros H1 H2.
  destruct (bytes_lt a b) eqn:Hab; destruct (bytes_lt b c) eqn:Hbc;
    try (rewrite (IH b c Hab Hbc)); lia.
Qed.

Lemma bytes_lt_total a b : bytes_lt a b = false -> bytes_lt b a = false -> a = b.
Proof.
  revert b. induction a as [|x a IH]; intros [|y b];
    try (cbn [bytes_lt]; intros; congruence).
  rewrite !bytes_lt_cons. intros H1 H2.
  assert (Hxy : x = y) by lia. subst y.
  rewrite N.ltb_irrefl, N.eqb_refl in H1, H2. cbn [orb andb] in H1, H2.
  rewrite (IH b H1 H2). reflexivity.
Qed.

Lemma bytes_lt_asym a b : bytes_lt a b = true -> bytes_lt b a = false.
Proof.
  intros Hab. destruct (bytes_lt b a) eqn:Hba; [|reflexivity].
  pose proof (bytes_lt_trans a b a Hab Hba) as H.
  rewrite bytes_lt_irrefl in H. discriminate.
Qed.

(** [a <= b] on byte strings *)
Definition bytes_le (a b : bytes) : Prop := bytes_lt b a = false.

Lemma bytes_le_refl a : bytes_le a a.
Proof. apply bytes_lt_irrefl. Qed.

Lemma bytes_le_trans a b c : bytes_le a b -> bytes_le b c -> bytes_le a c.
Proof.
  unfold bytes_le. intros Hab Hbc.
  destruct (bytes_lt c a) eqn:Hca; [|reflexivity].
  destruct (bytes_lt a b) eqn:Hlt.
  - rewrite (bytes_lt_trans c a b Hca Hlt) in Hbc. discriminate.
  - pose proof (bytes_lt_total a b Hlt Hab) as He. subst b. congruence.
Qed.

Lemma bytes_lt_le a b : bytes_lt a b = true -> bytes_le a b.
Proof. apply bytes_lt_asym. Qed.

(** ** The entries of a page *)

(** the values / the number of nulls of a page, exactly as [page_stats] and
    [stats_sound] compute them *)
Definition pvals (maxdef : N) (entries : list entry) : list value :=
  flat_map (fun e => match e_val e with
                     | Some v => if is_value maxdef e then [v] else []
                     | None => [] end) entries.

Definition pnils (maxdef : N) (entries : list entry) : N :=
  nlen (filter (fun e => negb (is_value maxdef e)) entries).

Definition entry_ok (p : prim) (maxdef : N) (e : entry) : Prop :=
  (exists v, e_val e = Some v /\ is_value maxdef e = true /\ leaf_ok p v) \/
  (e_val e = None /\ is_value maxdef e = false).

(** A page as the templates accumulate it: an entry carries a (well-typed)
    value exactly when its definition level is the maximum; a required column
    has max definition level 0 and a written page holds at least one record. *)
Definition entries_ok (p : prim) (required : bool) (maxdef : N) (entries : list entry) : Prop :=
  Forall (entry_ok p maxdef) entries /\
  (required = true -> maxdef = 0 /\ entries <> []).

(** boolean version, for the examples *)
Definition entry_okb (p : prim) (maxdef : N) (e : entry) : bool :=
  match e_val e with
  | Some v => is_value maxdef e && prim_ok p v
  | None => negb (is_value maxdef e)
  end.

Definition entries_okb (p : prim) (required : bool) (maxdef : N) (entries : list entry) : bool :=
  forallb (entry_okb p maxdef) entries &&
  (if required then (maxdef =? 0) && negb (Nat.eqb (length entries) 0) else true).

Lemma entries_okb_sound p required maxdef entries :
  entries_okb p required maxdef entries = true -> entries_ok p required maxdef entries.
Proof.
  unfold entries_okb, entries_ok. intros H.
  apply andb_prop in H. destruct H as [H1 H2]. split.
  - rewrite forallb_forall in H1. apply Forall_forall. intros e He.
    specialize (H1 e He). unfold entry_okb in H1. unfold entry_ok.
    destruct (e_val e) as [v|].
    + apply andb_prop in H1. destruct H1 as [Ha Hb]. left. exists v. auto.
    + right. split; [reflexivity|]. destruct (is_value maxdef e); [discriminate | reflexivity].
  - intros Hr. subst required. apply andb_prop in H2. destruct H2 as [Ha Hb].
    split; [lia|]. intros He. subst entries. discriminate.
Qed.

Lemma is_value_maxdef0 e : is_value 0 e = true.
Proof. unfold is_value. destruct (N.ltb_spec (e_def e) 0) as [H|H]; [lia | reflexivity]. Qed.

Lemma entries_ok_required_all_values p maxdef entries :
  entries_ok p true maxdef entries -> Forall (fun e => e_val e <> None) entries.
Proof.
  intros [Hall Hreq]. destruct (Hreq eq_refl) as [Hm _]. subst maxdef.
  rewrite Forall_forall in *. intros e He.
  destruct (Hall e He) as [[v [Hv _]]|[_ Hn]].
  - congruence.
  - rewrite is_value_maxdef0 in Hn. discriminate.
Qed.

Lemma pvals_cons maxdef e entries :
  pvals maxdef (e :: entries) =
  (match e_val e with
   | Some v => if is_value maxdef e then [v] else []
   | None => [] end) ++ pvals maxdef entries.
Proof. reflexivity. Qed.

Lemma pvals_ok p maxdef entries :
  Forall (entry_ok p maxdef) entries -> Forall (leaf_ok p) (pvals maxdef entries).
Proof.
  induction 1 as [|e entries He Hes IH].
  - constructor.
  - rewrite pvals_cons. apply Forall_app. split; [|exact IH].
    destruct He as [[v [Hv [Hi Hl]]]|[Hv Hi]]; rewrite Hv.
    + rewrite Hi. constructor; [exact Hl | constructor].
    + constructor.
Qed.

Lemma pvals_required_nonempty p maxdef entries :
  entries_ok p true maxdef entries -> pvals maxdef entries <> [].
Proof.
  intros [Hall Hreq]. destruct (Hreq eq_refl) as [Hm Hne]. subst maxdef.
  destruct entries as [|e entries]; [congruence|].
  inversion Hall as [|e0 es0 He Hes]; subst e0 es0.
  rewrite pvals_cons.
  destruct He as [[v [Hv [Hi Hl]]]|[_ Hi]].
  - rewrite Hv, Hi. discriminate.
  - rewrite is_value_maxdef0 in Hi. discriminate.
Qed.

Lemma pvals_no_value maxdef entries :
  Forall (fun e => e_val e = None) entries -> pvals maxdef entries = [].
Proof.
  induction 1 as [|e entries He Hes IH]; [reflexivity|].
  rewrite pvals_cons, He, IH. reflexivity.
Qed.

(** under [entries_ok] the nulls are the entries without a value *)
Lemma pnils_no_value p maxdef entries :
  Forall (entry_ok p maxdef) entries ->
  pnils maxdef entries =
  nlen (filter (fun e => match e_val e with None => true | Some _ => false end) entries).
Proof.
  intros Hall. unfold pnils. f_equal. apply filter_ext_in. intros e He.
  rewrite Forall_forall in Hall.
  destruct (Hall e He) as [[v [Hv [Hi _]]]|[Hv Hi]]; rewrite Hv, Hi; reflexivity.
Qed.

(** ** Characterisation of [page_stats] and [stats_sound] *)

Definition min_ok (p : prim) (vals : list value) (o : option bytes) : bool :=
  match o with
  | Some mn =>
      negb (Nat.eqb (length vals) 0) && bound_wf p mn &&
      forallb (fun v => prim_le_bytes p mn (value_bytes_of p v))
              (filter (fun v => negb (prim_is_nan p (num_of v))) vals)
  | None => true
  end.

Definition max_ok (p : prim) (vals : list value) (o : option bytes) : bool :=
  match o with
  | Some mx =>
      negb (Nat.eqb (length vals) 0) && bound_wf p mx &&
      forallb (fun v => prim_le_bytes p (value_bytes_of p v) mx)
              (filter (fun v => negb (prim_is_nan p (num_of v))) vals)
  | None => true
  end.

Lemma stats_sound_eq p maxdef entries st :
  stats_sound p maxdef entries st =
  (match st_null_count st with
   | Some n => Z.eqb n (Z.of_N (pnils maxdef entries))
   | None => true end)
  && min_ok p (pvals maxdef entries) (st_min_value st)
  && max_ok p (pvals maxdef entries) (st_max_value st).
Proof. reflexivity. Qed.

Definition num_fold (p : prim) (vals : list value) : num_stats :=
  fold_left (num_stats_add p) (map num_of vals) (num_stats_new p).

Definition num_present (p : prim) (required : bool) (vals : list value) : bool :=
  if required then true else negb (ns_non_nils (num_fold p vals) =? 0).

Definition str_fold (vals : list value) : str_stats :=
  fold_left str_stats_add (map str_of vals) str_stats_new.

Lemma page_stats_numeric p required maxdef entries :
  numeric p ->
  page_stats p required maxdef entries =
  let vals := pvals maxdef entries in
  {| st_max := None; st_min := None;
     st_null_count := if required then None else Some (Z.of_N (pnils maxdef entries));
     st_distinct_count := None;
     st_max_value := if num_present p required vals
                     then Some (le_enc (prim_size p) (ns_max (num_fold p vals))) else None;
     st_min_value := if num_present p required vals
                     then Some (le_enc (prim_size p) (ns_min (num_fold p vals))) else None |}.
Proof. intros Hp. destruct p; try contradiction; reflexivity. Qed.

Lemma page_stats_string required maxdef entries :
  page_stats PString required maxdef entries =
  let s := str_fold (pvals maxdef entries) in
  {| st_max := None; st_min := None;
     st_null_count := if required then None else Some (Z.of_N (pnils maxdef entries));
     st_distinct_count := None;
     st_max_value := if ss_seen s then Some (ss_max s) else None;
     st_min_value := if ss_seen s then Some (ss_min s) else None |}.
Proof. reflexivity. Qed.

Lemma page_stats_bool required maxdef entries :
  page_stats PBool required maxdef entries =
  {| st_max := None; st_min := None;
     st_null_count := if required then None else Some (Z.of_N (pnils maxdef entries));
     st_distinct_count := None; st_max_value := None; st_min_value := None |}.
Proof. destruct required; reflexivity. Qed.

(** null_count is present exactly for the non-required columns, and is the
    number of entries below the maximum definition level *)
Lemma page_stats_null_count p required maxdef entries :
  st_null_count (page_stats p required maxdef entries) =
  if required then None else Some (Z.of_N (pnils maxdef entries)).
Proof. destruct p, required; reflexivity. Qed.

Lemma page_stats_null_count_entries p required maxdef entries :
  entries_ok p required maxdef entries ->
  st_null_count (page_stats p required maxdef entries) =
  if required then None
  else Some (Z.of_N (nlen (filter (fun e => match e_val e with None => true | Some _ => false end)
                                  entries))).
Proof.
  intros [Hall _]. rewrite page_stats_null_count.
  rewrite (pnils_no_value p maxdef entries Hall). reflexivity.
Qed.

(** ** Numeric accumulator *)

Definition ns_good (p : prim) (s : num_stats) : Prop :=
  prim_is_nan p (ns_min s) = false /\ prim_is_nan p (ns_max s) = false /\
  ns_min s < 2 ^ prim_bits p /\ ns_max s < 2 ^ prim_bits p.

Lemma ns_good_new p : numeric p -> ns_good p (num_stats_new p).
Proof.
  intros Hp. unfold ns_good, num_stats_new. cbn [ns_min ns_max].
  destruct p; try contradiction; repeat split; vm_compute; reflexivity.
Qed.

Lemma num_stats_add_inv p s v :
  ns_good p s -> v < 2 ^ prim_bits p ->
  ns_good p (num_stats_add p s v) /\
  (prim_key p (ns_min (num_stats_add p s v)) <= prim_key p (ns_min s))%Z /\
  (prim_key p (ns_max s) <= prim_key p (ns_max (num_stats_add p s v)))%Z /\
  ns_non_nils (num_stats_add p s v) = ns_non_nils s + 1 /\
  (prim_is_nan p v = false ->
   (prim_key p (ns_min (num_stats_add p s v)) <= prim_key p v
    <= prim_key p (ns_max (num_stats_add p s v)))%Z).
Proof.
  intros [G1 [G2 [G3 G4]]] Hv.
  unfold ns_good, num_stats_add. cbn [ns_min ns_max ns_non_nils].
  rewrite !prim_lt_key, G1, G2.
  destruct (prim_is_nan p v) eqn:Hnan; cbn [negb andb].
  - rewrite G1, G2. repeat split; try assumption; try lia; try discriminate.
  - destruct (Z.ltb_spec (prim_key p v) (prim_key p (ns_min s))) as [H1|H1];
      destruct (Z.ltb_spec (prim_key p (ns_max s)) (prim_key p v)) as [H2|H2];
      rewrite ?G1, ?G2, ?Hnan; repeat split; try assumption; try lia.
Qed.

Lemma num_fold_inv p vs s :
  ns_good p s -> Forall (fun v => v < 2 ^ prim_bits p) vs ->
  ns_good p (fold_left (num_stats_add p) vs s) /\
  (prim_key p (ns_min (fold_left (num_stats_add p) vs s)) <= prim_key p (ns_min s))%Z /\
  (prim_key p (ns_max s) <= prim_key p (ns_max (fold_left (num_stats_add p) vs s)))%Z /\
  ns_non_nils (fold_left (num_stats_add p) vs s) = ns_non_nils s + nlen vs /\
  (forall v, In v vs -> prim_is_nan p v = false ->
     (prim_key p (ns_min (fold_left (num_stats_add p) vs s)) <= prim_key p v
      <= prim_key p (ns_max (fold_left (num_stats_add p) vs s)))%Z).
Proof.
  intros Hs Hvs. revert s Hs.
  induction Hvs as [|v vs Hv Hvs IH]; intros s Hs; cbn [fold_left].
  - split; [exact Hs|]. split; [lia|]. split; [lia|].
    split; [unfold nlen; cbn [length]; lia|]. intros v [].
  - destruct (num_stats_add_inv p s v Hs Hv) as [A1 [A2 [A3 [A4 A5]]]].
    destruct (IH _ A1) as [B1 [B2 [B3 [B4 B5]]]].
    split; [exact B1|]. split; [lia|]. split; [lia|].
    split; [rewrite B4, A4; unfold nlen; cbn [length]; lia|].
    intros w [Hw|Hw] Hnan.
    + subst w. specialize (A5 Hnan). lia.
    + apply B5; assumption.
Qed.

Lemma leaf_ok_nums p vals :
  numeric p -> Forall (leaf_ok p) vals ->
  Forall (fun v => v < 2 ^ prim_bits p) (map num_of vals).
Proof.
  intros Hp Hvals. rewrite Forall_map.
  rewrite Forall_forall in *. intros v Hv.
  destruct (leaf_ok_numeric p v Hp (Hvals v Hv)) as [n [Hn Hb]]. subst v. exact Hb.
Qed.

Lemma prim_le_bytes_numeric p a b :
  numeric p -> prim_le_bytes p a b = negb (prim_lt p (le_dec b) (le_dec a)).
Proof. intros Hp. destruct p; try contradiction; reflexivity. Qed.

Lemma value_bytes_of_numeric p v :
  numeric p -> value_bytes_of p v = le_enc (prim_size p) (num_of v).
Proof. intros Hp. destruct p; try contradiction; reflexivity. Qed.

(** the encoding of a non-NaN pattern of the type's width is a well-formed bound *)
Lemma bound_wf_enc p n :
  numeric p -> n < 2 ^ prim_bits p -> prim_is_nan p n = false ->
  bound_wf p (le_enc (prim_size p) n) = true.
Proof.
  intros Hp Hn Hnan.
  assert (Hwf : bound_wf p (le_enc (prim_size p) n) =
                Nat.eqb (length (le_enc (prim_size p) n)) (prim_size p)
                && negb (prim_is_nan p (le_dec (le_enc (prim_size p) n))))
    by (destruct p; try contradiction; reflexivity).
  rewrite Hwf, le_enc_length, Nat.eqb_refl.
  rewrite le_dec_enc by (rewrite <- (pow_bits_size p Hp); exact Hn).
  rewrite Hnan. reflexivity.
Qed.

(** a bound that decodes to a NaN, or is of the wrong width, is refused *)
Lemma bound_wf_sound p b :
  numeric p -> bound_wf p b = true ->
  length b = prim_size p /\ prim_is_nan p (le_dec b) = false.
Proof.
  intros Hp H.
  assert (Hwf : bound_wf p b =
                Nat.eqb (length b) (prim_size p) && negb (prim_is_nan p (le_dec b)))
    by (destruct p; try contradiction; reflexivity).
  rewrite Hwf in H. apply andb_prop in H. destruct H as [H1 H2].
  split; [apply Nat.eqb_eq; exact H1 | apply negb_true_iff; exact H2].
Qed.

Lemma length_nonzero {A} (l : list A) : l <> [] -> negb (Nat.eqb (length l) 0) = true.
Proof. destruct l as [|x l]; [congruence | reflexivity]. Qed.

Lemma num_stats_sound_core p required vals :
  numeric p -> Forall (leaf_ok p) vals -> (required = true -> vals <> []) ->
  min_ok p vals (if num_present p required vals
                 then Some (le_enc (prim_size p) (ns_min (num_fold p vals))) else None) = true /\
  max_ok p vals (if num_present p required vals
                 then Some (le_enc (prim_size p) (ns_max (num_fold p vals))) else None) = true.
Proof.
  intros Hp Hvals Hreq.
  pose proof (leaf_ok_nums p vals Hp Hvals) as Hnums.
  destruct (num_fold_inv p (map num_of vals) (num_stats_new p) (ns_good_new p Hp) Hnums)
    as [[G1 [G2 [G3 G4]]] [_ [_ [Hcnt Hbnd]]]].
  fold (num_fold p vals) in G1, G2, G3, G4, Hcnt, Hbnd.
  destruct (num_present p required vals) eqn:Hpres; [|split; reflexivity].
  assert (Hne : negb (Nat.eqb (length vals) 0) = true).
  { unfold num_present in Hpres. destruct required.
    - apply length_nonzero. apply Hreq. reflexivity.
    - cbn [num_stats_new ns_non_nils] in Hcnt. unfold nlen in Hcnt.
      rewrite map_length in Hcnt. destruct vals as [|v vals]; [|reflexivity].
      cbn [length] in Hcnt. lia. }
  assert (Hsz : 2 ^ prim_bits p = 256 ^ N.of_nat (prim_size p)) by (apply pow_bits_size; exact Hp).
  unfold min_ok, max_ok. rewrite Hne.
  rewrite (bound_wf_enc p (ns_min (num_fold p vals)) Hp G3 G1).
  rewrite (bound_wf_enc p (ns_max (num_fold p vals)) Hp G4 G2).
  cbn [andb].
  split; apply forallb_forall; intros v Hv; apply filter_In in Hv; destruct Hv as [Hin Hnan];
    rewrite prim_le_bytes_numeric, value_bytes_of_numeric by exact Hp;
    (assert (Hvb : num_of v < 2 ^ prim_bits p)
       by (rewrite Forall_forall in Hnums; apply Hnums; apply in_map; exact Hin));
    rewrite !le_dec_enc by (rewrite <- Hsz; assumption);
    apply negb_true_iff in Hnan;
    specialize (Hbnd (num_of v) (in_map num_of vals v Hin) Hnan);
    rewrite prim_lt_nonnan by assumption; lia.
Qed.

(** ** String accumulator *)

Lemma str_min_step v m :
  bytes_le (if bytes_lt v m then v else m) v /\ bytes_le (if bytes_lt v m then v else m) m.
Proof.
  destruct (bytes_lt v m) eqn:H; split.
  - apply bytes_le_refl.
  - apply bytes_lt_le. exact H.
  - exact H.
  - apply bytes_le_refl.
Qed.

Lemma str_max_step v m :
  bytes_le v (if bytes_lt m v then v else m) /\ bytes_le m (if bytes_lt m v then v else m).
Proof.
  destruct (bytes_lt m v) eqn:H; split.
  - apply bytes_le_refl.
  - apply bytes_lt_le. exact H.
  - exact H.
  - apply bytes_le_refl.
Qed.

Lemma str_stats_add_inv s v :
  ss_seen (str_stats_add s v) = true /\
  bytes_le (ss_min (str_stats_add s v)) v /\ bytes_le v (ss_max (str_stats_add s v)) /\
  (ss_seen s = true ->
   bytes_le (ss_min (str_stats_add s v)) (ss_min s) /\
   bytes_le (ss_max s) (ss_max (str_stats_add s v))).
Proof.
  unfold str_stats_add. destruct (ss_seen s) eqn:Hseen; cbn [ss_seen ss_min ss_max].
  - destruct (str_min_step v (ss_min s)) as [M1 M2].
    destruct (str_max_step v (ss_max s)) as [X1 X2].
    split; [reflexivity|]. split; [exact M1|]. split; [exact X1|].
    intros _. split; [exact M2 | exact X2].
  - split; [reflexivity|]. split; [apply bytes_le_refl|]. split; [apply bytes_le_refl|].
    intros Hf. discriminate Hf.
Qed.

Lemma str_fold_inv vs s :
  ss_seen (fold_left str_stats_add vs s) = ss_seen s || negb (Nat.eqb (length vs) 0) /\
  (ss_seen s = true ->
   bytes_le (ss_min (fold_left str_stats_add vs s)) (ss_min s) /\
   bytes_le (ss_max s) (ss_max (fold_left str_stats_add vs s))) /\
  (forall v, In v vs ->
     bytes_le (ss_min (fold_left str_stats_add vs s)) v /\
     bytes_le v (ss_max (fold_left str_stats_add vs s))).
Proof.
  revert s. induction vs as [|v vs IH]; intros s; cbn [fold_left length].
  - split; [rewrite orb_false_r; reflexivity|].
    split; [intros _; split; apply bytes_le_refl | intros v []].
  - destruct (str_stats_add_inv s v) as [A1 [A2 [A3 A4]]].
    destruct (IH (str_stats_add s v)) as [B1 [B2 B3]].
    destruct (B2 A1) as [B2a B2b].
    split; [rewrite B1, A1; cbn [Nat.eqb negb]; rewrite orb_true_r; reflexivity|].
    split.
    + intros Hseen. destruct (A4 Hseen) as [A4a A4b].
      split; eapply bytes_le_trans; eassumption.
    + intros w [Hw|Hw].
      * subst w. split; eapply bytes_le_trans; eassumption.
      * apply B3. exact Hw.
Qed.

Lemma str_stats_sound_core vals :
  min_ok PString vals (if ss_seen (str_fold vals) then Some (ss_min (str_fold vals)) else None) = true /\
  max_ok PString vals (if ss_seen (str_fold vals) then Some (ss_max (str_fold vals)) else None) = true.
Proof.
  destruct (str_fold_inv (map str_of vals) str_stats_new) as [Hseen [_ Hbnd]].
  fold (str_fold vals) in Hseen, Hbnd.
  destruct (ss_seen (str_fold vals)) eqn:Hs; [|split; reflexivity].
  rewrite map_length in Hseen. cbn [str_stats_new ss_seen orb] in Hseen.
  unfold min_ok, max_ok. rewrite <- Hseen. cbn [andb bound_wf].
  split; apply forallb_forall; intros v Hv; apply filter_In in Hv; destruct Hv as [Hin _];
    destruct (Hbnd (str_of v) (in_map str_of vals v Hin)) as [Hmin Hmax];
    unfold bytes_le in Hmin, Hmax;
    cbn [prim_le_bytes value_bytes_of]; [rewrite Hmin | rewrite Hmax]; reflexivity.
Qed.

(** ** C12: the statistics of a page are sound *)

Theorem page_stats_sound p required maxdef entries :
  entries_ok p required maxdef entries ->
  stats_sound p maxdef entries (page_stats p required maxdef entries) = true.
Proof.
  intros Hok. rewrite stats_sound_eq.
  assert (Hnull :
    match st_null_count (page_stats p required maxdef entries) with
    | Some n => Z.eqb n (Z.of_N (pnils maxdef entries))
    | None => true end = true).
  { rewrite page_stats_null_count. destruct required; [reflexivity | apply Z.eqb_refl]. }
  rewrite Hnull. cbn [andb].
  assert (Hvals : Forall (leaf_ok p) (pvals maxdef entries))
    by (apply pvals_ok; exact (proj1 Hok)).
  assert (Hreq : required = true -> pvals maxdef entries <> []).
  { intros Hr. subst required. apply (pvals_required_nonempty p). exact Hok. }
  destruct (prim_eq_dec_bool p) as [Hb|Hb].
  - subst p. rewrite page_stats_bool. reflexivity.
  - assert (Hcase : numeric p \/ p = PString)
      by (destruct p; try congruence; auto; left; exact I).
    destruct Hcase as [Hp|Hp].
    + rewrite page_stats_numeric by exact Hp. cbv zeta. cbn [st_min_value st_max_value].
      destruct (num_stats_sound_core p required (pvals maxdef entries) Hp Hvals Hreq) as [H1 H2].
      rewrite H1, H2. reflexivity.
    + subst p. rewrite page_stats_string. cbv zeta. cbn [st_min_value st_max_value].
      destruct (str_stats_sound_core (pvals maxdef entries)) as [H1 H2].
      rewrite H1, H2. reflexivity.
Qed.

(** min/max are absent when a non-required page holds no value *)
Lemma page_stats_absent p maxdef entries :
  pvals maxdef entries = [] ->
  st_min_value (page_stats p false maxdef entries) = None /\
  st_max_value (page_stats p false maxdef entries) = None.
Proof.
  intros Hv.
  destruct (prim_eq_dec_bool p) as [Hb|Hb].
  - subst p. rewrite page_stats_bool. split; reflexivity.
  - assert (Hcase : numeric p \/ p = PString)
      by (destruct p; try congruence; auto; left; exact I).
    destruct Hcase as [Hp|Hp].
    + rewrite page_stats_numeric by exact Hp. cbv zeta. rewrite Hv.
      cbn [st_min_value st_max_value]. split; reflexivity.
    + subst p. rewrite page_stats_string. cbv zeta. rewrite Hv. split; reflexivity.
Qed.

Lemma page_stats_absent_nulls p maxdef entries :
  Forall (fun e => e_val e = None) entries ->
  st_min_value (page_stats p false maxdef entries) = None /\
  st_max_value (page_stats p false maxdef entries) = None.
Proof. intros H. apply page_stats_absent. apply pvals_no_value. exact H. Qed.

(** and present as soon as it holds one (with [page_stats_sound] they are then bounds) *)
Lemma page_stats_present p required maxdef entries :
  p <> PBool -> pvals maxdef entries <> [] ->
  st_min_value (page_stats p required maxdef entries) <> None /\
  st_max_value (page_stats p required maxdef entries) <> None.
Proof.
  intros Hb Hne.
  assert (Hcase : numeric p \/ p = PString)
    by (destruct p; try congruence; auto; left; exact I).
  destruct Hcase as [Hp|Hp].
  - rewrite page_stats_numeric by exact Hp. cbv zeta. cbn [st_min_value st_max_value].
    assert (Hpres : num_present p required (pvals maxdef entries) = true).
    { unfold num_present. destruct required; [reflexivity|].
      assert (Hcnt : forall vs s, ns_non_nils (fold_left (num_stats_add p) vs s)
                                  = ns_non_nils s + nlen vs).
      { induction vs as [|v vs IH]; intros s; cbn [fold_left].
        - unfold nlen. cbn [length]. lia.
        - rewrite IH. unfold num_stats_add, nlen. cbn [ns_non_nils length]. lia. }
      unfold num_fold. rewrite Hcnt. unfold nlen. rewrite map_length.
      destruct (pvals maxdef entries) as [|v vs]; [congruence|].
      cbn [length num_stats_new ns_non_nils]. lia. }
    rewrite Hpres. split; discriminate.
  - subst p. rewrite page_stats_string. cbv zeta. cbn [st_min_value st_max_value].
    destruct (str_fold_inv (map str_of (pvals maxdef entries)) str_stats_new) as [Hseen _].
    fold (str_fold (pvals maxdef entries)) in Hseen.
    rewrite map_length, (length_nonzero _ Hne) in Hseen. cbn [str_stats_new ss_seen orb] in Hseen.
    rewrite Hseen. split; discriminate.
Qed.

(** ** Examples *)

Definition ev (d : N) (v : value) : entry := {| e_rep := 0; e_def := d; e_val := Some v |}.
Definition en (d : N) : entry := {| e_rep := 0; e_def := d; e_val := None |}.

(** The hypothesis "a written page holds a record" is necessary: the required
    numeric accumulator always reports min/max. *)
Example page_stats_empty_required_refuted :
  stats_sound PInt32 0 [] (page_stats PInt32 true 0 []) = false.
Proof. vm_compute. reflexivity. Qed.

(** The pre-fix string accumulator: the page ["__#NIL#__"; "zzz"] gets
    min = "zzz" although "__#NIL#__" < "zzz". *)
Example C12_string_refuted_old :
  let '(mn, mx) := fold_left (fun '(a, b) v => str_stats_add_old a b v)
                             [nil_sentinel; [122; 122; 122]] (nil_sentinel, nil_sentinel) in
  bytes_lt nil_sentinel mn = true.
Proof. vm_compute. reflexivity. Qed.

(** all-negative int32 page: -5, -100, -1 (max stays at its initial 0: a bound, not tight) *)
Definition ex_neg : list entry :=
  [ev 0 (VNum 4294967291); ev 0 (VNum 4294967196); ev 0 (VNum 4294967295)].
Example ex_neg_ok : entries_okb PInt32 true 0 ex_neg = true.
Proof. vm_compute. reflexivity. Qed.
Example ex_neg_stats :
  (st_min_value (page_stats PInt32 true 0 ex_neg), st_max_value (page_stats PInt32 true 0 ex_neg))
  = (Some [156; 255; 255; 255], Some [0; 0; 0; 0]).
Proof. vm_compute. reflexivity. Qed.
Example ex_neg_sound : stats_sound PInt32 0 ex_neg (page_stats PInt32 true 0 ex_neg) = true.
Proof. vm_compute. reflexivity. Qed.

(** float32 page: NaN, -0, null, +Inf, 1.0, -2.0 *)
Definition ex_flt : list entry :=
  [ev 1 (VNum 2143289344); ev 1 (VNum 2147483648); en 0; ev 1 (VNum 2139095040);
   ev 1 (VNum 1065353216); ev 1 (VNum 3221225472)].
Example ex_flt_ok : entries_okb PFloat32 false 1 ex_flt = true.
Proof. vm_compute. reflexivity. Qed.
Example ex_flt_stats :
  (st_null_count (page_stats PFloat32 false 1 ex_flt),
   st_min_value (page_stats PFloat32 false 1 ex_flt),
   st_max_value (page_stats PFloat32 false 1 ex_flt))
  = (Some 1%Z, Some [0; 0; 0; 192], Some [0; 0; 128; 127]).
Proof. vm_compute. reflexivity. Qed.
Example ex_flt_sound : stats_sound PFloat32 1 ex_flt (page_stats PFloat32 false 1 ex_flt) = true.
Proof. vm_compute. reflexivity. Qed.

(** The strengthened checker at work.  float32 page NaN, 1.5, -2.5: statistics
    min = max = NaN (0x7FC00000, little endian) bound nothing - every comparison
    against them is false - and are judged unsound; the statistics the templates
    write for the same page (the accumulator never takes a NaN) are sound. *)
Definition ex_nan : list entry :=
  [ev 0 (VNum 2143289344); ev 0 (VNum 1069547520); ev 0 (VNum 3223322624)].
Definition ex_nan_stats_bad : statistics :=
  {| st_max := None; st_min := None; st_null_count := None; st_distinct_count := None;
     st_max_value := Some [0; 0; 192; 127]; st_min_value := Some [0; 0; 192; 127] |}.
Example ex_nan_ok : entries_okb PFloat32 true 0 ex_nan = true.
Proof. vm_compute. reflexivity. Qed.
Example ex_nan_bounds_unsound : stats_sound PFloat32 0 ex_nan ex_nan_stats_bad = false.
Proof. vm_compute. reflexivity. Qed.
Example ex_nan_page_stats :
  (st_min_value (page_stats PFloat32 true 0 ex_nan), st_max_value (page_stats PFloat32 true 0 ex_nan))
  = (Some [0; 0; 32; 192], Some [0; 0; 192; 63]).
Proof. vm_compute. reflexivity. Qed.
Example ex_nan_page_stats_sound :
  stats_sound PFloat32 0 ex_nan (page_stats PFloat32 true 0 ex_nan) = true.
Proof. vm_compute. reflexivity. Qed.

(** string page: "\xc8\x01", "", "\x80", "ab" *)
Definition ex_str : list entry :=
  [ev 0 (VStr [200; 1]); ev 0 (VStr []); ev 0 (VStr [128]); ev 0 (VStr [97; 98])].
Example ex_str_ok : entries_okb PString true 0 ex_str = true.
Proof. vm_compute. reflexivity. Qed.
Example ex_str_stats :
  (st_min_value (page_stats PString true 0 ex_str), st_max_value (page_stats PString true 0 ex_str))
  = (Some [], Some [200; 1]).
Proof. vm_compute. reflexivity. Qed.
Example ex_str_sound : stats_sound PString 0 ex_str (page_stats PString true 0 ex_str) = true.
Proof. vm_compute. reflexivity. Qed.

(** optional page with only nulls *)
Definition ex_nulls : list entry := [en 0; en 1; en 0].
Example ex_nulls_ok : entries_okb PInt64 false 2 ex_nulls = true.
Proof. vm_compute. reflexivity. Qed.
Example ex_nulls_stats :
  page_stats PInt64 false 2 ex_nulls =
  {| st_max := None; st_min := None; st_null_count := Some 3%Z; st_distinct_count := None;
     st_max_value := None; st_min_value := None |}.
Proof. vm_compute. reflexivity. Qed.
Example ex_nulls_sound : stats_sound PInt64 2 ex_nulls (page_stats PInt64 false 2 ex_nulls) = true.
Proof. vm_compute. reflexivity. Qed.
Example ex_nulls_str_sound :
  stats_sound PString 2 ex_nulls (page_stats PString false 2 ex_nulls) = true.
Proof. vm_compute. reflexivity. Qed.

Print Assumptions page_stats_sound.
Print Assumptions page_stats_null_count.
Print Assumptions page_stats_null_count_entries.
Print Assumptions page_stats_absent.
Print Assumptions page_stats_present.
Print Assumptions bytes_lt_trans.
Print Assumptions bytes_lt_total.
Print Assumptions prim_le_trans.
Print Assumptions prim_lt_total_int.
