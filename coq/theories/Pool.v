(** * Pool: what the process-wide bytebufferpool can and cannot influence.
    A pooled buffer comes back from [Get] with length 0 (Put resets it) and an
    arbitrary stale capacity.  [compress] (fields.go) uses it as scratch:
    for snappy it re-slices the buffer to MaxEncodedLen — exposing the stale
    bytes — and hands it to snappy.Encode as dst; for gzip and in the
    generated Write methods the buffer is only appended to.
    Definitions only; proofs in PoolProofs.v. *)
From Coq Require Import List NArith ZArith Lia Bool.
From PQ Require Import Bytes MetaTypes.
Import ListNotations.

Record pbuf := { pb_data : bytes; pb_stale : bytes }.     (* B[:len], B[len:cap] *)

(** Get: length 0, arbitrary stale capacity *)
Definition pool_get (stale : bytes) : pbuf := {| pb_data := []; pb_stale := stale |}.

(** buf.Write(x) / append: the stale bytes under the new data are overwritten *)
Definition pb_append (b : pbuf) (x : bytes) : pbuf :=
  {| pb_data := pb_data b ++ x; pb_stale := skipn (length x) (pb_stale b) |}.

(** buf.B = buf.B[:v] when v <= cap (else a fresh zeroed slice of length v) *)
Definition pb_reslice (b : pbuf) (v : nat) : bytes :=
  let all := pb_data b ++ pb_stale b in
  if Nat.leb v (length all) then firstn v all else repeat 0%N v.

Section WithCodecs.
(** snappy.Encode(dst, src) and snappy.MaxEncodedLen; gzip BestSpeed of src *)
Variable snappy_encode : bytes -> bytes -> bytes.
Variable snappy_maxlen : nat -> nat.
Variable gzip_encode : bytes -> bytes.

(** fields.go compress(codec, buf, vals) with the pooled buffer [buf] *)
Definition compress_pooled (codec : Z) (buf : pbuf) (vals : bytes) : bytes :=
  if Z.eqb codec CODEC_SNAPPY then snappy_encode (pb_reslice buf (snappy_maxlen (length vals))) vals
  else if Z.eqb codec CODEC_GZIP then pb_data (pb_append buf (gzip_encode vals))
  else vals.

(** the generated numeric/string Write: values appended to a pooled buffer,
    then DoWrite -> compress with a second pooled buffer *)
Definition page_body_pooled (codec : Z) (stale1 stale2 : bytes) (pieces : list bytes) : bytes :=
  let buf := fold_left pb_append pieces (pool_get stale1) in
  compress_pooled codec (pool_get stale2) (pb_data buf).

End WithCodecs.

(** ** Interleavings of independent instances sharing a pool.
    An instance is a state machine [step]; every call may read the pool's
    stale buffers (as scratch) and leaves other stale buffers behind. *)
Section Interleave.
Variables (St Call Out : Type).
Variable step : list bytes -> St -> Call -> St * Out * list bytes.   (* pool in, (state, output, pool out) *)

(** run a schedule of (instance id, call); instance states in [sts] *)
Fixpoint run_sched (pool : list bytes) (sts : nat -> St) (sched : list (nat * Call)) : list (nat * Out) :=
  match sched with
  | [] => []
  | (i, c) :: rest =>
      let '(s', o, pool') := step pool (sts i) c in
      (i, o) :: run_sched pool' (fun j => if Nat.eqb j i then s' else sts j) rest
  end.

(** the solo run of one instance from an arbitrary pool *)
Fixpoint run_solo (pool : list bytes) (s : St) (calls : list Call) : list Out :=
  match calls with
  | [] => []
  | c :: rest => let '(s', o, pool') := step pool s c in o :: run_solo pool' s' rest
  end.

Definition calls_of (i : nat) (sched : list (nat * Call)) : list Call :=
  map snd (filter (fun ic => Nat.eqb (fst ic) i) sched).
Definition outs_of {A} (i : nat) (outs : list (nat * A)) : list A :=
  map snd (filter (fun ic => Nat.eqb (fst ic) i) outs).
End Interleave.
