(** * ConformantFaults: the three reader theorems composed.
    For EVERY byte string the independent validator accepts as a conformant
    file of the supported subset, read through ANY fragmentation schedule and
    with ANY single source operation failing, the reader model either returns
    exactly the file's records (the fault was not reached) or reports an error
    after delivering a prefix of them - never a panic, never other rows.
    (C04 [conformant_read_ok] + C08 [read_frag_indep] + C10 [src_fault_safe].) *)
From Coq Require Import List NArith ZArith Lia Bool.
From PQ Require Import Bytes Schema MetaTypes Io Reader FileSpec ForeignProofs ConformantProofs ReaderIoProofs.
Import ListNotations.
Local Open Scope N_scope.

Definition expected_outcome (v : file_view) : outcome :=
  {| o_open_ok := true; o_rows := Z.of_N (sumN (map rv_rows (fv_rgs v)));
     o_nexts := sumN (map rv_rows (fv_rgs v)); o_err := false; o_panic := false;
     o_recs := view_records v |}.

Section Composite.
Variable decompress : Z -> bytes -> option bytes.
Variables (fs : list field) (file : bytes) (v : file_view).
Hypothesis Hchk : check_file decompress file = inr v.
Hypothesis Hfs : fv_fields v = fs.
Hypothesis Hshape : fshape_ok fs.
Hypothesis Hid : forall x, decompress CODEC_UNCOMPRESSED x = Some x.
Hypothesis Hwfd : forall c x y, wf_bytes x -> decompress c x = Some y -> wf_bytes y.
Hypothesis Hwf : wf_bytes file.

(** any schedule, no fault: exactly the records *)
Theorem conformant_any_schedule sched :
  read_all_src decompress fs (mk_src file sched None) = expected_outcome v.
Proof using Hchk Hfs Hshape Hid Hwfd Hwf.
  rewrite (read_frag_indep decompress fs file sched [] None).
  exact (conformant_read_ok decompress fs file v Hchk Hfs Hshape Hid Hwfd Hwf).
Qed.

(** any schedule, any single failing source operation *)
Theorem conformant_fault_safe sched k :
  let bad := read_all_src decompress fs (mk_src file sched (Some k)) in
  bad = expected_outcome v \/
  (o_err bad = true /\ o_panic bad = false /\
   o_nexts bad <= sumN (map rv_rows (fv_rgs v)) /\
   exists rest, view_records v = o_recs bad ++ rest).
Proof using Hchk Hfs Hshape Hid Hwfd Hwf.
  cbv zeta.
  pose proof (src_fault_safe decompress fs file sched k) as H. cbv zeta in H.
  rewrite (conformant_any_schedule sched) in H.
  destruct H as [H | (He & Hp & _ & Hn & Hr)].
  - left. exact H.
  - right. cbn [expected_outcome o_nexts o_recs] in Hn, Hr.
    split; [exact He|]. split; [exact Hp|]. split; [exact Hn | exact Hr].
Qed.

End Composite.

Print Assumptions conformant_any_schedule.
Print Assumptions conformant_fault_safe.
