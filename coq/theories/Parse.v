(** * Parse: cmd/parquetgen/parse/parse.go — from the struct declarations of a
    Go file to the tree of columns ([parse.Fields]), after fix 45c28bc.
    Field declarations carry an arbitrary Go type so that excluded fields of
    any shape can be expressed; only the documented forms [T], [*T], [[]T]
    (T a primitive or a struct declared in the same file) become columns.
    Definitions only; proofs in ParseProofs.v. *)
From Coq Require Import List NArith Lia Bool.
From PQ Require Import Bytes Schema.
Import ListNotations.
Local Open Scope N_scope.

Inductive gotype :=
| GBase (name : bytes)                 (* an identifier: int32, string, ..., or a declared struct *)
| GPtr (g : gotype)
| GSlice (g : gotype)
| GMap (k v : gotype)
| GChan (g : gotype)
| GIface
| GFunc (params : list fdecl)          (* parameters are ast.Fields too *)
| GStruct (fs : list fdecl)            (* anonymous struct *)
with fdecl :=
| FD (names : list bytes) (ty : gotype) (tag : option bytes).   (* names = [] : embedded *)

Definition fd_names (f : fdecl) : list bytes := match f with FD n _ _ => n end.
Definition fd_type (f : fdecl) : gotype := match f with FD _ t _ => t end.
Definition fd_tag (f : fdecl) : option bytes := match f with FD _ _ t => t end.

Definition decls := list (bytes * list fdecl).      (* type name -> its struct fields, in file order *)

Definition bytes_eqb (a b : bytes) : bool := if list_eq_dec N.eq_dec a b then true else false.

Fixpoint lookup (ds : decls) (name : bytes) : option (list fdecl) :=
  match ds with
  | [] => None
  | (n, fs) :: r => if bytes_eqb n name then Some fs else lookup r name
  end.

(** isPrivate: the first byte is a-z or '_' *)
Definition is_private (s : bytes) : bool :=
  match s with
  | c :: _ => ((97 <=? c) && (c <=? 122)) || (c =? 95)
  | [] => false
  end.

Definition prim_of_name (s : bytes) : option prim :=
  if bytes_eqb s [105;110;116;51;50] then Some PInt32
  else if bytes_eqb s [105;110;116;54;52] then Some PInt64
  else if bytes_eqb s [117;105;110;116;51;50] then Some PUint32
  else if bytes_eqb s [117;105;110;116;54;52] then Some PUint64
  else if bytes_eqb s [102;108;111;97;116;51;50] then Some PFloat32
  else if bytes_eqb s [102;108;111;97;116;54;52] then Some PFloat64
  else if bytes_eqb s [98;111;111;108] then Some PBool
  else if bytes_eqb s [115;116;114;105;110;103] then Some PString
  else None.

Definition dash : bytes := [45].

(** the documented field forms: (repetition, base type name) *)
Definition field_form (g : gotype) : option (rept * bytes) :=
  match g with
  | GBase n => Some (Req, n)
  | GPtr (GBase n) => Some (Opt, n)
  | GSlice (GBase n) => Some (Rep, n)
  | _ => None
  end.

(** one entry of getFields' Children list *)
Record rawfield := { rf_name : bytes; rf_col : bytes; rf_rep : rept; rf_type : bytes; rf_embedded : bool }.

Inductive raw_result :=
| RSkip                   (* not a column: unexported, dash-tagged, several names *)
| RField (f : rawfield)
| RUnsupported.           (* an exported field of a form outside the documented grammar *)

(** what getFields' ast.Inspect callback does with one direct field of a struct *)
Definition raw_of (f : fdecl) : raw_result :=
  match fd_names f with
  | [n] =>
      if is_private n then RSkip
      else
        let col := match fd_tag f with Some t => t | None => n end in
        if bytes_eqb col dash then RSkip
        else match field_form (fd_type f) with
             | Some (rp, t) => RField {| rf_name := n; rf_col := col; rf_rep := rp; rf_type := t; rf_embedded := false |}
             | None => RUnsupported
             end
  | [] =>
      match fd_type f with
      | GBase t =>
          if is_private t then RSkip
          else if (match fd_tag f with Some tg => bytes_eqb tg dash | None => false end) then RSkip
          else RField {| rf_name := t; rf_col := t; rf_rep := Req; rf_type := t; rf_embedded := true |}
      | _ => RUnsupported
      end
  | _ => RSkip                       (* `A, B int32`: neither branch of the callback fires *)
  end.

(** the column tree *)
Inductive pfield :=
| PLeaf (name col : bytes) (rp : rept) (p : prim)
| PGroup (name col : bytes) (rp : rept) (typ : bytes) (kids : list pfield).

(** getChildren, with the nesting depth as fuel (a struct cannot contain itself by value) *)
Fixpoint children (fuel : nat) (ds : decls) (fs : list fdecl) : option (list pfield) :=
  match fuel with
  | O => None
  | S fu =>
      (fix go (fs : list fdecl) : option (list pfield) :=
         match fs with
         | [] => Some []
         | f :: rest =>
             match go rest with
             | None => None
             | Some tail =>
                 match raw_of f with
                 | RSkip => Some tail
                 | RUnsupported => None
                 | RField r =>
                     match prim_of_name (rf_type r) with
                     | Some p => if rf_embedded r then None   (* embedding a primitive is not a struct *)
                                 else Some (PLeaf (rf_name r) (rf_col r) (rf_rep r) p :: tail)
                     | None =>
                         match lookup ds (rf_type r) with
                         | None => None                       (* unsupported type *)
                         | Some sub =>
                             match children fu ds sub with
                             | None => None
                             | Some kids =>
                                 if rf_embedded r then Some (kids ++ tail)
                                 else Some (PGroup (rf_name r) (rf_col r) (rf_rep r) (rf_type r) kids :: tail)
                             end
                         end
                     end
                 end
             end
         end) fs
  end.

Definition parse_root (ds : decls) (root : bytes) : option (list pfield) :=
  match lookup ds root with
  | Some fs => children (S (length ds)) ds fs
  | None => None
  end.

(** the shape of the file the generated code writes: column names, repetitions, types *)
Fixpoint shape_of (pf : pfield) : field :=
  match pf with
  | PLeaf _ col rp p => (col, rp, TLeaf p)
  | PGroup _ col rp _ kids => (col, rp, TGroup (map shape_of kids))
  end.

(** ** The two transformations of property C14 *)

(** a field that the documentation says is excluded: a single unexported name
    (any type, any tag), or any field tagged parquet:"-" *)
Definition excluded (f : fdecl) : bool :=
  match fd_names f with
  | [n] => is_private n || (match fd_tag f with Some t => bytes_eqb t dash | None => false end)
  | [] => match fd_type f with
          | GBase t => is_private t || (match fd_tag f with Some tg => bytes_eqb tg dash | None => false end)
          | _ => false
          end
  | _ => false
  end.

Fixpoint insert_at {A} (i : nat) (x : A) (l : list A) : list A :=
  match i, l with
  | O, _ => x :: l
  | S i', y :: r => y :: insert_at i' x r
  | S _, [] => [x]
  end.

(** insert field [f] at position [i] of declaration [tname] *)
Fixpoint decorate (ds : decls) (tname : bytes) (i : nat) (f : fdecl) : decls :=
  match ds with
  | [] => []
  | (n, fs) :: r => if bytes_eqb n tname then (n, insert_at i f fs) :: r else (n, fs) :: decorate r tname i f
  end.

(** replace fields [i, i+k) of declaration [tname] by an embedded struct [ename] holding them *)
Fixpoint embed (ds : decls) (tname ename : bytes) (i k : nat) : decls :=
  match ds with
  | [] => []
  | (n, fs) :: r =>
      if bytes_eqb n tname then
        (n, firstn i fs ++ [FD [] (GBase ename) None] ++ skipn (i + k) fs) :: (ename, firstn k (skipn i fs)) :: r
      else (n, fs) :: embed r tname ename i k
  end.
