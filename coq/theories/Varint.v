(** * Varint: ULEB128 as the Parquet/thrift specifications define it, the two
    Go routines of internal/rle that implement it (with their quirks), and
    zig-zag.  Definitions only; proofs in VarintProofs.v. *)
From Coq Require Import List NArith ZArith Lia Bool.
From PQ Require Import Bytes.
Import ListNotations.
Local Open Scope N_scope.

(** ** Specification *)

Fixpoint uleb_enc_fuel (fuel : nat) (n : N) : bytes :=
  match fuel with
  | O => []
  | S f => if n <? 128 then [n] else (n mod 128 + 128) :: uleb_enc_fuel f (n / 128)
  end.

(** [N.size_nat n] is the number of bits of [n]; every step removes 7. *)
Definition uleb_enc (n : N) : bytes := uleb_enc_fuel (S (N.size_nat n)) n.

Fixpoint uleb_dec_aux (bs : bytes) (shift acc : N) : option (N * bytes) :=
  match bs with
  | [] => None
  | b :: r =>
      let acc' := acc + (b mod 128) * 2 ^ shift in
      if b <? 128 then Some (acc', r) else uleb_dec_aux r (shift + 7) acc'
  end.

Definition uleb_dec (bs : bytes) : option (N * bytes) := uleb_dec_aux bs 0 0.

(** ** rle.go: [leb128] (encoder side).  The loop condition masks with
    0xFFFFFF80, so it stops early when bits 7..31 are all zero even if higher
    bits are set; it agrees with [uleb_enc] below 2^32. *)
Fixpoint leb128_go_fuel (fuel : nat) (v : N) : bytes :=
  match fuel with
  | O => []
  | S f =>
      if N.land v 4294967168 =? 0 then [N.land v 127]
      else (N.lor (N.land v 127) 128) :: leb128_go_fuel f (N.shiftr v 7)
  end.

Definition leb128_go (v : N) : bytes := leb128_go_fuel (S (N.size_nat v)) v.

(** ** rle.go: [readLEB128] (decoder side) on a uint64 accumulator:
    [out |= (x & 0x7f) << shift], where a Go shift of 64 or more gives 0. *)
Fixpoint read_leb128_go (bs : bytes) (shift acc : N) : option (N * bytes) :=
  match bs with
  | [] => None
  | b :: r =>
      let acc' := N.lor acc (N.shiftl (N.land b 127) shift mod 2 ^ 64) in
      if N.land b 128 =? 0 then Some (acc', r) else read_leb128_go r (shift + 7) acc'
  end.

(** ** Zig-zag (thrift compact protocol), on [bits]-bit two's complement *)
Local Open Scope Z_scope.
Definition zigzag (z : Z) : N := Z.to_N (if z <? 0 then -2 * z - 1 else 2 * z).
Definition unzigzag (n : N) : Z :=
  if N.even n then Z.of_N (N.div n 2) else - Z.of_N (N.div n 2) - 1.
