(** * ReaderProofs (part 1): the reader model on what the writer model wrote —
    source primitives (layer 0), one page (layer 1), one column chunk (layer 2).
    Part 2 (ReaderProofs2.v) continues with row groups and the whole file
    (property C01). *)
From Coq Require Import List NArith ZArith Lia Bool Arith PeanoNat.
From Coq Require Import ZifyN ZifyNat ZifyBool.
From PQ Require Import Bytes Schema Dremel DremelProofs BitpackProofs Rle RleProofs Plain PlainProofs
     Stats StatsProofs MetaTypes Thrift Meta MetaProofs Writer Io Reader.
Import ListNotations.
Local Open Scope N_scope.

Ltac Zify.zify_post_hook ::= Z.div_mod_to_equations.

(** ** Layer 0: the source primitives on a fault-free source *)

(** what is left to read *)
Definition rem (s : src) : bytes := skipn (N.to_nat (s_pos s)) (s_file s).

(** [s'] is [s] advanced by [n] bytes (same file, still fault-free; the
    schedule and the operation counter are unconstrained) *)
Definition adv (s : src) (n : nat) (s' : src) : Prop :=
  s_file s' = s_file s /\ s_fail s' = None /\ s_pos s' = s_pos s + N.of_nat n.

Lemma skipn_add {A} a b (l : list A) : skipn (a + b) l = skipn b (skipn a l).
Proof.
  revert l. induction a as [|a IH]; intros l; [reflexivity|].
  destruct l as [|x l]; cbn [Nat.add skipn]; [rewrite skipn_nil; reflexivity | apply IH].
Qed.

Lemma rem_adv s n s' : adv s n s' -> rem s' = skipn n (rem s).
Proof.
  intros (Hf & _ & Hp). unfold rem. rewrite Hf, Hp, <- skipn_add. f_equal. lia.
Qed.

Lemma rem_adv_app s x rest s' : rem s = x ++ rest -> adv s (length x) s' -> rem s' = rest.
Proof. intros Hr Ha. rewrite (rem_adv _ _ _ Ha), Hr. apply skipn_app_exact. Qed.

Lemma adv_fail s n s' : adv s n s' -> s_fail s' = None.
Proof. intros (_ & H & _). exact H. Qed.

Lemma adv_trans s a s1 b s2 : adv s a s1 -> adv s1 b s2 -> adv s (a + b) s2.
Proof.
  intros (Hf1 & _ & Hp1) (Hf2 & Hn2 & Hp2). unfold adv. rewrite Hf2, Hf1, Hp2, Hp1.
  repeat split; auto. lia.
Qed.

Lemma adv_refl s : s_fail s = None -> adv s 0 s.
Proof. intros H. unfold adv. repeat split; auto. lia. Qed.

Lemma bind_ok {A B} (m : M A) (f : A -> M B) s a s' : m s = Ok (a, s') -> bind m f s = f a s'.
Proof. intros H. unfold bind. rewrite H. reflexivity. Qed.

Definition ticked (s : src) : src :=
  {| s_file := s_file s; s_pos := s_pos s; s_sched := s_sched s; s_fail := s_fail s; s_ops := S (s_ops s) |}.

Lemma op_tick_ok s : s_fail s = None -> op_tick s = Ok (tt, ticked s).
Proof. intros H. unfold op_tick, ticked. rewrite H. reflexivity. Qed.

Lemma adv_ticked s n s' : adv (ticked s) n s' -> adv s n s'.
Proof. intros H. exact H. Qed.

Lemma firstn_add_skipn {A} a b (l : list A) : firstn (a + b) l = firstn a l ++ firstn b (skipn a l).
Proof.
  revert l. induction a as [|a IH]; intros l; [reflexivity|].
  destruct l as [|x l]; cbn [Nat.add firstn skipn app].
  - rewrite firstn_nil. reflexivity.
  - rewrite IH. reflexivity.
Qed.

Lemma read_full_loop_S f w acc s :
  read_full_loop (S f) (S w) acc s =
  match fst (src_read1 (S w) s) with
  | [] => Err
  | _ :: _ => read_full_loop f (S w - length (fst (src_read1 (S w) s)))
                             (acc ++ fst (src_read1 (S w) s)) (snd (src_read1 (S w) s))
  end.
Proof. cbn [read_full_loop]. destruct (src_read1 (S w) s) as [got s1]. reflexivity. Qed.

(** io.ReadFull on a fault-free source with enough bytes left, whatever the
    fragmentation schedule *)
Lemma read_full_loop_ok fuel : forall want acc s,
  (want <= fuel)%nat -> (want <= length (rem s))%nat ->
  exists s', read_full_loop fuel want acc s = Ok (acc ++ firstn want (rem s), s') /\
             s_file s' = s_file s /\ s_fail s' = s_fail s /\ s_pos s' = s_pos s + N.of_nat want.
Proof.
  induction fuel as [|f IH]; intros want acc s Hfuel Hlen.
  - assert (want = 0%nat) by lia. subst want. exists s. cbn [read_full_loop firstn].
    rewrite app_nil_r. repeat split; auto. lia.
  - destruct want as [|w].
    + exists s. cbn [read_full_loop firstn]. rewrite app_nil_r. repeat split; auto. lia.
    + rewrite read_full_loop_S. unfold src_read1. cbn [fst snd]. fold (rem s).
      set (bound := match s_sched s with b :: _ => Nat.max 1 b | [] => S w end).
      set (k := Nat.min (S w) (Nat.min bound (length (rem s)))).
      assert (Hb : (1 <= bound)%nat) by (unfold bound; destruct (s_sched s); lia).
      assert (Hk : (1 <= k <= S w)%nat /\ (k <= length (rem s))%nat) by lia.
      assert (Hgl : length (firstn k (rem s)) = k) by (apply firstn_length_le; lia).
      destruct (firstn k (rem s)) as [|g got] eqn:Hg; [cbn [length] in Hgl; lia|].
      cbv beta iota. rewrite <- Hg in Hgl |- *. rewrite Hgl.
      set (s1 := {| s_file := s_file s; s_pos := s_pos s + N.of_nat k; s_sched := tl (s_sched s);
                    s_fail := s_fail s; s_ops := s_ops s |}).
      assert (Hrem1 : rem s1 = skipn k (rem s)).
      { unfold rem, s1. cbn [s_pos s_file]. rewrite <- skipn_add. f_equal. lia. }
      destruct (IH (S w - k)%nat (acc ++ firstn k (rem s)) s1) as (s' & Hrun & Hf & Hn & Hp).
      * lia.
      * rewrite Hrem1, skipn_length. lia.
      * exists s'. rewrite Hrun, Hrem1, <- app_assoc, <- firstn_add_skipn.
        replace (k + (S w - k))%nat with (S w) by lia.
        rewrite Hf, Hn, Hp. unfold s1. cbn [s_pos s_file s_fail]. repeat split; auto. lia.
Qed.

Lemma m_read_full_ok s x rest :
  s_fail s = None -> rem s = x ++ rest ->
  exists s', m_read_full (length x) s = Ok (x, s') /\ adv s (length x) s'.
Proof.
  intros Hfail Hrem. unfold m_read_full. rewrite (bind_ok _ _ _ _ _ (op_tick_ok s Hfail)).
  destruct (read_full_loop_ok (length x) (length x) [] (ticked s)) as (s' & Hrun & Hf & Hn & Hp).
  - lia.
  - change (rem (ticked s)) with (rem s). rewrite Hrem, app_length. lia.
  - exists s'. rewrite Hrun. change (rem (ticked s)) with (rem s).
    rewrite Hrem, firstn_app_exact. cbn [app]. split; [reflexivity|].
    unfold adv. rewrite Hf, Hn, Hp. cbn [ticked s_file s_fail s_pos]. auto.
Qed.

Lemma m_read_struct_ok {A} (dec : bytes -> option (A * bytes)) s a x rest :
  s_fail s = None -> rem s = x ++ rest -> dec (x ++ rest) = Some (a, rest) ->
  exists s', m_read_struct dec s = Ok (a, s') /\ adv s (length x) s'.
Proof.
  intros Hfail Hrem Hdec. unfold m_read_struct. rewrite (bind_ok _ _ _ _ _ (op_tick_ok s Hfail)).
  cbn [ticked s_pos s_file s_sched s_fail s_ops]. fold (rem s). rewrite Hrem, Hdec.
  eexists. split; [reflexivity|]. unfold adv. cbn [s_file s_fail s_pos].
  repeat split; auto. rewrite app_length. lia.
Qed.

Lemma m_seek_start_ok off s :
  s_fail s = None -> (0 <= off)%Z ->
  exists s', m_seek_start off s = Ok (tt, s') /\
             s_file s' = s_file s /\ s_fail s' = None /\ s_pos s' = Z.to_N off.
Proof.
  intros Hfail Hoff. unfold m_seek_start. rewrite (bind_ok _ _ _ _ _ (op_tick_ok s Hfail)).
  replace (off <? 0)%Z with false by lia. unfold set_pos.
  eexists. split; [reflexivity|]. cbn [ticked s_file s_fail s_pos]. auto.
Qed.

Lemma m_seek_end_ok off s :
  s_fail s = None -> (0 <= Z.of_N (nlen (s_file s)) + off)%Z ->
  exists s', m_seek_end off s = Ok (tt, s') /\
             s_file s' = s_file s /\ s_fail s' = None /\
             s_pos s' = Z.to_N (Z.of_N (nlen (s_file s)) + off).
Proof.
  intros Hfail Hoff. unfold m_seek_end. rewrite (bind_ok _ _ _ _ _ (op_tick_ok s Hfail)).
  cbn [ticked s_file]. replace (Z.of_N (nlen (s_file s)) + off <? 0)%Z with false by lia.
  unfold set_pos. eexists. split; [reflexivity|]. cbn [s_file s_fail s_pos]. auto.
Qed.

(** a position given explicitly *)
Lemma rem_at s pre post : s_file s = pre ++ post -> s_pos s = nlen pre -> rem s = post.
Proof.
  intros Hf Hp. unfold rem. rewrite Hf, Hp. unfold nlen. rewrite Nat2N.id. apply skipn_app_exact.
Qed.

(** ** Small facts about the writer's and reader's helpers *)

Lemma pow31 : 2 ^ 31 = 2147483648. Proof. reflexivity. Qed.
Lemma pow32 : 2 ^ 32 = 4294967296. Proof. reflexivity. Qed.

Lemma i32_small n : n < 2 ^ 31 -> i32 n = Z.of_N n.
Proof.
  rewrite pow31. intros H. unfold i32. rewrite pow31, pow32. cbv zeta.
  rewrite N.mod_small by lia. replace (n <? 2147483648) with true by lia. reflexivity.
Qed.

Lemma i32_ok_i32 n : i32_ok (i32 n) = true.
Proof.
  unfold i32_ok, in_range, i32. rewrite pow31, pow32. cbv zeta.
  destruct (n mod 4294967296 <? 2147483648) eqn:E; lia.
Qed.

Lemma bit_width_eq n : Writer.bit_width n = Reader.bit_width n.
Proof. reflexivity. Qed.

Ltac enum15 m :=
  let H := fresh "Henum" in
  assert (H : m = 0 \/ m = 1 \/ m = 2 \/ m = 3 \/ m = 4 \/ m = 5 \/ m = 6 \/ m = 7 \/ m = 8 \/ m = 9 \/
              m = 10 \/ m = 11 \/ m = 12 \/ m = 13 \/ m = 14 \/ m = 15) by lia;
  repeat (destruct H as [H|H]; [subst m|]); [..|subst m].

Lemma bit_width_widths m : 1 <= m <= 15 -> In (Reader.bit_width m) widths.
Proof. intros Hm. enum15 m; try lia; vm_compute; tauto. Qed.

Lemma bit_width_bound m v : v <= m -> m <= 15 -> v < 2 ^ Reader.bit_width m.
Proof.
  intros Hv Hm. enum15 m;
    match goal with
    | |- context [2 ^ Reader.bit_width ?k] =>
        let x := eval vm_compute in (2 ^ Reader.bit_width k) in
        change (2 ^ Reader.bit_width k) with x
    end; lia.
Qed.

Lemma col_required_true c : col_required c = true -> max_def c = 0 /\ max_rep c = 0.
Proof.
  unfold col_required, max_def, max_rep, count_rep. intros H.
  induction (c_reps c) as [|r rs IH]; [split; reflexivity|].
  cbn [forallb] in H. apply andb_prop in H. destruct H as [Hr Hrs].
  destruct (IH Hrs) as [IHd IHr].
  destruct r; cbn [is_nonreq negb] in Hr; try discriminate.
  cbn [filter is_nonreq is_rep]. split; assumption.
Qed.

Lemma col_required_false c : col_required c = false -> 1 <= max_def c.
Proof.
  unfold col_required, max_def, count_rep. intros H.
  induction (c_reps c) as [|r rs IH]; [discriminate|].
  cbn [forallb] in H. destruct r; cbn [filter is_nonreq negb andb length] in H |- *; [|lia|lia].
  apply IH in H. lia.
Qed.

Lemma tenc_fields_nonempty last fs : tenc_fields last fs <> [].
Proof.
  destruct fs as [|[id x] r]; cbn [tenc_fields]; [discriminate|].
  unfold fhdr. destruct ((last <? id) && (id - last <=? 15)); discriminate.
Qed.

Lemma enc_page_header_nonempty ph : (1 <= length (enc_page_header ph))%nat.
Proof.
  unfold enc_page_header, tenc_struct.
  pose proof (tenc_fields_nonempty 0 (page_header_to_fields ph)) as H.
  destruct (tenc_fields 0 (page_header_to_fields ph)); [congruence | cbn [length]; lia].
Qed.

(** ** What a column's entries look like when the levels are right *)

Definition entry_vals (es : list entry) : list value :=
  flat_map (fun e => match e_val e with Some v => [v] | None => [] end) es.

Lemma entry_vals_app a b : entry_vals (a ++ b) = entry_vals a ++ entry_vals b.
Proof. unfold entry_vals. apply flat_map_app. Qed.

Lemma entry_vals_concat l : entry_vals (concat l) = concat (map entry_vals l).
Proof.
  induction l as [|x l IH]; [reflexivity|].
  cbn [concat map]. rewrite entry_vals_app, IH. reflexivity.
Qed.

Lemma lev_ok_inv c e :
  entry_levels_ok c e = true ->
  e_rep e <= max_rep c /\ e_def e <= max_def c /\
  match e_val e with Some _ => e_def e = max_def c | None => e_def e < max_def c end.
Proof.
  unfold entry_levels_ok. intros H.
  apply andb_prop in H. destruct H as [H H3]. apply andb_prop in H. destruct H as [H1 H2].
  repeat split; try lia. destruct (e_val e); lia.
Qed.

Lemma count_maxdef c es :
  lev_ok c es ->
  length (filter (fun x => x =? max_def c) (map e_def es)) = length (entry_vals es).
Proof.
  unfold lev_ok. induction 1 as [|e es He Hes IH]; [reflexivity|].
  apply lev_ok_inv in He. destruct He as (_ & _ & He).
  cbn [map filter]. change (entry_vals (e :: es)) with
    ((match e_val e with Some v => [v] | None => [] end) ++ entry_vals es).
  destruct (e_val e) as [v|].
  - replace (e_def e =? max_def c) with true by lia. cbn [length app]. rewrite IH. reflexivity.
  - replace (e_def e =? max_def c) with false by lia. cbn [app]. exact IH.
Qed.

Lemma zip_levels_reps c es :
  lev_ok c es ->
  zip_levels (map e_rep es) (map e_def es) (max_def c) (entry_vals es) = es.
Proof.
  unfold lev_ok. induction 1 as [|e es He Hes IH]; [reflexivity|].
  apply lev_ok_inv in He. destruct He as (_ & _ & He).
  change (entry_vals (e :: es)) with
    ((match e_val e with Some v => [v] | None => [] end) ++ entry_vals es).
  cbn [map zip_levels]. destruct e as [r d [v|]]; cbn [e_val e_def e_rep app] in He |- *.
  - replace (d =? max_def c) with true by lia. rewrite IH. reflexivity.
  - replace (d =? max_def c) with false by lia. rewrite IH. reflexivity.
Qed.

Lemma zip_levels_noreps c es :
  max_rep c = 0 -> lev_ok c es ->
  zip_levels [] (map e_def es) (max_def c) (entry_vals es) = es.
Proof.
  intros Hr. unfold lev_ok. induction 1 as [|e es He Hes IH]; [reflexivity|].
  apply lev_ok_inv in He. destruct He as (Hrep & _ & He).
  change (entry_vals (e :: es)) with
    ((match e_val e with Some v => [v] | None => [] end) ++ entry_vals es).
  cbn [map zip_levels]. destruct e as [r d [v|]]; cbn [e_val e_def e_rep app] in He, Hrep |- *.
  - replace (d =? max_def c) with true by lia. rewrite IH. f_equal. f_equal. lia.
  - replace (d =? max_def c) with false by lia. rewrite IH. f_equal. f_equal. lia.
Qed.

Lemma required_entries c es :
  col_required c = true -> lev_ok c es ->
  map (fun v => {| e_rep := 0; e_def := 0; e_val := Some v |}) (entry_vals es) = es.
Proof.
  intros Hreq. destruct (col_required_true c Hreq) as [Hd Hr].
  unfold lev_ok. induction 1 as [|e es He Hes IH]; [reflexivity|].
  apply lev_ok_inv in He. destruct He as (Hrep & Hdef & He).
  change (entry_vals (e :: es)) with
    ((match e_val e with Some v => [v] | None => [] end) ++ entry_vals es).
  destruct e as [r d [v|]]; cbn [e_val e_def e_rep app map] in He, Hrep, Hdef |- *.
  - rewrite IH. f_equal. f_equal; lia.
  - lia.
Qed.

Lemma required_count c es :
  col_required c = true -> lev_ok c es -> length (entry_vals es) = length es.
Proof.
  intros Hreq Hlev. rewrite <- (required_entries c es Hreq Hlev) at 2. rewrite map_length. reflexivity.
Qed.

(** ** The page header the writer builds is in the thrift codec's domain *)

Lemma bin_ok_intro bs : wf_bytes bs -> nlen bs < 2 ^ 31 -> bin_ok bs = true.
Proof.
  rewrite pow31. intros Hwf Hlen. unfold bin_ok, len_lim. apply andb_true_intro. split.
  - apply wf_bytesb_spec. exact Hwf.
  - lia.
Qed.

Lemma pvals_sub (P : value -> Prop) maxdef es :
  Forall P (entry_vals es) -> Forall P (pvals maxdef es).
Proof.
  induction es as [|e es IH]; intros H; [constructor|].
  change (entry_vals (e :: es)) with
    ((match e_val e with Some v => [v] | None => [] end) ++ entry_vals es) in H.
  apply Forall_app in H. destruct H as [He Hes]. rewrite pvals_cons. apply Forall_app. split; [|auto].
  destruct (e_val e) as [v|]; [|constructor]. destruct (is_value maxdef e); [exact He|constructor].
Qed.

Lemma filter_nlen_le {A} (f : A -> bool) l : nlen (filter f l) <= nlen l.
Proof.
  unfold nlen. induction l as [|x l IH]; cbn [filter length]; [lia|].
  destruct (f x); cbn [length]; lia.
Qed.

Lemma str_fold_bin_ok vs : forall s,
  Forall (fun v => bin_ok v = true) vs -> bin_ok (ss_min s) = true -> bin_ok (ss_max s) = true ->
  bin_ok (ss_min (fold_left str_stats_add vs s)) = true /\
  bin_ok (ss_max (fold_left str_stats_add vs s)) = true.
Proof.
  induction vs as [|v vs IH]; intros s Hvs Hmin Hmax; [split; assumption|].
  inversion Hvs as [|v' vs' Hv Hvs']; subst. cbn [fold_left]. apply IH; [exact Hvs'| |].
  - unfold str_stats_add. destruct (ss_seen s); cbn [ss_min]; [|exact Hv].
    destruct (bytes_lt v (ss_min s)); assumption.
  - unfold str_stats_add. destruct (ss_seen s); cbn [ss_max]; [|exact Hv].
    destruct (bytes_lt (ss_max s) v); assumption.
Qed.

Lemma null_count_ok (required : bool) maxdef es :
  nlen es < 2 ^ 31 ->
  opt_ok i64_ok (if required then None else Some (Z.of_N (pnils maxdef es))) = true.
Proof.
  rewrite pow31. intros Hlen. destruct required; [reflexivity|]. cbn [opt_ok].
  unfold pnils. pose proof (filter_nlen_le (fun e => negb (is_value maxdef e)) es) as Hle.
  unfold i64_ok, in_range. lia.
Qed.

Lemma page_stats_ok_numeric p required maxdef es :
  numeric p -> nlen es < 2 ^ 31 -> statistics_ok (page_stats p required maxdef es) = true.
Proof.
  intros Hnum Hlen. rewrite (page_stats_numeric p required maxdef es Hnum). cbv zeta.
  unfold statistics_ok. cbn [st_max st_min st_null_count st_distinct_count st_max_value st_min_value opt_ok].
  rewrite (null_count_ok required maxdef es Hlen).
  assert (Hb : forall n, bin_ok (le_enc (prim_size p) n) = true).
  { intros n. apply bin_ok_intro; [apply le_enc_wf|]. unfold nlen. rewrite le_enc_length, pow31.
    destruct p; cbn [prim_size]; lia. }
  destruct (num_present p required (pvals maxdef es)); cbn [opt_ok andb]; rewrite ?Hb; reflexivity.
Qed.

Lemma page_stats_ok p required maxdef es :
  Forall (leaf_ok p) (entry_vals es) ->
  Forall (fun v => nlen (str_of v) < 2 ^ 31) (entry_vals es) ->
  nlen es < 2 ^ 31 ->
  statistics_ok (page_stats p required maxdef es) = true.
Proof.
  intros Hty Hstr Hlen.
  destruct p; try (apply page_stats_ok_numeric; [exact I | exact Hlen]).
  - rewrite page_stats_bool. unfold statistics_ok.
    cbn [st_max st_min st_null_count st_distinct_count st_max_value st_min_value opt_ok andb].
    rewrite (null_count_ok required maxdef es Hlen). reflexivity.
  - rewrite page_stats_string. cbv zeta. unfold statistics_ok.
    cbn [st_max st_min st_null_count st_distinct_count st_max_value st_min_value opt_ok andb].
    rewrite (null_count_ok required maxdef es Hlen).
    assert (Hvs : Forall (fun v => bin_ok v = true) (map str_of (pvals maxdef es))).
    { apply Forall_forall. intros b Hb. apply in_map_iff in Hb. destruct Hb as (v & <- & Hv).
      pose proof (pvals_sub _ maxdef es Hty) as H1. pose proof (pvals_sub _ maxdef es Hstr) as H2.
      rewrite Forall_forall in H1, H2. specialize (H1 v Hv). specialize (H2 v Hv). cbv beta in H2.
      destruct (leaf_ok_string v H1) as (bs & -> & Hwf). cbn [str_of] in H2 |- *.
      apply bin_ok_intro; assumption. }
    destruct (str_fold_bin_ok _ str_stats_new Hvs eq_refl eq_refl) as [Hmin Hmax].
    fold (str_fold (pvals maxdef es)) in Hmin, Hmax.
    destruct (ss_seen (str_fold (pvals maxdef es))); cbn [opt_ok andb]; rewrite ?Hmin, ?Hmax; reflexivity.
Qed.

Lemma str_len_le_plain vals v : In v vals -> nlen (str_of v) <= nlen (plain_enc PString vals).
Proof.
  induction vals as [|a vals IH]; intros Hin; [destruct Hin|].
  rewrite plain_enc_cons by discriminate. rewrite nlen_app.
  destruct Hin as [->|Hin].
  - unfold plain_enc_val. rewrite nlen_app. lia.
  - specialize (IH Hin). lia.
Qed.

Lemma page_payload_plain_le c es :
  nlen (plain_enc (c_prim c) (entry_vals es)) <= nlen (page_payload c es).
Proof.
  unfold page_payload. fold (entry_vals es). destruct (col_required c); [lia|].
  rewrite !nlen_app. lia.
Qed.

Section WithCodec.

Variable compress : Z -> bytes -> bytes.
Variable decompress : Z -> bytes -> option bytes.

Definition codec_ok (codec : Z) : Prop := In codec [CODEC_UNCOMPRESSED; CODEC_SNAPPY; CODEC_GZIP].

Hypothesis Hcodec : forall c x, codec_ok c -> decompress c (compress c x) = Some x.
(** fields.go [compress] returns its argument for UNCOMPRESSED, and [pageData]
    then reads [uncompressed_size] bytes without calling a decoder *)
Hypothesis Hident : forall x, compress CODEC_UNCOMPRESSED x = x.

(** ** Layer 1: one page *)

(** what the theorems assume about the entries of one page of column [c] *)
Record page_pre (codec : Z) (c : col) (es : list entry) : Prop := {
  pp_codec : codec_ok codec;
  pp_nonempty : es <> [];
  pp_levels : lev_ok c es;
  pp_typed : Forall (leaf_ok (c_prim c)) (entry_vals es);
  pp_count : nlen es + 8 <= 2 ^ 31;
  pp_payload : nlen (page_payload c es) < 2 ^ 31;
  pp_body : nlen (compress codec (page_payload c es)) < 2 ^ 31;
  pp_def : max_def c <= 15;
  pp_rep : max_rep c <= 15
}.

Lemma page_pre_strs codec c es :
  page_pre codec c es -> c_prim c = PString ->
  Forall (fun v => nlen (str_of v) < 2 ^ 31) (entry_vals es).
Proof.
  intros Hpre Hp. apply Forall_forall. intros v Hv.
  pose proof (str_len_le_plain _ _ Hv) as H1.
  pose proof (page_payload_plain_le c es) as H2. rewrite Hp in H2.
  pose proof (pp_payload _ _ _ Hpre). lia.
Qed.

Lemma non_string_strs p vs :
  p <> PString -> Forall (leaf_ok p) vs -> Forall (fun v => nlen (str_of v) < 2 ^ 31) vs.
Proof.
  intros Hp. apply Forall_impl. intros v Hv. unfold leaf_ok in Hv.
  destruct v as [n|b| | |]; try (unfold nlen; rewrite pow31; cbn [str_of length]; lia).
  destruct p; cbn [prim_ok] in Hv; try discriminate. congruence.
Qed.

Lemma page_strs codec c es :
  page_pre codec c es -> Forall (fun v => nlen (str_of v) < 2 ^ 31) (entry_vals es).
Proof.
  intros Hpre. destruct (c_prim c) eqn:Hp;
    try (apply (non_string_strs (c_prim c)); [rewrite Hp; discriminate | exact (pp_typed _ _ _ Hpre)]).
  apply (page_pre_strs codec c es Hpre Hp).
Qed.

Lemma make_page_header_ok codec c es :
  page_pre codec c es -> page_header_ok (pg_header (make_page compress codec c es)) = true.
Proof.
  intros Hpre. pose proof (pp_count _ _ _ Hpre) as Hcount.
  unfold make_page. cbv zeta. cbn [pg_header]. unfold page_header_ok.
  cbn [ph_type ph_uncompressed_size ph_compressed_size ph_crc ph_data ph_index ph_dict ph_data_v2 opt_ok].
  rewrite !i32_ok_i32. unfold data_page_header_ok.
  cbn [dph_num_values dph_encoding dph_def_encoding dph_rep_encoding dph_statistics opt_ok].
  rewrite i32_ok_i32, page_stats_ok.
  - reflexivity.
  - exact (pp_typed _ _ _ Hpre).
  - exact (page_strs _ _ _ Hpre).
  - lia.
Qed.

(** the page's bytes *)
Definition page_bytes (p : page) : bytes := pg_header_bytes p ++ pg_body p.

Lemma page_bytes_length p : length (page_bytes p) = (length (pg_header_bytes p) + length (pg_body p))%nat.
Proof. unfold page_bytes. apply app_length. Qed.

Lemma read_page_header codec c es s rest :
  page_pre codec c es -> s_fail s = None ->
  rem s = pg_header_bytes (make_page compress codec c es) ++ rest ->
  exists s', m_read_struct dec_page_header s = Ok (pg_header (make_page compress codec c es), s') /\
             adv s (length (pg_header_bytes (make_page compress codec c es))) s'.
Proof.
  intros Hpre Hfail Hrem. eapply m_read_struct_ok; [exact Hfail | exact Hrem |].
  change (pg_header_bytes (make_page compress codec c es))
    with (enc_page_header (pg_header (make_page compress codec c es))).
  apply dec_enc_page_header, make_page_header_ok, Hpre.
Qed.

Definition page_dph (codec : Z) (c : col) (es : list entry) : data_page_header :=
  {| dph_num_values := i32 (nlen es); dph_encoding := ENC_PLAIN; dph_def_encoding := ENC_RLE;
     dph_rep_encoding := ENC_RLE;
     dph_statistics := Some (page_stats (c_prim c) (col_required c) (max_def c) es) |}.

Lemma supported_make_page codec c es defs reps :
  supported_page (pg_header (make_page compress codec c es)) defs reps = Some (page_dph codec c es).
Proof. destruct defs, reps; reflexivity. Qed.

Lemma page_num_values codec c es :
  page_pre codec c es -> dph_num_values (page_dph codec c es) = Z.of_nat (length es).
Proof.
  intros Hpre. pose proof (pp_count _ _ _ Hpre) as Hc. cbn [page_dph dph_num_values].
  rewrite i32_small by lia. unfold nlen. lia.
Qed.

Lemma to_nat_nlen {A} (x : list A) : Z.to_nat (Z.of_N (nlen x)) = length x.
Proof. unfold nlen. lia. Qed.

(** pageData returns the uncompressed payload *)
Lemma page_data_ok codec c es s rest :
  page_pre codec c es -> s_fail s = None ->
  rem s = pg_body (make_page compress codec c es) ++ rest ->
  exists s', page_data decompress codec (pg_header (make_page compress codec c es)) s
             = Ok (page_payload c es, s') /\
             adv s (length (pg_body (make_page compress codec c es))) s'.
Proof.
  intros Hpre Hfail Hrem. pose proof (pp_codec _ _ _ Hpre) as Hc.
  pose proof (pp_payload _ _ _ Hpre) as Hpl. pose proof (pp_body _ _ _ Hpre) as Hbl.
  unfold page_data. cbn [make_page pg_header pg_body ph_compressed_size ph_uncompressed_size] in Hrem |- *.
  rewrite !i32_small by assumption.
  destruct (Z.eqb codec CODEC_SNAPPY || Z.eqb codec CODEC_GZIP) eqn:Ecomp.
  - replace (Z.of_N (nlen (compress codec (page_payload c es))) <? 0)%Z with false by lia.
    rewrite to_nat_nlen.
    destruct (m_read_full_ok s _ rest Hfail Hrem) as (s' & Hrd & Hadv).
    rewrite (bind_ok _ _ _ _ _ Hrd), Hcodec by exact Hc.
    exists s'. split; [reflexivity | exact Hadv].
  - assert (Hu : codec = CODEC_UNCOMPRESSED).
    { unfold codec_ok in Hc. cbn [In] in Hc.
      unfold CODEC_UNCOMPRESSED, CODEC_SNAPPY, CODEC_GZIP in *. lia. }
    subst codec. change (Z.eqb CODEC_UNCOMPRESSED CODEC_UNCOMPRESSED) with true. cbv iota.
    replace (Z.of_N (nlen (page_payload c es)) <? 0)%Z with false by lia.
    rewrite to_nat_nlen. rewrite Hident in Hrem |- *.
    destruct (m_read_full_ok s _ rest Hfail Hrem) as (s' & Hrd & Hadv).
    exists s'. split; [exact Hrd | exact Hadv].
Qed.

Lemma read_levels_ok w ls data l rest nv :
  In w widths -> Forall (fun v => v < 2 ^ w) ls -> N.of_nat (length ls) + 8 <= 2 ^ 31 ->
  (l <= length data)%nat -> skipn l data = rle_encode w ls ++ rest -> nv = Z.of_nat (length ls) ->
  read_levels w data l nv = Ok (ls, length (rle_encode w ls)).
Proof.
  intros Hw Hls Hlen Hl Hskip Hnv. unfold read_levels.
  replace (Nat.ltb (length data) l) with false by lia. rewrite Hskip.
  destruct (rle_roundtrip w ls rest Hw Hls Hlen) as (pad & Hrt & Hpad). rewrite Hrt. subst nv.
  replace (Z.of_nat (length ls) <? 0)%Z with false by lia. rewrite Nat2Z.id, app_length.
  replace (Nat.ltb (length ls + length (repeat 0 pad)) (length ls)) with false by lia.
  cbn [orb]. rewrite firstn_app_exact. reflexivity.
Qed.

(** one iteration of RequiredField.DoRead *)
Lemma do_read_required_step codec c es s rest f pgn nread acc sizes :
  page_pre codec c es -> col_required c = true -> s_fail s = None ->
  rem s = page_bytes (make_page compress codec c es) ++ rest ->
  (nread < pgn)%Z ->
  exists s',
    do_read_required decompress (S f) codec pgn nread acc sizes s =
    do_read_required decompress f codec pgn (nread + Z.of_nat (length es))
                     (acc ++ plain_enc (c_prim c) (entry_vals es)) (sizes ++ [length es]) s' /\
    adv s (length (page_bytes (make_page compress codec c es))) s'.
Proof.
  intros Hpre Hreq Hfail Hrem Hlt. unfold page_bytes in Hrem. rewrite <- app_assoc in Hrem.
  cbn [do_read_required]. replace (nread <? pgn)%Z with true by lia.
  destruct (read_page_header codec c es s _ Hpre Hfail Hrem) as (s1 & Hh & Hadv1).
  rewrite (bind_ok _ _ _ _ _ Hh), supported_make_page.
  pose proof (rem_adv_app _ _ _ _ Hrem Hadv1) as Hrem1.
  destruct (page_data_ok codec c es s1 rest Hpre (adv_fail _ _ _ Hadv1) Hrem1) as (s2 & Hd & Hadv2).
  rewrite (bind_ok _ _ _ _ _ Hd), (page_num_values codec c es Hpre), Nat2Z.id.
  exists s2. split.
  - unfold page_payload. rewrite Hreq. reflexivity.
  - rewrite page_bytes_length. exact (adv_trans _ _ _ _ _ Hadv1 Hadv2).
Qed.

Definition page_reps (c : col) (es : list entry) : list N :=
  if 0 <? max_rep c then map e_rep es else [].

(** one iteration of OptionalField.DoRead *)
Lemma do_read_optional_step codec c es s rest f size nread acc :
  page_pre codec c es -> col_required c = false -> s_fail s = None ->
  rem s = page_bytes (make_page compress codec c es) ++ rest ->
  (nread < size)%Z ->
  exists s',
    do_read_optional decompress (S f) codec (max_def c) (max_rep c) size nread acc s =
    do_read_optional decompress f codec (max_def c) (max_rep c) size
      (nread + Z.of_nat (length (page_bytes (make_page compress codec c es))))
      {| oa_reps := oa_reps acc ++ page_reps c es;
         oa_defs := oa_defs acc ++ map e_def es;
         oa_out := oa_out acc ++ plain_enc (c_prim c) (entry_vals es);
         oa_sizes := oa_sizes acc ++ [length (entry_vals es)] |} s' /\
    adv s (length (page_bytes (make_page compress codec c es))) s'.
Proof.
  intros Hpre Hreq Hfail Hrem Hlt. unfold page_bytes in Hrem. rewrite <- app_assoc in Hrem.
  pose proof (pp_levels _ _ _ Hpre) as Hlev. pose proof (pp_count _ _ _ Hpre) as Hcount.
  pose proof (pp_def _ _ _ Hpre) as Hdef15. pose proof (pp_rep _ _ _ Hpre) as Hrep15.
  pose proof (col_required_false c Hreq) as Hdef1.
  cbn [do_read_optional]. replace (nread <? size)%Z with true by lia.
  unfold get_pos at 1. unfold bind at 1.
  destruct (read_page_header codec c es s _ Hpre Hfail Hrem) as (s1 & Hh & Hadv1).
  rewrite (bind_ok _ _ _ _ _ Hh), supported_make_page.
  pose proof (rem_adv_app _ _ _ _ Hrem Hadv1) as Hrem1.
  destruct (page_data_ok codec c es s1 rest Hpre (adv_fail _ _ _ Hadv1) Hrem1) as (s2 & Hd & Hadv2).
  rewrite (bind_ok _ _ _ _ _ Hd). unfold get_pos at 1. unfold bind at 1.
  pose proof (adv_trans _ _ _ _ _ Hadv1 Hadv2) as Hadv. rewrite <- page_bytes_length in Hadv.
  assert (Hpos : Z.of_N (s_pos s2 - s_pos s) =
                 Z.of_nat (length (page_bytes (make_page compress codec c es)))).
  { destruct Hadv as (_ & _ & Hp). rewrite Hp. lia. }
  rewrite Hpos.
  (* the levels *)
  assert (Hnv : dph_num_values (page_dph codec c es) = Z.of_nat (length (map e_def es))).
  { rewrite map_length. apply (page_num_values codec c es Hpre). }
  assert (Hdefs : Forall (fun v => v < 2 ^ Reader.bit_width (max_def c)) (map e_def es)).
  { apply Forall_map. eapply Forall_impl; [|exact Hlev]. intros e He. apply lev_ok_inv in He.
    apply bit_width_bound; lia. }
  assert (Hreps : Forall (fun v => v < 2 ^ Reader.bit_width (max_rep c)) (map e_rep es)).
  { apply Forall_map. eapply Forall_impl; [|exact Hlev]. intros e He. apply lev_ok_inv in He.
    apply bit_width_bound; lia. }
  set (vals := plain_enc (c_prim c) (entry_vals es)).
  set (dsec := rle_encode (Reader.bit_width (max_def c)) (map e_def es)).
  assert (Hpay : page_payload c es =
                 (if 0 <? max_rep c then rle_encode (Reader.bit_width (max_rep c)) (map e_rep es) else [])
                 ++ dsec ++ vals).
  { unfold page_payload. rewrite Hreq. reflexivity. }
  destruct (0 <? max_rep c) eqn:Erep.
  - set (rsec := rle_encode (Reader.bit_width (max_rep c)) (map e_rep es)) in *.
    rewrite (read_levels_ok _ (map e_rep es) (page_payload c es) 0 (dsec ++ vals));
      [| apply bit_width_widths; lia | exact Hreps | rewrite map_length; unfold nlen in Hcount; lia
       | lia | rewrite Hpay; reflexivity | rewrite Hnv, !map_length; reflexivity ].
    cbn [lift]. unfold ret at 1. unfold bind at 1. cbv beta iota. fold rsec.
    rewrite (read_levels_ok _ (map e_def es) (page_payload c es) (length rsec) vals);
      [| apply bit_width_widths; lia | exact Hdefs | rewrite map_length; unfold nlen in Hcount; lia
       | rewrite Hpay, app_length; lia | rewrite Hpay; apply skipn_app_exact | exact Hnv ].
    cbn [lift]. unfold ret at 1. unfold bind at 1. cbv beta iota. fold dsec.
    assert (Hlen : length (page_payload c es) = (length rsec + length dsec + length vals)%nat).
    { rewrite Hpay, !app_length. lia. }
    replace (Nat.ltb (length (page_payload c es)) (length rsec + length dsec)) with false by lia.
    exists s2. split; [|exact Hadv].
    rewrite (count_maxdef c es Hlev). unfold page_reps. rewrite Erep.
    replace (skipn (length rsec + length dsec) (page_payload c es)) with vals; [reflexivity|].
    rewrite Hpay, skipn_add, skipn_app_exact, skipn_app_exact. reflexivity.
  - unfold ret at 1. unfold bind at 1. cbv beta iota.
    rewrite (read_levels_ok _ (map e_def es) (page_payload c es) 0 vals);
      [| apply bit_width_widths; lia | exact Hdefs | rewrite map_length; unfold nlen in Hcount; lia
       | lia | rewrite Hpay; reflexivity | exact Hnv ].
    cbn [lift]. unfold ret at 1. unfold bind at 1. cbv beta iota. fold dsec.
    assert (Hlen : length (page_payload c es) = (length dsec + length vals)%nat).
    { rewrite Hpay, !app_length. cbn [length]. lia. }
    replace (Nat.ltb (length (page_payload c es)) (0 + length dsec)) with false by lia.
    exists s2. split; [|exact Hadv].
    rewrite (count_maxdef c es Hlev). unfold page_reps. rewrite Erep.
    replace (skipn (0 + length dsec) (page_payload c es)) with vals; [reflexivity|].
    rewrite Hpay. cbn [app Nat.add]. rewrite skipn_app_exact. reflexivity.
Qed.

(** ** Layer 2: one column chunk *)

Definition chunk_bytes (codec : Z) (c : col) (ess : list (list entry)) : bytes :=
  concat (map (fun es => page_bytes (make_page compress codec c es)) ess).

Lemma chunk_bytes_cons codec c es ess :
  chunk_bytes codec c (es :: ess) = page_bytes (make_page compress codec c es) ++ chunk_bytes codec c ess.
Proof. reflexivity. Qed.

Lemma page_bytes_pos codec c es : (1 <= length (page_bytes (make_page compress codec c es)))%nat.
Proof.
  rewrite page_bytes_length.
  pose proof (enc_page_header_nonempty (pg_header (make_page compress codec c es))) as H.
  change (enc_page_header (pg_header (make_page compress codec c es)))
    with (pg_header_bytes (make_page compress codec c es)) in H. lia.
Qed.

Lemma page_entries_pos codec c es : page_pre codec c es -> (1 <= length es)%nat.
Proof. intros Hpre. pose proof (pp_nonempty _ _ _ Hpre) as H. destruct es; [congruence | cbn [length]; lia]. Qed.

Lemma do_read_required_loop codec c : forall ess s rest f pgn nread acc sizes,
  Forall (page_pre codec c) ess -> col_required c = true -> s_fail s = None ->
  rem s = chunk_bytes codec c ess ++ rest ->
  pgn = (nread + Z.of_nat (length (concat ess)))%Z ->
  (length ess <= f)%nat ->
  exists s',
    do_read_required decompress f codec pgn nread acc sizes s =
    Ok ((acc ++ concat (map (fun es => plain_enc (c_prim c) (entry_vals es)) ess),
         sizes ++ map (@length entry) ess), s') /\
    adv s (length (chunk_bytes codec c ess)) s'.
Proof.
  induction ess as [|es ess IH]; intros s rest f pgn nread acc sizes Hpre Hreq Hfail Hrem Hpgn Hfuel.
  - exists s. cbn [concat map length] in *. rewrite !app_nil_r. split; [|apply adv_refl; exact Hfail].
    destruct f; cbn [do_read_required]; replace (nread <? pgn)%Z with false by lia; reflexivity.
  - inversion Hpre as [|es' ess' Hes Hess]; subst es' ess'.
    destruct f as [|f]; [cbn [length] in Hfuel; lia|].
    rewrite chunk_bytes_cons, <- app_assoc in Hrem.
    pose proof (page_entries_pos _ _ _ Hes) as Hpos.
    cbn [concat] in Hpgn. rewrite app_length in Hpgn.
    destruct (do_read_required_step codec c es s _ f pgn nread acc sizes Hes Hreq Hfail Hrem)
      as (s1 & Hstep & Hadv1); [lia|].
    rewrite Hstep.
    destruct (IH s1 rest f pgn (nread + Z.of_nat (length es))%Z
                 (acc ++ plain_enc (c_prim c) (entry_vals es)) (sizes ++ [length es]))
      as (s2 & Hrun & Hadv2); auto.
    + exact (adv_fail _ _ _ Hadv1).
    + exact (rem_adv_app _ _ _ _ Hrem Hadv1).
    + lia.
    + cbn [length] in Hfuel. lia.
    + exists s2. rewrite Hrun. cbn [map concat]. rewrite <- !app_assoc. split; [reflexivity|].
      rewrite chunk_bytes_cons, app_length. exact (adv_trans _ _ _ _ _ Hadv1 Hadv2).
Qed.

Lemma do_read_optional_loop codec c : forall ess s rest f size nread acc,
  Forall (page_pre codec c) ess -> col_required c = false -> s_fail s = None ->
  rem s = chunk_bytes codec c ess ++ rest ->
  size = (nread + Z.of_nat (length (chunk_bytes codec c ess)))%Z ->
  (length ess <= f)%nat ->
  exists s',
    do_read_optional decompress f codec (max_def c) (max_rep c) size nread acc s =
    Ok ({| oa_reps := oa_reps acc ++ concat (map (page_reps c) ess);
           oa_defs := oa_defs acc ++ concat (map (map e_def) ess);
           oa_out := oa_out acc ++ concat (map (fun es => plain_enc (c_prim c) (entry_vals es)) ess);
           oa_sizes := oa_sizes acc ++ map (fun es => length (entry_vals es)) ess |}, s') /\
    adv s (length (chunk_bytes codec c ess)) s'.
Proof.
  induction ess as [|es ess IH]; intros s rest f size nread acc Hpre Hreq Hfail Hrem Hsize Hfuel.
  - exists s. cbn [concat map length chunk_bytes] in *. rewrite !app_nil_r.
    split; [|apply adv_refl; exact Hfail].
    destruct f; cbn [do_read_optional]; replace (nread <? size)%Z with false by lia;
      destruct acc; reflexivity.
  - inversion Hpre as [|es' ess' Hes Hess]; subst es' ess'.
    destruct f as [|f]; [cbn [length] in Hfuel; lia|].
    rewrite chunk_bytes_cons in Hrem, Hsize. rewrite <- app_assoc in Hrem. rewrite app_length in Hsize.
    pose proof (page_bytes_pos codec c es) as Hpos.
    destruct (do_read_optional_step codec c es s _ f size nread acc Hes Hreq Hfail Hrem)
      as (s1 & Hstep & Hadv1); [lia|].
    rewrite Hstep.
    match goal with |- context [do_read_optional _ _ _ _ _ _ _ ?a s1] => set (acc1 := a) end.
    destruct (IH s1 rest f size
                 (nread + Z.of_nat (length (page_bytes (make_page compress codec c es))))%Z acc1)
      as (s2 & Hrun & Hadv2); auto.
    + exact (adv_fail _ _ _ Hadv1).
    + exact (rem_adv_app _ _ _ _ Hrem Hadv1).
    + lia.
    + cbn [length] in Hfuel. lia.
    + exists s2. rewrite Hrun. unfold acc1. cbn [oa_reps oa_defs oa_out oa_sizes map concat].
      rewrite <- !app_assoc. split; [reflexivity|].
      rewrite chunk_bytes_cons, app_length. exact (adv_trans _ _ _ _ _ Hadv1 Hadv2).
Qed.

Lemma plain_enc_concat p pages :
  p <> PBool -> concat (map (plain_enc p) pages) = plain_enc p (concat pages).
Proof.
  intros Hp. induction pages as [|pg pages IH]; cbn [map concat].
  - destruct p; reflexivity.
  - rewrite plain_enc_app, IH by exact Hp. reflexivity.
Qed.

(** the typed part of Read on the concatenated value sections *)
Lemma decode_values_ok p pages n :
  Forall (Forall (leaf_ok p)) pages ->
  Forall (Forall (fun v => nlen (str_of v) < 2 ^ 31)) pages ->
  n = Z.of_nat (length (concat pages)) ->
  decode_values p n (concat (map (plain_enc p) pages)) (map (@length value) pages) = Ok (concat pages).
Proof.
  intros Hty Hstr Hn. subst n. unfold decode_values.
  replace (Z.of_nat (length (concat pages)) <? 0)%Z with false by lia. rewrite Nat2Z.id.
  assert (Hall : Forall (leaf_ok p) (concat pages)) by (apply Forall_concat; exact Hty).
  destruct p; cbv beta iota;
    try (rewrite plain_enc_concat by discriminate;
         rewrite <- (app_nil_r (plain_enc _ (concat pages)));
         match goal with
         | |- context [read_fixed (prim_size ?q)] => rewrite (read_fixed_concat q _ [] I Hall)
         end; reflexivity).
  - apply get_bools_pages. exact Hty.
  - rewrite plain_enc_concat by discriminate. rewrite <- (app_nil_r (plain_enc _ (concat pages))).
    apply read_strings_concat; [exact Hall | apply Forall_concat; exact Hstr].
Qed.

Lemma length_le_concat {A} (l : list (list A)) :
  Forall (fun x => (1 <= length x)%nat) l -> (length l <= length (concat l))%nat.
Proof.
  induction 1 as [|x l Hx Hl IH]; cbn [concat length]; [lia|]. rewrite app_length. lia.
Qed.

Lemma length_le_concat_bytes codec c ess : (length ess <= length (chunk_bytes codec c ess))%nat.
Proof.
  unfold chunk_bytes. rewrite <- (map_length (fun es => page_bytes (make_page compress codec c es)) ess) at 1.
  apply length_le_concat. apply Forall_forall. intros x Hx. apply in_map_iff in Hx.
  destruct Hx as (es & <- & _). apply page_bytes_pos.
Qed.

Lemma chunk_lev_ok codec c ess : Forall (page_pre codec c) ess -> lev_ok c (concat ess).
Proof.
  intros H. unfold lev_ok. apply Forall_concat. eapply Forall_impl; [|exact H].
  intros es Hes. exact (pp_levels _ _ _ Hes).
Qed.

(** f.Read on the chunk the writer laid out: exactly the chunk's entries *)
Theorem read_chunk_ok codec c ess cm s rest :
  Forall (page_pre codec c) ess -> s_fail s = None ->
  rem s = chunk_bytes codec c ess ++ rest ->
  cm_codec cm = codec ->
  cm_num_values cm = Z.of_nat (length (concat ess)) ->
  cm_total_compressed cm = Z.of_nat (length (chunk_bytes codec c ess)) ->
  exists s', read_chunk decompress c cm s = Ok (concat ess, s') /\
             adv s (length (chunk_bytes codec c ess)) s'.
Proof.
  intros Hpre Hfail Hrem Hcodec' Hnv Htot.
  pose proof (chunk_lev_ok codec c ess Hpre) as Hlev.
  assert (Hty : Forall (Forall (leaf_ok (c_prim c))) (map entry_vals ess)).
  { apply Forall_map. eapply Forall_impl; [|exact Hpre]. intros es Hes. exact (pp_typed _ _ _ Hes). }
  assert (Hstr : Forall (Forall (fun v => nlen (str_of v) < 2 ^ 31)) (map entry_vals ess)).
  { apply Forall_map. eapply Forall_impl; [|exact Hpre]. intros es Hes. exact (page_strs _ _ _ Hes). }
  unfold read_chunk. cbv zeta. rewrite Hcodec', Hnv, Htot.
  destruct (col_required c) eqn:Hreq.
  - destruct (do_read_required_loop codec c ess s rest (S (Z.to_nat (Z.of_nat (length (concat ess)))))
                (Z.of_nat (length (concat ess))) 0%Z [] [] Hpre Hreq Hfail Hrem) as (s' & Hrun & Hadv).
    + lia.
    + assert (length ess <= length (concat ess))%nat; [|lia].
      apply length_le_concat. eapply Forall_impl; [|exact Hpre]. intros es Hes.
      exact (page_entries_pos _ _ _ Hes).
    + rewrite (bind_ok _ _ _ _ _ Hrun). cbv beta iota. cbn [app].
      replace (map (@length entry) ess) with (map (@length value) (map entry_vals ess)).
      2:{ rewrite map_map. apply map_ext_in. intros es Hes. rewrite Forall_forall in Hpre.
          apply (required_count c es Hreq). exact (pp_levels _ _ _ (Hpre es Hes)). }
      rewrite <- (map_map entry_vals (plain_enc (c_prim c))).
      rewrite decode_values_ok; [|exact Hty|exact Hstr|].
      2:{ rewrite <- entry_vals_concat. rewrite (required_count c _ Hreq Hlev). reflexivity. }
      cbn [lift]. unfold ret at 1. unfold bind at 1. unfold ret.
      rewrite <- entry_vals_concat, (required_entries c _ Hreq Hlev).
      exists s'. split; [reflexivity|exact Hadv].
  - destruct (do_read_optional_loop codec c ess s rest
                (S (Z.to_nat (Z.of_nat (length (chunk_bytes codec c ess)))))
                (Z.of_nat (length (chunk_bytes codec c ess))) 0%Z
                {| oa_reps := []; oa_defs := []; oa_out := []; oa_sizes := [] |}
                Hpre Hreq Hfail Hrem) as (s' & Hrun & Hadv).
    + lia.
    + pose proof (length_le_concat_bytes codec c ess). lia.
    + rewrite (bind_ok _ _ _ _ _ Hrun). cbv zeta. cbn [oa_reps oa_defs oa_out oa_sizes app].
      rewrite <- (concat_map e_def ess), (count_maxdef c _ Hlev).
      rewrite <- (map_map entry_vals (plain_enc (c_prim c))).
      rewrite <- (map_map entry_vals (@length value)).
      rewrite decode_values_ok; [|exact Hty|exact Hstr|rewrite entry_vals_concat; reflexivity].
      cbn [lift]. unfold ret at 1. unfold bind at 1. unfold ret.
      exists s'. split; [|exact Hadv]. f_equal. f_equal.
      rewrite <- entry_vals_concat.
      destruct (0 <? max_rep c) eqn:Erep.
      * replace (concat (map (page_reps c) ess)) with (map e_rep (concat ess)).
        -- apply zip_levels_reps. exact Hlev.
        -- rewrite concat_map. f_equal. apply map_ext. intros es. unfold page_reps. rewrite Erep. reflexivity.
      * replace (concat (map (page_reps c) ess)) with (@nil N).
        -- apply zip_levels_noreps; [lia | exact Hlev].
        -- symmetry. apply concat_nil_Forall. apply Forall_map. apply Forall_forall. intros es _.
           unfold page_reps. rewrite Erep. reflexivity.
Qed.

End WithCodec.

Print Assumptions read_full_loop_ok.
Print Assumptions do_read_required_step.
Print Assumptions do_read_optional_step.
Print Assumptions read_chunk_ok.
