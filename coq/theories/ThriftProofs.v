(** * ThriftProofs: the generic compact-protocol decoder reads back what the
    encoder of Thrift.v writes, and the encoder only produces bytes. *)
From Coq Require Import List NArith ZArith Lia Bool Arith.
From Coq Require Import ZifyN ZifyNat ZifyBool.
From PQ Require Import Bytes Varint VarintProofs Thrift.
Import ListNotations.
Local Open Scope N_scope.

Ltac Zify.zify_post_hook ::= Z.div_mod_to_equations.

(** ** Induction principle for the nested type *)

Section TvalInd.
  Variable P : tval -> Prop.
  Hypothesis HBool : forall b, P (TBool b).
  Hypothesis HI8 : forall z, P (TI8 z).
  Hypothesis HI16 : forall z, P (TI16 z).
  Hypothesis HI32 : forall z, P (TI32 z).
  Hypothesis HI64 : forall z, P (TI64 z).
  Hypothesis HDouble : forall bits, P (TDouble bits).
  Hypothesis HBin : forall bs, P (TBin bs).
  Hypothesis HList : forall elt vs, Forall P vs -> P (TList elt vs).
  Hypothesis HStruct : forall fs, Forall (fun p => P (snd p)) fs -> P (TStruct fs).

  Fixpoint tval_ind' (v : tval) : P v :=
    match v with
    | TBool b => HBool b
    | TI8 z => HI8 z
    | TI16 z => HI16 z
    | TI32 z => HI32 z
    | TI64 z => HI64 z
    | TDouble bits => HDouble bits
    | TBin bs => HBin bs
    | TList elt vs =>
        HList elt vs
          ((fix go (l : list tval) : Forall P l :=
              match l with
              | [] => Forall_nil P
              | x :: r => Forall_cons x (tval_ind' x) (go r)
              end) vs)
    | TStruct fs =>
        HStruct fs
          ((fix go (l : list (N * tval)) : Forall (fun p => P (snd p)) l :=
              match l with
              | [] => Forall_nil _
              | p :: r => Forall_cons p (tval_ind' (snd p)) (go r)
              end) fs)
    end.
End TvalInd.

(** ** Unfolding equations *)

Lemma tenc_val_struct fs : tenc_val (TStruct fs) = tenc_fields 0 fs.
Proof.
  cbn [tenc_val].
  match goal with
  | |- ?F 0 fs = _ => enough (Hg : forall last, F last fs = tenc_fields last fs) by apply Hg
  end.
  induction fs as [|[id x] r IH]; intros last; cbn [tenc_fields]; [reflexivity|].
  rewrite IH. reflexivity.
Qed.

Lemma tenc_val_list elt vs : tenc_val (TList elt vs) = lhdr elt (nlen vs) ++ tenc_elems vs.
Proof. reflexivity. Qed.

Lemma tenc_elems_cons v vs : tenc_elems (v :: vs) = tenc_val v ++ tenc_elems vs.
Proof. reflexivity. Qed.

Lemma wf_tval_struct fs : wf_tval (TStruct fs) = wf_fields_from 0 fs.
Proof.
  cbn [wf_tval].
  match goal with
  | |- ?F 0 fs = _ => enough (Hg : forall last, F last fs = wf_fields_from last fs) by apply Hg
  end.
  induction fs as [|[id x] r IH]; intros last; cbn [wf_fields_from]; [reflexivity|].
  rewrite IH. reflexivity.
Qed.

Lemma wf_tval_list elt vs :
  wf_tval (TList elt vs) =
  (1 <=? elt) && (elt <=? 12) && (nlen vs <? len_lim)
  && forallb (fun x => elt_matches elt x && wf_tval x) vs.
Proof. reflexivity. Qed.

Lemma tdec_fields_S f last h r :
  tdec_fields (S f) last (h :: r) =
  if h mod 16 =? 0 then Some ([], r)
  else
    match dec_field_id last h r with
    | None => None
    | Some (id, r1) =>
        match (if (h mod 16 =? 1) || (h mod 16 =? 2) then Some (TBool (h mod 16 =? 1), r1)
               else tdec_val_gen (tdec_fields f) (tdec_elems f) (h mod 16) r1) with
        | None => None
        | Some (v, r2) =>
            match tdec_fields f id r2 with
            | None => None
            | Some (fs, r3) => Some ((id, v) :: fs, r3)
            end
        end
    end.
Proof. reflexivity. Qed.

Lemma tdec_elems_S f elt n bs :
  tdec_elems (S f) elt n bs =
  if n =? 0 then Some ([], bs)
  else
    match tdec_val_gen (tdec_fields f) (tdec_elems f) elt bs with
    | None => None
    | Some (v, r1) =>
        match tdec_elems f elt (n - 1) r1 with
        | None => None
        | Some (vs, r2) => Some (v :: vs, r2)
        end
    end.
Proof. reflexivity. Qed.

(** ** Small facts *)

Lemma ctype_range v : 1 <= ctype v <= 12.
Proof. destruct v as [[|]| | | | | | | |]; cbn [ctype]; lia. Qed.

Lemma uleb_enc_len n : (1 <= length (uleb_enc n))%nat.
Proof.
  pose proof (uleb_enc_nonempty n) as H.
  destruct (uleb_enc n) as [|b r]; [congruence | cbn [length]; lia].
Qed.

Lemma fhdr_len last id ty : (1 <= length (fhdr last id ty))%nat.
Proof.
  unfold fhdr. destruct ((last <? id) && (id - last <=? 15)); cbn [length]; lia.
Qed.

Lemma lhdr_len elt n : (1 <= length (lhdr elt n))%nat.
Proof. unfold lhdr. destruct (n <=? 14); cbn [length]; lia. Qed.

Lemma tenc_fields_len last fs : (1 <= length (tenc_fields last fs))%nat.
Proof.
  destruct fs as [|[id x] r]; cbn [tenc_fields length]; [lia|].
  rewrite app_length. pose proof (fhdr_len last id (ctype x)). lia.
Qed.

Lemma tenc_val_len v : (1 <= length (tenc_val v))%nat.
Proof.
  destruct v as [b|z|z|z|z|bits|bs|elt vs|fs].
  - cbn [tenc_val length]. lia.
  - cbn [tenc_val length]. lia.
  - cbn [tenc_val]. apply uleb_enc_len.
  - cbn [tenc_val]. apply uleb_enc_len.
  - cbn [tenc_val]. apply uleb_enc_len.
  - cbn [tenc_val]. rewrite le_enc_length. lia.
  - cbn [tenc_val]. rewrite app_length. pose proof (uleb_enc_len (nlen bs)). lia.
  - rewrite tenc_val_list, app_length. pose proof (lhdr_len elt (nlen vs)). lia.
  - rewrite tenc_val_struct. apply tenc_fields_len.
Qed.

Lemma zigzag_lt (k : Z) z : (- k <= z < k)%Z -> zigzag z < Z.to_N (2 * k).
Proof.
  intros Hz. unfold zigzag. destruct (Z.ltb_spec z 0) as [Hneg|Hpos]; lia.
Qed.

Lemma in_range_spec lo hi z : in_range lo hi z = true -> (lo <= z < hi)%Z.
Proof. unfold in_range. lia. Qed.

Lemma zigzag_i16 z : i16_ok z = true -> zigzag z < i16_lim.
Proof. intros H. apply in_range_spec in H. apply (zigzag_lt 32768). exact H. Qed.

Lemma zigzag_i32 z : i32_ok z = true -> zigzag z < i32_lim.
Proof. intros H. apply in_range_spec in H. apply (zigzag_lt 2147483648). exact H. Qed.

Lemma zigzag_i64 z : i64_ok z = true -> zigzag z < i64_lim.
Proof. intros H. apply in_range_spec in H. apply (zigzag_lt 9223372036854775808). exact H. Qed.

Lemma dec_zz_enc lim z rest :
  zigzag z < lim -> dec_zz lim (uleb_enc (zigzag z) ++ rest) = Some (z, rest).
Proof.
  intros Hz. unfold dec_zz. rewrite uleb_dec_enc.
  destruct (N.ltb_spec (zigzag z) lim) as [_|Hge]; [|lia].
  rewrite unzigzag_zigzag. reflexivity.
Qed.

Lemma take_bytes_app s rest : take_bytes (nlen s) (s ++ rest) = Some (s, rest).
Proof.
  unfold take_bytes. rewrite nlen_app.
  destruct (N.leb_spec (nlen s) (nlen s + nlen rest)) as [_|Hgt]; [|lia].
  unfold nlen. rewrite Nat2N.id, firstn_app_exact, skipn_app_exact. reflexivity.
Qed.

(** a field header, seen from the decoder *)
Lemma fhdr_split last id ty :
  last < id -> id <= max_field_id -> 1 <= ty <= 12 ->
  exists h r,
    fhdr last id ty = h :: r /\ h mod 16 = ty /\
    forall tail, dec_field_id last h (r ++ tail) = Some (id, tail).
Proof.
  unfold max_field_id. intros Hlt Hmax Hty. unfold fhdr.
  destruct ((last <? id) && (id - last <=? 15)) eqn:Hc.
  - exists ((id - last) * 16 + ty), []. split; [reflexivity|]. split; [lia|].
    intros tail. unfold dec_field_id, max_field_id. cbn [app].
    assert (Hd : ((id - last) * 16 + ty) / 16 = id - last) by lia.
    rewrite Hd.
    destruct (N.eqb_spec (id - last) 0) as [H0|_]; [lia|].
    replace (last + (id - last)) with id by lia.
    destruct (N.leb_spec id 32767) as [_|Hgt]; [reflexivity | lia].
  - exists ty, (uleb_enc (zigzag (Z.of_N id))). split; [reflexivity|]. split; [lia|].
    intros tail. unfold dec_field_id, max_field_id.
    assert (Hd : ty / 16 = 0) by lia.
    rewrite Hd. cbn [N.eqb].
    rewrite dec_zz_enc by (apply zigzag_i16; unfold i16_ok, in_range; lia).
    destruct ((0 <=? Z.of_N id) && (Z.of_N id <=? Z.of_N 32767))%Z eqn:Hr; [|lia].
    rewrite N2Z.id. reflexivity.
Qed.

(** a list header, seen from the decoder *)
Lemma lhdr_split elt n :
  1 <= elt <= 12 ->
  exists h r,
    lhdr elt n = h :: r /\ h mod 16 = elt /\
    forall tail,
      (if h / 16 =? 15 then uleb_dec (r ++ tail) else Some (h / 16, r ++ tail)) = Some (n, tail).
Proof.
  intros He. unfold lhdr. destruct (N.leb_spec n 14) as [Hle|Hgt].
  - exists (n * 16 + elt), []. split; [reflexivity|]. split; [lia|].
    intros tail. assert (Hd : (n * 16 + elt) / 16 = n) by lia. rewrite Hd.
    destruct (N.eqb_spec n 15) as [H15|_]; [lia | reflexivity].
  - exists (240 + elt), (uleb_enc n). split; [reflexivity|]. split; [lia|].
    intros tail. assert (Hd : (240 + elt) / 16 = 15) by lia. rewrite Hd.
    cbn [N.eqb Pos.eqb]. apply uleb_dec_enc.
Qed.

(** body of a field: a bool has none, everything else is its [tenc_val] *)
Lemma fval_cases x :
  (exists b, x = TBool b) \/
  (tenc_fval x = tenc_val x /\ ((ctype x =? 1) || (ctype x =? 2)) = false
   /\ elt_matches (ctype x) x = true).
Proof.
  destruct x as [b|z|z|z|z|bits|bs|elt vs|fs];
    [left; exists b; reflexivity | right; repeat split; reflexivity ..].
Qed.

(** ** The round trip *)

(** [v] decodes from its encoding whenever the recursive decoders are run at a
    fuel of at least its encoded length *)
Definition val_ok (v : tval) : Prop :=
  forall f ty rest,
    wf_tval v = true -> elt_matches ty v = true ->
    (length (tenc_val v) <= f)%nat ->
    tdec_val_gen (tdec_fields f) (tdec_elems f) ty (tenc_val v ++ rest) = Some (v, rest).

Lemma fields_ok fs :
  Forall (fun p => val_ok (snd p)) fs ->
  forall fuel last rest,
    wf_fields_from last fs = true ->
    (length (tenc_fields last fs) <= fuel)%nat ->
    tdec_fields fuel last (tenc_fields last fs ++ rest) = Some (fs, rest).
Proof.
  induction 1 as [|[id x] r Hx Hr IH]; intros fuel last rest Hwf Hfuel.
  - cbn [tenc_fields length] in Hfuel. destruct fuel as [|f]; [lia|].
    cbn [tenc_fields app]. rewrite tdec_fields_S. reflexivity.
  - cbn [snd] in Hx. cbn [wf_fields_from] in Hwf.
    apply andb_prop in Hwf. destruct Hwf as [Hwf Hwfr].
    apply andb_prop in Hwf. destruct Hwf as [Hwf Hwfx].
    apply andb_prop in Hwf. destruct Hwf as [Hlt Hmax].
    apply N.ltb_lt in Hlt. apply N.leb_le in Hmax.
    pose proof (ctype_range x) as Hct.
    destruct (fhdr_split last id (ctype x) Hlt Hmax Hct) as (h & hr & Hh & Hty & Hid).
    cbn [tenc_fields] in Hfuel |- *.
    rewrite Hh in Hfuel |- *. rewrite !app_length in Hfuel. cbn [length] in Hfuel.
    destruct fuel as [|f]; [lia|].
    rewrite <- !app_assoc. cbn [app].
    rewrite tdec_fields_S, Hty, Hid.
    destruct (N.eqb_spec (ctype x) 0) as [H0|_]; [lia|].
    destruct (fval_cases x) as [[b Hb]|(Hfv & Hnb & Hem)].
    + subst x. cbn [tenc_fval app].
      assert (Hbv : ((ctype (TBool b) =? 1) || (ctype (TBool b) =? 2)) = true
                    /\ (ctype (TBool b) =? 1) = b) by (destruct b; split; reflexivity).
      destruct Hbv as [Hb1 Hb2]. rewrite Hb1, Hb2.
      rewrite IH; [reflexivity | exact Hwfr | cbn [tenc_fval length] in Hfuel; lia].
    + rewrite Hnb, Hfv. rewrite Hfv in Hfuel.
      rewrite (Hx f (ctype x) _ Hwfx Hem) by lia.
      rewrite IH; [reflexivity | exact Hwfr | lia].
Qed.

Lemma elems_ok vs :
  Forall val_ok vs ->
  forall fuel elt rest,
    forallb (fun x => elt_matches elt x && wf_tval x) vs = true ->
    (length (tenc_elems vs) < fuel)%nat ->
    tdec_elems fuel elt (nlen vs) (tenc_elems vs ++ rest) = Some (vs, rest).
Proof.
  induction 1 as [|v r Hv Hr IH]; intros fuel elt rest Hwf Hfuel.
  - destruct fuel as [|f]; [lia|]. rewrite tdec_elems_S. reflexivity.
  - destruct fuel as [|f]; [lia|].
    cbn [forallb] in Hwf.
    apply andb_prop in Hwf. destruct Hwf as [Hwf Hwfr].
    apply andb_prop in Hwf. destruct Hwf as [Hem Hwfv].
    rewrite tenc_elems_cons in Hfuel |- *. rewrite app_length in Hfuel.
    pose proof (tenc_val_len v) as Hlen.
    rewrite tdec_elems_S.
    assert (Hn : nlen (v :: r) = nlen r + 1) by (unfold nlen; cbn [length]; lia).
    rewrite Hn.
    destruct (N.eqb_spec (nlen r + 1) 0) as [H0|_]; [lia|].
    replace (nlen r + 1 - 1) with (nlen r) by lia.
    rewrite <- app_assoc.
    rewrite (Hv f elt _ Hwfv Hem) by lia.
    rewrite IH; [reflexivity | exact Hwfr | lia].
Qed.

Lemma val_ok_all v : val_ok v.
Proof.
  induction v as [b|z|z|z|z|bits|bs|elt vs IH|fs IH] using tval_ind';
    unfold val_ok; intros f ty rest Hwf Hem Hfuel.
  - (* bool, as a list element *)
    cbn [elt_matches] in Hem. cbn [tenc_val app].
    destruct (N.eqb_spec ty 1) as [H1|_].
    + subst ty. destruct b; reflexivity.
    + destruct (N.eqb_spec ty 2) as [H2|_]; [|discriminate Hem].
      subst ty. destruct b; reflexivity.
  - (* i8 *)
    cbn [elt_matches ctype] in Hem. apply N.eqb_eq in Hem. subst ty.
    cbn [tenc_val app]. unfold tdec_val_gen. cbv beta iota.
    cbn [wf_tval] in Hwf. apply in_range_spec in Hwf.
    rewrite signZ_wrapN; [reflexivity | lia |].
    change (2 ^ (Z.of_N 8 - 1))%Z with 128%Z. lia.
  - (* i16 *)
    cbn [elt_matches ctype] in Hem. apply N.eqb_eq in Hem. subst ty.
    cbn [tenc_val wf_tval] in Hwf |- *. unfold tdec_val_gen. cbv beta iota.
    rewrite dec_zz_enc by (apply zigzag_i16; exact Hwf). reflexivity.
  - (* i32 *)
    cbn [elt_matches ctype] in Hem. apply N.eqb_eq in Hem. subst ty.
    cbn [tenc_val wf_tval] in Hwf |- *. unfold tdec_val_gen. cbv beta iota.
    rewrite dec_zz_enc by (apply zigzag_i32; exact Hwf). reflexivity.
  - (* i64 *)
    cbn [elt_matches ctype] in Hem. apply N.eqb_eq in Hem. subst ty.
    cbn [tenc_val wf_tval] in Hwf |- *. unfold tdec_val_gen. cbv beta iota.
    rewrite dec_zz_enc by (apply zigzag_i64; exact Hwf). reflexivity.
  - (* double *)
    cbn [elt_matches ctype] in Hem. apply N.eqb_eq in Hem. subst ty.
    cbn [tenc_val wf_tval] in Hwf |- *. unfold tdec_val_gen. cbv beta iota.
    rewrite take_le_enc; [reflexivity|].
    change (256 ^ N.of_nat 8) with i64_lim. apply N.ltb_lt. exact Hwf.
  - (* binary *)
    cbn [elt_matches ctype] in Hem. apply N.eqb_eq in Hem. subst ty.
    cbn [tenc_val wf_tval] in Hwf |- *. unfold tdec_val_gen. cbv beta iota.
    unfold bin_ok in Hwf. apply andb_prop in Hwf. destruct Hwf as [_ Hlen].
    rewrite <- app_assoc, uleb_dec_enc, Hlen, take_bytes_app. reflexivity.
  - (* list *)
    cbn [elt_matches ctype] in Hem. apply N.eqb_eq in Hem. subst ty.
    rewrite wf_tval_list in Hwf.
    apply andb_prop in Hwf. destruct Hwf as [Hwf Hall].
    apply andb_prop in Hwf. destruct Hwf as [Hwf Hlen].
    apply andb_prop in Hwf. destruct Hwf as [He1 He2].
    apply N.leb_le in He1. apply N.leb_le in He2.
    destruct (lhdr_split elt (nlen vs) (conj He1 He2)) as (h & hr & Hh & Helt & Hsz).
    rewrite tenc_val_list in Hfuel |- *. rewrite Hh in Hfuel |- *.
    rewrite app_length in Hfuel. cbn [length] in Hfuel.
    rewrite <- app_assoc. cbn [app].
    unfold tdec_val_gen. cbv beta iota zeta.
    rewrite Hsz, Hlen, Helt.
    rewrite (elems_ok vs IH) by (try exact Hall; lia). reflexivity.
  - (* struct *)
    cbn [elt_matches ctype] in Hem. apply N.eqb_eq in Hem. subst ty.
    rewrite wf_tval_struct in Hwf. rewrite tenc_val_struct in Hfuel |- *.
    unfold tdec_val_gen. cbv beta iota.
    rewrite (fields_ok fs IH) by (try exact Hwf; lia). reflexivity.
Qed.

(** Main theorem: any fuel that is at least the length of the encoding is
    enough (the decoder spends one unit of fuel per field and per list
    element, and each of those occupies at least one byte). *)
Theorem tdec_tenc fuel fs rest :
  wf_fields fs = true ->
  (length (tenc_struct fs) <= fuel)%nat ->
  tdec_struct fuel (tenc_struct fs ++ rest) = Some (fs, rest).
Proof.
  intros Hwf Hfuel. unfold tdec_struct, tenc_struct.
  apply fields_ok; [| exact Hwf | exact Hfuel].
  apply Forall_forall. intros p _. apply val_ok_all.
Qed.

Corollary tdec_tenc_default fs rest :
  wf_fields fs = true -> tdec (tenc_struct fs ++ rest) = Some (fs, rest).
Proof.
  intros Hwf. unfold tdec. apply tdec_tenc; [exact Hwf|].
  rewrite app_length. lia.
Qed.

(** ** The encoder produces bytes *)

Lemma is_byte_cons b bs : b < 256 -> wf_bytes bs -> wf_bytes (b :: bs).
Proof. intros Hb Hbs. apply wf_bytes_cons. split; [exact Hb | exact Hbs]. Qed.

Lemma fhdr_wf last id ty : ty <= 12 -> wf_bytes (fhdr last id ty).
Proof.
  intros Hty. unfold fhdr. destruct ((last <? id) && (id - last <=? 15)) eqn:Hc.
  - apply is_byte_cons; [lia | apply wf_bytes_nil].
  - apply is_byte_cons; [lia | apply uleb_enc_wf].
Qed.

Lemma lhdr_wf elt n : elt <= 12 -> wf_bytes (lhdr elt n).
Proof.
  intros He. unfold lhdr. destruct (N.leb_spec n 14) as [Hle|Hgt].
  - apply is_byte_cons; [lia | apply wf_bytes_nil].
  - apply is_byte_cons; [lia | apply uleb_enc_wf].
Qed.

Definition val_wfb (v : tval) : Prop := wf_tval v = true -> wf_bytes (tenc_val v).

Lemma fields_wfb fs :
  Forall (fun p => val_wfb (snd p)) fs ->
  forall last, wf_fields_from last fs = true -> wf_bytes (tenc_fields last fs).
Proof.
  induction 1 as [|[id x] r Hx Hr IH]; intros last Hwf; cbn [tenc_fields].
  - apply is_byte_cons; [lia | apply wf_bytes_nil].
  - cbn [snd] in Hx. cbn [wf_fields_from] in Hwf.
    apply andb_prop in Hwf. destruct Hwf as [Hwf Hwfr].
    apply andb_prop in Hwf. destruct Hwf as [_ Hwfx].
    apply wf_bytes_app. split; [apply fhdr_wf; apply ctype_range|].
    apply wf_bytes_app. split; [|apply IH; exact Hwfr].
    destruct (fval_cases x) as [[b Hb]|(Hfv & _ & _)].
    + subst x. apply wf_bytes_nil.
    + rewrite Hfv. apply Hx. exact Hwfx.
Qed.

Lemma elems_wfb vs :
  Forall val_wfb vs ->
  forall elt, forallb (fun x => elt_matches elt x && wf_tval x) vs = true ->
  wf_bytes (tenc_elems vs).
Proof.
  induction 1 as [|v r Hv Hr IH]; intros elt Hwf.
  - apply wf_bytes_nil.
  - cbn [forallb] in Hwf.
    apply andb_prop in Hwf. destruct Hwf as [Hwf Hwfr].
    apply andb_prop in Hwf. destruct Hwf as [_ Hwfv].
    rewrite tenc_elems_cons. apply wf_bytes_app. split; [apply Hv; exact Hwfv|].
    apply (IH elt). exact Hwfr.
Qed.

Lemma val_wfb_all v : val_wfb v.
Proof.
  induction v as [b|z|z|z|z|bits|bs|elt vs IH|fs IH] using tval_ind';
    unfold val_wfb; intros Hwf.
  - cbn [tenc_val]. apply is_byte_cons; [destruct b; lia | apply wf_bytes_nil].
  - cbn [tenc_val]. apply is_byte_cons; [|apply wf_bytes_nil].
    pose proof (wrapN_bound 8 z) as Hb. change (2 ^ 8) with 256 in Hb. exact Hb.
  - cbn [tenc_val]. apply uleb_enc_wf.
  - cbn [tenc_val]. apply uleb_enc_wf.
  - cbn [tenc_val]. apply uleb_enc_wf.
  - cbn [tenc_val]. apply le_enc_wf.
  - cbn [tenc_val wf_tval] in Hwf |- *. unfold bin_ok in Hwf.
    apply andb_prop in Hwf. destruct Hwf as [Hb _].
    apply wf_bytes_app. split; [apply uleb_enc_wf | apply wf_bytesb_spec; exact Hb].
  - rewrite wf_tval_list in Hwf.
    apply andb_prop in Hwf. destruct Hwf as [Hwf Hall].
    apply andb_prop in Hwf. destruct Hwf as [Hwf _].
    apply andb_prop in Hwf. destruct Hwf as [_ He2]. apply N.leb_le in He2.
    rewrite tenc_val_list. apply wf_bytes_app. split; [apply lhdr_wf; exact He2|].
    apply (elems_wfb vs IH elt). exact Hall.
  - rewrite wf_tval_struct in Hwf. rewrite tenc_val_struct.
    apply (fields_wfb fs IH). exact Hwf.
Qed.

Theorem tenc_struct_wf_bytes fs : wf_fields fs = true -> wf_bytes (tenc_struct fs).
Proof.
  intros Hwf. unfold tenc_struct. apply fields_wfb; [|exact Hwf].
  apply Forall_forall. intros p _. apply val_wfb_all.
Qed.

(** ** Byte strings produced by the library

    [ex_raw*_bytes] are the output of apache/thrift v0.18.1 TCompactProtocol
    driven by hand (WriteStructBegin / WriteFieldBegin / WriteBool / ...) for
    the field lists above them: bool fields, i8, i16, double, list<bool>
    (element type nibble 1, one byte per element), field id deltas of exactly
    15 and 16, the largest field id, nested structs restoring the last field
    id, lists of lists, a 15 element list. *)

Definition ex_raw1 : list (N * tval) :=
  ([(1, TBool true); (2, TI8 (-3)); (3, TI16 (-300)); (4, TDouble 4609434218613702656); (5,
  TList 1 [TBool true; TBool false; TBool true]); (20, TI64 5); (36, TI32 7); (37, TBool false);
  (32767, TBin [1; 2])])%N.
Definition ex_raw1_bytes : bytes :=
  [17; 19; 253; 20; 215; 4; 23; 0; 0; 0; 0; 0; 0; 248; 63; 25; 49; 1; 2; 1; 246; 10; 5; 72; 14;
  18; 8; 254; 255; 3; 2; 1; 2; 0]%N.
Example ex_raw1_enc : tenc_struct ex_raw1 = ex_raw1_bytes.
Proof. vm_compute. reflexivity. Qed.
Example ex_raw1_dec : tdec (ex_raw1_bytes ++ [5]) = Some (ex_raw1, [5]).
Proof. vm_compute. reflexivity. Qed.
Example ex_raw1_wf : wf_fields ex_raw1 = true.
Proof. vm_compute. reflexivity. Qed.

Definition ex_raw2 : list (N * tval) :=
  ([(10, TStruct [(1, TI32 1); (100, TStruct [])]); (11, TList 9 [TList 5 [TI32 1; TI32 (-1)];
  TList 5 []]); (12, TList 7 [TDouble 0; TDouble 13830554455654793216]); (13, TList 3 [TI8 1;
  TI8 2; TI8 3; TI8 4; TI8 5; TI8 6; TI8 7; TI8 8; TI8 9; TI8 10; TI8 11; TI8 12; TI8 13; TI8
  14; TI8 (-128)]); (14, TList 12 [TStruct [(2, TBool true)]; TStruct []])])%N.
Definition ex_raw2_bytes : bytes :=
  [172; 21; 2; 12; 200; 1; 0; 0; 25; 41; 37; 2; 1; 5; 25; 39; 0; 0; 0; 0; 0; 0; 0; 0; 0; 0; 0;
  0; 0; 0; 240; 191; 25; 243; 15; 1; 2; 3; 4; 5; 6; 7; 8; 9; 10; 11; 12; 13; 14; 128; 25; 44;
  33; 0; 0; 0]%N.
Example ex_raw2_enc : tenc_struct ex_raw2 = ex_raw2_bytes.
Proof. vm_compute. reflexivity. Qed.
Example ex_raw2_dec : tdec (ex_raw2_bytes ++ [5]) = Some (ex_raw2, [5]).
Proof. vm_compute. reflexivity. Qed.
Example ex_raw2_wf : wf_fields ex_raw2 = true.
Proof. vm_compute. reflexivity. Qed.

Print Assumptions tdec_tenc.
Print Assumptions tdec_tenc_default.
Print Assumptions tenc_struct_wf_bytes.
