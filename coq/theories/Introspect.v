(** * Introspect: parquet.go ReadMetaData, PageHeaders, PageHeadersAtOffset over
    the explicit source of [Io.v].  Definitions only. *)
From Coq Require Import List NArith ZArith Lia Bool.
From PQ Require Import Bytes Rle MetaTypes Thrift Meta Io.
Import ListNotations.
Local Open Scope io_scope.

(** ReadMetaData *)
Definition read_metadata : M file_meta :=
  m_seek_end (-8) ;;;
  lenb <-- m_read_full 4 ;;
  m_seek_end (- (Z.of_N (le_dec lenb) + 8)) ;;;
  m_read_struct dec_file_meta.

(** Seek(off, io.SeekCurrent) *)
Definition m_seek_cur (off : Z) : M unit :=
  p <-- get_pos ;; m_seek_start (Z.of_N p + off).

(** the loop of PageHeadersAtOffset: [for !readOne || nRead < n] *)
Fixpoint headers_loop (fuel : nat) (n : Z) (read_one : bool) (nread : Z) (acc : list page_header) : M (list page_header) :=
  if negb read_one || (nread <? n)%Z then
    match fuel with
    | O => fail_err
    | S f =>
        ph <-- m_read_struct dec_page_header ;;
        m_seek_cur (ph_compressed_size ph) ;;;
        match ph_data ph with
        | None => fail_panic                       (* ph.DataPageHeader.NumValues on a nil pointer *)
        | Some d => headers_loop f n true (nread + dph_num_values d)%Z (acc ++ [ph])
        end
    end
  else ret acc.

Definition page_headers_at_offset (fuel : nat) (o n : Z) : M (list page_header) :=
  m_seek_start o ;;; headers_loop fuel n (0 <? n)%Z 0 [].

Fixpoint headers_of_chunks (fuel : nat) (ccs : list column_chunk) (acc : list page_header) : M (list page_header) :=
  match ccs with
  | [] => ret acc
  | cc :: rest =>
      match cc_meta cc with
      | None => fail_panic
      | Some cm =>
          hs <-- page_headers_at_offset fuel (cm_data_page_offset cm) (cm_num_values cm) ;;
          headers_of_chunks fuel rest (acc ++ hs)
      end
  end.

(** PageHeaders(footer, r) *)
Definition page_headers (fuel : nat) (fm : file_meta) : M (list page_header) :=
  headers_of_chunks fuel (flat_map rg_columns (fm_row_groups fm)) [].
