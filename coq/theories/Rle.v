(** * Rle: internal/rle/rle.go (+ buf.go) as executable Gallina.
    Encoder: the state machine of [RLE.Write] / [RLE.Bytes]; the write buffer
    is modelled by its logical content [d[:i]] (append, and one-byte overwrite
    at the remembered header position).  Decoder: [RLE.Read] with its quirks
    (signed length, zero-fill of a short bit-packed payload, no trimming).
    Bit-packing goes through [Bitpack.pack]/[unpack], i.e. the tables
    translated from bitpack.go.  Definitions only; proofs in RleEncProofs.v /
    RleDecProofs.v. *)
From Coq Require Import List NArith Lia Bool.
From PQ Require Import Bytes Varint Bitpack.
Import ListNotations.
Local Open Scope N_scope.

Inductive result (A : Type) :=
| Ok (a : A)
| Err        (* the Go function returns a non-nil error *)
| Panic.     (* the Go function panics *)
Arguments Ok {A} a.
Arguments Err {A}.
Arguments Panic {A}.

(** ** Encoder *)

Record rle := {
  r_w : N;                 (* bitWidth *)
  r_out : bytes;           (* out.bytes() *)
  r_prev : N;              (* prev *)
  r_buf : list N;          (* valBuf[0 .. bufCount) *)
  r_rep : N;               (* repeatCount *)
  r_groups : N;            (* groupCount *)
  r_hp : option nat        (* headerPointer; None = -1 *)
}.

Definition rle_new (w : N) : rle :=
  {| r_w := w; r_out := []; r_prev := 0; r_buf := []; r_rep := 0; r_groups := 0; r_hp := None |}.

Definition end_previous_bp (r : rle) : rle :=
  match r_hp r with
  | None => r
  | Some hp =>
      {| r_w := r_w r;
         r_out := update_at hp ((2 * r_groups r + 1) mod 256) (r_out r);
         r_prev := r_prev r; r_buf := r_buf r; r_rep := r_rep r;
         r_groups := 0; r_hp := None |}
  end.

(** [writeOrAppendBitPackedRun]; [vals8] is valBuf (the caller has filled or
    zero-padded it to 8 entries). *)
Definition write_or_append_bp (r : rle) (vals8 : list N) : rle :=
  let r1 := if 63 <=? r_groups r then end_previous_bp r else r in
  let '(out2, hp2) :=
    match r_hp r1 with
    | None => (r_out r1 ++ [0], Some (length (r_out r1)))
    | Some hp => (r_out r1, Some hp)
    end in
  {| r_w := r_w r1;
     r_out := out2 ++ pack (r_w r1) vals8;
     r_prev := r_prev r1; r_buf := []; r_rep := 0;
     r_groups := r_groups r1 + 1; r_hp := hp2 |}.

(** [writeIntLittleEndianPaddedOnBitWidth] for widths 0..16 *)
Definition rle_value_bytes (w v : N) : bytes :=
  match (w + 7) / 8 with
  | 0 => []
  | 1 => [v mod 256]
  | _ => [v mod 256; 0]      (* v is a uint8: v >> 8 = 0 *)
  end.

Definition write_rle_run (r : rle) : rle :=
  let r1 := end_previous_bp r in
  {| r_w := r_w r1;
     r_out := r_out r1 ++ leb128_go (2 * r_rep r1) ++ rle_value_bytes (r_w r1) (r_prev r1);
     r_prev := r_prev r1; r_buf := []; r_rep := 0;
     r_groups := r_groups r1; r_hp := r_hp r1 |}.

Definition rle_push (r : rle) (v : N) : rle :=
  let r1 := {| r_w := r_w r; r_out := r_out r; r_prev := r_prev r; r_buf := r_buf r ++ [v];
               r_rep := r_rep r; r_groups := r_groups r; r_hp := r_hp r |} in
  if Nat.eqb (length (r_buf r1)) 8 then write_or_append_bp r1 (r_buf r1) else r1.

Definition set_rep_prev (r : rle) (rep prev : N) : rle :=
  {| r_w := r_w r; r_out := r_out r; r_prev := prev; r_buf := r_buf r;
     r_rep := rep; r_groups := r_groups r; r_hp := r_hp r |}.

(** [RLE.Write] *)
Definition rle_write (r : rle) (v : N) : rle :=
  if v =? r_prev r then
    let r1 := set_rep_prev r (r_rep r + 1) (r_prev r) in
    if 8 <=? r_rep r1 then r1 else rle_push r1 v
  else
    let r1 := if 8 <=? r_rep r then write_rle_run r else r in
    rle_push (set_rep_prev r1 1 v) v.

(** [RLE.Bytes] *)
Definition rle_flush (r : rle) : rle :=
  if 8 <=? r_rep r then write_rle_run r
  else if negb (Nat.eqb (length (r_buf r)) 0) then
    end_previous_bp (write_or_append_bp r (r_buf r ++ repeat 0 (8 - length (r_buf r))))
  else end_previous_bp r.

Definition rle_bytes (r : rle) : bytes :=
  let out := r_out (rle_flush r) in
  le_enc 4 (nlen out mod 2 ^ 32) ++ out.

(** [writeLevels]: what one level section of a page consists of. *)
Definition rle_encode (w : N) (levels : list N) : bytes :=
  rle_bytes (fold_left rle_write levels (rle_new w)).

(** ** Decoder *)

Fixpoint unpack_all (fuel : nat) (w : N) (raw : bytes) : list N :=
  match fuel with
  | O => []
  | S f =>
      match raw with
      | [] => []
      | _ => unpack w (firstn (N.to_nat w) raw) ++ unpack_all f w (skipn (N.to_nat w) raw)
      end
  end.

(** [readRLEBitPacked] on the remaining bytes [bs] of the section. *)
Definition read_bp (w hdr : N) (bs : bytes) : result (list N * bytes) :=
  let count := (hdr / 2) * 8 in
  if w =? 0 then Ok (repeat 0 (N.to_nat count), bs)
  else
    let byte_count := N.to_nat ((w * count) / 8) in
    match bs with
    | [] => Err                                   (* bytes.Reader.Read at EOF *)
    | _ =>
        let got := firstn byte_count bs in
        let raw := got ++ repeat 0 (byte_count - length got) in   (* short read: zero filled *)
        Ok (unpack_all (S byte_count) w raw, skipn byte_count bs)
    end.

(** [readRLE] *)
Definition read_rle_run (w hdr : N) (bs : bytes) : result (list N * bytes) :=
  let count := hdr / 2 in
  match (w + 7) / 8 with
  | 0 => Ok (repeat 0 (N.to_nat count), bs)
  | 1 =>
      match bs with
      | [] => Err
      | b :: r => Ok (repeat b (N.to_nat count), r)
      end
  | 2 =>
      match bs with
      | [] => Err
      | [b] => Ok (repeat b (N.to_nat count), [])            (* short read: second byte stays 0 *)
      | b0 :: b1 :: r => Ok (repeat ((b1 * 256 + b0) mod 256) (N.to_nat count), r)
      end
  | _ => Err
  end.

Fixpoint rle_loop (fuel : nat) (w : N) (bs : bytes) (acc : list N) : result (list N) :=
  match fuel with
  | O => Err
  | S f =>
      match bs with
      | [] => Ok acc
      | _ =>
          match read_leb128_go bs 0 0 with
          | None => Err
          | Some (hdr, r) =>
              match (if N.even hdr then read_rle_run w hdr r else read_bp w hdr r) with
              | Ok (vals, r') => rle_loop f w r' (acc ++ vals)
              | Err => Err
              | Panic => Panic
              end
          end
      end
  end.

(** [RLE.Read] on an in-memory reader holding [data]: the decoded values
    (untrimmed) and the number of bytes it reports as consumed. *)
Definition rle_read (w : N) (data : bytes) : result (list N * nat) :=
  if Nat.ltb (length data) 4 then Err                 (* binary.Read: EOF / unexpected EOF *)
  else
    let len := le_dec (firstn 4 data) in
    if 2 ^ 31 <=? len then Panic                       (* int32 length negative: make panics *)
    else
      let rest := skipn 4 data in
      let n := N.to_nat len in
      match rest, n with
      | [], S _ => Err                                 (* bytes.Buffer.Read on an empty buffer *)
      | _, _ =>
          let got := firstn n rest in
          let buf := got ++ repeat 0 (n - length got) in
          match rle_loop (S (length buf)) w buf [] with
          | Ok vals => Ok (vals, (n + 4)%nat)
          | Err => Err
          | Panic => Panic
          end
      end.
