(** * IntrospectProofs: the introspection calls of parquet.go (ReadMetaData,
    PageHeadersAtOffset, PageHeaders; model in [Introspect.v]) run on the file
    the writer model produces report exactly what is in that file
    (property C16).

    1. [read_metadata_ok]: the footer the library reports is the footer that
       was written.
    2. [page_headers_at_offset_ok]: for column chunk [j] of row group [i], the
       call with the footer's [data_page_offset] and [num_values] returns one
       header per data page of that chunk, in order, and stops exactly at the
       end of the chunk; [page_headers_at_offset_local]: the same on any file
       that agrees with the written one up to the end of the chunk (the call
       never depends on a byte past the chunk).
    3. [page_headers_ok]: PageHeaders returns the headers of all pages in
       row-group, column, page order.

    Introspection never decompresses: the only parameter is [compress]. *)
From Coq Require Import List NArith ZArith Lia Bool Arith PeanoNat.
From Coq Require Import ZifyN ZifyNat ZifyBool.
From PQ Require Import Bytes Schema Dremel DremelProofs Rle Plain PlainProofs Stats StatsProofs
     MetaTypes Thrift Meta MetaProofs Writer WriterProofs Io Reader ReaderProofs ReaderProofs2 Introspect.
Import ListNotations.
Local Open Scope N_scope.

Ltac Zify.zify_post_hook ::= Z.div_mod_to_equations.

(** ** List facts *)

Lemma Forall2_nth_intro {A B} (R : A -> B -> Prop) : forall l l',
  length l = length l' ->
  (forall i x y, nth_error l i = Some x -> nth_error l' i = Some y -> R x y) ->
  Forall2 R l l'.
Proof.
  induction l as [|a l IH]; intros [|b l'] Hlen H; cbn [length] in Hlen; try discriminate; constructor.
  - apply (H 0%nat); reflexivity.
  - apply IH; [lia|]. intros i x y Hx Hy. apply (H (S i)); assumption.
Qed.

Lemma Forall2_same_length {A B} (R : A -> B -> Prop) l l' : Forall2 R l l' -> length l = length l'.
Proof. induction 1 as [|x y l l' Hxy Hrest IH]; cbn [length]; [reflexivity | rewrite IH; reflexivity]. Qed.

Lemma Forall2_flat_map {A B C D} (R : C -> D -> Prop) (g : A -> list C) (h : B -> list D) xs ys :
  Forall2 (fun x y => Forall2 R (g x) (h y)) xs ys -> Forall2 R (flat_map g xs) (flat_map h ys).
Proof.
  induction 1 as [|x y xs ys Hxy Hrest IH]; cbn [flat_map]; [constructor|].
  apply Forall2_app; assumption.
Qed.

Lemma concat_flat_map_map {A B C} (g : A -> B -> list C) (ys : list B) (xs : list A) :
  concat (flat_map (fun x => map (g x) ys) xs) = flat_map (fun x => flat_map (g x) ys) xs.
Proof.
  induction xs as [|x xs IH]; [reflexivity|].
  cbn [flat_map]. rewrite concat_app, IH, <- flat_map_concat_map. reflexivity.
Qed.

Lemma index_from_length {A} (l : list A) k : length (index_from k l) = length l.
Proof.
  rewrite <- (map_length fst), ReaderProofs2.index_from_fst, seq_length. reflexivity.
Qed.

Lemma chunk_fuel_length {A} n : forall fuel (l : list A), (length (chunk_fuel fuel n l) <= fuel)%nat.
Proof.
  induction fuel as [|f IH]; intros l; [cbn [chunk_fuel length]; lia|].
  destruct l as [|x l]; cbn [chunk_fuel length]; [lia|]. specialize (IH (skipn n (x :: l))). lia.
Qed.

(** the page chain of a batch has at most one page per record *)
Lemma chunk_length_le {A} n (l : list A) : (length (chunk n l) <= length l)%nat.
Proof. unfold chunk. apply chunk_fuel_length. Qed.

Lemma chunk_not_nil {A} n (l : list A) : l <> [] -> chunk n l <> [].
Proof. intros Hl. destruct l as [|x l]; [congruence|]. unfold chunk. cbn [length chunk_fuel]. discriminate. Qed.

(** ** Seek(off, io.SeekCurrent) *)

Lemma m_seek_cur_ok off s :
  s_fail s = None -> (0 <= off)%Z ->
  exists s', m_seek_cur off s = Ok (tt, s') /\ adv s (Z.to_nat off) s'.
Proof.
  intros Hfail Hoff. unfold m_seek_cur, get_pos, bind. cbv beta iota.
  destruct (m_seek_start_ok (Z.of_N (s_pos s) + off) s Hfail) as (s' & Hs & Hf & Hn & Hp); [lia|].
  exists s'. split; [exact Hs|]. unfold adv. rewrite Hf, Hp. repeat split; auto. lia.
Qed.

Section WithCodec.

Variable compress : Z -> bytes -> bytes.

(** ** One page header (as in ReaderProofs, without the decompressor) *)

Lemma page_strs_w codec c es :
  page_pre compress codec c es -> Forall (fun v => nlen (str_of v) < 2 ^ 31) (entry_vals es).
Proof.
  intros Hpre. destruct (c_prim c) eqn:Hp;
    try (apply (non_string_strs (c_prim c)); [rewrite Hp; discriminate | exact (pp_typed _ _ _ _ Hpre)]).
  apply Forall_forall. intros v Hv.
  pose proof (str_len_le_plain _ _ Hv) as H1.
  pose proof (page_payload_plain_le c es) as H2. rewrite Hp in H2.
  pose proof (pp_payload _ _ _ _ Hpre) as H3. lia.
Qed.

Lemma make_page_header_ok_w codec c es :
  page_pre compress codec c es -> page_header_ok (pg_header (make_page compress codec c es)) = true.
Proof.
  intros Hpre. pose proof (pp_count _ _ _ _ Hpre) as Hcount.
  unfold make_page. cbv zeta. cbn [pg_header]. unfold page_header_ok.
  cbn [ph_type ph_uncompressed_size ph_compressed_size ph_crc ph_data ph_index ph_dict ph_data_v2 opt_ok].
  rewrite !i32_ok_i32. unfold data_page_header_ok.
  cbn [dph_num_values dph_encoding dph_def_encoding dph_rep_encoding dph_statistics opt_ok].
  rewrite i32_ok_i32, page_stats_ok.
  - reflexivity.
  - exact (pp_typed _ _ _ _ Hpre).
  - exact (page_strs_w _ _ _ Hpre).
  - lia.
Qed.

Lemma read_page_header_w codec c es s rest :
  page_pre compress codec c es -> s_fail s = None ->
  rem s = pg_header_bytes (make_page compress codec c es) ++ rest ->
  exists s', m_read_struct dec_page_header s = Ok (pg_header (make_page compress codec c es), s') /\
             adv s (length (pg_header_bytes (make_page compress codec c es))) s'.
Proof.
  intros Hpre Hfail Hrem. eapply m_read_struct_ok; [exact Hfail | exact Hrem |].
  change (pg_header_bytes (make_page compress codec c es))
    with (enc_page_header (pg_header (make_page compress codec c es))).
  apply dec_enc_page_header, make_page_header_ok_w, Hpre.
Qed.

Definition hdr_of (codec : Z) (c : col) (es : list entry) : page_header :=
  pg_header (make_page compress codec c es).

(** ** The loop of PageHeadersAtOffset *)

(** one iteration: read the header, Seek(CompressedPageSize, SeekCurrent) skips
    exactly the page body, nRead grows by the page's entries *)
Lemma headers_loop_step codec c es s rest f n ro nread acc :
  page_pre compress codec c es -> s_fail s = None ->
  rem s = page_bytes (make_page compress codec c es) ++ rest ->
  (nread < n)%Z ->
  exists s',
    headers_loop (S f) n ro nread acc s =
    headers_loop f n true (nread + Z.of_nat (length es)) (acc ++ [hdr_of codec c es]) s' /\
    adv s (length (page_bytes (make_page compress codec c es))) s'.
Proof.
  intros Hpre Hfail Hrem Hlt. unfold page_bytes in Hrem. rewrite <- app_assoc in Hrem.
  pose proof (pp_count _ _ _ _ Hpre) as Hcount. pose proof (pp_body _ _ _ _ Hpre) as Hbody.
  cbn [headers_loop]. replace (nread <? n)%Z with true by lia. rewrite orb_true_r.
  destruct (read_page_header_w codec c es s _ Hpre Hfail Hrem) as (s1 & Hh & Hadv1).
  rewrite (bind_ok _ _ _ _ _ Hh). cbv beta.
  assert (Hcs : ph_compressed_size (pg_header (make_page compress codec c es)) =
                Z.of_nat (length (pg_body (make_page compress codec c es)))).
  { cbn [make_page pg_header ph_compressed_size pg_body]. rewrite i32_small by exact Hbody.
    unfold nlen. lia. }
  destruct (m_seek_cur_ok (ph_compressed_size (pg_header (make_page compress codec c es))) s1
              (adv_fail _ _ _ Hadv1)) as (s2 & Hsk & Hadv2); [lia|].
  rewrite (bind_ok _ _ _ _ _ Hsk). cbv beta.
  rewrite Hcs, Nat2Z.id in Hadv2.
  change (ph_data (pg_header (make_page compress codec c es))) with (Some (page_dph codec c es)).
  cbv iota.
  assert (Hnv : dph_num_values (page_dph codec c es) = Z.of_nat (length es)).
  { cbn [page_dph dph_num_values]. rewrite i32_small by (rewrite pow31 in *; lia). unfold nlen. lia. }
  rewrite Hnv. exists s2. split; [reflexivity|].
  rewrite page_bytes_length. exact (adv_trans _ _ _ _ _ Hadv1 Hadv2).
Qed.

(** the loop over the pages of one chunk: it stops after the last page because
    every page holds at least one entry and the entries sum to [n] *)
Lemma headers_loop_ok codec c : forall ess s rest f n ro nread acc,
  Forall (page_pre compress codec c) ess -> s_fail s = None ->
  rem s = ReaderProofs.chunk_bytes compress codec c ess ++ rest ->
  n = (nread + Z.of_nat (length (concat ess)))%Z ->
  (ess = [] -> ro = true) ->
  (length ess <= f)%nat ->
  exists s',
    headers_loop f n ro nread acc s = Ok (acc ++ map (hdr_of codec c) ess, s') /\
    adv s (length (ReaderProofs.chunk_bytes compress codec c ess)) s'.
Proof.
  induction ess as [|es ess IH]; intros s rest f n ro nread acc Hpre Hfail Hrem Hn Hro Hfuel.
  - exists s. cbn [concat map length] in *. rewrite app_nil_r. split; [|apply adv_refl; exact Hfail].
    rewrite (Hro eq_refl).
    destruct f; cbn [headers_loop negb orb]; replace (nread <? n)%Z with false by lia; reflexivity.
  - inversion Hpre as [|es' ess' Hes Hess]; subst es' ess'.
    destruct f as [|f]; [cbn [length] in Hfuel; lia|].
    rewrite ReaderProofs.chunk_bytes_cons, <- app_assoc in Hrem.
    assert (Hpos : (1 <= length es)%nat).
    { pose proof (pp_nonempty _ _ _ _ Hes) as Hne. destruct es; [congruence | cbn [length]; lia]. }
    cbn [concat] in Hn. rewrite app_length in Hn.
    destruct (headers_loop_step codec c es s _ f n ro nread acc Hes Hfail Hrem) as (s1 & Hstep & Hadv1); [lia|].
    rewrite Hstep.
    destruct (IH s1 rest f n true (nread + Z.of_nat (length es))%Z (acc ++ [hdr_of codec c es]))
      as (s2 & Hrun & Hadv2).
    + exact Hess.
    + exact (adv_fail _ _ _ Hadv1).
    + exact (rem_adv_app _ _ _ _ Hrem Hadv1).
    + lia.
    + reflexivity.
    + cbn [length] in Hfuel. lia.
    + exists s2. rewrite Hrun. cbn [map]. rewrite <- app_assoc. split; [reflexivity|].
      rewrite ReaderProofs.chunk_bytes_cons, app_length. exact (adv_trans _ _ _ _ _ Hadv1 Hadv2).
Qed.

(** PageHeadersAtOffset on a file that has the pages [ess] of column [c] at
    offset [|pre|] *)
Lemma headers_at_chunk codec c ess pre post fuel s0 :
  Forall (page_pre compress codec c) ess -> ess <> [] ->
  s_fail s0 = None ->
  s_file s0 = pre ++ ReaderProofs.chunk_bytes compress codec c ess ++ post ->
  (length ess <= fuel)%nat ->
  exists s',
    page_headers_at_offset fuel (Z.of_N (nlen pre)) (Z.of_N (nlen (concat ess))) s0 =
      Ok (map (hdr_of codec c) ess, s') /\
    s_fail s' = None /\ s_file s' = s_file s0 /\
    s_pos s' = nlen pre + nlen (ReaderProofs.chunk_bytes compress codec c ess).
Proof.
  intros Hpre Hne Hfail Hfile Hfuel. unfold page_headers_at_offset.
  destruct (m_seek_start_ok (Z.of_N (nlen pre)) s0 Hfail) as (s1 & Hsk & Hf1 & Hn1 & Hp1); [lia|].
  rewrite (bind_ok _ _ _ _ _ Hsk).
  assert (Hrem1 : rem s1 = ReaderProofs.chunk_bytes compress codec c ess ++ post).
  { apply (rem_at s1 pre); [rewrite Hf1; exact Hfile | rewrite Hp1; lia]. }
  destruct (headers_loop_ok codec c ess s1 post fuel (Z.of_N (nlen (concat ess)))
              (0 <? Z.of_N (nlen (concat ess)))%Z 0%Z [] Hpre Hn1 Hrem1) as (s2 & Hrun & Hadv).
  - unfold nlen. lia.
  - intros E. congruence.
  - exact Hfuel.
  - exists s2. rewrite Hrun. cbn [app]. split; [reflexivity|].
    destruct Hadv as (Hf2 & Hn2 & Hp2). split; [exact Hn2|]. split; [rewrite Hf2; exact Hf1|].
    rewrite Hp2, Hp1. unfold nlen. lia.
Qed.

(** ** 1. ReadMetaData *)

(** the footer that was written *)
Definition written_footer (cfg : config) (bs : list (list value)) : file_meta :=
  footer_meta cfg (map (fun b => snd (write_batch compress cfg b)) bs).

Lemma written_footer_eq cfg bs : written_footer cfg bs = footer compress cfg bs.
Proof. unfold written_footer, footer, batch_rgs. rewrite map_map. reflexivity. Qed.

Lemma read_metadata_at cfg bs s0 :
  footer_ok compress cfg bs ->
  s_fail s0 = None -> s_file s0 = file_of_batches compress cfg bs ->
  exists s', read_metadata s0 = Ok (written_footer cfg bs, s') /\
             s_fail s' = None /\ s_file s' = s_file s0 /\
             s_pos s' + 8 = nlen (s_file s0).
Proof.
  intros [Hfm Hlen] Hfail Hfile. rewrite written_footer_eq. rewrite file_layout in Hfile.
  set (D := data_bytes compress cfg bs) in *. set (ft := enc_file_meta (footer compress cfg bs)) in *.
  set (le4 := footer_len_bytes compress cfg bs) in *.
  assert (Hle4 : length le4 = 4%nat) by apply le_enc_length.
  assert (HlenF : nlen (s_file s0) = 4 + nlen D + nlen ft + 4 + 4).
  { rewrite Hfile. unfold nlen. rewrite !app_length, Hle4, magic_length. lia. }
  unfold read_metadata.
  (* Seek(-8, SeekEnd) *)
  destruct (m_seek_end_ok (-8) s0 Hfail) as (s1 & H1 & Hf1 & Hn1 & Hp1); [lia|].
  rewrite (bind_ok _ _ _ _ _ H1).
  assert (Hrem1 : rem s1 = le4 ++ magic).
  { apply (rem_at s1 (magic ++ D ++ ft)).
    - rewrite Hf1, Hfile, <- !app_assoc. reflexivity.
    - rewrite Hp1, HlenF. unfold nlen. rewrite !app_length, magic_length. lia. }
  (* the 4-byte footer length *)
  destruct (m_read_full_ok s1 le4 magic Hn1 Hrem1) as (s2 & H2 & Hadv2). rewrite Hle4 in H2.
  rewrite (bind_ok _ _ _ _ _ H2). cbv beta.
  assert (Hdec : le_dec le4 = nlen ft).
  { unfold le4, footer_len_bytes. fold ft. rewrite le_dec_enc.
    - apply N.mod_small. exact Hlen.
    - rewrite pow256_4. rewrite pow32 in Hlen |- *. lia. }
  rewrite Hdec. destruct Hadv2 as (Hf2 & Hn2 & _).
  (* Seek(-(len+8), SeekEnd) *)
  destruct (m_seek_end_ok (- (Z.of_N (nlen ft) + 8)) s2 Hn2) as (s3 & H3 & Hf3 & Hn3 & Hp3).
  { rewrite Hf2, Hf1, HlenF. lia. }
  rewrite (bind_ok _ _ _ _ _ H3).
  assert (Hrem3 : rem s3 = ft ++ le4 ++ magic).
  { apply (rem_at s3 (magic ++ D)).
    - rewrite Hf3, Hf2, Hf1, Hfile, <- !app_assoc. reflexivity.
    - rewrite Hp3, Hf2, Hf1, HlenF. unfold nlen. rewrite !app_length, magic_length. lia. }
  (* the footer *)
  destruct (m_read_struct_ok dec_file_meta s3 (footer compress cfg bs) ft (le4 ++ magic) Hn3 Hrem3)
    as (s4 & H4 & Hadv4).
  { apply dec_enc_file_meta. exact Hfm. }
  exists s4. split; [exact H4|]. destruct Hadv4 as (Hf4 & Hn4 & Hp4).
  split; [exact Hn4|]. split; [rewrite Hf4, Hf3, Hf2, Hf1; reflexivity|].
  rewrite Hp4, Hp3, Hf2, Hf1, HlenF. unfold nlen. lia.
Qed.

(** ReadMetaData on the written file returns the written footer (and leaves the
    source positioned right after it, 8 bytes before the end), whatever the
    fragmentation schedule *)
Theorem read_metadata_ok cfg bs sched :
  footer_ok compress cfg bs ->
  exists s', read_metadata (mk_src (file_of_batches compress cfg bs) sched None) =
               Ok (footer_meta cfg (map (fun b => snd (write_batch compress cfg b)) bs), s') /\
             s_fail s' = None /\ s_file s' = file_of_batches compress cfg bs /\
             s_pos s' + 8 = nlen (file_of_batches compress cfg bs).
Proof.
  intros Hft.
  exact (read_metadata_at cfg bs (mk_src (file_of_batches compress cfg bs) sched None) Hft eq_refl eq_refl).
Qed.

(** ** 2. PageHeadersAtOffset on one column chunk *)

Lemma writer_reader_chunk_bytes cfg j c b :
  WriterProofs.chunk_bytes (column_pages compress cfg j c b) =
  ReaderProofs.chunk_bytes compress (cfg_codec cfg) c (col_ess cfg j b).
Proof.
  unfold WriterProofs.chunk_bytes, page_writes, ReaderProofs.chunk_bytes.
  rewrite ReaderProofs2.concat_page_writes, column_pages_eq, map_map. reflexivity.
Qed.

Lemma column_pages_headers cfg j c b :
  map pg_header (column_pages compress cfg j c b) = map (hdr_of (cfg_codec cfg) c) (col_ess cfg j b).
Proof. rewrite column_pages_eq, map_map. reflexivity. Qed.

Lemma column_pages_length cfg j c b : length (column_pages compress cfg j c b) = length (chunk (cfg_max cfg) b).
Proof. unfold column_pages. apply map_length. Qed.

(** the file position right after the chunk described by [cm] *)
Definition chunk_end (cm : column_meta) : nat :=
  Z.to_nat (cm_data_page_offset cm + cm_total_compressed cm).

(** what a call of PageHeadersAtOffset with the metadata [cm] does on any
    fault-free source whose file agrees with [F] up to the end of the chunk
    (whatever follows: the call does not depend on anything past the chunk) *)
Definition chunk_call_ok (F : bytes) (fuel : nat) (cm : column_meta) (hs : list page_header) : Prop :=
  forall s0 tail, s_fail s0 = None -> s_file s0 = firstn (chunk_end cm) F ++ tail ->
  exists s', page_headers_at_offset fuel (cm_data_page_offset cm) (cm_num_values cm) s0 = Ok (hs, s') /\
             s_fail s' = None /\ s_file s' = s_file s0 /\
             Z.of_N (s_pos s') = (cm_data_page_offset cm + cm_total_compressed cm)%Z.

Lemma chunk_call_nth cfg bs i j b c fuel :
  cfg_ok cfg -> batch_ok compress cfg b ->
  nth_error bs i = Some b -> nth_error (columns (cfg_fields cfg)) j = Some c ->
  (length (chunk (cfg_max cfg) b) <= fuel)%nat ->
  exists rg cc cm,
    nth_error (fm_row_groups (written_footer cfg bs)) i = Some rg /\
    nth_error (rg_columns rg) j = Some cc /\ cc_meta cc = Some cm /\
    chunk_call_ok (file_of_batches compress cfg bs) fuel cm (map pg_header (column_pages compress cfg j c b)).
Proof.
  intros Hcfg Hb Hi Hj Hfuel.
  pose proof (footer_chunk_nth compress cfg bs i j b c Hi Hj) as Hft. cbv zeta in Hft.
  destruct Hft as (rg & Hrg & _ & _ & Hcc).
  destruct (file_split compress cfg bs i j b c Hi Hj) as (pre & post & Hfile & Hpre).
  exists rg. eexists. eexists. split; [exact Hrg|]. split; [exact Hcc|]. split; [reflexivity|].
  intros s0 tail Hfail HF. unfold chunk_end in HF.
  cbn [cc_meta cm_data_page_offset cm_num_values cm_total_compressed] in HF |- *.
  destruct (chunk_of_pages_counts compress cfg b j c) as [Hnv Htc]. rewrite Hnv, Htc. rewrite Htc in HF.
  unfold col_bytes in HF |- *. cbn [fst snd] in HF |- *. rewrite <- Hpre in HF |- *.
  rewrite writer_reader_chunk_bytes in Hfile.
  set (ch := ReaderProofs.chunk_bytes compress (cfg_codec cfg) c (col_ess cfg j b)) in *.
  assert (Hk : Z.to_nat (Z.of_N (nlen pre) + Z.of_N (nlen ch)) = length (pre ++ ch)).
  { rewrite app_length. unfold nlen. lia. }
  rewrite Hk, Hfile, app_assoc, firstn_app_exact, <- app_assoc in HF.
  pose proof (col_pages_pre compress cfg b j c Hcfg Hb Hj) as Hpages.
  destruct Hcfg as (Hmax & _). destruct Hb as (Hne & _).
  destruct (headers_at_chunk (cfg_codec cfg) c (col_ess cfg j b) pre tail fuel s0 Hpages) as (s' & Hrun & Hn & Hf & Hp).
  - unfold col_ess. intros E. apply map_eq_nil in E. exact (chunk_not_nil (cfg_max cfg) b Hne E).
  - exact Hfail.
  - exact HF.
  - unfold col_ess. rewrite map_length. exact Hfuel.
  - exists s'. rewrite column_pages_headers. split; [exact Hrun|]. split; [exact Hn|].
    split; [exact Hf|]. rewrite Hp. fold ch. lia.
Qed.

(** For the [j]-th column chunk of the [i]-th row group of the written footer:
    PageHeadersAtOffset(data_page_offset, num_values) returns exactly the
    headers of that chunk's data pages, in order, and ends positioned exactly
    at the end of the chunk ([data_page_offset + total_compressed_size]).
    Locality: the same holds on every file that agrees with the written one up
    to the end of the chunk, whatever follows ([tail] arbitrary, e.g. empty):
    the call never depends on a byte past the chunk. *)
Theorem page_headers_at_offset_local cfg bs i j b c rg cc cm fuel s0 tail :
  cfg_ok cfg -> batch_ok compress cfg b ->
  nth_error bs i = Some b -> nth_error (columns (cfg_fields cfg)) j = Some c ->
  nth_error (fm_row_groups (footer_meta cfg (map (fun b => snd (write_batch compress cfg b)) bs))) i = Some rg ->
  nth_error (rg_columns rg) j = Some cc -> cc_meta cc = Some cm ->
  (length (column_pages compress cfg j c b) <= fuel)%nat ->
  s_fail s0 = None ->
  s_file s0 = firstn (chunk_end cm) (file_of_batches compress cfg bs) ++ tail ->
  exists s', page_headers_at_offset fuel (cm_data_page_offset cm) (cm_num_values cm) s0 =
               Ok (map pg_header (column_pages compress cfg j c b), s') /\
             s_fail s' = None /\ s_file s' = s_file s0 /\
             Z.of_N (s_pos s') = (cm_data_page_offset cm + cm_total_compressed cm)%Z.
Proof.
  intros Hcfg Hb Hi Hj Hrg Hcc Hcm Hfuel Hfail Hfile. rewrite column_pages_length in Hfuel.
  destruct (chunk_call_nth cfg bs i j b c fuel Hcfg Hb Hi Hj Hfuel) as (rg' & cc' & cm' & Hrg' & Hcc' & Hcm' & Hcall).
  unfold written_footer in Hrg'. rewrite Hrg in Hrg'. injection Hrg' as <-.
  rewrite Hcc in Hcc'. injection Hcc' as <-. rewrite Hcm in Hcm'. injection Hcm' as <-.
  exact (Hcall s0 tail Hfail Hfile).
Qed.

(** the call on the written file itself *)
Theorem page_headers_at_offset_ok cfg bs i j b c rg cc cm fuel s0 :
  cfg_ok cfg -> batch_ok compress cfg b ->
  nth_error bs i = Some b -> nth_error (columns (cfg_fields cfg)) j = Some c ->
  nth_error (fm_row_groups (footer_meta cfg (map (fun b => snd (write_batch compress cfg b)) bs))) i = Some rg ->
  nth_error (rg_columns rg) j = Some cc -> cc_meta cc = Some cm ->
  (length (column_pages compress cfg j c b) <= fuel)%nat ->
  s_fail s0 = None -> s_file s0 = file_of_batches compress cfg bs ->
  exists s', page_headers_at_offset fuel (cm_data_page_offset cm) (cm_num_values cm) s0 =
               Ok (map pg_header (column_pages compress cfg j c b), s') /\
             s_fail s' = None /\ s_file s' = file_of_batches compress cfg bs /\
             Z.of_N (s_pos s') = (cm_data_page_offset cm + cm_total_compressed cm)%Z.
Proof.
  intros Hcfg Hb Hi Hj Hrg Hcc Hcm Hfuel Hfail Hfile.
  destruct (page_headers_at_offset_local cfg bs i j b c rg cc cm fuel s0
              (skipn (chunk_end cm) (file_of_batches compress cfg bs)) Hcfg Hb Hi Hj Hrg Hcc Hcm Hfuel Hfail)
    as (s' & Hrun & Hn & Hf & Hp).
  - rewrite firstn_skipn. exact Hfile.
  - exists s'. split; [exact Hrun|]. split; [exact Hn|]. split; [rewrite Hf; exact Hfile | exact Hp].
Qed.

(** ** 3. PageHeaders *)

(** the expected headers of column [ic] of batch [b] *)
Definition chunk_headers (cfg : config) (b : list value) (ic : nat * col) : list page_header :=
  map pg_header (column_pages compress cfg (fst ic) (snd ic) b).

Definition all_headers (cfg : config) (bs : list (list value)) : list page_header :=
  flat_map (fun b => flat_map (fun '(j, c) => map pg_header (column_pages compress cfg j c b))
                              (index_from 0 (columns (cfg_fields cfg)))) bs.

Definition chunk_reports (F : bytes) (fuel : nat) (hs : list page_header) (cc : column_chunk) : Prop :=
  exists cm, cc_meta cc = Some cm /\ chunk_call_ok F fuel cm hs.

Lemma headers_of_chunks_ok F fuel : forall hss ccs acc s,
  Forall2 (chunk_reports F fuel) hss ccs -> s_fail s = None -> s_file s = F ->
  exists s', headers_of_chunks fuel ccs acc s = Ok (acc ++ concat hss, s') /\
             s_fail s' = None /\ s_file s' = F.
Proof.
  intros hss ccs acc s Hrel. revert acc s.
  induction Hrel as [|hs cc hss ccs' Hcc Hrel' IH]; intros acc s Hfail Hfile.
  - exists s. cbn [headers_of_chunks concat]. rewrite app_nil_r. split; [reflexivity|]. split; assumption.
  - destruct Hcc as (cm & Hmeta & Hcall). cbn [headers_of_chunks]. rewrite Hmeta.
    destruct (Hcall s (skipn (chunk_end cm) F) Hfail) as (s1 & Hrun & Hn1 & Hf1 & _).
    { rewrite firstn_skipn. exact Hfile. }
    rewrite (bind_ok _ _ _ _ _ Hrun). cbv beta. rewrite Hfile in Hf1.
    destruct (IH (acc ++ hs) s1 Hn1 Hf1) as (s2 & Hrest & Hn2 & Hf2).
    exists s2. rewrite Hrest. cbn [concat]. rewrite <- app_assoc. split; [reflexivity|]. split; assumption.
Qed.

Lemma footer_chunks_report cfg bs fuel :
  cfg_ok cfg -> Forall (batch_ok compress cfg) bs ->
  Forall (fun b => (length (chunk (cfg_max cfg) b) <= fuel)%nat) bs ->
  Forall2 (chunk_reports (file_of_batches compress cfg bs) fuel)
    (flat_map (fun b => map (chunk_headers cfg b) (index_from 0 (columns (cfg_fields cfg)))) bs)
    (flat_map rg_columns (fm_row_groups (written_footer cfg bs))).
Proof.
  intros Hcfg Hbs Hfuel. apply Forall2_flat_map. apply Forall2_nth_intro.
  - unfold written_footer. rewrite footer_row_groups_length. reflexivity.
  - intros i b rg Hi Hrg.
    rewrite Forall_forall in Hbs, Hfuel.
    pose proof (Hbs b (nth_error_In _ _ Hi)) as Hb. pose proof (Hfuel b (nth_error_In _ _ Hi)) as Hfb.
    assert (Hm : rg_matches compress cfg b rg).
    { pose proof (row_groups_rel compress cfg bs 4) as Hrel.
      apply (Forall2_nth_error _ _ _ i b rg Hrel Hi).
      rewrite written_footer_eq in Hrg. exact Hrg. }
    apply Forall2_nth_intro.
    + rewrite map_length. exact (Forall2_same_length _ _ _ (rg_matches_rel compress cfg b rg Hm)).
    + intros j hs cc Hhs Hcc.
      assert (Hjlt : (j < length (columns (cfg_fields cfg)))%nat).
      { rewrite <- (index_from_length _ 0%nat), <- (map_length (chunk_headers cfg b)).
        apply nth_error_Some. congruence. }
      destruct (nth_error_lt j _ Hjlt) as (c & Hj).
      rewrite nth_error_map, (index_from_nth _ 0%nat j c Hj) in Hhs. cbn [option_map Nat.add] in Hhs.
      injection Hhs as <-.
      destruct (chunk_call_nth cfg bs i j b c fuel Hcfg Hb Hi Hj Hfb)
        as (rg' & cc' & cm & Hrg' & Hcc' & Hcm & Hcall).
      rewrite Hrg in Hrg'. injection Hrg' as <-. rewrite Hcc in Hcc'. injection Hcc' as <-.
      exists cm. split; [exact Hcm | exact Hcall].
Qed.

Lemma all_headers_eq cfg bs :
  concat (flat_map (fun b => map (chunk_headers cfg b) (index_from 0 (columns (cfg_fields cfg)))) bs) =
  all_headers cfg bs.
Proof.
  rewrite concat_flat_map_map. unfold all_headers. apply flat_map_ext. intros b.
  apply flat_map_ext. intros [j c]. reflexivity.
Qed.

(** PageHeaders(footer, r) on the written file, with the written footer,
    returns the headers of all data pages: row groups in order, within a row
    group the columns in schema order, within a column chunk the pages in order.
    [fuel] bounds the pages of one chunk (a batch of [n] records has
    [ceil (n / cfg_max)] pages per column, see [chunk_length_le]). *)
Theorem page_headers_ok cfg bs fuel s0 :
  cfg_ok cfg -> Forall (batch_ok compress cfg) bs ->
  Forall (fun b => (length (chunk (cfg_max cfg) b) <= fuel)%nat) bs ->
  s_fail s0 = None -> s_file s0 = file_of_batches compress cfg bs ->
  exists s',
    page_headers fuel (footer_meta cfg (map (fun b => snd (write_batch compress cfg b)) bs)) s0 =
      Ok (flat_map (fun b => flat_map (fun '(j, c) => map pg_header (column_pages compress cfg j c b))
                                      (index_from 0 (columns (cfg_fields cfg)))) bs, s') /\
    s_fail s' = None /\ s_file s' = file_of_batches compress cfg bs.
Proof.
  intros Hcfg Hbs Hfuel Hfail Hfile. unfold page_headers.
  destruct (headers_of_chunks_ok _ fuel _ _ [] s0 (footer_chunks_report cfg bs fuel Hcfg Hbs Hfuel) Hfail Hfile)
    as (s' & Hrun & Hn & Hf).
  exists s'. split; [|split; assumption].
  unfold written_footer in Hrun. rewrite Hrun. cbn [app]. rewrite all_headers_eq. reflexivity.
Qed.

(** ** C16: ReadMetaData followed by PageHeaders on the footer it returned *)
Theorem introspect_ok cfg bs sched fuel :
  cfg_ok cfg -> Forall (batch_ok compress cfg) bs -> footer_ok compress cfg bs ->
  Forall (fun b => (length b <= fuel)%nat) bs ->
  exists s1 s2,
    read_metadata (mk_src (file_of_batches compress cfg bs) sched None) = Ok (written_footer cfg bs, s1) /\
    page_headers fuel (written_footer cfg bs) s1 = Ok (all_headers cfg bs, s2).
Proof.
  intros Hcfg Hbs Hft Hfuel.
  destruct (read_metadata_ok cfg bs sched Hft) as (s1 & Hrd & Hn1 & Hf1 & _).
  destruct (page_headers_ok cfg bs fuel s1 Hcfg Hbs) as (s2 & Hph & _); [|exact Hn1|exact Hf1|].
  - eapply Forall_impl; [|exact Hfuel]. intros b Hb. cbv beta in *.
    pose proof (chunk_length_le (cfg_max cfg) b). lia.
  - exists s1, s2. split; [exact Hrd | exact Hph].
Qed.

End WithCodec.

(** ** The three calls on a tiny configuration: identity codec; one optional
    int32 column and one required string column; one record per page; two row
    groups (two pages per chunk, then one) *)
Module Example.
Definition cid (c : Z) (b : bytes) : bytes := b.
Definition fs0 : list field := [ ([97], Opt, TLeaf PInt32); ([99], Req, TLeaf PString) ].
Definition cfg0 : config := {| cfg_fields := fs0; cfg_max := 1; cfg_codec := CODEC_UNCOMPRESSED |}.
Definition rA : value := VGroup [VNum 5; VStr [1; 2; 3]].
Definition rB : value := VGroup [VNull; VStr []].
Definition bs0 : list (list value) := [[rA; rB]; [rA]].
Definition file0 : bytes := file_of_batches cid cfg0 bs0.
Definition fm0 : file_meta := written_footer cid cfg0 bs0.
Definition colA : col := {| c_path := [[97]]; c_reps := [Opt]; c_prim := PInt32 |}.
Definition colC : col := {| c_path := [[99]]; c_reps := [Req]; c_prim := PString |}.

Example hyps_hold :
  cfg_okb cfg0 = true /\ forallb (batch_okb cid cfg0) bs0 = true /\ footer_okb cid cfg0 bs0 = true.
Proof. vm_compute. repeat split. Qed.

Example columns_eval : columns fs0 = [colA; colC].
Proof. vm_compute. reflexivity. Qed.

(** by evaluation: ReadMetaData under a fragmenting schedule *)
Example read_metadata_eval :
  match read_metadata (mk_src file0 [1; 2; 3]%nat None) with
  | Ok (fm, s) => fm = fm0 /\ s_pos s + 8 = nlen file0
  | _ => False
  end.
Proof. vm_compute. split; reflexivity. Qed.

(** the footer's (data_page_offset, num_values, total_compressed_size) per chunk *)
Example footer_chunks_eval :
  map (fun rg => map (fun cc => match cc_meta cc with
                                | Some cm => (cm_data_page_offset cm, cm_num_values cm, cm_total_compressed cm)
                                | None => (0, 0, 0)%Z
                                end) (rg_columns rg)) (fm_row_groups fm0) =
  [[(4, 2, 70); (74, 2, 63)]; [(137, 1, 43); (180, 1, 36)]]%Z.
Proof. vm_compute. reflexivity. Qed.

(** by evaluation: PageHeadersAtOffset on the string column of row group 0: two
    headers, and the position afterwards is the start of the next chunk *)
Example page_headers_at_offset_eval :
  match page_headers_at_offset 2 74 2 (mk_src file0 [] None) with
  | Ok (hs, s) => hs = map pg_header (column_pages cid cfg0 1 colC [rA; rB]) /\ length hs = 2%nat /\ s_pos s = 137
  | _ => False
  end.
Proof. vm_compute. repeat split. Qed.

(** by evaluation: PageHeaders returns the 6 headers; one unit of fuel less
    than the pages of the largest chunk is not enough *)
Example page_headers_eval :
  match page_headers 2 fm0 (mk_src file0 [] None) with
  | Ok (hs, s) => hs = all_headers cid cfg0 bs0 /\ length hs = 6%nat
  | _ => False
  end.
Proof. vm_compute. repeat split. Qed.

Example page_headers_fuel_tight :
  match page_headers 1 fm0 (mk_src file0 [] None) with Ok _ => False | _ => True end.
Proof. vm_compute. exact I. Qed.

(** the same three facts as instances of the theorems *)
Lemma hyps0 :
  cfg_ok cfg0 /\ Forall (batch_ok cid cfg0) bs0 /\ footer_ok cid cfg0 bs0.
Proof.
  destruct hyps_hold as (H1 & H2 & H3). split; [apply cfg_okb_sound; exact H1|]. split.
  - apply Forall_forall. intros b Hb. rewrite forallb_forall in H2. apply batch_okb_sound, H2, Hb.
  - apply footer_okb_sound. exact H3.
Qed.

Example read_metadata_instance :
  exists s', read_metadata (mk_src file0 [1; 2; 3]%nat None) = Ok (fm0, s').
Proof.
  destruct hyps0 as (_ & _ & H3).
  destruct (read_metadata_ok cid cfg0 bs0 [1; 2; 3]%nat H3) as (s' & Hrd & _). exists s'. exact Hrd.
Qed.

Example page_headers_at_offset_instance :
  exists s', page_headers_at_offset 2 74 2 (mk_src file0 [] None) =
             Ok (map pg_header (column_pages cid cfg0 1 colC [rA; rB]), s').
Proof.
  destruct hyps0 as (H1 & H2 & _).
  assert (Hb : batch_ok cid cfg0 [rA; rB]).
  { rewrite Forall_forall in H2. apply H2. left. reflexivity. }
  pose proof (page_headers_at_offset_ok cid cfg0 bs0 0 1 [rA; rB] colC) as H.
  specialize (H _ _ _ 2%nat (mk_src file0 [] None) H1 Hb eq_refl eq_refl eq_refl eq_refl eq_refl).
  destruct H as (s' & Hrun & _).
  - vm_compute. lia.
  - reflexivity.
  - reflexivity.
  - exists s'. exact Hrun.
Qed.

(** locality by evaluation: the same call on the file cut right after the chunk *)
Example page_headers_at_offset_truncated_eval :
  match page_headers_at_offset 2 74 2 (mk_src (firstn 137 file0) [] None) with
  | Ok (hs, s) => hs = map pg_header (column_pages cid cfg0 1 colC [rA; rB]) /\ s_pos s = 137
  | _ => False
  end.
Proof. vm_compute. repeat split. Qed.

Example introspect_instance :
  exists s1 s2,
    read_metadata (mk_src file0 [] None) = Ok (fm0, s1) /\
    page_headers 2 fm0 s1 = Ok (all_headers cid cfg0 bs0, s2).
Proof.
  destruct hyps0 as (H1 & H2 & H3). apply introspect_ok; try assumption.
  repeat constructor.
Qed.
End Example.

Print Assumptions read_metadata_ok.
Print Assumptions page_headers_at_offset_local.
Print Assumptions page_headers_at_offset_ok.
Print Assumptions page_headers_ok.
Print Assumptions introspect_ok.
Print Assumptions Example.introspect_instance.
