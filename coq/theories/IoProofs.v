(** * IoProofs: generic facts about the source monad of [Io.v].

    - [read_full_loop_ok] / [read_full_loop_short]: io.ReadFull returns exactly
      the next [want] bytes whatever the fragmentation schedule, or an error
      when fewer are left.
    - [sched_indep]: a computation whose result (value, position, operation
      count) does not depend on the fragmentation schedule.
    - [fault_local]: a computation that, with a fault injected at source
      operation [k], behaves exactly like the fault-free run until operation
      [k] is reached, where it returns [Err].
    - [io_closed P]: [P] holds of the primitives and is preserved by [bind];
      [ReaderIoProofs.v] lifts any such [P] through the reader once. *)
From Coq Require Import List NArith ZArith Lia Bool Arith PeanoNat.
From Coq Require Import ZifyN ZifyNat ZifyBool.
From PQ Require Import Bytes Rle Io.
Import ListNotations.
Local Open Scope N_scope.

(** ** The bytes left at the current position, one short read *)

Definition avail (s : src) : bytes := skipn (N.to_nat (s_pos s)) (s_file s).

Definition read1_len (want : nat) (s : src) : nat :=
  Nat.min want (Nat.min (match s_sched s with b :: _ => Nat.max 1 b | [] => want end)
                        (length (avail s))).

Definition advance (k : nat) (s : src) : src :=
  {| s_file := s_file s; s_pos := s_pos s + N.of_nat k; s_sched := tl (s_sched s);
     s_fail := s_fail s; s_ops := s_ops s |}.

Lemma src_read1_eq want s :
  src_read1 want s = (firstn (read1_len want s) (avail s), advance (read1_len want s) s).
Proof. reflexivity. Qed.

Lemma read1_len_bounds want s :
  (read1_len want s <= want /\ read1_len want s <= length (avail s) /\
   (0 < want -> 0 < length (avail s) -> 0 < read1_len want s))%nat.
Proof. unfold read1_len. destruct (s_sched s) as [|b r]; lia. Qed.

Lemma skipn_add {A} (a b : nat) (l : list A) : skipn (a + b) l = skipn b (skipn a l).
Proof.
  revert l; induction a as [|a IH]; intros l; [reflexivity|].
  destruct l as [|x l]; cbn [Nat.add skipn]; [destruct b; reflexivity | apply IH].
Qed.

Lemma avail_advance k s : avail (advance k s) = skipn k (avail s).
Proof.
  unfold avail, advance. cbn [s_pos s_file]. rewrite <- skipn_add. f_equal. lia.
Qed.

Lemma firstn_split_at {A} (k n : nat) (l : list A) :
  (k <= n)%nat -> (k <= length l)%nat ->
  firstn k l ++ firstn (n - k) (skipn k l) = firstn n l.
Proof.
  intros Hkn Hkl.
  rewrite <- (firstn_skipn k l) at 3.
  rewrite firstn_app, firstn_firstn, firstn_length_le by exact Hkl.
  replace (Nat.min n k) with k by lia. reflexivity.
Qed.

(** ** io.ReadFull *)

Lemma read_full_loop_S_raw f w acc s :
  read_full_loop (S f) (S w) acc s =
  match firstn (read1_len (S w) s) (avail s) with
  | [] => Err
  | _ :: _ =>
      read_full_loop f (S w - length (firstn (read1_len (S w) s) (avail s)))
                     (acc ++ firstn (read1_len (S w) s) (avail s)) (advance (read1_len (S w) s) s)
  end.
Proof. reflexivity. Qed.

Lemma read_full_loop_S f w acc s :
  read_full_loop (S f) (S w) acc s =
  if Nat.eqb (read1_len (S w) s) 0 then Err
  else read_full_loop f (S w - read1_len (S w) s) (acc ++ firstn (read1_len (S w) s) (avail s))
                      (advance (read1_len (S w) s) s).
Proof.
  rewrite read_full_loop_S_raw.
  pose proof (read1_len_bounds (S w) s) as (_ & Hle & _).
  pose proof (firstn_length_le (avail s) Hle) as Hlen.
  destruct (firstn (read1_len (S w) s) (avail s)) as [|g gs] eqn:Hg.
  - cbn [length] in Hlen. rewrite <- Hlen. reflexivity.
  - rewrite Hlen. cbn [length] in Hlen.
    destruct (Nat.eqb_spec (read1_len (S w) s) 0) as [Hz|Hnz]; [lia | reflexivity].
Qed.

Lemma read_full_loop_O fuel acc s : read_full_loop fuel O acc s = Ok (acc, s).
Proof. destruct fuel as [|f]; reflexivity. Qed.

(** enough bytes: exactly the next [want] bytes, whatever the schedule *)
Theorem read_full_loop_ok fuel : forall want acc s,
  (want <= fuel)%nat -> (want <= length (avail s))%nat ->
  exists s', read_full_loop fuel want acc s = Ok (acc ++ firstn want (avail s), s') /\
             s_file s' = s_file s /\ s_pos s' = s_pos s + N.of_nat want /\
             s_fail s' = s_fail s /\ s_ops s' = s_ops s.
Proof.
  induction fuel as [|f IH]; intros want acc s Hfuel Hav.
  - assert (Hw : want = O) by lia. subst want.
    exists s. cbn [read_full_loop firstn]. rewrite app_nil_r. repeat split; lia.
  - destruct want as [|w].
    + exists s. cbn [read_full_loop firstn]. rewrite app_nil_r. repeat split; lia.
    + rewrite read_full_loop_S.
      pose proof (read1_len_bounds (S w) s) as (Hk1 & Hk2 & Hk3).
      set (k := read1_len (S w) s) in *.
      assert (Hkpos : (0 < k)%nat) by (apply Hk3; lia).
      destruct (Nat.eqb_spec k 0) as [Hz|_]; [lia|].
      destruct (IH (S w - k)%nat (acc ++ firstn k (avail s)) (advance k s)) as (s' & Hrun & Hf & Hp & Hfl & Ho).
      * lia.
      * rewrite avail_advance, skipn_length. lia.
      * exists s'. rewrite Hrun, avail_advance, <- app_assoc, firstn_split_at by lia.
        split; [reflexivity|].
        rewrite Hf, Hp, Hfl, Ho. unfold advance. cbn [s_file s_pos s_fail s_ops].
        repeat split; lia.
Qed.

(** fewer bytes than wanted: an error, whatever the schedule and the fuel *)
Theorem read_full_loop_short fuel : forall want acc s,
  (length (avail s) < want)%nat -> read_full_loop fuel want acc s = Err.
Proof.
  induction fuel as [|f IH]; intros want acc s Hav.
  - destruct want as [|w]; [lia | reflexivity].
  - destruct want as [|w]; [lia|].
    rewrite read_full_loop_S.
    pose proof (read1_len_bounds (S w) s) as (Hk1 & Hk2 & _).
    destruct (Nat.eqb (read1_len (S w) s) 0); [reflexivity|].
    apply IH. rewrite avail_advance, skipn_length. lia.
Qed.

(** ** Schedule independence *)

Definition src_equiv (s1 s2 : src) : Prop :=
  s_file s1 = s_file s2 /\ s_pos s1 = s_pos s2 /\ s_fail s1 = s_fail s2 /\ s_ops s1 = s_ops s2.

Definition res_equiv {A} (r1 r2 : result (A * src)) : Prop :=
  match r1, r2 with
  | Ok (a1, s1), Ok (a2, s2) => a1 = a2 /\ src_equiv s1 s2
  | Err, Err => True
  | Panic, Panic => True
  | _, _ => False
  end.

Definition sched_indep {A} (m : M A) : Prop :=
  forall s1 s2, src_equiv s1 s2 -> res_equiv (m s1) (m s2).

Lemma src_equiv_refl s : src_equiv s s.
Proof. unfold src_equiv. auto. Qed.

Lemma src_equiv_avail s1 s2 : src_equiv s1 s2 -> avail s1 = avail s2.
Proof. intros (Hf & Hp & _). unfold avail. rewrite Hf, Hp. reflexivity. Qed.

Lemma src_equiv_mk_src file sched1 sched2 fo : src_equiv (mk_src file sched1 fo) (mk_src file sched2 fo).
Proof. unfold src_equiv, mk_src. cbn [s_file s_pos s_fail s_ops]. auto. Qed.

Ltac src_equiv_tac :=
  unfold src_equiv in *; cbn [s_file s_pos s_sched s_fail s_ops]; intuition congruence.

Lemma sched_indep_ret {A} (a : A) : sched_indep (ret a).
Proof. intros s1 s2 H. unfold ret, res_equiv. auto. Qed.

Lemma sched_indep_fail_err {A} : sched_indep (@fail_err A).
Proof. intros s1 s2 H. exact I. Qed.

Lemma sched_indep_fail_panic {A} : sched_indep (@fail_panic A).
Proof. intros s1 s2 H. exact I. Qed.

Lemma sched_indep_bind {A B} (m : M A) (f : A -> M B) :
  sched_indep m -> (forall a, sched_indep (f a)) -> sched_indep (bind m f).
Proof.
  intros Hm Hf s1 s2 H. unfold bind. specialize (Hm s1 s2 H). unfold res_equiv in Hm.
  destruct (m s1) as [[a1 s1']| |]; destruct (m s2) as [[a2 s2']| |]; try contradiction; try exact I.
  destruct Hm as [Ha He]. subst a2. apply Hf. exact He.
Qed.

Lemma sched_indep_op_tick : sched_indep op_tick.
Proof.
  intros s1 s2 H. pose proof H as (Hf & Hp & Hfl & Ho). unfold op_tick. rewrite Hfl, Ho.
  destruct (s_fail s2) as [k|]; [destruct (Nat.eqb k (s_ops s2)); [exact I|]|];
    unfold res_equiv; (split; [reflexivity | src_equiv_tac]).
Qed.

Lemma sched_indep_set_pos p : sched_indep (set_pos p).
Proof. intros s1 s2 H. unfold set_pos, res_equiv. split; [reflexivity | src_equiv_tac]. Qed.

Lemma sched_indep_get_pos : sched_indep get_pos.
Proof. intros s1 s2 H. unfold get_pos, res_equiv. split; [apply H | exact H]. Qed.

Lemma sched_indep_seek_start off : sched_indep (m_seek_start off).
Proof.
  unfold m_seek_start. apply sched_indep_bind; [apply sched_indep_op_tick | intros _].
  destruct (off <? 0)%Z; [apply sched_indep_fail_err | apply sched_indep_set_pos].
Qed.

Lemma sched_indep_seek_end off : sched_indep (m_seek_end off).
Proof.
  unfold m_seek_end. apply sched_indep_bind; [apply sched_indep_op_tick | intros _].
  intros s1 s2 H. cbv zeta. pose proof H as (Hf & _). rewrite Hf.
  destruct (Z.of_N (nlen (s_file s2)) + off <? 0)%Z; [exact I | apply sched_indep_set_pos; exact H].
Qed.

Lemma read_full_loop_equiv n acc s1 s2 :
  src_equiv s1 s2 -> res_equiv (read_full_loop n n acc s1) (read_full_loop n n acc s2).
Proof.
  intros H. pose proof (src_equiv_avail s1 s2 H) as Hav.
  destruct (le_lt_dec n (length (avail s1))) as [Hle|Hlt].
  - destruct (read_full_loop_ok n n acc s1 (le_n n) Hle) as (s1' & Hr1 & Hf1 & Hp1 & Hfl1 & Ho1).
    rewrite Hav in Hle.
    destruct (read_full_loop_ok n n acc s2 (le_n n) Hle) as (s2' & Hr2 & Hf2 & Hp2 & Hfl2 & Ho2).
    rewrite Hr1, Hr2, Hav. unfold res_equiv. split; [reflexivity|].
    destruct H as (Hf & Hp & Hfl & Ho). unfold src_equiv.
    rewrite Hf1, Hf2, Hp1, Hp2, Hfl1, Hfl2, Ho1, Ho2, Hf, Hp, Hfl, Ho. auto.
  - rewrite (read_full_loop_short n n acc s1 Hlt).
    rewrite Hav in Hlt. rewrite (read_full_loop_short n n acc s2 Hlt). exact I.
Qed.

Lemma sched_indep_read_full n : sched_indep (m_read_full n).
Proof.
  unfold m_read_full. apply sched_indep_bind; [apply sched_indep_op_tick | intros _].
  intros s1 s2 H. apply read_full_loop_equiv. exact H.
Qed.

Lemma sched_indep_read_struct {A} (dec : bytes -> option (A * bytes)) : sched_indep (m_read_struct dec).
Proof.
  unfold m_read_struct. apply sched_indep_bind; [apply sched_indep_op_tick | intros _].
  intros s1 s2 H. cbv zeta. fold (avail s1). fold (avail s2).
  rewrite (src_equiv_avail s1 s2 H).
  destruct (dec (avail s2)) as [[a rest]|]; [|exact I].
  unfold res_equiv. split; [reflexivity | src_equiv_tac].
Qed.

(** ** Fault locality *)

Definition with_fail (fo : option nat) (s : src) : src :=
  {| s_file := s_file s; s_pos := s_pos s; s_sched := s_sched s; s_fail := fo; s_ops := s_ops s |}.

(** [good] is the result of a computation from the fault-free state [s], [bad]
    its result from [with_fail (Some k) s] *)
Definition fault_rel {A} (k : nat) (s : src) (good bad : result (A * src)) : Prop :=
  match good with
  | Ok (a, s') =>
      s_fail s' = None /\ (s_ops s <= s_ops s')%nat /\
      ((bad = Ok (a, with_fail (Some k) s') /\ (k < s_ops s \/ s_ops s' <= k)%nat) \/
       (bad = Err /\ (s_ops s <= k < s_ops s')%nat))
  | Err => bad = Err
  | Panic => bad = Panic \/ (bad = Err /\ (s_ops s <= k)%nat)
  end.

Definition fault_local {A} (m : M A) : Prop :=
  forall s k, s_fail s = None -> fault_rel k s (m s) (m (with_fail (Some k) s)).

(** computations that neither look at the fault nor count an operation *)
Definition fail_obl {A} (m : M A) : Prop :=
  forall s fo,
    match m s with
    | Ok (a, s') => m (with_fail fo s) = Ok (a, with_fail fo s') /\ s_ops s' = s_ops s /\ s_fail s' = s_fail s
    | Err => m (with_fail fo s) = Err
    | Panic => m (with_fail fo s) = Panic
    end.

Lemma fail_obl_local {A} (m : M A) : fail_obl m -> fault_local m.
Proof.
  intros Hobl s k Hs. specialize (Hobl s (Some k)). unfold fault_rel.
  destruct (m s) as [[a s']| |].
  - destruct Hobl as (Hb & Ho & Hf). split; [congruence|]. split; [lia|].
    left. split; [exact Hb | lia].
  - exact Hobl.
  - left. exact Hobl.
Qed.

Lemma fault_local_bind {A B} (m : M A) (f : A -> M B) :
  fault_local m -> (forall a, fault_local (f a)) -> fault_local (bind m f).
Proof.
  intros Hm Hf s k Hs. specialize (Hm s k Hs). unfold bind, fault_rel in *.
  destruct (m s) as [[a s']| |].
  - destruct Hm as (Hs' & Hmono & [[Hbad Hk] | [Hbad Hk]]); rewrite Hbad.
    + specialize (Hf a s' k Hs'). unfold fault_rel in Hf.
      destruct (f a s') as [[b s'']| |].
      * destruct Hf as (Hs'' & Hmono' & [[Hbad' Hk'] | [Hbad' Hk']]).
        -- split; [exact Hs''|]. split; [lia|]. left. split; [exact Hbad' | lia].
        -- split; [exact Hs''|]. split; [lia|]. right. split; [exact Hbad' | lia].
      * exact Hf.
      * destruct Hf as [Hbad' | [Hbad' Hk']]; [left; exact Hbad' | right; split; [exact Hbad' | lia]].
    + specialize (Hf a s' k Hs'). unfold fault_rel in Hf.
      destruct (f a s') as [[b s'']| |].
      * destruct Hf as (Hs'' & Hmono' & _).
        split; [exact Hs''|]. split; [lia|]. right. split; [reflexivity | lia].
      * reflexivity.
      * right. split; [reflexivity | lia].
  - rewrite Hm. reflexivity.
  - destruct Hm as [Hbad | [Hbad Hk]]; rewrite Hbad; [left; reflexivity | right; split; [reflexivity | exact Hk]].
Qed.

Lemma fault_local_op_tick : fault_local op_tick.
Proof.
  intros s k Hs. unfold op_tick, fault_rel. rewrite Hs.
  cbn [with_fail s_fail s_ops s_file s_pos s_sched].
  split; [reflexivity|]. split; [lia|].
  destruct (Nat.eqb_spec k (s_ops s)) as [He|Hne].
  - right. split; [reflexivity | lia].
  - left. split; [unfold with_fail; cbn [s_fail s_ops s_file s_pos s_sched]; reflexivity | lia].
Qed.

Lemma fail_obl_ret {A} (a : A) : fail_obl (ret a).
Proof. intros s fo. unfold ret. auto. Qed.

Lemma fail_obl_fail_err {A} : fail_obl (@fail_err A).
Proof. intros s fo. reflexivity. Qed.

Lemma fail_obl_fail_panic {A} : fail_obl (@fail_panic A).
Proof. intros s fo. reflexivity. Qed.

Lemma fail_obl_set_pos p : fail_obl (set_pos p).
Proof. intros s fo. unfold set_pos. cbn [s_ops s_fail]. auto. Qed.

Lemma fail_obl_get_pos : fail_obl get_pos.
Proof. intros s fo. unfold get_pos. auto. Qed.

Lemma read_full_loop_with_fail fo fuel : forall want acc s,
  read_full_loop fuel want acc (with_fail fo s) =
  match read_full_loop fuel want acc s with
  | Ok (b, s') => Ok (b, with_fail fo s')
  | Err => Err
  | Panic => Panic
  end.
Proof.
  induction fuel as [|f IH]; intros want acc s.
  - destruct want as [|w]; reflexivity.
  - destruct want as [|w]; [reflexivity|].
    rewrite !read_full_loop_S.
    change (read1_len (S w) (with_fail fo s)) with (read1_len (S w) s).
    change (avail (with_fail fo s)) with (avail s).
    change (advance (read1_len (S w) s) (with_fail fo s)) with (with_fail fo (advance (read1_len (S w) s) s)).
    destruct (Nat.eqb (read1_len (S w) s) 0); [reflexivity | apply IH].
Qed.

Lemma fail_obl_read_full_loop n : fail_obl (fun s => read_full_loop n n [] s).
Proof.
  intros s fo. cbv beta. rewrite read_full_loop_with_fail.
  destruct (le_lt_dec n (length (avail s))) as [Hle|Hlt].
  - destruct (read_full_loop_ok n n [] s (le_n n) Hle) as (s' & Hr & _ & _ & Hfl & Ho).
    rewrite Hr. auto.
  - rewrite (read_full_loop_short n n [] s Hlt). reflexivity.
Qed.

Lemma fault_local_ret {A} (a : A) : fault_local (ret a).
Proof. apply fail_obl_local, fail_obl_ret. Qed.

Lemma fault_local_fail_err {A} : fault_local (@fail_err A).
Proof. apply fail_obl_local, fail_obl_fail_err. Qed.

Lemma fault_local_fail_panic {A} : fault_local (@fail_panic A).
Proof. apply fail_obl_local, fail_obl_fail_panic. Qed.

Lemma fault_local_set_pos p : fault_local (set_pos p).
Proof. apply fail_obl_local, fail_obl_set_pos. Qed.

Lemma fault_local_get_pos : fault_local get_pos.
Proof. apply fail_obl_local, fail_obl_get_pos. Qed.

Lemma fault_local_seek_start off : fault_local (m_seek_start off).
Proof.
  unfold m_seek_start. apply fault_local_bind; [apply fault_local_op_tick | intros _].
  destruct (off <? 0)%Z; [apply fault_local_fail_err | apply fault_local_set_pos].
Qed.

Lemma fault_local_seek_end off : fault_local (m_seek_end off).
Proof.
  unfold m_seek_end. apply fault_local_bind; [apply fault_local_op_tick | intros _].
  apply fail_obl_local. intros s fo. cbv zeta. cbn [with_fail s_file].
  destruct (Z.of_N (nlen (s_file s)) + off <? 0)%Z; [reflexivity | apply fail_obl_set_pos].
Qed.

Lemma fault_local_read_full n : fault_local (m_read_full n).
Proof.
  unfold m_read_full. apply fault_local_bind; [apply fault_local_op_tick | intros _].
  apply fail_obl_local, fail_obl_read_full_loop.
Qed.

Lemma fault_local_read_struct {A} (dec : bytes -> option (A * bytes)) : fault_local (m_read_struct dec).
Proof.
  unfold m_read_struct. apply fault_local_bind; [apply fault_local_op_tick | intros _].
  apply fail_obl_local. intros s fo. cbv zeta. cbn [with_fail s_file s_pos s_sched s_fail s_ops].
  destruct (dec (skipn (N.to_nat (s_pos s)) (s_file s))) as [[a rest]|]; [|reflexivity].
  cbn [s_ops s_fail]. auto.
Qed.

(** consequences in the form used on whole runs *)
Lemma fault_local_not_reached {A} (m : M A) s k a s' :
  fault_local m -> s_fail s = None -> m s = Ok (a, s') -> (k < s_ops s \/ s_ops s' <= k)%nat ->
  m (with_fail (Some k) s) = Ok (a, with_fail (Some k) s').
Proof.
  intros Hm Hs Hr Hk. specialize (Hm s k Hs). unfold fault_rel in Hm. rewrite Hr in Hm.
  destruct Hm as (_ & Hmono & [[Hbad _] | [_ Hk']]); [exact Hbad | lia].
Qed.

Lemma fault_local_reached {A} (m : M A) s k a s' :
  fault_local m -> s_fail s = None -> m s = Ok (a, s') -> (s_ops s <= k < s_ops s')%nat ->
  m (with_fail (Some k) s) = Err.
Proof.
  intros Hm Hs Hr Hk. specialize (Hm s k Hs). unfold fault_rel in Hm. rewrite Hr in Hm.
  destruct Hm as (_ & Hmono & [[_ Hk'] | [Hbad _]]); [lia | exact Hbad].
Qed.

Lemma fault_local_no_new_panic {A} (m : M A) s k :
  fault_local m -> s_fail s = None -> m (with_fail (Some k) s) = Panic -> m s = Panic.
Proof.
  intros Hm Hs Hbad. specialize (Hm s k Hs). unfold fault_rel in Hm. rewrite Hbad in Hm.
  destruct (m s) as [[a s']| |]; [|discriminate Hm|reflexivity].
  destruct Hm as (_ & _ & [[Hb _] | [Hb _]]); discriminate Hb.
Qed.

Lemma fault_local_same_value {A} (m : M A) s k a sk' :
  fault_local m -> s_fail s = None -> m (with_fail (Some k) s) = Ok (a, sk') ->
  exists s', m s = Ok (a, s') /\ sk' = with_fail (Some k) s'.
Proof.
  intros Hm Hs Hbad. specialize (Hm s k Hs). unfold fault_rel in Hm. rewrite Hbad in Hm.
  destruct (m s) as [[a0 s']| |].
  - destruct Hm as (_ & _ & [[Hb _] | [Hb _]]); [|discriminate Hb].
    injection Hb as Ha Hs'. subst a0 sk'. exists s'. auto.
  - discriminate Hm.
  - destruct Hm as [Hb | [Hb _]]; discriminate Hb.
Qed.

(** ** Properties preserved by every construct of the monad *)

Record io_closed (P : forall A : Type, M A -> Prop) : Prop := {
  ic_ret : forall A (a : A), P A (ret a);
  ic_err : forall A, P A fail_err;
  ic_panic : forall A, P A fail_panic;
  ic_bind : forall A B (m : M A) (f : A -> M B), P A m -> (forall a, P B (f a)) -> P B (bind m f);
  ic_get_pos : P N get_pos;
  ic_seek_start : forall off, P unit (m_seek_start off);
  ic_seek_end : forall off, P unit (m_seek_end off);
  ic_read_full : forall n, P bytes (m_read_full n);
  ic_read_struct : forall A (dec : bytes -> option (A * bytes)), P A (m_read_struct dec)
}.

Lemma sched_indep_closed : io_closed (@sched_indep).
Proof.
  constructor.
  - intros A a. apply sched_indep_ret.
  - intros A. apply sched_indep_fail_err.
  - intros A. apply sched_indep_fail_panic.
  - intros A B m f. apply sched_indep_bind.
  - apply sched_indep_get_pos.
  - apply sched_indep_seek_start.
  - apply sched_indep_seek_end.
  - apply sched_indep_read_full.
  - intros A dec. apply sched_indep_read_struct.
Qed.

Lemma fault_local_closed : io_closed (@fault_local).
Proof.
  constructor.
  - intros A a. apply fault_local_ret.
  - intros A. apply fault_local_fail_err.
  - intros A. apply fault_local_fail_panic.
  - intros A B m f. apply fault_local_bind.
  - apply fault_local_get_pos.
  - apply fault_local_seek_start.
  - apply fault_local_seek_end.
  - apply fault_local_read_full.
  - intros A dec. apply fault_local_read_struct.
Qed.

Print Assumptions read_full_loop_ok.
Print Assumptions read_full_loop_short.
Print Assumptions sched_indep_closed.
Print Assumptions fault_local_closed.
Print Assumptions fault_local_same_value.
