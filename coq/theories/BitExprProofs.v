(** * BitExprProofs: every term of the [bexpr] fragment is a [lor]-linear map
    of its environment.  A linear equation between two such maps on vectors of
    length [n] therefore follows from its instances on the single-slot vectors
    (basis reduction, [by_units]).  This is what lets [BitpackProofs.v] prove
    the C17 statements for all 16^8 groups from a few thousand evaluations. *)
From Coq Require Import List NArith Lia Bool Arith.
From PQ Require Import Bytes BitExpr.
Import ListNotations.
Local Open Scope N_scope.

(** Pointwise [lor]; the longer list wins where the other has ended. *)
Fixpoint join (a b : list N) : list N :=
  match a, b with
  | [], _ => b
  | _, [] => a
  | x :: a', y :: b' => N.lor x y :: join a' b'
  end.

Lemma join_nil_r a : join a [] = a.
Proof. destruct a; reflexivity. Qed.

Lemma join_length a b : length a = length b -> length (join a b) = length a.
Proof.
  revert b; induction a as [|x a IH]; intros [|y b] H; cbn in *; try lia.
  rewrite IH by lia. reflexivity.
Qed.

Lemma nth_join i a b : nth i (join a b) 0 = N.lor (nth i a 0) (nth i b 0).
Proof.
  revert a b; induction i as [|i IH]; intros [|x a] [|y b]; cbn [join nth];
    rewrite ?N.lor_0_r, ?N.lor_0_l; auto; try (destruct i; reflexivity).
Qed.

Lemma eval_join e a b : eval (join a b) e = N.lor (eval a e) (eval b e).
Proof.
  induction e as [i|e IH m|e1 IH1 e2 IH2|e IH k|e IH k]; cbn [eval].
  - apply nth_join.
  - rewrite IH. apply N.land_lor_distr_l.
  - rewrite IH1, IH2.
    rewrite !N.lor_assoc. f_equal.
    rewrite <- !N.lor_assoc. f_equal. apply N.lor_comm.
  - rewrite IH, N.shiftl_lor. apply N.land_lor_distr_l.
  - rewrite IH. apply N.shiftr_lor.
Qed.

Lemma join_map2 {A} (f g : A -> N) (t : list A) :
  join (map f t) (map g t) = map (fun x => N.lor (f x) (g x)) t.
Proof. induction t as [|x t IH]; cbn [map join]; [reflexivity | rewrite IH; reflexivity]. Qed.

Lemma eval_table_join t a b :
  eval_table t (join a b) = join (eval_table t a) (eval_table t b).
Proof.
  unfold eval_table. rewrite join_map2. apply map_ext. intros e. apply eval_join.
Qed.

(** ** Linear maps on vectors of length [n] *)

Definition linear (n : nat) (F : list N -> list N) : Prop :=
  forall a b, length a = n -> length b = n -> F (join a b) = join (F a) (F b).

Lemma linear_eval_table n t : linear n (eval_table t).
Proof. intros a b _ _. apply eval_table_join. Qed.

Lemma linear_id n : linear n (fun v => v).
Proof. intros a b _ _. reflexivity. Qed.

Lemma eval_table_length t env : length (eval_table t env) = length t.
Proof. unfold eval_table. apply map_length. Qed.

Lemma linear_compose n m F G :
  linear n F -> linear m G -> (forall a, length a = n -> length (F a) = m) ->
  linear n (fun v => G (F v)).
Proof.
  intros HF HG Hlen a b Ha Hb. rewrite HF by assumption. apply HG; apply Hlen; assumption.
Qed.

(** Pointwise masking is linear. *)
Lemma map_land_join m a b :
  length a = length b ->
  map (fun v => N.land v m) (join a b) = join (map (fun v => N.land v m) a) (map (fun v => N.land v m) b).
Proof.
  revert b; induction a as [|x a IH]; intros [|y b] H; cbn in *; try lia; auto.
  rewrite N.land_lor_distr_l, IH by lia. reflexivity.
Qed.

Lemma linear_mask n m : linear n (map (fun v => N.land v m)).
Proof. intros a b Ha Hb. apply map_land_join. lia. Qed.

(** ** Single-slot vectors and basis reduction *)

Definition zeros (n : nat) : list N := repeat 0 n.
Definition unit (n i : nat) (v : N) : list N := zeros i ++ v :: zeros (n - i - 1).

Lemma zeros_length n : length (zeros n) = n.
Proof. apply repeat_length. Qed.

Lemma unit_length n i v : (i < n)%nat -> length (unit n i v) = n.
Proof. intros H. unfold unit. rewrite app_length. cbn [length]. rewrite !zeros_length. lia. Qed.

Lemma join_zeros_l r : join (zeros (length r)) r = r.
Proof.
  unfold zeros. induction r as [|x r IH]; cbn [length repeat join]; [reflexivity|].
  rewrite N.lor_0_l, IH. reflexivity.
Qed.

Lemma join_unit_tail k x r :
  join (zeros k ++ x :: zeros (length r)) (zeros k ++ 0 :: r) = zeros k ++ x :: r.
Proof.
  induction k as [|k IH].
  - cbn [zeros repeat app join]. rewrite N.lor_0_r. f_equal. apply join_zeros_l.
  - unfold zeros in *. cbn [repeat app join]. rewrite N.lor_0_l. f_equal. exact IH.
Qed.

Lemma zeros_snoc k : zeros k ++ [0] = zeros (S k).
Proof. unfold zeros. induction k as [|k IH]; cbn [repeat app]; [reflexivity | f_equal; exact IH]. Qed.

Lemma by_units (P : N -> Prop) n F G :
  linear n F -> linear n G ->
  (forall i v, (i < n)%nat -> P v -> F (unit n i v) = G (unit n i v)) ->
  F (zeros n) = G (zeros n) ->
  forall vs, length vs = n -> Forall P vs -> F vs = G vs.
Proof.
  intros HF HG Hu Hz.
  assert (Hk : forall tl k, (k + length tl = n)%nat -> Forall P tl ->
                            F (zeros k ++ tl) = G (zeros k ++ tl)).
  { induction tl as [|x r IH]; intros k Hlen HP.
    - cbn in Hlen. rewrite app_nil_r. replace k with n by lia. exact Hz.
    - cbn [length] in Hlen. apply Forall_cons_iff in HP. destruct HP as [Hx Hr].
      rewrite <- (join_unit_tail k x r).
      assert (Hlu : length (zeros k ++ x :: zeros (length r)) = n).
      { rewrite app_length. cbn [length]. rewrite !zeros_length. lia. }
      assert (Hlt : length (zeros k ++ 0 :: r) = n).
      { rewrite app_length. cbn [length]. rewrite zeros_length. lia. }
      rewrite HF, HG by assumption.
      f_equal.
      + specialize (Hu k x). unfold unit in Hu.
        replace (n - k - 1)%nat with (length r) in Hu by lia.
        apply Hu; [lia | assumption].
      + replace (zeros k ++ 0 :: r) with (zeros (S k) ++ r)
          by (rewrite <- zeros_snoc, <- app_assoc; reflexivity).
        apply IH; [cbn; lia | assumption]. }
  intros vs Hlen HP. apply (Hk vs 0%nat); [cbn; lia | assumption].
Qed.

(** ** Deciding the finite premise of [by_units] by computation *)

Fixpoint list_eqb (a b : list N) : bool :=
  match a, b with
  | [], [] => true
  | x :: a', y :: b' => (x =? y) && list_eqb a' b'
  | _, _ => false
  end.

Lemma list_eqb_eq a b : list_eqb a b = true -> a = b.
Proof.
  revert b; induction a as [|x a IH]; intros [|y b] H; cbn in H; try discriminate; auto.
  apply andb_prop in H. destruct H as [H1 H2]. apply N.eqb_eq in H1. subst. f_equal. auto.
Qed.

Definition nrange (k : nat) : list N := map N.of_nat (seq 0 k).

Lemma nrange_in k v : v < N.of_nat k -> In v (nrange k).
Proof.
  intros H. unfold nrange. apply in_map_iff. exists (N.to_nat v). split; [lia|].
  apply in_seq. lia.
Qed.

Definition units_agree (n k : nat) (F G : list N -> list N) : bool :=
  forallb (fun i => forallb (fun v => list_eqb (F (unit n i v)) (G (unit n i v))) (nrange k)) (seq 0 n)
  && list_eqb (F (zeros n)) (G (zeros n)).

Lemma units_agree_sound n k F G :
  linear n F -> linear n G -> units_agree n k F G = true ->
  forall vs, length vs = n -> Forall (fun v => v < N.of_nat k) vs -> F vs = G vs.
Proof.
  intros HF HG H. unfold units_agree in H. apply andb_prop in H. destruct H as [Hu Hz].
  apply by_units; auto.
  - intros i v Hi Hv. apply list_eqb_eq.
    rewrite forallb_forall in Hu. specialize (Hu i). rewrite forallb_forall in Hu.
    apply Hu; [apply in_seq; lia | apply nrange_in; assumption].
  - apply list_eqb_eq. assumption.
Qed.
