(** * BitpackProofs: the C17 statements about the tables translated from
    internal/bitpack/bitpack.go, for every group — by linearity
    ([BitExprProofs.by_units]) plus a finite check of the single-slot vectors
    evaluated by [vm_compute]; the bound of each finite check appears in the
    lemma it is lifted through ([units_agree_sound]). *)
From Coq Require Import List NArith Lia Bool Arith.
From PQ Require Import Bytes BitExpr BitExprProofs Bitpack.
From PQgen Require Import BitpackImpl.
Import ListNotations.
Local Open Scope N_scope.

Definition widths : list N := [1; 2; 3; 4].

Lemma widths_cases (P : N -> Prop) : P 1 -> P 2 -> P 3 -> P 4 -> forall w, In w widths -> P w.
Proof.
  intros H1 H2 H3 H4 w Hw. cbn in Hw.
  destruct Hw as [<-|[<-|[<-|[<-|[]]]]]; assumption.
Qed.

Lemma pack_length w vs : length (pack w vs) = length (pack_table w).
Proof. unfold pack. apply eval_table_length. Qed.

Lemma unpack_length w bs : length (unpack w bs) = length (unpack_table w).
Proof. unfold unpack. apply eval_table_length. Qed.

Lemma pack_table_length w : In w widths -> length (pack_table w) = N.to_nat w.
Proof. revert w. apply widths_cases; reflexivity. Qed.

Lemma unpack_table_length w : In w widths -> length (unpack_table w) = 8%nat.
Proof. revert w. apply widths_cases; reflexivity. Qed.

Lemma linear_pack n w : linear n (pack w).
Proof. apply linear_eval_table. Qed.

Lemma linear_unpack n w : linear n (unpack w).
Proof. apply linear_eval_table. Qed.

Lemma lin_unpack_pack n w : linear n (fun v => unpack w (pack w v)).
Proof. intros a b _ _. unfold pack, unpack. rewrite !eval_table_join. reflexivity. Qed.

Lemma lin_pack_unpack n w : linear n (fun v => pack w (unpack w v)).
Proof. intros a b _ _. unfold pack, unpack. rewrite !eval_table_join. reflexivity. Qed.

Definition maskv (w : N) (v : N) : N := N.land v (N.ones w).

Lemma maskv_mod w v : maskv w v = v mod 2 ^ w.
Proof. unfold maskv. apply N.land_ones. Qed.

Lemma lin_mask_unpack n w : linear n (fun v => map (maskv w) (unpack w v)).
Proof.
  intros a b _ _. unfold unpack. rewrite eval_table_join. apply map_land_join.
  rewrite !eval_table_length. reflexivity.
Qed.

Lemma lin_pack_mask n w : linear n (fun v => pack w (map (maskv w) v)).
Proof.
  intros a b Ha Hb. unfold maskv. rewrite map_land_join by lia. apply linear_pack with (n := n);
    rewrite map_length; assumption.
Qed.

Ltac finish n k F G HF HG :=
  apply (units_agree_sound n k F G);
  [ exact HF | exact HG | vm_compute; reflexivity | assumption | assumption ].

(** ** unpack (pack vs) = vs *)

Lemma unpack_pack w vs :
  In w widths -> length vs = 8%nat -> Forall (fun v => v < 2 ^ w) vs ->
  unpack w (pack w vs) = vs.
Proof.
  intros Hw. revert vs. revert w Hw.
  apply (widths_cases (fun w => forall vs, length vs = 8%nat -> Forall (fun v => v < 2 ^ w) vs ->
                                           unpack w (pack w vs) = vs)); intros vs Hl Hv.
  - finish 8%nat 2%nat (fun v => unpack 1 (pack 1 v)) (fun v : list N => v) (lin_unpack_pack 8 1) (linear_id 8).
  - finish 8%nat 4%nat (fun v => unpack 2 (pack 2 v)) (fun v : list N => v) (lin_unpack_pack 8 2) (linear_id 8).
  - finish 8%nat 8%nat (fun v => unpack 3 (pack 3 v)) (fun v : list N => v) (lin_unpack_pack 8 3) (linear_id 8).
  - finish 8%nat 16%nat (fun v => unpack 4 (pack 4 v)) (fun v : list N => v) (lin_unpack_pack 8 4) (linear_id 8).
Qed.

(** ** pack (unpack bs) = bs, and unpacked values fit the width *)

Lemma pack_unpack_eq w bs :
  In w widths -> length bs = N.to_nat w -> wf_bytes bs -> pack w (unpack w bs) = bs.
Proof.
  intros Hw. revert bs. revert w Hw.
  apply (widths_cases (fun w => forall bs, length bs = N.to_nat w -> wf_bytes bs ->
                                           pack w (unpack w bs) = bs)); intros bs Hl Hv.
  - finish 1%nat 256%nat (fun v => pack 1 (unpack 1 v)) (fun v : list N => v) (lin_pack_unpack 1 1) (linear_id 1).
  - finish 2%nat 256%nat (fun v => pack 2 (unpack 2 v)) (fun v : list N => v) (lin_pack_unpack 2 2) (linear_id 2).
  - finish 3%nat 256%nat (fun v => pack 3 (unpack 3 v)) (fun v : list N => v) (lin_pack_unpack 3 3) (linear_id 3).
  - finish 4%nat 256%nat (fun v => pack 4 (unpack 4 v)) (fun v : list N => v) (lin_pack_unpack 4 4) (linear_id 4).
Qed.

Lemma unpack_masked w bs :
  In w widths -> length bs = N.to_nat w -> wf_bytes bs ->
  map (maskv w) (unpack w bs) = unpack w bs.
Proof.
  intros Hw. revert bs. revert w Hw.
  apply (widths_cases (fun w => forall bs, length bs = N.to_nat w -> wf_bytes bs ->
                                           map (maskv w) (unpack w bs) = unpack w bs)); intros bs Hl Hv.
  - finish 1%nat 256%nat (fun v => map (maskv 1) (unpack 1 v)) (unpack 1) (lin_mask_unpack 1 1) (linear_unpack 1 1).
  - finish 2%nat 256%nat (fun v => map (maskv 2) (unpack 2 v)) (unpack 2) (lin_mask_unpack 2 2) (linear_unpack 2 2).
  - finish 3%nat 256%nat (fun v => map (maskv 3) (unpack 3 v)) (unpack 3) (lin_mask_unpack 3 3) (linear_unpack 3 3).
  - finish 4%nat 256%nat (fun v => map (maskv 4) (unpack 4 v)) (unpack 4) (lin_mask_unpack 4 4) (linear_unpack 4 4).
Qed.

Lemma unpack_bounded w bs :
  In w widths -> length bs = N.to_nat w -> wf_bytes bs ->
  Forall (fun v => v < 2 ^ w) (unpack w bs).
Proof.
  intros Hw Hl Hb. rewrite <- (unpack_masked w bs Hw Hl Hb).
  apply Forall_forall. intros x Hx. apply in_map_iff in Hx. destruct Hx as [v [<- _]].
  rewrite maskv_mod. apply N.mod_lt. apply N.pow_nonzero. lia.
Qed.

(** ** pack only looks at the low [w] bits of each value *)

Lemma pack_masks w vs :
  In w widths -> length vs = 8%nat -> wf_bytes vs ->
  pack w vs = pack w (map (fun v => v mod 2 ^ w) vs).
Proof.
  intros Hw Hl Hv.
  rewrite (map_ext (fun v => v mod 2 ^ w) (maskv w)) by (intros; symmetry; apply maskv_mod).
  revert vs Hl Hv. revert w Hw.
  apply (widths_cases (fun w => forall vs, length vs = 8%nat -> wf_bytes vs ->
                                           pack w vs = pack w (map (maskv w) vs))); intros vs Hl Hv.
  - finish 8%nat 256%nat (pack 1) (fun v => pack 1 (map (maskv 1) v)) (linear_pack 8 1) (lin_pack_mask 8 1).
  - finish 8%nat 256%nat (pack 2) (fun v => pack 2 (map (maskv 2) v)) (linear_pack 8 2) (lin_pack_mask 8 2).
  - finish 8%nat 256%nat (pack 3) (fun v => pack 3 (map (maskv 3) v)) (linear_pack 8 3) (lin_pack_mask 8 3).
  - finish 8%nat 256%nat (pack 4) (fun v => pack 4 (map (maskv 4) v)) (linear_pack 8 4) (lin_pack_mask 8 4).
Qed.

(** ** The packed bytes are the specification's layout *)

Lemma lor_mod_pow2 x y k : N.lor x y mod 2 ^ k = N.lor (x mod 2 ^ k) (y mod 2 ^ k).
Proof. rewrite <- !N.land_ones. apply N.land_lor_distr_l. Qed.

Lemma lor_div_pow2 x y k : N.lor x y / 2 ^ k = N.lor (x / 2 ^ k) (y / 2 ^ k).
Proof. rewrite <- !N.shiftr_div_pow2. apply N.shiftr_lor. Qed.

Lemma le_enc_lor k x y : le_enc k (N.lor x y) = join (le_enc k x) (le_enc k y).
Proof.
  revert x y; induction k as [|k IH]; intros x y; cbn [le_enc join]; [reflexivity|].
  change 256 with (2 ^ 8). rewrite lor_mod_pow2, lor_div_pow2, IH. reflexivity.
Qed.

Lemma spec_word_join w i a b :
  length a = length b ->
  spec_word w i (join a b) = N.lor (spec_word w i a) (spec_word w i b).
Proof.
  revert i b; induction a as [|x a IH]; intros i [|y b] H; cbn in H; try lia.
  - reflexivity.
  - cbn [join spec_word]. rewrite IH by lia.
    rewrite lor_mod_pow2, N.shiftl_lor.
    rewrite !N.lor_assoc. f_equal. rewrite <- !N.lor_assoc. f_equal. apply N.lor_comm.
Qed.

Lemma linear_spec_pack n w : linear n (spec_pack w).
Proof.
  intros a b Ha Hb. unfold spec_pack. rewrite spec_word_join by lia. apply le_enc_lor.
Qed.

Lemma pack_spec w vs :
  In w widths -> length vs = 8%nat -> Forall (fun v => v < 2 ^ w) vs ->
  pack w vs = spec_pack w vs.
Proof.
  intros Hw. revert vs. revert w Hw.
  apply (widths_cases (fun w => forall vs, length vs = 8%nat -> Forall (fun v => v < 2 ^ w) vs ->
                                           pack w vs = spec_pack w vs)); intros vs Hl Hv.
  - finish 8%nat 2%nat (pack 1) (spec_pack 1) (linear_pack 8 1) (linear_spec_pack 8 1).
  - finish 8%nat 4%nat (pack 2) (spec_pack 2) (linear_pack 8 2) (linear_spec_pack 8 2).
  - finish 8%nat 8%nat (pack 3) (spec_pack 3) (linear_pack 8 3) (linear_spec_pack 8 3).
  - finish 8%nat 16%nat (pack 4) (spec_pack 4) (linear_pack 8 4) (linear_spec_pack 8 4).
Qed.
