(** * Plain: PLAIN encoding of the eight primitive types as the field templates
    of cmd/parquetgen/gen write and read it.  Leaf values are bit patterns
    ([VNum]) or byte strings ([VStr]).  Definitions only. *)
From Coq Require Import List NArith Lia Bool.
From PQ Require Import Bytes Schema Rle.
Import ListNotations.
Local Open Scope N_scope.

Definition prim_size (p : prim) : nat :=
  match p with
  | PInt32 | PUint32 | PFloat32 => 4%nat
  | PInt64 | PUint64 | PFloat64 => 8%nat
  | PBool | PString => 0%nat
  end.

Definition num_of (v : value) : N := match v with VNum n => n | _ => 0 end.
Definition str_of (v : value) : bytes := match v with VStr b => b | _ => [] end.

(** ** Writing *)

(** one byte of up to 8 bools, LSB first: rawBuf[i/8] |= 1 << (i%8) *)
Fixpoint bools_byte (bs : list N) (bit : N) : N :=
  match bs with
  | [] => 0
  | b :: r => (if b =? 0 then 0 else 2 ^ bit) + bools_byte r (bit + 1)
  end.

Fixpoint pack_bools_fuel (fuel : nat) (bs : list N) : bytes :=
  match fuel with
  | O => []
  | S f =>
      match bs with
      | [] => []
      | _ => bools_byte (firstn 8 bs) 0 :: pack_bools_fuel f (skipn 8 bs)
      end
  end.

Definition pack_bools (bs : list N) : bytes := pack_bools_fuel (S (length bs)) bs.

Definition plain_enc_val (p : prim) (v : value) : bytes :=
  match p with
  | PString => le_enc 4 (nlen (str_of v) mod 2 ^ 32) ++ str_of v
  | PBool => []
  | _ => le_enc (prim_size p) (num_of v)
  end.

(** the values section of one page *)
Definition plain_enc (p : prim) (vs : list value) : bytes :=
  match p with
  | PBool => pack_bools (map num_of vs)
  | _ => concat (map (plain_enc_val p) vs)
  end.

(** ** Reading, as the generated Read methods do it *)

(** binary.Read of [n] fixed-width values from the buffer: all or error. *)
Fixpoint read_fixed (size : nat) (n : nat) (bs : bytes) : option (list value) :=
  match n with
  | O => Some []
  | S n' =>
      if Nat.leb size (length bs) then
        match read_fixed size n' (skipn size bs) with
        | Some vs => Some (VNum (le_dec (firstn size bs)) :: vs)
        | None => None
        end
      else None
  end.

(** the string loop: int32 length, then rr.Read(s) — a short buffer yields a
    zero-filled tail, an empty buffer with x > 0 is an error, x < 0 panics. *)
Fixpoint read_strings (n : nat) (bs : bytes) : result (list value) :=
  match n with
  | O => Ok []
  | S n' =>
      if Nat.ltb (length bs) 4 then Err
      else
        let x := le_dec (firstn 4 bs) in
        if 2 ^ 31 <=? x then Panic
        else
          let rest := skipn 4 bs in
          let k := N.to_nat x in
          match rest, k with
          | [], S _ => Err
          | _, _ =>
              let got := firstn k rest in
              let s := got ++ repeat 0 (k - length got) in
              match read_strings n' (skipn k rest) with
              | Ok vs => Ok (VStr s :: vs)
              | Err => Err
              | Panic => Panic
              end
          end
  end.

(** parquet.GetBools: per page, ceil(nVals/8) bytes hold nVals bools. *)
Definition unpack_bools_byte (b : N) (m : nat) : list value :=
  map (fun i => VNum (if N.testbit b (N.of_nat i) then 1 else 0)) (seq 0 m).

Fixpoint bools_of_chunk (chunk : bytes) (nvals : nat) : list value :=
  match chunk with
  | [] => []
  | b :: r => let m := Nat.min nvals 8 in unpack_bools_byte b m ++ bools_of_chunk r (nvals - m)
  end.

Fixpoint get_bools (data : bytes) (sizes : list nat) : result (list value) :=
  match sizes with
  | [] => Ok []
  | O :: rest => get_bools data rest
  | nv :: rest =>
      let l := Nat.div (nv + 7)%nat 8%nat in
      if Nat.ltb (length data) l then Panic            (* data[:l] out of range *)
      else match get_bools (skipn l data) rest with
           | Ok vs => Ok (bools_of_chunk (firstn l data) nv ++ vs)
           | Err => Err
           | Panic => Panic
           end
  end.

(** ** A strict specification decoder (used by the file validator): exactly
    [n] values and no byte left over. *)
Fixpoint strict_strings (n : nat) (bs : bytes) : option (list value) :=
  match n with
  | O => match bs with [] => Some [] | _ => None end
  | S n' =>
      match take_le 4 bs with
      | Some (x, rest) =>
          let k := N.to_nat x in
          if Nat.leb k (length rest) then
            match strict_strings n' (skipn k rest) with
            | Some vs => Some (VStr (firstn k rest) :: vs)
            | None => None
            end
          else None
      | None => None
      end
  end.

Definition plain_dec_strict (p : prim) (n : nat) (bs : bytes) : option (list value) :=
  match p with
  | PString => strict_strings n bs
  | PBool =>
      if Nat.eqb (length bs) (Nat.div (n + 7)%nat 8%nat) then
        let vs := bools_of_chunk bs n in
        (* padding bits of the last byte must be zero *)
        if list_eq_dec N.eq_dec (pack_bools (map num_of vs)) bs then Some vs else None
      else None
  | _ =>
      if Nat.eqb (length bs) (n * prim_size p)%nat then read_fixed (prim_size p) n bs else None
  end.
