(** * RleEncProofs: the level encoder of internal/rle/rle.go ([Rle.rle_encode])
    produces a well-formed RLE/bit-packed hybrid stream ([RleSpec]) of the
    values it was given, followed by fewer than 8 zero padding values.

    The proof is an invariant of the encoder state machine, indexed by the list
    of values consumed so far: the output buffer is the encoding of a list of
    closed runs, followed by an open bit-packed run whose header byte is still
    the placeholder 0; the values not yet written sit in [r_buf] (or, when a
    repeat of 8 or more is in progress, are described by [r_prev]/[r_rep]). *)
From Coq Require Import List NArith ZArith Lia Bool Arith PeanoNat.
From Coq Require Import ZifyN ZifyNat ZifyBool.
From PQ Require Import Bytes Varint VarintProofs Bitpack BitpackProofs RleSpec Rle.
Import ListNotations.
Local Open Scope N_scope.

Ltac Zify.zify_post_hook ::= Z.div_mod_to_equations.

(** ** Small list and arithmetic helpers *)

Lemma repeat_snoc {A} (x : A) n : repeat x n ++ [x] = repeat x (S n).
Proof. rewrite <- repeat_cons. reflexivity. Qed.

Lemma concat_map_length {A B} (f : A -> list B) k (l : list A) :
  Forall (fun a => length (f a) = k) l -> length (concat (map f l)) = (length l * k)%nat.
Proof.
  induction 1 as [|a l Ha Hl IH]; cbn [map concat length]; [reflexivity|].
  rewrite app_length, Ha, IH. lia.
Qed.

Lemma open_snoc (pre X P : bytes) : (pre ++ 0 :: X) ++ P = pre ++ 0 :: (X ++ P).
Proof. rewrite <- app_assoc. reflexivity. Qed.

Lemma pos_size_nat_bound p : forall k, N.pos p < 2 ^ N.of_nat k -> (Pos.size_nat p <= k)%nat.
Proof.
  induction p as [p IH|p IH|]; intros [|k] Hk; cbn [Pos.size_nat].
  - cbn in Hk. lia.
  - rewrite Nat2N.inj_succ, N.pow_succ_r' in Hk.
    change (N.pos p~1) with (2 * N.pos p + 1) in Hk.
    specialize (IH k). lia.
  - cbn in Hk. lia.
  - rewrite Nat2N.inj_succ, N.pow_succ_r' in Hk.
    change (N.pos p~0) with (2 * N.pos p) in Hk.
    specialize (IH k). lia.
  - cbn in Hk. lia.
  - lia.
Qed.

Lemma size_nat_bound n k : n < 2 ^ N.of_nat k -> (N.size_nat n <= k)%nat.
Proof.
  destruct n as [|p]; cbn [N.size_nat]; [lia|]. apply pos_size_nat_bound.
Qed.

Lemma uleb_enc_length32 n : n < 2 ^ 32 -> (length (uleb_enc n) <= 5)%nat.
Proof.
  intros Hn. pose proof (uleb_enc_length n) as Hl.
  pose proof (size_nat_bound n 32 Hn) as Hs. lia.
Qed.

Lemma widths_le4 w : In w widths -> 1 <= w <= 4.
Proof. revert w. apply widths_cases; lia. Qed.

Lemma value_bytes_widths w : In w widths -> value_bytes w = 1%nat.
Proof. revert w. apply widths_cases; reflexivity. Qed.

Lemma rle_value_bytes_spec w v : In w widths -> rle_value_bytes w v = le_enc (value_bytes w) v.
Proof. revert w. apply widths_cases; reflexivity. Qed.

Lemma runs_encode_app w a b : runs_encode w (a ++ b) = runs_encode w a ++ runs_encode w b.
Proof. unfold runs_encode. rewrite map_app, concat_app. reflexivity. Qed.

Lemma runs_values_app a b : runs_values (a ++ b) = runs_values a ++ runs_values b.
Proof. unfold runs_values. rewrite map_app, concat_app. reflexivity. Qed.

Lemma runs_encode_single w r : runs_encode w [r] = run_encode w r.
Proof. unfold runs_encode. cbn [map concat]. apply app_nil_r. Qed.

Lemma runs_values_single r : runs_values [r] = run_values r.
Proof. unfold runs_values. cbn [map concat]. apply app_nil_r. Qed.

(** ** What the encoder emits: closed runs *)

Definition val_ok (w v : N) : Prop := v < 2 ^ w.

Definition group_ok (w : N) (g : list N) : Prop :=
  length g = 8%nat /\ Forall (val_ok w) g.

Definition closed_ok (w : N) (r : run) : Prop :=
  match r with
  | RBp gs => (1 <= length gs <= 63)%nat /\ Forall (group_ok w) gs
  | RRle c v => 8 <= c /\ c < 2 ^ 31 /\ val_ok w v
  end.

Lemma group_ok_groupb w g : group_ok w g -> groupb w g = true.
Proof.
  intros [Hl Hv]. unfold groupb. rewrite Hl. cbn [Nat.eqb andb].
  apply forallb_forall. intros x Hx. rewrite Forall_forall in Hv.
  specialize (Hv x Hx). unfold val_ok in Hv. unfold valb. lia.
Qed.

Lemma closed_ok_wf w r : closed_ok w r -> wf_run w r.
Proof.
  destruct r as [c v|gs]; unfold wf_run; cbn [closed_ok wf_runb].
  - intros (Hc & _ & Hv). unfold val_ok in Hv. unfold valb. lia.
  - intros [Hl Hg]. apply andb_true_intro. split.
    + destruct gs as [|g gs]; cbn [length] in *; [lia|reflexivity].
    + apply forallb_forall. intros g Hin. rewrite Forall_forall in Hg.
      apply group_ok_groupb. apply Hg. exact Hin.
Qed.

Lemma closed_ok_shape w r :
  closed_ok w r -> match r with RBp gs => (length gs <= 63)%nat | RRle c _ => 8 <= c end.
Proof. destruct r as [c v|gs]; cbn [closed_ok]; intros H; lia. Qed.

(** a closed bit-packed run: the patched header byte followed by the library's packing *)
Lemma run_encode_bp w gs :
  In w widths -> Forall (group_ok w) gs -> (length gs <= 63)%nat ->
  run_encode w (RBp gs) = ((2 * nlen gs + 1) mod 256) :: concat (map (pack w) gs).
Proof.
  intros Hw Hg Hl. cbn [run_encode].
  assert (Hsmall : 2 * nlen gs + 1 < 128) by (unfold nlen; lia).
  rewrite uleb_enc_small by exact Hsmall.
  rewrite N.mod_small by lia. cbn [app]. f_equal. f_equal.
  apply map_ext_in. intros g Hin. rewrite Forall_forall in Hg.
  destruct (Hg g Hin) as [Hlen Hv]. symmetry. apply pack_spec; assumption.
Qed.

Lemma closed_run_length w r :
  In w widths -> closed_ok w r -> (length (run_encode w r) <= length (run_values r))%nat.
Proof.
  intros Hw Hr. pose proof (widths_le4 w Hw) as Hw4.
  destruct r as [c v|gs]; cbn [closed_ok] in Hr; cbn [run_encode run_values].
  - destruct Hr as (Hc & Hc31 & Hv).
    rewrite app_length, le_enc_length, repeat_length.
    pose proof (uleb_enc_length32 (2 * c)) as Hu.
    rewrite (value_bytes_widths w Hw). lia.
  - destruct Hr as [Hl Hg].
    assert (Hsmall : 2 * nlen gs + 1 < 128) by (unfold nlen; lia).
    rewrite uleb_enc_small by exact Hsmall.
    cbn [app length].
    rewrite (concat_map_length (spec_pack w) (N.to_nat w)).
    2:{ apply Forall_forall. intros g _. unfold spec_pack. apply le_enc_length. }
    rewrite <- (map_id gs) at 2.
    rewrite (concat_map_length (fun g => g) 8%nat).
    2:{ apply Forall_forall. intros g Hin. rewrite Forall_forall in Hg. apply (Hg g Hin). }
    assert (Hm : (length gs * N.to_nat w <= length gs * 4)%nat)
      by (apply Nat.mul_le_mono_l; lia).
    lia.
Qed.

Lemma closed_runs_length w rs :
  In w widths -> Forall (closed_ok w) rs ->
  (length (runs_encode w rs) <= length (runs_values rs))%nat.
Proof.
  intros Hw. induction 1 as [|r rs Hr Hrs IH].
  - cbn. lia.
  - change (r :: rs) with ([r] ++ rs).
    rewrite runs_encode_app, runs_values_app, !app_length.
    rewrite runs_encode_single, runs_values_single.
    pose proof (closed_run_length w r Hw Hr). lia.
Qed.

(** ** The output-side invariant: closed runs [rs], open bit-packed run [gs] *)

Definition open_ok (w : N) (pre : bytes) (gs : list (list N)) (out : bytes) (hp : option nat) : Prop :=
  match gs with
  | [] => hp = None /\ out = pre
  | _ :: _ => hp = Some (length pre) /\ out = pre ++ 0 :: concat (map (pack w) gs)
  end.

Record Core (w : N) (rs : list run) (gs : list (list N)) (r : rle) : Prop := {
  core_w : r_w r = w;
  core_rs : Forall (closed_ok w) rs;
  core_gs : Forall (group_ok w) gs;
  core_len : (length gs <= 63)%nat;
  core_groups : r_groups r = nlen gs;
  core_open : open_ok w (runs_encode w rs) gs (r_out r) (r_hp r)
}.

Lemma Core_ext w rs gs r r' :
  r_w r' = r_w r -> r_out r' = r_out r -> r_groups r' = r_groups r -> r_hp r' = r_hp r ->
  Core w rs gs r -> Core w rs gs r'.
Proof.
  intros Ew Eo Eg Eh [Hw Hrs Hgs Hlen Hgr Hop].
  constructor; try assumption; congruence.
Qed.

Lemma Core_closed_out w rs r : Core w rs [] r -> r_out r = runs_encode w rs /\ r_hp r = None.
Proof. intros [_ _ _ _ _ Hop]. cbn [open_ok] in Hop. destruct Hop as [Hhp Hout]. auto. Qed.

(** *** endPreviousBitPackedRun *)

Lemma end_previous_bp_fields r :
  r_w (end_previous_bp r) = r_w r /\ r_prev (end_previous_bp r) = r_prev r /\
  r_buf (end_previous_bp r) = r_buf r /\ r_rep (end_previous_bp r) = r_rep r.
Proof. unfold end_previous_bp. destruct (r_hp r) as [hp|]; cbn [r_w r_prev r_buf r_rep]; auto. Qed.

Lemma end_previous_bp_core w rs gs r :
  In w widths -> Core w rs gs r ->
  exists rs', Core w rs' [] (end_previous_bp r) /\
              runs_values rs' = runs_values rs ++ concat gs.
Proof.
  intros Hw HC. pose proof HC as [Hrw Hrs Hgs Hlen Hgr Hop].
  destruct gs as [|g gs]; cbn [open_ok] in Hop; destruct Hop as [Hhp Hout].
  - exists rs. split.
    + unfold end_previous_bp. rewrite Hhp. exact HC.
    + cbn [concat]. rewrite app_nil_r. reflexivity.
  - exists (rs ++ [RBp (g :: gs)]). split.
    + unfold end_previous_bp. rewrite Hhp.
      constructor; cbn [r_w r_out r_groups r_hp].
      * exact Hrw.
      * apply Forall_app. split; [exact Hrs|]. constructor; [|constructor].
        cbn [closed_ok]. split; [cbn [length] in *; lia | exact Hgs].
      * constructor.
      * cbn [length]. lia.
      * reflexivity.
      * cbn [open_ok]. split; [reflexivity|].
        rewrite Hout, update_at_app_mid, runs_encode_app, runs_encode_single.
        rewrite (run_encode_bp w (g :: gs) Hw Hgs Hlen), Hgr. reflexivity.
    + rewrite runs_values_app, runs_values_single. reflexivity.
Qed.

(** *** writeOrAppendBitPackedRun *)

Definition woa_tail (r1 : rle) (vals8 : list N) : rle :=
  let '(out2, hp2) :=
    match r_hp r1 with
    | None => (r_out r1 ++ [0], Some (length (r_out r1)))
    | Some hp => (r_out r1, Some hp)
    end in
  {| r_w := r_w r1;
     r_out := out2 ++ pack (r_w r1) vals8;
     r_prev := r_prev r1; r_buf := []; r_rep := 0;
     r_groups := r_groups r1 + 1; r_hp := hp2 |}.

Lemma write_or_append_bp_eq r g :
  write_or_append_bp r g = woa_tail (if 63 <=? r_groups r then end_previous_bp r else r) g.
Proof. reflexivity. Qed.

Lemma woa_tail_fields r g :
  r_buf (woa_tail r g) = [] /\ r_rep (woa_tail r g) = 0 /\ r_prev (woa_tail r g) = r_prev r.
Proof. unfold woa_tail. destruct (r_hp r) as [hp|]; cbn [r_buf r_rep r_prev]; auto. Qed.

Lemma write_or_append_bp_fields r g :
  r_buf (write_or_append_bp r g) = [] /\ r_rep (write_or_append_bp r g) = 0 /\
  r_prev (write_or_append_bp r g) = r_prev r.
Proof.
  rewrite write_or_append_bp_eq.
  destruct (woa_tail_fields (if 63 <=? r_groups r then end_previous_bp r else r) g) as (Hb & Hr & Hp).
  rewrite Hb, Hr, Hp. repeat split.
  destruct (63 <=? r_groups r); [apply end_previous_bp_fields | reflexivity].
Qed.

Lemma woa_tail_core w rs gs r g :
  Core w rs gs r -> (length gs < 63)%nat -> group_ok w g ->
  Core w rs (gs ++ [g]) (woa_tail r g).
Proof.
  intros [Hrw Hrs Hgs Hlen Hgr Hop] Hlt Hg. unfold woa_tail.
  destruct gs as [|g0 gs0]; cbn [open_ok] in Hop; destruct Hop as [Hhp Hout]; rewrite Hhp.
  - constructor; cbn [r_w r_out r_groups r_hp app].
    + exact Hrw.
    + exact Hrs.
    + constructor; [exact Hg|constructor].
    + cbn [length]. lia.
    + rewrite Hgr. unfold nlen. cbn [length]. lia.
    + cbn [open_ok]. rewrite Hout, Hrw. split; [reflexivity|].
      cbn [map concat]. rewrite app_nil_r, <- app_assoc. reflexivity.
  - constructor; cbn [r_w r_out r_groups r_hp].
    + exact Hrw.
    + exact Hrs.
    + apply Forall_app. split; [exact Hgs|]. constructor; [exact Hg|constructor].
    + rewrite app_length. cbn [length] in *. lia.
    + rewrite Hgr. unfold nlen. rewrite app_length. cbn [length]. lia.
    + cbn [app open_ok]. split; [reflexivity|].
      rewrite Hout, Hrw, open_snoc. f_equal. f_equal.
      change (g0 :: gs0 ++ [g]) with ((g0 :: gs0) ++ [g]).
      rewrite map_app, concat_app. cbn [map concat]. rewrite app_nil_r. reflexivity.
Qed.

Lemma write_or_append_bp_core w rs gs r g :
  In w widths -> Core w rs gs r -> group_ok w g ->
  exists rs' gs', Core w rs' gs' (write_or_append_bp r g) /\
                  runs_values rs' ++ concat gs' = runs_values rs ++ concat gs ++ g.
Proof.
  intros Hw HC Hg. rewrite write_or_append_bp_eq.
  destruct (63 <=? r_groups r) eqn:E63.
  - destruct (end_previous_bp_core w rs gs r Hw HC) as (rs' & HC' & Hval).
    exists rs', ([] ++ [g]). split.
    + apply woa_tail_core; [exact HC' | cbn [length]; lia | exact Hg].
    + rewrite Hval. cbn [app concat]. rewrite app_nil_r, <- app_assoc. reflexivity.
  - exists rs, (gs ++ [g]). split.
    + apply woa_tail_core; [exact HC | | exact Hg].
      pose proof (core_groups _ _ _ _ HC) as Hgr. unfold nlen in Hgr. lia.
    + rewrite concat_app. cbn [concat]. rewrite app_nil_r. reflexivity.
Qed.

(** *** writeRLERun *)

Lemma write_rle_run_fields r :
  r_buf (write_rle_run r) = [] /\ r_rep (write_rle_run r) = 0 /\
  r_prev (write_rle_run r) = r_prev r.
Proof.
  unfold write_rle_run. cbn [r_buf r_rep r_prev]. repeat split. apply end_previous_bp_fields.
Qed.

Lemma write_rle_run_core w rs gs r :
  In w widths -> Core w rs gs r -> 8 <= r_rep r -> r_rep r < 2 ^ 31 -> val_ok w (r_prev r) ->
  exists rs', Core w rs' [] (write_rle_run r) /\
              runs_values rs' =
              runs_values rs ++ concat gs ++ repeat (r_prev r) (N.to_nat (r_rep r)).
Proof.
  intros Hw HC H8 H31 Hv.
  destruct (end_previous_bp_core w rs gs r Hw HC) as (rs1 & HC1 & Hval).
  destruct (end_previous_bp_fields r) as (Ew & Ep & _ & Er).
  destruct (Core_closed_out _ _ _ HC1) as [Hout Hhp].
  pose proof HC1 as [Hrw Hrs _ _ Hgr _].
  exists (rs1 ++ [RRle (r_rep r) (r_prev r)]). split.
  - unfold write_rle_run. constructor; cbn [r_w r_out r_groups r_hp].
    + exact Hrw.
    + apply Forall_app. split; [exact Hrs|]. constructor; [|constructor].
      cbn [closed_ok]. auto.
    + constructor.
    + cbn [length]. lia.
    + exact Hgr.
    + cbn [open_ok]. split; [exact Hhp|].
      rewrite Hout, Er, Ep, Hrw, runs_encode_app, runs_encode_single. cbn [run_encode].
      rewrite leb128_go_spec by lia. rewrite rle_value_bytes_spec by exact Hw. reflexivity.
  - rewrite runs_values_app, runs_values_single, Hval, <- app_assoc. reflexivity.
Qed.

(** ** The input-side invariant: values consumed but not yet written *)

Definition pend (w : N) (r : rle) (p : list N) : Prop :=
  Forall (val_ok w) p /\
  if r_rep r <? 8 then
    p = r_buf r /\ (length (r_buf r) < 8)%nat /\
    exists pre, r_buf r = pre ++ repeat (r_prev r) (N.to_nat (r_rep r))
  else
    r_buf r = repeat (r_prev r) 7 /\ p = repeat (r_prev r) (N.to_nat (r_rep r)).

Definition Inv (w : N) (consumed : list N) (r : rle) : Prop :=
  exists rs gs p,
    Core w rs gs r /\ pend w r p /\ consumed = runs_values rs ++ concat gs ++ p.

Lemma Inv_new w : Inv w [] (rle_new w).
Proof.
  exists [], [], []. split; [|split].
  - constructor; cbn [rle_new r_w r_out r_groups r_hp]; try constructor; try reflexivity.
    cbn [length]. lia.
  - split; [constructor|]. cbn [rle_new r_rep r_buf r_prev].
    destruct (0 <? 8) eqn:E; [|lia].
    split; [reflexivity|]. split; [cbn [length]; lia|]. exists []. reflexivity.
  - reflexivity.
Qed.

(** *** pushing a value into valBuf *)

Definition with_buf (r : rle) (b : list N) : rle :=
  {| r_w := r_w r; r_out := r_out r; r_prev := r_prev r; r_buf := b;
     r_rep := r_rep r; r_groups := r_groups r; r_hp := r_hp r |}.

Lemma rle_push_eq r v :
  rle_push r v =
  if Nat.eqb (length (r_buf r ++ [v])) 8
  then write_or_append_bp (with_buf r (r_buf r ++ [v])) (r_buf r ++ [v])
  else with_buf r (r_buf r ++ [v]).
Proof. reflexivity. Qed.

Lemma rle_push_inv w rs gs r v b k pv :
  In w widths -> Core w rs gs r ->
  r_buf r = b -> r_rep r = k -> r_prev r = pv ->
  (length b < 8)%nat -> Forall (val_ok w) (b ++ [v]) -> k < 8 ->
  (exists pre, b ++ [v] = pre ++ repeat pv (N.to_nat k)) ->
  Inv w (runs_values rs ++ concat gs ++ b ++ [v]) (rle_push r v).
Proof.
  intros Hw HC Hb Hk Hpv Hlen Hv Hk8 Hsuf.
  rewrite rle_push_eq, Hb.
  assert (HC1 : Core w rs gs (with_buf r (b ++ [v]))).
  { apply (Core_ext w rs gs r); [reflexivity .. | exact HC]. }
  assert (Hl1 : length (b ++ [v]) = S (length b)).
  { rewrite app_length. cbn [length]. lia. }
  destruct (Nat.eqb (length (b ++ [v])) 8) eqn:E.
  - apply Nat.eqb_eq in E.
    assert (Hg : group_ok w (b ++ [v])) by (split; assumption).
    destruct (write_or_append_bp_core w rs gs _ _ Hw HC1 Hg) as (rs' & gs' & HC2 & Hval).
    destruct (write_or_append_bp_fields (with_buf r (b ++ [v])) (b ++ [v])) as (Fb & Fr & _).
    exists rs', gs', []. split; [exact HC2|]. split.
    + split; [constructor|]. rewrite Fr, Fb.
      destruct (0 <? 8) eqn:E0; [|lia].
      split; [reflexivity|]. split; [cbn [length]; lia|]. exists []. reflexivity.
    + rewrite app_nil_r, app_assoc, Hval, <- app_assoc. reflexivity.
  - apply Nat.eqb_neq in E.
    exists rs, gs, (b ++ [v]). split; [exact HC1|]. split; [|reflexivity].
    split; [exact Hv|]. cbn [with_buf r_rep r_buf r_prev]. rewrite Hk, Hpv.
    destruct (k <? 8) eqn:E8; [|lia].
    split; [reflexivity|]. split; [lia|]. exact Hsuf.
Qed.

(** *** RLE.Write *)

Lemma full_repeat_buf (pre : list N) x :
  (length (pre ++ repeat x 7) < 8)%nat -> pre = [].
Proof.
  destruct pre as [|y pre]; [reflexivity|].
  cbn [app length]. rewrite app_length, repeat_length. lia.
Qed.

Lemma rle_write_inv w c r v :
  In w widths -> Inv w c r -> val_ok w v -> N.of_nat (length c) < 2 ^ 31 ->
  Inv w (c ++ [v]) (rle_write r v).
Proof.
  intros Hw (rs & gs & p & HC & [Hpv Hp] & Hc) Hv H31.
  assert (Hplen : (length p <= length c)%nat).
  { rewrite Hc, !app_length. lia. }
  unfold rle_write.
  destruct (v =? r_prev r) eqn:Ev.
  - apply N.eqb_eq in Ev. cbn [set_rep_prev r_rep].
    destruct (8 <=? r_rep r + 1) eqn:E8.
    + (* the value joins a repeat of 8 or more: not buffered *)
      assert (Hshape : r_buf r = repeat (r_prev r) 7 /\ p = repeat (r_prev r) (N.to_nat (r_rep r))).
      { destruct (r_rep r <? 8) eqn:E7.
        - destruct Hp as (Hpb & Hl & pre & Hpre).
          assert (H7 : N.to_nat (r_rep r) = 7%nat) by lia.
          rewrite H7 in *. rewrite Hpre in Hl. apply full_repeat_buf in Hl.
          subst pre. cbn [app] in Hpre. split; congruence.
        - exact Hp. }
      destruct Hshape as [Hbuf Hprep].
      assert (Hrep1 : repeat (r_prev r) (N.to_nat (r_rep r + 1)) = p ++ [r_prev r]).
      { replace (N.to_nat (r_rep r + 1)) with (S (N.to_nat (r_rep r))) by lia.
        rewrite <- repeat_snoc, <- Hprep. reflexivity. }
      exists rs, gs, (p ++ [r_prev r]). split; [|split].
      * apply (Core_ext w rs gs r); [reflexivity .. | exact HC].
      * split.
        -- apply Forall_app. split; [exact Hpv|]. constructor; [|constructor]. rewrite <- Ev. exact Hv.
        -- cbn [set_rep_prev r_rep r_buf r_prev].
           destruct (r_rep r + 1 <? 8) eqn:E7; [lia|]. split; [exact Hbuf|]. symmetry. exact Hrep1.
      * rewrite Hc, Ev, <- !app_assoc. reflexivity.
    + (* still fewer than 8 repeats: buffered *)
      destruct (r_rep r <? 8) eqn:E7; [|lia].
      destruct Hp as (Hpb & Hl & pre & Hpre).
      rewrite Hc, Hpb, <- !app_assoc.
      apply (rle_push_inv w rs gs _ v (r_buf r) (r_rep r + 1) (r_prev r) Hw).
      * apply (Core_ext w rs gs r); [reflexivity .. | exact HC].
      * reflexivity.
      * reflexivity.
      * reflexivity.
      * exact Hl.
      * apply Forall_app. split; [rewrite <- Hpb; exact Hpv|]. constructor; [exact Hv|constructor].
      * lia.
      * exists pre. replace (N.to_nat (r_rep r + 1)) with (S (N.to_nat (r_rep r))) by lia.
        rewrite <- repeat_snoc, app_assoc, <- Hpre, Ev. reflexivity.
  - apply N.eqb_neq in Ev.
    destruct (8 <=? r_rep r) eqn:E8.
    + (* a repeat of 8 or more ends: emit it as an RLE run *)
      destruct (r_rep r <? 8) eqn:E7; [lia|].
      destruct Hp as [Hbuf Hprep].
      assert (Hlp : length p = N.to_nat (r_rep r)) by (rewrite Hprep; apply repeat_length).
      assert (Hprev : val_ok w (r_prev r)).
      { rewrite Hprep in Hpv. destruct (N.to_nat (r_rep r)) as [|n] eqn:En; [lia|].
        cbn [repeat] in Hpv. inversion Hpv as [|x l Hx Hl]. exact Hx. }
      destruct (write_rle_run_core w rs gs r Hw HC) as (rs' & HC' & Hval); [lia|lia|exact Hprev|].
      rewrite Hc, Hprep, !app_assoc, <- (app_assoc (runs_values rs)), <- Hval.
      change (runs_values rs' ++ [v]) with (runs_values rs' ++ concat [] ++ [] ++ [v]).
      apply (rle_push_inv w rs' [] _ v [] 1 v Hw).
      * apply (Core_ext w rs' [] (write_rle_run r)); [reflexivity .. | exact HC'].
      * reflexivity.
      * reflexivity.
      * reflexivity.
      * cbn [length]. lia.
      * constructor; [exact Hv|constructor].
      * lia.
      * exists []. reflexivity.
    + destruct (r_rep r <? 8) eqn:E7; [|lia].
      destruct Hp as (Hpb & Hl & pre & Hpre).
      rewrite Hc, Hpb, <- !app_assoc.
      apply (rle_push_inv w rs gs _ v (r_buf r) 1 v Hw).
      * apply (Core_ext w rs gs r); [reflexivity .. | exact HC].
      * reflexivity.
      * reflexivity.
      * reflexivity.
      * exact Hl.
      * apply Forall_app. split; [rewrite <- Hpb; exact Hpv|]. constructor; [exact Hv|constructor].
      * lia.
      * exists (r_buf r). reflexivity.
Qed.

Lemma rle_fold_inv w ls :
  In w widths -> forall c r,
  Inv w c r -> Forall (val_ok w) ls -> N.of_nat (length (c ++ ls)) < 2 ^ 31 ->
  Inv w (c ++ ls) (fold_left rle_write ls r).
Proof.
  intros Hw. induction ls as [|v ls IH]; intros c r HI Hv H31.
  - cbn [fold_left]. rewrite app_nil_r. exact HI.
  - cbn [fold_left]. inversion Hv as [|x l Hx Hl]; subst x l.
    replace (c ++ v :: ls) with ((c ++ [v]) ++ ls) in * by (rewrite <- app_assoc; reflexivity).
    apply IH; [|exact Hl|exact H31].
    apply rle_write_inv; [exact Hw|exact HI|exact Hx|].
    rewrite !app_length in H31. lia.
Qed.

(** *** RLE.Bytes *)

Lemma rle_flush_inv w c r :
  In w widths -> Inv w c r -> N.of_nat (length c) < 2 ^ 31 ->
  exists rs pad,
    r_out (rle_flush r) = runs_encode w rs /\ Forall (closed_ok w) rs /\
    runs_values rs = c ++ repeat 0 pad /\ (pad < 8)%nat.
Proof.
  intros Hw (rs & gs & p & HC & [Hpv Hp] & Hc) H31.
  assert (Hplen : (length p <= length c)%nat).
  { rewrite Hc, !app_length. lia. }
  unfold rle_flush.
  destruct (8 <=? r_rep r) eqn:E8.
  - destruct (r_rep r <? 8) eqn:E7; [lia|].
    destruct Hp as [Hbuf Hprep].
    assert (Hlp : length p = N.to_nat (r_rep r)) by (rewrite Hprep; apply repeat_length).
    assert (Hprev : val_ok w (r_prev r)).
    { rewrite Hprep in Hpv. destruct (N.to_nat (r_rep r)) as [|n] eqn:En; [lia|].
      cbn [repeat] in Hpv. inversion Hpv as [|x l Hx Hl]. exact Hx. }
    destruct (write_rle_run_core w rs gs r Hw HC) as (rs' & HC' & Hval); [lia|lia|exact Hprev|].
    exists rs', 0%nat. split; [apply (Core_closed_out _ _ _ HC')|].
    split; [apply (core_rs _ _ _ _ HC')|]. split; [|lia].
    cbn [repeat]. rewrite app_nil_r, Hval, Hc, Hprep. reflexivity.
  - destruct (r_rep r <? 8) eqn:E7; [|lia].
    destruct Hp as (Hpb & Hl & _).
    destruct (Nat.eqb (length (r_buf r)) 0) eqn:E0; cbn [negb].
    + apply Nat.eqb_eq in E0.
      destruct (end_previous_bp_core w rs gs r Hw HC) as (rs' & HC' & Hval).
      exists rs', 0%nat. split; [apply (Core_closed_out _ _ _ HC')|].
      split; [apply (core_rs _ _ _ _ HC')|]. split; [|lia].
      destruct (r_buf r) as [|x l]; [|cbn [length] in E0; lia].
      cbn [repeat]. rewrite !app_nil_r, Hval, Hc, Hpb, app_nil_r. reflexivity.
    + apply Nat.eqb_neq in E0.
      set (pad := (8 - length (r_buf r))%nat).
      assert (Hg : group_ok w (r_buf r ++ repeat 0 pad)).
      { split.
        - rewrite app_length, repeat_length. unfold pad. lia.
        - apply Forall_app. split; [rewrite <- Hpb; exact Hpv|].
          apply Forall_forall. intros x Hx. apply repeat_spec in Hx. subst x.
          unfold val_ok. apply N.neq_0_lt_0. apply N.pow_nonzero. lia. }
      destruct (write_or_append_bp_core w rs gs r _ Hw HC Hg) as (rs1 & gs1 & HC1 & Hval1).
      destruct (end_previous_bp_core w rs1 gs1 _ Hw HC1) as (rs' & HC' & Hval).
      exists rs', pad. split; [apply (Core_closed_out _ _ _ HC')|].
      split; [apply (core_rs _ _ _ _ HC')|]. split; [|unfold pad; lia].
      rewrite Hval, Hval1, Hc, Hpb, <- !app_assoc. reflexivity.
Qed.

(** ** The encoder as a whole *)

Lemma rle_encode_runs w ls :
  In w widths -> Forall (fun v => v < 2 ^ w) ls -> N.of_nat (length ls) < 2 ^ 31 ->
  exists rs pad,
    rle_encode w ls = hybrid_encode w rs /\
    Forall (closed_ok w) rs /\
    runs_values rs = ls ++ repeat 0 pad /\
    (pad < 8)%nat /\
    (length (runs_encode w rs) <= length ls + pad)%nat.
Proof.
  intros Hw Hv H31.
  assert (HI : Inv w ([] ++ ls) (fold_left rle_write ls (rle_new w))).
  { apply rle_fold_inv; [exact Hw | apply Inv_new | exact Hv | exact H31]. }
  cbn [app] in HI.
  destruct (rle_flush_inv w ls _ Hw HI H31) as (rs & pad & Hout & Hrs & Hval & Hpad).
  pose proof (closed_runs_length w rs Hw Hrs) as Hlen.
  rewrite Hval, app_length, repeat_length in Hlen.
  exists rs, pad. repeat split; try assumption.
  unfold rle_encode, rle_bytes, hybrid_encode. rewrite Hout.
  rewrite N.mod_small; [reflexivity|]. unfold nlen. lia.
Qed.

Theorem rle_encode_ok w ls :
  In w widths -> Forall (fun v => v < 2 ^ w) ls -> N.of_nat (length ls) < 2 ^ 31 ->
  exists rs pad,
    rle_encode w ls = hybrid_encode w rs /\
    Forall (wf_run w) rs /\
    runs_values rs = ls ++ repeat 0 pad /\
    (pad < 8)%nat /\
    (forall r, In r rs -> match r with RBp gs => (length gs <= 63)%nat | RRle c _ => 8 <= c end).
Proof.
  intros Hw Hv H31.
  destruct (rle_encode_runs w ls Hw Hv H31) as (rs & pad & Henc & Hrs & Hval & Hpad & _).
  exists rs, pad. repeat split; try assumption.
  - apply Forall_forall. intros r Hr. rewrite Forall_forall in Hrs.
    apply closed_ok_wf. apply Hrs. exact Hr.
  - intros r Hr. rewrite Forall_forall in Hrs. apply (closed_ok_shape w). apply Hrs. exact Hr.
Qed.

(** Every 8 values cost at most 6 bytes; the frame adds 4 and the padding less than 8. *)
Lemma rle_encode_length_bound w ls :
  In w widths -> Forall (fun v => v < 2 ^ w) ls -> N.of_nat (length ls) < 2 ^ 31 ->
  (length (rle_encode w ls) <= length ls + 11)%nat.
Proof.
  intros Hw Hv H31.
  destruct (rle_encode_runs w ls Hw Hv H31) as (rs & pad & Henc & _ & _ & Hpad & Hlen).
  rewrite Henc. unfold hybrid_encode. rewrite app_length, le_enc_length. lia.
Qed.

Print Assumptions rle_encode_ok.
Print Assumptions rle_encode_length_bound.
