(** * ValidatorProofs: the independent validator [FileSpec.check_file] accepts
    every file the writer model produces and sees exactly the records that
    were written (property C02), layer by layer: pages of a chunk, chunk,
    chunks of a row group, row group, row groups, file. *)
From Coq Require Import List NArith ZArith Lia Bool Arith PeanoNat.
From Coq Require Import ZifyN ZifyNat ZifyBool.
From PQ Require Import Bytes Schema Dremel DremelProofs Plain PlainProofs Stats StatsProofs
  MetaTypes Thrift Meta MetaProofs Writer WriterProofs FileSpec PageProofs SchemaProofs.
Import ListNotations.
Local Open Scope N_scope.

Ltac Zify.zify_post_hook ::= Z.div_mod_to_equations.

(** ** Small list facts *)

Lemma skipn_nlen_app {A} (a b : list A) : skipn (N.to_nat (nlen a)) (a ++ b) = b.
Proof. unfold nlen. rewrite Nat2N.id. apply skipn_app_exact. Qed.

Lemma enc_page_header_nonempty ph : page_header_ok ph = true -> enc_page_header ph <> [].
Proof.
  intros Hok He. pose proof (dec_enc_page_header ph [] Hok) as H.
  rewrite He in H. cbn [app] in H. vm_compute in H. discriminate H.
Qed.

Definition page_len (p : page) : N := nlen (pg_header_bytes p) + nlen (pg_body p).

Lemma nlen_chunk_bytes_cons p ps :
  nlen (chunk_bytes (p :: ps)) = page_len p + nlen (chunk_bytes ps).
Proof. rewrite chunk_bytes_cons, !nlen_app. unfold page_len. lia. Qed.

Section WithCodec.

Variable compress : Z -> bytes -> bytes.
Variable decompress : Z -> bytes -> option bytes.
Hypothesis Hcodec : forall c x, In c [CODEC_UNCOMPRESSED; CODEC_SNAPPY; CODEC_GZIP] ->
                                 decompress c (compress c x) = Some x.

(** ** Pages of one column chunk *)

(** what a page must satisfy: [PageProofs.entries_ok] and a compressed body below 2 GiB *)
Definition page_guard (codec : Z) (c : col) (es : list entry) : Prop :=
  entries_ok c es /\ nlen (compress codec (page_payload c es)) < 2 ^ 31.

Definition page_view_of (off : N) (p : page) (es : list entry) : page_view :=
  {| pv_offset := off; pv_header_len := nlen (pg_header_bytes p); pv_header := pg_header p;
     pv_entries := es; pv_records := count_rep0 es; pv_stats_ok := true |}.

Fixpoint page_views (codec : Z) (c : col) (off : N) (ess : list (list entry)) : list page_view :=
  match ess with
  | [] => []
  | es :: r =>
      let p := make_page compress codec c es in
      page_view_of off p es :: page_views codec c (off + page_len p) r
  end.

Lemma page_guard_header_ok codec c es :
  page_guard codec c es -> page_header_ok (pg_header (make_page compress codec c es)) = true.
Proof.
  intros [(Hne & Hes & Hfirst & Hlen & Hpay) Hbody]. rewrite make_page_eq. cbn [pg_header].
  apply page_hdr_ok; try assumption.
  unfold nlen. change (2 ^ 31) with 2147483648 in *. lia.
Qed.

Lemma page_len_pos codec c es :
  page_guard codec c es -> 1 <= page_len (make_page compress codec c es).
Proof.
  intros Hg. pose proof (enc_page_header_nonempty _ (page_guard_header_ok codec c es Hg)) as Hne.
  unfold page_len. rewrite make_page_eq in *. cbn [pg_header pg_header_bytes pg_body] in *.
  destruct (enc_page_header (page_hdr compress codec c es)); [congruence|].
  unfold nlen. cbn [length]. lia.
Qed.

Lemma pages_count_le_bytes codec c ess :
  Forall (page_guard codec c) ess ->
  N.of_nat (length ess) <= nlen (chunk_bytes (map (make_page compress codec c) ess)).
Proof.
  induction 1 as [|es ess Hes Hess IH]; [cbn; lia|].
  cbn [map length]. rewrite nlen_chunk_bytes_cons.
  pose proof (page_len_pos codec c es Hes). lia.
Qed.

Lemma check_pages_written c codec :
  col_ok c -> codec_ok codec ->
  forall ess fuel off rest,
    Forall (page_guard codec c) ess -> (length ess < fuel)%nat ->
    check_pages decompress fuel c codec off
      (nlen (chunk_bytes (map (make_page compress codec c) ess)))
      (chunk_bytes (map (make_page compress codec c) ess) ++ rest) =
    inr (page_views codec c off ess).
Proof.
  intros Hc Hcd. induction ess as [|es ess IH]; intros fuel off rest Hess Hfuel.
  - destruct fuel as [|f]; [cbn [length] in Hfuel; lia|]. reflexivity.
  - destruct fuel as [|f]; [lia|]. cbn [length] in Hfuel.
    pose proof (Forall_inv Hess) as Hes. pose proof (Forall_inv_tail Hess) as Hess'.
    cbn [map check_pages]. rewrite nlen_chunk_bytes_cons, chunk_bytes_cons.
    pose proof (page_len_pos codec c es Hes) as Hpos.
    set (p := make_page compress codec c es) in *.
    set (tl := chunk_bytes (map (make_page compress codec c) ess)) in *.
    destruct (N.eqb_spec (page_len p + nlen tl) 0) as [Hz|_]; [lia|].
    rewrite <- !app_assoc.
    destruct Hes as [Hok Hbody].
    pose proof (check_page_make_page compress decompress Hcodec c codec off es (tl ++ rest)
                  Hc Hok Hcd Hbody) as HP.
    cbv zeta in HP. fold p in HP. rewrite HP. fold (page_len p).
    destruct (N.ltb_spec (page_len p + nlen tl) (page_len p)) as [Hlt|_]; [lia|].
    replace (page_len p + nlen tl - page_len p) with (nlen tl) by lia.
    replace (skipn (N.to_nat (page_len p)) (pg_header_bytes p ++ pg_body p ++ tl ++ rest))
      with (tl ++ rest).
    2:{ rewrite (app_assoc (pg_header_bytes p)). unfold page_len. rewrite <- nlen_app.
        rewrite skipn_nlen_app. reflexivity. }
    subst tl. rewrite IH by (assumption || lia).
    reflexivity.
Qed.

(** ** One column chunk *)

Definition chunk_cm (codec : Z) (pos : N) (ca : chunk_acc) : column_meta :=
  {| cm_type := prim_type (c_prim (ca_col ca));
     cm_encodings := [ENC_PLAIN];
     cm_path := c_path (ca_col ca);
     cm_codec := codec;
     cm_num_values := Z.of_N (ca_num_values ca);
     cm_total_uncompressed := Z.of_N (ca_uncompressed ca);
     cm_total_compressed := Z.of_N (ca_compressed ca);
     cm_key_value := None;
     cm_data_page_offset := Z.of_N pos;
     cm_index_page_offset := None; cm_dictionary_page_offset := None;
     cm_statistics := None; cm_encoding_stats := None |}.

Definition chunk_view_of (codec : Z) (c : col) (pos : N) (ess : list (list entry)) : chunk_view :=
  {| cv_col := c;
     cv_meta := chunk_cm codec pos (chunk_of_pages c (map (make_page compress codec c) ess));
     cv_file_offset := Z.of_N pos;
     cv_pages := page_views codec c pos ess |}.

Lemma prim_type_phys p : prim_type p = phys_type p.
Proof. destruct p; reflexivity. Qed.

Lemma path_eq_refl a : path_eq a a = true.
Proof. unfold path_eq. destruct (list_eq_dec (list_eq_dec N.eq_dec) a a); congruence. Qed.

Lemma codec_ok_supported codec : codec_ok codec -> codec_supported codec = true.
Proof.
  unfold codec_ok. cbn [In]. intros [<-|[<-|[<-|[]]]]; reflexivity.
Qed.

Lemma page_views_num_values codec c ess : forall off,
  sumN (map (fun pv => nlen (pv_entries pv)) (page_views codec c off ess)) =
  sumN (map pg_count (map (make_page compress codec c) ess)).
Proof.
  induction ess as [|es ess IH]; intros off; [reflexivity|].
  cbn [page_views map sumN]. rewrite IH. reflexivity.
Qed.

Lemma page_views_uncompressed codec c ess :
  Forall (page_guard codec c) ess -> forall off,
  sumN (map (fun pv => pv_header_len pv + Z.to_N (ph_uncompressed_size (pv_header pv)))
            (page_views codec c off ess)) =
  sumN (map (fun p => nlen (pg_header_bytes p) + pg_payload_len p)
            (map (make_page compress codec c) ess)).
Proof.
  induction 1 as [|es ess Hes Hess IH]; intros off; [reflexivity|].
  cbn [page_views map sumN]. rewrite IH. f_equal.
  destruct Hes as [(_ & _ & _ & _ & Hpay) _].
  rewrite make_page_eq.
  cbn [page_view_of pv_header_len pv_header pg_header pg_header_bytes pg_payload_len
       page_hdr ph_uncompressed_size].
  rewrite i32_small by exact Hpay. rewrite N2Z.id. reflexivity.
Qed.

Lemma check_chunk_written file limit c codec pos ess pre post :
  col_ok c -> codec_ok codec -> Forall (page_guard codec c) ess ->
  file = pre ++ chunk_bytes (map (make_page compress codec c) ess) ++ post ->
  nlen pre = pos ->
  pos + nlen (chunk_bytes (map (make_page compress codec c) ess)) <= limit ->
  check_chunk decompress file limit c pos
    (chunk_meta codec pos (chunk_of_pages c (map (make_page compress codec c) ess))) =
  inr (chunk_view_of codec c pos ess,
       pos + nlen (chunk_bytes (map (make_page compress codec c) ess))).
Proof.
  intros Hc Hcd Hess Hfile Hpre Hlim.
  set (pages := map (make_page compress codec c) ess) in *.
  unfold check_chunk, chunk_meta. cbn [cc_meta cc_file_offset].
  fold (chunk_cm codec pos (chunk_of_pages c pages)).
  cbn [chunk_cm cm_path cm_type cm_codec cm_data_page_offset cm_total_compressed
       cm_total_uncompressed cm_num_values chunk_of_pages ca_col].
  rewrite path_eq_refl, prim_type_phys, Z.eqb_refl, (codec_ok_supported codec Hcd), Z.eqb_refl.
  cbn [negb]. rewrite !Z_of_N_ltb0. cbn [orb]. rewrite !N2Z.id.
  fold (chunk_of_pages c pages). rewrite ca_compressed_pages.
  destruct (N.ltb_spec limit (pos + nlen (chunk_bytes pages))) as [Hlt|_]; [lia|].
  rewrite orb_true_r. cbn [orb negb].
  replace (skipn (N.to_nat pos) file) with (chunk_bytes pages ++ post).
  2:{ rewrite Hfile, <- Hpre, skipn_nlen_app. reflexivity. }
  subst pages.
  rewrite check_pages_written; try assumption.
  2:{ pose proof (pages_count_le_bytes codec c ess Hess). lia. }
  rewrite page_views_num_values, page_views_uncompressed by exact Hess.
  cbn [chunk_of_pages ca_num_values ca_uncompressed].
  rewrite !N.eqb_refl. cbn [negb]. reflexivity.
Qed.

(** ** The column chunks of one row group *)

Definition col_pages (codec : Z) (ce : col * list (list entry)) : list page :=
  map (make_page compress codec (fst ce)) (snd ce).

Definition cols_bytes (codec : Z) (cess : list (col * list (list entry))) : bytes :=
  concat (map (fun ce => chunk_bytes (col_pages codec ce)) cess).

Definition cols_accs (codec : Z) (cess : list (col * list (list entry))) : list chunk_acc :=
  map (fun ce => chunk_of_pages (fst ce) (col_pages codec ce)) cess.

Fixpoint chunk_views (codec : Z) (pos : N) (cess : list (col * list (list entry))) : list chunk_view :=
  match cess with
  | [] => []
  | ce :: r =>
      chunk_view_of codec (fst ce) pos (snd ce)
      :: chunk_views codec (pos + nlen (chunk_bytes (col_pages codec ce))) r
  end.

Definition col_guard (codec : Z) (ce : col * list (list entry)) : Prop :=
  col_ok (fst ce) /\ Forall (page_guard codec (fst ce)) (snd ce).

Lemma cols_bytes_cons codec ce r :
  cols_bytes codec (ce :: r) = chunk_bytes (col_pages codec ce) ++ cols_bytes codec r.
Proof. reflexivity. Qed.

Lemma cols_accs_compressed codec cess :
  sumN (map ca_compressed (cols_accs codec cess)) = nlen (cols_bytes codec cess).
Proof.
  induction cess as [|ce r IH]; [reflexivity|].
  rewrite cols_bytes_cons, nlen_app. cbn [cols_accs map sumN].
  fold (cols_accs codec r). rewrite IH, ca_compressed_pages. reflexivity.
Qed.

Lemma check_chunks_written file limit codec :
  codec_ok codec ->
  forall cess pos pre post,
    Forall (col_guard codec) cess ->
    file = pre ++ cols_bytes codec cess ++ post -> nlen pre = pos ->
    pos + nlen (cols_bytes codec cess) <= limit ->
    check_chunks decompress file limit (map fst cess) pos
      (fst (chunks_meta codec pos (cols_accs codec cess))) =
    inr (chunk_views codec pos cess, pos + nlen (cols_bytes codec cess)).
Proof.
  intros Hcd. induction cess as [|ce r IH]; intros pos pre post Hg Hfile Hpre Hlim.
  - cbn [map cols_accs chunks_meta fst check_chunks chunk_views cols_bytes concat].
    change (nlen (@nil N)) with 0. rewrite N.add_0_r. reflexivity.
  - pose proof (Forall_inv Hg) as [Hc Hps]. pose proof (Forall_inv_tail Hg) as Hg'.
    cbn [cols_accs map]. fold (cols_accs codec r).
    rewrite chunks_meta_cons. cbn [fst check_chunks chunk_views].
    rewrite cols_bytes_cons, nlen_app in *. rewrite <- app_assoc in Hfile.
    unfold col_pages at 1.
    rewrite (check_chunk_written file limit (fst ce) codec pos (snd ce) pre
               (cols_bytes codec r ++ post) Hc Hcd Hps Hfile Hpre) by (unfold col_pages in Hlim; lia).
    fold (col_pages codec ce). rewrite ca_compressed_pages.
    rewrite (IH (pos + nlen (chunk_bytes (col_pages codec ce)))
                (pre ++ chunk_bytes (col_pages codec ce)) post Hg').
    + rewrite N.add_assoc. reflexivity.
    + rewrite Hfile, <- app_assoc. reflexivity.
    + rewrite nlen_app, Hpre. reflexivity.
    + lia.
Qed.

(** ** Striping facts needed by the row-group layer *)

(** leaf values of a well-typed record are well-typed for their column *)
Definition vals_ok (c : col) (es : list entry) : Prop :=
  Forall (fun e => match e_val e with Some v => prim_ok (c_prim c) v = true | None => True end) es.

Lemma null_cols_vals t : forall pth rs r d,
  Forall2 vals_ok (columns_ty pth rs t) (null_cols t r d).
Proof.
  induction t as [p|fs IH] using ty_ind'; intros pth rs r d.
  - rewrite columns_ty_leaf, null_cols_leaf. constructor; [|constructor].
    constructor; [|constructor]. cbn [mk_entry e_val]. exact I.
  - induction IH as [|[[n rp] t'] fs Ht' Hfs IHfs]; [constructor|].
    rewrite columns_ty_cons, null_cols_cons. apply Forall2_app; [|exact IHfs].
    cbn [snd] in Ht'. apply Ht'.
Qed.

Lemma vals_ok_zipcat cols a b :
  Forall2 vals_ok cols a -> Forall2 vals_ok cols b -> Forall2 vals_ok cols (zipcat a b).
Proof.
  intros Ha. revert b. induction Ha as [|c x cols a Hx Ha IH]; intros b Hb;
    inversion Hb as [|c' y cols' b' Hy Hb' E1 E2]; subst; cbn [zipcat]; constructor.
  - apply Forall_app. split; assumption.
  - apply IH. exact Hb'.
Qed.

Lemma vals_ok_zipcat_list cols css : forall c0,
  Forall2 vals_ok cols c0 -> Forall (Forall2 vals_ok cols) css ->
  Forall2 vals_ok cols (zipcat_list c0 css).
Proof.
  induction css as [|c1 css IH]; intros c0 H0 Hcss; cbn [zipcat_list]; [exact H0|].
  destruct (proj1 (Forall_cons_iff _ _ _) Hcss) as [H1 Hrest].
  apply vals_ok_zipcat; [exact H0|]. apply IH; assumption.
Qed.

Definition vals_stmt (t : ty) : Prop :=
  forall pth rs v r d k, has_tyb t v = true ->
    Forall2 vals_ok (columns_ty pth rs t) (shred_ty t v r d k).

Lemma shred_field_vals rp t' v' pth rs n r d k :
  vals_stmt t' -> has_field rp t' v' = true ->
  Forall2 vals_ok (columns_ty (pth ++ [n]) (rs ++ [rp]) t') (shred_field rp t' v' r d k).
Proof.
  intros IH H.
  destruct (shred_field_case rp t' v' r d k H) as [v Hv| |v Hnn Hv| |x xs Hx Hxs].
  - apply IH. exact Hv.
  - apply null_cols_vals.
  - apply IH. exact Hv.
  - apply null_cols_vals.
  - apply vals_ok_zipcat_list.
    + apply IH. exact Hx.
    + apply Forall_map. eapply Forall_impl; [|exact Hxs]. cbv beta. intros y Hy. apply IH. exact Hy.
Qed.

Lemma shred_ty_vals t : vals_stmt t.
Proof.
  induction t as [p|fs IH] using ty_ind'; intros pth rs v r d k Hv.
  - rewrite columns_ty_leaf, shred_ty_leaf. constructor; [|constructor].
    constructor; [|constructor]. cbn [mk_entry e_val c_prim]. exact Hv.
  - apply has_tyb_group_inv in Hv. destruct Hv as (vs & -> & Hvs).
    rewrite shred_ty_group. revert vs Hvs.
    induction IH as [|[[n rp] t'] fs Ht' Hfs IHfs]; intros [|v' vs] Hvs; try discriminate; [constructor|].
    cbn [has_fields] in Hvs. apply andb_true_iff in Hvs. destruct Hvs as [Hv' Hvs].
    rewrite columns_ty_cons. cbn [shred_fields]. apply Forall2_app; [|apply IHfs; exact Hvs].
    apply shred_field_vals; assumption.
Qed.

Definition rec_ok (fs : list field) (r : value) : Prop := has_tyb (TGroup fs) r = true.

Lemma columns_length fs : length (columns fs) = leaf_count (TGroup fs).
Proof. unfold columns. apply columns_ty_length. Qed.

Lemma shred_record_length fs r : rec_ok fs r -> length (shred_record fs r) = length (columns fs).
Proof. intros Hr. rewrite columns_length. unfold shred_record. apply shred_ty_length. exact Hr. Qed.

Lemma shred_record_nth fs r i c :
  rec_ok fs r -> nth_error (columns fs) i = Some c ->
  nth_error (shred_record fs r) i = Some (nth i (shred_record fs r) []).
Proof.
  intros Hr Hc. apply nth_error_nth'. rewrite shred_record_length by exact Hr.
  apply nth_error_Some. congruence.
Qed.

(** the entries one record contributes to column [i] *)
Lemma record_column_ok fs r i c :
  rec_ok fs r -> nth_error (columns fs) i = Some c ->
  let es := nth i (shred_record fs r) [] in
  Forall (entry_wf c) es /\ DremelProofs.col_ok 0 0 0 es.
Proof.
  intros Hr Hc es. pose proof (shred_record_nth fs r i c Hr Hc) as Hes. fold es in Hes.
  split.
  - pose proof (levels_bounded fs r i c es Hr Hc Hes) as Hlev.
    assert (Hv : Forall2 vals_ok (columns fs) (shred_record fs r)).
    { unfold columns, shred_record. apply shred_ty_vals. exact Hr. }
    pose proof (Forall2_nth_error _ _ _ _ _ _ Hv Hc Hes) as Hvals. unfold vals_ok in Hvals.
    rewrite Forall_forall in *. intros e He. split; [apply Hlev|apply Hvals]; exact He.
  - apply nth_error_In in Hes.
    exact (proj1 (Forall_forall _ _) (shred_ty_nonempty (TGroup fs) r 0 0 0 Hr) es Hes).
Qed.

Lemma column_entries_cons fs i r recs :
  column_entries fs i (r :: recs) = nth i (shred_record fs r) [] ++ column_entries fs i recs.
Proof. reflexivity. Qed.

Lemma column_entries_app fs i a b :
  column_entries fs i (a ++ b) = column_entries fs i a ++ column_entries fs i b.
Proof. unfold column_entries. apply flat_map_app. Qed.

Lemma column_entries_concat fs i bss :
  concat (map (column_entries fs i) bss) = column_entries fs i (concat bss).
Proof.
  induction bss as [|b bss IH]; [reflexivity|].
  cbn [map concat]. rewrite column_entries_app, IH. reflexivity.
Qed.

(** the entries a non-empty run of records contributes to column [i] *)
Lemma column_entries_ok fs recs i c :
  Forall (rec_ok fs) recs -> recs <> [] -> nth_error (columns fs) i = Some c ->
  let es := column_entries fs i recs in
  es <> [] /\ Forall (entry_wf c) es /\ first_rep0 es /\ count_rep0 es = nlen recs.
Proof.
  intros Hrecs Hne Hc es. subst es.
  assert (Hall : Forall (entry_wf c) (column_entries fs i recs) /\
                 count_rep0 (column_entries fs i recs) = nlen recs).
  { clear Hne. induction Hrecs as [|r recs Hr Hrecs IH]; [split; [constructor|reflexivity]|].
    destruct IH as [IH1 IH2].
    destruct (record_column_ok fs r i c Hr Hc) as [Hwf Hcol].
    rewrite column_entries_cons. split.
    - apply Forall_app. split; assumption.
    - rewrite count_rep0_app, IH2, (col_ok_count_rep0 0 _ Hcol). unfold nlen. cbn [length]. lia. }
  destruct Hall as [Hwf Hcount].
  destruct recs as [|r recs]; [congruence|].
  pose proof (Forall_inv Hrecs) as Hr.
  destruct (record_column_ok fs r i c Hr Hc) as [_ Hcol]. cbv zeta in Hcol.
  rewrite column_entries_cons in *.
  destruct (nth i (shred_record fs r) []) as [|e es']; [contradiction|].
  cbn [app first_rep0]. destruct Hcol as (Hrep & _ & _).
  split; [discriminate|]. split; [exact Hwf|]. split; [exact Hrep|exact Hcount].
Qed.

(** the column-major view of [shred_records] *)
Lemma nth_zipcat a b i :
  length a = length b -> nth i (zipcat a b) [] = nth i a [] ++ nth i b [].
Proof.
  revert b i. induction a as [|x a IH]; intros [|y b] i Hl; cbn [length] in Hl; try discriminate.
  - destruct i; reflexivity.
  - destruct i as [|i]; cbn [zipcat nth]; [reflexivity|]. apply IH. lia.
Qed.

Lemma nth_zipcat_list n i css : forall c0,
  Forall (fun c => length c = n) (c0 :: css) ->
  nth i (zipcat_list c0 css) [] = nth i c0 [] ++ flat_map (fun cs => nth i cs []) css.
Proof.
  induction css as [|c1 css IH]; intros c0 H; cbn [zipcat_list flat_map].
  - rewrite app_nil_r. reflexivity.
  - destruct (proj1 (Forall_cons_iff _ _ _) H) as [Hc0 Hrest].
    rewrite nth_zipcat by (rewrite (zipcat_list_length n css c1 Hrest); exact Hc0).
    rewrite IH by exact Hrest. reflexivity.
Qed.

Lemma nth_repeat_nil {A} n i : nth i (repeat (@nil A) n) [] = [].
Proof. revert i. induction n as [|n IH]; intros [|i]; cbn [repeat nth]; auto. Qed.

Lemma shred_records_nth fs recs i :
  Forall (rec_ok fs) recs ->
  nth i (shred_records fs recs) [] = column_entries fs i recs.
Proof.
  intros Hrecs. unfold shred_records. rewrite fold_left_zipcat_list.
  rewrite (nth_zipcat_list (length (columns fs))).
  - rewrite nth_repeat_nil. cbn [app]. unfold column_entries. rewrite flat_map_concat_map, map_map.
    rewrite <- flat_map_concat_map. reflexivity.
  - constructor; [rewrite repeat_length; symmetry; apply columns_length|].
    apply Forall_map. eapply Forall_impl; [|exact Hrecs]. intros r Hr.
    apply shred_record_length. exact Hr.
Qed.

Lemma shred_records_length fs recs :
  Forall (rec_ok fs) recs -> length (shred_records fs recs) = length (columns fs).
Proof.
  intros Hrecs. unfold shred_records. rewrite fold_left_zipcat_list.
  apply zipcat_list_length.
  constructor; [rewrite repeat_length; symmetry; apply columns_length|].
  apply Forall_map. eapply Forall_impl; [|exact Hrecs]. intros r Hr.
  apply shred_record_length. exact Hr.
Qed.

Lemma shred_records_columns fs recs :
  Forall (rec_ok fs) recs ->
  shred_records fs recs = map (fun i => column_entries fs i recs) (seq 0 (length (columns fs))).
Proof.
  intros Hrecs. apply (nth_ext _ _ [] []).
  - rewrite map_length, seq_length. apply shred_records_length. exact Hrecs.
  - intros i Hi. rewrite shred_records_length in Hi by exact Hrecs.
    rewrite shred_records_nth by exact Hrecs.
    rewrite (nth_indep _ [] (column_entries fs 0 recs)) by (rewrite map_length, seq_length; exact Hi).
    rewrite (map_nth (fun i => column_entries fs i recs)), seq_nth by exact Hi. reflexivity.
Qed.

(** ** The page chain of a batch *)

Lemma chunk_fuel_spec {A} (n : nat) : (1 <= n)%nat -> forall fuel (l : list A),
  (length l <= fuel)%nat ->
  concat (chunk_fuel fuel n l) = l /\
  Forall (fun b => b <> [] /\ (length b <= n)%nat /\ incl b l) (chunk_fuel fuel n l).
Proof.
  intros Hn. induction fuel as [|f IH]; intros l Hl.
  - destruct l; [|cbn [length] in Hl; lia]. split; [reflexivity|constructor].
  - cbn [chunk_fuel]. destruct l as [|x l']; [split; [reflexivity|constructor]|].
    set (l := x :: l') in *.
    destruct (IH (skipn n l)) as [IH1 IH2].
    { rewrite skipn_length. subst l. cbn [length] in *. lia. }
    split.
    + cbn [concat]. rewrite IH1. apply firstn_skipn.
    + constructor.
      * split; [|split].
        -- destruct n as [|n']; [lia|]. subst l. cbn [firstn]. discriminate.
        -- rewrite firstn_length. lia.
        -- intros y Hy. rewrite <- (firstn_skipn n l). apply in_or_app. left. exact Hy.
      * eapply Forall_impl; [|exact IH2]. cbv beta. intros b (Hb1 & Hb2 & Hb3).
        split; [exact Hb1|]. split; [exact Hb2|].
        intros y Hy. rewrite <- (firstn_skipn n l). apply in_or_app. right. apply Hb3. exact Hy.
Qed.

Lemma chunk_spec {A} (n : nat) (l : list A) : (1 <= n)%nat ->
  concat (chunk n l) = l /\
  Forall (fun b => b <> [] /\ (length b <= n)%nat /\ incl b l) (chunk n l).
Proof. intros Hn. unfold chunk. apply chunk_fuel_spec; [exact Hn|lia]. Qed.

(** ** One row group = one non-empty batch *)

Lemma index_from_In {A} (l : list A) : forall s i x,
  In (i, x) (index_from s l) -> (s <= i)%nat /\ nth_error l (i - s) = Some x.
Proof.
  induction l as [|y l IH]; intros s i x Hin; [contradiction|].
  cbn [index_from In] in Hin. destruct Hin as [Heq|Hin].
  - injection Heq as <- <-. rewrite Nat.sub_diag. split; [lia|reflexivity].
  - apply IH in Hin. destruct Hin as [Hle Hnth]. split; [lia|].
    replace (i - s)%nat with (S (i - S s)) by lia. exact Hnth.
Qed.

Lemma index_from_fst {A} (l : list A) : forall s, map fst (index_from s l) = seq s (length l).
Proof. induction l as [|y l IH]; intros s; cbn [index_from map length seq]; [reflexivity|]. rewrite IH. reflexivity. Qed.

Lemma index_from_snd {A} (l : list A) : forall s, map snd (index_from s l) = l.
Proof. induction l as [|y l IH]; intros s; cbn [index_from map]; [reflexivity|]. rewrite IH. reflexivity. Qed.

Lemma forallb_map' {A B} (f : B -> bool) (g : A -> B) l : forallb f (map g l) = forallb (fun x => f (g x)) l.
Proof. induction l as [|x l IH]; cbn [map forallb]; [reflexivity|]. rewrite IH. reflexivity. Qed.

(** per column of the shape: the column and the entry lists of its pages *)
Definition batch_cess (cfg : config) (recs : list value) : list (col * list (list entry)) :=
  map (fun ic => (snd ic, map (column_entries (cfg_fields cfg) (fst ic)) (chunk (cfg_max cfg) recs)))
      (index_from 0 (columns (cfg_fields cfg))).

Lemma batch_cess_cols cfg b : map fst (batch_cess cfg b) = columns (cfg_fields cfg).
Proof. unfold batch_cess. rewrite map_map. cbn [fst]. apply index_from_snd. Qed.

Lemma per_col_batch_cess cfg b :
  per_col compress cfg b = map (fun ce => (fst ce, col_pages (cfg_codec cfg) ce)) (batch_cess cfg b).
Proof.
  unfold per_col, batch_cess. rewrite map_map. apply map_ext. intros [i c].
  cbn [fst snd]. unfold col_pages, column_pages. cbn [fst snd]. rewrite map_map. reflexivity.
Qed.

Lemma batch_bytes_cess cfg b :
  concat (fst (write_batch compress cfg b)) = cols_bytes (cfg_codec cfg) (batch_cess cfg b).
Proof.
  rewrite write_batch_fst, concat_page_writes, per_col_batch_cess, map_map. reflexivity.
Qed.

Lemma batch_chunks_cess cfg b :
  ra_chunks (snd (write_batch compress cfg b)) = cols_accs (cfg_codec cfg) (batch_cess cfg b).
Proof. rewrite write_batch_chunks, per_col_batch_cess, map_map. reflexivity. Qed.

Definition page_sizes_ok (codec : Z) (c : col) (es : list entry) : Prop :=
  N.of_nat (length es) + 8 <= 2 ^ 31 /\
  nlen (page_payload c es) < 2 ^ 31 /\
  nlen (compress codec (page_payload c es)) < 2 ^ 31.

Definition batch_sizes_ok (cfg : config) (b : list value) : Prop :=
  Forall (fun ce => Forall (page_sizes_ok (cfg_codec cfg) (fst ce)) (snd ce)) (batch_cess cfg b).

Lemma batch_col_guard cfg b :
  Forall col_ok (columns (cfg_fields cfg)) -> Forall (rec_ok (cfg_fields cfg)) b ->
  (1 <= cfg_max cfg)%nat -> batch_sizes_ok cfg b ->
  Forall (col_guard (cfg_codec cfg)) (batch_cess cfg b).
Proof.
  intros Hcols Hrecs Hmax Hsz. unfold batch_sizes_ok in Hsz.
  rewrite Forall_forall in *. intros ce Hce. specialize (Hsz ce Hce).
  unfold batch_cess in Hce. apply in_map_iff in Hce. destruct Hce as ([i c] & <- & Hic).
  cbn [fst snd] in *. apply index_from_In in Hic. destruct Hic as [_ Hnth].
  rewrite Nat.sub_0_r in Hnth.
  split; cbn [fst snd]; [apply Hcols; eapply nth_error_In; exact Hnth|].
  destruct (chunk_spec (cfg_max cfg) b Hmax) as [_ Hch].
  rewrite Forall_forall in *. intros es Hes.
  specialize (Hsz es Hes). destruct Hsz as (Hs1 & Hs2 & Hs3).
  apply in_map_iff in Hes. destruct Hes as (pg & <- & Hpg).
  destruct (Hch pg Hpg) as (Hne & _ & Hincl).
  assert (Hpgok : Forall (rec_ok (cfg_fields cfg)) pg).
  { apply Forall_forall. intros r Hr. apply Hrecs, Hincl, Hr. }
  destruct (column_entries_ok (cfg_fields cfg) pg i c Hpgok Hne Hnth) as (H1 & H2 & H3 & _).
  split; [|exact Hs3]. repeat split; assumption.
Qed.

Definition batch_rg (cfg : config) (pos : N) (b : list value) : row_group :=
  {| rg_columns := fst (chunks_meta (cfg_codec cfg) pos (cols_accs (cfg_codec cfg) (batch_cess cfg b)));
     rg_total_byte_size := Z.of_N (nlen (cols_bytes (cfg_codec cfg) (batch_cess cfg b)));
     rg_num_rows := Z.of_N (nlen b) |}.

Definition rg_view_of (cfg : config) (pos : N) (b : list value) : rg_view :=
  {| rv_rows := nlen b;
     rv_chunks := chunk_views (cfg_codec cfg) pos (batch_cess cfg b);
     rv_records := b |}.

Lemma page_views_entries codec c ess : forall off,
  flat_map pv_entries (page_views codec c off ess) = concat ess.
Proof.
  induction ess as [|es ess IH]; intros off; [reflexivity|].
  cbn [page_views flat_map concat page_view_of pv_entries]. rewrite IH. reflexivity.
Qed.

Lemma chunk_views_entries codec cess : forall pos,
  map chunk_entries (chunk_views codec pos cess) = map (fun ce => concat (snd ce)) cess.
Proof.
  induction cess as [|ce r IH]; intros pos; [reflexivity|].
  cbn [chunk_views map]. rewrite IH. f_equal.
  unfold chunk_entries, chunk_view_of. cbn [cv_pages]. apply page_views_entries.
Qed.

Lemma chunk_views_compressed codec cess : forall pos,
  map (fun cv => Z.to_N (cm_total_compressed (cv_meta cv))) (chunk_views codec pos cess) =
  map ca_compressed (cols_accs codec cess).
Proof.
  induction cess as [|ce r IH]; intros pos; [reflexivity|].
  cbn [chunk_views map cols_accs]. fold (cols_accs codec r). rewrite IH. f_equal.
  unfold chunk_view_of. cbn [cv_meta chunk_cm cm_total_compressed]. apply N2Z.id.
Qed.

Lemma batch_entries_shred cfg b pos :
  (1 <= cfg_max cfg)%nat -> Forall (rec_ok (cfg_fields cfg)) b ->
  map chunk_entries (chunk_views (cfg_codec cfg) pos (batch_cess cfg b)) =
  shred_records (cfg_fields cfg) b.
Proof.
  intros Hmax Hrecs. rewrite chunk_views_entries, shred_records_columns by exact Hrecs.
  unfold batch_cess. rewrite map_map. cbn [snd].
  rewrite <- (index_from_fst (columns (cfg_fields cfg)) 0), map_map.
  apply map_ext. intros [i c]. cbn [fst].
  rewrite column_entries_concat. destruct (chunk_spec (cfg_max cfg) b Hmax) as [-> _]. reflexivity.
Qed.

Lemma check_row_group_written file limit cfg pos b pre post :
  codec_ok (cfg_codec cfg) -> ty_okb (TGroup (cfg_fields cfg)) = true ->
  Forall col_ok (columns (cfg_fields cfg)) -> (1 <= cfg_max cfg)%nat ->
  Forall (rec_ok (cfg_fields cfg)) b -> batch_sizes_ok cfg b ->
  file = pre ++ cols_bytes (cfg_codec cfg) (batch_cess cfg b) ++ post -> nlen pre = pos ->
  pos + nlen (cols_bytes (cfg_codec cfg) (batch_cess cfg b)) <= limit ->
  check_row_group decompress file limit (cfg_fields cfg) (columns (cfg_fields cfg)) pos (batch_rg cfg pos b) =
  inr (rg_view_of cfg pos b, pos + nlen (cols_bytes (cfg_codec cfg) (batch_cess cfg b))).
Proof.
  intros Hcd Hty Hcols Hmax Hrecs Hsz Hfile Hpre Hlim.
  unfold check_row_group, batch_rg. cbn [rg_columns rg_num_rows rg_total_byte_size].
  rewrite <- (batch_cess_cols cfg b) at 1.
  rewrite (check_chunks_written file limit (cfg_codec cfg) Hcd (batch_cess cfg b) pos pre post)
    by (try assumption; apply batch_col_guard; assumption).
  rewrite Z_of_N_ltb0, N2Z.id.
  rewrite <- (forallb_map' (fun es => count_rep0 es =? nlen b) chunk_entries).
  rewrite (batch_entries_shred cfg b pos Hmax Hrecs).
  replace (forallb (fun es => count_rep0 es =? nlen b) (shred_records (cfg_fields cfg) b)) with true.
  2:{ symmetry. apply forallb_forall. intros es Hes.
      rewrite (record_boundaries_all (cfg_fields cfg) b es Hrecs Hes). apply N.eqb_refl. }
  cbn [negb]. rewrite chunk_views_compressed, cols_accs_compressed, Z.eqb_refl. cbn [orb negb].
  rewrite (assemble_shred_records (cfg_fields cfg) b Hty Hrecs), N.eqb_refl. cbn [negb].
  reflexivity.
Qed.

(** ** All row groups *)

Definition batches_bytes (cfg : config) (bs : list (list value)) : bytes :=
  concat (map (fun b => cols_bytes (cfg_codec cfg) (batch_cess cfg b)) bs).

Fixpoint rg_views (cfg : config) (pos : N) (bs : list (list value)) : list rg_view :=
  match bs with
  | [] => []
  | b :: r => rg_view_of cfg pos b
              :: rg_views cfg (pos + nlen (cols_bytes (cfg_codec cfg) (batch_cess cfg b))) r
  end.

Definition batch_rgs (cfg : config) (bs : list (list value)) : list rg_acc :=
  map (fun b => snd (write_batch compress cfg b)) bs.

Lemma rg_bytes_batch cfg b :
  rg_bytes (snd (write_batch compress cfg b)) = nlen (cols_bytes (cfg_codec cfg) (batch_cess cfg b)).
Proof. unfold rg_bytes. rewrite batch_chunks_cess. apply cols_accs_compressed. Qed.

Lemma row_groups_meta_batch cfg pos b r :
  row_groups_meta (cfg_codec cfg) pos (batch_rgs cfg (b :: r)) =
  batch_rg cfg pos b ::
  row_groups_meta (cfg_codec cfg) (pos + nlen (cols_bytes (cfg_codec cfg) (batch_cess cfg b))) (batch_rgs cfg r).
Proof.
  unfold batch_rgs. cbn [map]. rewrite row_groups_meta_cons, rg_bytes_batch, batch_chunks_cess.
  reflexivity.
Qed.

Definition batch_ok (cfg : config) (b : list value) : Prop :=
  Forall (rec_ok (cfg_fields cfg)) b /\ batch_sizes_ok cfg b.

Lemma check_row_groups_written file limit cfg :
  codec_ok (cfg_codec cfg) -> ty_okb (TGroup (cfg_fields cfg)) = true ->
  Forall col_ok (columns (cfg_fields cfg)) -> (1 <= cfg_max cfg)%nat ->
  forall bs pos pre post,
    Forall (batch_ok cfg) bs ->
    file = pre ++ batches_bytes cfg bs ++ post -> nlen pre = pos ->
    pos + nlen (batches_bytes cfg bs) <= limit ->
    check_row_groups decompress file limit (cfg_fields cfg) (columns (cfg_fields cfg)) pos
      (row_groups_meta (cfg_codec cfg) pos (batch_rgs cfg bs)) =
    inr (rg_views cfg pos bs, pos + nlen (batches_bytes cfg bs)).
Proof.
  intros Hcd Hty Hcols Hmax.
  induction bs as [|b r IH]; intros pos pre post Hbs Hfile Hpre Hlim.
  - cbn [batch_rgs map row_groups_meta check_row_groups rg_views batches_bytes concat].
    change (nlen (@nil N)) with 0. rewrite N.add_0_r. reflexivity.
  - pose proof (Forall_inv Hbs) as [Hrecs Hsz]. pose proof (Forall_inv_tail Hbs) as Hbs'.
    rewrite row_groups_meta_batch. cbn [check_row_groups rg_views].
    unfold batches_bytes in *. cbn [map concat] in *. fold (batches_bytes cfg r) in *.
    rewrite nlen_app in *. rewrite <- app_assoc in Hfile.
    rewrite (check_row_group_written file limit cfg pos b pre (batches_bytes cfg r ++ post))
      by (try assumption; lia).
    rewrite (IH (pos + nlen (cols_bytes (cfg_codec cfg) (batch_cess cfg b)))
                (pre ++ cols_bytes (cfg_codec cfg) (batch_cess cfg b)) post Hbs').
    + rewrite N.add_assoc. reflexivity.
    + rewrite Hfile, <- app_assoc. reflexivity.
    + rewrite nlen_app, Hpre. reflexivity.
    + lia.
Qed.

Lemma rg_views_rows cfg bs : forall pos, map rv_rows (rg_views cfg pos bs) = map (@nlen value) bs.
Proof. induction bs as [|b r IH]; intros pos; [reflexivity|]. cbn [rg_views map rg_view_of rv_rows]. rewrite IH. reflexivity. Qed.

Lemma rg_views_records cfg bs : forall pos, map rv_records (rg_views cfg pos bs) = bs.
Proof. induction bs as [|b r IH]; intros pos; [reflexivity|]. cbn [rg_views map rg_view_of rv_records]. rewrite IH. reflexivity. Qed.

(** every page view of the written file *)
Definition all_pages (P : page_view -> Prop) (rvs : list rg_view) : Prop :=
  Forall (fun rv => Forall (fun cv => Forall P (cv_pages cv)) (rv_chunks rv)) rvs.

Lemma page_views_Forall (P : page_view -> Prop) codec c ess :
  (forall off es, In es ess -> P (page_view_of off (make_page compress codec c es) es)) ->
  forall off, Forall P (page_views codec c off ess).
Proof.
  induction ess as [|es ess IH]; intros HP off; [constructor|].
  cbn [page_views]. constructor; [apply HP; left; reflexivity|].
  apply IH. intros off' es' Hin. apply HP. right. exact Hin.
Qed.

Lemma chunk_views_Forall (Q : chunk_view -> Prop) codec cess :
  (forall pos ce, In ce cess -> Q (chunk_view_of codec (fst ce) pos (snd ce))) ->
  forall pos, Forall Q (chunk_views codec pos cess).
Proof.
  induction cess as [|ce r IH]; intros HQ pos; [constructor|].
  cbn [chunk_views]. constructor; [apply HQ; left; reflexivity|].
  apply IH. intros pos' ce' Hin. apply HQ. right. exact Hin.
Qed.

Lemma rg_views_pages cfg bs :
  (1 <= cfg_max cfg)%nat -> Forall (fun b => Forall (rec_ok (cfg_fields cfg)) b) bs ->
  forall pos,
  all_pages (fun pv => pv_records pv <= N.of_nat (cfg_max cfg) /\ pv_stats_ok pv = true)
            (rg_views cfg pos bs).
Proof.
  intros Hmax. induction 1 as [|b r Hrecs Hr IH]; intros pos; [constructor|].
  cbn [rg_views]. constructor; [|apply IH].
  unfold rg_view_of. cbn [rv_chunks]. apply chunk_views_Forall.
  intros pos' ce Hce. unfold chunk_view_of. cbn [cv_pages]. apply page_views_Forall.
  intros off es Hes. unfold page_view_of. cbn [pv_records pv_stats_ok]. split; [|reflexivity].
  unfold batch_cess in Hce. apply in_map_iff in Hce. destruct Hce as ([i c] & <- & Hic).
  cbn [fst snd] in *. apply index_from_In in Hic. destruct Hic as [_ Hnth].
  rewrite Nat.sub_0_r in Hnth.
  apply in_map_iff in Hes. destruct Hes as (pg & <- & Hpg).
  destruct (chunk_spec (cfg_max cfg) b Hmax) as [_ Hch]. rewrite Forall_forall in Hch.
  destruct (Hch pg Hpg) as (Hne & Hlen & Hincl).
  assert (Hpgok : Forall (rec_ok (cfg_fields cfg)) pg).
  { apply Forall_forall. intros x Hx. rewrite Forall_forall in Hrecs. apply Hrecs, Hincl, Hx. }
  destruct (column_entries_ok (cfg_fields cfg) pg i c Hpgok Hne Hnth) as (_ & _ & _ & Hcount).
  rewrite Hcount. unfold nlen. lia.
Qed.

(** ** The file *)

Lemma slice_mid (a b c : bytes) off len :
  off = nlen a -> len = nlen b -> slice off len (a ++ b ++ c) = b.
Proof.
  intros -> ->. unfold slice. rewrite skipn_nlen_app. unfold nlen. rewrite Nat2N.id.
  apply firstn_app_exact.
Qed.

Lemma bytes_eq_refl a : bytes_eq a a = true.
Proof. unfold bytes_eq. destruct (list_eq_dec N.eq_dec a a); congruence. Qed.

(** all the size guards: per page the int32 fields of the header, for the
    footer the ranges of its thrift integers and lengths, and its own length *)
Definition sizes_ok (cfg : config) (bs : list (list value)) : Prop :=
  Forall (batch_sizes_ok cfg) bs /\
  file_meta_ok (footer_meta cfg (batch_rgs cfg bs)) = true /\
  nlen (enc_file_meta (footer_meta cfg (batch_rgs cfg bs))) < 2 ^ 32.

Definition file_view_of (cfg : config) (bs : list (list value)) : file_view :=
  {| fv_meta := footer_meta cfg (batch_rgs cfg bs);
     fv_fields := cfg_fields cfg;
     fv_cols := columns (cfg_fields cfg);
     fv_rgs := rg_views cfg 4 bs |}.

Lemma file_of_batches_eq cfg bs :
  file_of_batches compress cfg bs =
  magic ++ batches_bytes cfg bs ++ enc_file_meta (footer_meta cfg (batch_rgs cfg bs))
        ++ le_enc 4 (nlen (enc_file_meta (footer_meta cfg (batch_rgs cfg bs))) mod 2 ^ 32) ++ magic.
Proof.
  unfold file_of_batches, close_writes, batches_bytes, batch_rgs. cbn [concat].
  rewrite !map_map, app_nil_r. do 2 f_equal.
  - f_equal. apply map_ext. intros b. apply batch_bytes_cess.
Qed.

Theorem check_file_written cfg bs :
  codec_ok (cfg_codec cfg) -> ty_okb (TGroup (cfg_fields cfg)) = true ->
  Forall col_ok (columns (cfg_fields cfg)) -> (1 <= cfg_max cfg)%nat ->
  parse_schema (schema_of (columns (cfg_fields cfg))) = inr (cfg_fields cfg) ->
  Forall (fun b => Forall (rec_ok (cfg_fields cfg)) b) bs ->
  sizes_ok cfg bs ->
  check_file decompress (file_of_batches compress cfg bs) = inr (file_view_of cfg bs).
Proof.
  intros Hcd Hty Hcols Hmax Hschema Hrecs (Hsz & Hfm & Hflen).
  rewrite file_of_batches_eq.
  set (fm := footer_meta cfg (batch_rgs cfg bs)) in *.
  set (ft := enc_file_meta fm) in *.
  set (B := batches_bytes cfg bs).
  assert (Hmod : nlen ft mod 2 ^ 32 = nlen ft) by (apply N.mod_small; exact Hflen).
  rewrite Hmod.
  set (L := le_enc 4 (nlen ft)).
  assert (HL : nlen L = 4) by (unfold L, nlen; rewrite le_enc_length; reflexivity).
  assert (Hm : nlen magic = 4) by reflexivity.
  set (file := magic ++ B ++ ft ++ L ++ magic).
  assert (Hn : nlen file = 4 + nlen B + nlen ft + 4 + 4).
  { unfold file. rewrite !nlen_app, HL, Hm. lia. }
  unfold check_file. cbv zeta. rewrite Hn.
  destruct (N.ltb_spec (4 + nlen B + nlen ft + 4 + 4) 12) as [Hlt|_]; [lia|].
  replace (firstn 4 file) with magic by reflexivity.
  change magic_bytes with magic. rewrite bytes_eq_refl. cbn [negb].
  replace (slice (4 + nlen B + nlen ft + 4 + 4 - 4) 4 file) with magic.
  2:{ symmetry. unfold file.
      replace (magic ++ B ++ ft ++ L ++ magic) with ((magic ++ B ++ ft ++ L) ++ magic ++ [])
        by (rewrite app_nil_r, <- !app_assoc; reflexivity).
      apply slice_mid; [rewrite !nlen_app, HL, Hm; lia|reflexivity]. }
  rewrite bytes_eq_refl. cbn [negb].
  replace (slice (4 + nlen B + nlen ft + 4 + 4 - 8) 4 file) with L.
  2:{ symmetry. unfold file.
      replace (magic ++ B ++ ft ++ L ++ magic) with ((magic ++ B ++ ft) ++ L ++ magic)
        by (rewrite <- !app_assoc; reflexivity).
      apply slice_mid; [rewrite !nlen_app, Hm; lia|rewrite HL; reflexivity]. }
  assert (HLd : le_dec L = nlen ft).
  { unfold L. apply le_dec_enc. change (256 ^ N.of_nat 4) with (2 ^ 32). exact Hflen. }
  rewrite !HLd.
  destruct (N.ltb_spec (4 + nlen B + nlen ft + 4 + 4) (nlen ft + 12)) as [Hlt|_]; [lia|].
  replace (4 + nlen B + nlen ft + 4 + 4 - 8 - nlen ft) with (4 + nlen B) by lia.
  replace (slice (4 + nlen B) (nlen ft) file) with ft.
  2:{ symmetry. unfold file.
      replace (magic ++ B ++ ft ++ L ++ magic) with ((magic ++ B) ++ ft ++ L ++ magic)
        by (rewrite <- !app_assoc; reflexivity).
      apply slice_mid; [rewrite !nlen_app, Hm; lia|reflexivity]. }
  pose proof (dec_enc_file_meta fm [] Hfm) as Hdec. rewrite app_nil_r in Hdec.
  fold ft in Hdec. rewrite Hdec.
  unfold fm at 1. cbn [footer_meta fm_schema]. rewrite Hschema.
  unfold fm at 1. cbn [footer_meta fm_row_groups].
  assert (Hbs : Forall (batch_ok cfg) bs).
  { rewrite Forall_forall in *. intros b Hb. split; [apply Hrecs|apply Hsz]; exact Hb. }
  rewrite (check_row_groups_written file (4 + nlen B) cfg Hcd Hty Hcols Hmax bs 4 magic
             (ft ++ L ++ magic) Hbs eq_refl Hm) by (fold B; lia).
  fold B. rewrite N.eqb_refl. cbn [negb].
  unfold fm at 1. cbn [footer_meta fm_num_rows].
  rewrite rg_views_rows. unfold batch_rgs. rewrite map_map.
  rewrite (map_ext (fun b => ra_rows (snd (write_batch compress cfg b))) (@nlen value))
    by (intros b; reflexivity).
  rewrite Z.eqb_refl. cbn [negb]. reflexivity.
Qed.

(** ** C02: every written file is structurally valid with a truthful footer *)

(** the struct shape: non-empty groups, distinct sibling names, at most 15
    optional/repeated steps on any path (level widths 1..4 bits) *)
Definition shape_ok (fs : list field) : Prop :=
  ty_okb (TGroup fs) = true /\ names_okb (TGroup fs) = true /\ Forall col_ok (columns fs).

Theorem written_file_valid cfg bs :
  (1 <= cfg_max cfg)%nat -> codec_ok (cfg_codec cfg) -> shape_ok (cfg_fields cfg) ->
  Forall (fun b => Forall (rec_ok (cfg_fields cfg)) b) bs ->
  sizes_ok cfg bs ->
  exists v,
    check_file decompress (file_of_batches compress cfg bs) = inr v /\
    fv_fields v = cfg_fields cfg /\
    fv_cols v = columns (cfg_fields cfg) /\
    map rv_rows (fv_rgs v) = map (@nlen value) bs /\
    map rv_records (fv_rgs v) = bs /\
    view_records v = concat bs /\
    all_pages (fun pv => pv_records pv <= N.of_nat (cfg_max cfg) /\ pv_stats_ok pv = true) (fv_rgs v).
Proof.
  intros Hmax Hcd (Hty & Hnm & Hcols) Hrecs Hsz.
  exists (file_view_of cfg bs).
  split.
  { apply check_file_written; try assumption. apply parse_schema_of; assumption. }
  unfold file_view_of, view_records. cbn [fv_fields fv_cols fv_rgs].
  split; [reflexivity|]. split; [reflexivity|].
  split; [apply rg_views_rows|]. split; [apply rg_views_records|].
  split; [rewrite flat_map_concat_map, rg_views_records; reflexivity|].
  apply rg_views_pages; assumption.
Qed.

(** the same for every Add/Write history (WriterProofs.file_bytes_batches) *)
Definition op_ok (fs : list field) (o : op) : Prop :=
  match o with OpAdd r => rec_ok fs r | OpWrite => True end.

Lemma batches_of_ok fs h : forall pending,
  Forall (op_ok fs) h -> Forall (rec_ok fs) pending ->
  Forall (fun b => Forall (rec_ok fs) b) (batches_of h pending).
Proof.
  induction h as [|o h IH]; intros pending Hh Hp; [constructor|].
  pose proof (Forall_inv Hh) as Ho. pose proof (Forall_inv_tail Hh) as Hh'.
  destruct o as [r|]; cbn [batches_of].
  - apply IH; [exact Hh'|]. apply Forall_app. split; [exact Hp|]. constructor; [exact Ho|constructor].
  - constructor; [exact Hp|]. apply IH; [exact Hh'|constructor].
Qed.

Corollary written_history_valid cfg h :
  (1 <= cfg_max cfg)%nat -> codec_ok (cfg_codec cfg) -> shape_ok (cfg_fields cfg) ->
  Forall (op_ok (cfg_fields cfg)) h ->
  sizes_ok cfg (nonempty_batches h) ->
  exists v,
    check_file decompress (file_bytes compress cfg h) = inr v /\
    fv_fields v = cfg_fields cfg /\
    map rv_records (fv_rgs v) = nonempty_batches h /\
    view_records v = concat (nonempty_batches h) /\
    all_pages (fun pv => pv_records pv <= N.of_nat (cfg_max cfg) /\ pv_stats_ok pv = true) (fv_rgs v).
Proof.
  intros Hmax Hcd Hshape Hh Hsz. rewrite file_bytes_batches.
  destruct (written_file_valid cfg (nonempty_batches h) Hmax Hcd Hshape) as (v & H1 & H2 & _ & _ & H5 & H6 & H7).
  - unfold nonempty_batches.
    pose proof (batches_of_ok (cfg_fields cfg) h [] Hh (Forall_nil _)) as Hall.
    rewrite Forall_forall in *. intros b Hb. apply filter_In in Hb. apply Hall. tauto.
  - exact Hsz.
  - exists v. auto.
Qed.

(** ** Boolean side conditions (for concrete configurations) *)

Definition col_okb (c : col) : bool := (max_def c <=? 15) && (max_rep c <=? 15).

Definition shape_okb (fs : list field) : bool :=
  ty_okb (TGroup fs) && names_okb (TGroup fs) && forallb col_okb (columns fs).

Lemma shape_okb_sound fs : shape_okb fs = true -> shape_ok fs.
Proof.
  unfold shape_okb, shape_ok. intros H.
  apply andb_prop in H. destruct H as [H H3]. apply andb_prop in H. destruct H as [H1 H2].
  split; [exact H1|]. split; [exact H2|].
  apply Forall_forall. intros c Hc. rewrite forallb_forall in H3. specialize (H3 c Hc).
  unfold col_okb in H3. unfold col_ok. lia.
Qed.

Definition page_sizes_okb (codec : Z) (c : col) (es : list entry) : bool :=
  (N.of_nat (length es) + 8 <=? 2 ^ 31) && (nlen (page_payload c es) <? 2 ^ 31)
  && (nlen (compress codec (page_payload c es)) <? 2 ^ 31).

Definition batch_sizes_okb (cfg : config) (b : list value) : bool :=
  forallb (fun ce => forallb (page_sizes_okb (cfg_codec cfg) (fst ce)) (snd ce)) (batch_cess cfg b).

Definition sizes_okb (cfg : config) (bs : list (list value)) : bool :=
  forallb (batch_sizes_okb cfg) bs
  && file_meta_ok (footer_meta cfg (batch_rgs cfg bs))
  && (nlen (enc_file_meta (footer_meta cfg (batch_rgs cfg bs))) <? 2 ^ 32).

Lemma sizes_okb_sound cfg bs : sizes_okb cfg bs = true -> sizes_ok cfg bs.
Proof.
  unfold sizes_okb, sizes_ok. intros H.
  apply andb_prop in H. destruct H as [H H3]. apply andb_prop in H. destruct H as [H1 H2].
  split; [|split; [exact H2|apply N.ltb_lt; exact H3]].
  apply Forall_forall. intros b Hb. rewrite forallb_forall in H1. specialize (H1 b Hb).
  unfold batch_sizes_okb in H1. unfold batch_sizes_ok.
  apply Forall_forall. intros ce Hce. rewrite forallb_forall in H1. specialize (H1 ce Hce).
  apply Forall_forall. intros es Hes. rewrite forallb_forall in H1. specialize (H1 es Hes).
  unfold page_sizes_okb in H1. unfold page_sizes_ok.
  apply andb_prop in H1. destruct H1 as [H1 Hc]. apply andb_prop in H1. destruct H1 as [Ha Hb'].
  split; [apply N.leb_le; exact Ha|]. split; apply N.ltb_lt; assumption.
Qed.

End WithCodec.

(** ** A concrete small configuration satisfies every side condition *)

Module Tiny.
Definition cmp : Z -> bytes -> bytes := fun _ b => b.
Definition dcmp : Z -> bytes -> option bytes := fun _ b => Some b.
Definition fs0 : list field := [ ([97], Opt, TLeaf PInt32); ([98], Req, TLeaf PString) ].
Definition cfg0 : config := {| cfg_fields := fs0; cfg_max := 1; cfg_codec := CODEC_UNCOMPRESSED |}.
Definition rA : value := VGroup [VNum 5; VStr [104; 105]].
Definition rB : value := VGroup [VNull; VStr []].

Lemma cmp_dcmp c x : In c [CODEC_UNCOMPRESSED; CODEC_SNAPPY; CODEC_GZIP] -> dcmp c (cmp c x) = Some x.
Proof. reflexivity. Qed.

Example tiny_sizes_ok : shape_okb fs0 = true /\ sizes_okb cmp cfg0 [[rA; rB]] = true.
Proof. vm_compute. split; reflexivity. Qed.

Example tiny_file_valid :
  exists v, check_file dcmp (file_of_batches cmp cfg0 [[rA; rB]]) = inr v /\
            view_records v = [rA; rB] /\ map rv_rows (fv_rgs v) = [2].
Proof.
  destruct (written_file_valid cmp dcmp cmp_dcmp cfg0 [[rA; rB]]) as (v & H1 & _ & _ & H4 & _ & H6 & _).
  - cbn [cfg0 cfg_max]. lia.
  - left. reflexivity.
  - apply shape_okb_sound. vm_compute. reflexivity.
  - repeat constructor.
  - apply sizes_okb_sound. vm_compute. reflexivity.
  - exists v. split; [exact H1|]. split; [exact H6|exact H4].
Qed.

(** the layer statements, evaluated *)
Example tiny_page :
  let c := {| c_path := [[97]]; c_reps := [Opt]; c_prim := PInt32 |} in
  let es := column_entries fs0 0 [rA; rB] in
  let p := make_page cmp 0%Z c es in
  check_page dcmp c 0%Z 17 (pg_header_bytes p ++ pg_body p ++ [1; 2; 3]) =
  inr (page_view_of 17 p es, page_len p).
Proof. vm_compute. reflexivity. Qed.

Example tiny_file_view :
  check_file dcmp (file_of_batches cmp cfg0 [[rA; rB]]) = inr (file_view_of cmp cfg0 [[rA; rB]]).
Proof. vm_compute. reflexivity. Qed.
End Tiny.

Print Assumptions check_pages_written.
Print Assumptions check_chunk_written.
Print Assumptions check_chunks_written.
Print Assumptions check_row_group_written.
Print Assumptions check_row_groups_written.
Print Assumptions check_file_written.
Print Assumptions written_file_valid.
Print Assumptions written_history_valid.
