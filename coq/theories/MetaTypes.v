(** * MetaTypes: the records of parquet.thrift that the library reads and
    writes (schema/parquet.go), field for field.  Optional thrift fields are
    [option]; integers are [Z] (thrift i32/i64 are signed); enums are their
    numeric value.  Definitions only. *)
From Coq Require Import List NArith ZArith.
From PQ Require Import Bytes.
Import ListNotations.

(** Enum values used by the library *)
Definition TYPE_BOOLEAN : Z := 0.   Definition TYPE_INT32 : Z := 1.   Definition TYPE_INT64 : Z := 2.
Definition TYPE_FLOAT : Z := 4.     Definition TYPE_DOUBLE : Z := 5.  Definition TYPE_BYTE_ARRAY : Z := 6.
Definition CT_UINT_32 : Z := 13.    Definition CT_UINT_64 : Z := 14.
Definition REP_REQUIRED : Z := 0.   Definition REP_OPTIONAL : Z := 1. Definition REP_REPEATED : Z := 2.
Definition ENC_PLAIN : Z := 0.      Definition ENC_PLAIN_DICTIONARY : Z := 2. Definition ENC_RLE : Z := 3.
Definition ENC_BIT_PACKED : Z := 4.
Definition CODEC_UNCOMPRESSED : Z := 0. Definition CODEC_SNAPPY : Z := 1. Definition CODEC_GZIP : Z := 2.
Definition PT_DATA_PAGE : Z := 0.   Definition PT_INDEX_PAGE : Z := 1.
Definition PT_DICTIONARY_PAGE : Z := 2. Definition PT_DATA_PAGE_V2 : Z := 3.

Record statistics := {
  st_max : option bytes;            (* 1 *)
  st_min : option bytes;            (* 2 *)
  st_null_count : option Z;         (* 3 *)
  st_distinct_count : option Z;     (* 4 *)
  st_max_value : option bytes;      (* 5 *)
  st_min_value : option bytes       (* 6 *)
}.

Record data_page_header := {
  dph_num_values : Z;               (* 1 i32 *)
  dph_encoding : Z;                 (* 2 *)
  dph_def_encoding : Z;             (* 3 *)
  dph_rep_encoding : Z;             (* 4 *)
  dph_statistics : option statistics (* 5 *)
}.

Record dictionary_page_header := {
  dict_num_values : Z;              (* 1 i32 *)
  dict_encoding : Z;                (* 2 *)
  dict_is_sorted : option bool      (* 3 *)
}.

Record data_page_header_v2 := {
  v2_num_values : Z;                (* 1 i32 *)
  v2_num_nulls : Z;                 (* 2 i32 *)
  v2_num_rows : Z;                  (* 3 i32 *)
  v2_encoding : Z;                  (* 4 *)
  v2_def_len : Z;                   (* 5 i32 *)
  v2_rep_len : Z;                   (* 6 i32 *)
  v2_is_compressed : option bool;   (* 7 *)
  v2_statistics : option statistics (* 8 *)
}.

Record page_header := {
  ph_type : Z;                                  (* 1 enum PageType *)
  ph_uncompressed_size : Z;                     (* 2 i32 *)
  ph_compressed_size : Z;                       (* 3 i32 *)
  ph_crc : option Z;                            (* 4 i32 *)
  ph_data : option data_page_header;            (* 5 *)
  ph_index : option unit;                       (* 6 IndexPageHeader {} *)
  ph_dict : option dictionary_page_header;      (* 7 *)
  ph_data_v2 : option data_page_header_v2       (* 8 *)
}.

Record schema_element := {
  se_type : option Z;               (* 1 *)
  se_type_length : option Z;        (* 2 i32 *)
  se_repetition : option Z;         (* 3 *)
  se_name : bytes;                  (* 4 string *)
  se_num_children : option Z;       (* 5 i32 *)
  se_converted : option Z;          (* 6 *)
  se_scale : option Z;              (* 7 i32 *)
  se_precision : option Z;          (* 8 i32 *)
  se_field_id : option Z            (* 9 i32 *)
  (* 10 logicalType: never written by the library; skipped when read *)
}.

Record key_value := { kv_key : bytes; kv_value : option bytes }.   (* 1 string, 2 optional string *)

Record page_encoding_stats := { pes_page_type : Z; pes_encoding : Z; pes_count : Z }.  (* 1,2,3 (i32) *)

Record column_meta := {
  cm_type : Z;                              (* 1 *)
  cm_encodings : list Z;                    (* 2 list<enum> *)
  cm_path : list bytes;                     (* 3 list<string> *)
  cm_codec : Z;                             (* 4 *)
  cm_num_values : Z;                        (* 5 i64 *)
  cm_total_uncompressed : Z;                (* 6 i64 *)
  cm_total_compressed : Z;                  (* 7 i64 *)
  cm_key_value : option (list key_value);   (* 8 *)
  cm_data_page_offset : Z;                  (* 9 i64 *)
  cm_index_page_offset : option Z;          (* 10 i64 *)
  cm_dictionary_page_offset : option Z;     (* 11 i64 *)
  cm_statistics : option statistics;        (* 12 *)
  cm_encoding_stats : option (list page_encoding_stats)  (* 13 *)
}.

Record column_chunk := {
  cc_file_path : option bytes;      (* 1 *)
  cc_file_offset : Z;               (* 2 i64 *)
  cc_meta : option column_meta;     (* 3 *)
  cc_offset_index_offset : option Z; (* 4 i64 *)
  cc_offset_index_length : option Z; (* 5 i32 *)
  cc_column_index_offset : option Z; (* 6 i64 *)
  cc_column_index_length : option Z  (* 7 i32 *)
}.

Record row_group := {
  rg_columns : list column_chunk;   (* 1 *)
  rg_total_byte_size : Z;           (* 2 i64 *)
  rg_num_rows : Z                   (* 3 i64 *)
  (* 4 sorting_columns: never written; skipped when read *)
}.

Record file_meta := {
  fm_version : Z;                           (* 1 i32 *)
  fm_schema : list schema_element;          (* 2 *)
  fm_num_rows : Z;                          (* 3 i64 *)
  fm_row_groups : list row_group;           (* 4 *)
  fm_key_value : option (list key_value);   (* 5 *)
  fm_created_by : option bytes              (* 6 *)
  (* 7 column_orders: never written; skipped when read *)
}.
