(** * WriteBufferProofs: the logical-content model of the write buffer used in
    [Rle.v] is exactly what the real [writeBuffer] of internal/rle/buf.go holds.

    1. [wb_inv] ([i <= len(d)]) holds initially and is preserved by [writeAt].
    2. Under [wb_inv], [write] appends to [bytes()] and a one-byte [writeAt]
       below [i] is [update_at] on [bytes()] (and leaves [i] alone) -- whatever
       [size] the buffer was created with.
    3. The encoder of rle.go run on the real buffer ([rle_encode_b]) produces
       the same bytes as the encoder of [Rle.v] ([rle_encode]); on the way, the
       header pointer of [Rle.v]'s encoder always points inside [r_out]. *)
From Coq Require Import List NArith ZArith Lia Bool Arith PeanoNat.
From Coq Require Import ZifyN ZifyNat ZifyBool.
From PQ Require Import Bytes Varint Bitpack Rle WriteBuffer.
Import ListNotations.
Local Open Scope N_scope.

Ltac Zify.zify_post_hook ::= Z.div_mod_to_equations.

(** ** Tests (sizes 0, too small, exact, larger) *)

Definition wbt_levels1 : list N := [1;1;0;1;0;0;0;0;0;0;0;0;0;0;0;0;1;1;1;0;1].
Definition wbt_levels2 : list N :=
  repeat 1 20 ++ [0;1;2;3;0;1;2;3;3] ++ repeat 2 9 ++ [1].
Fixpoint wbt_alt (n : nat) : list N :=
  match n with O => [] | S k => 0 :: 1 :: wbt_alt k end.
Definition wbt_same (w : N) (l : list N) : bool :=
  forallb (fun s => if list_eq_dec N.eq_dec (rle_encode_b w s l) (rle_encode w l)
                    then true else false)
          [0; 1; 2; 3; 5; length l; S (length l); 2 * length l; 7 * length l]%nat.

Example wbt_same_ok :
  (wbt_same 1 wbt_levels1 && wbt_same 2 wbt_levels2 && wbt_same 3 wbt_levels2
   && wbt_same 0 (repeat 0 30) && wbt_same 1 (wbt_alt 300) && wbt_same 1 []
   && wbt_same 2 [3] && wbt_same 1 (wbt_alt 260 ++ repeat 1 10 ++ wbt_alt 3))%bool = true.
Proof. vm_compute. reflexivity. Qed.

Example wbt_grow : wb_write_at [7] 1 (wb_write [1;2;3] (wb_new 1)) = {| wb_d := [1;7;3]; wb_i := 3 |}.
Proof. vm_compute. reflexivity. Qed.

Example wbt_last : wb_write_at [7] 2 (wb_write [1;2;3] (wb_new 3)) = {| wb_d := [1;2;7]; wb_i := 3 |}.
Proof. vm_compute. reflexivity. Qed.

(** ** List helpers *)

Lemma skipn_repeat0 {A} (x : A) k n : skipn k (repeat x n) = repeat x (n - k).
Proof.
  revert n; induction k as [|k IH]; intros [|n]; cbn [skipn repeat Nat.sub]; auto.
Qed.

Lemma skipn_skipn0 {A} a b (l : list A) : skipn a (skipn b l) = skipn (b + a) l.
Proof.
  revert l; induction b as [|b IH]; intros l; [reflexivity|].
  destruct l as [|y r]; cbn [skipn Nat.add]; [destruct a; reflexivity | apply IH].
Qed.

Lemma firstn_update_at n i x (l : bytes) :
  firstn n (update_at i x l) = update_at i x (firstn n l).
Proof.
  revert n i; induction l as [|y r IH]; intros [|n] [|i];
    cbn [update_at firstn]; try reflexivity.
  rewrite IH. reflexivity.
Qed.

Lemma go_copy_length dst src : length (go_copy dst src) = length dst.
Proof.
  unfold go_copy. rewrite app_length, firstn_length, skipn_length. lia.
Qed.

(** [nd := make([]byte, n); copy(nd, d)] with [len(d) <= n] is [d] zero padded. *)
Lemma go_copy_grow n (d : bytes) :
  (length d <= n)%nat -> go_copy (repeat 0 n) d = d ++ repeat 0 (n - length d).
Proof.
  intros Hn. unfold go_copy. rewrite repeat_length, skipn_repeat0.
  rewrite firstn_all2 by lia. reflexivity.
Qed.

Lemma copy_at_length off dat d :
  (off <= length d)%nat -> length (copy_at off dat d) = length d.
Proof.
  intros Hoff. unfold copy_at.
  rewrite app_length, go_copy_length, firstn_length, skipn_length. lia.
Qed.

(** [copy(d[off:], dat)] when [dat] fits. *)
Lemma copy_at_fits off dat d :
  (off + length dat <= length d)%nat ->
  copy_at off dat d = firstn off d ++ dat ++ skipn (off + length dat) d.
Proof.
  intros Hfit. unfold copy_at, go_copy.
  rewrite skipn_length, (firstn_all2 dat) by lia.
  rewrite skipn_skipn0. reflexivity.
Qed.

Lemma copy_at_single hp h d :
  (hp < length d)%nat -> copy_at hp [h] d = update_at hp h d.
Proof.
  revert hp; induction d as [|y r IH]; intros hp Hhp; cbn [length] in Hhp; [lia|].
  destruct hp as [|hp].
  - unfold copy_at, go_copy. cbn [firstn skipn length app update_at].
    rewrite firstn_nil. reflexivity.
  - cbn [update_at]. rewrite <- IH by lia.
    unfold copy_at. cbn [firstn skipn app]. reflexivity.
Qed.

(** ** Characterisation of [writeAt] *)

(** The backing slice after the optional reallocation of the third branch. *)
Lemma wb_realloc off n (d : bytes) :
  (if Nat.leb (length d) (off + n) then go_copy (repeat 0 (off + n)%nat) d else d)
  = d ++ repeat 0 (off + n - length d).
Proof.
  destruct (Nat.leb_spec (length d) (off + n)) as [Hle|Hgt].
  - apply go_copy_grow. exact Hle.
  - replace (off + n - length d)%nat with 0%nat by lia.
    cbn [repeat]. rewrite app_nil_r. reflexivity.
Qed.

Lemma wb_write_at_i dat off w :
  wb_i (wb_write_at dat off w) = Nat.max (wb_i w) (length dat + off).
Proof.
  unfold wb_write_at.
  destruct (Nat.eqb off (length (wb_d w))) eqn:Eoff; cbn [wb_i];
    destruct (Nat.ltb_spec (wb_i w) (length dat + off)) as [Hlt|Hge]; lia.
Qed.

Lemma wb_write_at_d_length dat off w :
  length (wb_d (wb_write_at dat off w)) = Nat.max (length (wb_d w)) (off + length dat).
Proof.
  unfold wb_write_at.
  destruct (Nat.eqb_spec off (length (wb_d w))) as [Eoff|Noff]; cbn [wb_d].
  - rewrite app_length. lia.
  - rewrite wb_realloc. rewrite copy_at_length; rewrite app_length, repeat_length; lia.
Qed.

(** The non-appending branches of [writeAt] when [off < len(d)]:
    [d] is zero padded up to [off + len(dat)] and [dat] is copied in. *)
Lemma wb_write_at_d_inside dat off w :
  (off < length (wb_d w))%nat ->
  wb_d (wb_write_at dat off w) =
  firstn off (wb_d w) ++ dat ++
  skipn (off + length dat) (wb_d w ++ repeat 0 (off + length dat - length (wb_d w))).
Proof.
  intros Hoff. unfold wb_write_at.
  destruct (Nat.eqb_spec off (length (wb_d w))) as [Eoff|Noff]; [lia|]. cbn [wb_d].
  rewrite wb_realloc.
  rewrite copy_at_fits by (rewrite app_length, repeat_length; lia).
  rewrite firstn_app. replace (off - length (wb_d w))%nat with 0%nat by lia.
  rewrite firstn_O, app_nil_r. reflexivity.
Qed.

(** ** 1. The invariant *)

Lemma wb_inv_new n : wb_inv (wb_new n).
Proof. unfold wb_inv, wb_new. cbn [wb_i wb_d]. lia. Qed.

(** Preserved by [writeAt] at any offset. *)
Lemma wb_inv_write_at_any dat off w : wb_inv w -> wb_inv (wb_write_at dat off w).
Proof.
  unfold wb_inv. intros Hinv. rewrite wb_write_at_i, wb_write_at_d_length. lia.
Qed.

Theorem wb_inv_write_at dat off w :
  (off <= wb_i w)%nat -> wb_inv w -> wb_inv (wb_write_at dat off w).
Proof. intros _. apply wb_inv_write_at_any. Qed.

Lemma wb_inv_write dat w : wb_inv w -> wb_inv (wb_write dat w).
Proof. apply wb_inv_write_at_any. Qed.

Lemma wb_bytes_length w : wb_inv w -> length (wb_bytes w) = wb_i w.
Proof. unfold wb_inv, wb_bytes. intros Hinv. rewrite firstn_length. lia. Qed.

Lemma wb_bytes_new n : wb_bytes (wb_new n) = [].
Proof. reflexivity. Qed.

(** ** 2. Refinement of the logical-content model *)

Lemma wb_write_i dat w : wb_i (wb_write dat w) = (wb_i w + length dat)%nat.
Proof. unfold wb_write. rewrite wb_write_at_i. lia. Qed.

(** [out.write(x)] is [r_out ++ x]. *)
Theorem wb_bytes_write dat w :
  wb_inv w -> wb_bytes (wb_write dat w) = wb_bytes w ++ dat.
Proof.
  unfold wb_inv. intros Hinv. unfold wb_bytes. rewrite wb_write_i. unfold wb_write.
  destruct (Nat.eq_dec (wb_i w) (length (wb_d w))) as [Eend|Nend].
  - unfold wb_write_at. rewrite Eend, Nat.eqb_refl. cbn [wb_d].
    rewrite firstn_all, firstn_all2 by (rewrite app_length; lia). reflexivity.
  - rewrite wb_write_at_d_inside by lia.
    set (pre := firstn (wb_i w) (wb_d w)).
    assert (Hpre : length pre = wb_i w) by (unfold pre; rewrite firstn_length; lia).
    rewrite app_assoc.
    replace (wb_i w + length dat)%nat with (length (pre ++ dat))
      by (rewrite app_length; lia).
    apply firstn_app_exact.
Qed.

(** [out.writeAt([]byte{h}, hp)] is [update_at hp h r_out], and [size()] is unchanged. *)
Theorem wb_patch_i h hp w :
  (hp < wb_i w)%nat -> wb_i (wb_write_at [h] hp w) = wb_i w.
Proof. intros Hhp. rewrite wb_write_at_i. cbn [length]. lia. Qed.

Lemma wb_patch_d h hp w :
  wb_inv w -> (hp < wb_i w)%nat ->
  wb_d (wb_write_at [h] hp w) = update_at hp h (wb_d w).
Proof.
  unfold wb_inv. intros Hinv Hhp. unfold wb_write_at.
  destruct (Nat.eqb_spec hp (length (wb_d w))) as [Eoff|Noff]; [lia|]. cbn [wb_d].
  rewrite wb_realloc. cbn [length].
  replace (hp + 1 - length (wb_d w))%nat with 0%nat by lia.
  cbn [repeat]. rewrite app_nil_r. apply copy_at_single. lia.
Qed.

Theorem wb_bytes_patch h hp w :
  wb_inv w -> (hp < wb_i w)%nat ->
  wb_bytes (wb_write_at [h] hp w) = update_at hp h (wb_bytes w).
Proof.
  intros Hinv Hhp. unfold wb_bytes.
  rewrite wb_patch_i by exact Hhp. rewrite wb_patch_d by assumption.
  apply firstn_update_at.
Qed.

(** ** 3. The encoder on the real buffer simulates the encoder of [Rle.v] *)

(** Abstraction: forget the capacity, keep [bytes()]. *)
Definition abs_b (r : rle_b) : rle :=
  {| r_w := b_w r; r_out := wb_bytes (b_out r); r_prev := b_prev r; r_buf := b_buf r;
     r_rep := b_rep r; r_groups := b_groups r; r_hp := b_hp r |}.

(** The buffer invariant, and the header pointer (when set) is below [size()]. *)
Definition good_b (r : rle_b) : Prop :=
  wb_inv (b_out r) /\ forall hp, b_hp r = Some hp -> (hp < wb_i (b_out r))%nat.

Lemma good_b_new w size : good_b (rle_new_b w size).
Proof.
  split; cbn [rle_new_b b_out b_hp]; [apply wb_inv_new | intros hp Hhp; discriminate Hhp].
Qed.

Lemma abs_b_new w size : abs_b (rle_new_b w size) = rle_new w.
Proof. reflexivity. Qed.

Lemma abs_b_if (c : bool) a b : abs_b (if c then a else b) = if c then abs_b a else abs_b b.
Proof. destruct c; reflexivity. Qed.

Lemma end_previous_bp_sim r :
  good_b r ->
  good_b (end_previous_bp_b r) /\ abs_b (end_previous_bp_b r) = end_previous_bp (abs_b r).
Proof.
  intros [Hinv Hhp]. unfold end_previous_bp_b, end_previous_bp.
  cbn [abs_b r_hp]. destruct (b_hp r) as [hp|] eqn:Ehp.
  - specialize (Hhp hp eq_refl). split.
    + split; cbn [b_out b_hp]; [apply wb_inv_write_at_any; exact Hinv | intros hp' Hd; discriminate Hd].
    + unfold abs_b. cbn [b_w b_out b_prev b_buf b_rep b_groups b_hp r_w r_out r_prev r_buf r_rep r_groups].
      rewrite wb_bytes_patch by assumption. reflexivity.
  - split; [split; [exact Hinv | rewrite Ehp; intros hp' Hd; discriminate Hd] | reflexivity].
Qed.

Lemma end_previous_bp_b_hp r : b_hp (end_previous_bp_b r) = None.
Proof. unfold end_previous_bp_b. destruct (b_hp r) as [hp|] eqn:Ehp; [reflexivity | exact Ehp]. Qed.

(** The part of [writeOrAppendBitPackedRun] after the [groupCount >= 63] test. *)
Definition woa_tail_b (r1 : rle_b) (vals8 : list N) : rle_b :=
  let '(out2, hp2) :=
    match b_hp r1 with
    | None => let o := wb_write [0] (b_out r1) in (o, Some (wb_i o - 1)%nat)
    | Some hp => (b_out r1, Some hp)
    end in
  {| b_w := b_w r1;
     b_out := wb_write (pack (b_w r1) vals8) out2;
     b_prev := b_prev r1; b_buf := []; b_rep := 0;
     b_groups := b_groups r1 + 1; b_hp := hp2 |}.

Definition woa_tail (r1 : rle) (vals8 : list N) : rle :=
  let '(out2, hp2) :=
    match r_hp r1 with
    | None => (r_out r1 ++ [0], Some (length (r_out r1)))
    | Some hp => (r_out r1, Some hp)
    end in
  {| r_w := r_w r1;
     r_out := out2 ++ pack (r_w r1) vals8;
     r_prev := r_prev r1; r_buf := []; r_rep := 0;
     r_groups := r_groups r1 + 1; r_hp := hp2 |}.

Lemma woa_tail_sim r vals8 :
  good_b r ->
  good_b (woa_tail_b r vals8) /\ abs_b (woa_tail_b r vals8) = woa_tail (abs_b r) vals8.
Proof.
  intros [Hinv Hhp]. unfold woa_tail_b, woa_tail. cbn [abs_b r_hp r_out r_w r_prev r_groups].
  destruct (b_hp r) as [hp|] eqn:Ehp.
  - specialize (Hhp hp eq_refl). split.
    + split; cbn [b_out b_hp].
      * apply wb_inv_write. exact Hinv.
      * intros hp' Hd. injection Hd as Hd. subst hp'. rewrite wb_write_i. lia.
    + unfold abs_b. cbn [b_w b_out b_prev b_buf b_rep b_groups b_hp].
      rewrite wb_bytes_write by exact Hinv. reflexivity.
  - pose proof (wb_inv_write [0] (b_out r) Hinv) as Hinv1. split.
    + split; cbn [b_out b_hp].
      * apply wb_inv_write. exact Hinv1.
      * intros hp' Hd. injection Hd as Hd. subst hp'.
        rewrite !wb_write_i. cbn [length]. lia.
    + unfold abs_b. cbn [b_w b_out b_prev b_buf b_rep b_groups b_hp].
      rewrite wb_bytes_write by exact Hinv1. rewrite wb_bytes_write by exact Hinv.
      rewrite wb_write_i, wb_bytes_length by exact Hinv. cbn [length].
      replace (wb_i (b_out r) + 1 - 1)%nat with (wb_i (b_out r)) by lia. reflexivity.
Qed.

Lemma write_or_append_bp_sim r vals8 :
  good_b r ->
  good_b (write_or_append_bp_b r vals8)
  /\ abs_b (write_or_append_bp_b r vals8) = write_or_append_bp (abs_b r) vals8.
Proof.
  intros Hgood.
  change (write_or_append_bp_b r vals8)
    with (woa_tail_b (if 63 <=? b_groups r then end_previous_bp_b r else r) vals8).
  change (write_or_append_bp (abs_b r) vals8)
    with (woa_tail (if 63 <=? r_groups (abs_b r) then end_previous_bp (abs_b r) else abs_b r) vals8).
  cbn [abs_b r_groups].
  destruct (end_previous_bp_sim r Hgood) as [Hg1 Ha1].
  destruct (63 <=? b_groups r) eqn:E63.
  - rewrite <- Ha1. apply woa_tail_sim. exact Hg1.
  - apply woa_tail_sim. exact Hgood.
Qed.

Lemma write_rle_run_sim r :
  good_b r ->
  good_b (write_rle_run_b r) /\ abs_b (write_rle_run_b r) = write_rle_run (abs_b r).
Proof.
  intros Hgood. destruct (end_previous_bp_sim r Hgood) as [[Hinv1 Hhp1] Ha1].
  unfold write_rle_run_b, write_rle_run. rewrite <- Ha1.
  set (r1 := end_previous_bp_b r) in *.
  pose proof (wb_inv_write (leb128_go (2 * b_rep r1)) (b_out r1) Hinv1) as Hinv2.
  split.
  - split; cbn [b_out b_hp].
    + apply wb_inv_write. exact Hinv2.
    + intros hp Hd. specialize (Hhp1 hp Hd). rewrite !wb_write_i. lia.
  - unfold abs_b. cbn [b_w b_out b_prev b_buf b_rep b_groups b_hp r_w r_out r_prev r_buf r_rep r_groups r_hp].
    rewrite wb_bytes_write by exact Hinv2. rewrite wb_bytes_write by exact Hinv1.
    rewrite <- app_assoc. reflexivity.
Qed.

Lemma set_rep_prev_sim r rep prev :
  good_b r ->
  good_b (set_rep_prev_b r rep prev) /\ abs_b (set_rep_prev_b r rep prev) = set_rep_prev (abs_b r) rep prev.
Proof. intros Hgood. split; [exact Hgood | reflexivity]. Qed.

Lemma rle_push_sim r v :
  good_b r ->
  good_b (rle_push_b r v) /\ abs_b (rle_push_b r v) = rle_push (abs_b r) v.
Proof.
  intros Hgood. unfold rle_push_b, rle_push. cbn [b_buf r_buf abs_b].
  set (r1 := {| b_w := b_w r; b_out := b_out r; b_prev := b_prev r; b_buf := b_buf r ++ [v];
                b_rep := b_rep r; b_groups := b_groups r; b_hp := b_hp r |}).
  assert (Hg1 : good_b r1) by exact Hgood.
  destruct (Nat.eqb (length (b_buf r ++ [v])) 8) eqn:E8.
  - apply (write_or_append_bp_sim r1 (b_buf r ++ [v]) Hg1).
  - split; [exact Hg1 | reflexivity].
Qed.

Lemma rle_write_sim r v :
  good_b r ->
  good_b (rle_write_b r v) /\ abs_b (rle_write_b r v) = rle_write (abs_b r) v.
Proof.
  intros Hgood. unfold rle_write_b, rle_write. cbn [abs_b r_prev r_rep].
  destruct (v =? b_prev r) eqn:Eprev.
  - destruct (set_rep_prev_sim r (b_rep r + 1) (b_prev r) Hgood) as [Hg1 Ha1].
    change (r_rep (set_rep_prev (abs_b r) (b_rep r + 1) (b_prev r))) with (b_rep r + 1).
    change (b_rep (set_rep_prev_b r (b_rep r + 1) (b_prev r))) with (b_rep r + 1).
    destruct (8 <=? b_rep r + 1) eqn:E8.
    + split; [exact Hg1 | exact Ha1].
    + change (set_rep_prev {| r_w := b_w r; r_out := wb_bytes (b_out r); r_prev := b_prev r;
                              r_buf := b_buf r; r_rep := b_rep r; r_groups := b_groups r;
                              r_hp := b_hp r |} (b_rep r + 1) (b_prev r))
        with (set_rep_prev (abs_b r) (b_rep r + 1) (b_prev r)).
      rewrite <- Ha1. apply rle_push_sim. exact Hg1.
  - destruct (write_rle_run_sim r Hgood) as [Hg1 Ha1].
    change {| r_w := b_w r; r_out := wb_bytes (b_out r); r_prev := b_prev r;
              r_buf := b_buf r; r_rep := b_rep r; r_groups := b_groups r;
              r_hp := b_hp r |} with (abs_b r).
    destruct (8 <=? b_rep r) eqn:E8.
    + rewrite <- Ha1.
      destruct (set_rep_prev_sim (write_rle_run_b r) 1 v Hg1) as [Hg2 Ha2].
      rewrite <- Ha2. apply rle_push_sim. exact Hg2.
    + destruct (set_rep_prev_sim r 1 v Hgood) as [Hg2 Ha2].
      rewrite <- Ha2. apply rle_push_sim. exact Hg2.
Qed.

Lemma rle_flush_sim r :
  good_b r ->
  good_b (rle_flush_b r) /\ abs_b (rle_flush_b r) = rle_flush (abs_b r).
Proof.
  intros Hgood. unfold rle_flush_b, rle_flush. cbn [abs_b r_rep r_buf].
  change {| r_w := b_w r; r_out := wb_bytes (b_out r); r_prev := b_prev r;
            r_buf := b_buf r; r_rep := b_rep r; r_groups := b_groups r;
            r_hp := b_hp r |} with (abs_b r).
  destruct (8 <=? b_rep r) eqn:E8.
  - apply write_rle_run_sim. exact Hgood.
  - destruct (negb (Nat.eqb (length (b_buf r)) 0)) eqn:Ebuf.
    + destruct (write_or_append_bp_sim r (b_buf r ++ repeat 0 (8 - length (b_buf r))) Hgood)
        as [Hg1 Ha1].
      rewrite <- Ha1. apply end_previous_bp_sim. exact Hg1.
    + apply end_previous_bp_sim. exact Hgood.
Qed.

Lemma rle_fold_sim levels : forall r,
  good_b r ->
  good_b (fold_left rle_write_b levels r)
  /\ abs_b (fold_left rle_write_b levels r) = fold_left rle_write levels (abs_b r).
Proof.
  induction levels as [|v levels IH]; intros r Hgood; cbn [fold_left].
  - split; [exact Hgood | reflexivity].
  - destruct (rle_write_sim r v Hgood) as [Hg1 Ha1]. rewrite <- Ha1. apply IH. exact Hg1.
Qed.

Lemma rle_bytes_sim r : good_b r -> rle_bytes_b r = rle_bytes (abs_b r).
Proof.
  intros Hgood. destruct (rle_flush_sim r Hgood) as [[Hinv _] Ha].
  unfold rle_bytes_b, rle_bytes. rewrite <- Ha. cbn [abs_b r_out].
  unfold nlen. rewrite wb_bytes_length by exact Hinv. reflexivity.
Qed.

(** The encoder of rle.go on the real [writeBuffer], created with any [size],
    writes the bytes computed by [Rle.rle_encode]. *)
Theorem rle_encode_b_eq w size levels : rle_encode_b w size levels = rle_encode w levels.
Proof.
  unfold rle_encode_b, rle_encode.
  destruct (rle_fold_sim levels (rle_new_b w size) (good_b_new w size)) as [Hg Ha].
  rewrite rle_bytes_sim by exact Hg. rewrite Ha, abs_b_new. reflexivity.
Qed.

(** The invariant of [Rle.v]'s own encoder obtained on the way: the remembered
    header position is inside the output (so [update_at] really overwrites). *)
Theorem rle_hp_in_out w levels hp :
  r_hp (fold_left rle_write levels (rle_new w)) = Some hp ->
  (hp < length (r_out (fold_left rle_write levels (rle_new w))))%nat.
Proof.
  destruct (rle_fold_sim levels (rle_new_b w 0) (good_b_new w 0)) as [[Hinv Hhp] Ha].
  rewrite abs_b_new in Ha. rewrite <- Ha. cbn [abs_b r_hp r_out].
  intros Hd. rewrite wb_bytes_length by exact Hinv. apply Hhp. exact Hd.
Qed.

Print Assumptions wb_inv_new.
Print Assumptions wb_inv_write_at.
Print Assumptions wb_bytes_write.
Print Assumptions wb_bytes_patch.
Print Assumptions wb_patch_i.
Print Assumptions rle_encode_b_eq.
Print Assumptions rle_hp_in_out.
