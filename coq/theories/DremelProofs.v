(** * DremelProofs: the reference Dremel shredder and assembler are inverse,
    levels are bounded, records are delimited by repetition level 0, and
    sibling columns agree on the structure of their common ancestors. *)
From Coq Require Import List NArith Lia Bool Arith PeanoNat.
From Coq Require Import ZifyN ZifyNat ZifyBool.
From PQ Require Import Bytes Schema Dremel.
Import ListNotations.
Local Open Scope N_scope.

(** ** Induction principles for the nested inductives *)

Section TyInd.
  Variable P : ty -> Prop.
  Hypothesis Hleaf : forall p, P (TLeaf p).
  Hypothesis Hgroup :
    forall fs : list field, Forall (fun f : field => P (snd f)) fs -> P (TGroup fs).
  Fixpoint ty_ind' (t : ty) : P t :=
    match t with
    | TLeaf p => Hleaf p
    | TGroup fs =>
        Hgroup fs
          ((fix go (fs : list field) : Forall (fun f : field => P (snd f)) fs :=
              match fs with
              | [] => Forall_nil _
              | f :: fs' => Forall_cons f (ty_ind' (snd f)) (go fs')
              end) fs)
    end.
End TyInd.

Section ValueInd.
  Variable P : value -> Prop.
  Hypothesis Hnum : forall n, P (VNum n).
  Hypothesis Hstr : forall bs, P (VStr bs).
  Hypothesis Hnull : P VNull.
  Hypothesis Hlist : forall vs, Forall P vs -> P (VList vs).
  Hypothesis Hgrp : forall vs, Forall P vs -> P (VGroup vs).
  Fixpoint value_ind' (v : value) : P v :=
    let go :=
      fix go (vs : list value) : Forall P vs :=
        match vs with
        | [] => Forall_nil _
        | v' :: vs' => Forall_cons v' (value_ind' v') (go vs')
        end in
    match v with
    | VNum n => Hnum n
    | VStr bs => Hstr bs
    | VNull => Hnull
    | VList vs => Hlist vs (go vs)
    | VGroup vs => Hgrp vs (go vs)
    end.
End ValueInd.

(** ** Well-formed types: every group has at least one field *)

Fixpoint ty_okb (t : ty) : bool :=
  match t with
  | TLeaf _ => true
  | TGroup fs =>
      match fs with
      | [] => false
      | _ => forallb (fun f : field => ty_okb (snd f)) fs
      end
  end.

(** ** The Dremel paper's Document example *)

Definition doc : list field :=
  [ ([1], Req, TLeaf PInt64);
    ([2], Opt, TGroup [ ([3], Rep, TLeaf PInt64); ([4], Rep, TLeaf PInt64) ]);
    ([5], Rep, TGroup [ ([6], Rep, TGroup [ ([7], Req, TLeaf PString); ([8], Opt, TLeaf PString) ]);
                        ([9], Opt, TLeaf PString) ]) ].
Definition r1 : value :=
  VGroup [ VNum 10;
           VGroup [ VList []; VList [VNum 20; VNum 40; VNum 60] ];
           VList [ VGroup [ VList [ VGroup [VStr [1]; VStr [2]]; VGroup [VStr [3]; VNull] ]; VStr [9] ];
                   VGroup [ VList []; VStr [8] ];
                   VGroup [ VList [ VGroup [VStr [4]; VStr [5]] ]; VNull ] ] ].
Definition r2 : value :=
  VGroup [ VNum 20;
           VGroup [ VList [VNum 10; VNum 30]; VList [VNum 80] ];
           VList [ VGroup [ VList []; VStr [7] ] ] ].

Example doc_ok : (ty_okb (TGroup doc) && has_tyb (TGroup doc) r1 && has_tyb (TGroup doc) r2)%bool = true.
Proof. vm_compute. reflexivity. Qed.

(** Name.Language.Code of r1: en-us (0,2), en (2,2), NULL (1,1), en-gb (1,2). *)
Example paper_code_r1 :
  nth_error (shred_record doc r1) 3 =
  Some [ mk_entry 0 2 (Some (VStr [1])); mk_entry 2 2 (Some (VStr [3]));
         mk_entry 1 1 None; mk_entry 1 2 (Some (VStr [4])) ].
Proof. vm_compute. reflexivity. Qed.

(** Name.Language.Country of r1: us (0,3), NULL (2,2), NULL (1,1), gb (1,3). *)
Example paper_country_r1 :
  nth_error (shred_record doc r1) 4 =
  Some [ mk_entry 0 3 (Some (VStr [2])); mk_entry 2 2 None;
         mk_entry 1 1 None; mk_entry 1 3 (Some (VStr [5])) ].
Proof. vm_compute. reflexivity. Qed.

(** Code and Country of r2: a single NULL at (0,1). *)
Example paper_code_country_r2 :
  (nth_error (shred_record doc r2) 3, nth_error (shred_record doc r2) 4) =
  (Some [mk_entry 0 1 None], Some [mk_entry 0 1 None]).
Proof. vm_compute. reflexivity. Qed.

Example paper_roundtrip :
  assemble_records doc (shred_records doc [r1; r2; r1]) = Some [r1; r2; r1].
Proof. vm_compute. reflexivity. Qed.

(** The level and boundary statements, checked on the example. *)
Example paper_levels_ok :
  forallb (fun ces => forallb (entry_levels_ok (fst ces)) (snd ces))
          (combine (columns doc) (shred_records doc [r1; r2; r1])) = true /\
  map count_rep0 (shred_records doc [r1; r2; r1]) = repeat 3 6.
Proof. vm_compute. split; reflexivity. Qed.

(** Why [ty_okb] is needed: with a field-less group the number of records, or
    the presence of an optional group, is not recorded in any column. *)
Example ty_okb_needed :
  assemble_records [] (shred_records [] [VGroup []]) = Some [] /\
  assemble_record [([1], Opt, TGroup [])] (shred_record [([1], Opt, TGroup [])] (VGroup [VGroup []])) = None.
Proof. vm_compute. split; reflexivity. Qed.

(** ** Unfolding equations for the nested fixpoints *)

Definition has_field (rp : rept) (t' : ty) (v' : value) : bool :=
  match rp with
  | Req => has_tyb t' v'
  | Opt => match v' with VNull => true | _ => has_tyb t' v' end
  | Rep => match v' with VList es => forallb (has_tyb t') es | _ => false end
  end.

Fixpoint has_fields (fs : list field) (vs : list value) : bool :=
  match fs, vs with
  | [], [] => true
  | (_, rp, t') :: fs', v' :: vs' => has_field rp t' v' && has_fields fs' vs'
  | _, _ => false
  end.

Lemma has_tyb_group fs vs : has_tyb (TGroup fs) (VGroup vs) = has_fields fs vs.
Proof.
  reflexivity. Qed.

Lemma has_tyb_group_inv fs v :
  has_tyb (TGroup fs) v = true -> exists vs, v = VGroup vs /\ has_fields fs vs = true.
Proof.
  destruct v as [n|bs| |vs|vs]; try discriminate.
  intros H. exists vs. split; [reflexivity|]. rewrite <- has_tyb_group. exact H.
Qed.

Lemma leaf_count_nil : leaf_count (TGroup []) = 0%nat.
Proof. reflexivity. Qed.

Lemma leaf_count_cons n rp t' fs :
  leaf_count (TGroup ((n, rp, t') :: fs)) = (leaf_count t' + leaf_count (TGroup fs))%nat.
Proof. reflexivity. Qed.

Lemma null_cols_leaf p r d : null_cols (TLeaf p) r d = [[mk_entry r d None]].
Proof. reflexivity. Qed.

Lemma null_cols_nil r d : null_cols (TGroup []) r d = [].
Proof. reflexivity. Qed.

Lemma null_cols_cons n rp t' fs r d :
  null_cols (TGroup ((n, rp, t') :: fs)) r d = null_cols t' r d ++ null_cols (TGroup fs) r d.
Proof. reflexivity. Qed.

Lemma columns_ty_leaf pth rs p :
  columns_ty pth rs (TLeaf p) = [ {| c_path := pth; c_reps := rs; c_prim := p |} ].
Proof. reflexivity. Qed.

Lemma columns_ty_nil pth rs : columns_ty pth rs (TGroup []) = [].
Proof. reflexivity. Qed.

Lemma columns_ty_cons pth rs n rp t' fs :
  columns_ty pth rs (TGroup ((n, rp, t') :: fs)) =
  columns_ty (pth ++ [n]) (rs ++ [rp]) t' ++ columns_ty pth rs (TGroup fs).
Proof. reflexivity. Qed.

(** The columns one field contributes. *)
Definition shred_field (rp : rept) (t' : ty) (v' : value) (r d k : N) : list (list entry) :=
  match rp with
  | Req => shred_ty t' v' r d k
  | Opt =>
      match v' with
      | VNull => null_cols t' r d
      | _ => shred_ty t' v' r (d + 1) k
      end
  | Rep =>
      match v' with
      | VList (x :: xs) =>
          fold_left zipcat
            (map (fun y => shred_ty t' y (k + 1) (d + 1) (k + 1)) xs)
            (shred_ty t' x r (d + 1) (k + 1))
      | _ => null_cols t' r d
      end
  end.

Fixpoint shred_fields (fs : list field) (vs : list value) (r d k : N) : list (list entry) :=
  match fs, vs with
  | (_, rp, t') :: fs', v' :: vs' => shred_field rp t' v' r d k ++ shred_fields fs' vs' r d k
  | _, _ => []
  end.

Lemma shred_ty_leaf p v r d k : shred_ty (TLeaf p) v r d k = [[mk_entry r d (Some v)]].
Proof. reflexivity. Qed.

Lemma shred_ty_group fs vs r d k :
  shred_ty (TGroup fs) (VGroup vs) r d k = shred_fields fs vs r d k.
Proof.
  revert vs; induction fs as [|[[n rp] t'] fs IH]; intros [|v' vs]; try reflexivity.
  cbn [shred_fields]. rewrite <- IH. reflexivity.
Qed.

(** The value one field is assembled to. *)
Definition assemble_field (rp : rept) (t' : ty) (mine : list (list entry)) (d k : N) : option value :=
  match rp with
  | Req => assemble_ty t' mine d k
  | Opt =>
      match first_def mine with
      | Some fd => if fd <=? d then Some VNull else assemble_ty t' mine (d + 1) k
      | None => None
      end
  | Rep =>
      match first_def mine with
      | Some fd =>
          if fd <=? d then Some (VList [])
          else
            let segs := map (split_at_rep (k + 1)) mine in
            let elems := transpose (length (hd [] segs)) segs in
            option_map VList (sequence (map (fun el => assemble_ty t' el (d + 1) (k + 1)) elems))
      | None => None
      end
  end.

Fixpoint assemble_fields (fs : list field) (cols : list (list entry)) (d k : N) : option (list value) :=
  match fs with
  | [] => match cols with [] => Some [] | _ => None end
  | (_, rp, t') :: fs' =>
      match assemble_field rp t' (firstn (leaf_count t') cols) d k,
            assemble_fields fs' (skipn (leaf_count t') cols) d k with
      | Some v, Some vs => Some (v :: vs)
      | _, _ => None
      end
  end.

Lemma assemble_ty_leaf p cols d k :
  assemble_ty (TLeaf p) cols d k = match cols with [[e]] => e_val e | _ => None end.
Proof. reflexivity. Qed.

Lemma assemble_ty_group fs cols d k :
  assemble_ty (TGroup fs) cols d k = option_map VGroup (assemble_fields fs cols d k).
Proof.
  cbn [assemble_ty]. f_equal.
  revert cols; induction fs as [|[[n rp] t'] fs IH]; intros cols; [reflexivity|].
  cbn [assemble_fields]. rewrite <- IH. reflexivity.
Qed.

Lemma ty_okb_group fs :
  ty_okb (TGroup fs) = true ->
  fs <> [] /\ Forall (fun f : field => ty_okb (snd f) = true) fs.
Proof.
  destruct fs as [|f fs]; [discriminate|].
  intros H. split; [discriminate|].
  apply Forall_forall. intros x Hx.
  change (forallb (fun f : field => ty_okb (snd f)) (f :: fs) = true) in H.
  rewrite forallb_forall in H. apply H. exact Hx.
Qed.

(** ** Generic list facts *)

Lemma Forall2_nth_error {A B} (P : A -> B -> Prop) l1 l2 i a b :
  Forall2 P l1 l2 -> nth_error l1 i = Some a -> nth_error l2 i = Some b -> P a b.
Proof.
  intros H. revert i. induction H as [|x y l1 l2 Hxy Hl IH]; intros [|i] Ha Hb;
    cbn [nth_error] in Ha, Hb; try discriminate.
  - injection Ha as <-. injection Hb as <-. exact Hxy.
  - eapply IH; eassumption.
Qed.

Lemma forallb_Forall {A} (f : A -> bool) l : forallb f l = true -> Forall (fun x => f x = true) l.
Proof. intros H. apply Forall_forall. apply forallb_forall. exact H. Qed.

Lemma sequence_map_inv {A B} (f : B -> option A) (g : A -> B) xs :
  Forall (fun y => f (g y) = Some y) xs -> sequence (map f (map g xs)) = Some xs.
Proof.
  induction 1 as [|y xs Hy Hxs IH]; cbn [map sequence]; [reflexivity|].
  rewrite Hy, IH. reflexivity.
Qed.

(** ** Column-wise concatenation *)

Lemma zipcat_length a b : length (zipcat a b) = Nat.min (length a) (length b).
Proof.
  revert b; induction a as [|x a IH]; intros [|y b]; cbn [zipcat length Nat.min]; try reflexivity.
  rewrite IH. reflexivity.
Qed.

Lemma zipcat_assoc a b c : zipcat (zipcat a b) c = zipcat a (zipcat b c).
Proof.
  revert b c; induction a as [|x a IH]; intros [|y b] [|z c]; cbn [zipcat]; try reflexivity.
  rewrite <- app_assoc, IH. reflexivity.
Qed.

Lemma zipcat_Forall (P Q R : list entry -> Prop) a b :
  (forall x y, P x -> Q y -> R (x ++ y)) ->
  Forall P a -> Forall Q b -> Forall R (zipcat a b).
Proof.
  intros HR Ha. revert b. induction Ha as [|x a Hx Ha IH]; intros b Hb; [constructor|].
  destruct Hb as [|y b Hy Hb]; cbn [zipcat]; constructor; auto.
Qed.

Lemma zipcat_Forall_l (P : list entry -> Prop) a b :
  (forall x y, P x -> P (x ++ y)) -> Forall P a -> Forall P (zipcat a b).
Proof.
  intros HP Ha. revert b. induction Ha as [|x a Hx Ha IH]; intros [|y b]; cbn [zipcat]; constructor; auto.
Qed.

Lemma zipcat_repeat_nil c : zipcat (repeat [] (length c)) c = c.
Proof. induction c as [|x c IH]; cbn [length repeat zipcat app]; [reflexivity|]. rewrite IH. reflexivity. Qed.

(** [fold_left zipcat css c0] written as a right-nested concatenation. *)
Fixpoint zipcat_list (c0 : list (list entry)) (css : list (list (list entry))) : list (list entry) :=
  match css with
  | [] => c0
  | c1 :: css' => zipcat c0 (zipcat_list c1 css')
  end.

Lemma fold_left_zipcat css : forall a b,
  fold_left zipcat css (zipcat a b) = zipcat a (fold_left zipcat css b).
Proof.
  induction css as [|c css IH]; intros a b; cbn [fold_left]; [reflexivity|].
  rewrite zipcat_assoc. apply IH.
Qed.

Lemma fold_left_zipcat_list css : forall c0, fold_left zipcat css c0 = zipcat_list c0 css.
Proof.
  induction css as [|c1 css IH]; intros c0; cbn [fold_left zipcat_list]; [reflexivity|].
  rewrite fold_left_zipcat, IH. reflexivity.
Qed.

Lemma zipcat_list_length n css : forall c0,
  Forall (fun c => length c = n) (c0 :: css) -> length (zipcat_list c0 css) = n.
Proof.
  induction css as [|c1 css IH]; intros c0 H; cbn [zipcat_list].
  - inversion H; assumption.
  - destruct (proj1 (Forall_cons_iff _ _ _) H) as [Hc0 Hrest]. rewrite zipcat_length, (IH c1 Hrest), Hc0. apply Nat.min_id.
Qed.

Lemma zipcat_list_Forall_l (P : list entry -> Prop) css : forall c0,
  (forall x y, P x -> P (x ++ y)) -> Forall P c0 -> Forall P (zipcat_list c0 css).
Proof.
  destruct css as [|c1 css]; intros c0 HP H0; cbn [zipcat_list]; [exact H0|].
  apply zipcat_Forall_l; assumption.
Qed.

Lemma zipcat_list_Forall (P : list entry -> Prop) css : forall c0,
  (forall x y, P x -> P y -> P (x ++ y)) ->
  Forall (Forall P) (c0 :: css) -> Forall P (zipcat_list c0 css).
Proof.
  induction css as [|c1 css IH]; intros c0 HP H; cbn [zipcat_list];
    destruct (proj1 (Forall_cons_iff _ _ _) H) as [Hc0 Hrest]; [exact Hc0|].
  eapply zipcat_Forall; [exact HP|exact Hc0|]. apply IH; assumption.
Qed.

(** ** Shape of a column *)

Definition all_gt (k : N) (es : list entry) : Prop := Forall (fun e => k < e_rep e) es.

(** Non-empty, the first entry has repetition level [r] and definition level
    at least [d], every later entry has a repetition level above [k]. *)
Definition col_ok (r d k : N) (es : list entry) : Prop :=
  match es with
  | [] => False
  | e :: rest => e_rep e = r /\ d <= e_def e /\ all_gt k rest
  end.

Definition hd_le (k : N) (es : list entry) : Prop :=
  match es with [] => False | e :: _ => e_rep e <= k end.
Definition tail_gt (k : N) (es : list entry) : Prop :=
  match es with [] => False | _ :: rest => all_gt k rest end.

Lemma all_gt_weaken k k' es : k' <= k -> all_gt k es -> all_gt k' es.
Proof. intros Hk H. eapply Forall_impl; [|exact H]. cbv beta. intros e He. lia. Qed.

Lemma all_gt_app k a b : all_gt k a -> all_gt k b -> all_gt k (a ++ b).
Proof. intros Ha Hb. apply Forall_app. split; assumption. Qed.

Lemma col_ok_weaken r d k d' k' es : d' <= d -> k' <= k -> col_ok r d k es -> col_ok r d' k' es.
Proof.
  destruct es as [|e rest]; [auto|]. intros Hd Hk (Hr & Hdef & Hrest).
  split; [exact Hr|]. split; [lia|]. eapply all_gt_weaken; eassumption.
Qed.

Lemma col_ok_all_gt r d k k' es : k' < r -> k' <= k -> col_ok r d k es -> all_gt k' es.
Proof.
  destruct es as [|e rest]; [contradiction|]. intros Hr Hk (Hr' & _ & Hrest).
  constructor; [lia|]. eapply all_gt_weaken; eassumption.
Qed.

Lemma col_ok_app r d k a b : col_ok r d k a -> all_gt k b -> col_ok r d k (a ++ b).
Proof.
  destruct a as [|e rest]; [contradiction|]. intros (Hr & Hd & Hrest) Hb.
  cbn [app col_ok]. split; [exact Hr|]. split; [exact Hd|]. apply all_gt_app; assumption.
Qed.

Lemma col_ok_tail_gt r d k es : col_ok r d k es -> tail_gt k es.
Proof. destruct es as [|e rest]; [auto|]. intros (_ & _ & H). exact H. Qed.

Lemma col_ok_hd_le r d k es : col_ok r d k es -> hd_le r es.
Proof. destruct es as [|e rest]; [auto|]. intros (H & _ & _). cbn [hd_le]. lia. Qed.

Lemma hd_le_app k a b : hd_le k a -> hd_le k (a ++ b).
Proof. destruct a as [|e rest]; [contradiction|]. auto. Qed.

Lemma zipcat_list_ok r d k css c0 :
  Forall (col_ok r d k) c0 -> Forall (Forall (all_gt k)) css ->
  Forall (col_ok r d k) (zipcat_list c0 css).
Proof.
  intros H0 Hcss. destruct css as [|c1 css]; cbn [zipcat_list]; [exact H0|].
  eapply zipcat_Forall; [|exact H0|].
  - intros x y Hx Hy. apply col_ok_app; eassumption.
  - apply zipcat_list_Forall; [|exact Hcss]. intros x y. apply all_gt_app.
Qed.

Lemma first_def_ok r d k cols :
  (0 < length cols)%nat -> Forall (col_ok r d k) cols ->
  exists fd, first_def cols = Some fd /\ d <= fd.
Proof.
  destruct cols as [|c cols]; cbn [length]; [lia|]. intros _ H.
  destruct (proj1 (Forall_cons_iff _ _ _) H) as [Hc _]. destruct c as [|e rest]; [contradiction|].
  destruct Hc as (_ & Hd & _). exists (e_def e). split; [reflexivity|exact Hd].
Qed.

(** ** Splitting a column back into its pieces *)

Lemma split_at_rep_1 k e : split_at_rep k [e] = [[e]].
Proof. reflexivity. Qed.

Lemma split_at_rep_2 k e e' rest :
  split_at_rep k (e :: e' :: rest) =
  if e_rep e' <=? k then [e] :: split_at_rep k (e' :: rest)
  else match split_at_rep k (e' :: rest) with
       | s :: ss => (e :: s) :: ss
       | [] => [[e]]
       end.
Proof. reflexivity. Qed.

Lemma split_app k a b :
  tail_gt k a -> (b = [] \/ hd_le k b) -> split_at_rep k (a ++ b) = a :: split_at_rep k b.
Proof.
  destruct a as [|e rest]; [contradiction|]. unfold tail_gt, all_gt. intros Hrest Hb.
  revert e. induction Hrest as [|e2 rest' He2 Hrest' IH]; intros e.
  - cbn [app]. destruct b as [|e' b']; [reflexivity|].
    destruct Hb as [Hb|Hb]; [discriminate|]. cbn [hd_le] in Hb.
    rewrite split_at_rep_2.
    destruct (e_rep e' <=? k) eqn:Hle; [reflexivity|lia].
  - change ((e :: e2 :: rest') ++ b) with (e :: e2 :: (rest' ++ b)).
    rewrite split_at_rep_2.
    destruct (e_rep e2 <=? k) eqn:Hle; [lia|].
    change (e2 :: rest' ++ b) with ((e2 :: rest') ++ b). rewrite IH. reflexivity.
Qed.

Lemma split_single k a : tail_gt k a -> split_at_rep k a = [a].
Proof.
  intros Ha. rewrite <- (app_nil_r a) at 1. rewrite split_app; [reflexivity|exact Ha|left; reflexivity].
Qed.

Fixpoint zipcons (a : list (list entry)) (b : list (list (list entry))) : list (list (list entry)) :=
  match a, b with
  | x :: a', y :: b' => (x :: y) :: zipcons a' b'
  | _, _ => []
  end.

Fixpoint unzip_segs (c0 : list (list entry)) (css : list (list (list entry))) : list (list (list entry)) :=
  match css with
  | [] => map (fun c => [c]) c0
  | c1 :: css' => zipcons c0 (unzip_segs c1 css')
  end.

Lemma map_split_zipcat k a b :
  Forall (tail_gt k) a -> Forall (hd_le k) b ->
  map (split_at_rep k) (zipcat a b) = zipcons a (map (split_at_rep k) b).
Proof.
  intros Ha. revert b. induction Ha as [|x a Hx Ha IH]; intros b Hb; [reflexivity|].
  destruct Hb as [|y b Hy Hb]; [reflexivity|].
  cbn [zipcat map zipcons]. rewrite split_app by (auto). rewrite IH by assumption. reflexivity.
Qed.

Lemma map_split_zipcat_list k css : forall c0,
  Forall (Forall (tail_gt k)) (c0 :: css) -> Forall (Forall (hd_le k)) css ->
  map (split_at_rep k) (zipcat_list c0 css) = unzip_segs c0 css.
Proof.
  induction css as [|c1 css IH]; intros c0 Ht Hh; cbn [zipcat_list unzip_segs];
    destruct (proj1 (Forall_cons_iff _ _ _) Ht) as [Ht0 Htrest].
  - clear Ht. induction Ht0 as [|c c0 Hc Hc0 IH0]; [reflexivity|].
    cbn [map]. rewrite split_single by exact Hc. rewrite IH0. reflexivity.
  - destruct (proj1 (Forall_cons_iff _ _ _) Hh) as [Hh1 Hhrest].
    rewrite map_split_zipcat.
    + rewrite IH by assumption. reflexivity.
    + exact Ht0.
    + apply zipcat_list_Forall_l; [|exact Hh1]. intros x y. apply hd_le_app.
Qed.

Lemma zipcons_length a b : length (zipcons a b) = Nat.min (length a) (length b).
Proof.
  revert b; induction a as [|x a IH]; intros [|y b]; cbn [zipcons length Nat.min]; try reflexivity.
  rewrite IH. reflexivity.
Qed.

Lemma map_hd_zipcons a b : length a = length b -> map (hd []) (zipcons a b) = a.
Proof.
  revert b; induction a as [|x a IH]; intros [|y b] H; cbn [length] in H; try discriminate; [reflexivity|].
  cbn [zipcons map hd]. rewrite IH by lia. reflexivity.
Qed.

Lemma map_tl_zipcons a b : length a = length b -> map (@tl _) (zipcons a b) = b.
Proof.
  revert b; induction a as [|x a IH]; intros [|y b] H; cbn [length] in H; try discriminate; [reflexivity|].
  cbn [zipcons map tl]. rewrite IH by lia. reflexivity.
Qed.

Lemma unzip_segs_length n css : forall c0,
  Forall (fun c => length c = n) (c0 :: css) -> length (unzip_segs c0 css) = n.
Proof.
  induction css as [|c1 css IH]; intros c0 H; cbn [unzip_segs];
    destruct (proj1 (Forall_cons_iff _ _ _) H) as [Hc0 Hrest].
  - rewrite map_length. exact Hc0.
  - rewrite zipcons_length, (IH c1 Hrest), Hc0. apply Nat.min_id.
Qed.

Lemma transpose_S n segs :
  transpose (S n) segs = map (hd []) segs :: transpose n (map (@tl _) segs).
Proof. reflexivity. Qed.

Lemma transpose_unzip n css : forall c0,
  Forall (fun c => length c = n) (c0 :: css) ->
  transpose (S (length css)) (unzip_segs c0 css) = c0 :: css.
Proof.
  induction css as [|c1 css IH]; intros c0 H; destruct (proj1 (Forall_cons_iff _ _ _) H) as [Hc0 Hrest].
  - cbn [length unzip_segs]. rewrite transpose_S. cbn [transpose].
    rewrite map_map. cbn [hd]. rewrite map_id. reflexivity.
  - cbn [length unzip_segs]. rewrite transpose_S.
    assert (Hlen : length c0 = length (unzip_segs c1 css)).
    { rewrite (unzip_segs_length n); [exact Hc0|exact Hrest]. }
    rewrite map_hd_zipcons, map_tl_zipcons by exact Hlen.
    rewrite (IH c1 Hrest). reflexivity.
Qed.

Lemma hd_unzip_segs_length n css : forall c0,
  (0 < n)%nat -> Forall (fun c => length c = n) (c0 :: css) ->
  length (hd [] (unzip_segs c0 css)) = S (length css).
Proof.
  induction css as [|c1 css IH]; intros c0 Hn H; destruct (proj1 (Forall_cons_iff _ _ _) H) as [Hc0 Hrest].
  - destruct c0 as [|c c0]; cbn [length] in Hc0; [lia|]. reflexivity.
  - cbn [unzip_segs].
    pose proof (IH c1 Hn Hrest) as IH1.
    pose proof (unzip_segs_length _ _ _ Hrest) as Hlen.
    destruct c0 as [|c c0]; cbn [length] in Hc0; [lia|].
    destruct (unzip_segs c1 css) as [|s ss]; cbn [length] in Hlen; [lia|].
    cbn [zipcons hd length] in *. rewrite IH1. reflexivity.
Qed.

(** The central inversion: splitting the concatenated columns at the element
    boundary level and transposing recovers the per-element column lists. *)
Lemma transpose_split k n c0 css :
  (0 < n)%nat ->
  Forall (fun c => length c = n) (c0 :: css) ->
  Forall (Forall (tail_gt k)) (c0 :: css) ->
  Forall (Forall (hd_le k)) css ->
  transpose (length (hd [] (map (split_at_rep k) (zipcat_list c0 css))))
            (map (split_at_rep k) (zipcat_list c0 css)) = c0 :: css.
Proof.
  intros Hn Hlen Ht Hh.
  rewrite map_split_zipcat_list by assumption.
  rewrite (hd_unzip_segs_length n) by assumption.
  apply (transpose_unzip n). exact Hlen.
Qed.

(** ** The five ways a field is shredded *)

Inductive field_case (t' : ty) (r d k : N) : rept -> value -> list (list entry) -> Prop :=
| FC_req v :
    has_tyb t' v = true -> field_case t' r d k Req v (shred_ty t' v r d k)
| FC_opt_null :
    field_case t' r d k Opt VNull (null_cols t' r d)
| FC_opt_some v :
    v <> VNull -> has_tyb t' v = true -> field_case t' r d k Opt v (shred_ty t' v r (d + 1) k)
| FC_rep_nil :
    field_case t' r d k Rep (VList []) (null_cols t' r d)
| FC_rep_cons x xs :
    has_tyb t' x = true -> Forall (fun y => has_tyb t' y = true) xs ->
    field_case t' r d k Rep (VList (x :: xs))
      (zipcat_list (shred_ty t' x r (d + 1) (k + 1))
                   (map (fun y => shred_ty t' y (k + 1) (d + 1) (k + 1)) xs)).

Lemma shred_field_case rp t' v' r d k :
  has_field rp t' v' = true -> field_case t' r d k rp v' (shred_field rp t' v' r d k).
Proof.
  destruct rp; cbn [has_field shred_field]; intros H.
  - constructor. exact H.
  - destruct v' as [n|bs| |vs|vs]; try (constructor; [discriminate|exact H]). constructor.
  - destruct v' as [n|bs| |vs|vs]; try discriminate.
    destruct vs as [|x xs]; [constructor|].
    rewrite fold_left_zipcat_list. cbn [forallb] in H. apply andb_true_iff in H. destruct H as [Hx Hxs].
    constructor; [exact Hx|]. apply forallb_Forall. exact Hxs.
Qed.

(** ** 1. Number of columns *)

Lemma null_cols_length t r d : length (null_cols t r d) = leaf_count t.
Proof.
  induction t as [p|fs IH] using ty_ind'; [reflexivity|].
  induction IH as [|[[n rp] t'] fs Ht' Hfs IHfs]; [reflexivity|].
  rewrite null_cols_cons, leaf_count_cons, app_length. cbn [snd] in Ht'. rewrite Ht', IHfs. reflexivity.
Qed.

Lemma null_cols_all t r d : Forall (fun c => c = [mk_entry r d None]) (null_cols t r d).
Proof.
  induction t as [p|fs IH] using ty_ind'; [repeat constructor|].
  induction IH as [|[[n rp] t'] fs Ht' Hfs IHfs]; [constructor|].
  rewrite null_cols_cons. apply Forall_app. split; assumption.
Qed.

Lemma zipcat_list_map_length {A} n (f : A -> list (list entry)) c0 xs :
  length c0 = n -> Forall (fun y => length (f y) = n) xs ->
  length (zipcat_list c0 (map f xs)) = n.
Proof.
  intros H0 Hxs. apply zipcat_list_length. constructor; [exact H0|].
  apply Forall_map. exact Hxs.
Qed.

Lemma shred_field_length rp t' v' r d k :
  (forall v r d k, has_tyb t' v = true -> length (shred_ty t' v r d k) = leaf_count t') ->
  has_field rp t' v' = true -> length (shred_field rp t' v' r d k) = leaf_count t'.
Proof.
  intros IH H. destruct (shred_field_case rp t' v' r d k H) as [v Hv| |v Hnn Hv| |x xs Hx Hxs];
    auto using null_cols_length.
  apply zipcat_list_map_length; [auto|].
  eapply Forall_impl; [|exact Hxs]. cbv beta. auto.
Qed.

Lemma shred_ty_length t : forall v r d k,
  has_tyb t v = true -> length (shred_ty t v r d k) = leaf_count t.
Proof.
  induction t as [p|fs IH] using ty_ind'; intros v r d k Hv; [reflexivity|].
  apply has_tyb_group_inv in Hv. destruct Hv as (vs & -> & Hvs).
  rewrite shred_ty_group. revert vs Hvs.
  induction IH as [|[[n rp] t'] fs Ht' Hfs IHfs]; intros [|v' vs] Hvs; try discriminate; [reflexivity|].
  cbn [has_fields] in Hvs. apply andb_true_iff in Hvs. destruct Hvs as [Hv' Hvs].
  cbn [shred_fields]. rewrite leaf_count_cons, app_length.
  rewrite (shred_field_length rp t' v' r d k Ht' Hv'), (IHfs vs Hvs). reflexivity.
Qed.

(** ** 2. Shape of every column *)

Lemma null_cols_ok t r d k : Forall (col_ok r d k) (null_cols t r d).
Proof.
  eapply Forall_impl; [|apply null_cols_all]. cbv beta. intros c ->.
  cbn [col_ok mk_entry e_rep e_def]. split; [reflexivity|]. split; [lia|constructor].
Qed.

Lemma shred_field_ok rp t' v' r d k :
  (forall v r d k, has_tyb t' v = true -> Forall (col_ok r d k) (shred_ty t' v r d k)) ->
  has_field rp t' v' = true -> Forall (col_ok r d k) (shred_field rp t' v' r d k).
Proof.
  intros IH H. destruct (shred_field_case rp t' v' r d k H) as [v Hv| |v Hnn Hv| |x xs Hx Hxs];
    auto using null_cols_ok.
  - eapply Forall_impl; [|apply (IH v r (d + 1) k Hv)]. intros c. apply col_ok_weaken; lia.
  - apply zipcat_list_ok.
    + eapply Forall_impl; [|apply (IH x r (d + 1) (k + 1) Hx)]. intros c. apply col_ok_weaken; lia.
    + apply Forall_map. eapply Forall_impl; [|exact Hxs]. cbv beta. intros y Hy.
      eapply Forall_impl; [|apply (IH y (k + 1) (d + 1) (k + 1) Hy)]. intros c.
      apply col_ok_all_gt; lia.
Qed.

(** Every column is non-empty, starts with repetition level [r] (and a
    definition level of at least [d]) and continues with repetition levels
    above [k] only. *)
Lemma shred_ty_nonempty t : forall v r d k,
  has_tyb t v = true -> Forall (col_ok r d k) (shred_ty t v r d k).
Proof.
  induction t as [p|fs IH] using ty_ind'; intros v r d k Hv.
  - rewrite shred_ty_leaf. constructor; [|constructor].
    cbn [col_ok mk_entry e_rep e_def]. split; [reflexivity|]. split; [lia|constructor].
  - apply has_tyb_group_inv in Hv. destruct Hv as (vs & -> & Hvs).
    rewrite shred_ty_group. revert vs Hvs.
    induction IH as [|[[n rp] t'] fs Ht' Hfs IHfs]; intros [|v' vs] Hvs; try discriminate; [constructor|].
    cbn [has_fields] in Hvs. apply andb_true_iff in Hvs. destruct Hvs as [Hv' Hvs].
    cbn [shred_fields]. apply Forall_app. split; [|apply IHfs; exact Hvs].
    apply shred_field_ok; assumption.
Qed.

Lemma null_cols_nonempty t r d es :
  In es (null_cols t r d) -> es = [mk_entry r d None].
Proof. intros H. exact (proj1 (Forall_forall _ _) (null_cols_all t r d) es H). Qed.

(** ** 3. Assembly inverts shredding *)

Lemma leaf_count_pos t : ty_okb t = true -> (0 < leaf_count t)%nat.
Proof.
  induction t as [p|fs IH] using ty_ind'; intros Hok; [cbn [leaf_count]; lia|].
  apply ty_okb_group in Hok. destruct Hok as [Hne Hall].
  destruct fs as [|[[n rp] t'] fs]; [exfalso; apply Hne; reflexivity|].
  rewrite leaf_count_cons.
  pose proof (Forall_inv IH (Forall_inv Hall)) as Hpos. cbn [snd] in Hpos. lia.
Qed.

Lemma null_cols_first_def t r d : ty_okb t = true -> first_def (null_cols t r d) = Some d.
Proof.
  intros Hok. pose proof (leaf_count_pos t Hok) as Hpos.
  rewrite <- (null_cols_length t r d) in Hpos.
  pose proof (null_cols_all t r d) as Hall.
  destruct (null_cols t r d) as [|c cols]; cbn [length] in Hpos; [lia|].
  rewrite (Forall_inv Hall). reflexivity.
Qed.

Lemma assemble_field_shred rp t' v' r d k :
  ty_okb t' = true ->
  (forall v r d k, has_tyb t' v = true -> assemble_ty t' (shred_ty t' v r d k) d k = Some v) ->
  has_field rp t' v' = true ->
  assemble_field rp t' (shred_field rp t' v' r d k) d k = Some v'.
Proof.
  intros Hok IH H. pose proof (leaf_count_pos t' Hok) as Hpos.
  destruct (shred_field_case rp t' v' r d k H) as [v Hv| |v Hnn Hv| |x xs Hx Hxs];
    cbn [assemble_field].
  - apply IH. exact Hv.
  - rewrite null_cols_first_def by exact Hok. rewrite N.leb_refl. reflexivity.
  - destruct (first_def_ok r (d + 1) k (shred_ty t' v r (d + 1) k)) as (fd & -> & Hfd).
    + rewrite shred_ty_length by exact Hv. exact Hpos.
    + apply shred_ty_nonempty. exact Hv.
    + destruct (fd <=? d) eqn:Hle; [lia|]. apply IH. exact Hv.
  - rewrite null_cols_first_def by exact Hok. rewrite N.leb_refl. reflexivity.
  - set (c0 := shred_ty t' x r (d + 1) (k + 1)).
    set (css := map (fun y => shred_ty t' y (k + 1) (d + 1) (k + 1)) xs).
    assert (Hlen : Forall (fun c => length c = leaf_count t') (c0 :: css)).
    { constructor; [apply shred_ty_length; exact Hx|].
      apply Forall_map. eapply Forall_impl; [|exact Hxs]. cbv beta. intros y Hy.
      apply shred_ty_length. exact Hy. }
    assert (Hc0 : Forall (col_ok r (d + 1) (k + 1)) c0) by (apply shred_ty_nonempty; exact Hx).
    assert (Hcss : Forall (Forall (col_ok (k + 1) (d + 1) (k + 1))) css).
    { apply Forall_map. eapply Forall_impl; [|exact Hxs]. cbv beta. intros y Hy.
      apply shred_ty_nonempty. exact Hy. }
    destruct (first_def_ok r (d + 1) k (zipcat_list c0 css)) as (fd & -> & Hfd).
    + rewrite (zipcat_list_length _ _ _ Hlen). exact Hpos.
    + apply zipcat_list_ok.
      * eapply Forall_impl; [|exact Hc0]. intros c. apply col_ok_weaken; lia.
      * eapply Forall_impl; [|exact Hcss]. intros cs Hcs.
        eapply Forall_impl; [|exact Hcs]. intros c. apply col_ok_all_gt; lia.
    + destruct (fd <=? d) eqn:Hle; [lia|]. cbv zeta.
      rewrite (transpose_split (k + 1) (leaf_count t')); try assumption.
      * cbn [map sequence]. unfold c0 at 1. rewrite (IH x r (d + 1) (k + 1) Hx).
        unfold css. rewrite sequence_map_inv; [reflexivity|].
        eapply Forall_impl; [|exact Hxs]. cbv beta. intros y Hy. apply IH. exact Hy.
      * constructor.
        -- eapply Forall_impl; [|exact Hc0]. intros c. apply col_ok_tail_gt.
        -- eapply Forall_impl; [|exact Hcss]. intros cs Hcs.
           eapply Forall_impl; [|exact Hcs]. intros c. apply col_ok_tail_gt.
      * eapply Forall_impl; [|exact Hcss]. intros cs Hcs.
        eapply Forall_impl; [|exact Hcs]. intros c. apply col_ok_hd_le.
Qed.

Theorem assemble_shred_gen t :
  ty_okb t = true -> forall v r d k,
  has_tyb t v = true -> assemble_ty t (shred_ty t v r d k) d k = Some v.
Proof.
  induction t as [p|fs IH] using ty_ind'; intros Hok v r d k Hv; [reflexivity|].
  apply has_tyb_group_inv in Hv. destruct Hv as (vs & -> & Hvs).
  rewrite shred_ty_group, assemble_ty_group.
  apply ty_okb_group in Hok. destruct Hok as [_ Hall].
  assert (Hgo : assemble_fields fs (shred_fields fs vs r d k) d k = Some vs);
    [|rewrite Hgo; reflexivity].
  clear - IH Hall Hvs. revert vs Hvs.
  induction IH as [|[[n rp] t'] fs Ht' Hfs IHfs]; intros [|v' vs] Hvs; try discriminate; [reflexivity|].
  cbn [has_fields] in Hvs. apply andb_true_iff in Hvs. destruct Hvs as [Hv' Hvs].
  destruct (proj1 (Forall_cons_iff _ _ _) Hall) as [Hok' Hall']. cbn [snd] in Hok', Ht'.
  cbn [shred_fields assemble_fields].
  assert (Hlen : length (shred_field rp t' v' r d k) = leaf_count t').
  { apply shred_field_length; [|exact Hv']. intros v0 r0 d0 k0. apply shred_ty_length. }
  rewrite <- Hlen. rewrite firstn_app_exact, skipn_app_exact.
  rewrite assemble_field_shred; [|exact Hok'|exact (Ht' Hok')|exact Hv'].
  rewrite (IHfs Hall' vs Hvs). reflexivity.
Qed.

Theorem assemble_shred t v r d k :
  ty_okb t = true -> has_tyb t v = true -> r <= k ->
  assemble_ty t (shred_ty t v r d k) d k = Some v.
Proof. intros Hok Hv _. apply assemble_shred_gen; assumption. Qed.

(** ** 4. One record *)

Theorem assemble_shred_record fs v :
  ty_okb (TGroup fs) = true -> has_tyb (TGroup fs) v = true ->
  assemble_record fs (shred_record fs v) = Some v.
Proof. intros Hok Hv. unfold assemble_record, shred_record. apply assemble_shred_gen; assumption. Qed.

(** ** 5. A sequence of records, delimited by repetition level 0 *)

Lemma shred_records_cons fs v vs :
  has_tyb (TGroup fs) v = true ->
  shred_records fs (v :: vs) = zipcat_list (shred_record fs v) (map (shred_record fs) vs).
Proof.
  intros Hv. unfold shred_records. cbn [map fold_left].
  rewrite <- (shred_ty_length (TGroup fs) v 0 0 0 Hv). fold (shred_record fs v).
  rewrite zipcat_repeat_nil. apply fold_left_zipcat_list.
Qed.

Theorem assemble_shred_records fs vs :
  ty_okb (TGroup fs) = true -> Forall (fun v => has_tyb (TGroup fs) v = true) vs ->
  assemble_records fs (shred_records fs vs) = Some vs.
Proof.
  intros Hok Hvs. destruct Hvs as [|v vs Hv Hvs].
  - unfold assemble_records, shred_records. cbn [map fold_left]. cbv zeta.
    assert (Hhd : length (hd [] (map (split_at_rep 0) (repeat [] (leaf_count (TGroup fs))))) = 0%nat).
    { destruct (leaf_count (TGroup fs)); reflexivity. }
    rewrite Hhd. reflexivity.
  - rewrite shred_records_cons by exact Hv. unfold assemble_records. cbv zeta.
    assert (Hall : Forall (fun v => has_tyb (TGroup fs) v = true) (v :: vs)) by (constructor; assumption).
    assert (Hcss : Forall (Forall (col_ok 0 0 0)) (map (shred_record fs) (v :: vs))).
    { apply Forall_map. eapply Forall_impl; [|exact Hall]. cbv beta. intros y Hy.
      apply shred_ty_nonempty. exact Hy. }
    cbn [map] in Hcss.
    rewrite (transpose_split 0 (leaf_count (TGroup fs))).
    + change (shred_record fs v :: map (shred_record fs) vs) with (map (shred_record fs) (v :: vs)).
      apply sequence_map_inv. eapply Forall_impl; [|exact Hall]. cbv beta. intros y Hy.
      apply assemble_shred_record; assumption.
    + apply leaf_count_pos. exact Hok.
    + change (shred_record fs v :: map (shred_record fs) vs) with (map (shred_record fs) (v :: vs)).
      apply Forall_map. eapply Forall_impl; [|exact Hall]. cbv beta. intros y Hy.
      apply shred_ty_length. exact Hy.
    + eapply Forall_impl; [|exact Hcss]. intros cs Hcs.
      eapply Forall_impl; [|exact Hcs]. intros c. apply col_ok_tail_gt.
    + eapply Forall_impl; [|exact (Forall_inv_tail Hcss)]. intros cs Hcs.
      eapply Forall_impl; [|exact Hcs]. intros c. apply col_ok_hd_le.
Qed.

(** ** 6. Levels are bounded and say whether a value is present *)

Definition lev_ok (c : col) (es : list entry) : Prop :=
  Forall (fun e => entry_levels_ok c e = true) es.

Definition nonreqN (rp : rept) : N := if is_nonreq rp then 1 else 0.
Definition isrepN (rp : rept) : N := if is_rep rp then 1 else 0.

Lemma count_rep_app f a b : count_rep f (a ++ b) = count_rep f a + count_rep f b.
Proof. unfold count_rep. rewrite filter_app, app_length. lia. Qed.

Lemma count_rep_snoc f rs rp :
  count_rep f (rs ++ [rp]) = count_rep f rs + (if f rp then 1 else 0).
Proof. rewrite count_rep_app. unfold count_rep at 2. cbn [filter]. destruct (f rp); reflexivity. Qed.

Lemma columns_ty_length t : forall pth rs, length (columns_ty pth rs t) = leaf_count t.
Proof.
  induction t as [p|fs IH] using ty_ind'; intros pth rs; [reflexivity|].
  induction IH as [|[[n rp] t'] fs Ht' Hfs IHfs]; [reflexivity|].
  rewrite columns_ty_cons, leaf_count_cons, app_length. cbn [snd] in Ht'. rewrite Ht', IHfs. reflexivity.
Qed.

Lemma columns_ty_bounds t : forall pth rs,
  Forall (fun c => count_rep is_nonreq rs <= max_def c /\ count_rep is_rep rs <= max_rep c)
         (columns_ty pth rs t).
Proof.
  induction t as [p|fs IH] using ty_ind'; intros pth rs.
  - rewrite columns_ty_leaf. constructor; [|constructor].
    unfold max_def, max_rep. cbn [c_reps]. lia.
  - induction IH as [|[[n rp] t'] fs Ht' Hfs IHfs]; [constructor|].
    rewrite columns_ty_cons. apply Forall_app. split; [|exact IHfs].
    cbn [snd] in Ht'. eapply Forall_impl; [|apply (Ht' (pth ++ [n]) (rs ++ [rp]))].
    cbv beta. intros c. rewrite !count_rep_snoc.
    destruct (is_nonreq rp), (is_rep rp); lia.
Qed.

Lemma null_cols_levels t : forall pth rs r d,
  d < count_rep is_nonreq rs -> r <= count_rep is_rep rs ->
  Forall2 lev_ok (columns_ty pth rs t) (null_cols t r d).
Proof.
  induction t as [p|fs IH] using ty_ind'; intros pth rs r d Hd Hr.
  - rewrite columns_ty_leaf, null_cols_leaf. constructor; [|constructor].
    constructor; [|constructor].
    unfold entry_levels_ok, max_def, max_rep. cbn [c_reps mk_entry e_rep e_def e_val]. lia.
  - induction IH as [|[[n rp] t'] fs Ht' Hfs IHfs]; [constructor|].
    rewrite columns_ty_cons, null_cols_cons. apply Forall2_app; [|exact IHfs].
    cbn [snd] in Ht'. apply Ht'; rewrite count_rep_snoc; [destruct (is_nonreq rp)|destruct (is_rep rp)]; lia.
Qed.

Lemma lev_ok_zipcat cols a b :
  Forall2 lev_ok cols a -> Forall2 lev_ok cols b -> Forall2 lev_ok cols (zipcat a b).
Proof.
  intros Ha. revert b. induction Ha as [|c x cols a Hx Ha IH]; intros b Hb;
    inversion Hb as [|c' y cols' b' Hy Hb' E1 E2]; subst; cbn [zipcat]; constructor.
  - apply Forall_app. split; assumption.
  - apply IH. exact Hb'.
Qed.

Lemma lev_ok_zipcat_list cols css : forall c0,
  Forall2 lev_ok cols c0 -> Forall (Forall2 lev_ok cols) css ->
  Forall2 lev_ok cols (zipcat_list c0 css).
Proof.
  induction css as [|c1 css IH]; intros c0 H0 Hcss; cbn [zipcat_list]; [exact H0|].
  destruct (proj1 (Forall_cons_iff _ _ _) Hcss) as [H1 Hrest].
  apply lev_ok_zipcat; [exact H0|]. apply IH; assumption.
Qed.

Definition levels_stmt (t : ty) : Prop :=
  forall pth rs v r d k,
    has_tyb t v = true -> d = count_rep is_nonreq rs -> k = count_rep is_rep rs -> r <= k ->
    Forall2 lev_ok (columns_ty pth rs t) (shred_ty t v r d k).

Lemma shred_field_levels rp t' v' pth rs n r d k :
  levels_stmt t' -> has_field rp t' v' = true ->
  d = count_rep is_nonreq rs -> k = count_rep is_rep rs -> r <= k ->
  Forall2 lev_ok (columns_ty (pth ++ [n]) (rs ++ [rp]) t') (shred_field rp t' v' r d k).
Proof.
  intros IH H Hd Hk Hr.
  destruct (shred_field_case rp t' v' r d k H) as [v Hv| |v Hnn Hv| |x xs Hx Hxs].
  - apply IH; [exact Hv| | |exact Hr]; rewrite count_rep_snoc; cbn [is_nonreq is_rep]; lia.
  - apply null_cols_levels; rewrite count_rep_snoc; cbn [is_nonreq is_rep]; lia.
  - apply IH; [exact Hv| | |exact Hr]; rewrite count_rep_snoc; cbn [is_nonreq is_rep]; lia.
  - apply null_cols_levels; rewrite count_rep_snoc; cbn [is_nonreq is_rep]; lia.
  - apply lev_ok_zipcat_list.
    + apply IH; [exact Hx| | |lia]; rewrite count_rep_snoc; cbn [is_nonreq is_rep]; lia.
    + apply Forall_map. eapply Forall_impl; [|exact Hxs]. cbv beta. intros y Hy.
      apply IH; [exact Hy| | |lia]; rewrite count_rep_snoc; cbn [is_nonreq is_rep]; lia.
Qed.

Lemma shred_ty_levels t : levels_stmt t.
Proof.
  induction t as [p|fs IH] using ty_ind'; intros pth rs v r d k Hv Hd Hk Hr.
  - rewrite columns_ty_leaf, shred_ty_leaf. constructor; [|constructor].
    constructor; [|constructor].
    unfold entry_levels_ok, max_def, max_rep. cbn [c_reps mk_entry e_rep e_def e_val]. lia.
  - apply has_tyb_group_inv in Hv. destruct Hv as (vs & -> & Hvs).
    rewrite shred_ty_group. revert vs Hvs.
    induction IH as [|[[n rp] t'] fs Ht' Hfs IHfs]; intros [|v' vs] Hvs; try discriminate; [constructor|].
    cbn [has_fields] in Hvs. apply andb_true_iff in Hvs. destruct Hvs as [Hv' Hvs].
    rewrite columns_ty_cons. cbn [shred_fields]. apply Forall2_app; [|apply IHfs; exact Hvs].
    apply shred_field_levels; assumption.
Qed.

Theorem levels_bounded fs v i c es :
  has_tyb (TGroup fs) v = true ->
  nth_error (columns fs) i = Some c ->
  nth_error (shred_record fs v) i = Some es ->
  Forall (fun e => entry_levels_ok c e = true) es.
Proof.
  intros Hv Hc Hes.
  assert (H : Forall2 lev_ok (columns fs) (shred_record fs v)).
  { unfold columns, shred_record. apply shred_ty_levels; [exact Hv|reflexivity|reflexivity|lia]. }
  exact (Forall2_nth_error _ _ _ _ _ _ H Hc Hes).
Qed.

(** ** 7. Record boundaries: exactly one entry with repetition level 0 per record *)

Lemma count_rep0_app a b : count_rep0 (a ++ b) = count_rep0 a + count_rep0 b.
Proof. unfold count_rep0. rewrite filter_app, app_length. lia. Qed.

Lemma all_gt_count_rep0 es : all_gt 0 es -> count_rep0 es = 0.
Proof.
  unfold count_rep0. induction 1 as [|e es He Hes IH]; [reflexivity|].
  cbn [filter]. destruct (e_rep e =? 0) eqn:E; [lia|exact IH].
Qed.

Lemma col_ok_count_rep0 d es : col_ok 0 d 0 es -> count_rep0 es = 1.
Proof.
  destruct es as [|e rest]; [contradiction|]. intros (Hr & _ & Hrest).
  change (e :: rest) with ([e] ++ rest). rewrite count_rep0_app, (all_gt_count_rep0 rest Hrest).
  unfold count_rep0. cbn [filter]. rewrite Hr. reflexivity.
Qed.

Theorem record_boundaries fs v es :
  has_tyb (TGroup fs) v = true -> In es (shred_record fs v) -> count_rep0 es = 1.
Proof.
  intros Hv Hin. apply (col_ok_count_rep0 0).
  exact (proj1 (Forall_forall _ _) (shred_ty_nonempty (TGroup fs) v 0 0 0 Hv) es Hin).
Qed.

Lemma fold_zipcat_count_rep0 css : forall c0 a,
  Forall (fun c => count_rep0 c = a) c0 ->
  Forall (Forall (fun c => count_rep0 c = 1)) css ->
  Forall (fun c => count_rep0 c = a + N.of_nat (length css)) (fold_left zipcat css c0).
Proof.
  induction css as [|c1 css IH]; intros c0 a H0 Hcss; cbn [fold_left length].
  - eapply Forall_impl; [|exact H0]. cbv beta. intros c Hc. lia.
  - destruct (proj1 (Forall_cons_iff _ _ _) Hcss) as [H1 Hrest].
    replace (a + N.of_nat (S (length css))) with ((a + 1) + N.of_nat (length css)) by lia.
    apply IH; [|exact Hrest].
    eapply zipcat_Forall; [|exact H0|exact H1]. cbv beta.
    intros x y Hx Hy. rewrite count_rep0_app, Hx, Hy. reflexivity.
Qed.

Theorem record_boundaries_all fs vs es :
  Forall (fun v => has_tyb (TGroup fs) v = true) vs ->
  In es (shred_records fs vs) -> count_rep0 es = N.of_nat (length vs).
Proof.
  intros Hvs Hin. unfold shred_records in Hin.
  assert (H : Forall (fun c => count_rep0 c = 0 + N.of_nat (length (map (shred_record fs) vs)))
                (fold_left zipcat (map (shred_record fs) vs) (repeat [] (leaf_count (TGroup fs))))).
  { apply fold_zipcat_count_rep0.
    - apply Forall_forall. intros c Hc. apply repeat_spec in Hc. subst c. reflexivity.
    - apply Forall_map. eapply Forall_impl; [|exact Hvs]. cbv beta. intros v Hv.
      apply Forall_forall. intros c Hc. eapply record_boundaries; eassumption. }
  rewrite map_length, N.add_0_l in H.
  exact (proj1 (Forall_forall _ _) H es Hin).
Qed.

(** ** 8. Sibling columns agree on the structure of their common ancestors *)

(** What a column says about the ancestors down to a node with [dp]
    non-required and [kp] repeated steps on its path: the entries that start
    an element of one of those ancestors, with definition levels capped. *)
Definition proj (dp kp : N) (es : list entry) : list (N * N) :=
  map (fun e => (e_rep e, N.min (e_def e) dp)) (filter (fun e => e_rep e <=? kp) es).

(** The leaf columns below the node reached by the index path [ip]
    (field numbers, outermost first) among the columns [cols] of [t]. *)
Fixpoint sub_cols (ip : list nat) (t : ty) (cols : list (list entry)) : list (list entry) :=
  match ip with
  | [] => cols
  | i :: ip' =>
      match t with
      | TGroup fs =>
          match nth_error fs i with
          | Some (_, _, t') =>
              sub_cols ip' t'
                (firstn (leaf_count t') (skipn (leaf_count (TGroup (firstn i fs))) cols))
          | None => []
          end
      | TLeaf _ => []
      end
  end.

(** Definition and repetition depth of that node (its own repetition included). *)
Fixpoint sub_levels (ip : list nat) (t : ty) (d k : N) : option (N * N) :=
  match ip with
  | [] => Some (d, k)
  | i :: ip' =>
      match t with
      | TGroup fs =>
          match nth_error fs i with
          | Some (_, rp, t') => sub_levels ip' t' (d + nonreqN rp) (k + isrepN rp)
          | None => None
          end
      | TLeaf _ => None
      end
  end.

Fixpoint sub_ty (ip : list nat) (t : ty) : option ty :=
  match ip with
  | [] => Some t
  | i :: ip' =>
      match t with
      | TGroup fs =>
          match nth_error fs i with
          | Some (_, _, t') => sub_ty ip' t'
          | None => None
          end
      | TLeaf _ => None
      end
  end.

(** Name (path [2]) has levels (1,1) and columns Code, Country, Url;
    Name.Language (path [2;0]) has levels (2,2) and columns Code, Country. *)
Example sub_doc :
  (sub_levels [2%nat] (TGroup doc) 0 0, sub_levels [2%nat; 0%nat] (TGroup doc) 0 0,
   sub_levels [1%nat] (TGroup doc) 0 0) = (Some (1, 1), Some (2, 2), Some (1, 0)) /\
  sub_cols [2%nat] (TGroup doc) (shred_record doc r1) = skipn 3 (shred_record doc r1) /\
  sub_cols [2%nat; 0%nat] (TGroup doc) (shred_record doc r1) = firstn 2 (skipn 3 (shred_record doc r1)) /\
  map (proj 1 1) (sub_cols [2%nat] (TGroup doc) (shred_record doc r1)) =
    repeat [(0, 1); (1, 1); (1, 1)] 3 /\
  map (proj 2 2) (sub_cols [2%nat; 0%nat] (TGroup doc) (shred_record doc r1)) =
    repeat [(0, 2); (2, 2); (1, 1); (1, 2)] 2.
Proof. vm_compute. repeat split; reflexivity. Qed.

Lemma proj_app dp kp a b : proj dp kp (a ++ b) = proj dp kp a ++ proj dp kp b.
Proof. unfold proj. rewrite filter_app, map_app. reflexivity. Qed.

Lemma all_gt_filter k es : all_gt k es -> filter (fun e => e_rep e <=? k) es = [].
Proof.
  induction 1 as [|e es He Hes IH]; [reflexivity|].
  cbn [filter]. destruct (e_rep e <=? k) eqn:E; [lia|exact IH].
Qed.

Lemma proj_col_ok r d k es : r <= k -> col_ok r d k es -> proj d k es = [(r, d)].
Proof.
  intros Hrk. destruct es as [|e rest]; [contradiction|]. intros (Hr & Hd & Hrest).
  unfold proj. cbn [filter]. destruct (e_rep e <=? k) eqn:E; [|lia].
  rewrite (all_gt_filter k rest Hrest). cbn [map]. rewrite Hr.
  replace (N.min (e_def e) d) with d by lia. reflexivity.
Qed.

(** All columns have the same projection. *)
Definition agree (dp kp : N) (cols : list (list entry)) : Prop :=
  exists pr, Forall (fun c => proj dp kp c = pr) cols.

Lemma agree_zipcat dp kp a b : agree dp kp a -> agree dp kp b -> agree dp kp (zipcat a b).
Proof.
  intros [pa Ha] [pb Hb]. exists (pa ++ pb).
  eapply zipcat_Forall; [|exact Ha|exact Hb]. cbv beta.
  intros x y Hx Hy. rewrite proj_app, Hx, Hy. reflexivity.
Qed.

Lemma agree_zipcat_list dp kp css : forall c0,
  agree dp kp c0 -> Forall (agree dp kp) css -> agree dp kp (zipcat_list c0 css).
Proof.
  induction css as [|c1 css IH]; intros c0 H0 Hcss; cbn [zipcat_list]; [exact H0|].
  destruct (proj1 (Forall_cons_iff _ _ _) Hcss) as [H1 Hrest].
  apply agree_zipcat; [exact H0|]. apply IH; assumption.
Qed.

Lemma agree_all_eq dp kp c cols : Forall (fun c' => c' = c) cols -> agree dp kp cols.
Proof.
  intros H. exists (proj dp kp c). eapply Forall_impl; [|exact H]. cbv beta. intros c' ->. reflexivity.
Qed.

Lemma firstn_zipcat n a b : firstn n (zipcat a b) = zipcat (firstn n a) (firstn n b).
Proof.
  revert a b; induction n as [|n IH]; intros a b; [reflexivity|].
  destruct a as [|x a]; [reflexivity|]. destruct b as [|y b]; [reflexivity|].
  cbn [zipcat firstn]. rewrite IH. reflexivity.
Qed.

Lemma skipn_zipcat n a b : skipn n (zipcat a b) = zipcat (skipn n a) (skipn n b).
Proof.
  revert a b; induction n as [|n IH]; intros a b; [reflexivity|].
  destruct a as [|x a]; [reflexivity|]. destruct b as [|y b].
  - cbn [zipcat skipn]. destruct (skipn n a); reflexivity.
  - cbn [zipcat skipn]. apply IH.
Qed.

Lemma sub_cols_zipcat ip : forall t a b,
  sub_cols ip t (zipcat a b) = zipcat (sub_cols ip t a) (sub_cols ip t b).
Proof.
  induction ip as [|i ip IH]; intros t a b; cbn [sub_cols]; [reflexivity|].
  destruct t as [p|fs]; [reflexivity|].
  destruct (nth_error fs i) as [[[n rp] t']|]; [|reflexivity].
  rewrite skipn_zipcat, firstn_zipcat. apply IH.
Qed.

Lemma sub_cols_zipcat_list ip t css : forall c0,
  sub_cols ip t (zipcat_list c0 css) = zipcat_list (sub_cols ip t c0) (map (sub_cols ip t) css).
Proof.
  induction css as [|c1 css IH]; intros c0; cbn [zipcat_list map]; [reflexivity|].
  rewrite sub_cols_zipcat, IH. reflexivity.
Qed.

Lemma In_firstn {A} n (l : list A) x : In x (firstn n l) -> In x l.
Proof. intros H. rewrite <- (firstn_skipn n l). apply in_or_app. left. exact H. Qed.

Lemma In_skipn {A} n (l : list A) x : In x (skipn n l) -> In x l.
Proof. intros H. rewrite <- (firstn_skipn n l). apply in_or_app. right. exact H. Qed.

Lemma sub_cols_incl ip : forall t cols c, In c (sub_cols ip t cols) -> In c cols.
Proof.
  induction ip as [|i ip IH]; intros t cols c H; cbn [sub_cols] in H; [exact H|].
  destruct t as [p|fs]; [contradiction|].
  destruct (nth_error fs i) as [[[n rp] t']|]; [|contradiction].
  apply IH in H. apply In_firstn in H. apply In_skipn in H. exact H.
Qed.

Lemma skipn_add_app {A} (x y : list A) a b : length x = a -> skipn (a + b) (x ++ y) = skipn b y.
Proof.
  intros <-. rewrite skipn_app, skipn_all2 by lia.
  replace (length x + b - length x)%nat with b by lia. reflexivity.
Qed.

(** The columns of field [i] within the columns of its group. *)
Lemma shred_fields_slice (fs : list (bytes * rept * ty)) : forall i vs n rp t' r d k,
  has_fields fs vs = true -> nth_error fs i = Some (n, rp, t') ->
  exists v', has_field rp t' v' = true /\
    firstn (leaf_count t') (skipn (leaf_count (TGroup (firstn i fs))) (shred_fields fs vs r d k)) =
    shred_field rp t' v' r d k.
Proof.
  induction fs as [|[[n0 rp0] t0] fs IH]; intros i vs n rp t' r d k Hvs Hi.
  - destruct i; discriminate.
  - destruct vs as [|v0 vs]; [discriminate|].
    cbn [has_fields] in Hvs. apply andb_true_iff in Hvs. destruct Hvs as [Hv0 Hvs].
    assert (Hlen : length (shred_field rp0 t0 v0 r d k) = leaf_count t0).
    { apply shred_field_length; [|exact Hv0]. intros v1 r1 d1 k1. apply shred_ty_length. }
    cbn [shred_fields]. destruct i as [|i]; cbn [nth_error] in Hi.
    + injection Hi as -> -> ->. exists v0. split; [exact Hv0|].
      cbn [firstn]. rewrite leaf_count_nil. cbn [skipn].
      rewrite <- Hlen. apply firstn_app_exact.
    + destruct (IH i vs n rp t' r d k Hvs Hi) as (v' & Hv' & Heq).
      exists v'. split; [exact Hv'|].
      cbn [firstn]. rewrite leaf_count_cons, (skipn_add_app _ _ _ _ Hlen). exact Heq.
Qed.

Lemma siblings_gen ip : forall t v r d k dp kp,
  r <= k -> has_tyb t v = true -> sub_levels ip t d k = Some (dp, kp) ->
  agree dp kp (sub_cols ip t (shred_ty t v r d k)).
Proof.
  induction ip as [|i ip IH]; intros t v r d k dp kp Hrk Hv Hlv.
  - cbn [sub_levels] in Hlv. injection Hlv as <- <-. cbn [sub_cols].
    exists [(r, d)]. eapply Forall_impl; [|apply shred_ty_nonempty; exact Hv].
    intros c. apply proj_col_ok. exact Hrk.
  - destruct t as [p|fs]; [discriminate|].
    apply has_tyb_group_inv in Hv. destruct Hv as (vs & -> & Hvs).
    cbn [sub_levels sub_cols] in *.
    destruct (nth_error fs i) as [[[n rp] t']|] eqn:Hi; [|discriminate].
    rewrite shred_ty_group.
    destruct (shred_fields_slice fs i vs n rp t' r d k Hvs Hi) as (v' & Hv' & ->).
    destruct (shred_field_case rp t' v' r d k Hv') as [v Hv| |v Hnn Hv| |x xs Hx Hxs];
      cbn [nonreqN isrepN is_nonreq is_rep] in Hlv.
    + rewrite !N.add_0_r in Hlv. apply IH; assumption.
    + apply (agree_all_eq _ _ [mk_entry r d None]). apply Forall_forall. intros c Hc.
      apply sub_cols_incl in Hc. eapply null_cols_nonempty. exact Hc.
    + rewrite N.add_0_r in Hlv. apply IH; assumption.
    + apply (agree_all_eq _ _ [mk_entry r d None]). apply Forall_forall. intros c Hc.
      apply sub_cols_incl in Hc. eapply null_cols_nonempty. exact Hc.
    + rewrite sub_cols_zipcat_list. apply agree_zipcat_list.
      * apply IH; [lia|exact Hx|exact Hlv].
      * rewrite map_map. apply Forall_map. eapply Forall_impl; [|exact Hxs]. cbv beta.
        intros y Hy. apply IH; [lia|exact Hy|exact Hlv].
Qed.

(** For the group (or leaf) reached by index path [ip], with [dp] non-required
    and [kp] repeated steps on its path, all leaf columns below it describe the
    same optional/list structure down to that node. *)
Theorem siblings_agree fs v ip dp kp c1 c2 :
  has_tyb (TGroup fs) v = true ->
  sub_levels ip (TGroup fs) 0 0 = Some (dp, kp) ->
  In c1 (sub_cols ip (TGroup fs) (shred_record fs v)) ->
  In c2 (sub_cols ip (TGroup fs) (shred_record fs v)) ->
  proj dp kp c1 = proj dp kp c2.
Proof.
  intros Hv Hlv H1 H2.
  destruct (siblings_gen ip (TGroup fs) v 0 0 0 dp kp (N.le_refl 0) Hv Hlv) as [pr Hpr].
  rewrite Forall_forall in Hpr. unfold shred_record in H1, H2.
  rewrite (Hpr c1 H1), (Hpr c2 H2). reflexivity.
Qed.

(** [sub_cols] selects exactly the leaf columns of the sub-type. *)
Lemma leaf_count_firstn_le (fs : list (bytes * rept * ty)) : forall i n rp t',
  nth_error fs i = Some (n, rp, t') ->
  (leaf_count (TGroup (firstn i fs)) + leaf_count t' <= leaf_count (TGroup fs))%nat.
Proof.
  induction fs as [|[[n0 rp0] t0] fs IH]; intros i n rp t' Hi.
  - destruct i; discriminate.
  - destruct i as [|i]; cbn [nth_error] in Hi.
    + injection Hi as -> -> ->. cbn [firstn]. rewrite leaf_count_nil, leaf_count_cons. lia.
    + cbn [firstn]. rewrite !leaf_count_cons. specialize (IH i n rp t' Hi). lia.
Qed.

Lemma sub_cols_length ip : forall t t' cols,
  sub_ty ip t = Some t' -> length cols = leaf_count t ->
  length (sub_cols ip t cols) = leaf_count t'.
Proof.
  induction ip as [|i ip IH]; intros t t' cols Ht Hlen; cbn [sub_ty sub_cols] in *.
  - injection Ht as <-. exact Hlen.
  - destruct t as [p|fs]; [discriminate|].
    destruct (nth_error fs i) as [[[n rp] t1]|] eqn:Hi; [|discriminate].
    apply IH; [exact Ht|].
    pose proof (leaf_count_firstn_le fs i n rp t1 Hi) as Hle.
    rewrite firstn_length, skipn_length. lia.
Qed.

Print Assumptions assemble_shred.
Print Assumptions assemble_shred_record.
Print Assumptions assemble_shred_records.
Print Assumptions levels_bounded.
Print Assumptions record_boundaries.
Print Assumptions record_boundaries_all.
Print Assumptions siblings_agree.
