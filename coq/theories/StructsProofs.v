(** * StructsProofs: property C15 — the struct that `parquetgen -parquet`
    regenerates from the footer schema of a file ([Structs.struct_of_schema])
    parses ([Parse.parse_root]) to the shape of that file: same columns,
    nesting, optionality and physical types.

    Hypotheses on the shape (each one is needed, see the examples at the end):
    no repeated field, every group has a field, leaf types are the six
    physical ones (uint32/uint64 come back as int32/int64: converted types are
    ignored), sibling names are distinct, every name is its own [title], is
    exported and is not "-", and the group names (at all depths) are pairwise
    distinct and distinct from the name of the root struct.

    Names are taken through [title] as structs.go does, so lower-case column
    names are covered ([regen_ok]); [regen_ok_upper] is the instance where
    every name starts with A-Z.  (The parser model does not check Go's rule
    that the field names of one struct differ: sibling leaves "a" and "A"
    satisfy [regen_ok] in the model although the generated Go file would not
    compile; [regen_ok_upper] has no such case.) *)
From Coq Require Import List NArith ZArith Lia Bool Arith PeanoNat.
From Coq Require Import ZifyN ZifyNat ZifyBool.
From PQ Require Import Bytes Schema Dremel DremelProofs MetaTypes Writer FileSpec SchemaProofs.
From PQ Require Import Parse Structs ParseProofs.
Import ListNotations.
Local Open Scope N_scope.

(** ** The footer schema as a plain pre-order listing *)

Definition sleaf (n : bytes) (rp : rept) (p : prim) : schema_element :=
  {| se_type := Some (prim_type p); se_type_length := None;
     se_repetition := Some (rept_code rp); se_name := n; se_num_children := None;
     se_converted := prim_converted p; se_scale := None; se_precision := None; se_field_id := None |}.

Definition sgroup (n : bytes) (rp : rept) (k : nat) : schema_element :=
  {| se_type := None; se_type_length := None;
     se_repetition := Some (rept_code rp); se_name := n;
     se_num_children := Some (Z.of_N (N.of_nat k));
     se_converted := None; se_scale := None; se_precision := None; se_field_id := None |}.

Fixpoint pre_ty (n : bytes) (rp : rept) (t : ty) {struct t} : list schema_element :=
  match t with
  | TLeaf p => [sleaf n rp p]
  | TGroup fs =>
      sgroup n rp (length fs)
      :: (fix go (fs : list (bytes * rept * ty)) : list schema_element :=
            match fs with
            | [] => []
            | (n', rp', t') :: fs' => pre_ty n' rp' t' ++ go fs'
            end) fs
  end.

Fixpoint pre_fields (fs : list field) : list schema_element :=
  match fs with
  | [] => []
  | (n, rp, t) :: fs' => pre_ty n rp t ++ pre_fields fs'
  end.

Lemma pre_ty_group n rp fs : pre_ty n rp (TGroup fs) = sgroup n rp (length fs) :: pre_fields fs.
Proof.
  (* the inner fix of [pre_ty] is [pre_fields] itself *)
  reflexivity.
Qed.

Lemma pre_fields_cons n rp t fs : pre_fields ((n, rp, t) :: fs) = pre_ty n rp t ++ pre_fields fs.
Proof. reflexivity. Qed.

Definition pre_stmt (kids : list field) : Prop :=
  forall paths pth rs,
    length pth = length rs ->
    Forall (fun f : field => ty_okb (snd f) = true) kids ->
    Forall (fun f : field => names_okb (snd f) = true) kids ->
    Forall (inv_field paths pth rs) kids ->
    elems_fields paths pth rs kids = pre_fields kids.

Definition pre_stmt_ty (t : ty) : Prop :=
  match t with TLeaf _ => True | TGroup kids => pre_stmt kids end.

Lemma elems_pre_ty t : pre_stmt_ty t.
Proof.
  induction t as [p|fs IH] using ty_ind'; [exact I|].
  cbn [pre_stmt_ty]. unfold pre_stmt.
  induction IH as [|[[n rp] t'] fs Ht' Hfs IHfs]; intros paths pth rs Hlen Hok Hnm Hinv; [reflexivity|].
  pose proof (Forall_inv Hok) as Hok1. pose proof (Forall_inv_tail Hok) as Hok'.
  pose proof (Forall_inv Hnm) as Hnm1. pose proof (Forall_inv_tail Hnm) as Hnm'.
  pose proof (Forall_inv Hinv) as Hinv1. pose proof (Forall_inv_tail Hinv) as Hinv'.
  cbn [snd] in Ht', Hok1, Hnm1.
  rewrite elems_fields_cons, pre_fields_cons, (IHfs paths pth rs Hlen Hok' Hnm' Hinv').
  f_equal. destruct t' as [p|kids].
  - rewrite elems_ty_leaf. cbn [pre_ty]. unfold leaf_element, sleaf. cbn [c_reps c_path c_prim].
    rewrite !last_snoc. reflexivity.
  - rewrite elems_ty_group, pre_ty_group. unfold gelem, sgroup.
    rewrite (nth_snoc_last' pth rs n rp Req Hlen), nth_snoc_last.
    replace (S (length (pth ++ [n]) - 1)) with (length (pth ++ [n]))
      by (rewrite app_length; cbn [length]; lia).
    rewrite firstn_all.
    apply ty_okb_group in Hok1. destruct Hok1 as [Hkne Hkok].
    apply names_okb_group in Hnm1. destruct Hnm1 as [Hknd Hknm].
    assert (Hcount : count_children (pth ++ [n]) paths [] = N.of_nat (length kids)).
    { pose proof (Hinv1 []) as H0. cbn [fname frep fty fst snd] in H0. rewrite H0.
      apply count_children_top; [exact Hkok|exact Hknd|]. intros n' _ []. }
    rewrite Hcount. f_equal.
    cbn [pre_stmt_ty] in Ht'. apply (Ht' paths (pth ++ [n]) (rs ++ [rp])); try assumption.
    + rewrite !app_length, Hlen. reflexivity.
    + apply Forall_forall. intros [[n2 rp2] t2] Hin rel. cbn [fname frep fty fst snd].
      rewrite <- (app_cons_snoc pth n (n2 :: rel)).
      pose proof (Hinv1 (n2 :: rel)) as H1. cbn [fname frep fty fst snd] in H1. rewrite H1.
      rewrite (app_cons_snoc pth n (n2 :: rel)).
      apply count_children_descend; assumption.
Qed.

(** the footer schema of a shape: the root element, then the listing *)
Definition sroot (k : nat) : schema_element :=
  {| se_type := None; se_type_length := None; se_repetition := None; se_name := root_name;
     se_num_children := Some (Z.of_N (N.of_nat k));
     se_converted := None; se_scale := None; se_precision := None; se_field_id := None |}.

Lemma schema_of_pre fs :
  ty_okb (TGroup fs) = true -> names_okb (TGroup fs) = true ->
  schema_of (columns fs) = sroot (length fs) :: pre_fields fs.
Proof.
  intros Hok Hnm. rewrite (schema_of_columns fs Hok Hnm).
  apply ty_okb_group in Hok. destruct Hok as [Hne Hok].
  apply names_okb_group in Hnm. destruct Hnm as [Hnd Hnm].
  set (paths := map c_path (columns fs)).
  assert (Hroot : count_children [] paths [] = N.of_nat (length fs)).
  { unfold paths, columns. apply (count_children_top [] []); [exact Hok|exact Hnd|]. intros n _ []. }
  unfold root_elem, sroot. rewrite Hroot. f_equal.
  pose proof (elems_pre_ty (TGroup fs)) as HP. cbn [pre_stmt_ty] in HP.
  apply (HP paths [] [] eq_refl Hok Hnm).
  apply Forall_forall. intros [[n rp] t'] Hin rel. cbn [fname frep fty fst snd app].
  unfold paths, columns.
  apply (count_children_descend [] [] n rel rp t' fs Hnd Hin).
Qed.

(** ** The declarations [get_struct] produces *)

Definition go_name (p : prim) : bytes :=
  match p with
  | PInt32 | PUint32 => [105;110;116;51;50]
  | PInt64 | PUint64 => [105;110;116;54;52]
  | PFloat32 => [102;108;111;97;116;51;50]
  | PFloat64 => [102;108;111;97;116;54;52]
  | PBool => [98;111;111;108]
  | PString => [115;116;114;105;110;103]
  end.

Definition wrap (rp : rept) (g : gotype) : gotype := match rp with Opt => GPtr g | _ => g end.

(** `Name *type \`parquet:"name"\``: a repeated field comes back as a required one *)
Definition fdecl_of (f : field) : fdecl :=
  FD [title (fname f)]
     (wrap (frep f) (GBase (match fty f with TLeaf p => go_name p | TGroup _ => title (fname f) end)))
     (Some (fname f)).

(** the declaration of a group followed by those of its nested groups, in pre-order *)
Fixpoint decls_ty (n : bytes) (t : ty) {struct t} : decls :=
  match t with
  | TLeaf _ => []
  | TGroup fs =>
      (title n, map fdecl_of fs)
      :: (fix go (fs : list (bytes * rept * ty)) : decls :=
            match fs with
            | [] => []
            | (n', _, t') :: fs' => decls_ty n' t' ++ go fs'
            end) fs
  end.

Fixpoint decls_fields (fs : list field) : decls :=
  match fs with
  | [] => []
  | (n, _, t) :: fs' => decls_ty n t ++ decls_fields fs'
  end.

Lemma decls_ty_group n fs : decls_ty n (TGroup fs) = (title n, map fdecl_of fs) :: decls_fields fs.
Proof. reflexivity. Qed.

Lemma decls_fields_cons n rp t fs : decls_fields ((n, rp, t) :: fs) = decls_ty n t ++ decls_fields fs.
Proof. reflexivity. Qed.

Lemma go_type_of_prim p : go_type_of (prim_type p) = Some (go_name p).
Proof. destruct p; reflexivity. Qed.

Lemma field_decl_leaf n rp p : field_decl (sleaf n rp p) = fdecl_of (n, rp, TLeaf p).
Proof.
  unfold field_decl, fdecl_of, sleaf. cbn [se_name se_type se_repetition fname frep fty fst snd].
  rewrite go_type_of_prim. destruct rp; reflexivity.
Qed.

Lemma field_decl_group n rp k (kids : list field) : field_decl (sgroup n rp k) = fdecl_of (n, rp, TGroup kids).
Proof.
  unfold field_decl, fdecl_of, sgroup. cbn [se_name se_type se_repetition fname frep fty fst snd].
  destruct rp; reflexivity.
Qed.

(** the loop of [get_struct], with the recursive call as a parameter *)
Definition gs_go (rec : bytes -> nat -> list schema_element -> option (nat * decls)) (name : bytes) :=
  fix go (i : nat) (els : list schema_element) (fields : list fdecl) (nested : decls) (consumed : nat)
    : option (nat * decls) :=
    match i with
    | O => Some (consumed, (title name, fields) :: nested)
    | S i' =>
        match els with
        | [] => None
        | ch :: rest =>
            let fields' := fields ++ [field_decl ch] in
            match se_num_children ch with
            | Some c =>
                if (0 <? c)%Z then
                  match rec (se_name ch) (Z.to_nat c) rest with
                  | Some (n, ds) => go i' (skipn n rest) fields' (nested ++ ds) (S (consumed + n))
                  | None => None
                  end
                else go i' rest fields' nested (S consumed)
            | None => go i' rest fields' nested (S consumed)
            end
        end
    end.

Lemma get_struct_S fu name k els :
  get_struct (S fu) name k els = gs_go (get_struct fu) name k els [] [] 0%nat.
Proof. reflexivity. Qed.

Lemma gs_go_O rec name els fields nested c :
  gs_go rec name O els fields nested c = Some (c, (title name, fields) :: nested).
Proof. reflexivity. Qed.

Lemma gs_go_leaf rec name i n rp p rest fields nested c :
  gs_go rec name (S i) (sleaf n rp p :: rest) fields nested c =
  gs_go rec name i rest (fields ++ [fdecl_of (n, rp, TLeaf p)]) nested (S c).
Proof. rewrite <- field_decl_leaf. reflexivity. Qed.

Lemma gs_go_group rec name i n rp (kids : list field) rest fields nested c :
  kids <> [] ->
  gs_go rec name (S i) (sgroup n rp (length kids) :: rest) fields nested c =
  match rec n (length kids) rest with
  | Some (m, ds) => gs_go rec name i (skipn m rest) (fields ++ [fdecl_of (n, rp, TGroup kids)])
                      (nested ++ ds) (S (c + m))
  | None => None
  end.
Proof.
  intros Hne. rewrite <- (field_decl_group n rp (length kids) kids).
  assert (Hpos : (0 <? Z.of_N (N.of_nat (length kids)))%Z = true).
  { destruct kids; [congruence|]. cbn [length]. lia. }
  assert (Hk : Z.to_nat (Z.of_N (N.of_nat (length kids))) = length kids) by lia.
  cbn [gs_go]. cbn [sgroup se_num_children se_name]. rewrite Hpos, Hk. reflexivity.
Qed.

Definition gs_stmt (fu : nat) : Prop :=
  forall name fs rest,
    Forall (fun f : field => ty_okb (snd f) = true) fs ->
    (length (pre_fields fs) < fu)%nat ->
    get_struct fu name (length fs) (pre_fields fs ++ rest) =
    Some (length (pre_fields fs), decls_ty name (TGroup fs)).

Lemma gs_go_fields fu name : gs_stmt fu ->
  forall fs rest fields nested c,
    Forall (fun f : field => ty_okb (snd f) = true) fs ->
    (length (pre_fields fs) <= fu)%nat ->
    gs_go (get_struct fu) name (length fs) (pre_fields fs ++ rest) fields nested c =
    Some ((c + length (pre_fields fs))%nat,
          (title name, fields ++ map fdecl_of fs) :: nested ++ decls_fields fs).
Proof.
  intros HP. induction fs as [|[[n rp] t] fs IH]; intros rest fields nested c Hok Hlen.
  - cbn [length pre_fields app map decls_fields]. rewrite gs_go_O, !app_nil_r, Nat.add_0_r. reflexivity.
  - pose proof (Forall_inv Hok) as Hok1. pose proof (Forall_inv_tail Hok) as Hok'. cbn [snd] in Hok1.
    rewrite pre_fields_cons, app_length in *. rewrite <- app_assoc.
    cbn [length map]. rewrite decls_fields_cons.
    destruct t as [p|kids].
    + cbn [pre_ty app length] in *. rewrite gs_go_leaf, (IH rest _ nested (S c) Hok') by lia.
      rewrite <- app_assoc. cbn [app decls_ty]. do 2 f_equal. lia.
    + rewrite pre_ty_group in *. cbn [app length] in *.
      apply ty_okb_group in Hok1. destruct Hok1 as [Hkne Hkok].
      rewrite (gs_go_group _ name (length fs) n rp kids _ fields nested c Hkne).
      rewrite (HP n kids (pre_fields fs ++ rest) Hkok) by lia.
      rewrite skipn_app, skipn_all, Nat.sub_diag. cbn [app skipn].
      rewrite (IH rest _ _ _ Hok') by lia.
      rewrite <- !app_assoc. cbn [app]. do 2 f_equal. lia.
Qed.

Lemma get_struct_spec : forall fu, gs_stmt fu.
Proof.
  induction fu as [|fu IH]; intros name fs rest Hok Hlen; [lia|].
  rewrite get_struct_S, (gs_go_fields fu name IH fs rest [] [] 0%nat Hok) by lia.
  reflexivity.
Qed.

Lemma struct_of_schema_pre root fs :
  Forall (fun f : field => ty_okb (snd f) = true) fs ->
  struct_of_schema root (sroot (length fs) :: pre_fields fs) = Some (decls_ty root (TGroup fs)).
Proof.
  intros Hok. unfold struct_of_schema. cbn [sroot se_num_children].
  replace (Z.to_nat (Z.of_N (N.of_nat (length fs)))) with (length fs) by lia.
  rewrite <- (app_nil_r (pre_fields fs)) at 2.
  rewrite (get_struct_spec _ root fs [] Hok); [reflexivity|]. cbn [length]. lia.
Qed.

(** ** Hypotheses on the shape *)

(** a column name whose Go field name [title n] is exported, and that is not
    the tag "-" (which would exclude the field) *)
Definition name_okb (n : bytes) : bool := negb (is_private (title n)) && negb (bytes_eqb n dash).

(** the physical types: uint32 / uint64 are int32 / int64 with a converted type *)
Definition prim_plain (p : prim) : bool :=
  match p with PUint32 | PUint64 => false | _ => true end.

(** no repeated field, plain leaf types, good names — at all depths *)
Fixpoint regen_tyb (t : ty) : bool :=
  match t with
  | TLeaf p => prim_plain p
  | TGroup fs =>
      forallb (fun f : field => name_okb (fst (fst f)) && negb (is_rep (snd (fst f))) && regen_tyb (snd f)) fs
  end.

Definition field_ok (f : field) : Prop :=
  name_okb (fname f) = true /\ is_rep (frep f) = false /\ regen_tyb (fty f) = true.

Lemma regen_tyb_group fs : regen_tyb (TGroup fs) = true -> Forall field_ok fs.
Proof.
  cbn [regen_tyb]. intros H. rewrite forallb_forall in H. apply Forall_forall. intros f Hin.
  pose proof (H f Hin) as Hf. apply andb_prop in Hf. destruct Hf as [Hf H3].
  apply andb_prop in Hf. destruct Hf as [H1 H2]. apply negb_true_iff in H2.
  unfold field_ok, fname, frep, fty. auto.
Qed.

(** the names of the groups of a shape, at all depths, in pre-order *)
Fixpoint gnames_ty (n : bytes) (t : ty) {struct t} : list bytes :=
  match t with
  | TLeaf _ => []
  | TGroup fs =>
      n :: (fix go (fs : list (bytes * rept * ty)) : list bytes :=
              match fs with
              | [] => []
              | (n', _, t') :: fs' => gnames_ty n' t' ++ go fs'
              end) fs
  end.

Fixpoint gnames (fs : list field) : list bytes :=
  match fs with
  | [] => []
  | (n, _, t) :: fs' => gnames_ty n t ++ gnames fs'
  end.

Lemma gnames_ty_group n fs : gnames_ty n (TGroup fs) = n :: gnames fs.
Proof. reflexivity. Qed.

Lemma decls_names_ty t : forall n, map fst (decls_ty n t) = map title (gnames_ty n t).
Proof.
  induction t as [p|fs IH] using ty_ind'; intros n; [reflexivity|].
  rewrite decls_ty_group, gnames_ty_group. cbn [map fst]. f_equal.
  induction IH as [|[[n' rp'] t'] fs Ht' Hfs IHfs]; [reflexivity|].
  cbn [decls_fields gnames]. rewrite !map_app, IHfs. cbn [snd] in Ht'. rewrite Ht'. reflexivity.
Qed.

Lemma decls_names fs : map fst (decls_fields fs) = map title (gnames fs).
Proof.
  pose proof (decls_names_ty (TGroup fs) []) as H. rewrite decls_ty_group, gnames_ty_group in H.
  cbn [map fst] in H. congruence.
Qed.

(** ** Parsing the regenerated declarations *)

Lemma prim_name_private n p : prim_of_name n = Some p -> is_private n = true.
Proof.
  unfold prim_of_name.
  destruct (bytes_eqb n [105;110;116;51;50]) eqn:E1; [apply bytes_eqb_eq in E1; subst n; reflexivity|].
  destruct (bytes_eqb n [105;110;116;54;52]) eqn:E2; [apply bytes_eqb_eq in E2; subst n; reflexivity|].
  destruct (bytes_eqb n [117;105;110;116;51;50]) eqn:E3; [apply bytes_eqb_eq in E3; subst n; reflexivity|].
  destruct (bytes_eqb n [117;105;110;116;54;52]) eqn:E4; [apply bytes_eqb_eq in E4; subst n; reflexivity|].
  destruct (bytes_eqb n [102;108;111;97;116;51;50]) eqn:E5; [apply bytes_eqb_eq in E5; subst n; reflexivity|].
  destruct (bytes_eqb n [102;108;111;97;116;54;52]) eqn:E6; [apply bytes_eqb_eq in E6; subst n; reflexivity|].
  destruct (bytes_eqb n [98;111;111;108]) eqn:E7; [apply bytes_eqb_eq in E7; subst n; reflexivity|].
  destruct (bytes_eqb n [115;116;114;105;110;103]) eqn:E8; [apply bytes_eqb_eq in E8; subst n; reflexivity|].
  discriminate.
Qed.

Lemma prim_of_exported n : is_private n = false -> prim_of_name n = None.
Proof.
  intros H. destruct (prim_of_name n) as [p|] eqn:E; [|reflexivity].
  apply prim_name_private in E. congruence.
Qed.

Lemma prim_of_go_name p : prim_plain p = true -> prim_of_name (go_name p) = Some p.
Proof. destruct p; intros H; try discriminate; reflexivity. Qed.

Lemma raw_of_fdecl n rp t :
  name_okb n = true -> is_rep rp = false ->
  raw_of (fdecl_of (n, rp, t)) =
  RField {| rf_name := title n; rf_col := n; rf_rep := rp;
            rf_type := match t with TLeaf p => go_name p | TGroup _ => title n end;
            rf_embedded := false |}.
Proof.
  intros Hn Hrp. unfold name_okb in Hn. apply andb_prop in Hn. destruct Hn as [H1 H2].
  apply negb_true_iff in H1. apply negb_true_iff in H2.
  unfold raw_of, fdecl_of. cbn [fd_names fd_type fd_tag fname frep fty fst snd].
  rewrite H1, H2. destruct rp; [reflexivity|reflexivity|discriminate].
Qed.

Lemma lookup_nodup ds : forall k v, NoDup (map fst ds) -> In (k, v) ds -> lookup ds k = Some v.
Proof.
  induction ds as [|[k0 v0] r IH]; intros k v Hnd Hin; [contradiction|].
  cbn [map fst] in Hnd. apply NoDup_cons_iff in Hnd. destruct Hnd as [Hk0 Hnd].
  rewrite lookup_cons. destruct Hin as [Heq|Hin].
  - injection Heq as -> ->. rewrite bytes_eqb_refl. reflexivity.
  - destruct (bytes_eqb k0 k) eqn:He; [|exact (IH k v Hnd Hin)].
    apply bytes_eqb_eq in He. subst k0. exfalso. apply Hk0.
    apply in_map_iff. exists (k, v). split; [reflexivity|exact Hin].
Qed.

Section ParseBack.
  Variable ds : decls.
  Hypothesis Hnd : NoDup (map fst ds).

  Lemma children_regen : forall fuel fs,
    Forall field_ok fs -> incl (decls_fields fs) ds -> (length (decls_fields fs) < fuel)%nat ->
    exists pf, children fuel ds (map fdecl_of fs) = Some pf /\ map shape_of pf = fs.
  Proof.
    induction fuel as [|fu IHfu]; intros fs Hok Hinc Hlen; [lia|].
    induction fs as [|[[n rp] t] fs IHfs].
    - exists []. split; reflexivity.
    - pose proof (Forall_inv Hok) as (Hn & Hrp & Ht). pose proof (Forall_inv_tail Hok) as Hok'.
      cbn [fname frep fty fst snd] in Hn, Hrp, Ht.
      rewrite decls_fields_cons in Hinc, Hlen. rewrite app_length in Hlen.
      destruct (IHfs Hok') as (tail & Htail & Hshape).
      { intros x Hx. apply Hinc. apply in_or_app. right. exact Hx. }
      { lia. }
      cbn [map]. rewrite children_cons, Htail. unfold field_items.
      rewrite (raw_of_fdecl n rp t Hn Hrp). cbn [rf_type rf_embedded rf_name rf_col rf_rep].
      destruct t as [p|kids].
      + cbn [regen_tyb] in Ht. rewrite (prim_of_go_name p Ht).
        exists (PLeaf (title n) n rp p :: tail). split; [reflexivity|].
        cbn [map shape_of]. rewrite Hshape. reflexivity.
      + assert (Hexp : is_private (title n) = false).
        { unfold name_okb in Hn. apply andb_prop in Hn. destruct Hn as [H1 _].
          apply negb_true_iff in H1. exact H1. }
        rewrite (prim_of_exported _ Hexp).
        rewrite decls_ty_group in Hinc, Hlen. cbn [length] in Hlen.
        assert (Hl : lookup ds (title n) = Some (map fdecl_of kids)).
        { apply (lookup_nodup ds _ _ Hnd). apply Hinc. left. reflexivity. }
        rewrite Hl.
        destruct (IHfu kids (regen_tyb_group kids Ht)) as (pk & Hpk & Hks).
        { intros x Hx. apply Hinc. right. apply in_or_app. left. exact Hx. }
        { lia. }
        rewrite Hpk. exists (PGroup (title n) n rp (title n) pk :: tail). split; [reflexivity|].
        cbn [map shape_of]. rewrite Hshape, Hks. reflexivity.
  Qed.
End ParseBack.

(** the regenerated declarations read the shape back *)
Lemma parse_regen root fs :
  regen_tyb (TGroup fs) = true ->
  NoDup (title root :: map title (gnames fs)) ->
  option_map (map shape_of) (parse_root (decls_ty root (TGroup fs)) (title root)) = Some fs.
Proof.
  intros Hreg Hnd. rewrite decls_ty_group. unfold parse_root.
  rewrite lookup_cons, bytes_eqb_refl.
  destruct (children_regen ((title root, map fdecl_of fs) :: decls_fields fs)) with
    (fuel := S (length ((title root, map fdecl_of fs) :: decls_fields fs))) (fs := fs)
    as (pf & Hpf & Hshape).
  - cbn [map fst]. rewrite decls_names. exact Hnd.
  - exact (regen_tyb_group fs Hreg).
  - apply incl_tl. apply incl_refl.
  - cbn [length]. lia.
  - rewrite Hpf. cbn [option_map]. rewrite Hshape. reflexivity.
Qed.

(** ** C15 *)

Theorem regen_ok root fs :
  ty_okb (TGroup fs) = true ->                          (* every group has a field *)
  names_okb (TGroup fs) = true ->                       (* sibling names are distinct *)
  regen_tyb (TGroup fs) = true ->                       (* no Rep, plain prims, good names *)
  NoDup (title root :: map title (gnames fs)) ->        (* distinct struct type names *)
  exists ds,
    struct_of_schema root (schema_of (columns fs)) = Some ds /\
    option_map (map shape_of) (parse_root ds (title root)) = Some fs.
Proof.
  intros Hok Hnm Hreg Hnd. exists (decls_ty root (TGroup fs)). split.
  - rewrite (schema_of_pre fs Hok Hnm). apply struct_of_schema_pre.
    apply ty_okb_group in Hok. tauto.
  - exact (parse_regen root fs Hreg Hnd).
Qed.

(** *** The statement with upper-case names *)

(** a non-empty name whose first byte is A-Z *)
Definition upperb (n : bytes) : bool :=
  match n with c :: _ => (65 <=? c) && (c <=? 90) | [] => false end.

Lemma upper_title n : upperb n = true -> title n = n.
Proof.
  destruct n as [|c r]; [discriminate|]. cbn [upperb title]. intros H.
  destruct ((97 <=? c) && (c <=? 122)) eqn:E; [lia|reflexivity].
Qed.

Lemma upper_exported n : upperb n = true -> is_private n = false.
Proof. destruct n as [|c r]; [discriminate|]. cbn [upperb is_private]. intros H. lia. Qed.

Lemma upper_name_ok n : upperb n = true -> name_okb n = true.
Proof.
  intros H. unfold name_okb. rewrite (upper_title n H), (upper_exported n H). cbn [negb andb].
  apply negb_true_iff. apply bytes_eqb_neq. intros ->. discriminate.
Qed.

(** no Rep, plain prims, upper-case names — at all depths *)
Fixpoint upper_tyb (t : ty) : bool :=
  match t with
  | TLeaf p => prim_plain p
  | TGroup fs =>
      forallb (fun f : field => upperb (fst (fst f)) && negb (is_rep (snd (fst f))) && upper_tyb (snd f)) fs
  end.

Lemma upper_regen t : upper_tyb t = true -> regen_tyb t = true.
Proof.
  induction t as [p|fs IH] using ty_ind'; [auto|].
  cbn [upper_tyb regen_tyb]. intros H. rewrite forallb_forall in H. apply forallb_forall.
  intros f Hin. rewrite Forall_forall in IH. pose proof (H f Hin) as Hf.
  apply andb_prop in Hf. destruct Hf as [Hf H3]. apply andb_prop in Hf. destruct Hf as [H1 H2].
  rewrite (upper_name_ok _ H1), H2, (IH f Hin H3). reflexivity.
Qed.

Lemma upper_gnames t : forall n, upperb n = true -> upper_tyb t = true ->
  map title (gnames_ty n t) = gnames_ty n t.
Proof.
  induction t as [p|fs IH] using ty_ind'; intros n Hn Ht; [reflexivity|].
  rewrite gnames_ty_group. cbn [map]. rewrite (upper_title n Hn). f_equal.
  cbn [upper_tyb] in Ht. rewrite forallb_forall in Ht.
  induction IH as [|[[n' rp'] t'] fs Ht' Hfs IHfs]; [reflexivity|].
  cbn [gnames]. rewrite map_app. pose proof (Ht _ (or_introl eq_refl)) as Hf.
  cbn [fst snd] in Hf, Ht'. apply andb_prop in Hf. destruct Hf as [Hf H3].
  apply andb_prop in Hf. destruct Hf as [H1 H2].
  rewrite (Ht' n' H1 H3), IHfs; [reflexivity|]. intros f Hin. apply Ht. right. exact Hin.
Qed.

Corollary regen_ok_upper root fs :
  ty_okb (TGroup fs) = true -> names_okb (TGroup fs) = true ->
  upper_tyb (TGroup fs) = true -> upperb root = true ->
  NoDup (root :: gnames fs) ->
  exists ds,
    struct_of_schema root (schema_of (columns fs)) = Some ds /\
    option_map (map shape_of) (parse_root ds root) = Some fs.
Proof.
  intros Hok Hnm Hup Hroot Hnd.
  pose proof (upper_gnames (TGroup fs) root Hroot Hup) as Hg.
  rewrite gnames_ty_group in Hg. cbn [map] in Hg.
  destruct (regen_ok root fs Hok Hnm (upper_regen _ Hup)) as (ds & H1 & H2).
  - rewrite Hg. exact Hnd.
  - exists ds. rewrite (upper_title root Hroot) in H2. split; [exact H1|exact H2].
Qed.

(** the hypotheses as one boolean, for evaluation *)
Definition regen_hypb (root : bytes) (fs : list field) : bool :=
  ty_okb (TGroup fs) && names_okb (TGroup fs) && regen_tyb (TGroup fs)
  && nodupb (title root :: map title (gnames fs)).

Corollary regen_ok_bool root fs :
  regen_hypb root fs = true ->
  exists ds,
    struct_of_schema root (schema_of (columns fs)) = Some ds /\
    option_map (map shape_of) (parse_root ds (title root)) = Some fs.
Proof.
  unfold regen_hypb. intros H.
  apply andb_prop in H. destruct H as [H H4]. apply andb_prop in H. destruct H as [H H3].
  apply andb_prop in H. destruct H as [H1 H2].
  apply regen_ok; [exact H1|exact H2|exact H3|apply nodupb_NoDup; exact H4].
Qed.

(** ** Examples *)

(** write the shape, regenerate the struct from the footer, parse it *)
Definition regen (root : bytes) (fs : list field) : option (list field) :=
  match struct_of_schema root (schema_of (columns fs)) with
  | Some ds => option_map (map shape_of) (parse_root ds (title root))
  | None => None
  end.

Lemma regen_ok_regen root fs : regen_hypb root fs = true -> regen root fs = Some fs.
Proof.
  intros H. destruct (regen_ok_bool root fs H) as (ds & H1 & H2). unfold regen. rewrite H1. exact H2.
Qed.

Module Examples.
  (** id int64; name *string; hobby *{ kind string; level *int32; inner { z float64 } };
      score float32; ok *bool — lower-case column names, as in real files *)
  Definition fs1 : list field :=
    [ ([105;100], Req, TLeaf PInt64); ([110;97;109;101], Opt, TLeaf PString);
      ([104;111;98;98;121], Opt,
       TGroup [ ([107;105;110;100], Req, TLeaf PString); ([108;101;118;101;108], Opt, TLeaf PInt32);
                ([105;110;110;101;114], Req, TGroup [([122], Req, TLeaf PFloat64)]) ]);
      ([115;99;111;114;101], Req, TLeaf PFloat32); ([111;107], Opt, TLeaf PBool) ].

  Example regen_doc : regen_hypb [114;111;119] fs1 = true /\ regen [114;111;119] fs1 = Some fs1.
  Proof. vm_compute. split; reflexivity. Qed.

  (** type Row struct { Id int64 `parquet:"id"`; Name *string `parquet:"name"`; Hobby *Hobby ... } ... *)
  Example regen_doc_decls :
    struct_of_schema [114;111;119] (schema_of (columns fs1)) =
    Some [ ([82;111;119],
            [ FD [[73;100]] (GBase [105;110;116;54;52]) (Some [105;100]);
              FD [[78;97;109;101]] (GPtr (GBase [115;116;114;105;110;103])) (Some [110;97;109;101]);
              FD [[72;111;98;98;121]] (GPtr (GBase [72;111;98;98;121])) (Some [104;111;98;98;121]);
              FD [[83;99;111;114;101]] (GBase [102;108;111;97;116;51;50]) (Some [115;99;111;114;101]);
              FD [[79;107]] (GPtr (GBase [98;111;111;108])) (Some [111;107]) ]);
           ([72;111;98;98;121],
            [ FD [[75;105;110;100]] (GBase [115;116;114;105;110;103]) (Some [107;105;110;100]);
              FD [[76;101;118;101;108]] (GPtr (GBase [105;110;116;51;50])) (Some [108;101;118;101;108]);
              FD [[73;110;110;101;114]] (GBase [73;110;110;101;114]) (Some [105;110;110;101;114]) ]);
           ([73;110;110;101;114], [ FD [[90]] (GBase [102;108;111;97;116;54;52]) (Some [122]) ]) ].
  Proof. vm_compute. reflexivity. Qed.

  (** outside the property: converted types are ignored, a uint32 / uint64
      column comes back as int32 / int64 *)
  Example regen_uint :
    regen [82] [([65], Req, TLeaf PUint32); ([66], Opt, TLeaf PUint64)]
    = Some [([65], Req, TLeaf PInt32); ([66], Opt, TLeaf PInt64)].
  Proof. vm_compute. reflexivity. Qed.

  (** outside the property: structs.field only tests for OPTIONAL, a repeated
      field or group comes back as a required one *)
  Example regen_rep :
    regen [82] [([65], Rep, TLeaf PInt32); ([66], Rep, TGroup [([67], Req, TLeaf PInt32)])]
    = Some [([65], Req, TLeaf PInt32); ([66], Req, TGroup [([67], Req, TLeaf PInt32)])].
  Proof. vm_compute. reflexivity. Qed.

  (** why group names must be distinct: two groups X under different parents
      become two declarations `type X struct`; the first one wins (and the Go
      file does not compile) *)
  Definition fs2 : list field :=
    [ ([65], Req, TGroup [ ([88], Req, TGroup [([80], Req, TLeaf PInt32)]) ]);
      ([66], Req, TGroup [ ([88], Req, TGroup [([81], Opt, TLeaf PString)]) ]) ].

  Example regen_same_group_name :
    ty_okb (TGroup fs2) = true /\ names_okb (TGroup fs2) = true /\ regen_tyb (TGroup fs2) = true /\
    regen_hypb [82] fs2 = false /\
    regen [82] fs2 =
    Some [ ([65], Req, TGroup [ ([88], Req, TGroup [([80], Req, TLeaf PInt32)]) ]);
           ([66], Req, TGroup [ ([88], Req, TGroup [([80], Req, TLeaf PInt32)]) ]) ].
  Proof. vm_compute. repeat split; reflexivity. Qed.

  (** the same after [title]: groups "a" and "A" *)
  Example regen_same_title :
    let fs := [ ([97], Req, TGroup [([88], Req, TLeaf PInt32)]);
                ([65], Req, TGroup [([89], Req, TLeaf PInt64)]) ] in
    regen_hypb [82] fs = false /\
    regen [82] fs = Some [ ([97], Req, TGroup [([88], Req, TLeaf PInt32)]);
                           ([65], Req, TGroup [([88], Req, TLeaf PInt32)]) ].
  Proof. vm_compute. split; reflexivity. Qed.

  (** a group named like the root struct: `type R struct { A int32; R R }` *)
  Example regen_group_named_root :
    let fs := [ ([65], Req, TLeaf PInt32); ([82], Req, TGroup [([66], Req, TLeaf PInt32)]) ] in
    regen_hypb [82] fs = false /\ regen [82] fs = None /\ regen [114] fs = None.
  Proof. vm_compute. repeat split; reflexivity. Qed.

  (** why names matter: columns "_x" (field `_x`, unexported) and "-" (tag "-")
      are dropped by the parser *)
  Example regen_bad_names :
    let fs := [ ([95;120], Req, TLeaf PInt32); ([45], Req, TLeaf PInt32); ([66], Req, TLeaf PInt32) ] in
    regen_hypb [82] fs = false /\ regen [82] fs = Some [([66], Req, TLeaf PInt32)].
  Proof. vm_compute. split; reflexivity. Qed.

  (** upper-case instance of the theorem *)
  Example regen_upper :
    let fs := [ ([65], Req, TLeaf PInt32);
                ([66], Opt, TGroup [ ([67], Opt, TLeaf PString); ([68], Req, TGroup [([69], Req, TLeaf PBool)]) ]);
                ([70], Opt, TLeaf PFloat64) ] in
    regen [82] fs = Some fs.
  Proof. apply regen_ok_regen. vm_compute. reflexivity. Qed.
End Examples.

Print Assumptions regen_ok.
Print Assumptions regen_ok_upper.
Print Assumptions regen_ok_bool.
