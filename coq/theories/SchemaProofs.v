(** * SchemaProofs: the footer schema the writer emits ([Writer.schema_of], the
    path-keyed walk of parquet.go schema()) is the pre-order listing of the
    struct shape, and the validator's [FileSpec.parse_schema] rebuilds the
    shape from it — for shapes whose groups are non-empty and whose sibling
    names are distinct (same-named groups under different parents are fine). *)
From Coq Require Import List NArith ZArith Lia Bool Arith PeanoNat.
From Coq Require Import ZifyN ZifyNat ZifyBool.
From PQ Require Import Bytes Schema Dremel DremelProofs MetaTypes Writer FileSpec.
Import ListNotations.
Local Open Scope N_scope.

(** ** Distinct sibling names *)

Definition name_eqb (a b : bytes) : bool := if list_eq_dec N.eq_dec a b then true else false.

Fixpoint nodupb (l : list bytes) : bool :=
  match l with
  | [] => true
  | x :: r => negb (existsb (name_eqb x) r) && nodupb r
  end.

Fixpoint names_okb (t : ty) : bool :=
  match t with
  | TLeaf _ => true
  | TGroup fs => nodupb (map fname fs) && forallb (fun f : field => names_okb (snd f)) fs
  end.

Lemma name_eqb_eq a b : name_eqb a b = true <-> a = b.
Proof. unfold name_eqb. destruct (list_eq_dec N.eq_dec a b); split; congruence. Qed.

Lemma nodupb_NoDup l : nodupb l = true -> NoDup l.
Proof.
  induction l as [|x r IH]; cbn [nodupb]; intros H; [constructor|].
  apply andb_prop in H. destruct H as [H1 H2]. constructor; [|apply IH; exact H2].
  intros Hin. apply negb_true_iff in H1.
  assert (Hex : existsb (name_eqb x) r = true).
  { apply existsb_exists. exists x. split; [exact Hin|apply name_eqb_eq; reflexivity]. }
  congruence.
Qed.

Lemma names_okb_group fs :
  names_okb (TGroup fs) = true ->
  NoDup (map fname fs) /\ Forall (fun f : field => names_okb (snd f) = true) fs.
Proof.
  cbn [names_okb]. intros H. apply andb_prop in H. destruct H as [H1 H2].
  split; [apply nodupb_NoDup; exact H1 | apply forallb_Forall; exact H2].
Qed.

(** ** Paths *)

Lemma path_eqb_eq a b : path_eqb a b = true <-> a = b.
Proof. unfold path_eqb. destruct (list_eq_dec (list_eq_dec N.eq_dec) a b); split; congruence. Qed.

Lemma path_eqb_refl a : path_eqb a a = true.
Proof. apply path_eqb_eq. reflexivity. Qed.

Lemma existsb_path_in x seen : existsb (path_eqb x) seen = true <-> In x seen.
Proof.
  rewrite existsb_exists. split.
  - intros (y & Hy & He). apply path_eqb_eq in He. subst y. exact Hy.
  - intros H. exists x. split; [exact H|apply path_eqb_refl].
Qed.

Lemma existsb_path_notin x seen : ~ In x seen -> existsb (path_eqb x) seen = false.
Proof.
  intros H. destruct (existsb (path_eqb x) seen) eqn:E; [|reflexivity].
  apply existsb_path_in in E. contradiction.
Qed.

(** every column below a node at [pth] has a path that extends [pth] *)
Lemma columns_ty_paths t : forall pth rs,
  Forall (fun c => exists suf rsuf, c_path c = pth ++ suf /\ c_reps c = rs ++ rsuf /\ length suf = length rsuf)
         (columns_ty pth rs t).
Proof.
  induction t as [p|fs IH] using ty_ind'; intros pth rs.
  - rewrite columns_ty_leaf. constructor; [|constructor]. exists [], []. cbn [c_path c_reps].
    rewrite !app_nil_r. auto.
  - induction IH as [|[[n rp] t'] fs Ht' Hfs IHfs]; [constructor|].
    rewrite columns_ty_cons. apply Forall_app. split; [|exact IHfs].
    cbn [snd] in Ht'. eapply Forall_impl; [|apply (Ht' (pth ++ [n]) (rs ++ [rp]))].
    cbv beta. intros c (suf & rsuf & Hp & Hr & Hl). exists (n :: suf), (rp :: rsuf).
    rewrite Hp, Hr, <- !app_assoc. cbn [app length]. auto.
Qed.

Lemma columns_ty_nonempty t pth rs : ty_okb t = true -> columns_ty pth rs t <> [].
Proof.
  intros Hok He. pose proof (leaf_count_pos t Hok) as Hpos.
  rewrite <- (columns_ty_length t pth rs), He in Hpos. cbn [length] in Hpos. lia.
Qed.

(** ** [count_children] *)

Definition strict_ext (pre p : list bytes) : bool :=
  path_eqb (firstn (length pre) p) pre && Nat.ltb (length pre) (length p).

Fixpoint seen_after (pre : list bytes) (paths seen : list (list bytes)) : list (list bytes) :=
  match paths with
  | [] => seen
  | p :: r =>
      if strict_ext pre p then
        if existsb (path_eqb (firstn (S (length pre)) p)) seen then seen_after pre r seen
        else seen_after pre r (firstn (S (length pre)) p :: seen)
      else seen_after pre r seen
  end.

Lemma count_children_cons pre p r seen :
  count_children pre (p :: r) seen =
  if strict_ext pre p then
    if existsb (path_eqb (firstn (S (length pre)) p)) seen then count_children pre r seen
    else 1 + count_children pre r (firstn (S (length pre)) p :: seen)
  else count_children pre r seen.
Proof. reflexivity. Qed.

Lemma count_children_app pre a : forall b seen,
  count_children pre (a ++ b) seen =
  count_children pre a seen + count_children pre b (seen_after pre a seen).
Proof.
  induction a as [|p a IH]; intros b seen; [reflexivity|].
  rewrite <- app_comm_cons, !count_children_cons. cbn [seen_after].
  destruct (strict_ext pre p); [|apply IH].
  destruct (existsb (path_eqb (firstn (S (length pre)) p)) seen); [apply IH|].
  rewrite IH. lia.
Qed.

Lemma count_children_nomatch pre a : forall seen,
  Forall (fun p => strict_ext pre p = false) a ->
  count_children pre a seen = 0 /\ seen_after pre a seen = seen.
Proof.
  induction a as [|p a IH]; intros seen Ha; [split; reflexivity|].
  pose proof (Forall_inv Ha) as Hp. pose proof (Forall_inv_tail Ha) as Ha'.
  rewrite count_children_cons. cbn [seen_after]. rewrite Hp. apply IH. exact Ha'.
Qed.

Lemma count_children_child_seen pre ch a : forall seen,
  Forall (fun p => strict_ext pre p = true /\ firstn (S (length pre)) p = ch) a ->
  In ch seen ->
  count_children pre a seen = 0 /\ seen_after pre a seen = seen.
Proof.
  induction a as [|p a IH]; intros seen Ha Hin; [split; reflexivity|].
  pose proof (Forall_inv Ha) as [Hp Hch]. pose proof (Forall_inv_tail Ha) as Ha'.
  rewrite count_children_cons. cbn [seen_after]. rewrite Hp, Hch.
  rewrite (proj2 (existsb_path_in ch seen) Hin). apply IH; assumption.
Qed.

Lemma count_children_child_new pre ch a seen :
  a <> [] ->
  Forall (fun p => strict_ext pre p = true /\ firstn (S (length pre)) p = ch) a ->
  ~ In ch seen ->
  count_children pre a seen = 1 /\ seen_after pre a seen = ch :: seen.
Proof.
  intros Hne Ha Hnin. destruct a as [|p a]; [congruence|].
  pose proof (Forall_inv Ha) as [Hp Hch]. pose proof (Forall_inv_tail Ha) as Ha'.
  rewrite count_children_cons. cbn [seen_after]. rewrite Hp, Hch.
  rewrite (existsb_path_notin ch seen Hnin).
  destruct (count_children_child_seen pre ch a (ch :: seen) Ha' (or_introl eq_refl)) as [H1 H2].
  rewrite H1, H2. split; [reflexivity|reflexivity].
Qed.

Lemma strict_ext_app (pre : list bytes) x suf : strict_ext pre (pre ++ x :: suf) = true.
Proof.
  unfold strict_ext. rewrite firstn_app_exact, path_eqb_refl, app_length. cbn [length andb].
  apply Nat.ltb_lt. lia.
Qed.

Lemma child_app {A} (pre : list A) x suf : firstn (S (length pre)) (pre ++ x :: suf) = pre ++ [x].
Proof.
  replace (S (length pre)) with (length pre + 1)%nat by lia.
  rewrite firstn_app_2. reflexivity.
Qed.

Lemma app_cons_snoc {A} (a : list A) x b : a ++ x :: b = (a ++ [x]) ++ b.
Proof. rewrite <- app_assoc. reflexivity. Qed.

(** (a) the children of the node itself *)
Lemma count_children_top pth rs : forall gs seen,
  Forall (fun f : field => ty_okb (snd f) = true) gs -> NoDup (map fname gs) ->
  (forall n, In n (map fname gs) -> ~ In (pth ++ [n]) seen) ->
  count_children pth (map c_path (columns_ty pth rs (TGroup gs))) seen = N.of_nat (length gs).
Proof.
  induction gs as [|[[n rp] t'] gs IH]; intros seen Hok Hnd Hseen; [reflexivity|].
  rewrite columns_ty_cons, map_app, count_children_app.
  pose proof (Forall_inv Hok) as Hok1. pose proof (Forall_inv_tail Hok) as Hok'. cbn [snd] in Hok1.
  cbn [map fname fst] in Hnd, Hseen. pose proof (NoDup_cons_iff n (map fname gs)) as Hc.
  apply Hc in Hnd. destruct Hnd as [Hn Hnd'].
  destruct (count_children_child_new pth (pth ++ [n])
              (map c_path (columns_ty (pth ++ [n]) (rs ++ [rp]) t')) seen) as [H1 H2].
  - intros He. apply map_eq_nil in He. revert He. apply columns_ty_nonempty. exact Hok1.
  - apply Forall_map. eapply Forall_impl; [|apply columns_ty_paths].
    cbv beta. intros c (suf & _ & Hp & _). rewrite Hp, <- app_assoc. cbn [app].
    split; [apply strict_ext_app|apply child_app].
  - apply Hseen. left. reflexivity.
  - rewrite H1, H2, IH; [cbn [length]; lia|exact Hok'|exact Hnd'|].
    intros n' Hn' [He|Hin].
    + apply app_inv_head in He. injection He as He. subst n'. contradiction.
    + apply (Hseen n'); [right; exact Hn'|exact Hin].
Qed.

Lemma firstn_under_neq k pth (n0 n : bytes) suf rel :
  firstn k (pth ++ n0 :: suf) = pth ++ n :: rel -> n0 = n.
Proof.
  intros H. apply (f_equal (skipn (length pth))) in H.
  rewrite skipn_firstn_comm, !skipn_app_exact in H.
  destruct (k - length pth)%nat; cbn [firstn] in H; [discriminate|]. injection H as H _. exact H.
Qed.

Lemma strict_ext_other pth (n0 n : bytes) suf rel :
  n0 <> n -> strict_ext (pth ++ n :: rel) (pth ++ n0 :: suf) = false.
Proof.
  intros Hne. unfold strict_ext.
  destruct (path_eqb (firstn (length (pth ++ n :: rel)) (pth ++ n0 :: suf)) (pth ++ n :: rel)) eqn:E;
    [|reflexivity].
  apply path_eqb_eq in E. apply firstn_under_neq in E. contradiction.
Qed.

Lemma field_nomatch pth rs n rel n0 rp0 t0 :
  n0 <> n ->
  Forall (fun p => strict_ext (pth ++ n :: rel) p = false)
         (map c_path (columns_ty (pth ++ [n0]) (rs ++ [rp0]) t0)).
Proof.
  intros Hne. apply Forall_map. eapply Forall_impl; [|apply columns_ty_paths].
  cbv beta. intros c (suf & _ & Hp & _). rewrite Hp, <- app_assoc. cbn [app].
  apply strict_ext_other. exact Hne.
Qed.

(** (b) below the field named [n], only that field's columns matter *)
Lemma count_children_descend pth rs n rel rp t' : forall fs,
  NoDup (map fname fs) -> In (n, rp, t') fs ->
  count_children (pth ++ n :: rel) (map c_path (columns_ty pth rs (TGroup fs))) [] =
  count_children (pth ++ n :: rel) (map c_path (columns_ty (pth ++ [n]) (rs ++ [rp]) t')) [].
Proof.
  induction fs as [|[[n0 rp0] t0] fs IH]; intros Hnd Hin; [contradiction|].
  cbn [map fname fst] in Hnd. apply NoDup_cons_iff in Hnd. destruct Hnd as [Hn0 Hnd].
  rewrite columns_ty_cons, map_app, count_children_app.
  destruct Hin as [Heq|Hin].
  - injection Heq as -> -> ->.
    assert (Hrest : Forall (fun p => strict_ext (pth ++ n :: rel) p = false)
                           (map c_path (columns_ty pth rs (TGroup fs)))).
    { clear IH. induction fs as [|[[n1 rp1] t1] fs IHfs]; [constructor|].
      rewrite columns_ty_cons, map_app. apply Forall_app. split.
      - apply field_nomatch. intros ->. apply Hn0. left. reflexivity.
      - apply IHfs.
        + intros Hx. apply Hn0. right. exact Hx.
        + cbn [map fname fst] in Hnd. apply NoDup_cons_iff in Hnd. tauto. }
    destruct (count_children_nomatch _ _ (seen_after (pth ++ n :: rel)
               (map c_path (columns_ty (pth ++ [n]) (rs ++ [rp]) t')) []) Hrest) as [H0 _].
    rewrite H0. lia.
  - assert (Hne : n0 <> n).
    { intros ->. apply Hn0. apply in_map_iff. exists (n, rp, t'). split; [reflexivity|exact Hin]. }
    destruct (count_children_nomatch _ _ [] (field_nomatch pth rs n rel n0 rp0 t0 Hne)) as [H0 H1].
    rewrite H0, H1, N.add_0_l. apply IH; assumption.
Qed.

(** ** The pre-order listing of a shape *)

Definition gelem (paths : list (list bytes)) (path : list bytes) (reps : list rept) (i : nat) : schema_element :=
  {| se_type := None; se_type_length := None;
     se_repetition := Some (rept_code (nth i reps Req));
     se_name := nth i path [];
     se_num_children := Some (Z.of_N (count_children (firstn (S i) path) paths []));
     se_converted := None; se_scale := None; se_precision := None; se_field_id := None |}.

Fixpoint elems_ty (paths : list (list bytes)) (pth : list bytes) (rs : list rept) (t : ty) {struct t}
  : list schema_element :=
  match t with
  | TLeaf p => [leaf_element {| c_path := pth; c_reps := rs; c_prim := p |}]
  | TGroup fs =>
      gelem paths pth rs (length pth - 1)
      :: (fix go (fs : list (bytes * rept * ty)) : list schema_element :=
            match fs with
            | [] => []
            | (n, rp, t') :: fs' => elems_ty paths (pth ++ [n]) (rs ++ [rp]) t' ++ go fs'
            end) fs
  end.

Fixpoint elems_fields (paths : list (list bytes)) (pth : list bytes) (rs : list rept) (fs : list field)
  : list schema_element :=
  match fs with
  | [] => []
  | (n, rp, t') :: fs' => elems_ty paths (pth ++ [n]) (rs ++ [rp]) t' ++ elems_fields paths pth rs fs'
  end.

Lemma elems_ty_leaf paths pth rs p :
  elems_ty paths pth rs (TLeaf p) = [leaf_element {| c_path := pth; c_reps := rs; c_prim := p |}].
Proof. reflexivity. Qed.

Lemma elems_ty_group paths pth rs fs :
  elems_ty paths pth rs (TGroup fs) = gelem paths pth rs (length pth - 1) :: elems_fields paths pth rs fs.
Proof.
  cbn [elems_ty]. f_equal.
  induction fs as [|[[n rp] t'] fs IH]; [reflexivity|]. cbn [elems_fields]. rewrite <- IH. reflexivity.
Qed.

Lemma elems_fields_cons paths pth rs n rp t' fs :
  elems_fields paths pth rs ((n, rp, t') :: fs) =
  elems_ty paths (pth ++ [n]) (rs ++ [rp]) t' ++ elems_fields paths pth rs fs.
Proof. reflexivity. Qed.

(** ** [parse_fields] reads the listing back *)

Lemma rept_of_code_code rp : rept_of_code (Some (rept_code rp)) = Some rp.
Proof. destruct rp; reflexivity. Qed.

Lemma prim_of_schema_prim p : prim_of_schema (prim_type p) (prim_converted p) = Some p.
Proof. destruct p; reflexivity. Qed.

Lemma last_snoc {A} (l : list A) x d : last (l ++ [x]) d = x.
Proof. apply last_last. Qed.

Lemma nth_snoc_last {A} (l : list A) x d : nth (length (l ++ [x]) - 1) (l ++ [x]) d = x.
Proof.
  rewrite app_length. cbn [length]. replace (length l + 1 - 1)%nat with (length l) by lia.
  rewrite app_nth2 by lia. rewrite Nat.sub_diag. reflexivity.
Qed.

Lemma nth_snoc_last' {A B} (l : list A) (r : list B) x y d :
  length l = length r -> nth (length (l ++ [x]) - 1) (r ++ [y]) d = y.
Proof.
  intros Hl. rewrite app_length, Hl. cbn [length].
  replace (length r + 1 - 1)%nat with (length r) by lia.
  rewrite app_nth2 by lia. rewrite Nat.sub_diag. reflexivity.
Qed.

Definition inv_field (paths : list (list bytes)) (pth : list bytes) (rs : list rept) (f : field) : Prop :=
  forall rel,
    count_children (pth ++ fname f :: rel) paths [] =
    count_children (pth ++ fname f :: rel)
      (map c_path (columns_ty (pth ++ [fname f]) (rs ++ [frep f]) (fty f))) [].

Definition parse_stmt (kids : list field) : Prop :=
  forall paths pth rs,
    length pth = length rs ->
    Forall (fun f : field => ty_okb (snd f) = true) kids ->
    Forall (fun f : field => names_okb (snd f) = true) kids ->
    Forall (inv_field paths pth rs) kids ->
    forall fuel rest,
      (length (elems_fields paths pth rs kids) < fuel)%nat ->
      parse_fields fuel (length kids) (elems_fields paths pth rs kids ++ rest) = inr (kids, rest).

Definition parse_stmt_ty (t : ty) : Prop :=
  match t with TLeaf _ => True | TGroup kids => parse_stmt kids end.

Lemma parse_fields_S f n e rest :
  parse_fields (S f) (S n) (e :: rest) =
  match rept_of_code (se_repetition e) with
  | None => inl ESchemaTree
  | Some rp =>
      match se_type e with
      | Some t =>
          match se_num_children e with
          | Some c => if Z.eqb c 0 then
                        match prim_of_schema t (se_converted e) with
                        | Some p => match parse_fields f n rest with
                                    | inr (fs, rest') => inr ((se_name e, rp, TLeaf p) :: fs, rest')
                                    | inl er => inl er end
                        | None => inl ESchemaLeaf end
                      else inl ESchemaLeaf
          | None =>
              match prim_of_schema t (se_converted e) with
              | Some p => match parse_fields f n rest with
                          | inr (fs, rest') => inr ((se_name e, rp, TLeaf p) :: fs, rest')
                          | inl er => inl er end
              | None => inl ESchemaLeaf end
          end
      | None =>
          match se_num_children e with
          | Some c =>
              if (0 <? c)%Z then
                match parse_fields f (Z.to_nat c) rest with
                | inr (kids, rest') =>
                    match parse_fields f n rest' with
                    | inr (fs, rest'') => inr ((se_name e, rp, TGroup kids) :: fs, rest'')
                    | inl er => inl er end
                | inl er => inl er end
              else inl ESchemaGroup
          | None => inl ESchemaGroup
          end
      end
  end.
Proof. reflexivity. Qed.

Lemma parse_elems_ty t : parse_stmt_ty t.
Proof.
  induction t as [p|fs IH] using ty_ind'; [exact I|].
  cbn [parse_stmt_ty]. unfold parse_stmt.
  induction IH as [|[[n rp] t'] fs Ht' Hfs IHfs];
    intros paths pth rs Hlen Hok Hnm Hinv fuel rest Hfuel.
  - destruct fuel as [|f]; [lia|]. reflexivity.
  - pose proof (Forall_inv Hok) as Hok1. pose proof (Forall_inv_tail Hok) as Hok'.
    pose proof (Forall_inv Hnm) as Hnm1. pose proof (Forall_inv_tail Hnm) as Hnm'.
    pose proof (Forall_inv Hinv) as Hinv1. pose proof (Forall_inv_tail Hinv) as Hinv'.
    cbn [snd] in Ht', Hok1, Hnm1.
    rewrite elems_fields_cons in *. rewrite app_length in Hfuel. cbn [length].
    destruct fuel as [|f]; [lia|].
    destruct t' as [p|kids].
    + rewrite elems_ty_leaf in *. cbn [app length] in *.
      rewrite parse_fields_S. unfold leaf_element.
      cbn [se_repetition se_type se_num_children se_converted se_name c_reps c_path c_prim].
      rewrite !last_snoc, rept_of_code_code, prim_of_schema_prim.
      rewrite (IHfs paths pth rs Hlen Hok' Hnm' Hinv' f rest) by lia. reflexivity.
    + rewrite elems_ty_group in *. cbn [app length] in *.
      rewrite parse_fields_S. unfold gelem.
      cbn [se_repetition se_type se_num_children se_converted se_name].
      rewrite (nth_snoc_last' pth rs n rp Req Hlen), rept_of_code_code, nth_snoc_last.
      replace (S (length (pth ++ [n]) - 1)) with (length (pth ++ [n]))
        by (rewrite app_length; cbn [length]; lia).
      rewrite firstn_all.
      apply ty_okb_group in Hok1. destruct Hok1 as [Hkne Hkok].
      apply names_okb_group in Hnm1. destruct Hnm1 as [Hknd Hknm].
      assert (Hcount : count_children (pth ++ [n]) paths [] = N.of_nat (length kids)).
      { pose proof (Hinv1 []) as H0. cbn [fname frep fty fst snd] in H0. rewrite H0.
        apply count_children_top; [exact Hkok|exact Hknd|]. intros n' _ []. }
      rewrite Hcount.
      assert (Hpos : (0 <? Z.of_N (N.of_nat (length kids)))%Z = true).
      { destruct kids; [congruence|]. cbn [length]. lia. }
      rewrite Hpos. replace (Z.to_nat (Z.of_N (N.of_nat (length kids)))) with (length kids) by lia.
      rewrite <- app_assoc.
      cbn [parse_stmt_ty] in Ht'.
      rewrite (Ht' paths (pth ++ [n]) (rs ++ [rp])); try assumption.
      * rewrite (IHfs paths pth rs Hlen Hok' Hnm' Hinv' f rest) by lia. reflexivity.
      * rewrite !app_length, Hlen. reflexivity.
      * apply Forall_forall. intros [[n2 rp2] t2] Hin rel. cbn [fname frep fty fst snd].
        rewrite <- (app_cons_snoc pth n (n2 :: rel)).
        pose proof (Hinv1 (n2 :: rel)) as H1. cbn [fname frep fty fst snd] in H1. rewrite H1.
        rewrite (app_cons_snoc pth n (n2 :: rel)).
        apply count_children_descend; assumption.
      * lia.
Qed.

(** ** The walk of [schema_of] *)

Definition gstep (paths : list (list bytes)) (c : col)
    (st : list schema_element * list (list bytes)) (i : nat) : list schema_element * list (list bytes) :=
  let '(out, seen) := st in
  let pre := firstn (S i) (c_path c) in
  if existsb (path_eqb pre) seen then (out, seen)
  else (out ++ [gelem paths (c_path c) (c_reps c) i], pre :: seen).

Lemma fold_left_ext' {A B} (f g : A -> B -> A) (l : list B) :
  (forall a x, f a x = g a x) -> forall a, fold_left f l a = fold_left g l a.
Proof.
  intros H. induction l as [|x l IH]; intros a; [reflexivity|]. cbn [fold_left]. rewrite H. apply IH.
Qed.

Lemma group_elements_eq paths c seen :
  group_elements paths c seen =
  fold_left (gstep paths c) (seq 0 (length (c_path c) - 1)) ([], seen).
Proof.
  unfold group_elements. apply fold_left_ext'. intros [out sn] i. reflexivity.
Qed.

Lemma gfold_seen paths c is : forall out seen,
  (forall i, In i is -> In (firstn (S i) (c_path c)) seen) ->
  fold_left (gstep paths c) is (out, seen) = (out, seen).
Proof.
  induction is as [|i is IH]; intros out seen H; [reflexivity|].
  cbn [fold_left gstep]. rewrite (proj2 (existsb_path_in _ seen) (H i (or_introl eq_refl))).
  apply IH. intros j Hj. apply H. right. exact Hj.
Qed.

Lemma gfold_unseen paths c m : forall k out seen,
  (k + m <= length (c_path c))%nat ->
  (forall i, (k <= i < k + m)%nat -> ~ In (firstn (S i) (c_path c)) seen) ->
  fold_left (gstep paths c) (seq k m) (out, seen) =
  (out ++ map (gelem paths (c_path c) (c_reps c)) (seq k m),
   rev (map (fun i => firstn (S i) (c_path c)) (seq k m)) ++ seen).
Proof.
  induction m as [|m IH]; intros k out seen Hlen Hun.
  - cbn [seq map fold_left rev app]. rewrite app_nil_r. reflexivity.
  - cbn [seq fold_left gstep]. rewrite (existsb_path_notin _ seen (Hun k ltac:(lia))).
    rewrite IH.
    + cbn [map rev]. rewrite <- !app_assoc. reflexivity.
    + lia.
    + intros i Hi [He|Hin].
      * apply (f_equal (@length _)) in He. rewrite !firstn_length in He. lia.
      * apply (Hun i); [lia|exact Hin].
Qed.

Definition anc_elems (paths : list (list bytes)) (path : list bytes) (reps : list rept) (k m : nat) :=
  map (gelem paths path reps) (seq k m).
Definition anc_paths (path : list bytes) (k m : nat) : list (list bytes) :=
  map (fun i => firstn (S i) path) (seq k m).

Lemma group_elements_spec paths c k seen :
  (k <= length (c_path c) - 1)%nat ->
  (forall i, (i < k)%nat -> In (firstn (S i) (c_path c)) seen) ->
  (forall i, (k <= i < length (c_path c) - 1)%nat -> ~ In (firstn (S i) (c_path c)) seen) ->
  group_elements paths c seen =
  (anc_elems paths (c_path c) (c_reps c) k (length (c_path c) - 1 - k),
   rev (anc_paths (c_path c) k (length (c_path c) - 1 - k)) ++ seen).
Proof.
  intros Hk Hseen Hun. rewrite group_elements_eq.
  replace (length (c_path c) - 1)%nat with (k + (length (c_path c) - 1 - k))%nat at 1 by lia.
  rewrite seq_app, fold_left_app, gfold_seen.
  - cbn [Nat.add]. rewrite gfold_unseen; [reflexivity|lia|].
    intros i Hi. apply Hun. lia.
  - intros i Hi. apply in_seq in Hi. apply Hseen. lia.
Qed.

Definition step (paths : list (list bytes)) (st : list schema_element * list (list bytes)) (c : col)
  : list schema_element * list (list bytes) :=
  let '(out, seen) := st in
  let '(gs, seen') := group_elements paths c seen in
  (out ++ gs ++ [leaf_element c], seen').

Definition emit (paths : list (list bytes)) (cols : list col) (seen : list (list bytes)) :=
  fold_left (step paths) cols ([], seen).

Definition root_elem (paths : list (list bytes)) : schema_element :=
  {| se_type := None; se_type_length := None; se_repetition := None; se_name := root_name;
     se_num_children := Some (Z.of_N (count_children [] paths []));
     se_converted := None; se_scale := None; se_precision := None; se_field_id := None |}.

Lemma schema_of_eq cols :
  schema_of cols = root_elem (map c_path cols) :: fst (emit (map c_path cols) cols []).
Proof.
  unfold schema_of, emit, root_elem. cbv zeta. do 2 f_equal.
  apply fold_left_ext'. intros [out sn] c. reflexivity.
Qed.

Lemma fold_step_out paths cols : forall out seen,
  fold_left (step paths) cols (out, seen) =
  (out ++ fst (emit paths cols seen), snd (emit paths cols seen)).
Proof.
  unfold emit. induction cols as [|c cols IH]; intros out seen.
  - cbn [fold_left fst snd]. rewrite app_nil_r. reflexivity.
  - cbn [fold_left step]. destruct (group_elements paths c seen) as [gs seen'].
    rewrite IH. rewrite (IH ([] ++ gs ++ [leaf_element c])). cbn [fst snd app].
    rewrite <- !app_assoc. reflexivity.
Qed.

Lemma emit_app paths a b seen :
  emit paths (a ++ b) seen =
  (fst (emit paths a seen) ++ fst (emit paths b (snd (emit paths a seen))),
   snd (emit paths b (snd (emit paths a seen)))).
Proof.
  unfold emit at 1. rewrite fold_left_app. fold (emit paths a seen).
  destruct (emit paths a seen) as [out1 seen1]. cbn [fst snd]. apply fold_step_out.
Qed.

Lemma emit_single paths c seen :
  emit paths [c] seen =
  (fst (group_elements paths c seen) ++ [leaf_element c], snd (group_elements paths c seen)).
Proof.
  unfold emit. cbn [fold_left step]. destruct (group_elements paths c seen) as [gs seen'].
  reflexivity.
Qed.

(** prefixes *)
Lemma firstn_snoc_le {A} (l : list A) x k : (k <= length l)%nat -> firstn k (l ++ [x]) = firstn k l.
Proof. intros H. rewrite firstn_app. replace (k - length l)%nat with 0%nat by lia. cbn [firstn]. apply app_nil_r. Qed.

Lemma gelem_snoc paths pth rs n rp i :
  length pth = length rs -> (i < length pth)%nat ->
  gelem paths (pth ++ [n]) (rs ++ [rp]) i = gelem paths pth rs i.
Proof.
  intros Hl Hi. unfold gelem. rewrite !app_nth1 by lia. rewrite firstn_snoc_le by lia. reflexivity.
Qed.

Lemma anc_elems_snoc paths pth rs n rp k m :
  length pth = length rs -> (k + m <= length pth)%nat ->
  anc_elems paths (pth ++ [n]) (rs ++ [rp]) k m = anc_elems paths pth rs k m.
Proof.
  intros Hl Hk. unfold anc_elems. apply map_ext_in. intros i Hi. apply in_seq in Hi.
  apply gelem_snoc; [exact Hl|lia].
Qed.

Definition emit_ty_stmt (paths : list (list bytes)) (t : ty) : Prop :=
  forall pth rs k seen,
    length pth = length rs -> ty_okb t = true -> names_okb t = true ->
    (k < length pth)%nat ->
    (forall i, (i < k)%nat -> In (firstn (S i) pth) seen) ->
    (forall q, In q seen -> firstn (S k) q <> firstn (S k) pth) ->
    exists new,
      emit paths (columns_ty pth rs t) seen =
        (anc_elems paths pth rs k (length pth - 1 - k) ++ elems_ty paths pth rs t, new ++ seen) /\
      (forall i, (i < length pth - 1)%nat -> In (firstn (S i) pth) (new ++ seen)) /\
      (forall q, In q new ->
         (exists i, (k <= i < length pth - 1)%nat /\ q = firstn (S i) pth) \/
         firstn (length pth) q = pth).

Definition emit_fields_stmt (paths : list (list bytes)) (fs : list field) : Prop :=
  forall par prs k seen,
    length par = length prs ->
    Forall (fun f : field => ty_okb (snd f) = true) fs ->
    Forall (fun f : field => names_okb (snd f) = true) fs ->
    NoDup (map fname fs) ->
    (k <= length par)%nat -> (fs <> [] \/ k = length par) ->
    (forall i, (i < k)%nat -> In (firstn (S i) par) seen) ->
    (forall q n, In q seen -> In n (map fname fs) -> firstn (S (length par)) q <> par ++ [n]) ->
    ((k < length par)%nat -> forall q, In q seen -> firstn (S k) q <> firstn (S k) par) ->
    exists new,
      emit paths (columns_ty par prs (TGroup fs)) seen =
        (anc_elems paths par prs k (length par - k) ++ elems_fields paths par prs fs, new ++ seen) /\
      (fs <> [] -> forall i, (i < length par)%nat -> In (firstn (S i) par) (new ++ seen)) /\
      (forall q, In q new ->
         (exists i, (k <= i < length par)%nat /\ q = firstn (S i) par) \/
         (exists n, In n (map fname fs) /\ firstn (S (length par)) q = par ++ [n])).

Lemma firstn_firstn_le {A} (l : list A) i j : (i <= j)%nat -> firstn i (firstn j l) = firstn i l.
Proof. intros H. rewrite firstn_firstn. f_equal. lia. Qed.

Lemma emit_fields_of paths fs :
  Forall (fun f : field => emit_ty_stmt paths (snd f)) fs -> emit_fields_stmt paths fs.
Proof.
  induction 1 as [|[[n rp] t'] fs Ht' Hfs IH];
    intros par prs k seen Hlen Hok Hnm Hnd Hk Hne Hseen Hkids Hunder.
  - destruct Hne as [Hne|Hne]; [congruence|]. subst k.
    exists []. rewrite columns_ty_nil, Nat.sub_diag. cbn [app].
    split; [reflexivity|]. split; [congruence|]. intros q [].
  - cbn [snd] in Ht'.
    pose proof (Forall_inv Hok) as Hok1. pose proof (Forall_inv_tail Hok) as Hok'.
    pose proof (Forall_inv Hnm) as Hnm1. pose proof (Forall_inv_tail Hnm) as Hnm'.
    cbn [snd] in Hok1, Hnm1. cbn [map fname fst] in Hnd, Hkids.
    apply NoDup_cons_iff in Hnd. destruct Hnd as [Hn Hnd'].
    assert (Hlen' : length (par ++ [n]) = length (prs ++ [rp])).
    { rewrite !app_length, Hlen. reflexivity. }
    assert (Hplen : length (par ++ [n]) = S (length par)).
    { rewrite app_length. cbn [length]. lia. }
    destruct (Ht' (par ++ [n]) (prs ++ [rp]) k seen Hlen' Hok1 Hnm1) as (new1 & He1 & Hanc1 & Hnew1).
    + lia.
    + intros i Hi. rewrite firstn_snoc_le by lia. apply Hseen. exact Hi.
    + intros q Hq. destruct (Nat.eq_dec k (length par)) as [->|Hkne].
      * rewrite <- Hplen at 2. rewrite firstn_all. apply (Hkids q n Hq). left. reflexivity.
      * rewrite firstn_snoc_le by lia. apply Hunder; [lia|exact Hq].
    + rewrite Hplen in *.
      replace (S (length par) - 1 - k)%nat with (length par - k)%nat in He1 by lia.
      replace (S (length par) - 1)%nat with (length par) in Hanc1, Hnew1 by lia.
      rewrite anc_elems_snoc in He1 by (assumption || lia).
      destruct (IH par prs (length par) (new1 ++ seen) Hlen Hok' Hnm' Hnd' (le_n _)
                  (or_intror eq_refl)) as (new2 & He2 & _ & Hnew2).
      * intros i Hi. rewrite <- (firstn_snoc_le par n) by lia. apply Hanc1. exact Hi.
      * intros q n' Hq Hn'. apply in_app_or in Hq. destruct Hq as [Hq|Hq].
        -- destruct (Hnew1 q Hq) as [(i & Hi & ->)|Hq1].
           ++ intros He. apply (f_equal (@length _)) in He.
              rewrite firstn_firstn, firstn_length, !app_length in He. cbn [length] in He. lia.
           ++ rewrite Hq1. intros He. apply app_inv_head in He. injection He as He. subst n'.
              contradiction.
        -- apply Hkids; [exact Hq|right; exact Hn'].
      * lia.
      * rewrite Nat.sub_diag in He2. cbn [anc_elems seq map app] in He2.
        exists (new2 ++ new1). rewrite columns_ty_cons, emit_app, He1. cbn [fst snd].
        rewrite He2. cbn [fst snd]. rewrite elems_fields_cons, <- !app_assoc.
        split; [reflexivity|]. split.
        -- intros _ i Hi. apply in_or_app. right.
           rewrite <- (firstn_snoc_le par n) by lia. apply Hanc1. exact Hi.
        -- intros q Hq. apply in_app_or in Hq. destruct Hq as [Hq|Hq].
           ++ destruct (Hnew2 q Hq) as [(i & Hi & _)|(n' & Hn' & Hq')]; [lia|].
              right. exists n'. split; [right; exact Hn'|exact Hq'].
           ++ destruct (Hnew1 q Hq) as [(i & Hi & ->)|Hq1].
              ** left. exists i. split; [exact Hi|]. apply firstn_snoc_le. lia.
              ** right. exists n. split; [left; reflexivity|exact Hq1].
Qed.

Lemma emit_ty_all paths t : emit_ty_stmt paths t.
Proof.
  induction t as [p|fs IH] using ty_ind'; intros pth rs k seen Hlen Hok Hnm Hk Hseen Hunder.
  - rewrite columns_ty_leaf, emit_single.
    set (c := {| c_path := pth; c_reps := rs; c_prim := p |}).
    rewrite (group_elements_spec paths c k seen); cbn [c c_path c_reps].
    + exists (rev (anc_paths pth k (length pth - 1 - k))). cbn [fst snd].
      split; [reflexivity|]. split.
      * intros i Hi. destruct (Nat.lt_ge_cases i k) as [Hlt|Hge].
        -- apply in_or_app. right. apply Hseen. exact Hlt.
        -- apply in_or_app. left. apply in_rev. rewrite rev_involutive. unfold anc_paths.
           apply in_map_iff. exists i. split; [reflexivity|]. apply in_seq. lia.
      * intros q Hq. left. apply in_rev in Hq. unfold anc_paths in Hq. apply in_map_iff in Hq.
        destruct Hq as (i & <- & Hi). apply in_seq in Hi. exists i. split; [lia|reflexivity].
    + lia.
    + exact Hseen.
    + intros i Hi Hin. apply (Hunder _ Hin). apply firstn_firstn_le. lia.
  - apply ty_okb_group in Hok. destruct Hok as [Hne Hok].
    apply names_okb_group in Hnm. destruct Hnm as [Hnd Hnm].
    destruct (emit_fields_of paths fs IH pth rs k seen Hlen Hok Hnm Hnd) as (new & He & Hanc & Hnew).
    + lia.
    + left. exact Hne.
    + exact Hseen.
    + intros q n Hq _ He. apply (Hunder q Hq).
      rewrite <- (firstn_firstn_le q (S k) (S (length pth))) by lia. rewrite He.
      apply firstn_snoc_le. lia.
    + intros _. exact Hunder.
    + exists new. split; [|split].
      * rewrite He, elems_ty_group. f_equal.
        replace (length pth - k)%nat with (S (length pth - 1 - k)) by lia.
        unfold anc_elems. rewrite seq_S, map_app, <- app_assoc. cbn [map app].
        replace (k + (length pth - 1 - k))%nat with (length pth - 1)%nat by lia. reflexivity.
      * intros i Hi. apply (Hanc Hne). lia.
      * intros q Hq. destruct (Hnew q Hq) as [(i & Hi & ->)|(n & _ & Hq')].
        -- destruct (Nat.eq_dec i (length pth - 1)) as [->|Hi'].
           ++ right. replace (S (length pth - 1)) with (length pth) by lia.
              rewrite firstn_all. apply firstn_all.
           ++ left. exists i. split; [lia|reflexivity].
        -- right. rewrite <- (firstn_firstn_le q (length pth) (S (length pth))) by lia.
           rewrite Hq'. apply firstn_app_exact.
Qed.

(** ** The footer schema of a shape *)

Theorem schema_of_columns fs :
  ty_okb (TGroup fs) = true -> names_okb (TGroup fs) = true ->
  schema_of (columns fs) =
  root_elem (map c_path (columns fs)) :: elems_fields (map c_path (columns fs)) [] [] fs.
Proof.
  intros Hok Hnm. rewrite schema_of_eq. f_equal.
  apply ty_okb_group in Hok. destruct Hok as [Hne Hok].
  apply names_okb_group in Hnm. destruct Hnm as [Hnd Hnm].
  set (paths := map c_path (columns fs)).
  assert (HIH : Forall (fun f : field => emit_ty_stmt paths (snd f)) fs).
  { apply Forall_forall. intros f _. apply emit_ty_all. }
  destruct (emit_fields_of paths fs HIH [] [] 0%nat [] eq_refl Hok Hnm Hnd (le_n _) (or_introl Hne))
    as (new & He & _ & _).
  - intros i Hi. lia.
  - intros q n [].
  - cbn [length]. lia.
  - unfold columns. rewrite He. reflexivity.
Qed.

Theorem parse_schema_of fs :
  ty_okb (TGroup fs) = true -> names_okb (TGroup fs) = true ->
  parse_schema (schema_of (columns fs)) = inr fs.
Proof.
  intros Hok Hnm. rewrite (schema_of_columns fs Hok Hnm).
  apply ty_okb_group in Hok. destruct Hok as [Hne Hok].
  apply names_okb_group in Hnm. destruct Hnm as [Hnd Hnm].
  set (paths := map c_path (columns fs)).
  unfold parse_schema, root_elem. cbn [se_type se_num_children].
  assert (Hroot : count_children [] paths [] = N.of_nat (length fs)).
  { unfold paths, columns. apply (count_children_top [] []); [exact Hok|exact Hnd|]. intros n _ []. }
  rewrite Hroot.
  assert (Hpos : (0 <? Z.of_N (N.of_nat (length fs)))%Z = true).
  { destruct fs; [congruence|]. cbn [length]. lia. }
  rewrite Hpos. replace (Z.to_nat (Z.of_N (N.of_nat (length fs)))) with (length fs) by lia.
  pose proof (parse_elems_ty (TGroup fs)) as HP. cbn [parse_stmt_ty] in HP.
  rewrite <- (app_nil_r (elems_fields paths [] [] fs)) at 2.
  rewrite (HP paths [] [] eq_refl Hok Hnm).
  - reflexivity.
  - apply Forall_forall. intros [[n rp] t'] Hin rel. cbn [fname frep fty fst snd app].
    unfold paths, columns.
    apply (count_children_descend [] [] n rel rp t' fs Hnd Hin).
  - cbn [length]. lia.
Qed.

(** the condition is needed: two siblings with the same name *)
Example parse_schema_dup_refuted :
  let fs := [ ([1], Opt, TLeaf PInt64); ([1], Req, TLeaf PString) ] in
  ty_okb (TGroup fs) = true /\ parse_schema (schema_of (columns fs)) = inl ESchemaLeftover.
Proof. vm_compute. split; reflexivity. Qed.

Example parse_schema_dup_group_wrong :
  let fs := [ ([1], Opt, TGroup [ ([9], Rep, TLeaf PInt64) ]); ([2], Req, TLeaf PString);
              ([1], Req, TGroup [ ([8], Opt, TLeaf PString) ]) ] in
  parse_schema (schema_of (columns fs)) =
  inr [ ([1], Opt, TGroup [ ([9], Rep, TLeaf PInt64); ([2], Req, TLeaf PString) ]);
        ([8], Opt, TLeaf PString) ].
Proof. vm_compute. reflexivity. Qed.

(** same-named groups under different parents are fine *)
Example parse_schema_same_name_ok :
  let fs := [ ([1], Opt, TGroup [ ([9], Rep, TLeaf PInt64); ([1], Req, TGroup [ ([9], Opt, TLeaf PString) ]) ]);
              ([2], Rep, TGroup [ ([9], Rep, TLeaf PBool); ([1], Req, TGroup [ ([9], Opt, TLeaf PUint32) ]) ]) ] in
  names_okb (TGroup fs) = true /\ parse_schema (schema_of (columns fs)) = inr fs.
Proof. vm_compute. split; reflexivity. Qed.

Print Assumptions schema_of_columns.
Print Assumptions parse_schema_of.
