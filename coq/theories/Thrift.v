(** * Thrift: the thrift *compact protocol* as github.com/apache/thrift v0.18.1
    (lib/go/thrift/compact_protocol.go) writes it, on a generic value tree,
    plus a generic self-describing decoder.  Definitions only; proofs in
    ThriftProofs.v.

    What is modelled is the byte stream only (no TSerializer buffering):
    - field header  [writeFieldBeginInternal]: one byte [delta<<4 | type] when
      [0 < id - lastid <= 15], else the type byte followed by the field id as
      a zig-zag varint (WriteI16); [lastFieldId] is per struct (the library
      keeps a stack: WriteStructBegin pushes and resets to 0, WriteStructEnd
      pops);
    - a bool that is a struct field has no body: its value is the type nibble
      of the field header (1 = true, 2 = false); a bool inside a list is one
      byte (1 / 2) and the list element type nibble is 1
      ([ttypeToCompactType[BOOL] = COMPACT_BOOLEAN_TRUE]);
    - i16/i32/i64 are zig-zag varints, i8 one byte, double 8 bytes little
      endian, binary/string a varint length followed by the bytes;
    - list header [writeCollectionBegin]: [size<<4 | elemtype] when
      [size <= 14], else [0xF0 | elemtype] followed by the varint size;
    - a struct ends with the stop byte 0. *)
From Coq Require Import List NArith ZArith Lia Bool.
From PQ Require Import Bytes Varint.
Import ListNotations.
Local Open Scope N_scope.

Inductive tval :=
| TBool (b : bool)
| TI8 (z : Z)
| TI16 (z : Z)
| TI32 (z : Z)
| TI64 (z : Z)
| TDouble (bits : N)
| TBin (bs : bytes)
| TList (elt : N) (vs : list tval)        (* [elt]: element type nibble on the wire *)
| TStruct (fs : list (N * tval)).          (* (field id, value) in wire order *)

(** compact type codes *)
Definition CT_BOOLEAN_TRUE : N := 1.
Definition CT_BOOLEAN_FALSE : N := 2.
Definition CT_BYTE : N := 3.
Definition CT_I16 : N := 4.
Definition CT_I32 : N := 5.
Definition CT_I64 : N := 6.
Definition CT_DOUBLE : N := 7.
Definition CT_BINARY : N := 8.
Definition CT_LIST : N := 9.
Definition CT_SET : N := 10.
Definition CT_MAP : N := 11.
Definition CT_STRUCT : N := 12.

(** type nibble of a field header *)
Definition ctype (v : tval) : N :=
  match v with
  | TBool true => 1
  | TBool false => 2
  | TI8 _ => 3
  | TI16 _ => 4
  | TI32 _ => 5
  | TI64 _ => 6
  | TDouble _ => 7
  | TBin _ => 8
  | TList _ _ => 9
  | TStruct _ => 12
  end.

(** element type nibble of a list header as the library writes it: as
    [ctype], except that bool is always 1. *)
Definition ltype (v : tval) : N :=
  match v with TBool _ => 1 | _ => ctype v end.

(** ** Encoder *)

(** [writeFieldBeginInternal] *)
Definition fhdr (last id ty : N) : bytes :=
  if (last <? id) && (id - last <=? 15) then [(id - last) * 16 + ty]
  else ty :: uleb_enc (zigzag (Z.of_N id)).

(** [writeCollectionBegin] *)
Definition lhdr (elt n : N) : bytes :=
  if n <=? 14 then [n * 16 + elt] else (240 + elt) :: uleb_enc n.

(** [tenc_val v]: a value outside a field header (list element, or the body
    of a non-bool field).  Lists and structs recurse through nested [fix]es
    ([flat_map] for the elements; an explicit one carrying the last field id
    for the fields). *)
Fixpoint tenc_val (v : tval) : bytes :=
  match v with
  | TBool b => [if b then 1 else 2]
  | TI8 z => [wrapN 8 z]
  | TI16 z => uleb_enc (zigzag z)
  | TI32 z => uleb_enc (zigzag z)
  | TI64 z => uleb_enc (zigzag z)
  | TDouble bits => le_enc 8 bits
  | TBin bs => uleb_enc (nlen bs) ++ bs
  | TList elt vs => lhdr elt (nlen vs) ++ flat_map tenc_val vs
  | TStruct fs =>
      (fix go (last : N) (l : list (N * tval)) {struct l} : bytes :=
         match l with
         | [] => [0]
         | (id, x) :: r =>
             fhdr last id (ctype x)
             ++ (match x with TBool _ => [] | _ => tenc_val x end)
             ++ go id r
         end) 0 fs
  end.

(** body of a field: nothing for a bool (folded into the header) *)
Definition tenc_fval (x : tval) : bytes :=
  match x with TBool _ => [] | _ => tenc_val x end.

(** the fields of a struct after a field with id [last], then the stop byte *)
Fixpoint tenc_fields (last : N) (fs : list (N * tval)) : bytes :=
  match fs with
  | [] => [0]
  | (id, x) :: r => fhdr last id (ctype x) ++ tenc_fval x ++ tenc_fields id r
  end.

Definition tenc_elems (vs : list tval) : bytes := flat_map tenc_val vs.

Definition tenc_struct (fs : list (N * tval)) : bytes := tenc_fields 0 fs.

(** ** Decoder (generic, self-describing) *)

Definition i16_lim : N := 65536.
Definition i32_lim : N := 4294967296.
Definition i64_lim : N := 18446744073709551616.
Definition len_lim : N := 2147483648.       (* sizes are non-negative int32 *)
Definition max_field_id : N := 32767.

(** zig-zag varint whose unsigned value is below [lim] *)
Definition dec_zz (lim : N) (bs : bytes) : option (Z * bytes) :=
  match uleb_dec bs with
  | Some (n, r) => if n <? lim then Some (unzigzag n, r) else None
  | None => None
  end.

(** take [n] bytes *)
Definition take_bytes (n : N) (bs : bytes) : option (bytes * bytes) :=
  if n <=? nlen bs then Some (firstn (N.to_nat n) bs, skipn (N.to_nat n) bs) else None.

(** One value of compact type [ty]; [dfields last bs] and [delems elt n bs]
    are the decoders for a struct body and for [n] list elements (the two
    recursive functions below, at a smaller fuel). *)
Definition tdec_val_gen
    (dfields : N -> bytes -> option (list (N * tval) * bytes))
    (delems : N -> N -> bytes -> option (list tval * bytes))
    (ty : N) (bs : bytes) : option (tval * bytes) :=
  match ty with
  | 1 | 2 =>                            (* ReadBool outside a field: v == 1 *)
      match bs with b :: r => Some (TBool (b =? 1), r) | [] => None end
  | 3 => match bs with b :: r => Some (TI8 (signZ 8 b), r) | [] => None end
  | 4 => match dec_zz i16_lim bs with Some (z, r) => Some (TI16 z, r) | None => None end
  | 5 => match dec_zz i32_lim bs with Some (z, r) => Some (TI32 z, r) | None => None end
  | 6 => match dec_zz i64_lim bs with Some (z, r) => Some (TI64 z, r) | None => None end
  | 7 => match take_le 8 bs with Some (bits, r) => Some (TDouble bits, r) | None => None end
  | 8 =>
      match uleb_dec bs with
      | Some (n, r) =>
          if n <? len_lim then
            match take_bytes n r with Some (s, r') => Some (TBin s, r') | None => None end
          else None
      | None => None
      end
  | 9 | 10 =>                           (* list, set *)
      match bs with
      | h :: r =>
          let elt := h mod 16 in
          let sz := h / 16 in
          match (if sz =? 15 then uleb_dec r else Some (sz, r)) with
          | Some (n, r') =>
              if n <? len_lim then
                match delems elt n r' with
                | Some (vs, r'') => Some (TList elt vs, r'')
                | None => None
                end
              else None
          | None => None
          end
      | [] => None
      end
  | 12 =>
      match dfields 0 bs with
      | Some (fs, r) => Some (TStruct fs, r)
      | None => None
      end
  | _ => None                            (* 0, map, uuid, 14, 15 *)
  end.

(** field id of a header byte [h] (type nibble non zero) after field [last] *)
Definition dec_field_id (last h : N) (bs : bytes) : option (N * bytes) :=
  if h / 16 =? 0 then
    match dec_zz i16_lim bs with
    | Some (z, r) =>
        if ((0 <=? z) && (z <=? Z.of_N max_field_id))%Z then Some (Z.to_N z, r) else None
    | None => None
    end
  else
    let id := last + h / 16 in
    if id <=? max_field_id then Some (id, bs) else None.

Fixpoint tdec_fields (fuel : nat) (last : N) (bs : bytes) {struct fuel}
  : option (list (N * tval) * bytes) :=
  match fuel with
  | O => None
  | S f =>
      match bs with
      | [] => None
      | h :: r =>
          let ty := h mod 16 in
          if ty =? 0 then Some ([], r)
          else
            match dec_field_id last h r with
            | None => None
            | Some (id, r1) =>
                match (if (ty =? 1) || (ty =? 2) then Some (TBool (ty =? 1), r1)
                       else tdec_val_gen (tdec_fields f) (tdec_elems f) ty r1) with
                | None => None
                | Some (v, r2) =>
                    match tdec_fields f id r2 with
                    | None => None
                    | Some (fs, r3) => Some ((id, v) :: fs, r3)
                    end
                end
            end
      end
  end
with tdec_elems (fuel : nat) (elt : N) (n : N) (bs : bytes) {struct fuel}
  : option (list tval * bytes) :=
  match fuel with
  | O => None
  | S f =>
      if n =? 0 then Some ([], bs)
      else
        match tdec_val_gen (tdec_fields f) (tdec_elems f) elt bs with
        | None => None
        | Some (v, r1) =>
            match tdec_elems f elt (n - 1) r1 with
            | None => None
            | Some (vs, r2) => Some (v :: vs, r2)
            end
        end
  end.

Definition tdec_struct (fuel : nat) (bs : bytes) : option (list (N * tval) * bytes) :=
  tdec_fields fuel 0 bs.

Definition tdec (bs : bytes) : option (list (N * tval) * bytes) :=
  tdec_struct (S (length bs)) bs.

(** ** Well-formedness (boolean) *)

Definition in_range (lo hi z : Z) : bool := ((lo <=? z) && (z <? hi))%Z.
Definition i8_ok (z : Z) : bool := in_range (-128) 128 z.
Definition i16_ok (z : Z) : bool := in_range (-32768) 32768 z.
Definition i32_ok (z : Z) : bool := in_range (-2147483648) 2147483648 z.
Definition i64_ok (z : Z) : bool := in_range (-9223372036854775808) 9223372036854775808 z.
Definition bin_ok (bs : bytes) : bool := wf_bytesb bs && (nlen bs <? len_lim).

(** [v] may be an element of a list whose header says [elt] (the library
    writes 1 for bools; 2 is accepted as well, as its reader does) *)
Definition elt_matches (elt : N) (v : tval) : bool :=
  match v with
  | TBool _ => (elt =? 1) || (elt =? 2)
  | _ => elt =? ctype v
  end.

Fixpoint wf_tval (v : tval) : bool :=
  match v with
  | TBool _ => true
  | TI8 z => i8_ok z
  | TI16 z => i16_ok z
  | TI32 z => i32_ok z
  | TI64 z => i64_ok z
  | TDouble bits => bits <? i64_lim
  | TBin bs => bin_ok bs
  | TList elt vs =>
      (1 <=? elt) && (elt <=? 12) && (nlen vs <? len_lim)
      && forallb (fun x => elt_matches elt x && wf_tval x) vs
  | TStruct fs =>
      (fix go (last : N) (l : list (N * tval)) {struct l} : bool :=
         match l with
         | [] => true
         | (id, x) :: r => (last <? id) && (id <=? max_field_id) && wf_tval x && go id r
         end) 0 fs
  end.

(** fields after a field with id [last]: ids strictly increasing, at most
    32767, values well formed *)
Fixpoint wf_fields_from (last : N) (fs : list (N * tval)) : bool :=
  match fs with
  | [] => true
  | (id, x) :: r => (last <? id) && (id <=? max_field_id) && wf_tval x && wf_fields_from id r
  end.

Definition wf_fields (fs : list (N * tval)) : bool := wf_fields_from 0 fs.
