(** * Reader: the generated ParquetReader (cmd/parquetgen/gen/template.go:
    NewParquetReader, readRowGroup, Next, Scan), the field templates' Read
    methods, RequiredField/OptionalField.DoRead, pageData, readLevels
    (fields.go) and ReadMetaData/Pages (parquet.go), over the explicit source
    of [Io.v].  The reader never seeks to a chunk offset: after the footer it
    seeks to 4 and reads the chunks sequentially in footer order.

    The per-shape assembly functions that parquetgen synthesises are replaced
    by the reference [Dremel.assemble_records] (checked per shape by C03/C05).
    Definitions only. *)
From Coq Require Import List NArith ZArith Lia Bool.
From PQ Require Import Bytes Schema Dremel Rle Plain MetaTypes Thrift Meta Io.
Import ListNotations.
Local Open Scope N_scope.
Local Open Scope io_scope.

Definition bit_width (n : N) : N := N.of_nat (N.size_nat n).

Section WithCodec.

(** [decompress codec body]: snappy.Decode / gzip reader; None = error. *)
Variable decompress : Z -> bytes -> option bytes.

(** fields.go pageData *)
Definition page_data (codec : Z) (ph : page_header) : M bytes :=
  if Z.eqb codec CODEC_SNAPPY || Z.eqb codec CODEC_GZIP then
    if (ph_compressed_size ph <? 0)%Z then (if Z.eqb codec CODEC_SNAPPY then fail_panic else fail_err)
    else
      body <-- m_read_full (Z.to_nat (ph_compressed_size ph)) ;;
      match decompress codec body with
      | Some d => ret d
      | None => fail_err
      end
  else if Z.eqb codec CODEC_UNCOMPRESSED then
    if (ph_uncompressed_size ph <? 0)%Z then fail_panic
    else m_read_full (Z.to_nat (ph_uncompressed_size ph))
  else fail_err.

(** fields.go supportedPage *)
Definition supported_page (ph : page_header) (defs reps : bool) : option data_page_header :=
  if negb (Z.eqb (ph_type ph) PT_DATA_PAGE) then None
  else match ph_data ph with
       | None => None
       | Some d =>
           if negb (Z.eqb (dph_encoding d) ENC_PLAIN) then None
           else if defs && negb (Z.eqb (dph_def_encoding d) ENC_RLE) then None
           else if reps && negb (Z.eqb (dph_rep_encoding d) ENC_RLE) then None
           else Some d
       end.

(** RequiredField.DoRead: loop while nRead < pg.N *)
Fixpoint do_read_required (fuel : nat) (codec : Z) (pgn nread : Z) (acc : bytes) (sizes : list nat)
  : M (bytes * list nat) :=
  if (nread <? pgn)%Z then
    match fuel with
    | O => fail_err
    | S f =>
        ph <-- m_read_struct dec_page_header ;;
        match supported_page ph false false with
        | None => fail_err
        | Some d =>
            data <-- page_data codec ph ;;
            do_read_required f codec pgn (nread + dph_num_values d)%Z (acc ++ data)
                             (sizes ++ [Z.to_nat (dph_num_values d)])
        end
    end
  else ret (acc, sizes).

(** readLevels on data[l:], then pageLevels(levels, NumValues) *)
Definition read_levels (w : N) (data : bytes) (l : nat) (nv : Z) : result (list N * nat) :=
  if Nat.ltb (length data) l then Panic                 (* data[l:] out of range *)
  else match rle_read w (skipn l data) with
       | Ok (vals, n) =>
           if (nv <? 0)%Z || Nat.ltb (length vals) (Z.to_nat nv) then Err       (* pageLevels: fewer levels than num_values (an error since fix D16) *)
           else Ok (firstn (Z.to_nat nv) vals, n)
       | Err => Err
       | Panic => Panic
       end.

Definition lift {A} (r : result A) : M A :=
  match r with Ok a => ret a | Err => fail_err | Panic => fail_panic end.

Record opt_acc := { oa_reps : list N; oa_defs : list N; oa_out : bytes; oa_sizes : list nat }.

(** OptionalField.DoRead: loop while nRead < pg.Size, counting consumed bytes *)
Fixpoint do_read_optional (fuel : nat) (codec : Z) (maxdef maxrep : N) (size nread : Z) (acc : opt_acc)
  : M opt_acc :=
  if (nread <? size)%Z then
    match fuel with
    | O => fail_err
    | S f =>
        p0 <-- get_pos ;;
        ph <-- m_read_struct dec_page_header ;;
        match supported_page ph true (0 <? maxrep) with
        | None => fail_err
        | Some d =>
            data <-- page_data codec ph ;;
            p1 <-- get_pos ;;
            rl <-- (if 0 <? maxrep then lift (read_levels (bit_width maxrep) data 0 (dph_num_values d))
                   else ret ([], 0%nat)) ;;
            let '(reps, l1) := rl in
            dl <-- lift (read_levels (bit_width maxdef) data l1 (dph_num_values d)) ;;
            let '(defs, l2) := dl in
            let l := (l1 + l2)%nat in
            if Nat.ltb (length data) l then fail_panic          (* data[l:] *)
            else
              let n := length (filter (fun x => x =? maxdef) defs) in
              do_read_optional f codec maxdef maxrep size (nread + Z.of_N (p1 - p0))%Z
                {| oa_reps := oa_reps acc ++ reps; oa_defs := oa_defs acc ++ defs;
                   oa_out := oa_out acc ++ skipn l data; oa_sizes := oa_sizes acc ++ [n] |}
        end
    end
  else ret acc.

(** the typed part of each field template's Read: values out of the
    concatenated page value sections *)
Definition decode_values (p : prim) (n : Z) (out : bytes) (sizes : list nat) : result (list value) :=
  if (n <? 0)%Z then Panic                                 (* make([]T, n) *)
  else match p with
       | PString => read_strings (Z.to_nat n) out
       | PBool => get_bools out sizes
       | _ => match read_fixed (prim_size p) (Z.to_nat n) out with
              | Some vs => Ok vs
              | None => Err
              end
       end.

Fixpoint zip_levels (reps defs : list N) (maxdef : N) (vals : list value) : list entry :=
  match defs with
  | [] => []
  | d :: defs' =>
      let r := match reps with r :: _ => r | [] => 0 end in
      let reps' := match reps with _ :: t => t | [] => [] end in
      if d =? maxdef then
        match vals with
        | v :: vals' => {| e_rep := r; e_def := d; e_val := Some v |} :: zip_levels reps' defs' maxdef vals'
        | [] => {| e_rep := r; e_def := d; e_val := None |} :: zip_levels reps' defs' maxdef []
        end
      else {| e_rep := r; e_def := d; e_val := None |} :: zip_levels reps' defs' maxdef vals
  end.

(** f.Read(r, pg) for one column chunk: the column's entries *)
Definition read_chunk (c : col) (cm : column_meta) : M (list entry) :=
  let codec := cm_codec cm in
  if col_required c then
    x <-- do_read_required (S (Z.to_nat (cm_num_values cm))) codec (cm_num_values cm) 0 [] [] ;;
    let '(out, sizes) := x in
    vals <-- lift (decode_values (c_prim c) (cm_num_values cm) out sizes) ;;
    ret (map (fun v => {| e_rep := 0; e_def := 0; e_val := Some v |}) vals)
  else
    acc <-- do_read_optional (S (Z.to_nat (cm_total_compressed cm))) codec (max_def c) (max_rep c)
                            (cm_total_compressed cm) 0
                            {| oa_reps := []; oa_defs := []; oa_out := []; oa_sizes := [] |} ;;
    let nvals := Z.of_nat (length (filter (fun x => x =? max_def c) (oa_defs acc))) in
    vals <-- lift (decode_values (c_prim c) nvals (oa_out acc) (oa_sizes acc)) ;;
    ret (zip_levels (oa_reps acc) (oa_defs acc) (max_def c) vals).

Definition path_eqb (a b : list bytes) : bool := if list_eq_dec (list_eq_dec N.eq_dec) a b then true else false.

Fixpoint find_col (cols : list col) (pth : list bytes) (i : nat) : option (nat * col) :=
  match cols with
  | [] => None
  | c :: r => if path_eqb (c_path c) pth then Some (i, c) else find_col r pth (S i)
  end.

Fixpoint set_nth {A} (i : nat) (x : A) (l : list A) : list A :=
  match l, i with
  | [], _ => []
  | _ :: r, O => x :: r
  | y :: r, S i' => y :: set_nth i' x r
  end.

(** readRowGroup: the chunks in footer order, each decoded by the reader's own
    field of that name; columns the row group does not list stay empty *)
Fixpoint read_chunks (cols : list col) (ccs : list column_chunk) (acc : list (list entry)) : M (list (list entry)) :=
  match ccs with
  | [] => ret acc
  | cc :: rest =>
      match cc_meta cc with
      | None => fail_panic                                     (* col.MetaData nil dereference *)
      | Some cm =>
          match find_col cols (cm_path cm) 0 with
          | None => fail_err                                   (* unknown field *)
          | Some (i, c) =>
              es <-- read_chunk c cm ;;
              read_chunks cols rest (set_nth i es acc)
          end
      end
  end.

(** the records of one row group, by the reference assembler *)
Definition zero_record : value := VGroup [].

Definition read_row_group (fs : list field) (rg : row_group) : M (list value) :=
  let cols := columns fs in
  ces <-- read_chunks cols (rg_columns rg) (repeat [] (length cols)) ;;
  ret (match assemble_records fs ces with Some rs => rs | None => [] end).

(** ReadMetaData + Pages + Seek(4) *)
Definition open_footer (fs : list field) : M file_meta :=
  m_seek_end (-8) ;;;
  lenb <-- m_read_full 4 ;;
  m_seek_end (- (Z.of_N (le_dec lenb) + 8)) ;;;
  fm <-- m_read_struct dec_file_meta ;;
  (* Metadata.Pages: every column chunk must belong to a column of the reader's struct *)
  if forallb (fun rg => forallb (fun cc => match cc_meta cc with
                                           | Some cm => match find_col (columns fs) (cm_path cm) 0 with Some _ => true | None => false end
                                           | None => true end) (rg_columns rg)) (fm_row_groups fm)
  then (if forallb (fun rg => forallb (fun cc => match cc_meta cc with Some _ => true | None => false end) (rg_columns rg)) (fm_row_groups fm)
        then m_seek_start 4 ;;; ret fm
        else fail_panic)
  else fail_err.

(** ** The whole life of a reader: NewParquetReader, then Next/Scan until Next is false *)

Record outcome := {
  o_open_ok : bool;          (* constructor returned no error *)
  o_rows : Z;                (* Rows() *)
  o_nexts : N;               (* times Next returned true *)
  o_err : bool;              (* Error() non-nil after the loop *)
  o_panic : bool;
  o_recs : list value        (* records scanned, in order *)
}.

Definition mk_outcome (rows : Z) (nexts : N) (err panic : bool) (recs : list value) : outcome :=
  {| o_open_ok := true; o_rows := rows; o_nexts := nexts; o_err := err; o_panic := panic; o_recs := recs |}.

(** the loop of Next (after fix 0d8f069):
      for rowGroupCursor >= rowGroupCount && len(rowGroups) > 0 { err = readRowGroup(); ... }
    load row groups until one has a row to deliver or none is left.  Returns the
    records and row count of the loaded row group (([], 0) when none is left). *)
Fixpoint load_nonempty (fs : list field) (rgs : list row_group) (s : src)
  : result (list value * Z * list row_group * src) :=
  match rgs with
  | [] => Ok ([], 0%Z, [], s)
  | rg :: rest =>
      match read_row_group fs rg s with
      | Ok (rrecs, s') =>
          if (0 <? rg_num_rows rg)%Z then Ok (rrecs, rg_num_rows rg, rest, s')
          else load_nonempty fs rest s'
      | Err => Err
      | Panic => Panic
      end
  end.

(** One iteration = one call of Next (and, when it returns true, Scan):
      if err == nil && cursor >= rows { return false }
      for rowGroupCursor >= rowGroupCount && len(rowGroups) > 0 { err = readRowGroup(); if err != nil { return false } }
      cursor++; rowGroupCursor++; return true
    [cur] holds the records of the loaded row group that have not been scanned
    yet; Scan on exhausted fields leaves the caller's (zero) record untouched. *)
Fixpoint iterate (fuel : nat) (fs : list field) (rows cursor rgcursor rgcount : Z) (cur : list value)
         (rgs : list row_group) (nexts : N) (recs : list value) (s : src) : outcome :=
  match fuel with
  | O => mk_outcome rows nexts true false recs
  | S f =>
      if (rows <=? cursor)%Z then mk_outcome rows nexts false false recs
      else
        let deliver (cur' : list value) (rgcursor' rgcount' : Z) (rgs' : list row_group) (s' : src) :=
          iterate f fs rows (cursor + 1) (rgcursor' + 1) rgcount' (tl cur') rgs' (nexts + 1)
                  (recs ++ [hd zero_record cur']) s' in
        if (rgcount <=? rgcursor)%Z then
          match load_nonempty fs rgs s with
          | Ok (cur', rgcount', rgs', s') => deliver cur' 0%Z rgcount' rgs' s'
          | Err => mk_outcome rows nexts true false recs
          | Panic => mk_outcome rows nexts false true recs
          end
        else deliver cur rgcursor rgcount rgs s
  end.

Definition open_failed (panic : bool) : outcome :=
  {| o_open_ok := false; o_rows := 0; o_nexts := 0; o_err := negb panic; o_panic := panic; o_recs := [] |}.

Definition read_all_src (fs : list field) (s : src) : outcome :=
  match open_footer fs s with
  | Err => open_failed false
  | Panic => open_failed true
  | Ok (fm, s1) =>
      let rows := fm_num_rows fm in
      let fuel := S (Z.to_nat rows) in
      (* NewParquetReader ends with the first readRowGroup *)
      match fm_row_groups fm with
      | [] => iterate fuel fs rows 0 0 0 [] [] 0 [] s1
      | rg :: rest =>
          match read_row_group fs rg s1 with
          | Err => open_failed false
          | Panic => open_failed true
          | Ok (rrecs, s2) => iterate fuel fs rows 0 0 (rg_num_rows rg) rrecs rest 0 [] s2
          end
      end
  end.

Definition read_all (fs : list field) (file : bytes) : outcome := read_all_src fs (mk_src file [] None).

End WithCodec.
