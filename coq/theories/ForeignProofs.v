(** * ForeignProofs: the reader model accepts every file of the independent
    writer [Foreign.foreign_file] that uses no unsupported feature and returns
    exactly its records (property C04), and refuses every file with one
    injected unsupported feature, cleanly, after delivering the row groups
    before it (property C18). *)
From Coq Require Import List NArith ZArith Lia Bool Arith PeanoNat.
From Coq Require Import ZifyN ZifyNat ZifyBool.
From PQ Require Import Bytes Schema Dremel DremelProofs BitpackProofs Rle RleSpec RleSpecProofs RleDecProofs
     Plain PlainProofs Stats StatsProofs MetaTypes Thrift Meta MetaProofs Writer Io Reader
     ReaderProofs ReaderProofs2 Foreign.
Import ListNotations.
Local Open Scope N_scope.

Ltac Zify.zify_post_hook ::= Z.div_mod_to_equations.

(** ** Layer A: cutting a level stream into runs *)

Lemma Forall_firstn_skipn {A} (P : A -> Prop) n l :
  Forall P l -> Forall P (firstn n l) /\ Forall P (skipn n l).
Proof. intros H. rewrite <- (firstn_skipn n l) in H. apply Forall_app in H. exact H. Qed.

Lemma same_prefix_firstn v ls : forall k,
  (k <= same_prefix v ls)%nat -> firstn k ls = repeat v k /\ (k <= length ls)%nat.
Proof.
  induction ls as [|x r IH]; intros k Hk; cbn [same_prefix] in Hk.
  - assert (k = 0%nat) by lia. subst k. split; [reflexivity | lia].
  - destruct (x =? v) eqn:E.
    + destruct k as [|k]; [split; [reflexivity | lia]|].
      destruct (IH k) as [H1 H2]; [lia|]. cbn [firstn repeat length]. rewrite H1.
      split; [f_equal; lia | lia].
    + assert (k = 0%nat) by lia. subst k. split; [reflexivity | lia].
Qed.

Lemma groups_of_nil fuel : groups_of fuel [] = [].
Proof. destruct fuel; reflexivity. Qed.

Lemma groups_of_cons f x l : groups_of (S f) (x :: l) = firstn 8 (x :: l) :: groups_of f (skipn 8 (x :: l)).
Proof. reflexivity. Qed.

Lemma groups_of_spec : forall n fuel (l : list N),
  length l = (8 * n)%nat -> (n <= fuel)%nat ->
  concat (groups_of fuel l) = l /\ length (groups_of fuel l) = n /\
  Forall (fun g => length g = 8%nat) (groups_of fuel l).
Proof.
  induction n as [|n IH]; intros fuel l Hl Hf.
  - destruct l; [|cbn [length] in Hl; lia]. rewrite groups_of_nil. repeat split. constructor.
  - destruct fuel as [|f]; [lia|]. destruct l as [|x l]; [cbn [length] in Hl; lia|].
    rewrite groups_of_cons. set (l0 := x :: l) in *.
    destruct (IH f (skipn 8 l0)) as (H1 & H2 & H3); [rewrite skipn_length; lia | lia |].
    cbn [concat length]. rewrite H1, H2, firstn_skipn. repeat split.
    constructor; [rewrite firstn_length; lia | exact H3].
Qed.

Lemma groups_wf w fuel n (l : list N) :
  length l = (8 * n)%nat -> (n <= fuel)%nat -> (1 <= n)%nat -> Forall (fun v => v < 2 ^ w) l ->
  wf_run w (RBp (groups_of fuel l)) /\ run_values (RBp (groups_of fuel l)) = l.
Proof.
  intros Hl Hf Hn Hv. destruct (groups_of_spec n fuel l Hl Hf) as (H1 & H2 & H3).
  split; [|exact H1]. unfold wf_run. cbn [wf_runb]. rewrite H2.
  replace (Nat.eqb n 0) with false by lia. cbn [negb andb].
  apply forallb_forall. intros g Hg. unfold groupb.
  rewrite Forall_forall in H3. rewrite (H3 g Hg). cbn [Nat.eqb andb].
  apply forallb_forall. intros x Hx. unfold valb.
  assert (Hin : In x l). { rewrite <- H1. apply in_concat. exists g. split; assumption. }
  rewrite Forall_forall in Hv. specialize (Hv x Hin). lia.
Qed.

Lemma segment_nil fuel w choices pad : segment fuel w choices pad [] = [].
Proof. destruct fuel; reflexivity. Qed.

Lemma segment_cons f w choices pad v l :
  segment (S f) w choices pad (v :: l) =
  let ls := v :: l in
  let c := hd 0 choices in
  let rest := tl choices in
  if N.even c then
    let m := same_prefix v ls in
    let k := S (N.to_nat ((c / 2) mod N.of_nat m)) in
    RRle (N.of_nat k) v :: segment f w rest pad (skipn k ls)
  else
    let want := (8 * S (N.to_nat ((c / 2) mod 70)))%nat in
    if Nat.leb want (length ls) then
      RBp (groups_of want (firstn want ls)) :: segment f w rest pad (skipn want ls)
    else
      let n := length ls in
      let padded := ls ++ repeat (pad mod 2 ^ w) ((8 - n mod 8) mod 8)%nat in
      [RBp (groups_of (S n) padded)].
Proof. reflexivity. Qed.

(** every run list [segment] produces is well formed, has small RLE counts and
    carries exactly the levels, followed by fewer than 8 padding values *)
Theorem segment_ok : forall fuel w choices pad ls,
  (length ls <= fuel)%nat -> Forall (fun v => v < 2 ^ w) ls -> nlen ls < 2 ^ 63 ->
  exists padding,
    runs_values (segment fuel w choices pad ls) = ls ++ padding /\ (length padding < 8)%nat /\
    Forall (wf_run w) (segment fuel w choices pad ls) /\
    Forall run_small (segment fuel w choices pad ls).
Proof.
  induction fuel as [|f IH]; intros w choices pad ls Hf Hv Hlen.
  - destruct ls; [|cbn [length] in Hf; lia]. exists []. cbn [segment]. repeat split; try constructor. cbn [length]. lia.
  - destruct ls as [|v l].
    { exists []. rewrite segment_nil. repeat split; try constructor. cbn [length]. lia. }
    rewrite segment_cons. cbv zeta. set (ls := v :: l) in *.
    set (c := hd 0 choices). set (rest := tl choices).
    destruct (N.even c).
    + set (m := same_prefix v ls).
      assert (Hm : (1 <= m)%nat).
      { unfold m, ls. cbn [same_prefix]. rewrite N.eqb_refl. lia. }
      set (q := (c / 2) mod N.of_nat m).
      assert (Hq : q < N.of_nat m) by (apply N.mod_lt; lia).
      set (k := S (N.to_nat q)).
      destruct (same_prefix_firstn v ls k) as [Hfk Hkl]; [unfold k, m in *; lia|].
      destruct (Forall_firstn_skipn _ k ls Hv) as [_ Hvs].
      destruct (IH w rest pad (skipn k ls)) as (padding & H1 & H2 & H3 & H4).
      * rewrite skipn_length. unfold k. lia.
      * exact Hvs.
      * unfold nlen in *. rewrite skipn_length. lia.
      * exists padding. rewrite runs_values_cons, H1. cbn [run_values]. rewrite Nat2N.id, <- Hfk.
        rewrite app_assoc, firstn_skipn. split; [reflexivity|]. split; [exact H2|]. split.
        -- constructor; [|exact H3]. unfold wf_run. cbn [wf_runb]. unfold valb.
           inversion Hv as [|v' l' Hv0 _]; subst. unfold k. lia.
        -- constructor; [|exact H4]. cbn [run_small]. unfold nlen in Hlen.
           assert (2 ^ 63 = 9223372036854775808) by reflexivity. lia.
    + set (g := S (N.to_nat ((c / 2) mod 70))). set (want := (8 * g)%nat).
      destruct (Nat.leb want (length ls)) eqn:Ew.
      * apply Nat.leb_le in Ew.
        destruct (Forall_firstn_skipn _ want ls Hv) as [Hvf Hvs].
        destruct (groups_wf w want g (firstn want ls)) as [Hwf Hrv];
          [rewrite firstn_length; lia | unfold want; lia | unfold g; lia | exact Hvf |].
        destruct (IH w rest pad (skipn want ls)) as (padding & H1 & H2 & H3 & H4).
        -- rewrite skipn_length. unfold want, g. lia.
        -- exact Hvs.
        -- unfold nlen in *. rewrite skipn_length. lia.
        -- exists padding. rewrite runs_values_cons, H1, Hrv, app_assoc, firstn_skipn.
           split; [reflexivity|]. split; [exact H2|]. split; constructor; auto. exact I.
      * set (n := length ls). set (pv := pad mod 2 ^ w). set (np := ((8 - n mod 8) mod 8)%nat).
        assert (Hn : (1 <= n)%nat) by (unfold n, ls; cbn [length]; lia).
        assert (Hpv : pv < 2 ^ w).
        { apply N.mod_lt. apply N.pow_nonzero. lia. }
        destruct (groups_wf w (S n) ((n + 7) / 8)%nat (ls ++ repeat pv np)) as [Hwf Hrv].
        -- rewrite app_length, repeat_length. fold n. unfold np. lia.
        -- lia.
        -- lia.
        -- apply Forall_app. split; [exact Hv|]. apply Forall_forall. intros x Hx.
           apply repeat_spec in Hx. subst x. exact Hpv.
        -- exists (repeat pv np). unfold runs_values. cbn [map concat]. rewrite app_nil_r, Hrv.
           split; [reflexivity|]. split; [rewrite repeat_length; unfold np; lia|].
           split; constructor; auto. exact I.
Qed.

(** ** Layer B: the library's level decoder on a foreign level stream *)

Lemma hybrid_encode_length w rs : length (hybrid_encode w rs) = (4 + length (runs_encode w rs))%nat.
Proof. unfold hybrid_encode. rewrite app_length, le_enc_length. reflexivity. Qed.

Lemma encode_levels_runs_le w choices pad ls :
  nlen (runs_encode w (segment (S (length ls)) w choices pad ls)) <= nlen (encode_levels w choices pad ls).
Proof. unfold encode_levels, nlen. rewrite hybrid_encode_length. lia. Qed.

(** [rle_read] accepts any segmentation and returns the levels plus padding *)
Theorem encode_levels_read w choices pad ls rest :
  In w widths -> Forall (fun v => v < 2 ^ w) ls -> nlen ls < 2 ^ 31 ->
  nlen (encode_levels w choices pad ls) < 2 ^ 31 ->
  exists padding,
    rle_read w (encode_levels w choices pad ls ++ rest) =
    Ok (ls ++ padding, length (encode_levels w choices pad ls)) /\ (length padding < 8)%nat.
Proof.
  intros Hw Hv Hlen Henc. rewrite pow31 in Hlen.
  destruct (segment_ok (S (length ls)) w choices pad ls) as (padding & H1 & H2 & H3 & H4);
    [lia | exact Hv | assert (2 ^ 63 = 9223372036854775808) by reflexivity; lia |].
  exists padding. split; [|exact H2]. pose proof (encode_levels_runs_le w choices pad ls) as Hle.
  unfold encode_levels in *. rewrite rle_read_ok; [|exact Hw|exact H3|exact H4|lia].
  rewrite H1, hybrid_encode_length. reflexivity.
Qed.

Lemma read_levels_foreign w choices pad ls data l rest nv :
  In w widths -> Forall (fun v => v < 2 ^ w) ls -> nlen ls < 2 ^ 31 ->
  nlen (encode_levels w choices pad ls) < 2 ^ 31 ->
  (l <= length data)%nat -> skipn l data = encode_levels w choices pad ls ++ rest ->
  nv = Z.of_nat (length ls) ->
  read_levels w data l nv = Ok (ls, length (encode_levels w choices pad ls)).
Proof.
  intros Hw Hv Hlen Henc Hl Hskip Hnv. unfold read_levels.
  replace (Nat.ltb (length data) l) with false by lia. rewrite Hskip.
  destruct (encode_levels_read w choices pad ls rest Hw Hv Hlen Henc) as (padding & Hrd & _).
  rewrite Hrd. subst nv.
  replace (Z.of_nat (length ls) <? 0)%Z with false by lia. rewrite Nat2Z.id, app_length.
  replace (Nat.ltb (length ls + length padding) (length ls)) with false by lia.
  cbn [orb]. rewrite firstn_app_exact. reflexivity.
Qed.

(** ** Layer C: cutting a column into pages *)

Definition starts0 (es : list entry) : Prop :=
  match es with [] => True | e :: _ => e_rep e = 0 end.

Lemma take_record_cons2 e e' r :
  take_record (e :: e' :: r) =
  if e_rep e' =? 0 then ([e], e' :: r) else let '(a, b) := take_record (e' :: r) in (e :: a, b).
Proof. reflexivity. Qed.

Lemma take_record_spec : forall es a r,
  take_record es = (a, r) -> a ++ r = es /\ (es <> [] -> a <> []) /\ starts0 r /\ hd_error a = hd_error es.
Proof.
  induction es as [|e es IH]; intros a r H.
  - cbn [take_record] in H. inversion H; subst. repeat split; try (intros; assumption).
  - destruct es as [|e' es'].
    + cbn [take_record] in H. inversion H; subst. repeat split. intros _; discriminate.
    + rewrite take_record_cons2 in H. destruct (e_rep e' =? 0) eqn:E.
      * inversion H; subst. repeat split; [intros _; discriminate | cbn [starts0]; lia].
      * destruct (take_record (e' :: es')) as [a' b'] eqn:Et. inversion H; subst.
        destruct (IH a' r eq_refl) as (H1 & _ & H3 & _).
        cbn [app]. rewrite H1. repeat split; [intros _; discriminate | exact H3].
Qed.

Lemma take_records_S f n e es :
  take_records (S f) (S n) (e :: es) =
  let '(a, r) := take_record (e :: es) in let '(b, r') := take_records f n r in (a ++ b, r').
Proof. reflexivity. Qed.

Lemma take_records_spec : forall fuel n es a r,
  take_records fuel n es = (a, r) ->
  a ++ r = es /\ (es <> [] -> (1 <= n)%nat -> (1 <= fuel)%nat -> a <> []) /\
  (starts0 es -> starts0 r) /\ (a <> [] -> hd_error a = hd_error es).
Proof.
  induction fuel as [|f IH]; intros n es a r H.
  - cbn [take_records] in H. inversion H; subst. repeat split; try lia; try tauto; try congruence.
  - destruct n as [|n].
    { cbn [take_records] in H. inversion H; subst. repeat split; try lia; try tauto; try congruence. }
    destruct es as [|e es].
    { cbn [take_records] in H. inversion H; subst. repeat split; try tauto. }
    rewrite take_records_S in H. destruct (take_record (e :: es)) as [a1 r1] eqn:E1.
    destruct (take_records f n r1) as [b r'] eqn:E2. inversion H; subst.
    destruct (take_record_spec _ _ _ E1) as (H1 & H2 & H3 & H4).
    destruct (IH _ _ _ _ E2) as (H5 & _ & H7 & _).
    assert (Ha1 : a1 <> []) by (apply H2; discriminate).
    rewrite <- app_assoc, H5, H1. repeat split.
    + intros _ _ _ Hc. apply app_eq_nil in Hc. tauto.
    + intros _. apply H7. exact H3.
    + intros _. destruct a1 as [|x a1]; [congruence|]. exact H4.
Qed.

Lemma split_pages_cons f sizes last e es :
  split_pages (S f) sizes last (e :: es) =
  let n := Nat.max 1 (hd last sizes) in
  let '(pg, rest) := take_records (S (length (e :: es))) n (e :: es) in
  pg :: split_pages f (tl sizes) n rest.
Proof. reflexivity. Qed.

Lemma split_pages_nil fuel sizes last : split_pages fuel sizes last [] = [].
Proof. destruct fuel; reflexivity. Qed.

(** the pages partition the column's entries, none is empty, and when the
    column starts a record so does every page *)
Theorem split_pages_ok : forall fuel sizes last es,
  (length es <= fuel)%nat ->
  concat (split_pages fuel sizes last es) = es /\
  Forall (fun pg => pg <> []) (split_pages fuel sizes last es) /\
  (starts0 es -> Forall (fun pg => exists e r, pg = e :: r /\ e_rep e = 0) (split_pages fuel sizes last es)).
Proof.
  induction fuel as [|f IH]; intros sizes last es Hf.
  - destruct es; [|cbn [length] in Hf; lia]. cbn [split_pages concat]. repeat split; constructor.
  - destruct es as [|e es]; [rewrite split_pages_nil; repeat split; constructor|].
    rewrite split_pages_cons. cbv zeta. set (n := Nat.max 1 (hd last sizes)). set (es0 := e :: es) in *.
    destruct (take_records (S (length es0)) n es0) as [pg rest] eqn:E.
    destruct (take_records_spec _ _ _ _ _ E) as (H1 & H2 & H3 & H4).
    assert (Hpg : pg <> []) by (apply H2; [discriminate | lia | lia]).
    assert (Hlen : (length rest <= f)%nat).
    { rewrite <- H1, app_length in Hf. destruct pg; [congruence|]. cbn [length] in Hf. lia. }
    destruct (IH (tl sizes) n rest Hlen) as (I1 & I2 & I3).
    cbn [concat]. rewrite I1. split; [exact H1|]. split; [constructor; assumption|].
    intros Hs. constructor; [|apply I3, H3, Hs].
    specialize (H4 Hpg). destruct pg as [|x pg]; [congruence|]. exists x, pg. split; [reflexivity|].
    unfold es0 in H4. cbn [hd_error] in H4. inversion H4; subst. exact Hs.
Qed.

(** ** Small facts about the foreign writer's pages *)

Lemma foreign_payload_eq c ch es :
  foreign_payload c ch es =
  (if 0 <? max_rep c
   then encode_levels (Reader.bit_width (max_rep c)) (cc_rep_choices ch) (cc_pad ch) (map e_rep es) else [])
  ++ (if 0 <? max_def c
      then encode_levels (Reader.bit_width (max_def c)) (cc_def_choices ch) (cc_pad ch) (map e_def es) else [])
  ++ plain_enc (c_prim c) (entry_vals es).
Proof. reflexivity. Qed.

Lemma foreign_payload_plain_le c ch es :
  nlen (plain_enc (c_prim c) (entry_vals es)) <= nlen (foreign_payload c ch es).
Proof. rewrite foreign_payload_eq, !nlen_app. lia. Qed.

Lemma foreign_payload_required c ch es :
  col_required c = true -> foreign_payload c ch es = plain_enc (c_prim c) (entry_vals es).
Proof.
  intros Hreq. destruct (col_required_true c Hreq) as [Hd Hr].
  rewrite foreign_payload_eq, Hd, Hr. reflexivity.
Qed.

Lemma foreign_stats_ok c ch es :
  Forall (leaf_ok (c_prim c)) (entry_vals es) ->
  Forall (fun v => nlen (str_of v) < 2 ^ 31) (entry_vals es) -> nlen es < 2 ^ 31 ->
  opt_ok statistics_ok (foreign_stats c ch es) = true.
Proof.
  intros Hty Hstr Hlen.
  pose proof (page_stats_ok (c_prim c) (col_required c) (max_def c) es Hty Hstr Hlen) as Hok.
  unfold foreign_stats. destruct (cc_stats ch =? 0); [reflexivity|].
  destruct (cc_stats ch =? 1); cbn [opt_ok]; [exact Hok|].
  unfold statistics_ok in Hok |- *.
  cbn [st_max st_min st_null_count st_distinct_count st_max_value st_min_value opt_ok].
  destruct (opt_ok bin_ok (st_max_value _)), (opt_ok bin_ok (st_min_value _)),
    (opt_ok i64_ok (st_null_count _)); cbn [andb] in Hok |- *; try reflexivity;
    rewrite ?andb_false_r in Hok; try discriminate.
Qed.

Lemma i32_ok_small n : n < 2 ^ 31 -> i32_ok (i32z n) = true.
Proof. rewrite pow31. intros H. unfold i32_ok, in_range, i32z. lia. Qed.

Lemma count_rep0_le es : count_rep0 es <= nlen es.
Proof. unfold count_rep0. apply (filter_nlen_le (fun e => e_rep e =? 0) es). Qed.

Lemma to_nat_nlen' {A} (x : list A) : Z.to_nat (Z.of_N (nlen x)) = length x.
Proof. unfold nlen. lia. Qed.

Definition inj_enc_ok (inj : injection) : Prop :=
  match inj with IEncoding e => i32_ok e = true | _ => True end.

Section WithCodec.

Variable compress : Z -> bytes -> bytes.
Variable decompress : Z -> bytes -> option bytes.
Hypothesis Hcodec : forall c x, In c [CODEC_UNCOMPRESSED; CODEC_SNAPPY; CODEC_GZIP] ->
                                decompress c (compress c x) = Some x.
Hypothesis Hident : forall x, compress CODEC_UNCOMPRESSED x = x.

(** ** Layer D0: the page loops, generically: a chunk is a list of pages, each
    given by its bytes and the entries it carries; what a page has to satisfy
    is that one iteration of the reader's loop consumes it as the reader's
    invariant expects ([req_step] / [opt_step]), or rejects it ([req_bad] /
    [opt_bad]) *)

Definition req_step (codec : Z) (c : col) (pb : bytes) (es : list entry) : Prop :=
  forall s rest f pgn nread acc sizes,
    s_fail s = None -> rem s = pb ++ rest -> (nread < pgn)%Z ->
    exists s',
      do_read_required decompress (S f) codec pgn nread acc sizes s =
      do_read_required decompress f codec pgn (nread + Z.of_nat (length es))
                       (acc ++ plain_enc (c_prim c) (entry_vals es)) (sizes ++ [length es]) s' /\
      adv s (length pb) s'.

Definition opt_step (codec : Z) (c : col) (pb : bytes) (es : list entry) : Prop :=
  forall s rest f size nread acc,
    s_fail s = None -> rem s = pb ++ rest -> (nread < size)%Z ->
    exists s',
      do_read_optional decompress (S f) codec (max_def c) (max_rep c) size nread acc s =
      do_read_optional decompress f codec (max_def c) (max_rep c) size (nread + Z.of_nat (length pb))
        {| oa_reps := oa_reps acc ++ page_reps c es;
           oa_defs := oa_defs acc ++ map e_def es;
           oa_out := oa_out acc ++ plain_enc (c_prim c) (entry_vals es);
           oa_sizes := oa_sizes acc ++ [length (entry_vals es)] |} s' /\
      adv s (length pb) s'.

Definition req_bad (codec : Z) (pb : bytes) : Prop :=
  forall s rest f pgn nread acc sizes,
    s_fail s = None -> rem s = pb ++ rest -> (nread < pgn)%Z ->
    do_read_required decompress (S f) codec pgn nread acc sizes s = Err.

Definition opt_bad (codec : Z) (c : col) (pb : bytes) : Prop :=
  forall s rest f size nread acc,
    s_fail s = None -> rem s = pb ++ rest -> (nread < size)%Z ->
    do_read_optional decompress (S f) codec (max_def c) (max_rep c) size nread acc s = Err.

(** a page: its bytes and its entries *)
Notation gpage := (bytes * list entry)%type (only parsing).

Definition page_good (codec : Z) (c : col) (p : gpage) : Prop :=
  snd p <> [] /\ (1 <= length (fst p))%nat /\ lev_ok c (snd p) /\
  Forall (leaf_ok (c_prim c)) (entry_vals (snd p)) /\
  Forall (fun v => nlen (str_of v) < 2 ^ 31) (entry_vals (snd p)) /\
  (if col_required c then req_step codec c (fst p) (snd p) else opt_step codec c (fst p) (snd p)).

Definition page_bad (codec : Z) (c : col) (pb : bytes) : Prop :=
  (1 <= length pb)%nat /\ (if col_required c then req_bad codec pb else opt_bad codec c pb).

Definition gbytes (pgs : list gpage) : bytes := concat (map fst pgs).
Definition gentries (pgs : list gpage) : list entry := concat (map snd pgs).

Lemma gbytes_cons p pgs : gbytes (p :: pgs) = fst p ++ gbytes pgs.
Proof. reflexivity. Qed.
Lemma gentries_cons p pgs : gentries (p :: pgs) = snd p ++ gentries pgs.
Proof. reflexivity. Qed.
Lemma gbytes_app a b : gbytes (a ++ b) = gbytes a ++ gbytes b.
Proof. unfold gbytes. rewrite map_app, concat_app. reflexivity. Qed.
Lemma gentries_app a b : gentries (a ++ b) = gentries a ++ gentries b.
Proof. unfold gentries. rewrite map_app, concat_app. reflexivity. Qed.

Lemma good_entries_len codec c pgs :
  Forall (page_good codec c) pgs -> (length pgs <= length (gentries pgs))%nat.
Proof.
  induction 1 as [|p pgs Hp _ IH]; [cbn; lia|].
  rewrite gentries_cons, app_length. cbn [length]. destruct Hp as (Hne & _).
  destruct (snd p); [congruence | cbn [length]; lia].
Qed.

Lemma good_bytes_len codec c pgs :
  Forall (page_good codec c) pgs -> (length pgs <= length (gbytes pgs))%nat.
Proof.
  induction 1 as [|p pgs Hp _ IH]; [cbn; lia|].
  rewrite gbytes_cons, app_length. cbn [length]. destruct Hp as (_ & Hb & _). lia.
Qed.

(** the loop over a prefix of good pages (whatever follows) *)
Lemma required_prefix codec c : forall pgs s rest f pgn nread acc sizes,
  Forall (page_good codec c) pgs -> col_required c = true -> s_fail s = None ->
  rem s = gbytes pgs ++ rest ->
  (nread + Z.of_nat (length (gentries pgs)) <= pgn)%Z ->
  exists s',
    do_read_required decompress (length pgs + f) codec pgn nread acc sizes s =
    do_read_required decompress f codec pgn (nread + Z.of_nat (length (gentries pgs)))
      (acc ++ concat (map (fun p => plain_enc (c_prim c) (entry_vals (snd p))) pgs))
      (sizes ++ map (fun p => length (snd p)) pgs) s' /\
    adv s (length (gbytes pgs)) s'.
Proof.
  induction pgs as [|p pgs IH]; intros s rest f pgn nread acc sizes Hgood Hreq Hfail Hrem Hle.
  - exists s. cbn [gentries gbytes map concat length Nat.add]. rewrite !app_nil_r, Z.add_0_r.
    split; [reflexivity | apply adv_refl; exact Hfail].
  - inversion Hgood as [|p' pgs' Hp Hpgs]; subst p' pgs'.
    rewrite gbytes_cons, <- app_assoc in Hrem. rewrite gentries_cons, app_length in Hle |- *.
    pose proof Hp as (Hne & _ & _ & _ & _ & Hstep). rewrite Hreq in Hstep.
    assert (Hpos : (1 <= length (snd p))%nat) by (destruct (snd p); [congruence | cbn [length]; lia]).
    cbn [length Nat.add].
    destruct (Hstep s _ (length pgs + f)%nat pgn nread acc sizes Hfail Hrem) as (s1 & Hs & Hadv1); [lia|].
    rewrite Hs.
    destruct (IH s1 rest f pgn (nread + Z.of_nat (length (snd p)))%Z
                 (acc ++ plain_enc (c_prim c) (entry_vals (snd p))) (sizes ++ [length (snd p)])
                 Hpgs Hreq (adv_fail _ _ _ Hadv1) (rem_adv_app _ _ _ _ Hrem Hadv1)) as (s2 & Hrun & Hadv2); [lia|].
    exists s2. rewrite Hrun. cbn [map concat]. rewrite <- !app_assoc. cbn [app]. split.
    + f_equal. lia.
    + rewrite gbytes_cons, app_length. exact (adv_trans _ _ _ _ _ Hadv1 Hadv2).
Qed.

Lemma optional_prefix codec c : forall pgs s rest f size nread acc,
  Forall (page_good codec c) pgs -> col_required c = false -> s_fail s = None ->
  rem s = gbytes pgs ++ rest ->
  (nread + Z.of_nat (length (gbytes pgs)) <= size)%Z ->
  exists s',
    do_read_optional decompress (length pgs + f) codec (max_def c) (max_rep c) size nread acc s =
    do_read_optional decompress f codec (max_def c) (max_rep c) size
      (nread + Z.of_nat (length (gbytes pgs)))
      {| oa_reps := oa_reps acc ++ concat (map (fun p => page_reps c (snd p)) pgs);
         oa_defs := oa_defs acc ++ concat (map (fun p => map e_def (snd p)) pgs);
         oa_out := oa_out acc ++ concat (map (fun p => plain_enc (c_prim c) (entry_vals (snd p))) pgs);
         oa_sizes := oa_sizes acc ++ map (fun p => length (entry_vals (snd p))) pgs |} s' /\
    adv s (length (gbytes pgs)) s'.
Proof.
  induction pgs as [|p pgs IH]; intros s rest f size nread acc Hgood Hreq Hfail Hrem Hle.
  - exists s. cbn [gentries gbytes map concat length Nat.add]. rewrite !app_nil_r, Z.add_0_r.
    split; [destruct acc; reflexivity | apply adv_refl; exact Hfail].
  - inversion Hgood as [|p' pgs' Hp Hpgs]; subst p' pgs'.
    rewrite gbytes_cons, <- app_assoc in Hrem. rewrite gbytes_cons, app_length in Hle |- *.
    pose proof Hp as (_ & Hpos & _ & _ & _ & Hstep). rewrite Hreq in Hstep.
    cbn [length Nat.add].
    destruct (Hstep s _ (length pgs + f)%nat size nread acc Hfail Hrem) as (s1 & Hs & Hadv1); [lia|].
    rewrite Hs.
    match goal with |- context [do_read_optional _ _ _ _ _ _ _ ?a s1] => set (acc1 := a) end.
    destruct (IH s1 rest f size (nread + Z.of_nat (length (fst p)))%Z acc1
                 Hpgs Hreq (adv_fail _ _ _ Hadv1) (rem_adv_app _ _ _ _ Hrem Hadv1)) as (s2 & Hrun & Hadv2); [lia|].
    exists s2. rewrite Hrun. unfold acc1. cbn [oa_reps oa_defs oa_out oa_sizes map concat].
    rewrite <- !app_assoc. cbn [app]. split.
    + f_equal. lia.
    + exact (adv_trans _ _ _ _ _ Hadv1 Hadv2).
Qed.

Lemma required_done f codec pgn acc sizes s :
  do_read_required decompress f codec pgn pgn acc sizes s = Ok ((acc, sizes), s).
Proof. destruct f; cbn [do_read_required]; rewrite Z.ltb_irrefl; reflexivity. Qed.

Lemma optional_done f codec maxdef maxrep size acc s :
  do_read_optional decompress f codec maxdef maxrep size size acc s = Ok (acc, s).
Proof. destruct f; cbn [do_read_optional]; rewrite Z.ltb_irrefl; reflexivity. Qed.

Lemma good_lev_ok codec c pgs : Forall (page_good codec c) pgs -> lev_ok c (gentries pgs).
Proof.
  intros H. unfold lev_ok, gentries. apply Forall_concat. apply Forall_map.
  eapply Forall_impl; [|exact H]. intros p (_ & _ & Hl & _). exact Hl.
Qed.

(** ** Layer D1: one column chunk made of good pages *)
Theorem read_chunk_good codec c pgs cm s rest :
  Forall (page_good codec c) pgs -> s_fail s = None ->
  rem s = gbytes pgs ++ rest ->
  cm_codec cm = codec ->
  cm_num_values cm = Z.of_nat (length (gentries pgs)) ->
  cm_total_compressed cm = Z.of_nat (length (gbytes pgs)) ->
  exists s', read_chunk decompress c cm s = Ok (gentries pgs, s') /\
             adv s (length (gbytes pgs)) s'.
Proof.
  intros Hgood Hfail Hrem Hcod Hnv Htot.
  pose proof (good_lev_ok codec c pgs Hgood) as Hlev.
  set (ess := map snd pgs).
  assert (Hty : Forall (Forall (leaf_ok (c_prim c))) (map entry_vals ess)).
  { unfold ess. rewrite map_map. apply Forall_map. eapply Forall_impl; [|exact Hgood].
    intros p (_ & _ & _ & H & _). exact H. }
  assert (Hstr : Forall (Forall (fun v => nlen (str_of v) < 2 ^ 31)) (map entry_vals ess)).
  { unfold ess. rewrite map_map. apply Forall_map. eapply Forall_impl; [|exact Hgood].
    intros p (_ & _ & _ & _ & H & _). exact H. }
  assert (Hout : concat (map (fun p : gpage => plain_enc (c_prim c) (entry_vals (snd p))) pgs) =
                 concat (map (plain_enc (c_prim c)) (map entry_vals ess))).
  { unfold ess. rewrite !map_map. reflexivity. }
  unfold read_chunk. cbv zeta. rewrite Hcod, Hnv, Htot.
  destruct (col_required c) eqn:Hreq.
  - pose proof (good_entries_len codec c pgs Hgood) as Hlen.
    destruct (required_prefix codec c pgs s rest
                (S (Z.to_nat (Z.of_nat (length (gentries pgs)))) - length pgs)%nat
                (Z.of_nat (length (gentries pgs))) 0%Z [] [] Hgood Hreq Hfail Hrem) as (s' & Hrun & Hadv); [lia|].
    replace (length pgs + (S (Z.to_nat (Z.of_nat (length (gentries pgs)))) - length pgs))%nat
      with (S (Z.to_nat (Z.of_nat (length (gentries pgs))))) in Hrun by lia.
    rewrite Z.add_0_l, required_done in Hrun.
    rewrite (bind_ok _ _ _ _ _ Hrun). cbv beta iota. cbn [app]. rewrite Hout.
    replace (map (fun p : gpage => length (snd p)) pgs) with (map (@length value) (map entry_vals ess)).
    2:{ unfold ess. rewrite !map_map. apply map_ext_in. intros p Hp. rewrite Forall_forall in Hgood.
        destruct (Hgood p Hp) as (_ & _ & Hl & _). apply (required_count c _ Hreq Hl). }
    rewrite decode_values_ok; [|exact Hty|exact Hstr|].
    2:{ rewrite <- entry_vals_concat. change (concat ess) with (gentries pgs). rewrite (required_count c _ Hreq Hlev). reflexivity. }
    cbn [lift]. unfold ret at 1. unfold bind at 1. unfold ret.
    rewrite <- entry_vals_concat. change (concat ess) with (gentries pgs). rewrite (required_entries c _ Hreq Hlev).
    exists s'. split; [reflexivity|exact Hadv].
  - pose proof (good_bytes_len codec c pgs Hgood) as Hlen.
    destruct (optional_prefix codec c pgs s rest
                (S (Z.to_nat (Z.of_nat (length (gbytes pgs)))) - length pgs)%nat
                (Z.of_nat (length (gbytes pgs))) 0%Z
                {| oa_reps := []; oa_defs := []; oa_out := []; oa_sizes := [] |}
                Hgood Hreq Hfail Hrem) as (s' & Hrun & Hadv); [lia|].
    replace (length pgs + (S (Z.to_nat (Z.of_nat (length (gbytes pgs)))) - length pgs))%nat
      with (S (Z.to_nat (Z.of_nat (length (gbytes pgs))))) in Hrun by lia.
    rewrite Z.add_0_l, optional_done in Hrun.
    rewrite (bind_ok _ _ _ _ _ Hrun). cbv zeta. cbn [oa_reps oa_defs oa_out oa_sizes app]. rewrite Hout.
    replace (concat (map (fun p : gpage => map e_def (snd p)) pgs)) with (map e_def (gentries pgs)).
    2:{ unfold gentries. rewrite concat_map, map_map. reflexivity. }
    rewrite (count_maxdef c _ Hlev).
    replace (map (fun p : gpage => length (entry_vals (snd p))) pgs)
      with (map (@length value) (map entry_vals ess)) by (unfold ess; rewrite !map_map; reflexivity).
    rewrite decode_values_ok; [|exact Hty|exact Hstr|].
    2:{ rewrite <- entry_vals_concat. reflexivity. }
    cbn [lift]. unfold ret at 1. unfold bind at 1. unfold ret.
    exists s'. split; [|exact Hadv]. f_equal. f_equal.
    rewrite <- entry_vals_concat. change (concat ess) with (gentries pgs).
    destruct (0 <? max_rep c) eqn:Erep.
    + replace (concat (map (fun p : gpage => page_reps c (snd p)) pgs)) with (map e_rep (gentries pgs)).
      * apply zip_levels_reps. exact Hlev.
      * unfold gentries. rewrite concat_map, map_map. f_equal. apply map_ext. intros p.
        unfold page_reps. rewrite Erep. reflexivity.
    + replace (concat (map (fun p : gpage => page_reps c (snd p)) pgs)) with (@nil N).
      * apply zip_levels_noreps; [lia | exact Hlev].
      * symmetry. apply concat_nil_Forall. apply Forall_map. apply Forall_forall. intros p _.
        unfold page_reps. rewrite Erep. reflexivity.
Qed.

(** ... and a chunk whose good pages are followed by a page the reader rejects *)
Theorem read_chunk_bad codec c pgs bad cm s rest :
  Forall (page_good codec c) pgs -> page_bad codec c bad -> s_fail s = None ->
  rem s = gbytes pgs ++ bad ++ rest ->
  cm_codec cm = codec ->
  (Z.of_nat (length (gentries pgs)) < cm_num_values cm)%Z ->
  (Z.of_nat (length (gbytes pgs)) < cm_total_compressed cm)%Z ->
  read_chunk decompress c cm s = Err.
Proof.
  intros Hgood [_ Hbad] Hfail Hrem Hcod Hnv Htot.
  unfold read_chunk. cbv zeta. rewrite Hcod.
  destruct (col_required c) eqn:Hreq.
  - pose proof (good_entries_len codec c pgs Hgood) as Hlen.
    destruct (required_prefix codec c pgs s (bad ++ rest)
                (S (Z.to_nat (cm_num_values cm) - length pgs))
                (cm_num_values cm) 0%Z [] [] Hgood Hreq Hfail Hrem) as (s' & Hrun & Hadv); [lia|].
    replace (length pgs + S (Z.to_nat (cm_num_values cm) - length pgs))%nat
      with (S (Z.to_nat (cm_num_values cm))) in Hrun by lia.
    unfold bind. rewrite Hrun.
    rewrite (Hbad s' rest _ _ _ _ _ (adv_fail _ _ _ Hadv) (rem_adv_app _ _ _ _ Hrem Hadv)); [reflexivity | lia].
  - pose proof (good_bytes_len codec c pgs Hgood) as Hlen.
    destruct (optional_prefix codec c pgs s (bad ++ rest)
                (S (Z.to_nat (cm_total_compressed cm) - length pgs))
                (cm_total_compressed cm) 0%Z
                {| oa_reps := []; oa_defs := []; oa_out := []; oa_sizes := [] |}
                Hgood Hreq Hfail Hrem) as (s' & Hrun & Hadv); [lia|].
    replace (length pgs + S (Z.to_nat (cm_total_compressed cm) - length pgs))%nat
      with (S (Z.to_nat (cm_total_compressed cm))) in Hrun by lia.
    unfold bind. rewrite Hrun.
    rewrite (Hbad s' rest _ _ _ _ (adv_fail _ _ _ Hadv) (rem_adv_app _ _ _ _ Hrem Hadv)); [reflexivity | lia].
Qed.

(** ** Layer D2: the foreign writer's pages *)

(** what the theorems assume about the entries of one page of column [c]
    written with the choices [ch] and compressed with [codec] *)
Record fpage_pre (codec : Z) (c : col) (ch : col_choice) (es : list entry) : Prop := {
  fq_codec : codec_ok codec;
  fq_nonempty : es <> [];
  fq_levels : lev_ok c es;
  fq_typed : Forall (leaf_ok (c_prim c)) (entry_vals es);
  fq_count : nlen es < 2 ^ 31;
  fq_payload : nlen (foreign_payload c ch es) < 2 ^ 31;
  fq_body : nlen (compress codec (foreign_payload c ch es)) < 2 ^ 31;
  fq_def : max_def c <= 15;
  fq_rep : max_rep c <= 15
}.

Lemma fpage_strs codec c ch es :
  fpage_pre codec c ch es -> Forall (fun v => nlen (str_of v) < 2 ^ 31) (entry_vals es).
Proof.
  intros Hpre. destruct (c_prim c) eqn:Hp;
    try (apply (non_string_strs (c_prim c)); [rewrite Hp; discriminate | exact (fq_typed _ _ _ _ Hpre)]).
  apply Forall_forall. intros v Hv.
  pose proof (str_len_le_plain _ _ Hv) as H1.
  pose proof (foreign_payload_plain_le c ch es) as H2. rewrite Hp in H2.
  pose proof (fq_payload _ _ _ _ Hpre). lia.
Qed.

Definition fhdr (c : col) (ch : col_choice) (codec : Z) (inj : injection) (es : list entry) : page_header :=
  fp_header (foreign_page compress c ch codec inj es).

Lemma fp_bytes_eq c ch codec inj es :
  fp_bytes (foreign_page compress c ch codec inj es) =
  enc_page_header (fhdr c ch codec inj es) ++ compress codec (foreign_payload c ch es).
Proof. reflexivity. Qed.

Lemma fhdr_sizes c ch codec inj es :
  ph_uncompressed_size (fhdr c ch codec inj es) = Z.of_N (nlen (foreign_payload c ch es)) /\
  ph_compressed_size (fhdr c ch codec inj es) = Z.of_N (nlen (compress codec (foreign_payload c ch es))).
Proof. destruct inj; split; reflexivity. Qed.

Lemma i32_ok_consts :
  i32_ok 0 = true /\ i32_ok 1 = true /\ i32_ok 2 = true /\ i32_ok 3 = true /\ i32_ok 4 = true /\
  i32_ok 305419896 = true.
Proof. repeat split. Qed.

Lemma fhdr_ok c ch codec inj es :
  fpage_pre codec c ch es -> inj_enc_ok inj -> page_header_ok (fhdr c ch codec inj es) = true.
Proof.
  intros Hpre Hinj.
  pose proof (fq_count _ _ _ _ Hpre) as Hcount.
  pose proof (i32_ok_small _ Hcount) as Hc.
  pose proof (i32_ok_small _ (fq_payload _ _ _ _ Hpre)) as Hp.
  pose proof (i32_ok_small _ (fq_body _ _ _ _ Hpre)) as Hb.
  pose proof (foreign_stats_ok c ch es (fq_typed _ _ _ _ Hpre) (fpage_strs _ _ _ _ Hpre) Hcount) as Hst.
  assert (Hr0 : i32_ok (i32z (count_rep0 es)) = true).
  { apply i32_ok_small. pose proof (count_rep0_le es). lia. }
  assert (Hcrc : opt_ok i32_ok (if cc_crc ch then Some 305419896%Z else None) = true)
    by (destruct (cc_crc ch); reflexivity).
  unfold fhdr, foreign_page. cbv zeta. cbn [fp_header].
  destruct inj; unfold page_header_ok, data_page_header_ok, data_page_header_v2_ok;
    cbn [ph_type ph_uncompressed_size ph_compressed_size ph_crc ph_data ph_index ph_dict ph_data_v2 opt_ok
         dph_num_values dph_encoding dph_def_encoding dph_rep_encoding dph_statistics
         v2_num_values v2_num_nulls v2_num_rows v2_encoding v2_def_len v2_rep_len v2_statistics];
    cbn [inj_enc_ok] in Hinj;
    rewrite ?Hc, ?Hp, ?Hb, ?Hst, ?Hr0, ?Hcrc, ?Hinj; reflexivity.
Qed.

Lemma read_fheader c ch codec inj es s rest :
  fpage_pre codec c ch es -> inj_enc_ok inj -> s_fail s = None ->
  rem s = enc_page_header (fhdr c ch codec inj es) ++ rest ->
  exists s', m_read_struct dec_page_header s = Ok (fhdr c ch codec inj es, s') /\
             adv s (length (enc_page_header (fhdr c ch codec inj es))) s'.
Proof.
  intros Hpre Hinj Hfail Hrem. eapply m_read_struct_ok; [exact Hfail | exact Hrem |].
  apply dec_enc_page_header, fhdr_ok; assumption.
Qed.

Definition fdph (c : col) (ch : col_choice) (es : list entry) : data_page_header :=
  {| dph_num_values := i32z (nlen es); dph_encoding := ENC_PLAIN; dph_def_encoding := ENC_RLE;
     dph_rep_encoding := ENC_RLE; dph_statistics := foreign_stats c ch es |}.

(** injections that leave the page header as it is *)
Definition inj_plain (inj : injection) : Prop :=
  match inj with INone | ICodec _ => True | _ => False end.

Lemma supported_fhdr c ch codec inj es defs reps :
  inj_plain inj -> supported_page (fhdr c ch codec inj es) defs reps = Some (fdph c ch es).
Proof. intros Hinj. destruct inj; try destruct Hinj; destruct defs, reps; reflexivity. Qed.

Lemma fdph_num_values c ch es : dph_num_values (fdph c ch es) = Z.of_nat (length es).
Proof. cbn [fdph dph_num_values]. unfold i32z, nlen. lia. Qed.

(** pageData returns the uncompressed payload, whenever the header's sizes are right *)
Lemma page_data_gen codec ph payload s rest :
  codec_ok codec ->
  ph_uncompressed_size ph = Z.of_N (nlen payload) ->
  ph_compressed_size ph = Z.of_N (nlen (compress codec payload)) ->
  s_fail s = None -> rem s = compress codec payload ++ rest ->
  exists s', page_data decompress codec ph s = Ok (payload, s') /\
             adv s (length (compress codec payload)) s'.
Proof.
  intros Hc Hu Hcs Hfail Hrem. unfold page_data. rewrite Hu, Hcs.
  destruct (Z.eqb codec CODEC_SNAPPY || Z.eqb codec CODEC_GZIP) eqn:Ecomp.
  - replace (Z.of_N (nlen (compress codec payload)) <? 0)%Z with false by lia.
    rewrite to_nat_nlen'.
    destruct (m_read_full_ok s _ rest Hfail Hrem) as (s' & Hrd & Hadv).
    rewrite (bind_ok _ _ _ _ _ Hrd), Hcodec by exact Hc.
    exists s'. split; [reflexivity | exact Hadv].
  - assert (Hu' : codec = CODEC_UNCOMPRESSED).
    { unfold codec_ok in Hc. cbn [In] in Hc.
      unfold CODEC_UNCOMPRESSED, CODEC_SNAPPY, CODEC_GZIP in *. lia. }
    subst codec. change (Z.eqb CODEC_UNCOMPRESSED CODEC_UNCOMPRESSED) with true. cbv iota.
    replace (Z.of_N (nlen payload) <? 0)%Z with false by lia.
    rewrite to_nat_nlen'. rewrite Hident in Hrem |- *.
    destruct (m_read_full_ok s _ rest Hfail Hrem) as (s' & Hrd & Hadv).
    exists s'. split; [exact Hrd | exact Hadv].
Qed.

Lemma page_data_unsupported codec ph s :
  ~ codec_ok codec -> page_data decompress codec ph s = Err.
Proof.
  intros Hc. unfold page_data, codec_ok in *. cbn [In] in Hc.
  destruct (Z.eqb_spec codec CODEC_SNAPPY) as [E|_]; [exfalso; apply Hc; subst codec; auto|].
  destruct (Z.eqb_spec codec CODEC_GZIP) as [E|_]; [exfalso; apply Hc; subst codec; auto|].
  destruct (Z.eqb_spec codec CODEC_UNCOMPRESSED) as [E|_]; [exfalso; apply Hc; subst codec; auto|].
  reflexivity.
Qed.

Definition fpb (c : col) (ch : col_choice) (codec : Z) (inj : injection) (es : list entry) : bytes :=
  fp_bytes (foreign_page compress c ch codec inj es).

Lemma fpb_length c ch codec inj es :
  length (fpb c ch codec inj es) =
  (length (enc_page_header (fhdr c ch codec inj es)) + length (compress codec (foreign_payload c ch es)))%nat.
Proof. unfold fpb. rewrite fp_bytes_eq. apply app_length. Qed.

Lemma fpb_pos c ch codec inj es : (1 <= length (fpb c ch codec inj es))%nat.
Proof. rewrite fpb_length. pose proof (enc_page_header_nonempty (fhdr c ch codec inj es)). lia. Qed.

(** one iteration of RequiredField.DoRead on a foreign page *)
Lemma foreign_req_step codec c ch inj es :
  fpage_pre codec c ch es -> inj_plain inj -> col_required c = true ->
  req_step codec c (fpb c ch codec inj es) es.
Proof.
  intros Hpre Hinj Hreq s rest f pgn nread acc sizes Hfail Hrem Hlt.
  assert (Hie : inj_enc_ok inj) by (destruct inj; try destruct Hinj; exact I).
  unfold fpb in Hrem. rewrite fp_bytes_eq, <- app_assoc in Hrem.
  cbn [do_read_required]. replace (nread <? pgn)%Z with true by lia.
  destruct (read_fheader c ch codec inj es s _ Hpre Hie Hfail Hrem) as (s1 & Hh & Hadv1).
  rewrite (bind_ok _ _ _ _ _ Hh), (supported_fhdr _ _ _ _ _ _ _ Hinj).
  pose proof (rem_adv_app _ _ _ _ Hrem Hadv1) as Hrem1.
  destruct (fhdr_sizes c ch codec inj es) as [Hu Hc].
  destruct (page_data_gen codec _ _ s1 rest (fq_codec _ _ _ _ Hpre) Hu Hc (adv_fail _ _ _ Hadv1) Hrem1)
    as (s2 & Hd & Hadv2).
  rewrite (bind_ok _ _ _ _ _ Hd), fdph_num_values, Nat2Z.id.
  exists s2. split.
  - rewrite (foreign_payload_required c ch es Hreq). reflexivity.
  - rewrite fpb_length. exact (adv_trans _ _ _ _ _ Hadv1 Hadv2).
Qed.

(** one iteration of OptionalField.DoRead on a foreign page: the levels are
    any well-formed run list, and the padding of the last bit-packed group is
    cut off by [levels[:NumValues]] *)
Lemma foreign_opt_step codec c ch inj es :
  fpage_pre codec c ch es -> inj_plain inj -> col_required c = false ->
  opt_step codec c (fpb c ch codec inj es) es.
Proof.
  intros Hpre Hinj Hreq s rest f size nread acc Hfail Hrem Hlt.
  assert (Hie : inj_enc_ok inj) by (destruct inj; try destruct Hinj; exact I).
  unfold fpb in Hrem. rewrite fp_bytes_eq, <- app_assoc in Hrem.
  pose proof (fq_levels _ _ _ _ Hpre) as Hlev. pose proof (fq_count _ _ _ _ Hpre) as Hcount.
  pose proof (fq_def _ _ _ _ Hpre) as Hdef15. pose proof (fq_rep _ _ _ _ Hpre) as Hrep15.
  pose proof (fq_payload _ _ _ _ Hpre) as Hpl.
  pose proof (col_required_false c Hreq) as Hdef1.
  cbn [do_read_optional]. replace (nread <? size)%Z with true by lia.
  unfold get_pos at 1. unfold bind at 1.
  destruct (read_fheader c ch codec inj es s _ Hpre Hie Hfail Hrem) as (s1 & Hh & Hadv1).
  rewrite (bind_ok _ _ _ _ _ Hh), (supported_fhdr _ _ _ _ _ _ _ Hinj).
  pose proof (rem_adv_app _ _ _ _ Hrem Hadv1) as Hrem1.
  destruct (fhdr_sizes c ch codec inj es) as [Hu Hc].
  destruct (page_data_gen codec _ _ s1 rest (fq_codec _ _ _ _ Hpre) Hu Hc (adv_fail _ _ _ Hadv1) Hrem1)
    as (s2 & Hd & Hadv2).
  rewrite (bind_ok _ _ _ _ _ Hd). unfold get_pos at 1. unfold bind at 1.
  pose proof (adv_trans _ _ _ _ _ Hadv1 Hadv2) as Hadv. rewrite <- fpb_length in Hadv.
  assert (Hpos : Z.of_N (s_pos s2 - s_pos s) = Z.of_nat (length (fpb c ch codec inj es))).
  { destruct Hadv as (_ & _ & Hp). rewrite Hp. lia. }
  rewrite Hpos.
  assert (Hnv : dph_num_values (fdph c ch es) = Z.of_nat (length (map e_def es))).
  { rewrite map_length. apply fdph_num_values. }
  assert (Hnvr : dph_num_values (fdph c ch es) = Z.of_nat (length (map e_rep es))).
  { rewrite map_length. apply fdph_num_values. }
  assert (Hdefs : Forall (fun v => v < 2 ^ Reader.bit_width (max_def c)) (map e_def es)).
  { apply Forall_map. eapply Forall_impl; [|exact Hlev]. intros e He. apply lev_ok_inv in He.
    apply bit_width_bound; lia. }
  assert (Hreps : Forall (fun v => v < 2 ^ Reader.bit_width (max_rep c)) (map e_rep es)).
  { apply Forall_map. eapply Forall_impl; [|exact Hlev]. intros e He. apply lev_ok_inv in He.
    apply bit_width_bound; lia. }
  set (vals := plain_enc (c_prim c) (entry_vals es)).
  set (dsec := encode_levels (Reader.bit_width (max_def c)) (cc_def_choices ch) (cc_pad ch) (map e_def es)).
  set (payload := foreign_payload c ch es) in *.
  assert (Hpay : payload =
                 (if 0 <? max_rep c
                  then encode_levels (Reader.bit_width (max_rep c)) (cc_rep_choices ch) (cc_pad ch) (map e_rep es)
                  else []) ++ dsec ++ vals).
  { unfold payload. rewrite foreign_payload_eq. replace (0 <? max_def c) with true by lia. reflexivity. }
  assert (Hcnt : nlen (map e_def es) < 2 ^ 31 /\ nlen (map e_rep es) < 2 ^ 31).
  { unfold nlen in *. rewrite !map_length. split; exact Hcount. }
  destruct Hcnt as [Hcd Hcr].
  destruct (0 <? max_rep c) eqn:Erep.
  - set (rsec := encode_levels (Reader.bit_width (max_rep c)) (cc_rep_choices ch) (cc_pad ch) (map e_rep es)) in *.
    assert (Hlen : length payload = (length rsec + length dsec + length vals)%nat).
    { rewrite Hpay, !app_length. lia. }
    rewrite (read_levels_foreign _ (cc_rep_choices ch) (cc_pad ch) (map e_rep es) payload 0 (dsec ++ vals));
      [| apply bit_width_widths; lia | exact Hreps | exact Hcr
       | fold rsec; unfold nlen in *; lia
       | lia | rewrite Hpay; reflexivity | exact Hnvr ].
    cbn [lift]. unfold ret at 1. unfold bind at 1. cbv beta iota. fold rsec.
    rewrite (read_levels_foreign _ (cc_def_choices ch) (cc_pad ch) (map e_def es) payload (length rsec) vals);
      [| apply bit_width_widths; lia | exact Hdefs | exact Hcd
       | fold dsec; unfold nlen in *; lia
       | lia | rewrite Hpay; apply skipn_app_exact | exact Hnv ].
    cbn [lift]. unfold ret at 1. unfold bind at 1. cbv beta iota. fold dsec.
    replace (Nat.ltb (length payload) (length rsec + length dsec)) with false by lia.
    exists s2. split; [|exact Hadv].
    rewrite (count_maxdef c es Hlev). unfold page_reps. rewrite Erep.
    replace (skipn (length rsec + length dsec) payload) with vals; [reflexivity|].
    rewrite Hpay, skipn_add, skipn_app_exact, skipn_app_exact. reflexivity.
  - assert (Hlen : length payload = (length dsec + length vals)%nat).
    { rewrite Hpay, !app_length. cbn [length]. lia. }
    unfold ret at 1. unfold bind at 1. cbv beta iota.
    rewrite (read_levels_foreign _ (cc_def_choices ch) (cc_pad ch) (map e_def es) payload 0 vals);
      [| apply bit_width_widths; lia | exact Hdefs | exact Hcd
       | fold dsec; unfold nlen in *; lia
       | lia | rewrite Hpay; reflexivity | exact Hnv ].
    cbn [lift]. unfold ret at 1. unfold bind at 1. cbv beta iota. fold dsec.
    replace (Nat.ltb (length payload) (0 + length dsec)) with false by lia.
    exists s2. split; [|exact Hadv].
    rewrite (count_maxdef c es Hlev). unfold page_reps. rewrite Erep.
    replace (skipn (0 + length dsec) payload) with vals; [reflexivity|].
    rewrite Hpay. cbn [app Nat.add]. rewrite skipn_app_exact. reflexivity.
Qed.

Lemma foreign_page_good codec c ch inj es :
  fpage_pre codec c ch es -> inj_plain inj -> page_good codec c (fpb c ch codec inj es, es).
Proof.
  intros Hpre Hinj. unfold page_good. cbn [fst snd].
  split; [exact (fq_nonempty _ _ _ _ Hpre)|]. split; [apply fpb_pos|].
  split; [exact (fq_levels _ _ _ _ Hpre)|]. split; [exact (fq_typed _ _ _ _ Hpre)|].
  split; [exact (fpage_strs _ _ _ _ Hpre)|].
  destruct (col_required c) eqn:Hreq; [apply foreign_req_step | apply foreign_opt_step]; assumption.
Qed.

(** ** Layer D3: the foreign writer's column chunks *)

Definition fch (fc : file_choice) (g j : nat) : col_choice := pick_choice fc (g * 31 + j).

(** the codec announced in the footer / the codec the bodies are compressed with *)
Definition fcodec (fc : file_choice) (g j : nat) : Z :=
  match col_inj fc g j with ICodec z => z | _ => cc_codec (fch fc g j) end.
Definition fbody_codec (fc : file_choice) (g j : nat) : Z :=
  match col_inj fc g j with ICodec _ => CODEC_UNCOMPRESSED | _ => cc_codec (fch fc g j) end.

(** the entries of the pages of column [j] of row group [g] *)
Definition fpages_es (fs : list field) (fc : file_choice) (g j : nat) (recs : list value) : list (list entry) :=
  let es := column_entries fs j recs in
  split_pages (S (length es)) (cc_page_sizes (fch fc g j)) 1 es.

Definition fdata_pages (fs : list field) (fc : file_choice) (g j : nat) (c : col) (recs : list value) : list fpage :=
  map (fun '(p, pes) => foreign_page compress c (fch fc g j) (fbody_codec fc g j) (inj_for fc g j p) pes)
      (index_from 0 (fpages_es fs fc g j recs)).

Definition fall_pages (fs : list field) (fc : file_choice) (g j : nat) (c : col) (recs : list value) : list fpage :=
  match col_inj fc g j with
  | IDictPage => dict_page compress (fbody_codec fc g j) :: fdata_pages fs fc g j c recs
  | _ => fdata_pages fs fc g j c recs
  end.

Definition fchunk_bytes (fs : list field) (fc : file_choice) (g : nat) (recs : list value) (ic : nat * col) : bytes :=
  concat (map fp_bytes (fall_pages fs fc g (fst ic) (snd ic) recs)).

Lemma foreign_chunk_fst fs fc g j c recs pos :
  fst (foreign_chunk compress fs fc g j c recs pos) = fchunk_bytes fs fc g recs (j, c).
Proof.
  unfold foreign_chunk, fchunk_bytes, fall_pages, fdata_pages, fpages_es, fbody_codec, fch. cbv zeta. cbn [fst snd].
  destruct (col_inj fc g j); reflexivity.
Qed.

Lemma foreign_chunk_meta fs fc g j c recs pos :
  exists cm, cc_meta (snd (foreign_chunk compress fs fc g j c recs pos)) = Some cm /\
             cm_path cm = c_path c /\ cm_codec cm = fcodec fc g j /\
             cm_num_values cm = Z.of_N (sumN (map fp_count (fall_pages fs fc g j c recs))) /\
             cm_total_compressed cm = Z.of_N (nlen (fchunk_bytes fs fc g recs (j, c))).
Proof.
  unfold foreign_chunk, fchunk_bytes, fall_pages, fdata_pages, fpages_es, fbody_codec, fcodec, fch. cbv zeta.
  cbn [fst snd cc_meta]. eexists. split; [reflexivity|].
  cbn [cm_path cm_codec cm_num_values cm_total_compressed].
  destruct (col_inj fc g j); repeat split.
Qed.

Lemma col_inj_none_inj_for fc g j p : col_inj fc g j = INone -> inj_for fc g j p = INone.
Proof.
  unfold col_inj, inj_for. destruct (fc_inject fc) as [[[[g' j'] p'] i]|]; [|reflexivity].
  destruct (Nat.eqb g g' && Nat.eqb j j'); [|reflexivity].
  intros ->. destruct (Nat.eqb p p'); reflexivity.
Qed.

Lemma map_index_from_const {A B} (F : A -> B) (G : nat * A -> B) (l : list A) : forall k,
  (forall p x, G (p, x) = F x) -> map G (index_from k l) = map F l.
Proof.
  induction l as [|x l IH]; intros k HG; [reflexivity|].
  cbn [index_from map]. rewrite HG, (IH (S k) HG). reflexivity.
Qed.

(** the pages of a chunk without injection, as pages of the generic layer *)
Definition fgpages (fs : list field) (fc : file_choice) (g j : nat) (c : col) (recs : list value) : list gpage :=
  map (fun pes => (fpb c (fch fc g j) (cc_codec (fch fc g j)) INone pes, pes)) (fpages_es fs fc g j recs).

Lemma fall_pages_plain fs fc g j c recs :
  col_inj fc g j = INone ->
  fall_pages fs fc g j c recs =
  map (foreign_page compress c (fch fc g j) (cc_codec (fch fc g j)) INone) (fpages_es fs fc g j recs).
Proof.
  intros Hn. unfold fall_pages, fdata_pages, fbody_codec. rewrite Hn.
  apply map_index_from_const. intros p x. rewrite (col_inj_none_inj_for fc g j p Hn). reflexivity.
Qed.

Lemma fpages_es_concat fs fc g j recs : concat (fpages_es fs fc g j recs) = column_entries fs j recs.
Proof. unfold fpages_es. cbv zeta. apply split_pages_ok. lia. Qed.

Lemma fpages_es_nonempty fs fc g j recs : Forall (fun pg => pg <> []) (fpages_es fs fc g j recs).
Proof. unfold fpages_es. cbv zeta. apply split_pages_ok. lia. Qed.

(** the foreign writer's pages start at record boundaries *)
Lemma column_entries_starts0 fs j c recs :
  nth_error (columns fs) j = Some c -> Forall (fun v => has_tyb (TGroup fs) v = true) recs ->
  starts0 (column_entries fs j recs).
Proof.
  intros Hc Hty. destruct Hty as [|v recs Hv _]; [exact I|].
  destruct (column_of_record fs j c Hc v Hv) as (es & Hes & Hnth).
  rewrite column_entries_cons, Hnth.
  pose proof (shred_ty_nonempty (TGroup fs) v 0 0 0 Hv) as Hok.
  fold (shred_record fs v) in Hok. rewrite Forall_forall in Hok.
  specialize (Hok es (nth_error_In _ _ Hes)). destruct es as [|e es]; [destruct Hok|].
  destruct Hok as (Hr & _). exact Hr.
Qed.

Lemma fpages_es_start0 fs fc g j c recs :
  nth_error (columns fs) j = Some c -> Forall (fun v => has_tyb (TGroup fs) v = true) recs ->
  Forall (fun pg => exists e r, pg = e :: r /\ e_rep e = 0) (fpages_es fs fc g j recs).
Proof.
  intros Hc Hty. unfold fpages_es. cbv zeta. apply split_pages_ok; [lia|].
  apply (column_entries_starts0 fs j c recs Hc Hty).
Qed.

Lemma fgpages_entries fs fc g j c recs : gentries (fgpages fs fc g j c recs) = column_entries fs j recs.
Proof.
  unfold gentries, fgpages. rewrite map_map. cbn [snd]. rewrite map_id. apply fpages_es_concat.
Qed.

Lemma fgpages_bytes fs fc g j c recs :
  col_inj fc g j = INone -> gbytes (fgpages fs fc g j c recs) = fchunk_bytes fs fc g recs (j, c).
Proof.
  intros Hn. unfold gbytes, fgpages, fchunk_bytes. cbn [fst snd].
  rewrite (fall_pages_plain fs fc g j c recs Hn), !map_map. reflexivity.
Qed.

Lemma fall_pages_plain_count fs fc g j c recs :
  col_inj fc g j = INone ->
  sumN (map fp_count (fall_pages fs fc g j c recs)) = nlen (column_entries fs j recs).
Proof.
  intros Hn. rewrite (fall_pages_plain fs fc g j c recs Hn), map_map.
  cbn [foreign_page fp_count]. rewrite sumN_map_nlen', fpages_es_concat. reflexivity.
Qed.

(** sizes that must fit the int32 fields of a page header *)
Definition fpage_sizes_ok (codec : Z) (c : col) (ch : col_choice) (es : list entry) : Prop :=
  nlen es < 2 ^ 31 /\ nlen (foreign_payload c ch es) < 2 ^ 31 /\
  nlen (compress codec (foreign_payload c ch es)) < 2 ^ 31.

(** the well-formed shapes *)
Definition fshape_ok (fs : list field) : Prop :=
  ty_okb (TGroup fs) = true /\ NoDup (map c_path (columns fs)) /\
  Forall (fun c => max_def c <= 15 /\ max_rep c <= 15) (columns fs).

Definition fbatch_ok (fs : list field) (recs : list value) : Prop :=
  recs <> [] /\ Forall (fun v => has_tyb (TGroup fs) v = true) recs.

Lemma fpages_pre fs fc g j c recs codec :
  fshape_ok fs -> fbatch_ok fs recs -> nth_error (columns fs) j = Some c -> codec_ok codec ->
  Forall (fpage_sizes_ok codec c (fch fc g j)) (fpages_es fs fc g j recs) ->
  Forall (fpage_pre codec c (fch fc g j)) (fpages_es fs fc g j recs).
Proof.
  intros (_ & _ & Hdepth) (Hne & Hty) Hc Hcod Hsz.
  rewrite Forall_forall in Hsz, Hdepth. destruct (Hdepth c (nth_error_In _ _ Hc)) as [Hd Hr].
  destruct (column_entries_props fs j c Hc recs Hty) as (Hlev & Hval & _).
  rewrite <- (fpages_es_concat fs fc g j recs) in Hlev, Hval.
  pose proof (fpages_es_nonempty fs fc g j recs) as Hnon. rewrite Forall_forall in Hnon.
  apply Forall_forall. intros es Hes. destruct (Hsz es Hes) as (H1 & H2 & H3).
  constructor; auto.
  - unfold lev_ok in *. rewrite Forall_forall in Hlev |- *. intros e He. apply Hlev.
    apply in_concat. exists es. split; assumption.
  - unfold val_ok in Hval. rewrite entry_vals_concat in Hval. rewrite Forall_forall in Hval |- *.
    intros v Hv. apply Hval. apply in_concat. exists (entry_vals es). split; [apply in_map; exact Hes | exact Hv].
Qed.

(** f.Read on a foreign chunk without injection *)
Definition chunk_reads (c : col) (cm : column_meta) (b : bytes) (es : list entry) : Prop :=
  forall s rest, s_fail s = None -> rem s = b ++ rest ->
                 exists s', read_chunk decompress c cm s = Ok (es, s') /\ adv s (length b) s'.

Definition chunk_fails (c : col) (cm : column_meta) (b : bytes) : Prop :=
  forall s rest, s_fail s = None -> rem s = b ++ rest -> read_chunk decompress c cm s = Err.

Theorem foreign_chunk_reads fs fc g j c recs pos :
  fshape_ok fs -> fbatch_ok fs recs -> nth_error (columns fs) j = Some c ->
  col_inj fc g j = INone -> codec_ok (cc_codec (fch fc g j)) ->
  Forall (fpage_sizes_ok (cc_codec (fch fc g j)) c (fch fc g j)) (fpages_es fs fc g j recs) ->
  exists cm, cc_meta (snd (foreign_chunk compress fs fc g j c recs pos)) = Some cm /\
             cm_path cm = c_path c /\
             chunk_reads c cm (fchunk_bytes fs fc g recs (j, c)) (column_entries fs j recs).
Proof.
  intros Hsh Hb Hc Hn Hcod Hsz.
  destruct (foreign_chunk_meta fs fc g j c recs pos) as (cm & Hmeta & Hpath & Hcodec' & Hnv & Htot).
  exists cm. split; [exact Hmeta|]. split; [exact Hpath|].
  intros s rest Hfail Hrem.
  pose proof (fpages_pre fs fc g j c recs _ Hsh Hb Hc Hcod Hsz) as Hpre.
  assert (Hgood : Forall (page_good (cc_codec (fch fc g j)) c) (fgpages fs fc g j c recs)).
  { unfold fgpages. apply Forall_map. eapply Forall_impl; [|exact Hpre]. intros es Hes.
    apply foreign_page_good; [exact Hes | exact I]. }
  rewrite <- (fgpages_bytes fs fc g j c recs Hn) in Hrem |- *.
  rewrite <- (fgpages_entries fs fc g j c recs).
  apply (read_chunk_good _ c _ cm s rest Hgood Hfail Hrem).
  - rewrite Hcodec'. unfold fcodec. rewrite Hn. reflexivity.
  - rewrite Hnv, (fall_pages_plain_count fs fc g j c recs Hn), fgpages_entries. unfold nlen. lia.
  - rewrite Htot, <- (fgpages_bytes fs fc g j c recs Hn). unfold nlen. lia.
Qed.

(** ** Layer E: one row group *)

(** one chunk of a row group: the reader's column index and column, the
    chunk's bytes and the entries it carries *)
Record citem := { ci_idx : nat; ci_col : col; ci_bytes : bytes; ci_es : list entry }.

Definition cc_reads (cols : list col) (x : citem) (cc : column_chunk) : Prop :=
  exists cm, cc_meta cc = Some cm /\ find_col cols (cm_path cm) 0 = Some (ci_idx x, ci_col x) /\
             chunk_reads (ci_col x) cm (ci_bytes x) (ci_es x).

Definition cc_fails (cols : list col) (bad : bytes) (cc : column_chunk) : Prop :=
  exists cm i c, cc_meta cc = Some cm /\ find_col cols (cm_path cm) 0 = Some (i, c) /\ chunk_fails c cm bad.

Definition cbytes (xs : list citem) : bytes := concat (map ci_bytes xs).

Lemma read_chunks_good cols : forall xs ccs acc s rest,
  Forall2 (cc_reads cols) xs ccs -> s_fail s = None -> rem s = cbytes xs ++ rest ->
  exists s',
    read_chunks decompress cols ccs acc s =
    Ok (fold_left (fun a x => set_nth (ci_idx x) (ci_es x) a) xs acc, s') /\
    adv s (length (cbytes xs)) s'.
Proof.
  induction xs as [|x xs IH]; intros ccs acc s rest Hrel Hfail Hrem;
    inversion Hrel as [|x' cc xs' ccs' Hcc Hrel' E1 E2]; subst.
  - exists s. split; [reflexivity | apply adv_refl; exact Hfail].
  - destruct Hcc as (cm & Hmeta & Hfind & Hrd).
    unfold cbytes in *. cbn [map concat] in Hrem |- *. rewrite <- app_assoc in Hrem.
    cbn [read_chunks]. rewrite Hmeta, Hfind.
    destruct (Hrd s _ Hfail Hrem) as (s1 & Hrd1 & Hadv1).
    rewrite (bind_ok _ _ _ _ _ Hrd1).
    destruct (IH ccs' (set_nth (ci_idx x) (ci_es x) acc) s1 rest Hrel'
                 (adv_fail _ _ _ Hadv1) (rem_adv_app _ _ _ _ Hrem Hadv1)) as (s2 & Hrun & Hadv2).
    exists s2. split; [exact Hrun|]. rewrite app_length. exact (adv_trans _ _ _ _ _ Hadv1 Hadv2).
Qed.

Lemma read_chunks_bad cols xs ccs1 bad ccb ccs2 acc s rest :
  Forall2 (cc_reads cols) xs ccs1 -> cc_fails cols bad ccb -> s_fail s = None ->
  rem s = cbytes xs ++ bad ++ rest ->
  read_chunks decompress cols (ccs1 ++ ccb :: ccs2) acc s = Err.
Proof.
  intros Hrel. revert acc s. induction Hrel as [|x cc xs ccs1 Hcc Hrel IH]; intros acc s Hbad Hfail Hrem.
  - destruct Hbad as (cm & i & c & Hmeta & Hfind & Hf). cbn [app read_chunks]. rewrite Hmeta, Hfind.
    unfold bind. rewrite (Hf s rest Hfail Hrem). reflexivity.
  - destruct Hcc as (cm & Hmeta & Hfind & Hrd).
    unfold cbytes in *. cbn [map concat] in Hrem. rewrite <- app_assoc in Hrem.
    cbn [app read_chunks]. rewrite Hmeta, Hfind.
    destruct (Hrd s _ Hfail Hrem) as (s1 & Hrd1 & Hadv1).
    rewrite (bind_ok _ _ _ _ _ Hrd1).
    apply IH; [exact Hbad | exact (adv_fail _ _ _ Hadv1) | exact (rem_adv_app _ _ _ _ Hrem Hadv1)].
Qed.

Definition rg_reads (fs : list field) (rg : row_group) (b : bytes) (recs : list value) : Prop :=
  forall s rest, s_fail s = None -> rem s = b ++ rest ->
                 exists s', read_row_group decompress fs rg s = Ok (recs, s') /\ adv s (length b) s'.

Definition rg_fails (fs : list field) (rg : row_group) (b : bytes) : Prop :=
  forall s rest, s_fail s = None -> rem s = b ++ rest -> read_row_group decompress fs rg s = Err.

Lemma fold_left_map {A B C} (f : A -> B -> A) (h : C -> B) (l : list C) : forall a,
  fold_left f (map h l) a = fold_left (fun a x => f a (h x)) l a.
Proof. induction l as [|x l IH]; intros a; [reflexivity|]. cbn [map fold_left]. apply IH. Qed.

(** the chunks of row group [g] of the foreign writer *)
Definition fitem (fs : list field) (fc : file_choice) (g : nat) (recs : list value) (ic : nat * col) : citem :=
  {| ci_idx := fst ic; ci_col := snd ic; ci_bytes := fchunk_bytes fs fc g recs ic;
     ci_es := column_entries fs (fst ic) recs |}.

Definition frg_bytes (fs : list field) (fc : file_choice) (g : nat) (recs : list value) : bytes :=
  concat (map (fchunk_bytes fs fc g recs) (index_from 0 (columns fs))).

(** a footer column chunk is the one the foreign writer lays out for [ic] (at some position) *)
Definition fcc_of (fs : list field) (fc : file_choice) (g : nat) (recs : list value) (ic : nat * col)
           (cc : column_chunk) : Prop :=
  exists pos, cc = snd (foreign_chunk compress fs fc g (fst ic) (snd ic) recs pos).

Lemma foreign_chunks_spec fs fc g recs : forall ics pos,
  fst (fst (foreign_chunks compress fs fc g ics recs pos)) = concat (map (fchunk_bytes fs fc g recs) ics) /\
  Forall2 (fcc_of fs fc g recs) ics (snd (fst (foreign_chunks compress fs fc g ics recs pos))).
Proof.
  induction ics as [|[j c] ics IH]; intros pos; [split; [reflexivity|constructor]|].
  cbn [foreign_chunks].
  pose proof (foreign_chunk_fst fs fc g j c recs pos) as Hb.
  destruct (foreign_chunk compress fs fc g j c recs pos) as [b cc] eqn:Ech.
  specialize (IH (pos + nlen b)).
  destruct (foreign_chunks compress fs fc g ics recs (pos + nlen b)) as [[bs ccs] pos'].
  cbn [fst snd] in *. destruct IH as [IH1 IH2]. split.
  - cbn [map concat]. rewrite IH1, Hb. reflexivity.
  - constructor; [|exact IH2]. exists pos. cbn [fst snd]. rewrite Ech. reflexivity.
Qed.

(** what the theorems assume about row group [g] holding [recs] *)
Definition frg_pre (fs : list field) (fc : file_choice) (g : nat) (recs : list value) : Prop :=
  fbatch_ok fs recs /\
  forall j c, nth_error (columns fs) j = Some c ->
    codec_ok (cc_codec (fch fc g j)) /\
    Forall (fpage_sizes_ok (fbody_codec fc g j) c (fch fc g j)) (fpages_es fs fc g j recs).

Lemma fcc_reads fs fc g recs ic cc :
  fshape_ok fs -> frg_pre fs fc g recs -> In ic (index_from 0 (columns fs)) ->
  col_inj fc g (fst ic) = INone ->
  fcc_of fs fc g recs ic cc -> cc_reads (columns fs) (fitem fs fc g recs ic) cc.
Proof.
  intros Hsh [Hb Hcols] Hin Hn [pos ->]. destruct ic as [j c]. cbn [fst snd] in *.
  destruct (index_from_nth_error _ 0 j c Hin) as [_ Hnth]. rewrite Nat.sub_0_r in Hnth.
  destruct (Hcols j c Hnth) as [Hcod Hsz]. unfold fbody_codec in Hsz. rewrite Hn in Hsz.
  destruct (foreign_chunk_reads fs fc g j c recs pos Hsh Hb Hnth Hn Hcod Hsz) as (cm & Hmeta & Hpath & Hrd).
  exists cm. split; [exact Hmeta|]. split; [|exact Hrd].
  cbn [fitem ci_idx ci_col]. rewrite Hpath. destruct Hsh as (_ & Hnd & _).
  rewrite (find_col_nth _ j c 0 Hnd Hnth). reflexivity.
Qed.

Lemma Forall2_impl_In {A B} (R R' : A -> B -> Prop) l l' :
  (forall x y, In x l -> R x y -> R' x y) -> Forall2 R l l' -> Forall2 R' l l'.
Proof.
  intros H HF. induction HF as [|x y l l' Hxy _ IH]; constructor.
  - apply H; [left; reflexivity | exact Hxy].
  - apply IH. intros a b Ha. apply H. right. exact Ha.
Qed.

Lemma Forall2_map_l {A B C} (R : B -> C -> Prop) (f : A -> B) l l' :
  Forall2 (fun x y => R (f x) y) l l' -> Forall2 R (map f l) l'.
Proof. induction 1; cbn [map]; constructor; assumption. Qed.

(** assembling what the chunks of one row group delivered *)
Lemma assemble_columns fs recs :
  fshape_ok fs -> fbatch_ok fs recs ->
  assemble_records fs
    (fold_left (fun a (ic : nat * col) => set_nth (fst ic) (column_entries fs (fst ic) recs) a)
               (index_from 0 (columns fs)) (repeat [] (length (columns fs)))) = Some recs.
Proof.
  intros (Htyok & _ & _) (Hne & Hty).
  pose proof (fold_set_nth (fun i => column_entries fs i recs) (columns fs) 0 [] (repeat [] (length (columns fs)))
                eq_refl (repeat_length _ _)) as Hfold.
  cbn [app] in Hfold. rewrite Hfold, columns_length, <- (shred_records_columns fs recs Hne Hty).
  apply assemble_shred_records; assumption.
Qed.

Theorem foreign_rg_reads fs fc g recs rg :
  fshape_ok fs -> frg_pre fs fc g recs ->
  (forall j, col_inj fc g j = INone) ->
  Forall2 (fcc_of fs fc g recs) (index_from 0 (columns fs)) (rg_columns rg) ->
  rg_reads fs rg (frg_bytes fs fc g recs) recs.
Proof.
  intros Hsh Hpre Hn Hccs s rest Hfail Hrem.
  set (cols := columns fs) in *.
  assert (Hrel : Forall2 (cc_reads cols) (map (fitem fs fc g recs) (index_from 0 cols)) (rg_columns rg)).
  { apply Forall2_map_l. eapply Forall2_impl_In; [|exact Hccs]. intros ic cc Hin Hcc.
    apply (fcc_reads fs fc g recs ic cc Hsh Hpre Hin (Hn _) Hcc). }
  assert (Hb : cbytes (map (fitem fs fc g recs) (index_from 0 cols)) = frg_bytes fs fc g recs).
  { unfold cbytes, frg_bytes. rewrite map_map. reflexivity. }
  rewrite <- Hb in Hrem |- *.
  destruct (read_chunks_good cols _ _ (repeat [] (length cols)) s rest Hrel Hfail Hrem) as (s' & Hrun & Hadv).
  unfold read_row_group. cbv zeta. fold cols. rewrite (bind_ok _ _ _ _ _ Hrun). unfold ret.
  exists s'. split; [|exact Hadv]. rewrite fold_left_map. cbn [fitem ci_idx ci_es].
  unfold cols. rewrite (assemble_columns fs recs Hsh (proj1 Hpre)). reflexivity.
Qed.

(** ** Layer F: the whole file, generically: the row groups are given by their
    records, their footer entry and their bytes *)

Record ritem := { ri_recs : list value; ri_rg : row_group; ri_bytes : bytes }.

(** a row group may hold no record at all: the loop of Next skips it *)
Definition ritem_ok (fs : list field) (x : ritem) : Prop :=
  rg_num_rows (ri_rg x) = Z.of_nat (length (ri_recs x)) /\
  rg_reads fs (ri_rg x) (ri_bytes x) (ri_recs x).

Definition rbytes (items : list ritem) : bytes := concat (map ri_bytes items).
Definition rrecs (items : list ritem) : list value := concat (map ri_recs items).

(** Next/Scan over the records already loaded *)
Lemma iterate_drain fs rows : forall cur f cursor rgcursor rgcount rgs nexts recs s,
  (rgcount - rgcursor = Z.of_nat (length cur))%Z -> (Z.of_nat (length cur) <= rows - cursor)%Z ->
  exists cursor' rc nexts',
    iterate decompress (length cur + f) fs rows cursor rgcursor rgcount cur rgs nexts recs s =
    iterate decompress f fs rows cursor' rc rgcount [] rgs nexts' (recs ++ cur) s /\
    cursor' = (cursor + Z.of_nat (length cur))%Z /\ nexts' = nexts + N.of_nat (length cur) /\
    (rgcount <= rc)%Z.
Proof using decompress. clear compress Hcodec Hident.
  induction cur as [|x cur IH]; intros f cursor rgcursor rgcount rgs nexts recs s Hrg Hrows.
  - exists cursor, rgcursor, nexts. cbn [length Nat.add] in *. rewrite app_nil_r.
    split; [reflexivity|]. repeat split; lia.
  - cbn [length Nat.add] in *. cbn [iterate].
    replace (rows <=? cursor)%Z with false by lia.
    replace (rgcount <=? rgcursor)%Z with false by lia. cbn [hd tl].
    destruct (IH f (cursor + 1)%Z (rgcursor + 1)%Z rgcount rgs (nexts + 1) (recs ++ [x]) s)
      as (cursor' & rc & nexts' & Hrun & Hc & Hn & Hrc); [lia | lia |].
    exists cursor', rc, nexts'. rewrite Hrun, <- app_assoc. split; [reflexivity|]. repeat split; lia.
Qed.

Lemma rbytes_cons x items : rbytes (x :: items) = ri_bytes x ++ rbytes items.
Proof. reflexivity. Qed.
Lemma rrecs_cons x items : rrecs (x :: items) = ri_recs x ++ rrecs items.
Proof. reflexivity. Qed.

(** once the loaded row group is used up ([rgcount <= rgcursor]) the two
    counters and [cur] are dead: the next call of Next overwrites them *)
Lemma iterate_reload fuel fs rows cursor rc rn cur rgs nexts recs s :
  (rn <= rc)%Z ->
  iterate decompress fuel fs rows cursor rc rn cur rgs nexts recs s =
  iterate decompress fuel fs rows cursor 0 0 [] rgs nexts recs s.
Proof using decompress. clear compress Hcodec Hident.
  intros Hrc. destruct fuel as [|f]; [reflexivity|]. cbn [iterate].
  replace (rn <=? rc)%Z with true by lia. replace (0 <=? 0)%Z with true by lia. reflexivity.
Qed.

(** ... and a row group without rows at the head of the list is read and skipped *)
Lemma iterate_skip_empty fuel fs rows cursor rg rest nexts recs s recs0 s1 :
  read_row_group decompress fs rg s = Ok (recs0, s1) -> (rg_num_rows rg <= 0)%Z ->
  iterate decompress fuel fs rows cursor 0 0 [] (rg :: rest) nexts recs s =
  iterate decompress fuel fs rows cursor 0 0 [] rest nexts recs s1.
Proof using decompress. clear compress Hcodec Hident.
  intros Hrd Hnr. destruct fuel as [|f]; [reflexivity|]. cbn [iterate].
  destruct (rows <=? cursor)%Z; [reflexivity|].
  replace (0 <=? 0)%Z with true by lia. cbn [load_nonempty]. rewrite Hrd.
  replace (0 <? rg_num_rows rg)%Z with false by lia. reflexivity.
Qed.

(** Next/Scan over the loaded records and then over the row groups [items]
    (any of which may be empty) *)
Lemma iterate_prefix fs rows : forall items cur f cursor rgcursor rgcount rgs2 nexts recs s tailb,
  Forall (ritem_ok fs) items -> s_fail s = None -> rem s = rbytes items ++ tailb ->
  (rgcount - rgcursor = Z.of_nat (length cur))%Z ->
  (Z.of_nat (length cur + length (rrecs items)) <= rows - cursor)%Z ->
  exists s' rc rn cursor' nexts',
    iterate decompress (length cur + length (rrecs items) + f) fs rows cursor rgcursor rgcount cur
            (map ri_rg items ++ rgs2) nexts recs s =
    iterate decompress f fs rows cursor' rc rn [] rgs2 nexts' (recs ++ cur ++ rrecs items) s' /\
    cursor' = (cursor + Z.of_nat (length cur + length (rrecs items)))%Z /\
    nexts' = nexts + N.of_nat (length cur + length (rrecs items)) /\
    (rn <= rc)%Z /\ s_fail s' = None /\ rem s' = tailb.
Proof using decompress. clear compress Hcodec Hident.
  induction items as [|x items IH]; intros cur f cursor rgcursor rgcount rgs2 nexts recs s tailb
                                            Hok Hfail Hrem Hrg Hrows.
  - cbn [rrecs rbytes map concat length app] in *. rewrite Nat.add_0_r in *. rewrite app_nil_r.
    destruct (iterate_drain fs rows cur f cursor rgcursor rgcount rgs2 nexts recs s Hrg Hrows)
      as (cursor' & rc & nexts' & Hrun & Hc & Hn & Hrc).
    exists s, rc, rgcount, cursor', nexts'. rewrite Hrun. split; [reflexivity|]. repeat split; auto.
  - inversion Hok as [|x' items' (Hnr & Hrd) Hok']; subst x' items'.
    rewrite rbytes_cons, <- app_assoc in Hrem. rewrite rrecs_cons, app_length in Hrows |- *.
    destruct (Hrd s _ Hfail Hrem) as (s1 & Hrd1 & Hadv1).
    destruct (iterate_drain fs rows cur (length (ri_recs x) + length (rrecs items) + f) cursor rgcursor rgcount
                (map ri_rg (x :: items) ++ rgs2) nexts recs s Hrg) as (cursor1 & rc1 & nexts1 & Hrun1 & Hc1 & Hn1 & Hrc1); [lia|].
    replace (length cur + (length (ri_recs x) + length (rrecs items)) + f)%nat
      with (length cur + (length (ri_recs x) + length (rrecs items) + f))%nat by lia.
    rewrite Hrun1, (iterate_reload _ _ _ _ _ _ _ _ _ _ _ Hrc1).
    cbn [map app].
    destruct (ri_recs x) as [|r0 rs] eqn:Erecs; cbn [length] in Hrows, Hnr |- *.
    + (* an empty row group: read, skipped *)
      rewrite (iterate_skip_empty _ _ _ _ _ _ _ _ _ _ _ Hrd1) by lia. cbn [Nat.add].
      destruct (IH [] f cursor1 0%Z 0%Z rgs2 nexts1 (recs ++ cur) s1 tailb Hok'
                   (adv_fail _ _ _ Hadv1) (rem_adv_app _ _ _ _ Hrem Hadv1))
        as (s' & rc & rn & cursor' & nexts' & Hrun & Hc & Hn & Hrc & Hf' & Hrem'); [reflexivity | cbn [length]; lia |].
      cbn [length Nat.add app] in Hrun, Hc, Hn.
      exists s', rc, rn, cursor', nexts'. rewrite Hrun. split.
      * f_equal. rewrite <- app_assoc. reflexivity.
      * repeat split; auto; lia.
    + cbn [Nat.add iterate].
      replace (rows <=? cursor1)%Z with false by lia.
      replace (0 <=? 0)%Z with true by lia.
      rewrite (load_nonempty_first _ _ _ _ _ _ _ Hrd1) by lia. cbn [hd tl].
      destruct (IH rs f (cursor1 + 1)%Z (0 + 1)%Z (rg_num_rows (ri_rg x)) rgs2 (nexts1 + 1)
                   ((recs ++ cur) ++ [r0]) s1 tailb Hok' (adv_fail _ _ _ Hadv1) (rem_adv_app _ _ _ _ Hrem Hadv1))
        as (s' & rc & rn & cursor' & nexts' & Hrun & Hc & Hn & Hrc & Hf' & Hrem'); [lia | lia |].
      exists s', rc, rn, cursor', nexts'. rewrite Hrun. split.
      * f_equal. rewrite <- !app_assoc. reflexivity.
      * repeat split; auto; lia.
Qed.

(** the checks of Metadata.Pages on the footer *)
Definition footer_checks (fs : list field) (fm : file_meta) : Prop :=
  forallb (fun rg => forallb (fun cc => match cc_meta cc with
                                        | Some cm => match find_col (columns fs) (cm_path cm) 0 with
                                                     | Some _ => true | None => false end
                                        | None => true end) (rg_columns rg)) (fm_row_groups fm) = true /\
  forallb (fun rg => forallb (fun cc => match cc_meta cc with Some _ => true | None => false end)
                             (rg_columns rg)) (fm_row_groups fm) = true.

Definition trailer (fm : file_meta) : bytes :=
  enc_file_meta fm ++ le_enc 4 (nlen (enc_file_meta fm) mod 2 ^ 32) ++ magic.

(** NewParquetReader's ReadMetaData + Pages + Seek(4) on any file laid out as
    magic, data, footer, footer length, magic *)
Lemma open_footer_gen fs fm D s0 :
  file_meta_ok fm = true -> nlen (enc_file_meta fm) < 2 ^ 32 -> footer_checks fs fm ->
  s_fail s0 = None -> s_file s0 = magic ++ D ++ trailer fm ->
  exists s1, open_footer fs s0 = Ok (fm, s1) /\ s_fail s1 = None /\ rem s1 = D ++ trailer fm.
Proof.
  intros Hfm Hlen [Hchk1 Hchk2] Hfail Hfile. unfold trailer in *.
  set (ft := enc_file_meta fm) in *. set (le4 := le_enc 4 (nlen ft mod 2 ^ 32)) in *.
  assert (Hle4 : length le4 = 4%nat) by apply le_enc_length.
  assert (HlenF : nlen (s_file s0) = 4 + nlen D + nlen ft + 4 + 4).
  { rewrite Hfile. unfold nlen. rewrite !app_length, Hle4, magic_length. lia. }
  unfold open_footer.
  destruct (m_seek_end_ok (-8) s0 Hfail) as (s1 & H1 & Hf1 & Hn1 & Hp1); [lia|].
  rewrite (bind_ok _ _ _ _ _ H1).
  assert (Hrem1 : rem s1 = le4 ++ magic).
  { apply (rem_at s1 (magic ++ D ++ ft)).
    - rewrite Hf1, Hfile, <- !app_assoc. reflexivity.
    - rewrite Hp1, HlenF. unfold nlen. rewrite !app_length, magic_length. lia. }
  destruct (m_read_full_ok s1 le4 magic Hn1 Hrem1) as (s2 & H2 & Hadv2). rewrite Hle4 in H2.
  rewrite (bind_ok _ _ _ _ _ H2).
  assert (Hdec : le_dec le4 = nlen ft).
  { unfold le4. rewrite le_dec_enc.
    - apply N.mod_small. exact Hlen.
    - rewrite pow256_4. rewrite pow32 in Hlen |- *. lia. }
  rewrite Hdec. destruct Hadv2 as (Hf2 & Hn2 & _).
  destruct (m_seek_end_ok (- (Z.of_N (nlen ft) + 8)) s2 Hn2) as (s3 & H3 & Hf3 & Hn3 & Hp3).
  { rewrite Hf2, Hf1, HlenF. lia. }
  rewrite (bind_ok _ _ _ _ _ H3).
  assert (Hrem3 : rem s3 = ft ++ le4 ++ magic).
  { apply (rem_at s3 (magic ++ D)).
    - rewrite Hf3, Hf2, Hf1, Hfile, <- !app_assoc. reflexivity.
    - rewrite Hp3, Hf2, Hf1, HlenF. unfold nlen. rewrite !app_length, magic_length. lia. }
  destruct (m_read_struct_ok dec_file_meta s3 fm ft (le4 ++ magic) Hn3 Hrem3) as (s4 & H4 & Hadv4).
  { apply dec_enc_file_meta. exact Hfm. }
  rewrite (bind_ok _ _ _ _ _ H4). destruct Hadv4 as (Hf4 & Hn4 & _).
  rewrite Hchk1, Hchk2.
  destruct (m_seek_start_ok 4 s4 Hn4) as (s5 & H5 & Hf5 & Hn5 & Hp5); [lia|].
  rewrite (bind_ok _ _ _ _ _ H5). unfold ret. exists s5. split; [reflexivity|].
  split; [exact Hn5|].
  apply (rem_at s5 magic).
  - rewrite Hf5, Hf4, Hf3, Hf2, Hf1, Hfile. reflexivity.
  - rewrite Hp5. reflexivity.
Qed.

Lemma iterate_end f fs rows cursor rc rn rgs nexts recs s :
  (rows <= cursor)%Z ->
  iterate decompress (S f) fs rows cursor rc rn [] rgs nexts recs s = mk_outcome rows nexts false false recs.
Proof using decompress. clear compress Hcodec Hident. intros H. cbn [iterate]. replace (rows <=? cursor)%Z with true by lia. reflexivity. Qed.

(** every row group readable: the reader returns all the records *)
Theorem read_all_good fs fm items sched :
  file_meta_ok fm = true -> nlen (enc_file_meta fm) < 2 ^ 32 -> footer_checks fs fm ->
  fm_row_groups fm = map ri_rg items -> fm_num_rows fm = Z.of_nat (length (rrecs items)) ->
  Forall (ritem_ok fs) items ->
  read_all_src decompress fs (mk_src (magic ++ rbytes items ++ trailer fm) sched None) =
  {| o_open_ok := true;
     o_rows := Z.of_nat (length (rrecs items));
     o_nexts := N.of_nat (length (rrecs items));
     o_err := false; o_panic := false;
     o_recs := rrecs items |}.
Proof.
  intros Hfm Hlen Hchk Hrgs Hrows Hok. unfold read_all_src.
  destruct (open_footer_gen fs fm (rbytes items) (mk_src (magic ++ rbytes items ++ trailer fm) sched None)
              Hfm Hlen Hchk eq_refl eq_refl) as (s1 & Hopen & Hfail1 & Hrem1).
  rewrite Hopen. cbv zeta. rewrite Hrgs, Hrows. destruct items as [|x items].
  - cbn [map rrecs concat length]. cbn [Z.of_nat Z.to_nat]. rewrite iterate_end by lia. reflexivity.
  - inversion Hok as [|x' items' (Hnr & Hrd) Hok']; subst x' items'.
    cbn [map]. rewrite rbytes_cons, <- app_assoc in Hrem1.
    destruct (Hrd s1 _ Hfail1 Hrem1) as (s2 & Hrd2 & Hadv2). rewrite Hrd2.
    rewrite rrecs_cons, app_length.
    destruct (iterate_prefix fs (Z.of_nat (length (ri_recs x) + length (rrecs items))) items (ri_recs x) 1
                0%Z 0%Z (rg_num_rows (ri_rg x)) [] 0 [] s2 (trailer fm) Hok'
                (adv_fail _ _ _ Hadv2) (rem_adv_app _ _ _ _ Hrem1 Hadv2))
      as (s' & rc & rn & cursor' & nexts' & Hrun & Hc & Hn & Hrc & _ & _); [lia | lia |].
    rewrite app_nil_r in Hrun.
    replace (S (Z.to_nat (Z.of_nat (length (ri_recs x) + length (rrecs items)))))
      with (length (ri_recs x) + length (rrecs items) + 1)%nat by lia.
    rewrite Hrun, iterate_end by lia. unfold mk_outcome. cbn [app]. f_equal. lia.
Qed.

(** the row groups [items] readable, the next one refused: the reader delivers
    the records of [items] and reports an error (from the constructor when
    [items] is empty) *)
Theorem read_all_bad fs fm items rgb bad rgs2 Dtail sched :
  file_meta_ok fm = true -> nlen (enc_file_meta fm) < 2 ^ 32 -> footer_checks fs fm ->
  fm_row_groups fm = map ri_rg items ++ rgb :: rgs2 ->
  (Z.of_nat (length (rrecs items)) < fm_num_rows fm)%Z ->
  Forall (ritem_ok fs) items -> rg_fails fs rgb bad ->
  let o := read_all_src decompress fs (mk_src (magic ++ (rbytes items ++ bad ++ Dtail) ++ trailer fm) sched None) in
  o_panic o = false /\ (o_open_ok o = false \/ o_err o = true) /\ o_recs o = rrecs items /\
  (items = [] -> o_open_ok o = false) /\ (items <> [] -> o_open_ok o = true /\ o_err o = true).
Proof.
  intros Hfm Hlen Hchk Hrgs Hrows Hok Hbad. cbv zeta. unfold read_all_src.
  destruct (open_footer_gen fs fm (rbytes items ++ bad ++ Dtail)
              (mk_src (magic ++ (rbytes items ++ bad ++ Dtail) ++ trailer fm) sched None)
              Hfm Hlen Hchk eq_refl eq_refl) as (s1 & Hopen & Hfail1 & Hrem1).
  rewrite Hopen. cbv zeta. rewrite Hrgs. destruct items as [|x items].
  - cbn [map app rbytes concat] in Hrem1 |- *. rewrite <- app_assoc in Hrem1.
    rewrite (Hbad s1 _ Hfail1 Hrem1). cbn. repeat split; auto; intros H; congruence.
  - inversion Hok as [|x' items' (Hnr & Hrd) Hok']; subst x' items'.
    cbn [map app]. rewrite rbytes_cons, <- !app_assoc in Hrem1.
    destruct (Hrd s1 _ Hfail1 Hrem1) as (s2 & Hrd2 & Hadv2). rewrite Hrd2.
    rewrite rrecs_cons, app_length in Hrows.
    set (rows := fm_num_rows fm) in *.
    destruct (iterate_prefix fs rows items (ri_recs x)
                (S (Z.to_nat rows) - (length (ri_recs x) + length (rrecs items)))%nat
                0%Z 0%Z (rg_num_rows (ri_rg x)) (rgb :: rgs2) 0 [] s2 (bad ++ Dtail ++ trailer fm) Hok'
                (adv_fail _ _ _ Hadv2) (rem_adv_app _ _ _ _ Hrem1 Hadv2))
      as (s' & rc & rn & cursor' & nexts' & Hrun & Hc & Hn & Hrc & Hf' & Hrem'); [lia | lia |].
    replace (length (ri_recs x) + length (rrecs items) +
             (S (Z.to_nat rows) - (length (ri_recs x) + length (rrecs items))))%nat
      with (S (Z.to_nat rows)) in Hrun by lia.
    rewrite Hrun.
    replace (S (Z.to_nat rows) - (length (ri_recs x) + length (rrecs items)))%nat
      with (S (Z.to_nat rows - (length (ri_recs x) + length (rrecs items)))) by lia.
    cbn [iterate]. replace (rows <=? cursor')%Z with false by lia.
    replace (rn <=? rc)%Z with true by lia. cbn [load_nonempty]. rewrite (Hbad s' _ Hf' Hrem').
    cbn [mk_outcome o_panic o_open_ok o_err o_recs app]. rewrite rrecs_cons.
    repeat split; auto; intros H; congruence.
Qed.

(** ** Layer G: the foreign writer's file *)

Fixpoint all_from {A} (P : nat -> A -> Prop) (g : nat) (l : list A) : Prop :=
  match l with [] => True | x :: r => P g x /\ all_from P (S g) r end.

Lemma all_from_intro {A} (P : nat -> A -> Prop) (l : list A) : forall g,
  (forall k x, nth_error l k = Some x -> P (g + k)%nat x) -> all_from P g l.
Proof.
  induction l as [|x l IH]; intros g H; [exact I|]. cbn [all_from]. split.
  - rewrite <- (Nat.add_0_r g). apply H. reflexivity.
  - apply IH. intros k y Hk. replace (S g + k)%nat with (g + S k)%nat by lia. apply H. exact Hk.
Qed.

Lemma all_from_app {A} (P : nat -> A -> Prop) (a b : list A) : forall g,
  all_from P g (a ++ b) <-> all_from P g a /\ all_from P (g + length a) b.
Proof.
  induction a as [|x a IH]; intros g; cbn [app all_from length].
  - rewrite Nat.add_0_r. tauto.
  - rewrite IH. replace (S g + length a)%nat with (g + S (length a))%nat by lia. tauto.
Qed.

Lemma all_from_impl {A} (P Q : nat -> A -> Prop) (l : list A) : forall g,
  (forall k x, P k x -> Q k x) -> all_from P g l -> all_from Q g l.
Proof. induction l as [|x l IH]; intros g H; cbn [all_from]; [tauto|]. intros [H1 H2]. split; auto. Qed.

Definition foreign_footer (fs : list field) (fc : file_choice) (batches : list (list value)) : file_meta :=
  {| fm_version := 1;
     fm_schema := schema_of (columns fs);
     fm_num_rows := Z.of_nat (length (concat batches));
     fm_row_groups := snd (foreign_row_groups compress fs fc 0 batches 4);
     fm_key_value := if fc_key_value fc
                     then Some [ {| kv_key := [107]; kv_value := Some [118] |}; {| kv_key := [120]; kv_value := None |} ]
                     else None;
     fm_created_by := fc_created_by fc |}.

Lemma foreign_file_layout fs fc batches :
  foreign_file compress fs fc batches =
  magic ++ fst (foreign_row_groups compress fs fc 0 batches 4) ++ trailer (foreign_footer fs fc batches).
Proof.
  unfold foreign_file, foreign_footer, trailer.
  destruct (foreign_row_groups compress fs fc 0 batches 4) as [body rgs]. reflexivity.
Qed.

(** row group [g] of the foreign writer, as an item of the generic layer *)
Definition frg_item (fs : list field) (fc : file_choice) (g : nat) (x : ritem) : Prop :=
  rg_num_rows (ri_rg x) = Z.of_nat (length (ri_recs x)) /\
  ri_bytes x = frg_bytes fs fc g (ri_recs x) /\
  Forall2 (fcc_of fs fc g (ri_recs x)) (index_from 0 (columns fs)) (rg_columns (ri_rg x)).

Lemma foreign_row_groups_spec fs fc : forall batches g pos,
  exists items, foreign_row_groups compress fs fc g batches pos = (rbytes items, map ri_rg items) /\
                map ri_recs items = batches /\ all_from (frg_item fs fc) g items.
Proof.
  induction batches as [|recs batches IH]; intros g pos.
  - exists []. repeat split.
  - cbn [foreign_row_groups].
    destruct (foreign_chunks_spec fs fc g recs (index_from 0 (columns fs)) pos) as [Hb Hccs].
    destruct (foreign_chunks compress fs fc g (index_from 0 (columns fs)) recs pos) as [[b ccs] pos'].
    cbn [fst snd] in Hb, Hccs.
    destruct (IH (S g) pos') as (items & Heq & Hrecs & Hall). rewrite Heq.
    eexists ({| ri_recs := recs; ri_rg := _; ri_bytes := b |} :: items).
    split; [reflexivity|]. split; [cbn [map ri_recs]; rewrite Hrecs; reflexivity|].
    cbn [all_from]. split; [|exact Hall].
    unfold frg_item. cbn [ri_rg ri_recs ri_bytes rg_num_rows rg_columns].
    split; [reflexivity|]. split; [exact Hb | exact Hccs].
Qed.

Lemma fcc_checks fs fc g recs ccs :
  NoDup (map c_path (columns fs)) ->
  Forall2 (fcc_of fs fc g recs) (index_from 0 (columns fs)) ccs ->
  forallb (fun cc => match cc_meta cc with
                     | Some cm => match find_col (columns fs) (cm_path cm) 0 with
                                  | Some _ => true | None => false end
                     | None => true end) ccs = true /\
  forallb (fun cc => match cc_meta cc with Some _ => true | None => false end) ccs = true.
Proof.
  intros Hnd Hrel.
  split; apply forallb_forall; intros cc Hin;
    destruct (Forall2_In_r _ _ _ _ Hrel Hin) as ([j c] & Hic & [pos ->]); cbn [fst snd];
    destruct (foreign_chunk_meta fs fc g j c recs pos) as (cm & Hmeta & Hpath & _);
    rewrite Hmeta; [|reflexivity].
  destruct (index_from_nth_error _ 0 j c Hic) as [_ Hnth]. rewrite Nat.sub_0_r in Hnth.
  rewrite Hpath, (find_col_nth _ j c 0 Hnd Hnth). reflexivity.
Qed.

Lemma foreign_footer_checks fs fc : forall items g fm,
  NoDup (map c_path (columns fs)) -> all_from (frg_item fs fc) g items ->
  fm_row_groups fm = map ri_rg items -> footer_checks fs fm.
Proof.
  intros items g fm Hnd Hall Hrgs. unfold footer_checks. rewrite Hrgs. clear Hrgs.
  revert g Hall. induction items as [|x items IH]; intros g Hall; [split; reflexivity|].
  destruct Hall as [(_ & _ & Hccs) Hall]. destruct (IH (S g) Hall) as [I1 I2].
  destruct (fcc_checks fs fc g (ri_recs x) _ Hnd Hccs) as [H1 H2].
  cbn [map forallb]. rewrite H1, H2, I1, I2. split; reflexivity.
Qed.

(** readable row groups *)
Lemma items_ok fs fc :
  fshape_ok fs -> forall items g,
  all_from (frg_item fs fc) g items ->
  all_from (fun g recs => frg_pre fs fc g recs /\ forall j, col_inj fc g j = INone) g (map ri_recs items) ->
  Forall (ritem_ok fs) items.
Proof.
  intros Hsh. induction items as [|x items IH]; intros g Hit Hpre; [constructor|].
  destruct Hit as [(Hnr & Hb & Hccs) Hit]. cbn [map all_from] in Hpre. destruct Hpre as [[Hp Hn] Hpre].
  constructor; [|exact (IH (S g) Hit Hpre)].
  split; [exact Hnr|]. rewrite Hb.
  apply (foreign_rg_reads fs fc g (ri_recs x) (ri_rg x) Hsh Hp Hn Hccs).
Qed.

Definition choices_ok (fc : file_choice) : Prop := Forall (fun ch => codec_ok (cc_codec ch)) (fc_cols fc).

Lemma pick_choice_codec fc k : choices_ok fc -> codec_ok (cc_codec (pick_choice fc k)).
Proof.
  unfold choices_ok, pick_choice. intros H. destruct (fc_cols fc) as [|c0 l] eqn:E.
  - left. reflexivity.
  - rewrite Forall_forall in H. apply H. apply nth_In. apply Nat.mod_upper_bound. discriminate.
Qed.

(** the size guards: every count and length written into an int32 header
    field fits, and the footer is in the thrift codec's domain *)
Definition fsizes_ok (fs : list field) (fc : file_choice) (batches : list (list value)) : Prop :=
  (forall g recs j c, nth_error batches g = Some recs -> nth_error (columns fs) j = Some c ->
     Forall (fpage_sizes_ok (fbody_codec fc g j) c (fch fc g j)) (fpages_es fs fc g j recs)) /\
  file_meta_ok (foreign_footer fs fc batches) = true /\
  nlen (enc_file_meta (foreign_footer fs fc batches)) < 2 ^ 32.

Lemma rrecs_eq items : rrecs items = concat (map ri_recs items).
Proof. reflexivity. Qed.

(** ** C04: every legal physical encoding of the same content is read back exactly *)
Theorem foreign_read_ok_src fs fc batches sched :
  fshape_ok fs -> Forall (fbatch_ok fs) batches -> choices_ok fc -> fc_inject fc = None ->
  fsizes_ok fs fc batches ->
  read_all_src decompress fs (mk_src (foreign_file compress fs fc batches) sched None) =
  {| o_open_ok := true;
     o_rows := Z.of_nat (length (concat batches));
     o_nexts := N.of_nat (length (concat batches));
     o_err := false; o_panic := false;
     o_recs := concat batches |}.
Proof.
  intros Hsh Hb Hch Hinj (Hsz & Hfm & Hlen).
  rewrite foreign_file_layout.
  destruct (foreign_row_groups_spec fs fc batches 0 4) as (items & Heq & Hrecs & Hall).
  assert (Hrgs : fm_row_groups (foreign_footer fs fc batches) = map ri_rg items).
  { cbn [foreign_footer fm_row_groups]. rewrite Heq. reflexivity. }
  rewrite Heq. cbn [fst].
  assert (Hcat : rrecs items = concat batches) by (rewrite rrecs_eq, Hrecs; reflexivity).
  rewrite <- Hcat.
  apply read_all_good; auto.
  - apply (foreign_footer_checks fs fc items 0); [exact (proj1 (proj2 Hsh)) | exact Hall | exact Hrgs].
  - cbn [foreign_footer fm_num_rows]. rewrite Hcat. reflexivity.
  - apply (items_ok fs fc Hsh items 0 Hall). rewrite Hrecs. apply all_from_intro.
    intros k recs Hk. cbn [Nat.add]. split.
    + split.
      * rewrite Forall_forall in Hb. apply Hb. exact (nth_error_In _ _ Hk).
      * intros j c Hc. split; [apply pick_choice_codec; exact Hch | exact (Hsz k recs j c Hk Hc)].
    + intros j. unfold col_inj. rewrite Hinj. reflexivity.
Qed.

Theorem foreign_read_ok fs fc batches :
  fshape_ok fs -> Forall (fbatch_ok fs) batches -> choices_ok fc -> fc_inject fc = None ->
  fsizes_ok fs fc batches ->
  read_all decompress fs (foreign_file compress fs fc batches) =
  {| o_open_ok := true;
     o_rows := Z.of_nat (length (concat batches));
     o_nexts := N.of_nat (length (concat batches));
     o_err := false; o_panic := false;
     o_recs := concat batches |}.
Proof. intros. unfold read_all. apply foreign_read_ok_src; assumption. Qed.

(** ** The hypotheses as boolean checks *)

Definition fshape_okb (fs : list field) : bool :=
  ty_okb (TGroup fs) && nodupb (map c_path (columns fs))
  && forallb (fun c => (max_def c <=? 15) && (max_rep c <=? 15)) (columns fs).

Lemma fshape_okb_sound fs : fshape_okb fs = true -> fshape_ok fs.
Proof.
  unfold fshape_okb, fshape_ok. intros H.
  apply andb_prop in H. destruct H as [H H3]. apply andb_prop in H. destruct H as [H1 H2].
  split; [exact H1|]. split; [apply nodupb_sound; exact H2|].
  apply Forall_forall. intros c Hc. rewrite forallb_forall in H3. specialize (H3 c Hc). lia.
Qed.

Definition fbatch_okb (fs : list field) (recs : list value) : bool :=
  negb (Nat.eqb (length recs) 0) && forallb (has_tyb (TGroup fs)) recs.

Lemma fbatch_okb_sound fs recs : fbatch_okb fs recs = true -> fbatch_ok fs recs.
Proof.
  unfold fbatch_okb, fbatch_ok. intros H. apply andb_prop in H. destruct H as [H1 H2]. split.
  - intros ->. discriminate.
  - apply forallb_Forall. exact H2.
Qed.

Definition choices_okb (fc : file_choice) : bool := forallb (fun ch => codec_okb (cc_codec ch)) (fc_cols fc).

Lemma codec_okb_sound z : codec_okb z = true -> codec_ok z.
Proof.
  unfold codec_okb, codec_ok. cbn [In]. intros H.
  destruct (Z.eqb_spec z CODEC_UNCOMPRESSED) as [E|_]; [left; congruence|].
  destruct (Z.eqb_spec z CODEC_SNAPPY) as [E|_]; [right; left; congruence|].
  destruct (Z.eqb_spec z CODEC_GZIP) as [E|_]; [right; right; left; congruence|].
  discriminate.
Qed.

Lemma choices_okb_sound fc : choices_okb fc = true -> choices_ok fc.
Proof.
  unfold choices_okb, choices_ok. intros H. apply Forall_forall. intros ch Hin.
  rewrite forallb_forall in H. apply codec_okb_sound, H, Hin.
Qed.

Definition fpage_sizes_okb (codec : Z) (c : col) (ch : col_choice) (es : list entry) : bool :=
  (nlen es <? 2 ^ 31) && (nlen (foreign_payload c ch es) <? 2 ^ 31)
  && (nlen (compress codec (foreign_payload c ch es)) <? 2 ^ 31).

Definition fsizes_okb (fs : list field) (fc : file_choice) (batches : list (list value)) : bool :=
  forallb (fun grecs : nat * list value =>
             forallb (fun jc : nat * col =>
                        forallb (fpage_sizes_okb (fbody_codec fc (fst grecs) (fst jc)) (snd jc)
                                                 (fch fc (fst grecs) (fst jc)))
                                (fpages_es fs fc (fst grecs) (fst jc) (snd grecs)))
                     (index_from 0 (columns fs)))
          (index_from 0 batches)
  && file_meta_ok (foreign_footer fs fc batches)
  && (nlen (enc_file_meta (foreign_footer fs fc batches)) <? 2 ^ 32).

Lemma fsizes_okb_sound fs fc batches : fsizes_okb fs fc batches = true -> fsizes_ok fs fc batches.
Proof.
  unfold fsizes_okb, fsizes_ok. intros H.
  apply andb_prop in H. destruct H as [H H3]. apply andb_prop in H. destruct H as [H1 H2].
  split; [|split; [exact H2 | lia]].
  intros g recs j c Hg Hc. rewrite forallb_forall in H1.
  specialize (H1 (g, recs) (index_from_In _ 0 g recs Hg)). cbn [fst snd] in H1.
  rewrite forallb_forall in H1. specialize (H1 (j, c) (index_from_In _ 0 j c Hc)). cbn [fst snd] in H1.
  apply Forall_forall. intros es Hes. rewrite forallb_forall in H1. specialize (H1 es Hes).
  unfold fpage_sizes_okb in H1. unfold fpage_sizes_ok. lia.
Qed.

Corollary foreign_read_ok_checked fs fc batches :
  fshape_okb fs = true -> forallb (fbatch_okb fs) batches = true -> choices_okb fc = true ->
  fc_inject fc = None -> fsizes_okb fs fc batches = true ->
  read_all decompress fs (foreign_file compress fs fc batches) =
  {| o_open_ok := true;
     o_rows := Z.of_nat (length (concat batches));
     o_nexts := N.of_nat (length (concat batches));
     o_err := false; o_panic := false;
     o_recs := concat batches |}.
Proof.
  intros H1 H2 H3 H4 H5. apply foreign_read_ok; auto.
  - apply fshape_okb_sound. exact H1.
  - apply Forall_forall. intros b Hb. rewrite forallb_forall in H2. apply fbatch_okb_sound, H2, Hb.
  - apply choices_okb_sound. exact H3.
  - apply fsizes_okb_sound. exact H5.
Qed.

(** ** C18, page level: the pages the reader refuses *)

Lemma header_reject_req codec ph body :
  page_header_ok ph = true -> supported_page ph false false = None ->
  req_bad codec (enc_page_header ph ++ body).
Proof.
  intros Hok Hsup s rest f pgn nread acc sizes Hfail Hrem Hlt. rewrite <- app_assoc in Hrem.
  cbn [do_read_required]. replace (nread <? pgn)%Z with true by lia.
  destruct (m_read_struct_ok dec_page_header s ph _ _ Hfail Hrem (dec_enc_page_header ph _ Hok)) as (s1 & Hh & _).
  rewrite (bind_ok _ _ _ _ _ Hh), Hsup. reflexivity.
Qed.

Lemma header_reject_opt codec c ph body :
  page_header_ok ph = true -> supported_page ph true (0 <? max_rep c) = None ->
  opt_bad codec c (enc_page_header ph ++ body).
Proof.
  intros Hok Hsup s rest f size nread acc Hfail Hrem Hlt. rewrite <- app_assoc in Hrem.
  cbn [do_read_optional]. replace (nread <? size)%Z with true by lia.
  unfold get_pos at 1. unfold bind at 1.
  destruct (m_read_struct_ok dec_page_header s ph _ _ Hfail Hrem (dec_enc_page_header ph _ Hok)) as (s1 & Hh & _).
  rewrite (bind_ok _ _ _ _ _ Hh), Hsup. reflexivity.
Qed.

Lemma codec_reject_req codec ph d body :
  page_header_ok ph = true -> supported_page ph false false = Some d -> ~ codec_ok codec ->
  req_bad codec (enc_page_header ph ++ body).
Proof.
  intros Hok Hsup Hc s rest f pgn nread acc sizes Hfail Hrem Hlt. rewrite <- app_assoc in Hrem.
  cbn [do_read_required]. replace (nread <? pgn)%Z with true by lia.
  destruct (m_read_struct_ok dec_page_header s ph _ _ Hfail Hrem (dec_enc_page_header ph _ Hok)) as (s1 & Hh & _).
  rewrite (bind_ok _ _ _ _ _ Hh), Hsup. unfold bind. rewrite (page_data_unsupported codec ph s1 Hc). reflexivity.
Qed.

Lemma codec_reject_opt codec c ph d body :
  page_header_ok ph = true -> supported_page ph true (0 <? max_rep c) = Some d -> ~ codec_ok codec ->
  opt_bad codec c (enc_page_header ph ++ body).
Proof.
  intros Hok Hsup Hc s rest f size nread acc Hfail Hrem Hlt. rewrite <- app_assoc in Hrem.
  cbn [do_read_optional]. replace (nread <? size)%Z with true by lia.
  unfold get_pos at 1. unfold bind at 1.
  destruct (m_read_struct_ok dec_page_header s ph _ _ Hfail Hrem (dec_enc_page_header ph _ Hok)) as (s1 & Hh & _).
  rewrite (bind_ok _ _ _ _ _ Hh), Hsup. unfold bind. rewrite (page_data_unsupported codec ph s1 Hc). reflexivity.
Qed.

(** when an injection makes [supportedPage] say no *)
Definition inj_rejects (c : col) (inj : injection) : Prop :=
  match inj with
  | IIndexPage | IDataPageV2 => True
  | IEncoding e => e <> ENC_PLAIN /\ i32_ok e = true
  | IDefBitPacked => 0 < max_def c
  | IRepBitPacked => 0 < max_rep c
  | _ => False
  end.

Lemma supported_fhdr_rejects c ch codec inj es :
  inj_rejects c inj ->
  supported_page (fhdr c ch codec inj es) (negb (col_required c)) (negb (col_required c) && (0 <? max_rep c)) = None.
Proof.
  intros Hinj. destruct inj as [| | | |e| | |z]; cbn [inj_rejects] in Hinj; try contradiction.
  - reflexivity.
  - reflexivity.
  - destruct Hinj as [Hne _]. apply Z.eqb_neq in Hne.
    unfold supported_page, fhdr, foreign_page. cbv zeta. cbn [fp_header ph_type ph_data dph_encoding].
    change (Z.eqb PT_DATA_PAGE PT_DATA_PAGE) with true. cbn [negb].
    rewrite Hne. reflexivity.
  - destruct (col_required c) eqn:Hreq; [destruct (col_required_true c Hreq); lia|].
    cbn [negb andb]. destruct (0 <? max_rep c); reflexivity.
  - destruct (col_required c) eqn:Hreq; [destruct (col_required_true c Hreq); lia|].
    cbn [negb andb]. replace (0 <? max_rep c) with true by lia. reflexivity.
Qed.

Lemma inj_rejects_enc_ok c inj : inj_rejects c inj -> inj_enc_ok inj.
Proof. destruct inj; cbn [inj_rejects inj_enc_ok]; tauto. Qed.

Lemma foreign_page_rejected codec c ch inj es :
  fpage_pre codec c ch es -> inj_rejects c inj -> page_bad codec c (fpb c ch codec inj es).
Proof.
  intros Hpre Hinj. split; [apply fpb_pos|].
  pose proof (fhdr_ok c ch codec inj es Hpre (inj_rejects_enc_ok c inj Hinj)) as Hok.
  pose proof (supported_fhdr_rejects c ch codec inj es Hinj) as Hsup.
  unfold fpb. rewrite fp_bytes_eq. destruct (col_required c) eqn:Hreq; cbn [negb andb] in Hsup.
  - apply header_reject_req; assumption.
  - apply header_reject_opt; assumption.
Qed.

(** an unsupported codec in the footer: the first page is refused by pageData *)
Lemma foreign_page_codec_rejected codec z c ch inj es :
  fpage_pre codec c ch es -> inj_plain inj -> ~ codec_ok z -> page_bad z c (fpb c ch codec inj es).
Proof.
  intros Hpre Hinj Hz. split; [apply fpb_pos|].
  assert (Hie : inj_enc_ok inj) by (destruct inj; try destruct Hinj; exact I).
  pose proof (fhdr_ok c ch codec inj es Hpre Hie) as Hok.
  unfold fpb. rewrite fp_bytes_eq. destruct (col_required c) eqn:Hreq.
  - eapply codec_reject_req; [exact Hok | apply (supported_fhdr _ _ _ _ _ _ _ Hinj) | exact Hz].
  - eapply codec_reject_opt; [exact Hok | apply (supported_fhdr _ _ _ _ _ _ _ Hinj) | exact Hz].
Qed.

(** the dictionary page *)
Lemma dict_page_rejected codec bc c :
  nlen (compress bc [0; 0; 0; 0]) < 2 ^ 31 -> page_bad codec c (fp_bytes (dict_page compress bc)).
Proof.
  intros Hlen.
  set (hdr := fp_header (dict_page compress bc)).
  assert (Hb : fp_bytes (dict_page compress bc) = enc_page_header hdr ++ compress bc [0; 0; 0; 0]) by reflexivity.
  assert (Hok : page_header_ok hdr = true).
  { unfold hdr, dict_page. cbv zeta. cbn [fp_header]. unfold page_header_ok, dictionary_page_header_ok.
    cbn [ph_type ph_uncompressed_size ph_compressed_size ph_crc ph_data ph_index ph_dict ph_data_v2 opt_ok
         dict_num_values dict_encoding].
    rewrite (i32_ok_small _ Hlen). reflexivity. }
  split.
  - rewrite Hb, app_length. pose proof (enc_page_header_nonempty hdr). lia.
  - rewrite Hb. destruct (col_required c).
    + apply header_reject_req; [exact Hok | reflexivity].
    + apply header_reject_opt; [exact Hok | destruct (0 <? max_rep c); reflexivity].
Qed.

(** ** C18, chunk level *)

Lemma index_from_app {A} (a b : list A) : forall k,
  index_from k (a ++ b) = index_from k a ++ index_from (k + length a) b.
Proof.
  induction a as [|x a IH]; intros k; cbn [app index_from length].
  - rewrite Nat.add_0_r. reflexivity.
  - rewrite IH. replace (S k + length a)%nat with (k + S (length a))%nat by lia. reflexivity.
Qed.

Lemma map_index_from_range {A B} (F : A -> B) (G : nat * A -> B) (l : list A) : forall k,
  (forall q x, (k <= q < k + length l)%nat -> G (q, x) = F x) -> map G (index_from k l) = map F l.
Proof.
  induction l as [|x l IH]; intros k HG; [reflexivity|].
  cbn [index_from map length] in *. rewrite HG by lia. rewrite (IH (S k)); [reflexivity|].
  intros q y Hq. apply HG. lia.
Qed.

Lemma inj_for_at fc g j p inj q :
  fc_inject fc = Some (g, j, p, inj) -> inj_for fc g j q = if Nat.eqb q p then inj else INone.
Proof. intros H. unfold inj_for. rewrite H, !Nat.eqb_refl. reflexivity. Qed.

Lemma col_inj_at fc g j p inj : fc_inject fc = Some (g, j, p, inj) -> col_inj fc g j = inj.
Proof. intros H. unfold col_inj. rewrite H, !Nat.eqb_refl. reflexivity. Qed.

Lemma col_inj_other fc g j p inj g' j' :
  fc_inject fc = Some (g, j, p, inj) -> (g' <> g \/ j' <> j) -> col_inj fc g' j' = INone.
Proof.
  intros H Hne. unfold col_inj. rewrite H.
  destruct (Nat.eqb_spec g' g) as [->|_]; destruct (Nat.eqb_spec j' j) as [->|_]; try reflexivity. tauto.
Qed.

(** the data pages around the injected page [p] *)
Lemma fdata_pages_split fs fc g j p inj c recs pre esp post :
  fc_inject fc = Some (g, j, p, inj) ->
  fpages_es fs fc g j recs = pre ++ esp :: post -> length pre = p ->
  exists tailp,
    fdata_pages fs fc g j c recs =
    map (foreign_page compress c (fch fc g j) (fbody_codec fc g j) INone) pre ++
    foreign_page compress c (fch fc g j) (fbody_codec fc g j) inj esp :: tailp.
Proof.
  intros Hinj Hsplit Hp. unfold fdata_pages. rewrite Hsplit, index_from_app, map_app.
  cbn [index_from map Nat.add]. eexists. f_equal.
  - apply map_index_from_range. intros q x Hq. rewrite (inj_for_at fc g j p inj q Hinj).
    replace (Nat.eqb q p) with false by lia. reflexivity.
  - rewrite (inj_for_at fc g j p inj _ Hinj), Hp, Nat.eqb_refl. reflexivity.
Qed.

Lemma fdata_pages_count fs fc g j c recs :
  sumN (map fp_count (fdata_pages fs fc g j c recs)) = nlen (column_entries fs j recs).
Proof.
  unfold fdata_pages. rewrite map_map.
  rewrite (map_index_from_const (@nlen entry) _ (fpages_es fs fc g j recs) 0).
  - rewrite sumN_map_nlen', fpages_es_concat. reflexivity.
  - intros q x. reflexivity.
Qed.

Lemma fall_pages_count fs fc g j c recs :
  sumN (map fp_count (fall_pages fs fc g j c recs)) = nlen (column_entries fs j recs).
Proof.
  unfold fall_pages. destruct (col_inj fc g j); apply fdata_pages_count.
Qed.

(** the conditions under which injection [inj] at page [p] of column [c] has an effect *)
Definition inj_effective (c : col) (ch : col_choice) (inj : injection) : Prop :=
  match inj with
  | INone => False
  | IDictPage => nlen (compress (cc_codec ch) [0; 0; 0; 0]) < 2 ^ 31
  | ICodec z => ~ codec_ok z
  | _ => inj_rejects c inj
  end.

Lemma gbytes_map_fpb c ch codec inj (l : list (list entry)) :
  gbytes (map (fun pes => (fpb c ch codec inj pes, pes)) l) =
  concat (map fp_bytes (map (foreign_page compress c ch codec inj) l)).
Proof. unfold gbytes. rewrite !map_map. reflexivity. Qed.

Lemma gentries_map_fpb c ch codec inj (l : list (list entry)) :
  gentries (map (fun pes => (fpb c ch codec inj pes, pes)) l) = concat l.
Proof. unfold gentries. rewrite map_map. cbn [snd]. rewrite map_id. reflexivity. Qed.

Theorem foreign_chunk_fails fs fc g j p inj c recs pos :
  fshape_ok fs -> fbatch_ok fs recs -> nth_error (columns fs) j = Some c ->
  fc_inject fc = Some (g, j, p, inj) -> codec_ok (cc_codec (fch fc g j)) ->
  Forall (fpage_sizes_ok (fbody_codec fc g j) c (fch fc g j)) (fpages_es fs fc g j recs) ->
  (p < length (fpages_es fs fc g j recs))%nat -> inj_effective c (fch fc g j) inj ->
  exists cm, cc_meta (snd (foreign_chunk compress fs fc g j c recs pos)) = Some cm /\
             cm_path cm = c_path c /\
             chunk_fails c cm (fchunk_bytes fs fc g recs (j, c)).
Proof.
  intros Hsh Hb Hc Hinj Hcod Hsz Hp Heff.
  destruct (foreign_chunk_meta fs fc g j c recs pos) as (cm & Hmeta & Hpath & Hcodec' & Hnv & Htot).
  exists cm. split; [exact Hmeta|]. split; [exact Hpath|].
  intros s rest Hfail Hrem.
  pose proof (col_inj_at fc g j p inj Hinj) as Hci.
  rewrite fall_pages_count in Hnv.
  set (ch := fch fc g j) in *. set (bc := fbody_codec fc g j) in *.
  assert (Hbc : codec_ok bc).
  { unfold bc, fbody_codec. rewrite Hci. destruct inj; try exact Hcod. left. reflexivity. }
  pose proof (fpages_pre fs fc g j c recs bc Hsh Hb Hc Hbc Hsz) as Hpre.
  destruct (nth_error_lt p _ Hp) as (esp & Hesp).
  destruct (nth_error_split _ _ Hesp) as (pre & post & Hsplit & Hlpre).
  destruct (fdata_pages_split fs fc g j p inj c recs pre esp post Hinj Hsplit Hlpre) as (tailp & Hdp).
  fold ch bc in Hdp. rewrite Hsplit in Hpre. apply Forall_app in Hpre. destruct Hpre as [Hpre_pre Hpre_rest].
  inversion Hpre_rest as [|e' l' Hpre_p _]; subst e' l'.
  assert (Hentries : (1 <= length (column_entries fs j recs))%nat).
  { destruct (column_entries_props fs j c Hc recs (proj2 Hb)) as (_ & _ & Hne).
    specialize (Hne (proj1 Hb)). destruct (column_entries fs j recs); [congruence | cbn [length]; lia]. }
  assert (Hgood : Forall (page_good bc c) (map (fun pes => (fpb c ch bc INone pes, pes)) pre)).
  { apply Forall_map. eapply Forall_impl; [|exact Hpre_pre]. intros es Hes.
    apply foreign_page_good; [exact Hes | exact I]. }
  assert (Hcat : column_entries fs j recs = concat pre ++ esp ++ concat post).
  { rewrite <- (fpages_es_concat fs fc g j recs), Hsplit, concat_app. reflexivity. }
  assert (Hesp1 : (1 <= length esp)%nat).
  { pose proof (fq_nonempty _ _ _ _ Hpre_p). destruct esp; [congruence | cbn [length]; lia]. }
  unfold fchunk_bytes in Hrem, Htot. cbn [fst snd] in Hrem, Htot.
  assert (Hcases : (inj = IDictPage /\ nlen (compress (cc_codec ch) [0; 0; 0; 0]) < 2 ^ 31) \/
                   (exists z, inj = ICodec z /\ ~ codec_ok z) \/ inj_rejects c inj).
  { destruct inj as [| | | |e| | |z]; cbn [inj_effective] in Heff; try contradiction; auto.
    right. left. exists z. split; [reflexivity | exact Heff]. }
  destruct Hcases as [[-> Hd] | [(z & -> & Hz) | Hrej]].
  - (* dictionary page: refused before any data page *)
    unfold fall_pages in Hrem, Htot. rewrite Hci in Hrem, Htot. fold bc in Hrem, Htot.
    cbn [map concat] in Hrem, Htot. rewrite <- app_assoc in Hrem.
    assert (Hbcd : bc = cc_codec ch) by (unfold bc, fbody_codec; rewrite Hci; reflexivity).
    rewrite <- Hbcd in Hd.
    pose proof (dict_page_rejected (cm_codec cm) bc c Hd) as Hbad.
    apply (read_chunk_bad (cm_codec cm) c [] _ cm s _ (Forall_nil _) Hbad Hfail Hrem eq_refl).
    + cbn [gentries map concat length]. unfold nlen in Hnv. lia.
    + cbn [gbytes map concat length]. rewrite Htot, nlen_app. destruct Hbad as [Hb1 _]. unfold nlen. lia.
  - (* unsupported codec: the first page is refused, whichever page carries the mark *)
    unfold fall_pages in Hrem, Htot. rewrite Hci in Hrem, Htot.
    assert (Hcm : cm_codec cm = z) by (rewrite Hcodec'; unfold fcodec; rewrite Hci; reflexivity).
    destruct (fpages_es fs fc g j recs) as [|es0 post0] eqn:Epages; [cbn [length] in Hp; lia|].
    assert (Hpre0 : fpage_pre bc c ch es0).
    { destruct pre as [|x pre']; cbn [app] in Hsplit; inversion Hsplit; subst.
      - exact Hpre_p.
      - inversion Hpre_pre; assumption. }
    unfold fdata_pages in Hrem, Htot. rewrite Epages in Hrem, Htot.
    cbn [index_from map concat] in Hrem, Htot. rewrite <- app_assoc in Hrem. fold ch bc in Hrem, Htot.
    assert (Hpl : inj_plain (inj_for fc g j 0)).
    { rewrite (inj_for_at fc g j p _ 0 Hinj). destruct (Nat.eqb 0 p); exact I. }
    pose proof (foreign_page_codec_rejected bc z c ch _ es0 Hpre0 Hpl Hz) as Hbad.
    apply (read_chunk_bad z c [] _ cm s _ (Forall_nil _) Hbad Hfail Hrem Hcm).
    + cbn [gentries map concat length]. unfold nlen in Hnv. lia.
    + cbn [gbytes map concat length]. rewrite Htot, nlen_app. destruct Hbad as [Hb1 _]. unfold fpb in Hb1.
      unfold nlen. lia.
  - (* index page, DATA_PAGE_V2, value encoding, BIT_PACKED levels: the pages
       before [p] are read, page [p] is refused by supportedPage *)
    assert (Hall : fall_pages fs fc g j c recs = fdata_pages fs fc g j c recs).
    { unfold fall_pages. rewrite Hci. destruct inj; cbn [inj_rejects] in Hrej; try contradiction; reflexivity. }
    assert (Hcm : cm_codec cm = bc).
    { rewrite Hcodec'. unfold fcodec, bc, fbody_codec. rewrite Hci. destruct inj; cbn [inj_rejects] in Hrej; try contradiction; reflexivity. }
    rewrite Hall, Hdp, map_app, concat_app in Hrem, Htot. cbn [map concat] in Hrem, Htot.
    rewrite <- gbytes_map_fpb, <- !app_assoc in Hrem. rewrite <- gbytes_map_fpb in Htot.
    pose proof (foreign_page_rejected bc c ch _ esp Hpre_p Hrej) as Hbad.
    apply (read_chunk_bad bc c _ _ cm s _ Hgood Hbad Hfail Hrem Hcm).
    + rewrite gentries_map_fpb, Hnv, Hcat. unfold nlen. rewrite !app_length. lia.
    + rewrite Htot, !nlen_app. destruct Hbad as [Hb1 _]. unfold fpb in Hb1. unfold nlen. lia.
Qed.

(** ** C18, row group level: the chunks before column [j] are read, chunk [j] is refused *)
Theorem foreign_rg_fails fs fc g j p inj c recs rg :
  fshape_ok fs -> frg_pre fs fc g recs -> fc_inject fc = Some (g, j, p, inj) ->
  nth_error (columns fs) j = Some c -> (p < length (fpages_es fs fc g j recs))%nat ->
  inj_effective c (fch fc g j) inj ->
  Forall2 (fcc_of fs fc g recs) (index_from 0 (columns fs)) (rg_columns rg) ->
  rg_fails fs rg (frg_bytes fs fc g recs).
Proof.
  intros Hsh Hpre Hinj Hc Hp Heff Hccs s rest Hfail Hrem.
  set (cols := columns fs) in *.
  destruct (nth_error_split _ _ Hc) as (l1 & l2 & Hcols & Hl1).
  assert (Hidx : index_from 0 cols = index_from 0 l1 ++ (j, c) :: index_from (S j) l2).
  { rewrite Hcols, index_from_app. cbn [index_from Nat.add]. rewrite Hl1. reflexivity. }
  rewrite Hidx in Hccs. apply Forall2_app_inv_l in Hccs.
  destruct Hccs as (ccs1 & ccs2' & Hrel1 & Hrel2 & Hrgc).
  inversion Hrel2 as [|ic ccb ics ccs2 Hccb _]; subst ic ics ccs2'.
  assert (Hgood : Forall2 (cc_reads cols) (map (fitem fs fc g recs) (index_from 0 l1)) ccs1).
  { apply Forall2_map_l. eapply Forall2_impl_In; [|exact Hrel1]. intros [j' c'] cc Hin Hcc.
    destruct (index_from_nth_error l1 0 j' c' Hin) as [_ Hnth]. rewrite Nat.sub_0_r in Hnth.
    assert (Hlt : (j' < length l1)%nat) by (apply nth_error_Some; congruence).
    apply (fcc_reads fs fc g recs (j', c') cc Hsh Hpre).
    - fold cols. rewrite Hidx. apply in_or_app. left. exact Hin.
    - cbn [fst]. apply (col_inj_other fc g j p inj g j' Hinj). right. lia.
    - exact Hcc. }
  assert (Hbadcc : cc_fails cols (fchunk_bytes fs fc g recs (j, c)) ccb).
  { destruct Hccb as [pos ->]. cbn [fst snd]. destruct Hpre as [Hb Hcolsp].
    destruct (Hcolsp j c Hc) as [Hcod Hsz].
    destruct (foreign_chunk_fails fs fc g j p inj c recs pos Hsh Hb Hc Hinj Hcod Hsz Hp Heff)
      as (cm & Hmeta & Hpath & Hf).
    exists cm, j, c. split; [exact Hmeta|]. split; [|exact Hf].
    rewrite Hpath. destruct Hsh as (_ & Hnd & _). rewrite (find_col_nth cols j c 0 Hnd Hc). reflexivity. }
  assert (Hbytes : frg_bytes fs fc g recs =
                   cbytes (map (fitem fs fc g recs) (index_from 0 l1)) ++ fchunk_bytes fs fc g recs (j, c) ++
                   concat (map (fchunk_bytes fs fc g recs) (index_from (S j) l2))).
  { unfold frg_bytes, cbytes. fold cols. rewrite Hidx, map_app, concat_app, map_map. reflexivity. }
  rewrite Hbytes, <- !app_assoc in Hrem.
  unfold read_row_group. cbv zeta. fold cols. rewrite Hrgc. unfold bind.
  rewrite (read_chunks_bad cols _ ccs1 _ ccb ccs2 _ s _ Hgood Hbadcc Hfail Hrem). reflexivity.
Qed.

(** ** C18: one unsupported feature — the reader delivers the row groups
    before it, then reports an error, and never panics *)

Lemma frg_pre_of fs fc batches k recs :
  Forall (fbatch_ok fs) batches -> choices_ok fc -> fsizes_ok fs fc batches ->
  nth_error batches k = Some recs -> frg_pre fs fc k recs.
Proof.
  intros Hb Hch (Hsz & _) Hk. split.
  - rewrite Forall_forall in Hb. apply Hb. exact (nth_error_In _ _ Hk).
  - intros j c Hc. split; [apply pick_choice_codec; exact Hch | exact (Hsz k recs j c Hk Hc)].
Qed.

(** the injection hits an existing page and has an effect *)
Definition injection_effective (fs : list field) (fc : file_choice) (batches : list (list value))
           (g j p : nat) (inj : injection) : Prop :=
  exists recs c, nth_error batches g = Some recs /\ nth_error (columns fs) j = Some c /\
                 (p < length (fpages_es fs fc g j recs))%nat /\ inj_effective c (fch fc g j) inj.

Theorem unsupported_refused_src fs fc batches g j p inj sched :
  fshape_ok fs -> Forall (fbatch_ok fs) batches -> choices_ok fc ->
  fc_inject fc = Some (g, j, p, inj) -> injection_effective fs fc batches g j p inj ->
  fsizes_ok fs fc batches ->
  let o := read_all_src decompress fs (mk_src (foreign_file compress fs fc batches) sched None) in
  o_panic o = false /\ (o_open_ok o = false \/ o_err o = true) /\ o_recs o = concat (firstn g batches) /\
  (g = 0%nat -> o_open_ok o = false) /\ (g <> 0%nat -> o_open_ok o = true /\ o_err o = true).
Proof.
  intros Hsh Hb Hch Hinj (recs & c & Hg & Hc & Hp & Heff) Hsizes.
  pose proof Hsizes as (Hsz & Hfm & Hlen).
  rewrite foreign_file_layout.
  destruct (foreign_row_groups_spec fs fc batches 0 4) as (items & Heq & Hrecs & Hall).
  assert (Hrgs : fm_row_groups (foreign_footer fs fc batches) = map ri_rg items).
  { cbn [foreign_footer fm_row_groups]. rewrite Heq. reflexivity. }
  rewrite Heq. cbn [fst].
  assert (Hxg : exists xg, nth_error items g = Some xg /\ ri_recs xg = recs).
  { rewrite <- Hrecs, nth_error_map in Hg. destruct (nth_error items g) as [xg|]; [|discriminate].
    exists xg. split; [reflexivity|]. cbn [option_map] in Hg. congruence. }
  destruct Hxg as (xg & Hxg & Hxrecs).
  destruct (nth_error_split _ _ Hxg) as (items1 & items2 & Hitems & Hlen1).
  pose proof Hall as Hall'. rewrite Hitems in Hall'. apply all_from_app in Hall'.
  destruct Hall' as [Hall1 Hall2]. cbn [all_from] in Hall2. destruct Hall2 as [(Hnr & Hbg & Hccs) _].
  cbn [Nat.add] in Hbg, Hccs. rewrite Hlen1, Hxrecs in Hbg, Hccs.
  assert (Hbatches : batches = map ri_recs items1 ++ recs :: map ri_recs items2).
  { rewrite <- Hrecs, Hitems, map_app. cbn [map]. rewrite Hxrecs. reflexivity. }
  assert (Hfirst : concat (firstn g batches) = rrecs items1).
  { rewrite Hbatches, <- Hlen1, <- (map_length ri_recs items1), firstn_app_exact. reflexivity. }
  assert (Hok1 : Forall (ritem_ok fs) items1).
  { apply (items_ok fs fc Hsh items1 0 Hall1). apply all_from_intro. intros k recs' Hk. cbn [Nat.add].
    assert (Hklt : (k < g)%nat).
    { rewrite <- Hlen1, <- (map_length ri_recs items1). apply nth_error_Some. congruence. }
    split.
    - apply (frg_pre_of fs fc batches k recs' Hb Hch Hsizes).
      rewrite Hbatches, nth_error_app1; [exact Hk | rewrite map_length; lia].
    - intros j'. apply (col_inj_other fc g j p inj k j' Hinj). left. lia. }
  assert (Hbad : rg_fails fs (ri_rg xg) (ri_bytes xg)).
  { rewrite Hbg. apply (foreign_rg_fails fs fc g j p inj c recs (ri_rg xg) Hsh); auto.
    apply (frg_pre_of fs fc batches g recs Hb Hch Hsizes Hg). }
  assert (Hrb : rbytes items = rbytes items1 ++ ri_bytes xg ++ rbytes items2).
  { rewrite Hitems. unfold rbytes. rewrite map_app, concat_app. reflexivity. }
  rewrite Hrb, Hfirst.
  assert (Hne : recs <> []).
  { rewrite Forall_forall in Hb. exact (proj1 (Hb recs (nth_error_In _ _ Hg))). }
  pose proof (read_all_bad fs (foreign_footer fs fc batches) items1 (ri_rg xg) (ri_bytes xg) (map ri_rg items2)
                (rbytes items2) sched Hfm Hlen) as Hmain.
  cbv zeta in Hmain |- *.
  destruct Hmain as (H1 & H2 & H3 & H4 & H5); auto.
  - apply (foreign_footer_checks fs fc items 0); [exact (proj1 (proj2 Hsh)) | exact Hall | exact Hrgs].
  - rewrite Hrgs, Hitems, map_app. reflexivity.
  - cbn [foreign_footer fm_num_rows]. rewrite Hbatches, concat_app. cbn [concat]. rewrite !app_length.
    change (concat (map ri_recs items1)) with (rrecs items1).
    destruct recs; [congruence | cbn [length]; lia].
  - split; [exact H1|]. split; [exact H2|]. split; [exact H3|]. split.
    + intros Hg0. apply H4. destruct items1; [reflexivity | cbn [length] in Hlen1; lia].
    + intros Hg0. apply H5. intros ->. cbn [length] in Hlen1. lia.
Qed.

Theorem unsupported_refused fs fc batches g j p inj :
  fshape_ok fs -> Forall (fbatch_ok fs) batches -> choices_ok fc ->
  fc_inject fc = Some (g, j, p, inj) -> injection_effective fs fc batches g j p inj ->
  fsizes_ok fs fc batches ->
  let o := read_all decompress fs (foreign_file compress fs fc batches) in
  o_panic o = false /\ (o_open_ok o = false \/ o_err o = true) /\ o_recs o = concat (firstn g batches) /\
  (g = 0%nat -> o_open_ok o = false) /\ (g <> 0%nat -> o_open_ok o = true /\ o_err o = true).
Proof.
  intros H1 H2 H3 H4 H5 H6. unfold read_all.
  exact (unsupported_refused_src fs fc batches g j p inj [] H1 H2 H3 H4 H5 H6).
Qed.

(** the effectiveness condition as a boolean check *)
Lemma codec_okb_complete z : codec_ok z -> codec_okb z = true.
Proof.
  unfold codec_ok, codec_okb. cbn [In]. intros [<-|[<-|[<-|[]]]]; reflexivity.
Qed.

Definition inj_effectiveb (c : col) (ch : col_choice) (inj : injection) : bool :=
  match inj with
  | INone => false
  | IDictPage => nlen (compress (cc_codec ch) [0; 0; 0; 0]) <? 2 ^ 31
  | IIndexPage | IDataPageV2 => true
  | IEncoding e => negb (Z.eqb e ENC_PLAIN) && i32_ok e
  | IDefBitPacked => 0 <? max_def c
  | IRepBitPacked => 0 <? max_rep c
  | ICodec z => negb (codec_okb z)
  end.

Definition injection_effectiveb (fs : list field) (fc : file_choice) (batches : list (list value))
           (g j p : nat) (inj : injection) : bool :=
  match nth_error batches g, nth_error (columns fs) j with
  | Some recs, Some c => Nat.ltb p (length (fpages_es fs fc g j recs)) && inj_effectiveb c (fch fc g j) inj
  | _, _ => false
  end.

Lemma inj_effectiveb_sound c ch inj : inj_effectiveb c ch inj = true -> inj_effective c ch inj.
Proof.
  destruct inj as [| | | |e| | |z]; cbn [inj_effectiveb inj_effective inj_rejects]; intros H;
    try discriminate; try exact I; try lia.
  - apply andb_prop in H. destruct H as [H1 H2]. split; [|exact H2].
    apply negb_true_iff in H1. apply Z.eqb_neq. exact H1.
  - intros Hz. apply codec_okb_complete in Hz. rewrite Hz in H. discriminate.
Qed.

Lemma injection_effectiveb_sound fs fc batches g j p inj :
  injection_effectiveb fs fc batches g j p inj = true -> injection_effective fs fc batches g j p inj.
Proof.
  unfold injection_effectiveb, injection_effective. intros H.
  destruct (nth_error batches g) as [recs|]; [|discriminate].
  destruct (nth_error (columns fs) j) as [c|]; [|discriminate].
  apply andb_prop in H. destruct H as [H1 H2]. exists recs, c.
  split; [reflexivity|]. split; [reflexivity|]. split; [apply Nat.ltb_lt; exact H1|].
  apply inj_effectiveb_sound. exact H2.
Qed.

Corollary unsupported_refused_checked fs fc batches g j p inj :
  fshape_okb fs = true -> forallb (fbatch_okb fs) batches = true -> choices_okb fc = true ->
  fc_inject fc = Some (g, j, p, inj) -> injection_effectiveb fs fc batches g j p inj = true ->
  fsizes_okb fs fc batches = true ->
  let o := read_all decompress fs (foreign_file compress fs fc batches) in
  o_panic o = false /\ (o_open_ok o = false \/ o_err o = true) /\ o_recs o = concat (firstn g batches) /\
  (g = 0%nat -> o_open_ok o = false) /\ (g <> 0%nat -> o_open_ok o = true /\ o_err o = true).
Proof.
  intros H1 H2 H3 H4 H5 H6. apply (unsupported_refused fs fc batches g j p inj); auto.
  - apply fshape_okb_sound. exact H1.
  - apply Forall_forall. intros b Hb. rewrite forallb_forall in H2. apply fbatch_okb_sound, H2, Hb.
  - apply choices_okb_sound. exact H3.
  - apply injection_effectiveb_sound. exact H5.
  - apply fsizes_okb_sound. exact H6.
Qed.

End WithCodec.

(** ** The hypotheses are satisfiable: the shape of [ReaderProofs2.Example]
    (one optional int32, one repeated bool, one required string column), two
    row groups, column choices with both run kinds, page sizes [1;2] and
    [2;1], padding values 1 and 7, every optional footer/header field in both
    states; identity codec *)
Module ForeignExample.
Import Example.

Definition ch1 : col_choice :=
  {| cc_codec := CODEC_UNCOMPRESSED; cc_page_sizes := [1; 2]%nat; cc_rep_choices := [3; 0; 4; 1];
     cc_def_choices := [1; 2; 0]; cc_pad := 1; cc_stats := 2; cc_crc := true;
     cc_file_offset_kind := 2; cc_encoding_stats := true |}.
Definition ch2 : col_choice :=
  {| cc_codec := CODEC_UNCOMPRESSED; cc_page_sizes := [2; 1]%nat; cc_rep_choices := [0; 2; 1];
     cc_def_choices := [4; 1]; cc_pad := 7; cc_stats := 1; cc_crc := false;
     cc_file_offset_kind := 0; cc_encoding_stats := false |}.
Definition fc_with (i : option (nat * nat * nat * injection)) : file_choice :=
  {| fc_cols := [ch1; ch2]; fc_created_by := Some [65]; fc_key_value := true;
     fc_byte_size_uncompressed := true; fc_inject := i |}.
Definition fc0 : file_choice := fc_with None.
Definition bs1 : list (list value) := [[r1; r2; r3]; [r3; r1; r1; r2]].

(** both run kinds occur, and a padded tail *)
Example segment_instance :
  segment 14 2 [2; 1; 0; 1] 1 [0; 0; 0; 0; 1; 1; 1; 2; 0; 0; 1; 2; 2] =
  [RRle 2 0; RBp [[0; 0; 1; 1; 1; 2; 0; 0]]; RRle 1 1; RBp [[2; 2; 1; 1; 1; 1; 1; 1]]].
Proof. vm_compute. reflexivity. Qed.

Example hyps_hold :
  fshape_okb fs0 = true /\ forallb (fbatch_okb fs0) bs1 = true /\ choices_okb fc0 = true /\
  fsizes_okb cid fs0 fc0 bs1 = true.
Proof. vm_compute. repeat split. Qed.

Example fsizes_instance : fsizes_ok cid fs0 fc0 bs1.
Proof. apply fsizes_okb_sound. vm_compute. reflexivity. Qed.

Example read_instance :
  o_recs (read_all did fs0 (foreign_file cid fs0 fc0 bs1)) = concat bs1.
Proof.
  destruct hyps_hold as (H1 & H2 & H3 & H4).
  rewrite (foreign_read_ok_checked cid did (fun c x _ => eq_refl) (fun x => eq_refl) fs0 fc0 bs1 H1 H2 H3 eq_refl H4).
  reflexivity.
Qed.

Example read_eval :
  read_all did fs0 (foreign_file cid fs0 fc0 bs1) =
  {| o_open_ok := true; o_rows := 7; o_nexts := 7; o_err := false; o_panic := false; o_recs := concat bs1 |}.
Proof. vm_compute. reflexivity. Qed.

(** every injection, in the second row group / in the first *)
Definition injections : list injection :=
  [IDictPage; IIndexPage; IDataPageV2; IEncoding 2; IDefBitPacked; IRepBitPacked; ICodec 4].

Example inj_hyps_hold :
  forallb (fun i => injection_effectiveb cid fs0 (fc_with (Some (1, 1, 1, i)%nat)) bs1 1 1 1 i
                    && fsizes_okb cid fs0 (fc_with (Some (1, 1, 1, i)%nat)) bs1) injections = true.
Proof. vm_compute. reflexivity. Qed.

Example refused_instance :
  let o := read_all did fs0 (foreign_file cid fs0 (fc_with (Some (1, 1, 1, IDataPageV2)%nat)) bs1) in
  o_panic o = false /\ o_err o = true /\ o_recs o = [r1; r2; r3].
Proof.
  destruct hyps_hold as (H1 & H2 & H3 & _).
  destruct (unsupported_refused_checked cid did (fun c x _ => eq_refl) (fun x => eq_refl) fs0
              (fc_with (Some (1, 1, 1, IDataPageV2)%nat)) bs1 1 1 1 IDataPageV2 H1 H2 H3 eq_refl)
    as (Hp & _ & Hr & _ & He); [vm_compute; reflexivity | vm_compute; reflexivity |].
  cbv zeta. split; [exact Hp|]. split; [apply He; discriminate | exact Hr].
Qed.

Example refused_eval :
  map (fun i => let o := read_all did fs0 (foreign_file cid fs0 (fc_with (Some (1, 1, 1, i)%nat)) bs1) in
                (o_open_ok o, o_err o, o_panic o, o_recs o)) injections =
  repeat (true, true, false, [r1; r2; r3]) 7 /\
  map (fun i => let o := read_all did fs0 (foreign_file cid fs0 (fc_with (Some (0, 1, 0, i)%nat)) bs1) in
                (o_open_ok o, o_err o, o_panic o, o_recs o)) injections =
  repeat (false, true, false, []) 7.
Proof. vm_compute. split; reflexivity. Qed.

(** the effectiveness conditions are needed: BIT_PACKED level encodings on a
    column without such levels are never looked at *)
Example ineffective_eval :
  o_recs (read_all did fs0 (foreign_file cid fs0 (fc_with (Some (0, 2, 0, IDefBitPacked)%nat)) bs1)) = concat bs1 /\
  o_recs (read_all did fs0 (foreign_file cid fs0 (fc_with (Some (0, 0, 0, IRepBitPacked)%nat)) bs1)) = concat bs1.
Proof. vm_compute. split; reflexivity. Qed.
End ForeignExample.

Print Assumptions segment_ok.
Print Assumptions split_pages_ok.
Print Assumptions foreign_chunk_fails.
Print Assumptions foreign_read_ok.
Print Assumptions foreign_read_ok_checked.
Print Assumptions unsupported_refused.
Print Assumptions unsupported_refused_checked.
Print Assumptions ForeignExample.read_instance.
Print Assumptions ForeignExample.refused_instance.
